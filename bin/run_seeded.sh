#!/bin/bash
# bin/run_seeded.sh [name...] — regression of the machinery against the seeded changes in /verif/seeded:
# applies each patch.diff to /repo's working tree (which must be clean), runs the quick checks recorded in
# its meta.json, undoes it straight afterwards (git checkout -- .) and prints which checks reported a violation.
# Nothing is ever committed to /repo.  Exit 0 iff every seeded change was detected by at least one check.
set -u
V=$(cd "$(dirname "$0")/.." && pwd)
cd "$V"
if [ -n "$(git -C /repo status --porcelain)" ]; then echo "/repo working tree is not clean"; exit 2; fi
names=${*:-$(ls seeded)}
missed=0
for n in $names; do
  d=seeded/$n
  [ -f $d/patch.diff ] || continue
  props=$(python3 -c "import json;print(' '.join(json.load(open('$d/meta.json')).get('checks_run',[])))")
  git -C /repo apply "$V/$d/patch.diff" || { echo "$n: patch does not apply"; missed=1; continue; }
  det=""
  for p in $props; do
    r=$(bin/check $p quick 2>&1 | grep -E '^(VIOLATION|OK|INFRA)' | head -1)
    case "$r" in VIOLATION*) det="$det $p";; esac
    for f in $(echo "$r" | grep -o 'replay=[^ ]*' | cut -d= -f2); do rm -f "$f"; done
  done
  git -C /repo checkout -- .
  python3 - "$d/meta.json" "$det" <<'PY'
import json,sys
m=json.load(open(sys.argv[1])); m['detected_by']=sys.argv[2].split(); json.dump(m,open(sys.argv[1],'w'),indent=1)
PY
  if [ -z "$det" ]; then echo "MISSED  $n (ran: $props)"; missed=1; else echo "caught  $n by:$det (ran: $props)"; fi
done
bin/build.sh go >/dev/null 2>&1
exit $missed
