#!/bin/bash
# bin/try_mutant.sh <name> <patch.diff> <demo_test.go> <meta.json> <props...>
# 1. confirms, in a scratch worktree of /repo outside /repo and /verif, that the change compiles, the existing
#    suite still passes, and the demonstration fails with the change and passes without it;
# 2. applies the change to /repo, runs the quick checks of the given properties, and undoes it straight afterwards;
# 3. files everything under /verif/seeded/<name>/.
set -u
name=$1; patch=$2; demo=$3; meta=$4; shift 4
export GOFLAGS=-mod=mod GOPROXY=off GOSUMDB=off GOTOOLCHAIN=local
V=${VERIF_DIR:-/verif}; S=/tmp/mutv/$name
out=/verif/seeded/$name; mkdir -p $out
rm -rf $S; mkdir -p /tmp/mutv
git -C /repo worktree add -q --detach $S HEAD || exit 2
res() { echo "$1" | tee -a $out/confirm.log; }
: > $out/confirm.log
cp "$demo" $S/mutant_demo_test.go
( cd $S && go test -vet=off -count=1 -run 'Mutant|Demo' . > $out/demo_without.log 2>&1 ); a=$?
res "demo without the change: exit $a (want 0)"
( cd $S && git apply "$patch" ) || { res "patch does not apply to /repo HEAD"; git -C /repo worktree remove --force $S; exit 3; }
( cd $S && go build . ./cmd/gmars > $out/build.log 2>&1 ); b=$?
res "build with the change: exit $b (want 0)"
mv $S/mutant_demo_test.go /tmp/mutv/$name.demo.go
( cd $S && go test -vet=off -count=1 . > $out/suite_with.log 2>&1 ); c=$?
res "existing suite with the change: exit $c (want 0)"
mv /tmp/mutv/$name.demo.go $S/mutant_demo_test.go
( cd $S && go test -vet=off -count=1 -run 'Mutant|Demo' . > $out/demo_with.log 2>&1 ); d=$?
res "demo with the change: exit $d (want non-zero)"
git -C /repo worktree remove --force $S
cp "$patch" $out/patch.diff; cp "$demo" $out/demo_test.go
confirmed=false
if [ $a = 0 ] && [ $b = 0 ] && [ $c = 0 ] && [ $d != 0 ]; then confirmed=true; fi
res "confirmed=$confirmed"
detected=""
if [ "$confirmed" = true ] && [ -z "$(git -C /repo status --porcelain)" ]; then
  git -C /repo apply "$patch"
  for p in "$@"; do
    r=$(cd $V && bin/check $p quick 2>&1 | grep -E '^(VIOLATION|OK|KNOWN|INFRA)' | tr '\n' ';')
    res "check $p: $r"
    case "$r" in *VIOLATION*) detected="$detected $p";; esac
    for f in $(echo "$r" | grep -o 'replay=[^ ;]*' | cut -d= -f2); do [ -f "$f" ] && cp "$f" $out/ && rm -f "$f"; done
  done
  git -C /repo checkout -- .
  res "repo restored: $(git -C /repo status --porcelain | wc -l) dirty files"
fi
python3 - "$meta" "$out/meta.json" "$confirmed" "$detected" "$*" <<'PY'
import json,sys
src,dst,conf,det,props=sys.argv[1:6]
try: m=json.load(open(src))
except Exception: m={}
m['confirmed_by_us']=(conf=='true'); m['checks_run']=props.split(); m['detected_by']=det.split()
m['what_we_ran']='bin/try_mutant.sh: scratch worktree (demo without: pass; build+existing suite with: pass; demo with: fail), then git apply to /repo, bin/check <prop> quick for each property, git checkout -- .'
json.dump(m,open(dst,'w'),indent=1)
PY
echo "detected_by:$detected"
