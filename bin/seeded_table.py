#!/usr/bin/env python3
"""Prints the markdown table of /verif/seeded (what each change is, which checks were run, which caught it)
and, with --write, splices it into DESIGN.md between the SEEDED markers."""
import json, glob, os, sys, re
V = os.path.dirname(os.path.dirname(os.path.abspath(__file__)))
rows = ['| change | aimed at | what it does | checks run | reported a violation |', '|---|---|---|---|---|']
for d in sorted(glob.glob(os.path.join(V, 'seeded', '*', 'meta.json'))):
    m = json.load(open(d))
    name = d.split('/')[-2]
    summ = (m.get('summary') or m.get('description') or '').replace('|', '/').replace('\n', ' ')
    summ = summ[:260] + ('...' if len(summ) > 260 else '')
    rows.append('| `%s` | %s | %s | %s | %s |' % (name, m.get('property', '?'), summ, ' '.join(m.get('checks_run', [])), ' '.join(m.get('detected_by', [])) or '**none**'))
table = '\n'.join(rows)
if '--write' in sys.argv:
    p = os.path.join(V, 'DESIGN.md')
    s = open(p).read()
    if 'SEEDED_TABLE' in s:
        s = s.replace('SEEDED_TABLE', '<!-- SEEDED:BEGIN -->\n' + table + '\n<!-- SEEDED:END -->')
    else:
        s = re.sub(r'<!-- SEEDED:BEGIN -->.*?<!-- SEEDED:END -->', lambda _: '<!-- SEEDED:BEGIN -->\n' + table + '\n<!-- SEEDED:END -->', s, flags=re.S)
    open(p, 'w').write(s)
else:
    print(table)
