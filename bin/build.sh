#!/bin/bash
# Builds everything the checks need from files on disk: Coq development (full
# .vo build), extracted OCaml model, Go harness against /repo's working tree.
# usage: build.sh [coq|ocaml|go|all]
set -e
cd "$(dirname "$0")/.."
V=$(pwd)
what=${1:-all}
export GOFLAGS=-mod=mod GOPROXY=off GOSUMDB=off GOTOOLCHAIN=local
mkdir -p build/ocaml
if [ "$what" = coq ] || [ "$what" = all ]; then
  ( cd coq && coq_makefile -f _CoqProject -o Makefile >/dev/null 2>&1 && timeout 3000 make -j16 2>&1 | grep -v '^COQ\|^make' > ../build/coq.log || true; test "${PIPESTATUS[0]}" = 0 ) || { tail -30 build/coq.log; echo "coq build failed"; exit 3; }
fi
if [ "$what" = ocaml ] || [ "$what" = all ]; then
  ( cd build/ocaml && cp "$V/ocaml/driver.ml" . &&
    if [ ! -f model.ml ] || [ "$V/coq/theories/extract/Extract.v" -nt model.ml ] || [ -n "$(find "$V/coq/theories/model" "$V/coq/theories/spec" -name '*.vo' -newer model.ml 2>/dev/null | head -1)" ] || [ ! -x model ] || [ driver.ml -nt model ]; then
      rm -f model && timeout 600 coqc -Q "$V/coq/theories" GM "$V/coq/theories/extract/Extract.v" -o ./Extract.vo >/dev/null &&
      ocamlfind ocamlopt -package unix -linkpkg -O3 -w -a model.mli model.ml driver.ml -o model > ../ocaml.log 2>&1 || { cat ../ocaml.log; echo "ocaml build failed"; exit 3; }
    fi ) || exit 3
fi
if [ "$what" = go ] || [ "$what" = all ]; then
  ( cd go && cp /repo/go.sum . && go build -tags verif -o "$V/build/harness" . && go build -o "$V/build/gmars" github.com/bobertlo/gmars/cmd/gmars && { go build -race -tags verif -o "$V/build/harness-race" . 2>/dev/null || echo "note: go build -race unavailable" ; } )
fi
