#!/usr/bin/env python3
"""Regenerates MANIFEST.json from lib/manifest_data.py (claimed checks) and properties.jsonl."""
import json, os, sys
V = os.path.dirname(os.path.dirname(os.path.abspath(__file__)))
sys.path.insert(0, os.path.join(V, 'lib'))
from manifest_data import CHECKS, NOT_APPLICABLE, NOTES
props = [json.loads(l)['id'] for l in open(os.path.join(V, 'properties.jsonl'))]
checks = []
for pid in props:
    if pid in CHECKS:
        c = CHECKS[pid]
        checks.append(dict(
            property_id=pid,
            quick_cmd='bin/check %s quick' % pid,
            thorough_cmd='bin/check %s thorough' % pid,
            evidence_file='/verif/evidence/%s.json' % pid,
            replay_cmd_template='bin/check %s --replay {path}' % pid,
            engine='coq-proof+correspondence',
            level_claimed=dict(category='proof', text=c['text'], design_ref=c['design_ref']),
            level_note=c['note'],
            technique=c['technique']))
na = [dict(property_id=p, reason=NOT_APPLICABLE.get(p, 'check not built yet; see DESIGN.md section 5 for the planned theorem')) for p in props if p not in CHECKS]
m = dict(
    version=1,
    setup_cmd='bin/build.sh all',
    hooks=dict(guard='verif', enable='go build -tags verif of /verif/go with replace => /repo (bin/build.sh go); the hooks only expose stage outputs (lexer tokens, FOR pass loop, expression evaluation), the VM checks use the public API only',
               baseline_off_cmd='cd /repo && go test -vet=off -count=1 ./...', source_commits=['59338c9', 'b5904d3', 'd635afd'], add_only=True),
    engines=[dict(name='coq-proof+correspondence', path='/verif/bin/check', serves_properties=[c['property_id'] for c in checks],
                  kind_free_text='Coq 8.16 theorems about hand-written Gallina models (coq/theories), tied to /repo on every run by differential correspondence of the extracted model and monitored by the extracted reference specs')],
    checks=checks, notes=NOTES, not_applicable=na)
json.dump(m, open(os.path.join(V, 'MANIFEST.json'), 'w'), indent=1)
print('claimed:', [c['property_id'] for c in checks])
