(* driver.ml — runs the extracted model on a case file.
   Input: one case per line, space-separated decimal integers.
   Output: one line per case: records separated by " | ", integers by spaces. *)
open Model

let rec pos_of_int (n : int) : positive =
  if n = 1 then XH
  else if n land 1 = 0 then XO (pos_of_int (n lsr 1))
  else XI (pos_of_int (n lsr 1))

let z_of_int (n : int) : z =
  if n = 0 then Z0 else if n > 0 then Zpos (pos_of_int n) else Zneg (pos_of_int (-n))

let ten = z_of_int 10

let z_of_string (s : Stdlib.String.t) : z =
  let neg = Stdlib.String.length s > 0 && s.[0] = '-' in
  let body = if neg then Stdlib.String.sub s 1 (Stdlib.String.length s - 1) else s in
  let v =
    if Stdlib.String.length body <= 18 then z_of_int (int_of_string body)
    else begin
      let acc = ref Z0 in
      Stdlib.String.iter (fun ch ->
        acc := Z.add (Z.mul !acc ten) (z_of_int (Char.code ch - 48))) body;
      !acc
    end in
  if neg then Z.opp v else v

let rec int_of_pos (p : positive) : int =
  match p with
  | XH -> 1
  | XO q -> 2 * int_of_pos q
  | XI q -> 2 * int_of_pos q + 1

let rec pos_bits (p : positive) : int =
  match p with XH -> 1 | XO q | XI q -> 1 + pos_bits q

let rec string_of_z (x : z) : Stdlib.String.t =
  match x with
  | Z0 -> "0"
  | Zneg p -> "-" ^ string_of_z (Zpos p)
  | Zpos p ->
    if pos_bits p <= 61 then string_of_int (int_of_pos p)
    else begin
      let (q, r) = Z.div_eucl x ten in
      string_of_z q ^ string_of_z r
    end

let parse_line (line : Stdlib.String.t) : z list =
  let toks = List.filter (fun s -> s <> "") (Stdlib.String.split_on_char ' ' line) in
  List.map z_of_string toks

let parse_records (line : Stdlib.String.t) : z list list =
  List.filter (fun r -> r <> [])
    (List.map (fun part -> parse_line part) (Stdlib.String.split_on_char '|' line))

let print_records (buf : Buffer.t) (out : z list list) : unit =
  Buffer.clear buf;
  List.iteri (fun i rcd ->
    if i > 0 then Buffer.add_string buf " | ";
    List.iteri (fun j v ->
      if j > 0 then Buffer.add_char buf ' ';
      Buffer.add_string buf (string_of_z v)) rcd) out;
  print_string (Buffer.contents buf);
  print_newline ()

(* a case the extracted model cannot finish within the limit (or within memory) answers the record 97:
   "beyond the resources of the executable model" - the harness does not compare such a case with gmars
   (the model appends to lists where gmars sends on a channel, so huge FOR expansions are quadratic here) *)
exception Timeout
let case_limit = try int_of_string (Sys.getenv "VERIF_MODEL_CASE_SECONDS") with _ -> 10

let guarded (f : z list -> z list list) (c : z list) : z list list =
  ignore (Unix.alarm case_limit);
  let r = (try f c with Timeout | Out_of_memory | Stack_overflow -> [[z_of_int 97]]) in
  ignore (Unix.alarm 0);
  r

let () =
  Sys.set_signal Sys.sigalrm (Sys.Signal_handle (fun _ -> raise Timeout));
  let which = if Array.length Sys.argv > 1 then Sys.argv.(1) else "model" in
  let ic = if Array.length Sys.argv > 2 then open_in Sys.argv.(2) else stdin in
  let buf = Buffer.create 65536 in
  if which = "mon" then begin
    let ic2 = open_in Sys.argv.(3) in
    (try
      while true do
        let line = input_line ic in
        let impl = input_line ic2 in
        print_records buf (mon_case_all (parse_line line) (parse_records impl))
      done
    with End_of_file -> ())
  end else begin
    let f = if which = "spec" then spec_case2 else run_case6 in
    (try
      while true do
        let line = input_line ic in
        print_records buf (guarded f (parse_line line))
      done
    with End_of_file -> ())
  end
