package main

import (
	"bufio"
	"math/rand"

	"github.com/bobertlo/gmars"
)

type wdata struct {
	code  []gmars.Instruction
	start int
}

func guard(f func()) (panicked bool) {
	defer func() {
		if recover() != nil {
			panicked = true
		}
	}()
	f()
	return false
}

// runApi mirrors Codec.run_api.
func runApi(e *emitter, c []int64) {
	if len(c) < 8 {
		e.rec(0)
		return
	}
	cfg := gmars.SimulatorConfig{Mode: gmars.ICWS94, CoreSize: gmars.Address(c[0]), ReadLimit: gmars.Address(c[1]),
		WriteLimit: gmars.Address(c[2]), Processes: gmars.Address(c[3]), Cycles: gmars.Address(c[4]),
		Length: gmars.Address(c[5]), Distance: gmars.Address(c[6])}
	nd := int(c[7])
	c = c[8:]
	var ds []wdata
	for i := 0; i < nd; i++ {
		if len(c) < 2 {
			e.rec(0)
			return
		}
		n := int(c[0])
		d := wdata{start: int(c[1])}
		c = c[2:]
		for j := 0; j < n; j++ {
			in, rest, ok := rdInstr(c)
			if !ok {
				e.rec(0)
				return
			}
			d.code = append(d.code, in)
			c = rest
		}
		ds = append(ds, d)
	}
	if len(c) < 1 {
		e.rec(0)
		return
	}
	nops := int(c[0])
	c = c[1:]
	var sim gmars.ReportingSimulator
	var err error
	if guard(func() { sim, err = gmars.NewReportingSimulator(cfg) }) {
		e.rec(1, 2)
		return
	}
	if err != nil {
		e.rec(1, 0)
		return
	}
	e.rec(1, 1)
	var hs []gmars.Warrior
	obs := func() { e.rec(observe([]int64{31}, sim, hs, true)...) }
	for k := 0; k < nops; k++ {
		if len(c) < 1 {
			return
		}
		op := c[0]
		c = c[1:]
		arg := func() int64 {
			if len(c) == 0 {
				return 0
			}
			v := c[0]
			c = c[1:]
			return v
		}
		switch op {
		case 1:
			kk := int(arg())
			if kk < 0 || kk >= len(ds) {
				e.rec(30, 3)
				obs()
				continue
			}
			var w gmars.Warrior
			if guard(func() { w, _ = sim.AddWarrior(&gmars.WarriorData{Code: ds[kk].code, Start: ds[kk].start}) }) {
				e.rec(30, 2)
				return
			}
			hs = append(hs, w)
			e.rec(30, 0)
			obs()
		case 2:
			i := int(arg())
			off := uint64(arg())
			var serr error
			if guard(func() { serr = sim.SpawnWarrior(i, gmars.Address(off)) }) {
				e.rec(30, 2)
				return
			}
			if serr != nil {
				e.rec(30, 1)
			} else {
				e.rec(30, 0)
			}
			obs()
		case 3:
			var r int
			if guard(func() { r = sim.RunCycle() }) {
				e.rec(30, 2)
				return
			}
			e.rec(30, 0, int64(r))
			obs()
		case 4:
			var res []bool
			if guard(func() { res = sim.Run() }) {
				e.rec(30, 2)
				return
			}
			if res == nil {
				e.rec(30, 1)
			} else {
				out := []int64{30, 0}
				for _, b := range res {
					if b {
						out = append(out, 1)
					} else {
						out = append(out, 0)
					}
				}
				e.rec(out...)
			}
			obs()
		case 5:
			if guard(func() { sim.Reset() }) {
				e.rec(30, 2)
				return
			}
			e.rec(30, 0)
			obs()
		case 6:
			i := int(arg())
			var w gmars.Warrior
			if guard(func() { w = sim.GetWarrior(i) }) {
				e.rec(30, 2)
				return
			}
			if w == nil {
				e.rec(30, 1)
			} else {
				e.rec(30, 0)
			}
			obs()
		case 7:
			a := uint64(arg())
			var in gmars.Instruction
			if guard(func() { in = sim.GetMem(gmars.Address(a)) }) {
				e.rec(30, 2)
				return
			}
			e.rec(encInstr([]int64{30, 0}, in)...)
			obs()
		case 8, 9, 10, 11:
			h := int(arg())
			if h < 0 || h >= len(hs) {
				e.rec(30, 3)
				obs()
				continue
			}
			w := hs[h]
			var out []int64
			if guard(func() {
				switch op {
				case 8:
					if w.Alive() {
						out = []int64{30, 0, 1}
					} else {
						out = []int64{30, 0, 0}
					}
				case 9:
					q := w.Queue()
					out = []int64{30, 0, int64(len(q))}
					for _, a := range q {
						out = append(out, int64(a))
					}
				case 10:
					pc, err := w.NextPC()
					if err != nil {
						out = []int64{30, 1}
					} else {
						out = []int64{30, 0, int64(pc)}
					}
				case 11:
					out = []int64{30, 0, int64(w.Length())}
				}
			}) {
				e.rec(30, 2)
				return
			}
			e.rec(out...)
			obs()
		default:
			return
		}
	}
}

// ---------- generators ----------

var tinyCode = [][]int64{
	{1, 6, 0, 0, 1, 0},  // MOV.I $0, $1  (imp)
	{0, 0, 0, 1, 0, 1},  // DAT.F #0, #0
	{15, 2, 0, 0, 0, 0}, // SPL.B $0, $0
	{11, 2, 0, 0, 0, 0}, // JMP.B $0, $0
	{14, 0, 1, 7, 1, 5}, // DJN.F >1, <1
	{2, 3, 1, 1, 1, 0},  // ADD.AB #1, $1
	{16, 2, 0, 0, 0, 0}, // NOP.B $0, $0
	{1, 6, 1, 6, 2, 4},  // MOV.I }1, {2
}

func apiHeader(m, p, cyc int64, d0, d1 [][]int64, s0, s1 int64) []int64 {
	c := []int64{2, m, m, m, p, cyc, 0, 0, 2, int64(len(d0)), s0}
	for _, i := range d0 {
		c = append(c, i...)
	}
	c = append(c, int64(len(d1)), s1)
	for _, i := range d1 {
		c = append(c, i...)
	}
	return c
}

func apiAlphabet(m int64) [][]int64 {
	var a [][]int64
	a = append(a, []int64{1, 0}, []int64{1, 1})
	for _, i := range []int64{-1, 0, 1, 2} {
		for _, off := range []int64{0, m - 1, m, 2*m + 3} {
			a = append(a, []int64{2, i, off})
		}
	}
	a = append(a, []int64{3}, []int64{4}, []int64{5})
	for _, i := range []int64{-1, 0, 1, 2} {
		a = append(a, []int64{6, i})
	}
	a = append(a, []int64{7, 0}, []int64{7, m + 2})
	a = append(a, []int64{8, 0}, []int64{9, 0}, []int64{10, 0}, []int64{10, 1}, []int64{11, 0})
	return a
}

// genApiExhaustive: every op sequence of the given depth over the alphabet, on a
// 5-cell core with a one-instruction imp and a two-instruction warrior whose entry point is 1.
func genApiExhaustive(w *bufio.Writer, depth int) {
	m := int64(5)
	hdr := apiHeader(m, 2, 3, [][]int64{tinyCode[0]}, [][]int64{tinyCode[1], tinyCode[2]}, 0, 1)
	alpha := apiAlphabet(m)
	idx := make([]int, depth)
	for {
		c := append([]int64{}, hdr...)
		c = append(c, int64(depth))
		for _, k := range idx {
			c = append(c, alpha[k]...)
		}
		wr(w, c)
		p := depth - 1
		for p >= 0 {
			idx[p]++
			if idx[p] < len(alpha) {
				break
			}
			idx[p] = 0
			p--
		}
		if p < 0 {
			return
		}
	}
}

// genApiRandom: random histories up to maxLen calls on tiny cores; biased so that
// warriors get added and spawned early.
func genApiRandom(w *bufio.Writer, r *rand.Rand, n, maxLen int) {
	for k := 0; k < n; k++ {
		m := int64(3 + r.Intn(6))
		p := int64(1 + r.Intn(3))
		cyc := int64(1 + r.Intn(12))
		mk := func() ([][]int64, int64) {
			ln := 1 + r.Intn(3)
			var d [][]int64
			for i := 0; i < ln; i++ {
				ins := append([]int64{}, tinyCode[r.Intn(len(tinyCode))]...)
				if r.Intn(3) == 0 {
					ins[2] = r.Int63n(m)
					ins[4] = r.Int63n(m)
				} else {
					ins[2] %= m
					ins[4] %= m
				}
				d = append(d, ins)
			}
			return d, int64(r.Intn(ln))
		}
		d0, s0 := mk()
		d1, s1 := mk()
		c := apiHeader(m, p, cyc, d0, d1, s0, s1)
		alpha := apiAlphabet(m)
		ln := 1 + r.Intn(maxLen)
		c = append(c, int64(ln))
		for i := 0; i < ln; i++ {
			var op []int64
			switch {
			case i < 2 && r.Intn(4) != 0:
				op = []int64{1, int64(r.Intn(2))}
			case i < 4 && r.Intn(2) == 0:
				op = []int64{2, int64(r.Intn(2)), []int64{0, m - 1, m, 2*m + 3, 1, 2}[r.Intn(6)]}
			case r.Intn(3) == 0:
				op = []int64{3}
			default:
				op = alpha[r.Intn(len(alpha))]
			}
			c = append(c, op...)
		}
		wr(w, c)
	}
}
