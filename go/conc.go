package main

import (
	"bufio"
	"bytes"
	"math/rand"
	"reflect"
	"strings"
	"sync"

	"github.com/bobertlo/gmars"
)

// runConc: kind 14 = [threads; reps; inner case...]: the inner case (an assembly or a battle)
// is run reps times on threads goroutines at once; every result must be the same text.
// Output: [93; number of distinct results] then the records of the first result.
func runConc(e *emitter, c []int64) {
	if len(c) < 3 {
		e.rec(0)
		return
	}
	threads, reps := int(c[0]), int(c[1])
	inner := c[2:]
	// the reference result: the same job run once, alone, and (for battles) without
	// the caller scribbling over its warrior data after AddWarrior
	alone := append([]int64{}, inner...)
	if len(alone) > 6 && alone[0] == 1 {
		alone[6] &^= 128
	}
	var bbuf bytes.Buffer
	bw := bufio.NewWriter(&bbuf)
	runCase(&emitter{w: bw, first: true}, alone)
	bw.Flush()
	baseline := stripVolatile(bbuf.String())
	// battles: one set of warrior data for all goroutines - they share only configuration
	// values and warrior data; afterwards it must be what it was
	var shared, before []*gmars.WarriorData
	if len(inner) > 1 && inner[0] == 1 {
		if bc, ok := rdBcase(inner[1:]); ok && bc.flags&128 == 0 {
			for i := range bc.ws {
				d := &gmars.WarriorData{Code: bc.ws[i].code, Start: bc.ws[i].start}
				if i%2 == 1 {
					d.Name, d.Author, d.Strategy = "w", "a", "s"
				}
				shared = append(shared, d)
				before = append(before, d.Copy())
			}
		}
	}
	results := make([]string, reps)
	var wg sync.WaitGroup
	sem := make(chan struct{}, threads)
	for i := 0; i < reps; i++ {
		wg.Add(1)
		sem <- struct{}{}
		go func(i int) {
			defer wg.Done()
			defer func() { <-sem }()
			var buf bytes.Buffer
			w := bufio.NewWriter(&buf)
			e2 := &emitter{w: w, first: true, shared: shared}
			job := inner
			if len(inner) > 9 && inner[0] == 10 && i > 0 {
				// letter case of mnemonics does not matter: every goroutine but the first writes the dotted
				// mnemonics of the text in a spelling of its own, so that spellings are met for the first time
				// while other assemblies are under way
				job = append(append([]int64{}, inner[:9]...), recaseOps(inner[9:], int64(i)*7919+int64(len(inner)))...)
			}
			runCase(e2, job)
			w.Flush()
			results[i] = stripVolatile(buf.String())
		}(i)
	}
	wg.Wait()
	distinct := map[string]bool{}
	for _, r := range results {
		distinct[r] = true
	}
	e.rec(93, int64(len(distinct)))
	same := int64(1)
	for _, r := range results {
		if r != baseline {
			same = 0
		}
	}
	e.rec(94, same)
	if shared != nil {
		unchanged := int64(1)
		for i := range shared {
			if !reflect.DeepEqual(shared[i], before[i]) {
				unchanged = 0
			}
		}
		e.rec(95, unchanged)
	}
	// re-emit the first result
	for _, part := range strings.Split(results[0], " | ") {
		part = strings.TrimSpace(part)
		if part == "" {
			continue
		}
		vals, err := parseCase(part)
		if err == nil && len(vals) > 0 {
			e.rec(vals...)
		}
	}
}

// goroutine counts and timings differ from run to run by nature
var opNames = map[string]bool{"dat": true, "mov": true, "add": true, "sub": true, "mul": true, "div": true, "mod": true, "jmp": true, "jmz": true,
	"jmn": true, "djn": true, "cmp": true, "seq": true, "sne": true, "slt": true, "spl": true, "nop": true}

// recaseOps rewrites the letters of every word of the form opcode.modifier outside comments in random case
func recaseOps(text []int64, seed int64) []int64 {
	r := rand.New(rand.NewSource(seed))
	out := append([]int64{}, text...)
	isWord := func(c int64) bool {
		return (c >= 'a' && c <= 'z') || (c >= 'A' && c <= 'Z') || (c >= '0' && c <= '9') || c == '_' || c == '.'
	}
	inComment := false
	for i := 0; i < len(out); {
		c := out[i]
		if c == '\n' {
			inComment = false
		} else if c == ';' {
			inComment = true
		}
		if inComment || !isWord(c) {
			i++
			continue
		}
		j := i
		for j < len(out) && isWord(out[j]) {
			j++
		}
		w := make([]byte, 0, j-i)
		for k := i; k < j; k++ {
			w = append(w, byte(out[k]))
		}
		lw := strings.ToLower(string(w))
		if d := strings.IndexByte(lw, '.'); d > 0 && opNames[lw[:d]] {
			for k := i; k < j; k++ {
				ch := out[k]
				if ch >= 'A' && ch <= 'Z' {
					ch += 32
				}
				if ch >= 'a' && ch <= 'z' && r.Intn(2) == 0 {
					ch -= 32
				}
				out[k] = ch
			}
		}
		i = j
	}
	return out
}

func stripVolatile(s string) string {
	var keep []string
	for _, part := range strings.Split(s, " | ") {
		p := strings.TrimSpace(part)
		if strings.HasPrefix(p, "76 ") || p == "76" {
			continue
		}
		keep = append(keep, p)
	}
	return strings.Join(keep, " | ")
}
