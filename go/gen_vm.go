package main

import (
	"bufio"
	"fmt"
	"math/rand"
	"strconv"
)

func wr(w *bufio.Writer, vals []int64) {
	for i, v := range vals {
		if i > 0 {
			w.WriteByte(' ')
		}
		w.WriteString(strconv.FormatInt(v, 10))
	}
	w.WriteByte('\n')
}

var smallM = []int64{3, 3, 4, 5, 5, 7, 8, 8, 11, 13, 16, 17, 24, 32, 64}

func pick(r *rand.Rand, xs []int64) int64 { return xs[r.Intn(len(xs))] }

func pickLimit(r *rand.Rand, m int64) int64 {
	switch r.Intn(8) {
	case 0:
		return 1
	case 1:
		return 2
	case 2:
		return 3 % (m + 1)
	case 3:
		return m / 2
	case 4:
		return m - 1
	case 5:
		return m
	default:
		return 1 + r.Int63n(m)
	}
}

func biasedField(r *rand.Rand, m, rl, wl int64) int64 {
	var v int64
	switch r.Intn(14) {
	case 0:
		v = 0
	case 1:
		v = 1
	case 2:
		v = 2
	case 3:
		v = m - 1
	case 4:
		v = m - 2
	case 5:
		v = m / 2
	case 6:
		v = rl / 2
	case 7:
		v = rl/2 + 1
	case 8:
		v = wl / 2
	case 9:
		v = wl/2 + 1
	case 10:
		v = m/2 + 1
	default:
		v = r.Int63n(m)
	}
	v %= m
	if v < 0 {
		v += m
	}
	return v
}

func randInstr(r *rand.Rand, m, rl, wl int64) []int64 {
	return []int64{int64(r.Intn(17)), int64(r.Intn(7)), biasedField(r, m, rl, wl), int64(r.Intn(8)),
		biasedField(r, m, rl, wl), int64(r.Intn(8))}
}

// genStep: every one of the 17*7*8*8 instruction forms k times at the program
// counter of a fully random core; one RunCycle.  overM: limits may exceed M.
func genStep(w *bufio.Writer, r *rand.Rand, k int, overM bool, bigEvery int) {
	cnt := 0
	for op := 0; op < 17; op++ {
		for md := 0; md < 7; md++ {
			for am := 0; am < 8; am++ {
				for bm := 0; bm < 8; bm++ {
					for j := 0; j < k; j++ {
						cnt++
						m := pick(r, smallM)
						if bigEvery > 0 && cnt%bigEvery == 0 {
							m = pick(r, []int64{800, 8000, 55440 / 7})
						}
						rl, wl := pickLimit(r, m), pickLimit(r, m)
						if rl < 1 {
							rl = 1
						}
						if wl < 1 {
							wl = 1
						}
						if overM {
							switch r.Intn(3) {
							case 0:
								rl = m + 1 + r.Int63n(m)
							case 1:
								wl = m + 1 + r.Int63n(m)
							default:
								rl = m + 1 + r.Int63n(2*m)
								wl = m + 1 + r.Int63n(2*m)
							}
						}
						p := pick(r, []int64{1, 1, 2, 3, 8})
						pc := r.Int63n(m)
						c := []int64{1, m, rl, wl, p, 1, 1 | 8, 1, 1, m, pc, 0}
						for a := int64(0); a < m; a++ {
							if a == pc {
								c = append(c, int64(op), int64(md), biasedField(r, m, rl, wl), int64(am),
									biasedField(r, m, rl, wl), int64(bm))
							} else {
								c = append(c, randInstr(r, m, rl, wl)...)
							}
						}
						wr(w, c)
					}
				}
			}
		}
	}
}

func generate(w *bufio.Writer, kind string, seed int64, n int, args []string) {
	r := rand.New(rand.NewSource(seed))
	switch kind {
	case "step":
		genStep(w, r, n, false, 997)
	case "stepover":
		genStep(w, r, n, true, 0)
	default:
		if !generateMore(w, r, kind, n, args) {
			fmt.Fprintln(w, "0")
		}
	}
}

func generateMore(w *bufio.Writer, r *rand.Rand, kind string, n int, args []string) bool { return false }
