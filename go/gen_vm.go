package main

import (
	"bufio"
	"fmt"
	"math/rand"
	"strconv"
)

func wr(w *bufio.Writer, vals []int64) {
	for i, v := range vals {
		if i > 0 {
			w.WriteByte(' ')
		}
		w.WriteString(strconv.FormatInt(v, 10))
	}
	w.WriteByte('\n')
}

var smallM = []int64{3, 3, 4, 5, 5, 7, 8, 8, 11, 13, 16, 17, 24, 32, 64}

func pick(r *rand.Rand, xs []int64) int64 { return xs[r.Intn(len(xs))] }

func pickLimit(r *rand.Rand, m int64) int64 {
	switch r.Intn(8) {
	case 0:
		return 1
	case 1:
		return 2
	case 2:
		return 3 % (m + 1)
	case 3:
		return m / 2
	case 4:
		return m - 1
	case 5:
		return m
	default:
		return 1 + r.Int63n(m)
	}
}

func biasedField(r *rand.Rand, m, rl, wl int64) int64 {
	var v int64
	switch r.Intn(14) {
	case 0:
		v = 0
	case 1:
		v = 1
	case 2:
		v = 2
	case 3:
		v = m - 1
	case 4:
		v = m - 2
	case 5:
		v = m / 2
	case 6:
		v = rl / 2
	case 7:
		v = rl/2 + 1
	case 8:
		v = wl / 2
	case 9:
		v = wl/2 + 1
	case 10:
		v = m/2 + 1
	default:
		v = r.Int63n(m)
	}
	v %= m
	if v < 0 {
		v += m
	}
	return v
}

func randInstr(r *rand.Rand, m, rl, wl int64) []int64 {
	return []int64{int64(r.Intn(17)), int64(r.Intn(7)), biasedField(r, m, rl, wl), int64(r.Intn(8)),
		biasedField(r, m, rl, wl), int64(r.Intn(8))}
}

// genStep: every one of the 17*7*8*8 instruction forms k times at the program
// counter of a fully random core; one RunCycle.  overM: limits may exceed M.
func genStep(w *bufio.Writer, r *rand.Rand, k int, overM bool, bigEvery int, flags int64) {
	cnt := 0
	for op := 0; op < 17; op++ {
		for md := 0; md < 7; md++ {
			for am := 0; am < 8; am++ {
				for bm := 0; bm < 8; bm++ {
					for j := 0; j < k; j++ {
						cnt++
						m := pick(r, smallM)
						if bigEvery > 0 && cnt%bigEvery == 0 {
							m = pick(r, []int64{800, 8000, 55440 / 7})
						}
						rl, wl := pickLimit(r, m), pickLimit(r, m)
						if rl < 1 {
							rl = 1
						}
						if wl < 1 {
							wl = 1
						}
						if overM {
							switch r.Intn(3) {
							case 0:
								rl = m + 1 + r.Int63n(m)
							case 1:
								wl = m + 1 + r.Int63n(m)
							default:
								rl = m + 1 + r.Int63n(2*m)
								wl = m + 1 + r.Int63n(2*m)
							}
						}
						p := pick(r, []int64{1, 1, 2, 3, 8})
						pc := r.Int63n(m)
						switch r.Intn(6) {
						case 0:
							pc = m - 1
						case 1:
							pc = m - 2
						}
						c := []int64{1, m, rl, wl, p, 1, flags, 1, 1, m, pc, 0}
						// a core of near-copies of one cell (equal, or different in exactly one component):
						// what the comparing opcodes tell apart, component by component
						near := r.Intn(4) == 0 || (op >= 11 && op <= 14 && r.Intn(3) != 0)
						base := randInstr(r, m, rl, wl)
						for a := int64(0); a < m; a++ {
							if a == pc {
								c = append(c, int64(op), int64(md), biasedField(r, m, rl, wl), int64(am),
									biasedField(r, m, rl, wl), int64(bm))
							} else if near {
								cell := append([]int64{}, base...)
								switch r.Intn(8) {
								case 0:
									cell[0] = int64(r.Intn(17))
								case 1:
									cell[1] = int64(r.Intn(7))
								case 2:
									cell[2] = (cell[2] + 1 + r.Int63n(2)) % m
								case 3:
									cell[3] = int64(r.Intn(8))
								case 4:
									cell[4] = (cell[4] + 1 + r.Int63n(2)) % m
								case 5:
									cell[5] = int64(r.Intn(8))
								}
								c = append(c, cell...)
							} else {
								c = append(c, randInstr(r, m, rl, wl)...)
							}
						}
						wr(w, c)
					}
				}
			}
		}
	}
}

func generate(w *bufio.Writer, kind string, seed int64, n int, args []string) {
	r := rand.New(rand.NewSource(seed))
	switch kind {
	case "step":
		genStep(w, r, n, false, 997, 1|8)
	case "stepover":
		genStep(w, r, n, true, 0, 1|8)
	case "stepr":
		genStep(w, r, n, false, 0, 1|8|16|32)
	default:
		if !generateMore(w, r, kind, n, args) {
			fmt.Fprintln(w, "0")
		}
	}
}

func generateMore(w *bufio.Writer, r *rand.Rand, kind string, n int, args []string) bool {
	switch kind {
	case "apix":
		genApiExhaustive(w, n)
	case "api":
		genApiRandom(w, r, n, 60)
	case "prog":
		// args: mode exprDepth flags(bit0 signRuns, 1 divs, 2 equs, 3 asserts, 4 fors, 5 illegal88, 6 bigM) maxInstr
		mode, depth, fl, mi := int64(2), 3, int64(4), 6
		if len(args) > 0 {
			mode, _ = strconv.ParseInt(args[0], 10, 64)
		}
		if len(args) > 1 {
			depth, _ = strconv.Atoi(args[1])
		}
		if len(args) > 2 {
			fl, _ = strconv.ParseInt(args[2], 10, 64)
		}
		if len(args) > 3 {
			mi, _ = strconv.Atoi(args[3])
		}
		genProg(w, r, n, progOpts{mode: mode, exprDepth: depth, signRuns: fl&1 != 0, divs: fl&2 != 0, equs: fl&4 != 0,
			asserts: fl&8 != 0, fors: fl&16 != 0, illegal88: fl&32 != 0, maxInstr: mi}, fl&64 != 0)
	case "cli":
		genCli(w, r, n)
	case "listing":
		mode := int64(2)
		if len(args) > 0 {
			mode, _ = strconv.ParseInt(args[0], 10, 64)
		}
		for k := 0; k < n; k++ {
			cfg := pickCfg(r, mode, false)
			if cfg.m > 1<<20 {
				cfg.m = 55440 // the listing needs a simulator, i.e. an allocated core
			}
			if r.Intn(3) == 0 {
				// odd core sizes: the signed rendering of a field has no middle value to spare
				odd := []int64{9, 11, 25, 81, 257, 7999, 8191, 55441}
				cfg.m = odd[r.Intn(len(odd))]
			}
			ln := 1 + r.Intn(8)
			// cfg.mode: NOP94 (1) is the '94 dialect too, and must be listed like it
			c := []int64{12, cfg.mode, cfg.m, int64(r.Intn(ln)), int64(ln)}
			for i := 0; i < ln; i++ {
				c = append(c, genLegalInstr(r, mode, cfg.m)...)
			}
			wr(w, c)
		}
	case "warriors":
		mode := int64(2)
		if len(args) > 0 {
			mode, _ = strconv.ParseInt(args[0], 10, 64)
		}
		genWarriors(w, r, n, mode, len(args) > 1 && args[1] == "1")
	case "rot":
		genRot(w, r, n)
	case "config":
		genConfig(w, r, n)
	case "battle":
		// args: flags maxWarriors wrap(0/1) maxCycles
		fl, mw, wrp, mc := int64(2|4), 4, false, 200
		if len(args) > 0 {
			v, _ := strconv.ParseInt(args[0], 10, 64)
			fl = v
		}
		if len(args) > 1 {
			mw, _ = strconv.Atoi(args[1])
		}
		if len(args) > 2 {
			wrp = args[2] == "1"
		}
		if len(args) > 3 {
			mc, _ = strconv.Atoi(args[3])
		}
		genBattle(w, r, n, fl, mw, wrp, mc)
	default:
		return false
	}
	return true
}

// ---------- battles ----------

var structured = [][][]int64{
	{{1, 6, 0, 0, 1, 0}}, // imp
	{{2, 3, 4, 1, 3, 0}, {1, 6, 2, 0, 2, 3}, {11, 2, -2, 0, 0, 0}, {0, 0, 0, 1, 0, 1}}, // dwarf
	{{15, 2, 0, 0, 0, 0}, {1, 6, 0, 0, 1, 0}},                                          // spl fan + imp
	{{0, 0, 0, 1, 0, 1}}, // dat
	{{14, 2, 0, 0, 3, 1}, {0, 0, 0, 1, 0, 1}},                   // djn loop
	{{15, 2, 2, 0, 0, 0}, {11, 2, -1, 0, 0, 0}, {1, 6, 0, 0, 1, 0}}, // spl/jmp + imp
	{{1, 6, 1, 6, 2, 4}, {5, 5, 1, 1, 2, 0}, {6, 0, 0, 3, 1, 7}},    // mov }{, div, mod
}

func normField(v, m int64) int64 {
	v %= m
	if v < 0 {
		v += m
	}
	return v
}

func genWarrior(r *rand.Rand, m, rl, wl int64) ([][]int64, int64) {
	var code [][]int64
	switch r.Intn(5) {
	case 0, 1:
		src := structured[r.Intn(len(structured))]
		for _, i := range src {
			c := append([]int64{}, i...)
			c[2] = normField(c[2], m)
			c[4] = normField(c[4], m)
			code = append(code, c)
		}
	default:
		n := 1 + r.Intn(6)
		for i := 0; i < n; i++ {
			code = append(code, randInstr(r, m, rl, wl))
		}
	}
	if int64(len(code)) > m {
		code = code[:m]
	}
	return code, int64(r.Intn(len(code)))
}

// genBattle: 1..4 warriors, small cores, limits at or below the core size.
// wrap: placements may make code and entry points wrap past the end of the core.
func genBattle(w *bufio.Writer, r *rand.Rand, n int, flags int64, maxW int, wrap bool, maxCycles int) {
	for k := 0; k < n; k++ {
		m := pick(r, []int64{5, 7, 8, 11, 13, 16, 17, 24, 32, 64})
		rl, wl := m, m
		if r.Intn(2) == 0 {
			rl, wl = pickLimit(r, m), pickLimit(r, m)
			if rl < 1 {
				rl = 1
			}
			if wl < 1 {
				wl = 1
			}
		}
		p := pick(r, []int64{1, 2, 3, 8})
		cyc := int64(1 + r.Intn(maxCycles))
		if r.Intn(3) == 0 {
			cyc = int64(1 + r.Intn(8))
		}
		nw := 1 + r.Intn(maxW)
		// one battle in seven: a warrior that keeps splitting, under a process limit that is not a power of two, also
		// one larger than the core, for long enough to fill the queue and keep it turning over at the limit
		bomb := r.Intn(7) == 0
		if bomb {
			p = pick(r, []int64{17, 24, 33, 60, 65, 70, 100, 130})
			cyc = 5*p + int64(r.Intn(60))
		}
		c := []int64{1, m, rl, wl, p, cyc, flags, cyc + 2, int64(nw)}
		for i := 0; i < nw; i++ {
			code, start := genWarrior(r, m, rl, wl)
			if bomb && i == 0 {
				// nop x lead / spl 0 / nop / nop / jmp 0: tasks at different addresses, so the order in the queue shows
				code = nil
				for j := r.Intn(4); j > 0; j-- {
					code = append(code, []int64{16, 0, 0, 0, 0, 0})
				}
				code = append(code, []int64{15, 2, 0, 0, 0, 0}, []int64{16, 0, 0, 0, 0, 0}, []int64{16, 0, 0, 0, 0, 0}, []int64{11, 2, 0, 0, 0, 0})
				if int64(len(code)) > m {
					code = code[len(code)-int(m):]
				}
				start = 0
			}
			ln := int64(len(code))
			var off int64
			if wrap {
				off = r.Int63n(m)
			} else {
				// entry point must not wrap: off + start < m
				off = r.Int63n(m - start)
			}
			c = append(c, ln, start, off)
			for _, ins := range code {
				c = append(c, ins...)
			}
		}
		wr(w, c)
	}
}

// genRot: kind 4 = a battle and the same battle shifted by k (+ j*M on the offsets).
func genRot(w *bufio.Writer, r *rand.Rand, n int) {
	var buf []int64
	for i := 0; i < n; i++ {
		// generate a battle into a scratch writer
		bw := &captureWriter{}
		tmp := bufio.NewWriter(bw)
		genBattle(tmp, r, 1, 2|8, 3, true, 60)
		tmp.Flush()
		c, err := parseCase(string(bw.b))
		if err != nil || len(c) < 2 {
			continue
		}
		m := c[1]
		k := r.Int63n(m)
		j := int64(0)
		if r.Intn(3) == 0 {
			j = int64(1 + r.Intn(3))
		}
		buf = append(buf[:0], 4, k, j)
		buf = append(buf, c[1:]...)
		if r.Intn(12) == 0 {
			// offsets just below 2^64: j*M is the largest multiple of M that keeps off+k+j*M below 2^64
			// (never beyond 2^64 - 1: such an offset cannot be passed to the API at all)
			maxoff := int64(0)
			pos := 9
			for pos+2 < len(c) {
				if c[pos+2] > maxoff {
					maxoff = c[pos+2]
				}
				pos += 3 + 6*int(c[pos])
			}
			ju := (^uint64(0) - uint64(maxoff) - uint64(k)) / uint64(m)
			w.WriteString("4 " + strconv.FormatInt(k, 10) + " " + strconv.FormatUint(ju, 10))
			for _, v := range c[1:] {
				w.WriteByte(' ')
				w.WriteString(strconv.FormatInt(v, 10))
			}
			w.WriteByte('\n')
			continue
		}
		wr(w, buf)
	}
}

type captureWriter struct{ b []byte }

func (c *captureWriter) Write(p []byte) (int, error) { c.b = append(c.b, p...); return len(p), nil }

// genConfig: kind 3 = [mode M P C R W Len Dist]; every field from a boundary set or random below 2^20.
func genConfig(w *bufio.Writer, r *rand.Rand, n int) {
	vals := []int64{0, 1, 2, 3, 4, 1 << 10, 1 << 20}
	pickv := func() int64 {
		if r.Intn(4) == 0 {
			return r.Int63n(1<<20 + 1)
		}
		return vals[r.Intn(len(vals))]
	}
	// a third of the cases: small boundary values around the acceptance conditions
	small := []int64{0, 1, 2, 3, 4, 5}
	cnt := 0
	for ; cnt < n/3; cnt++ {
		wr(w, []int64{3, int64(r.Intn(3)), 2 + pick(r, small), pick(r, small[:3]), pick(r, small[:3]), pick(r, small),
			pick(r, small), pick(r, small), pick(r, small)})
	}
	for ; cnt < n; cnt++ {
		m := pickv()
		if r.Intn(3) == 0 {
			m = int64(r.Intn(70))
		}
		wr(w, []int64{3, int64(r.Intn(3)), m, pickv(), pickv(), pickv(), pickv(), pickv(), pickv()})
	}
}
