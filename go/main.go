// Command harness is the Go side of the correspondence check: it generates
// cases, and runs gmars (through its public API) on them, printing projected
// observables in the integer-record protocol shared with the extracted model.
package main

import (
	"bufio"
	"fmt"
	"os"
	"os/exec"
	"strconv"
	"strings"
	"sync"
	"time"

	"github.com/bobertlo/gmars"
)

func usage() {
	fmt.Fprintln(os.Stderr, "usage: harness gen <kind> <seed> <n> [args] | run <cases> <out> [timeout_ms] | worker")
	os.Exit(2)
}

func main() {
	if len(os.Args) < 2 {
		usage()
	}
	switch os.Args[1] {
	case "gen":
		if len(os.Args) < 5 {
			usage()
		}
		seed, _ := strconv.ParseInt(os.Args[3], 10, 64)
		n, _ := strconv.Atoi(os.Args[4])
		w := bufio.NewWriterSize(os.Stdout, 1<<20)
		defer w.Flush()
		generate(w, os.Args[2], seed, n, os.Args[5:])
	case "worker":
		worker()
	case "run":
		if len(os.Args) < 4 {
			usage()
		}
		to := 10000
		if len(os.Args) > 4 {
			to, _ = strconv.Atoi(os.Args[4])
		}
		runAll(os.Args[2], os.Args[3], time.Duration(to)*time.Millisecond)
	default:
		usage()
	}
}

// emitter streams records of one case: "a b c | d e\n"
type emitter struct {
	w     *bufio.Writer
	first bool
	// warrior data shared by all goroutines of a concurrent job (kind 14): handed to
	// AddWarrior as it is, by every goroutine
	shared []*gmars.WarriorData
}

func (e *emitter) rec(vals ...int64) {
	if !e.first {
		e.w.WriteString(" | ")
	}
	e.first = false
	for i, v := range vals {
		if i > 0 {
			e.w.WriteByte(' ')
		}
		e.w.WriteString(strconv.FormatInt(v, 10))
	}
	e.w.Flush()
}

func (e *emitter) end() {
	e.w.WriteByte('\n')
	e.w.Flush()
}

func parseCase(line string) ([]int64, error) {
	fs := strings.Fields(line)
	out := make([]int64, len(fs))
	for i, f := range fs {
		v, err := strconv.ParseInt(f, 10, 64)
		if err != nil {
			// values >= 2^63 (uint64 offsets) are carried as unsigned
			u, err2 := strconv.ParseUint(f, 10, 64)
			if err2 != nil {
				return nil, err
			}
			v = int64(u)
		}
		out[i] = v
	}
	return out, nil
}

// worker: one case per input line, one output line per case
func worker() {
	in := bufio.NewReaderSize(os.Stdin, 1<<20)
	w := bufio.NewWriterSize(os.Stdout, 1<<16)
	for {
		line, err := in.ReadString('\n')
		if len(line) > 0 {
			c, perr := parseCase(line)
			e := &emitter{w: w, first: true}
			if perr != nil || len(c) == 0 {
				e.rec(0)
			} else {
				runCase(e, c)
			}
			e.end()
		}
		if err != nil {
			return
		}
	}
}

func runCase(e *emitter, c []int64) {
	switch c[0] {
	case 1:
		runBattle(e, c[1:])
	default:
		if !runCaseMore(e, c) {
			e.rec(0)
		}
	}
}

type proc struct {
	cmd *exec.Cmd
	in  *bufio.Writer
	out *bufio.Reader
}

func startWorker() *proc {
	cmd := exec.Command(os.Args[0], "worker")
	stdin, _ := cmd.StdinPipe()
	stdout, _ := cmd.StdoutPipe()
	cmd.Stderr = nil
	if err := cmd.Start(); err != nil {
		fmt.Fprintln(os.Stderr, "cannot start worker:", err)
		os.Exit(2)
	}
	return &proc{cmd: cmd, in: bufio.NewWriterSize(stdin, 1<<20), out: bufio.NewReaderSize(stdout, 1<<20)}
}

// runAll distributes the cases over worker processes; a worker that does not
// answer within the deadline is killed and the case's partial output gets the
// record "99" (did not terminate) appended; a worker that dies gets "98".
func runAll(casesPath, outPath string, timeout time.Duration) {
	data, err := os.ReadFile(casesPath)
	if err != nil {
		fmt.Fprintln(os.Stderr, err)
		os.Exit(2)
	}
	lines := strings.Split(strings.TrimRight(string(data), "\n"), "\n")
	if len(lines) == 1 && lines[0] == "" {
		lines = nil
	}
	results := make([]string, len(lines))
	nw := 14
	if len(lines) < nw {
		nw = len(lines)
	}
	var wg sync.WaitGroup
	next := 0
	var mu sync.Mutex
	for k := 0; k < nw; k++ {
		wg.Add(1)
		go func() {
			defer wg.Done()
			p := startWorker()
			for {
				mu.Lock()
				i := next
				next++
				mu.Unlock()
				if i >= len(lines) {
					break
				}
				p.in.WriteString(lines[i])
				p.in.WriteByte('\n')
				p.in.Flush()
				type rd struct {
					s   string
					err error
				}
				ch := make(chan rd, 1)
				var partial strings.Builder
				var pmu sync.Mutex
				go func() {
					// read byte-wise chunks so a partial line survives a kill
					for {
						b, err := p.out.ReadByte()
						if err != nil {
							pmu.Lock()
							s := partial.String()
							pmu.Unlock()
							ch <- rd{s, err}
							return
						}
						if b == '\n' {
							pmu.Lock()
							s := partial.String()
							pmu.Unlock()
							ch <- rd{s, nil}
							return
						}
						pmu.Lock()
						partial.WriteByte(b)
						pmu.Unlock()
					}
				}()
				select {
				case r := <-ch:
					if r.err != nil {
						s := strings.TrimSpace(r.s)
						if s != "" {
							s += " | "
						}
						results[i] = s + "98"
						p.cmd.Process.Kill()
						p.cmd.Wait()
						p = startWorker()
					} else {
						results[i] = r.s
					}
				case <-time.After(timeout):
					p.cmd.Process.Kill()
					r := <-ch
					p.cmd.Wait()
					s := strings.TrimSpace(r.s)
					s = strings.TrimSuffix(s, " |")
					if s != "" {
						s += " | "
					}
					results[i] = s + "99"
					p = startWorker()
				}
			}
			p.in.Flush()
			p.cmd.Process.Kill()
			p.cmd.Wait()
		}()
	}
	wg.Wait()
	f, err := os.Create(outPath)
	if err != nil {
		fmt.Fprintln(os.Stderr, err)
		os.Exit(2)
	}
	bw := bufio.NewWriterSize(f, 1<<20)
	for _, r := range results {
		bw.WriteString(r)
		bw.WriteByte('\n')
	}
	bw.Flush()
	f.Close()
}
