package main

import (
	"bufio"
	"math/rand"
)

// ---------- abstract expressions (prefix wire format, see coq/theories/spec/Prog.v) ----------

type gexpr struct {
	kind int // 0 lit, 1 name, 2 par, 3 sgn, 4 bin
	n    int64
	op   int
	a, b *gexpr
}

func (e *gexpr) level() int {
	if e.kind == 4 {
		if e.op <= 1 {
			return 4
		}
		return 5
	}
	return 6
}

func (e *gexpr) enc(out []int64) []int64 {
	switch e.kind {
	case 0:
		return append(out, 0, e.n)
	case 1:
		return append(out, 1, e.n)
	case 2:
		return e.a.enc(append(out, 2))
	case 3:
		return e.a.enc(append(out, 3, e.n))
	default:
		out = append(out, 4, int64(e.op))
		out = e.a.enc(out)
		return e.b.enc(out)
	}
}

func par(e *gexpr) *gexpr { return &gexpr{kind: 2, a: e} }

type egen struct {
	r        *rand.Rand
	names    []int64 // ids usable as names (labels, EQUs, predefined, counters)
	maxLit   int64
	signRuns bool
	divs     bool
}

func (g *egen) atom() *gexpr {
	if len(g.names) > 0 && g.r.Intn(3) == 0 {
		return &gexpr{kind: 1, n: g.names[g.r.Intn(len(g.names))]}
	}
	switch g.r.Intn(6) {
	case 0:
		return &gexpr{kind: 0, n: 0}
	case 1:
		return &gexpr{kind: 0, n: 1}
	default:
		return &gexpr{kind: 0, n: g.r.Int63n(g.maxLit)}
	}
}

func lit(n int64) *gexpr { return &gexpr{kind: 0, n: n} }
func bin(op int, a, b *gexpr) *gexpr { return &gexpr{kind: 4, op: op, a: a, b: b} }

// the ends of the 32-bit range, reached without a literal or an intermediate value outside it
func (g *egen) edge() *gexpr {
	switch g.r.Intn(5) {
	case 0:
		return bin(1, bin(1, lit(0), lit(2147483647)), lit(1)) // 0-2147483647-1 = -2^31
	case 1:
		return bin(2, &gexpr{kind: 3, n: 1, a: lit(65536)}, lit(32768)) // -65536*32768 = -2^31
	case 2:
		return lit(2147483647)
	case 3:
		return bin(1, lit(0), lit(2147483647))
	default:
		return bin(0, bin(2, lit(32768), lit(65535)), lit(32767)) // 2^31-1
	}
}

func (g *egen) gen(depth int) *gexpr {
	if depth >= 2 && g.r.Intn(50) == 0 {
		return g.edge()
	}
	if depth <= 0 || g.r.Intn(4) == 0 {
		return g.atom()
	}
	switch g.r.Intn(7) {
	case 0:
		return par(g.gen(depth - 1))
	case 1:
		// a run of unary signs
		e := g.gen(depth - 1)
		if e.level() < 6 {
			e = par(e)
		}
		n := 1
		if g.signRuns {
			n = 1 + g.r.Intn(5)
		}
		for i := 0; i < n; i++ {
			e = &gexpr{kind: 3, n: int64(g.r.Intn(2)), a: e}
		}
		return e
	default:
		op := g.r.Intn(5)
		if !g.divs && op >= 3 {
			op = g.r.Intn(3)
		}
		prec := 5
		if op <= 1 {
			prec = 4
		}
		a, b := g.gen(depth-1), g.gen(depth-1)
		if a.level() < prec {
			a = par(a)
		}
		if b.level() <= prec {
			b = par(b)
		}
		if g.r.Intn(8) == 0 {
			a = par(a)
		}
		return &gexpr{kind: 4, op: op, a: a, b: b}
	}
}

// ---------- abstract programs ----------

type gcfg struct {
	mode, m, p, c, rl, wl, ln, ds int64
}

func (c gcfg) enc() []int64 { return []int64{c.mode, c.m, c.p, c.c, c.rl, c.wl, c.ln, c.ds} }

func pickCfg(r *rand.Rand, mode int64, big bool) gcfg {
	ms := []int64{80, 8000, 8000, 8192, 55440, 1<<33 + 9}
	m := ms[r.Intn(len(ms))]
	if big {
		m = 1 << 40
	}
	ln, ds := int64(100), int64(100)
	if m < 400 {
		ln, ds = 20, 20
	}
	// the four predefined names must be told apart: distinct values most of the time
	procs := int64(8000)
	if r.Intn(3) != 0 {
		ds = ln + 1 + r.Int63n(ln)
		procs = 1 + r.Int63n(9000)
	}
	if mode == 2 && r.Intn(4) == 0 {
		mode = 1 // NOP94: the same dialect as ICWS94
	}
	return gcfg{mode, m, procs, 80000, m, m, ln, ds}
}

var ops94 = []int64{0, 1, 2, 3, 4, 5, 6, 7, 8, 9, 10, 11, 12, 13, 14, 15, 16}
var ops88 = []int64{0, 1, 2, 3, 7, 10, 11, 12, 13, 14, 15}
var modes88 = []int64{0, 1, 3, 5}

type progOpts struct {
	mode                                int64
	exprDepth                           int
	signRuns, divs, equs, asserts, fors bool
	illegal88                           bool
	maxInstr                            int
}

func optMode(r *rand.Rand, mode int64) int64 {
	if r.Intn(3) == 0 {
		return -1
	}
	if mode == 0 {
		return modes88[r.Intn(4)]
	}
	return int64(r.Intn(8))
}

func genInstr(r *rand.Rand, o progOpts, g *egen, labels []int64) []int64 {
	out := []int64{0, int64(len(labels))}
	out = append(out, labels...)
	var op int64
	if o.mode == 0 {
		op = ops88[r.Intn(len(ops88))]
		if o.illegal88 && r.Intn(10) == 0 {
			op = ops94[r.Intn(len(ops94))]
		}
	} else {
		op = ops94[r.Intn(len(ops94))]
	}
	md := int64(-1)
	if o.mode != 0 && (r.Intn(2) == 0 || op == 16) {
		md = int64(r.Intn(7))
	}
	out = append(out, op, md)
	am := optMode(r, o.mode)
	bm := optMode(r, o.mode)
	if o.mode == 0 && !o.illegal88 {
		// keep to the '88 operand rules
		eff := func(x int64) int64 {
			if x >= 0 {
				return x
			}
			if op == 0 {
				return 1
			}
			return 0
		}
		switch op {
		case 0:
			for eff(am) != 1 && eff(am) != 5 {
				am = []int64{-1, 1, 5}[r.Intn(3)]
			}
			for eff(bm) != 1 && eff(bm) != 5 {
				bm = []int64{-1, 1, 5}[r.Intn(3)]
			}
		case 1, 7, 2, 3:
			for eff(bm) == 1 {
				bm = []int64{-1, 0, 3, 5}[r.Intn(4)]
			}
		case 11, 12, 13, 14, 15:
			for eff(am) == 1 {
				am = []int64{-1, 0, 3, 5}[r.Intn(4)]
			}
		}
	}
	out = append(out, am)
	out = g.gen(o.exprDepth).enc(out)
	if r.Intn(5) != 0 {
		out = append(out, 1, bm)
		out = g.gen(o.exprDepth).enc(out)
	} else {
		out = append(out, 0)
	}
	return out
}

// genProg emits kind 30: [30; cfg; style; nitems; items; org; end; name; author]
func genProg(w *bufio.Writer, r *rand.Rand, n int, o progOpts, big bool) {
	for k := 0; k < n; k++ {
		cfg := pickCfg(r, o.mode, big)
		ni := 1 + r.Intn(o.maxInstr)
		// labels: ids 10.., at most one per instruction; EQU ids 50..; counters 80..
		var labelIDs []int64
		hasLabel := make([]bool, ni)
		for i := 0; i < ni; i++ {
			if r.Intn(2) == 0 {
				hasLabel[i] = true
				labelIDs = append(labelIDs, int64(10+i))
			}
		}
		names := append([]int64{}, labelIDs...)
		if r.Intn(3) == 0 {
			names = append(names, 1, 2, 3, 4)
		}
		// labels written on the END line: they stand for the address just past the code
		var endLabels []int64
		if r.Intn(4) == 0 {
			endLabels = append(endLabels, 130)
			if r.Intn(3) == 0 {
				endLabels = append(endLabels, 131)
			}
			names = append(names, endLabels...)
			names = append(names, endLabels...)
		}
		var items [][]int64
		var equIDs []int64
		nequ := 0
		if o.equs {
			nequ = r.Intn(4)
		}
		// EQU bodies may use labels, predefined names and earlier EQUs
		var equItems [][]int64
		for j := 0; j < nequ; j++ {
			g := &egen{r: r, names: append(append([]int64{}, names...), equIDs...), maxLit: 50, signRuns: o.signRuns, divs: o.divs}
			id := int64(50 + j)
			equItems = append(equItems, g.gen(o.exprDepth-1).enc([]int64{1, id}))
			equIDs = append(equIDs, id)
		}
		// a second name that differs from an existing one in letter case only
		if o.equs && len(names)+len(equIDs) > 0 && r.Intn(3) == 0 {
			all := append(append([]int64{}, labelIDs...), equIDs...)
			if len(all) > 0 {
				id := all[r.Intn(len(all))] + 200
				equItems = append(equItems, (&gexpr{kind: 0, n: int64(60 + r.Intn(30))}).enc([]int64{1, id}))
				equIDs = append(equIDs, id, id)
			}
		}
		allNames := append(append([]int64{}, names...), equIDs...)
		g := &egen{r: r, names: allNames, maxLit: 200, signRuns: o.signRuns, divs: o.divs}
		if big {
			g.maxLit = 40000
		}
		var instrItems [][]int64
		for i := 0; i < ni; i++ {
			var labs []int64
			if hasLabel[i] {
				labs = []int64{int64(10 + i)}
			}
			instrItems = append(instrItems, genInstr(r, o, g, labs))
		}
		if o.asserts && r.Intn(2) == 0 {
			// one to three ;assert lines anywhere among the instructions; most are true, so that a
			// failing one is often the second or third
			na := 1 + r.Intn(3)
			for j := 0; j < na; j++ {
				ga := &egen{r: r, names: []int64{1, 2, 3, 4}, maxLit: 9, signRuns: o.signRuns, divs: o.divs}
				var e *gexpr
				switch r.Intn(4) {
				case 0:
					e = ga.gen(2)
				case 1:
					// zero by construction: x - x over the constants
					x := ga.gen(1)
					if x.level() < 6 {
						x = par(x)
					}
					e = &gexpr{kind: 4, op: 1, a: x, b: x}
				default:
					e = &gexpr{kind: 4, op: 0, a: &gexpr{kind: 1, n: int64(1 + r.Intn(4))}, b: &gexpr{kind: 0, n: int64(1 + r.Intn(9))}}
				}
				pos := r.Intn(len(instrItems) + 1)
				instrItems = append(instrItems[:pos], append([][]int64{e.enc([]int64{3})}, instrItems[pos:]...)...)
			}
		}
		// EQU lines go anywhere among the instructions (uses may come before definitions)
		items = instrItems
		for _, e := range equItems {
			pos := r.Intn(len(items) + 1)
			items = append(items[:pos], append([][]int64{e}, items[pos:]...)...)
		}
		if o.fors {
			items = addFors(r, items, o, cfg)
		}
		c := append([]int64{30}, cfg.enc()...)
		c = append(c, r.Int63n(1<<20), int64(len(items)))
		for _, it := range items {
			c = append(c, it...)
		}
		// entry point
		switch r.Intn(4) {
		case 0:
			c = append(c, 1)
			c = (&gexpr{kind: 0, n: int64(r.Intn(ni))}).enc(c)
			c = append(c, 0)
		case 1:
			if len(labelIDs) > 0 {
				c = append(c, 0, 1)
				c = (&gexpr{kind: 1, n: labelIDs[r.Intn(len(labelIDs))]}).enc(c)
			} else {
				c = append(c, 0, 0)
			}
		default:
			c = append(c, 0, 0)
		}
		// metadata
		for f := 0; f < 2; f++ {
			if r.Intn(3) == 0 {
				s := []byte([]string{"Imp Gate", "dwarf v2", "A. Author", "x"}[r.Intn(4)])
				c = append(c, int64(len(s)))
				for _, b := range s {
					c = append(c, int64(b))
				}
			} else {
				c = append(c, -1)
			}
		}
		if len(endLabels) > 0 {
			c = append(c, -7, int64(len(endLabels)))
			c = append(c, endLabels...)
		}
		wr(w, c)
	}
}

// addFors wraps runs of instructions into FOR blocks (C08): counters 80.., counts 0..6,
// nesting up to 3, at most 40 expansions in total; block labels 90.. on top-level blocks.
func addFors(r *rand.Rand, items [][]int64, o progOpts, cfg gcfg) [][]int64 {
	budget := 40
	next := int64(80)
	var countEqus [][]int64
	nextEqu := int64(70)
	newEqu := func(e *gexpr) int64 {
		id := nextEqu
		nextEqu++
		countEqus = append(countEqus, e.enc([]int64{1, id}))
		return id
	}
	var blockLabels []int64
	early := [][]int64{}
	var build func(depth int, mult int, outer []int64, once bool) []int64
	build = func(depth int, mult int, outer []int64, once bool) []int64 {
		cnt := r.Intn(7)
		if once && r.Intn(3) == 0 {
			cnt = 1
		}
		if (cnt+1)*mult > budget {
			cnt = 1
		}
		budget -= (cnt + 1) * mult
		counter := next
		next++
		out := []int64{2}
		visible := append([]int64{}, outer...)
		if depth == 0 && r.Intn(2) == 0 {
			// a block label: an ordinary label of the first instruction the block emits, usable
			// inside the body (of this block and of nested ones) and from outside the block
			lab := 90 + counter - 80
			out = append(out, 1, lab)
			visible = append(visible, lab)
			blockLabels = append(blockLabels, lab)
		} else {
			out = append(out, 0)
		}
		out = append(out, counter)
		// the count: a literal, or an expression over an EQU name whose value is compound
		// (textual substitution: with e equ x+y, e*2 is x+y*2 and k-e is k-x+y)
		switch r.Intn(7) {
		case 4:
			// an EQU whose parentheses matter: e equ (a+b)*c+d
			c := 2 + r.Intn(2)
			q, d := cnt/c, cnt%c
			a := 0
			if q >= 1 {
				a = 1 + r.Intn(q)
			}
			id := newEqu(bin(0, bin(2, par(bin(0, lit(int64(a)), lit(int64(q-a)))), lit(int64(c))), lit(int64(d))))
			out = (&gexpr{kind: 1, n: id}).enc(out)
		case 5:
			// a predefined name in the count: MAXLENGTH-(len-cnt), MINDISTANCE-(dist-cnt), CORESIZE-(M-cnt)
			pre, val := int64(2), cfg.ln
			switch r.Intn(3) {
			case 0:
				pre, val = 4, cfg.ds
			case 1:
				pre, val = 1, cfg.m
			}
			out = (&gexpr{kind: 4, op: 1, a: &gexpr{kind: 1, n: pre}, b: &gexpr{kind: 0, n: val - int64(cnt)}}).enc(out)
		case 0:
			x := r.Intn(cnt + 1)
			id := newEqu(&gexpr{kind: 4, op: 0, a: &gexpr{kind: 0, n: int64(x)}, b: &gexpr{kind: 0, n: int64(cnt - x)}})
			out = (&gexpr{kind: 1, n: id}).enc(out)
		case 1:
			y := r.Intn(cnt/2 + 1)
			id := newEqu(&gexpr{kind: 4, op: 0, a: &gexpr{kind: 0, n: int64(cnt - 2*y)}, b: &gexpr{kind: 0, n: int64(y)}})
			out = (&gexpr{kind: 4, op: 2, a: &gexpr{kind: 1, n: id}, b: &gexpr{kind: 0, n: 2}}).enc(out)
		case 2:
			// k - e with e equ x+y  ==  k - x + y  (must equal cnt)
			x := r.Intn(4)
			y := r.Intn(3)
			k := cnt + x - y
			if k < 0 {
				out = (&gexpr{kind: 0, n: int64(cnt)}).enc(out)
			} else {
				id := newEqu(&gexpr{kind: 4, op: 0, a: &gexpr{kind: 0, n: int64(x)}, b: &gexpr{kind: 0, n: int64(y)}})
				out = (&gexpr{kind: 4, op: 1, a: &gexpr{kind: 0, n: int64(k)}, b: &gexpr{kind: 1, n: id}}).enc(out)
			}
		case 3:
			// an EQU that names another EQU twice and then a third one: e equ a*a+b
			x := r.Intn(3)
			for x*x > cnt {
				x--
			}
			ida := newEqu(&gexpr{kind: 0, n: int64(x)})
			idb := newEqu(&gexpr{kind: 0, n: int64(cnt - x*x)})
			na := &gexpr{kind: 1, n: ida}
			ide := newEqu(&gexpr{kind: 4, op: 0, a: &gexpr{kind: 4, op: 2, a: na, b: na}, b: &gexpr{kind: 1, n: idb}})
			out = (&gexpr{kind: 1, n: ide}).enc(out)
		default:
			out = (&gexpr{kind: 0, n: int64(cnt)}).enc(out)
		}
		nb := 1 + r.Intn(2)
		var body [][]int64
		nestFirst := depth < 2 && r.Intn(3) == 0 && budget > 4
		nest := func() {
			m2 := mult * cnt
			if m2 < 1 {
				m2 = 1
			}
			body = append(body, build(depth+1, m2, visible, once && cnt == 1))
		}
		// when the body is emitted exactly once it may define names of its own: a label on one of its
		// instructions (with or without a colon) and an EQU line, possibly as the first line of the body
		var bodyLabel, bodyEqu int64 = -1, -1
		if once && cnt == 1 {
			if r.Intn(2) == 0 {
				bodyLabel = 100 + counter - 80
				visible = append(visible, bodyLabel)
			}
			if r.Intn(3) == 0 {
				bodyEqu = 110 + counter - 80
			}
		}
		equFirst := bodyEqu >= 0 && r.Intn(2) == 0
		if equFirst {
			body = append(body, (&gexpr{kind: 0, n: int64(r.Intn(9))}).enc([]int64{1, bodyEqu}))
		}
		if nestFirst && r.Intn(2) == 0 {
			nest() // the first thing the block emits comes out of the nested block
			nestFirst = false
		}
		labelAt := r.Intn(nb)
		var twin int64 = -1
		if r.Intn(3) == 0 {
			// a name spelt like the counter but in upper case: names are case-sensitive, it is not the counter
			twin = counter + 200
			early = append(early, (&gexpr{kind: 0, n: int64(7 + r.Intn(9))}).enc([]int64{1, twin}))
		}
		for i := 0; i < nb; i++ {
			g := &egen{r: r, names: append([]int64{counter}, visible...), maxLit: 30}
			if twin >= 0 {
				g.names = append(g.names, twin, twin)
			}
			if bodyEqu >= 0 {
				g.names = append(g.names, bodyEqu)
			}
			var labs []int64
			if bodyLabel >= 0 && i == labelAt {
				labs = []int64{bodyLabel}
			}
			body = append(body, genInstr(r, progOpts{mode: o.mode, exprDepth: 2, maxInstr: 1}, g, labs))
			if bodyEqu >= 0 && !equFirst && i == 0 {
				body = append(body, (&gexpr{kind: 0, n: int64(r.Intn(9))}).enc([]int64{1, bodyEqu}))
			}
		}
		if nestFirst {
			nest()
		}
		if depth >= 1 && cnt == 0 && r.Intn(2) == 0 {
			// an inner block that is repeated zero times may be empty as well: `j for 0 / rof`
			body = nil
		}
		out = append(out, int64(len(body)))
		for _, b := range body {
			out = append(out, b...)
		}
		return out
	}
	nblocks := 1 + r.Intn(3)
	for b := 0; b < nblocks && budget > 2; b++ {
		pos := r.Intn(len(items) + 1)
		before := len(countEqus)
		blk := build(0, 1, nil, true)
		ins := [][]int64{}
		// the EQUs a count uses are defined somewhere before the block that uses them: at the very
		// top, or right in front of the block (after earlier blocks)
		for _, e := range countEqus[before:] {
			if r.Intn(2) == 0 {
				early = append(early, e)
			} else {
				ins = append(ins, e)
			}
		}
		ins = append(ins, blk)
		items = append(items[:pos], append(ins, items[pos:]...)...)
	}
	// block labels are referenced from outside their block too, before and after it
	for _, lab := range blockLabels {
		if r.Intn(2) == 0 {
			g := &egen{r: r, names: []int64{lab}, maxLit: 30}
			ref := genInstr(r, progOpts{mode: o.mode, exprDepth: 1, maxInstr: 1}, g, nil)
			pos := r.Intn(len(items) + 1)
			items = append(items[:pos], append([][]int64{ref}, items[pos:]...)...)
		}
	}
	return append(early, items...)
}

// genWarriors emits kind 32: [32; cfg; style; start; n; code...] with every field legal in the dialect
func genWarriors(w *bufio.Writer, r *rand.Rand, n int, mode int64, int32Fields bool) {
	for k := 0; k < n; k++ {
		cfg := pickCfg(r, mode, false)
		if int32Fields && cfg.m > 1<<31 {
			cfg.m = 55440 // fields must stay within what a 32-bit operand expression can denote
			cfg.rl, cfg.wl = cfg.m, cfg.m
		}
		ln := 1 + r.Intn(8)
		if k%6 == 5 {
			// a warrior of exactly the configured maximum length (and one of length max-1)
			cfg.ln = int64(3 + r.Intn(18))
			if cfg.ds < cfg.ln {
				cfg.ds = cfg.ln
			}
			ln = int(cfg.ln) - r.Intn(2)
		}
		c := append([]int64{32}, cfg.enc()...)
		c = append(c, r.Int63n(1<<20), int64(r.Intn(ln)), int64(ln))
		for i := 0; i < ln; i++ {
			c = append(c, genLegalInstr(r, mode, cfg.m)...)
		}
		wr(w, c)
	}
}

func edgeField(r *rand.Rand, m int64) int64 {
	switch r.Intn(8) {
	case 0:
		return 0
	case 1:
		return m - 1
	case 2:
		return m / 2
	case 3:
		return m/2 + 1
	case 4:
		return 1
	default:
		return r.Int63n(m)
	}
}

func genLegalInstr(r *rand.Rand, mode, m int64) []int64 {
	if mode != 0 {
		return []int64{int64(r.Intn(17)), int64(r.Intn(7)), edgeField(r, m), int64(r.Intn(8)), edgeField(r, m), int64(r.Intn(8))}
	}
	for {
		op := ops88[r.Intn(len(ops88))]
		am := modes88[r.Intn(4)]
		bm := modes88[r.Intn(4)]
		md := int64(-1)
		switch op {
		case 0:
			if (am == 1 || am == 5) && (bm == 1 || bm == 5) {
				md = 0
			}
		case 1, 7:
			if bm != 1 {
				if am == 1 {
					md = 3
				} else {
					md = 6
				}
			}
		case 2, 3:
			if bm != 1 {
				if am == 1 {
					md = 3
				} else {
					md = 0
				}
			}
		case 10:
			if am == 1 {
				md = 3
			} else {
				md = 2
			}
		default:
			if am != 1 {
				md = 2
			}
		}
		if md >= 0 {
			return []int64{op, md, edgeField(r, m), am, edgeField(r, m), bm}
		}
	}
}

// genCli emits kind 34: [34; use88 s p c l F r preset; nprogs; style1; prog1; style2; prog2]
// Small battle programs (imps, dwarfs, random code) so that outcomes vary.
// forkAndLate: a warrior that keeps splitting against one that waits 6*coresize cycles and then overwrites both of
// its cells: the outcome depends on how many tasks the first one holds by then, i.e. on the -p option, also
// when it is larger than the core (-s 100 -l 10 -F 50)
func forkAndLate(p, c int64) []int64 {
	lit := func(n int64) []int64 { return []int64{0, n} }
	neg := func(n int64) []int64 { return []int64{3, 1, 0, n} }
	ins := func(op, am int64, a []int64, bm int64, b []int64) []int64 {
		out := append([]int64{0, 0, op, -1, am}, a...)
		if b == nil {
			return append(out, 0)
		}
		return append(append(out, 1, bm), b...)
	}
	prog := func(items [][]int64) []int64 {
		out := []int64{int64(len(items))}
		for _, it := range items {
			out = append(out, it...)
		}
		return append(out, 0, 0, -1, -1)
	}
	fork := prog([][]int64{ins(15, -1, lit(0), 0, nil), ins(11, -1, neg(1), 0, nil)})
	var late [][]int64
	for i := 0; i < 6; i++ {
		late = append(late, ins(14, -1, lit(0), 1, lit(0))) // djn 0, #0
	}
	late = append(late, ins(1, -1, lit(3), -1, neg(56)), ins(1, -1, lit(2), -1, neg(56)), ins(11, -1, lit(0), 0, nil), ins(0, 1, lit(0), 1, lit(0)))
	line := []int64{34, 0, 100, p, c, 10, 50, 1, 0, 2, 7}
	line = append(line, fork...)
	line = append(line, 9)
	return append(line, prog(late)...)
}

func genCli(w *bufio.Writer, r *rand.Rand, n int) {
	if n >= 100 {
		for _, p := range []int64{50, 100, 150, 300} {
			for _, c := range []int64{700, 750, 850} {
				wr(w, forkAndLate(p, c))
				n--
			}
		}
	}
	for k := 0; k < n; k++ {
		use88 := int64(r.Intn(4) / 3)
		ln := int64(3 + r.Intn(6))
		s := []int64{80, 200, 800, 8000, 8192, 257}[r.Intn(6)]
		if s < 3*ln+1 {
			s = 3*ln + 1
		}
		if r.Intn(6) == 0 {
			// the smallest cores the tool supports: one or two possible places for warrior 2
			s = 3*ln + 1 + int64(r.Intn(2))
		}
		p := []int64{1, 2, 8, 8000}[r.Intn(4)]
		c := []int64{1, 10, 100, 500, 2000}[r.Intn(5)]
		rounds := int64(1 + r.Intn(3))
		F := int64(0)
		if r.Intn(5) != 0 {
			F = 2*ln + r.Int63n(s-3*ln)
			if r.Intn(6) == 0 {
				// closer to warrior 1 than the random placement would ever put it: still the requested position
				F = 1 + r.Int63n(2*ln-1)
			}
		}
		if F == 0 && r.Intn(2) == 0 {
			// random placement with exactly one possible place
			s = 3*ln + 1
		}
		preset := int64(0)
		if r.Intn(6) == 0 {
			preset = int64(1 + r.Intn(6))
			if preset <= 3 && r.Intn(3) != 0 {
				preset = int64(4 + r.Intn(3)) // the big presets take long: mostly the small ones
			}
			// placement must fit the preset's core
			cores := []int64{0, 8000, 8192, 8000, 800, 256, 80}
			lens := []int64{0, 100, 300, 100, 20, 10, 5}
			if F != 0 {
				F = 2*lens[preset] + r.Int63n(cores[preset]-3*lens[preset])
				if r.Intn(6) == 0 {
					F = 1 + r.Int63n(2*lens[preset]-1)
				}
			}
			if preset <= 3 {
				use88 = map[int64]int64{1: 1, 2: 1, 3: 0}[preset]
			} else {
				use88 = 0
			}
		}
		mode := int64(2)
		if use88 == 1 {
			mode = 0
		}
		if preset != 0 && r.Intn(3) == 0 {
			// a preset fixes the rule set: the -8 flag given next to it changes nothing
			use88 = 1 - use88
		}
		np := int64(1 + r.Intn(3)/1)
		if np > 2 {
			np = 2
		}
		line := []int64{34, use88, s, p, c, ln, F, rounds, preset, np}
		for q := int64(0); q < np; q++ {
			line = append(line, r.Int63n(1<<20))
			line = append(line, battleProg(r, mode)...)
		}
		wr(w, line)
	}
}

// a short abstract program that does something: [nitems; items; org; end; name; author]
func battleProg(r *rand.Rand, mode int64) []int64 {
	lit := func(n int64) []int64 { return []int64{0, n} }
	ins := func(op, md, am int64, a []int64, hasb bool, bm int64, b []int64) []int64 {
		out := []int64{0, 0, op, md, am}
		out = append(out, a...)
		if hasb {
			out = append(out, 1, bm)
			out = append(out, b...)
		} else {
			out = append(out, 0)
		}
		return out
	}
	var items [][]int64
	switch r.Intn(6) {
	case 0: // imp
		items = [][]int64{ins(1, -1, -1, lit(0), true, -1, lit(1))}
	case 1: // dwarf
		items = [][]int64{ins(2, -1, 1, lit(4), true, -1, lit(3)), ins(1, -1, -1, lit(2), true, 3, lit(2)),
			ins(11, -1, -1, []int64{3, 1, 0, 2}, false, 0, nil), ins(0, -1, 1, lit(0), true, 1, lit(0))}
	case 2: // dat only: dies at once
		items = [][]int64{ins(0, -1, 1, lit(0), true, 1, lit(0))}
	case 3: // jmp 0 : lives forever
		items = [][]int64{ins(11, -1, -1, lit(0), false, 0, nil)}
	case 4: // spl fan then dat
		items = [][]int64{ins(15, -1, -1, lit(0), false, 0, nil), ins(1, -1, -1, lit(0), true, -1, lit(1))}
	default:
		n := 1 + r.Intn(4)
		g := &egen{r: r, maxLit: 12}
		for i := 0; i < n; i++ {
			items = append(items, genInstr(r, progOpts{mode: mode, exprDepth: 1, maxInstr: 1}, g, nil))
		}
	}
	out := []int64{int64(len(items))}
	for _, it := range items {
		out = append(out, it...)
	}
	return append(out, 0, 0, -1, -1)
}
