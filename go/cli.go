package main

import (
	"bytes"
	"os"
	"os/exec"
	"path/filepath"
	"strconv"
	"time"
)

// runCli: kind 13 = [use88 s p c l F r preset nfiles (len bytes...)*]: runs the gmars binary
// built from /repo on the files and reports exit status and standard output.
func runCli(e *emitter, c []int64) {
	if len(c) < 9 {
		e.rec(0)
		return
	}
	fl := c[:8]
	nf := int(c[8])
	c = c[9:]
	bin := filepath.Join(filepath.Dir(os.Args[0]), "gmars")
	dir, err := os.MkdirTemp(filepath.Dir(os.Args[0]), "cli")
	if err != nil {
		e.rec(0)
		return
	}
	defer os.RemoveAll(dir)
	var files []string
	for i := 0; i < nf; i++ {
		if len(c) < 1 || len(c) < 1+int(c[0]) {
			e.rec(0)
			return
		}
		n := int(c[0])
		p := filepath.Join(dir, "w"+strconv.Itoa(i)+".red")
		os.WriteFile(p, toBytes(c[1:1+n]), 0o644)
		files = append(files, p)
		c = c[1+n:]
	}
	presets := []string{"", "88", "icws", "nop94", "noptiny", "nop256", "nopnano", "nosuchpreset"}
	var args []string
	if fl[7] > 0 && int(fl[7]) < len(presets) {
		args = append(args, "-preset", presets[fl[7]])
	}
	if fl[0] == 1 {
		args = append(args, "-8")
	}
	args = append(args, "-s", strconv.FormatInt(fl[1], 10), "-p", strconv.FormatInt(fl[2], 10), "-c", strconv.FormatInt(fl[3], 10),
		"-l", strconv.FormatInt(fl[4], 10), "-F", strconv.FormatInt(fl[5], 10), "-r", strconv.FormatInt(fl[6], 10))
	args = append(args, files...)
	cmd := exec.Command(bin, args...)
	var out bytes.Buffer
	cmd.Stdout = &out
	done := make(chan error, 1)
	if err := cmd.Start(); err != nil {
		e.rec(90, -2)
		return
	}
	go func() { done <- cmd.Wait() }()
	select {
	case err := <-done:
		code := 0
		if err != nil {
			if ee, ok := err.(*exec.ExitError); ok {
				code = ee.ExitCode()
			} else {
				code = -2
			}
		}
		e.rec(encText2([]int64{90, int64(code)}, out.Bytes())...)
	case <-time.After(60 * time.Second):
		cmd.Process.Kill()
		e.rec(99)
	}
}

func encText2(prefix []int64, b []byte) []int64 {
	for _, x := range b {
		prefix = append(prefix, int64(x))
	}
	return prefix
}
