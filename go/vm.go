package main

import (
	"github.com/bobertlo/gmars"
)

type recRep struct {
	reps []gmars.Report
}

func (r *recRep) Report(rep gmars.Report) { r.reps = append(r.reps, rep) }

type bwarrior struct {
	code  []gmars.Instruction
	start int
	off   uint64
}

type bcase struct {
	recorder *gmars.StateRecorder
	cfg      gmars.SimulatorConfig
	flags    int64
	maxsteps int
	ws       []bwarrior
}

func rdInstr(c []int64) (gmars.Instruction, []int64, bool) {
	if len(c) < 6 {
		return gmars.Instruction{}, nil, false
	}
	for _, v := range c[:6] {
		if v < 0 {
			return gmars.Instruction{}, nil, false
		}
	}
	if c[0] > 16 || c[1] > 6 || c[3] > 7 || c[5] > 7 {
		return gmars.Instruction{}, nil, false
	}
	return gmars.Instruction{
		Op: gmars.OpCode(c[0]), OpMode: gmars.OpMode(c[1]),
		A: gmars.Address(c[2]), AMode: gmars.AddressMode(c[3]),
		B: gmars.Address(c[4]), BMode: gmars.AddressMode(c[5]),
	}, c[6:], true
}

func rdBcase(c []int64) (*bcase, bool) {
	if len(c) < 8 {
		return nil, false
	}
	bc := &bcase{
		cfg: gmars.SimulatorConfig{
			Mode: gmars.ICWS94, CoreSize: gmars.Address(c[0]), ReadLimit: gmars.Address(c[1]),
			WriteLimit: gmars.Address(c[2]), Processes: gmars.Address(c[3]), Cycles: gmars.Address(c[4]),
		},
		flags: c[5], maxsteps: int(c[6]),
	}
	nw := int(c[7])
	c = c[8:]
	for i := 0; i < nw; i++ {
		if len(c) < 3 {
			return nil, false
		}
		n := int(c[0])
		w := bwarrior{start: int(c[1]), off: uint64(c[2])}
		c = c[3:]
		for j := 0; j < n; j++ {
			in, rest, ok := rdInstr(c)
			if !ok {
				return nil, false
			}
			w.code = append(w.code, in)
			c = rest
		}
		bc.ws = append(bc.ws, w)
	}
	return bc, true
}

func encInstr(out []int64, in gmars.Instruction) []int64 {
	return append(out, int64(in.Op), int64(in.OpMode), int64(in.A), int64(in.AMode), int64(in.B), int64(in.BMode))
}

func dumpCore(out []int64, s gmars.Simulator) []int64 {
	m := s.CoreSize()
	for a := gmars.Address(0); a < m; a++ {
		out = encInstr(out, s.GetMem(a))
	}
	return out
}

const sumP = 1000000007

func coreSum(s gmars.Simulator) int64 {
	vals := dumpCore(nil, s)
	var h uint64
	for _, v := range vals {
		h = (h*31 + uint64(v) + 1) % sumP
	}
	return int64(h)
}

func observe(out []int64, s gmars.Simulator, ws []gmars.Warrior, withsum bool) []int64 {
	out = append(out, int64(s.CycleCount()), int64(s.WarriorLivingCount()), int64(s.WarriorCount()))
	for _, w := range ws {
		if w.Alive() {
			out = append(out, 1)
		} else {
			out = append(out, 0)
		}
	}
	for _, w := range ws {
		q := w.Queue()
		out = append(out, int64(len(q)))
		for _, a := range q {
			out = append(out, int64(a))
		}
	}
	if withsum {
		out = append(out, coreSum(s))
	} else {
		out = append(out, 0)
	}
	return out
}

func encReports(out []int64, reps []gmars.Report) []int64 {
	for _, r := range reps {
		out = append(out, int64(r.Type), int64(r.Cycle), int64(r.WarriorIndex), int64(r.Address))
	}
	return out
}

func finished(s gmars.Simulator) bool {
	n := s.WarriorCount()
	l := s.WarriorLivingCount()
	return (n == 1 && l == 0) || (n > 1 && l <= 1) || s.CycleCount() >= s.MaxCycles() || n == 0
}

// setup mirrors Codec.setup: create, add all, spawn in order.
func setup(e *emitter, bc *bcase, rr *recRep) (gmars.ReportingSimulator, []gmars.Warrior, bool) {
	sim, err := gmars.NewReportingSimulator(bc.cfg)
	if err != nil {
		e.rec(1, 0)
		return nil, nil, false
	}
	e.rec(1, 1)
	sim.AddReporter(rr)
	if bc.flags&32 != 0 {
		bc.recorder = gmars.NewStateRecorder(sim)
		if bc.flags&256 != 0 {
			bc.recorder.SetRecordRead(true)
		}
		sim.AddReporter(bc.recorder)
	}
	var ws []gmars.Warrior
	for i := range bc.ws {
		data := &gmars.WarriorData{Code: bc.ws[i].code, Start: bc.ws[i].start}
		if e.shared != nil && i < len(e.shared) && bc.flags&128 == 0 {
			data = e.shared[i]
		}
		if bc.flags&128 != 0 {
			// the caller keeps its own slice and scribbles over it after the call
			data.Code = append([]gmars.Instruction{}, bc.ws[i].code...)
		}
		w, _ := sim.AddWarrior(data)
		ws = append(ws, w)
		if bc.flags&128 != 0 {
			for j := range data.Code {
				data.Code[j] = gmars.Instruction{Op: gmars.JMP, OpMode: gmars.B, A: 0}
			}
			data.Start = 0
		}
	}
	if !spawnAll(e, bc, sim, rr) {
		return nil, nil, false
	}
	return sim, ws, true
}

// runRot: kind 4 = [k; j; battle...]: the battle as given, the marker record 50,
// then the same battle with every offset increased by k + j*M.
func runRot(e *emitter, c []int64) {
	if len(c) < 3 {
		e.rec(0)
		return
	}
	k, j := c[0], c[1]
	runBattle(e, c[2:])
	e.rec(50)
	bc, ok := rdBcase(c[2:])
	if !ok {
		return
	}
	m := int64(bc.cfg.CoreSize)
	// re-encode with shifted offsets
	d := append([]int64{}, c[2:]...)
	pos := 8
	for i := 0; i < len(bc.ws); i++ {
		d[pos+2] = d[pos+2] + k + j*m
		pos += 3 + 6*len(bc.ws[i].code)
	}
	runBattle(e, d)
}

// stepped mirrors Codec.stepped: per-cycle records, final observables, optional dump.
// Returns false when a cycle panicked (nothing is observed after a panic).
func stepped(e *emitter, bc *bcase, sim gmars.ReportingSimulator, ws []gmars.Warrior, rr *recRep) bool {
	fl := bc.flags
	for k := 0; k < bc.maxsteps; k++ {
		if finished(sim) {
			break
		}
		rr.reps = rr.reps[:0]
		var ret int
		if guard(func() { ret = sim.RunCycle() }) {
			e.rec(9, 1)
			return false
		}
		e.rec(observe([]int64{3, int64(ret)}, sim, ws, fl&4 != 0)...)
		if fl&1 != 0 {
			e.rec(encReports([]int64{4}, rr.reps)...)
		}
		if fl&16 != 0 {
			e.rec(dumpCore([]int64{11}, sim)...)
		}
	}
	if finished(sim) {
		// the battle is over: one more RunCycle must change nothing (a cycle-by-cycle driver that
		// loops until RunCycle returns 0 makes exactly this call); whatever it does shows in the
		// final observables below
		if guard(func() { sim.RunCycle() }) {
			e.rec(9, 1)
			return false
		}
	}
	e.rec(observe([]int64{5}, sim, ws, fl&4 != 0)...)
	if fl&8 != 0 {
		e.rec(dumpCore([]int64{6}, sim)...)
	}
	return true
}

func spawnAll(e *emitter, bc *bcase, sim gmars.ReportingSimulator, rr *recRep) bool {
	for i := range bc.ws {
		rr.reps = rr.reps[:0]
		var serr error
		if guard(func() { serr = sim.SpawnWarrior(i, gmars.Address(bc.ws[i].off)) }) {
			e.rec(2, int64(i), 2)
			return false
		}
		if serr != nil {
			e.rec(2, int64(i), 1)
		} else {
			e.rec(encReports([]int64{2, int64(i), 0}, rr.reps)...)
		}
	}
	return true
}

func runBattle(e *emitter, c []int64) {
	bc, ok := rdBcase(c)
	if !ok {
		e.rec(0)
		return
	}
	fl := bc.flags
	rr := &recRep{}
	sim, ws, ok := setup(e, bc, rr)
	if !ok {
		return
	}
	if !stepped(e, bc, sim, ws, rr) {
		return
	}
	if bc.recorder != nil {
		out := []int64{13}
		if !guard(func() {
			for a := gmars.Address(0); a < sim.CoreSize(); a++ {
				st, col := bc.recorder.GetMemState(a)
				out = append(out, int64(st), int64(col))
			}
		}) {
			e.rec(out...)
		}
	}
	if fl&64 != 0 {
		// a second battle on the same simulator after Reset and re-spawn
		e.rec(12)
		if guard(func() { sim.Reset() }) {
			e.rec(9, 2)
			return
		}
		if bc.recorder != nil {
			// what the recorder shows right after the reset
			out := []int64{14}
			if !guard(func() {
				for a := gmars.Address(0); a < sim.CoreSize(); a++ {
					st, col := bc.recorder.GetMemState(a)
					out = append(out, int64(st), int64(col))
				}
			}) {
				e.rec(out...)
			}
		}
		if !spawnAll(e, bc, sim, rr) {
			return
		}
		if !stepped(e, bc, sim, ws, rr) {
			return
		}
		if bc.recorder != nil {
			// ... and a reset that follows the spawns directly, before any task has run (a round set up and abandoned):
			// the recorder must show every address empty again (a second record 14)
			out := []int64{14}
			if !guard(func() {
				sim.Reset()
				for i := range bc.ws {
					sim.SpawnWarrior(i, gmars.Address(bc.ws[i].off))
				}
				sim.Reset()
				for a := gmars.Address(0); a < sim.CoreSize(); a++ {
					st, col := bc.recorder.GetMemState(a)
					out = append(out, int64(st), int64(col))
				}
			}) {
				e.rec(out...)
			}
		}
	}
	if fl&2 != 0 {
		// a fresh simulator driven by one Run() call
		rr2 := &recRep{}
		sim2, ws2, ok := setupSilent(bc, rr2)
		if !ok {
			return
		}
		var res []bool
		if guard(func() { res = sim2.Run() }) {
			e.rec(7, 2)
			return
		}
		if res == nil {
			e.rec(7, 1)
			return
		}
		out := []int64{7, 0}
		for _, b := range res {
			if b {
				out = append(out, 1)
			} else {
				out = append(out, 0)
			}
		}
		e.rec(out...)
		e.rec(observe([]int64{8}, sim2, ws2, fl&4 != 0)...)
		if fl&8 != 0 {
			e.rec(dumpCore([]int64{10}, sim2)...)
		}
	}
}

// setupSilent is setup without output (the second, Run()-driven simulator).
func setupSilent(bc *bcase, rr *recRep) (gmars.ReportingSimulator, []gmars.Warrior, bool) {
	sim, err := gmars.NewReportingSimulator(bc.cfg)
	if err != nil {
		return nil, nil, false
	}
	sim.AddReporter(rr)
	var ws []gmars.Warrior
	for i := range bc.ws {
		w, _ := sim.AddWarrior(&gmars.WarriorData{Code: bc.ws[i].code, Start: bc.ws[i].start})
		ws = append(ws, w)
	}
	for i := range bc.ws {
		ok := func() (ok bool) {
			defer func() {
				if recover() != nil {
					ok = false
				}
			}()
			sim.SpawnWarrior(i, gmars.Address(bc.ws[i].off))
			return true
		}()
		if !ok {
			return nil, nil, false
		}
	}
	return sim, ws, true
}

func runCaseMore(e *emitter, c []int64) bool {
	switch c[0] {
	case 2:
		runApi(e, c[1:])
		return true
	case 4:
		runRot(e, c[1:])
		return true
	case 3:
		runConfig(e, c[1:])
		return true
	case 13:
		runCli(e, c[1:])
		return true
	case 14:
		runConc(e, c[1:])
		return true
	case 10, 11, 12, 20, 21, 22:
		runAsm(e, c[0], c[1:])
		return true
	}
	return false
}

// runConfig: kind 3 = [mode M P C R W Len Dist]: creation must return an error
// or a simulator; an accepted configuration then runs an imp for a few cycles.
func runConfig(e *emitter, c []int64) {
	if len(c) < 8 {
		e.rec(0)
		return
	}
	cfg := gmars.SimulatorConfig{Mode: gmars.SimulatorMode(c[0]), CoreSize: gmars.Address(c[1]), Processes: gmars.Address(c[2]),
		Cycles: gmars.Address(c[3]), ReadLimit: gmars.Address(c[4]), WriteLimit: gmars.Address(c[5]),
		Length: gmars.Address(c[6]), Distance: gmars.Address(c[7])}
	var sim gmars.Simulator
	var err error
	if guard(func() { sim, err = gmars.NewSimulator(cfg) }) {
		e.rec(1, 2)
		return
	}
	if err != nil {
		e.rec(1, 0)
		return
	}
	e.rec(1, 1)
	// an imp with a split in front, stepped a few cycles
	code := []gmars.Instruction{{Op: gmars.SPL, OpMode: gmars.B, A: 1}, {Op: gmars.MOV, OpMode: gmars.I, A: 0, B: 1}}
	var ws []gmars.Warrior
	if guard(func() {
		w, _ := sim.AddWarrior(&gmars.WarriorData{Code: code, Start: 0})
		ws = append(ws, w)
		sim.SpawnWarrior(0, 0)
	}) {
		e.rec(9, 0)
		return
	}
	for k := 0; k < 4; k++ {
		if guard(func() { sim.RunCycle() }) {
			e.rec(9, 1)
			return
		}
		e.rec(observe([]int64{3, 0}, sim, ws, false)...)
	}
}
