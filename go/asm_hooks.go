//go:build verif

package main

import (
	"bytes"

	"github.com/bobertlo/gmars"
)

func encTokens(ts []gmars.VerifToken) []int64 {
	out := []int64{80}
	for _, t := range ts {
		out = append(out, int64(t.Typ), int64(len(t.Val)))
		for _, b := range []byte(t.Val) {
			out = append(out, int64(b))
		}
	}
	return out
}

func runAsmHooks(e *emitter, kind int64, c []int64) bool {
	text := toBytes(c)
	switch kind {
	case 20:
		var ts []gmars.VerifToken
		if guard(func() { ts, _ = gmars.VerifLex(bytes.NewReader(text)) }) {
			e.rec(80, -1)
			return true
		}
		e.rec(encTokens(ts)...)
	case 21:
		var ts []gmars.VerifToken
		var err error
		if guard(func() { ts, err = gmars.VerifExpandFor(bytes.NewReader(text), gmars.ConfigNOP94) }) {
			e.rec(81, 2)
			return true
		}
		if err != nil {
			e.rec(81, 1)
			return true
		}
		e.rec(81, 0)
		e.rec(encTokens(ts)...)
	case 22:
		var v int
		var err error
		if guard(func() { v, err = gmars.VerifEvaluate(string(text)) }) {
			e.rec(82, 2)
			return true
		}
		if err != nil {
			e.rec(82, 1)
		} else {
			e.rec(82, 0, int64(v))
		}
	default:
		return false
	}
	return true
}
