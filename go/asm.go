package main

import (
	"bytes"
	"os"
	"os/exec"
	"path/filepath"
	"runtime"
	"strings"
	"time"

	"github.com/bobertlo/gmars"
)

func rdCfg(c []int64) (gmars.SimulatorConfig, []int64, bool) {
	if len(c) < 8 {
		return gmars.SimulatorConfig{}, nil, false
	}
	return gmars.SimulatorConfig{Mode: gmars.SimulatorMode(c[0]), CoreSize: gmars.Address(c[1]), Processes: gmars.Address(c[2]),
		Cycles: gmars.Address(c[3]), ReadLimit: gmars.Address(c[4]), WriteLimit: gmars.Address(c[5]),
		Length: gmars.Address(c[6]), Distance: gmars.Address(c[7])}, c[8:], true
}

func toBytes(c []int64) []byte {
	b := make([]byte, len(c))
	for i, v := range c {
		b[i] = byte(v)
	}
	return b
}

func encText(tag int64, s string) []int64 {
	out := []int64{tag}
	for _, b := range []byte(s) {
		out = append(out, int64(b))
	}
	return out
}

func emitWarrior(e *emitter, w gmars.WarriorData, withMeta bool) {
	e.rec(70, 0)
	out := []int64{71, int64(w.Start), int64(len(w.Code))}
	for _, in := range w.Code {
		out = encInstr(out, in)
	}
	e.rec(out...)
	if withMeta {
		e.rec(encText(72, w.Name)...)
		e.rec(encText(73, w.Author)...)
		e.rec(encText(74, w.Strategy)...)
	}
}

// goroutines other than the ones that belong to the runtime / this worker
func settleGoroutines(base int) int {
	n := runtime.NumGoroutine()
	for i := 0; i < 40 && n > base; i++ {
		time.Sleep(time.Duration(i+1) * 250 * time.Microsecond)
		runtime.Gosched()
		n = runtime.NumGoroutine()
	}
	return n - base
}

func runAsm(e *emitter, kind int64, c []int64) {
	switch kind {
	case 10, 11:
		cfg, rest, ok := rdCfg(c)
		if !ok {
			e.rec(0)
			return
		}
		text := toBytes(rest)
		base := runtime.NumGoroutine()
		var w gmars.WarriorData
		var err error
		t0 := time.Now()
		if guard(func() {
			if kind == 10 {
				w, err = gmars.CompileWarrior(bytes.NewReader(text), cfg)
			} else {
				w, err = gmars.ParseLoadFile(bytes.NewReader(text), cfg)
			}
		}) {
			e.rec(70, 2)
			return
		}
		el := time.Since(t0)
		if err != nil {
			e.rec(70, 1)
			// err xor result: an error must come with an empty result
			if len(w.Code) != 0 {
				e.rec(77, int64(len(w.Code)))
			}
		} else {
			emitWarrior(e, w, kind == 10)
		}
		leaked := settleGoroutines(base)
		e.rec(76, int64(leaked), int64(el/time.Millisecond))
	case 12:
		if len(c) < 4 {
			e.rec(0)
			return
		}
		// the listing depends on the dialect and the core size only: every other setting is varied
		var h int64
		for _, v := range c {
			h = (h*31 + v) % 1000003
		}
		cfg := gmars.SimulatorConfig{Mode: gmars.SimulatorMode(c[0]), CoreSize: gmars.Address(c[1]), Processes: gmars.Address(1 + h%9),
			Cycles: gmars.Address(1 + h%7), ReadLimit: gmars.Address(1 + h%(2*c[1])), WriteLimit: gmars.Address(1 + (h/7)%(2*c[1]))}
		start, n := int(c[2]), int(c[3])
		c = c[4:]
		var code []gmars.Instruction
		for i := 0; i < n; i++ {
			in, rest, ok := rdInstr(c)
			if !ok {
				e.rec(0)
				return
			}
			code = append(code, in)
			c = rest
		}
		var s string
		if guard(func() {
			sim, err := gmars.NewSimulator(cfg)
			if err != nil {
				panic(err)
			}
			w, _ := sim.AddWarrior(&gmars.WarriorData{Code: code, Start: start})
			s = w.LoadCode()
		}) {
			e.rec(75, -1)
			return
		}
		e.rec(encText(75, s)...)
		// the text behind the -A option: one case in six also goes through the command (every flag combination that
		// names a dialect and a core size: -8 / -s, and the presets); the listing the command prints for the listing
		// just obtained must be that listing again (record 78: 0 same, 1 differs, 2 the command failed)
		if h%6 == 0 && n > 0 {
			e.rec(78, cliListing(h, code, start))
		}
	default:
		if !runAsmHooks(e, kind, c) {
			e.rec(0)
		}
	}
}

// cliListing: the warrior, with its fields reduced into the core of the chosen setting, is listed through the API, the
// listing is written to a file and handed to `gmars -A` with the flags that describe the same setting
func cliListing(h int64, code []gmars.Instruction, start int) int64 {
	type setting struct {
		args []string
		cfg  gmars.SimulatorConfig
	}
	var st setting
	presets := []string{"88", "icws", "nop94", "noptiny", "nop256", "nopnano"}
	switch k := (h / 6) % 9; {
	case k < 6:
		c, err := gmars.PresetConfig(presets[k])
		if err != nil {
			return 2
		}
		st = setting{[]string{"-preset", presets[k]}, c}
	case k == 6:
		st = setting{[]string{"-8", "-s", "8192", "-l", "100"}, gmars.NewQuickConfig(gmars.ICWS88, 8192, 8000, 80000, 100)}
	case k == 7:
		st = setting{[]string{"-s", "55441", "-l", "100"}, gmars.NewQuickConfig(gmars.ICWS94, 55441, 8000, 80000, 100)}
	default:
		st = setting{[]string{"-8"}, gmars.NewQuickConfig(gmars.ICWS88, 8000, 8000, 80000, 100)}
	}
	m := st.cfg.CoreSize
	if gmars.Address(len(code)) > st.cfg.Length {
		code = code[:st.cfg.Length]
		if start >= len(code) {
			start = 0
		}
	}
	cc := make([]gmars.Instruction, len(code))
	for i, in := range code {
		in.A %= m
		in.B %= m
		cc[i] = in
	}
	var want string
	if guard(func() {
		sim, err := gmars.NewSimulator(st.cfg)
		if err != nil {
			panic(err)
		}
		w, _ := sim.AddWarrior(&gmars.WarriorData{Code: cc, Start: start})
		want = w.LoadCode()
	}) {
		return 2
	}
	// only warriors the dialect can express go through the assembler
	if _, err := gmars.CompileWarrior(strings.NewReader(want), st.cfg); err != nil {
		return 3
	}
	dir, err := os.MkdirTemp(filepath.Dir(os.Args[0]), "lst")
	if err != nil {
		return 2
	}
	defer os.RemoveAll(dir)
	f := filepath.Join(dir, "w.red")
	os.WriteFile(f, []byte(want), 0o644)
	out, err := exec.Command(filepath.Join(filepath.Dir(os.Args[0]), "gmars"), append(append([]string{"-A"}, st.args...), f)...).Output()
	if err != nil {
		return 2
	}
	if string(out) == want+"\n" {
		return 0
	}
	return 1
}
