module verifharness

go 1.22.0

require github.com/bobertlo/gmars v0.0.0

replace github.com/bobertlo/gmars => /repo
