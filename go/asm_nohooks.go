//go:build !verif

package main

func runAsmHooks(e *emitter, kind int64, c []int64) bool { return false }
