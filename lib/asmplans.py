# asmplans.py — plans of the assembler-side properties.  Abstract cases (kind 30
# programs, kind 32 warriors) are rendered to text by the extracted reference,
# which also states what must come back; the concrete cases (kind 10
# CompileWarrior, 11 ParseLoadFile, 12 LoadCode) run on gmars and on the
# extracted model.
import random
from plans import Plan
import vmcases as VM

ASM_TIE = {70: None, 71: None, 72: None, 73: None, 74: None, 75: None, 99: None, 98: None}


def text_of(rec):
    try:
        return bytes(rec[1:]).decode('latin-1')
    except Exception:
        return str(rec[:60])


def find(recs, tag):
    for r in recs:
        if r and r[0] == tag:
            return r
    return None


def fatal(impl):
    """panic / hang / leaked goroutine / error together with a result"""
    for r in impl:
        if not r:
            continue
        if r[0] in (98, 99):
            return 'did-not-return' if r[0] == 99 else 'worker-died'
        if r[:2] == [70, 2]:
            return 'panic'
        if r[0] == 76 and len(r) > 1 and r[1] > 0:
            return 'goroutines-left-behind=%d' % r[1]
        if r[0] == 77:
            return 'error-returned-together-with-a-result'
    return None


# ---------- python view of the abstract program encoding (Prog.v) ----------
def p_expr(l, i):
    k = l[i]
    if k == 0:
        return ('lit', l[i + 1]), i + 2
    if k == 1:
        return ('name', l[i + 1]), i + 2
    if k == 2:
        e, j = p_expr(l, i + 1)
        return ('par', e), j
    if k == 3:
        e, j = p_expr(l, i + 2)
        return ('sgn', l[i + 1], e), j
    a, j = p_expr(l, i + 2)
    b, j = p_expr(l, j)
    return ('bin', l[i + 1], a, b), j


def u_expr(e):
    if e[0] == 'lit':
        return [0, e[1]]
    if e[0] == 'name':
        return [1, e[1]]
    if e[0] == 'par':
        return [2] + u_expr(e[1])
    if e[0] == 'sgn':
        return [3, e[1]] + u_expr(e[2])
    return [4, e[1]] + u_expr(e[2]) + u_expr(e[3])


def p_items(l, i, n):
    out = []
    for _ in range(n):
        k = l[i]
        if k == 0:
            nl = l[i + 1]
            labs = l[i + 2:i + 2 + nl]
            i += 2 + nl
            op, md, am = l[i], l[i + 1], l[i + 2]
            a, i = p_expr(l, i + 3)
            hasb = l[i]
            i += 1
            b = None
            if hasb == 1:
                bm = l[i]
                be, i = p_expr(l, i + 1)
                b = (bm, be)
            out.append(('instr', labs, op, md, am, a, b))
        elif k == 1:
            e, j = p_expr(l, i + 2)
            out.append(('equ', l[i + 1], e))
            i = j
        elif k == 3:
            e, i = p_expr(l, i + 1)
            out.append(('assert', e))
        else:
            nl = l[i + 1]
            labs = l[i + 2:i + 2 + nl]
            i += 2 + nl
            c = l[i]
            cnt, i = p_expr(l, i + 1)
            nb = l[i]
            body, i = p_items(l, i + 1, nb)
            out.append(('for', labs, c, cnt, body))
    return out, i


def u_items(its):
    out = []
    for it in its:
        if it[0] == 'instr':
            _, labs, op, md, am, a, b = it
            out += [0, len(labs)] + list(labs) + [op, md, am] + u_expr(a)
            if b is None:
                out += [0]
            else:
                out += [1, b[0]] + u_expr(b[1])
        elif it[0] == 'equ':
            out += [1, it[1]] + u_expr(it[2])
        elif it[0] == 'assert':
            out += [3] + u_expr(it[1])
        else:
            _, labs, c, cnt, body = it
            out += [2, len(labs)] + list(labs) + [c] + u_expr(cnt) + [len(body)] + u_items(body)
    return out


def p_prog(ints):
    """ints: [30, cfg(8), style, nitems, items..., org, end, name, author]"""
    cfg = ints[1:9]
    style = ints[9]
    n = ints[10]
    items, i = p_items(ints, 11, n)
    rest = ints[i:]
    return dict(cfg=cfg, style=style, items=items, rest=rest)


def u_prog(p):
    return [30] + list(p['cfg']) + [p['style'], len(p['items'])] + u_items(p['items']) + list(p['rest'])


def zero_pad(b):
    """the same text with some decimal literals written with leading zeros (007 is 7, not octal): numbers outside
    comments that do not continue a word; every third literal is left alone, the others get one or two zeros"""
    out, i, n, k, in_comment = [], 0, len(b), 0, False
    def wordch(c):
        return (48 <= c <= 57) or (65 <= c <= 90) or (97 <= c <= 122) or c == 95 or c == 46
    while i < n:
        c = b[i]
        if c == 10:
            in_comment = False
        elif c == 59:
            in_comment = True
        if not in_comment and 48 <= c <= 57 and (i == 0 or not wordch(b[i - 1])):
            j = i
            while j < n and 48 <= b[j] <= 57:
                j += 1
            if j == n or not wordch(b[j]):
                out += [48] * (k % 3)
                k += 1
            out += b[i:j]
            i = j
            continue
        out.append(c)
        i += 1
    return out


_WORDS = {b'dat', b'mov', b'add', b'sub', b'mul', b'div', b'mod', b'jmp', b'jmz', b'jmn', b'djn', b'cmp', b'seq', b'sne', b'slt', b'spl', b'nop',
          b'equ', b'org', b'end', b'for', b'rof'}


def meta_after_label(b):
    """the same text with its leading ;name / ;author / ;strategy lines moved behind the first line that holds only
    labels (names, with or without a colon): metadata comments count wherever they stand.  None if there is no such line."""
    import re
    t = bytes(b)
    lines = t.split(b'\n')
    k = 0
    while k < len(lines) and re.match(rb'^;(name|author|strategy)\b', lines[k], re.I):
        k += 1
    if k == 0:
        return None
    for i in range(k, len(lines) - 1):
        ws = lines[i].split()
        if ws and all(re.match(rb'^[A-Za-z_][A-Za-z0-9_]*:?$', w) and w.rstrip(b':').lower() not in _WORDS for w in ws):
            out = lines[k:i + 1] + lines[:k] + lines[i + 1:]
            return list(b'\n'.join(out))
    return None


ZERO_MARK = b';assert 0*0*0*0'


def zero_assert_after_label(b):
    """the same text with a condition that is zero written between the first line that holds only labels and the
    instruction those labels belong to - when that line stands in front of every FOR block (inside a block the line
    may never be written out).  Returns (text, has_for) or None."""
    import re
    t = bytes(b)
    lines = t.split(b'\n')
    has_for = re.search(rb'(?i)(^|[^A-Za-z0-9_.;])for([^A-Za-z0-9_]|$)', b'\n'.join(l.split(b';')[0] for l in lines)) is not None
    for i in range(0, len(lines) - 1):
        code = lines[i].split(b';')[0]
        ws = code.split()
        if any(w.lower() in (b'for', b'rof', b'end') for w in ws):
            return None
        if ws and lines[i].find(b';') < 0 and all(re.match(rb'^[A-Za-z_][A-Za-z0-9_]*:?$', w) and w.rstrip(b':').lower() not in _WORDS for w in ws):
            nxt = lines[i + 1].split(b';')[0].split()
            if not nxt or nxt[0].lower() in (b'for', b'rof', b'end', b'equ') or (len(nxt) > 1 and nxt[1].lower() in (b'equ', b'for')):
                return None
            out = lines[:i + 1] + [ZERO_MARK] + lines[i + 1:]
            return list(b'\n'.join(out)), has_for
    return None


class AsmPlan(Plan):
    two_stage = True
    zero_asserts = False
    tie = ASM_TIE
    timeout_ms = 8000
    check_meta = True

    pad_numbers = False

    def concrete(self, ints, spec):
        cfg = ints[1:9]
        out = []
        for tag in (60, 61):
            r = find(spec, tag)
            if r is not None:
                out.append(' '.join(str(x) for x in [10] + cfg + r[1:]))
        if self.pad_numbers:
            r = find(spec, 60)
            if r is not None:
                padded = zero_pad(r[1:])
                if padded != r[1:]:
                    out.append(' '.join(str(x) for x in [10] + cfg + padded))
                moved = meta_after_label(r[1:])
                if moved is not None:
                    out.append(' '.join(str(x) for x in [10] + cfg + moved))
        if self.zero_asserts:
            r = find(spec, 60)
            z = zero_assert_after_label(r[1:]) if r is not None else None
            if z is not None:
                out.append(' '.join(str(x) for x in [10] + cfg + z[0]))
        return out

    def matches(self, finding, ints, verdict):
        m = finding.get('match')
        return bool(m) and any(m in w for w in verdict.get('why', []))

    def judge(self, ints, spec, idx, conc, impl):
        f = fatal(impl)
        if f:
            return f
        if self.zero_asserts and idx > 0 and ZERO_MARK in bytes(x for x in conc[9:] if 0 <= x < 256):
            # a program is refused exactly when one of its ;assert conditions is zero - wherever the line stands
            st = find(impl, 70)
            if st is None:
                return 'no-result'
            if st[1] == 1:
                return None
            z = zero_assert_after_label(find(spec, 60)[1:])
            return 'accepted-a-program-whose-assert-condition-is-zero (the line stands between a label and its instruction' + (', in front of a FOR block)' if z and z[1] else ')')
        exp = find(spec, 62)
        if exp is None or exp[1] == 5:
            return None
        st = find(impl, 70)
        if st is None:
            return 'no-result'
        if exp[1] == 1:
            return None if st[1] == 1 else 'accepted-a-program-that-must-be-refused'
        if st[1] != 0:
            return 'refused-a-well-formed-program'
        got = find(impl, 71)
        if got is None or got[1:] != exp[2:]:
            return 'assembled-code-differs-from-what-the-program-denotes'
        with_meta = idx == 0
        if self.pad_numbers and idx > 0:
            r60 = find(spec, 60)
            with_meta = r60 is not None and list(conc[9:]) == meta_after_label(r60[1:])
        if self.check_meta and with_meta:
            for (a, b, what) in ((63, 72, 'name'), (64, 73, 'author')):
                e = find(spec, a)
                g = find(impl, b)
                if e is not None and len(e) > 1 and (g is None or g[1:] != e[1:]):
                    return what + '-not-captured'
            e = find(spec, 67)
            g = find(impl, 74)
            if e is not None and (g is None or g[1:] != e[1:]):
                return 'strategy-not-captured'
        return None

    def pretty(self, ints):
        return dict(abstract_case=ints[:120], note='kind 30 = abstract program (see coq/theories/spec/Prog.v); the rendered text is under "texts"')

    def shrink(self, ints):
        if not ints or ints[0] != 30:
            return
        import copy
        p = p_prog(ints)
        for k in range(len(p['items']) - 1, -1, -1):
            if p['items'][k][0] == 'equ':
                continue      # dropping a definition would leave names undefined: outside every quantifier
            c = copy.deepcopy(p)
            del c['items'][k]
            if c['items']:
                yield u_prog(c)
        for k, it in enumerate(p['items']):
            if it[0] == 'instr':
                if it[6] is not None:
                    c = copy.deepcopy(p)
                    c['items'][k] = it[:6] + (None,)
                    yield u_prog(c)
                for pos in (5,):
                    if it[pos] != ('lit', 1):
                        c = copy.deepcopy(p)
                        l = list(it)
                        l[pos] = ('lit', 1)
                        c['items'][k] = tuple(l)
                        yield u_prog(c)
                if it[6] is not None and it[6][1] != ('lit', 1):
                    c = copy.deepcopy(p)
                    l = list(it)
                    l[6] = (it[6][0], ('lit', 1))
                    c['items'][k] = tuple(l)
                    yield u_prog(c)
                if it[1]:
                    c = copy.deepcopy(p)
                    l = list(it)
                    l[1] = []
                    c['items'][k] = tuple(l)
                    yield u_prog(c)
            if it[0] == 'for' and len(it[4]) > 1:
                for j in range(len(it[4])):
                    c = copy.deepcopy(p)
                    body = list(it[4])
                    del body[j]
                    c['items'][k] = it[:4] + (body,)
                    yield u_prog(c)
        if p['style'] != 0:
            c = copy.deepcopy(p)
            c['style'] = 0
            yield u_prog(c)

    def nontrivial(self, ints, impl):
        return any(r and r[:2] == [70, 0] for r in impl)

    def tags(self, ints, impl):
        t = ['mode=%d' % ints[1], 'M=%d' % ints[2]]
        for r in impl:
            if r and r[0] == 70:
                t.append('result=' + {0: 'ok', 1: 'error', 2: 'panic'}.get(r[1], str(r[1])))
        return t


def progargs(mode, depth, flags, maxinstr):
    return [mode, depth, flags, maxinstr]


SIGNS, DIVS, EQUS, ASSERTS, FORS, ILLEGAL88, BIGM = 1, 2, 4, 8, 16, 32, 64


class C03(AsmPlan):
    pid = 'C03'
    pad_numbers = True
    tie_name = 'CompileWarrior on rendered programs: gmars vs the extracted lexer/scanner/expander/parser/compiler model'
    rule = ('abstract programs (labels, EQU names incl. forward uses and textual substitution, predefined constants, omitted modes / modifiers / second operands, ORG / END, name / author) '
            'generated by construction, rendered by the extracted renderer under a random style (letter case, blanks and tabs, blank and comment lines, colon suffixes, labels on their own line, naming scheme, EQU placement), '
            'both dialects, core sizes 80 / 8000 / 8192 / 55440 / 2^33+9; each program additionally with its decimal literals written with leading zeros, and with its ;name / ;author / ;strategy lines moved behind a line of labels; expected result = extracted Meaning; non-trivial = the program assembles')

    def gens(self, tier):
        k = {'quick': 1, 'search': 1}.get(tier, 25)
        return [('prog', 700 * k, progargs(2, 3, EQUS, 6)), ('prog', 500 * k, progargs(0, 3, EQUS, 6)),
                ('prog', 300 * k, progargs(2, 2, EQUS | SIGNS | DIVS, 4))]


class C07(AsmPlan):
    pid = 'C07'
    check_meta = False
    pad_numbers = True
    zero_asserts = True
    tie_name = 'expressions: gmars evaluateExpression (through CompileWarrior and the verif hook) vs the extracted combineSigns / flipDoubleNegatives / evaluator model'
    rule = ('infix expressions of depth <= 6 over literals, predefined constants, labels and EQU names, with sign runs of 1..5, redundant parentheses, optional blanks, division and remainder; '
            'assembled as operands under M = 2^40 (value recovered exactly) and under small M (reduction), as ORG arguments and as ;assert conditions; expected = extracted reference evaluator; '
            'non-trivial = the program assembles')

    def gens(self, tier):
        k = {'quick': 1, 'search': 1}.get(tier, 25)
        return [('prog', 700 * k, progargs(2, 6, SIGNS | DIVS | EQUS | BIGM, 2)),
                ('prog', 400 * k, progargs(2, 5, SIGNS | DIVS | EQUS | ASSERTS, 2)),
                ('prog', 300 * k, progargs(0, 4, SIGNS | DIVS, 2))]


class C08(AsmPlan):
    pid = 'C08'
    check_meta = False
    zero_asserts = True
    tie_name = 'FOR programs and their unrollings: gmars vs the extracted scanner / expander / pass-loop model'
    rule = ('programs with FOR/ROF blocks one after another and nested to depth 3, counts 0..6, up to 40 expansions, counters used in operand expressions of inner and outer bodies, optional block labels; '
            'the extracted reference unrolls the program; gmars assembles both the FOR text and the unrolled text and both must equal the extracted Meaning of the unrolling; non-trivial = both assemble')

    def gens(self, tier):
        k = {'quick': 1, 'search': 1}.get(tier, 25)
        return [('prog', 600 * k, progargs(2, 2, FORS | EQUS, 4)), ('prog', 300 * k, progargs(0, 2, FORS, 4))]


class C09(AsmPlan):
    pid = 'C09'
    check_meta = False
    tie_name = 'canonical load files: gmars ParseLoadFile and CompileWarrior vs the extracted Load / assembler models'
    rule = ('warriors of 1..8 instructions, every instruction form legal in the dialect, fields across [0,M) incl. M/2 and M/2+1 printed signed or unsigned, every entry point; '
            'printed by the extracted canonical printer under layout perturbations (letter case, blanks / tabs, CR-LF, comment / blank / metadata lines, missing final newline) and in the plain canonical layout; '
            'read back by the load-file reader and by the assembler; non-trivial = both readers accept')

    def gens(self, tier):
        k = {'quick': 1, 'search': 1}.get(tier, 25)
        return [('warriors', 700 * k, [2, 1]), ('warriors', 500 * k, [0, 1])]

    def concrete(self, ints, spec):
        cfg = ints[1:9]
        out = []
        for tag in (60, 61):      # 60: the layout under the style; 61: the canonical layout itself
            r = find(spec, tag)
            if r is not None:
                out += [' '.join(str(x) for x in [11] + cfg + r[1:]), ' '.join(str(x) for x in [10] + cfg + r[1:])]
        # further comment lines are layout too: the ;redcode line of a posted warrior, more than once (in front, between
        # two lines, at the end), and - for one case in sixty-four - a comment line longer than 64 KiB in front
        r = find(spec, 61)
        if r is not None and len(out) == 4:
            ls = bytes(r[1:]).split(b'\n')
            mid = 1 + (sum(ints) % max(1, len(ls) - 1))
            v = [b';redcode-94'] + ls[:mid] + [b';redcode', b';REDCODE quiet'] + ls[mid:]
            t = list(b'\n'.join(v))
            out += [' '.join(str(x) for x in [11] + cfg + t), ' '.join(str(x) for x in [10] + cfg + t)]
            self.long_lines = getattr(self, 'long_lines', 0) + (1 if sum(ints) % 64 == 0 else 0)
            if sum(ints) % 64 == 0 and self.long_lines <= 40:      # at most forty per run: the extracted model needs seconds for each
                t = list(b';' + b'-' * 70000 + b'\n' + bytes(r[1:]))
                out += [' '.join(str(x) for x in [11] + cfg + t), ' '.join(str(x) for x in [10] + cfg + t)]
        return out

    def judge(self, ints, spec, idx, conc, impl):
        why = AsmPlan.judge(self, ints, spec, 1, conc, impl)
        if why:
            return ('load-file-reader: ' if idx % 2 == 0 else 'assembler: ') + ('', '', '(canonical layout) ', '(canonical layout) ', '(with ;redcode comment lines) ', '(with ;redcode comment lines) ',
                                                                                   '(behind a comment line of 70000 characters) ', '(behind a comment line of 70000 characters) ')[min(idx, 7)] + why
        return None

    def shrink(self, ints):
        # [32; cfg(8); style; start; n; code...]
        if not ints or ints[0] != 32:
            return
        n = ints[11]
        code = [ints[12 + 6 * j:18 + 6 * j] for j in range(n)]
        for k in range(n - 1, -1, -1):
            if n > 1 and ints[10] < n - 1:
                c = code[:k] + code[k + 1:]
                yield ints[:11] + [n - 1] + [x for i in c for x in i]
        if ints[9] != 0:
            yield ints[:9] + [0] + ints[10:]

    def pretty(self, ints):
        n = ints[11]
        return dict(mode=ints[1], M=ints[2], style=ints[9], start=ints[10],
                    code=[VM.fmt_instr(tuple(ints[12 + 6 * j:18 + 6 * j])) for j in range(n)])


class C16(Plan):
    pid = 'C16'
    tie = {75: None}
    mon_extra = True
    codes = {58, 59}
    tie_name = 'load listings: gmars LoadCode vs the extracted Listing model, byte for byte'
    rule = ('warriors of 1..8 instructions legal in the dialect, fields across [0,M) incl. M/2 and M/2+1, every entry point, even and odd core sizes 9..55441, modes ICWS88 / NOP94 / ICWS94; '
            'gmars prints the listing; the extracted pMARS-listing reader must read back exactly the warrior; non-trivial = always')

    def gens(self, tier):
        k = {'quick': 1, 'search': 1}.get(tier, 25)
        return [('listing', 1500 * k, [2]), ('listing', 1000 * k, [0])]

    def verdict_name(self, r):
        return {58: 'listing-denotes-a-different-warrior', 59: 'listing-is-not-readable'}.get(r[0], str(r[0]))

    def extra_monitor(self, ints, impl):
        # record 78: the same listing through `gmars -A` under the flags / preset that describe the setting
        for r in impl:
            if r and r[0] == 78 and len(r) > 1 and r[1] in (1, 2):
                return 'the-listing-printed-by-gmars-A-differs-from-the-listing-of-the-warrior' if r[1] == 1 else 'gmars-A-failed-on-a-listing-the-assembler-accepts'
        return None

    def pretty(self, ints):
        n = ints[4]
        return dict(mode=ints[1], M=ints[2], start=ints[3], code=[VM.fmt_instr(tuple(ints[5 + 6 * j:11 + 6 * j])) for j in range(n)])

    def shrink(self, ints):
        n = ints[4]
        code = [ints[5 + 6 * j:11 + 6 * j] for j in range(n)]
        for k in range(n - 1, -1, -1):
            if n > 1 and ints[3] < n - 1:
                c = code[:k] + code[k + 1:]
                yield ints[:4] + [n - 1] + [x for i in c for x in i]

    def tags(self, ints, impl):
        return ['mode=%d' % ints[1], 'M=%d' % ints[2]]


def mutate_text(rng, b):
    """byte-level mutations of a source text"""
    b = bytearray(b)
    for _ in range(rng.randint(1, 4)):
        k = rng.randint(0, 9)
        pos = rng.randint(0, max(0, len(b) - 1)) if b else 0
        if k == 0 and b:
            del b[pos]
        elif k == 1:
            b.insert(pos, rng.choice(b'\x00\x1a;,()+-*/%$#@{}<>=|&:._ \t\r\n09azAZ'))
        elif k == 2 and b:
            b[pos] = rng.randint(0, 255)
        elif k == 3 and b:
            del b[pos:]                       # truncation (unterminated last line)
        elif k == 4 and b:
            j = rng.randint(0, len(b) - 1)
            b[pos:pos] = b[j:j + rng.randint(1, 12)]
        elif k == 5:
            b[pos:pos] = rng.choice([b'for 3\n', b'rof\n', b'equ ', b'x equ x\n', b';assert 1\n', b';assert x\n', b'end\n', b'org ', b'\r\n', b'i for 0/0\n', b'= ', b'x equ ;c\n'])
        elif k == 6 and b:
            b[pos] = rng.choice(b'\x80\xc3\xff\xfe')
        elif k == 7 and b and b[-1] == 10:
            del b[-1]
        elif k == 8 and b:
            b[pos:pos + 1] = b'\n'
        else:
            b += rng.choice([b' ', b';c', b'<', b'rof', b'dat 0', b'\n\n'])
    return bytes(b)


class TextPlan(Plan):
    """single-stage plans whose cases are concrete texts; a first stage renders
    valid programs through the extracted renderer, python then mutates them"""
    base_kind = 10
    base_gens = []
    tie = ASM_TIE
    mon_extra = True
    timeout_ms = 8000

    def expand_texts(self, wd, tier, seed):
        import engine as E
        lines = []
        k = {'quick': 1, 'search': 1}.get(tier, 20)
        for j, (kind, n, args) in enumerate(self.base_gens):
            abs_lines = E.gen_cases(kind, seed + 31 * j, n * k, args)
            spec = E.run_model(wd, 'spec', abs_lines)
            for a, s in zip(abs_lines, spec):
                ai = [int(x) for x in a.split()]
                r = find(E.records(s), 60)
                if r is not None:
                    lines.append((ai[1:9], bytes(r[1:])))
        return lines


class C05(TextPlan):
    pid = 'C05'
    codes = set()
    tie_name = 'CompileWarrior on valid, mutated and hostile inputs (ASCII subset): gmars vs the extracted assembler model'
    rule = ('valid programs rendered by the extracted renderer, 1-4 byte-level mutations of them (deletions, insertions of lexer-alphabet bytes, random bytes, truncation, duplicated spans, '
            'FOR/ROF/EQU/;assert fragments, invalid UTF-8, NUL, ^Z, CR/LF, unterminated last line), token soup, EQU cycles with and without ;assert, empty EQUs, failing FOR counts; '
            'a lone = | & at the start or end of every line of small FOR / EQU programs; each case in a worker with a deadline; checked on gmars: returns (no hang), no panic, error xor result, goroutine count back to its previous value; '
            'non-trivial = the input is not a valid program (the assembler returns an error)')
    base_gens = [('prog', 500, progargs(2, 3, EQUS | FORS | ASSERTS | SIGNS | DIVS, 5)), ('prog', 300, progargs(0, 2, EQUS | FORS, 4))]

    hostile = [
        b'a equ b\nb equ a\n;assert a\ndat a\n', b'a equ b\nb equ a\ndat a\n', b'x equ ;c\ndat x\n', b'x equ\ndat x\n',
        b'i for 0/0\ndat i\nrof\n', b'i for 2\ndat i\nrof', b'i for 2\ndat i\n', b'( for 2\ndat 1\nrof\n', b'i for 2\ndat i\nrof\n=',
        b'i for 2\ndat i\nrof\n= \ndat 1\n', b'lbl\n', b'lbl:', b'dat 0 ; c', b'mov 0,1\n;c', b'\x00', b'\x1a', b'<', b'=', b'|', b'&',
        b'a equ a\ndat a\n', b'a equ b+1\nb equ c+1\nc equ a+1\ndat 1\n', b'step equ step+1\nmov 0, step\n', b'x equ 2*x\ndat 1\n;assert x\n',
        b'x equ (x)\norg x\ndat 1\n', b'n equ n-1\ni for n\ndat i\nrof\n', b'a equ b\nb equ b+a\ndat a\n', b'i for 1000000\nrof\n',
        b'dat 1 2\n', b'dat 1/0\n', b'dat 1%0\n', b'dat 99999999999\n', b'org 5\ndat 0\n', b'end 5\n', b'i for 3\nj for 3\ndat i*j\nrof\nrof\n',
    ]

    def gens(self, tier):
        return [('text-stage', 0, [])]

    def custom_cases(self, wd, tier, seed):
        rng = random.Random(seed)
        base = self.expand_texts(wd, tier, seed)
        lines = []
        dflt = [2, 8000, 8000, 80000, 8000, 8000, 100, 100]
        for h in self.hostile:
            lines.append([10] + dflt + list(h))
            lines.append([10] + [0] + dflt[1:] + list(h))
        for cfg, t in base:
            lines.append([10] + cfg + list(t))
            for _ in range(2):
                lines.append([10] + cfg + list(mutate_text(rng, t)))
        # EQU definitions that mention themselves or each other, used in every position an expression can take
        names = [b'a', b'b', b'c', b'step']
        for _ in range(60 if tier != 'thorough' else 600):
            ns = names[:rng.randint(1, 3)]
            defs = b''
            for nme in ns:
                other = rng.choice(ns)
                defs += nme + b' equ ' + rng.choice([other + b'+1', b'2*' + other, b'(' + other + b')', other + b'-' + rng.choice(ns), b'1+' + other + b'*' + other]) + b'\n'
            use = rng.choice(ns)
            body = rng.choice([b'dat ' + use + b'\n', b'mov 0, ' + use + b'\n', b';assert ' + use + b'\ndat 1\n', b'org ' + use + b'\ndat 1\n',
                               b'i for ' + use + b'\ndat i\nrof\n', b'dat 1\nend ' + use + b'\n'])
            t = defs + body if rng.random() < 0.7 else body + defs
            lines.append([10] + dflt + list(t))
        # a lone '=', '|' or '&' (the lexer's error token, after which nothing more is read) at the end or at the
        # start of every line of small programs: in FOR headers, bodies, ROF lines, EQU lines, after the block
        templates = [b'i for 2\ndat i, i\nrof\ndat 9\n', b'x equ 2\nlab i for x\nj for 2\nmov i, j\nrof\nrof\njmp lab\n',
                     b'for 3\ndat 0, 0\nrof', b'a equ 1\n;assert a\nmov a, a\nend 0\n', b'for 0\ndat 1\nrof\nfor 1\ndat 2\nrof\n']
        for tpl in templates:
            ls = tpl.split(b'\n')
            for k in range(len(ls)):
                for bad in (b'|', b'=', b'&', b'||', b'&&', b'=='):
                    for where in (0, 1):
                        c = list(ls)
                        c[k] = (bad + b' ' + c[k]) if where == 0 else (c[k] + b' ' + bad)
                        lines.append([10] + dflt + list(b'\n'.join(c)))
        # token soup
        alpha = [b'mov', b'dat', b'for', b'rof', b'equ', b'end', b'org', b'x', b'y', b'1', b'0', b'+', b'-', b'*', b'/', b'%', b'(', b')', b',', b':', b';c', b'\n', b' ', b'$', b'#', b'@', b'<', b'>', b'{', b'}', b'==', b'<=', b'||', b'&&', b'|', b'&', b'=', b'.ab', b'_', b'\t', b'\r\n']
        nsoup = 300 if tier != 'thorough' else 6000
        for _ in range(nsoup):
            t = b''.join(rng.choice(alpha) + rng.choice([b'', b' ']) for _ in range(rng.randint(1, 40)))
            lines.append([10] + dflt + list(t))
        return [' '.join(str(x) for x in l) for l in lines]

    def extra_monitor(self, ints, impl):
        return fatal(impl)

    def input_in_fragment(self, ints):
        # the model classifies ASCII runes only (and NUL / ^Z); other bytes are exercised on gmars alone
        return all(x < 128 for x in ints[9:])

    def nontrivial(self, ints, impl):
        return any(r and r[:2] == [70, 1] for r in impl)

    def tags(self, ints, impl):
        t = ['ascii' if all(x < 128 for x in ints[9:]) else 'non-ascii', 'len<=64' if len(ints) - 9 <= 64 else 'len>64']
        for r in impl:
            if r and r[0] == 70:
                t.append('result=' + {0: 'ok', 1: 'error', 2: 'panic'}.get(r[1], str(r[1])))
        return t

    def pretty(self, ints):
        return dict(kind={10: 'CompileWarrior', 11: 'ParseLoadFile'}.get(ints[0], ints[0]), config=ints[1:9], text=bytes(ints[9:]).decode('latin-1'))

    def shrink(self, ints):
        body = ints[9:]
        n = len(body)
        step = max(1, n // 2)
        while step >= 1:
            for i in range(0, n, step):
                c = body[:i] + body[i + step:]
                if len(c) < n:
                    yield ints[:9] + c
            step //= 2


class C06(C05):
    pid = 'C06'
    codes = {50, 51, 52, 53, 54}
    tie_name = 'CompileWarrior on valid, near-valid and hostile inputs: gmars vs the extracted assembler model'
    rule = ('all C05 inputs plus boundary programs (ORG / END at len-1, len, len+1; program lengths at Length-1, Length, Length+1; \'94-only opcodes and modes inside \'88 programs), several configurations, both dialects; '
            'the extracted structural checker runs on every result gmars accepts: fields < M, entry point inside the code (or 0 when empty), length <= configured maximum, opcodes / modifiers / modes of the data model, '
            'and under ICWS\'88 the independently written table of legal \'88 instructions; non-trivial = gmars accepted the input')
    base_gens = [('prog', 400, progargs(2, 3, EQUS | FORS | SIGNS | DIVS, 5)), ('prog', 400, progargs(0, 2, EQUS | ILLEGAL88, 5))]

    def custom_cases(self, wd, tier, seed):
        lines = C05.custom_cases(self, wd, tier, seed)
        rng = random.Random(seed + 1)
        b = []
        for mode in (0, 2):
            for n in (1, 2, 3):
                body = b''.join(b'mov 0, 1\n' for _ in range(n))
                for d in (-1, 0, 1):
                    for kw in (b'org', b'end'):
                        t = (kw + b' %d\n' % (n + d) + body) if kw == b'org' else (body + kw + b' %d\n' % (n + d))
                        b.append([10, mode, 8000, 8000, 80000, 8000, 8000, 100, 100] + list(t))
                    ln = n + d
                    if ln >= 0:
                        b.append([10, mode, 8000, 8000, 80000, 8000, 8000, ln, 100] + list(body))
        for t in (b'mul 1, 2\n', b'mov.i 1, 2\n', b'mov *1, 2\n', b'mov 1, }2\n', b'nop 1\n', b'seq 1, 2\n', b'mov 1, #2\n', b'dat $1, #2\n', b'jmp #1\n', b'slt 1, #2\n', b'add #1, #2\n'):
            b.append([10, 0, 8000, 8000, 80000, 8000, 8000, 100, 100] + list(t))
        # modes (and modifiers) that reach an instruction through an EQU name instead of being written at the operand:
        # under either dialect the result, if accepted, must still obey the rule set
        for mode in (0, 2):
            for ch in b'#$@<>*{}':
                for use in (b'mov p, 1\n', b'mov 1, p\n', b'dat p, p\n', b'jmp p\n', b'add #1, p\n', b'mov.i p, 1\n'):
                    for val in (b'2', b'x', b' 0'):
                        t = b'x equ 3\np equ ' + bytes([ch]) + val + b'\n' + use
                        b.append([10, mode, 8000, 8000, 80000, 8000, 8000, 100, 100] + list(t))
            for t in (b'm equ mov.x\nm 1, 2\n', b'o equ .i\nmov o 1, 2\n', b'two equ 1, }2\nmov two\n', b'ops equ >1, *2\nadd ops\n'):
                b.append([10, mode, 8000, 8000, 80000, 8000, 8000, 100, 100] + list(t))
        return lines + [' '.join(str(x) for x in l) for l in b]

    def verdict_name(self, r):
        return {50: 'field-not-below-core-size', 51: 'entry-point-outside-the-code', 52: 'longer-than-the-configured-maximum',
                53: 'not-a-legal-88-instruction', 54: 'opcode-modifier-or-mode-outside-the-data-model'}.get(r[0], str(r[0]))

    def nontrivial(self, ints, impl):
        return any(r and r[:2] == [70, 0] for r in impl)


class C10(C05):
    pid = 'C10'
    codes = {50, 51, 53, 54, 55}
    base_kind = 11
    tie_name = 'ParseLoadFile on canonical and corrupted load files: gmars vs the extracted Load model'
    rule = ('canonical load files printed by the extracted printer, then corrupted: deleted / duplicated / transposed fields, out-of-range and negative numbers, unknown mnemonics, another addressing mode in one place, directives in odd places (also a bare ORG n / END n without instructions), '
            'truncation at every kind of position, CR-LF, missing final newline; both dialects, several core sizes; checked on gmars: no panic, no hang, and the extracted checker on every accepted result: '
            'entry point inside the code, fields < M, legal \'88 instructions, and number of instructions = number of significant lines before the end marker (nothing skipped silently); non-trivial = the file is accepted')
    base_gens = [('warriors', 500, [2]), ('warriors', 500, [0])]
    mvals = []

    def custom_cases(self, wd, tier, seed):
        rng = random.Random(seed)
        base = self.expand_texts(wd, tier, seed)
        lines = []
        for cfg, t in base:
            lines.append([11] + cfg + list(t))
            M = cfg[1]
            self.mvals = [b'%d' % v for v in (M, -M, 2 * M, -2 * M, -3 * M, M - 1, -M - 1, -M + 1, M // 2, -(M // 2) - 1)]
            for _ in range(3):
                lines.append([11] + cfg + list(self.corrupt(rng, t)))
        for h in (b'MOV $ 0, $ 1\nORG -1\n', b'MOV $ 0, $ 1\nEND -1\n', b'ORG 1\nMOV.I $ 0, $ 1\n', b'ORG 0\nMOV.I $ 0, $ 1', b'MOV $ 0, $ 1\nEND 0', b'', b'\n', b';x', b'ORG 0\n',
                  b'ORG 0\nMOV.I $ 0 $ 1\n', b'ORG 0\nMOV.I $ 99999999999999999999, $ 1\n', b'ORG 0\nMOV.I $ -1, $ -8001\n', b'MOV # 0, # 1\n', b'END\nMOV $ 0, $ 1\n',
                  b'ORG 1\n', b'ORG 3\n', b'END 2\n', b';x\nORG 5\n', b'ORG 1\nEND\n', b'ORG 7',
                  b',\nMOV $ 0, $ 1\n', b',\nMOV.I $ 0, $ 1\n', b'MOV.I $ 0, $ 1\n , \n', b'MOV $ 0, $ 1\n,;x\n', b', ,', b'ORG 0\n,,\nMOV.I $ 0, $ 1\n',
                  b'MOV $ 2, > -1\n', b'MOV > 2, $ 1\n', b'DAT # 0, > 1\n', b'JMP * 1, $ 0\n', b'MOV { 1, } 2\n', b'ADD # 1, } 2\n', b'CMP < 1, > 2\n', b'DJN @ 1, * 2\n'):
            for mode in (0, 2):
                lines.append([11, mode, 8000, 8000, 80000, 8000, 8000, 100, 100] + list(h))
        return [' '.join(str(x) for x in l) for l in lines]

    def corrupt(self, rng, t):
        ls = t.split(b'\n')
        k = rng.randint(0, 11)
        i = rng.randint(0, max(0, len(ls) - 1))
        f = ls[i].split()
        if k == 11:
            # a line that holds nothing but commas (every field of a line lost, or a stray line): not blank, not a comment
            junk = rng.choice([b',', b' , ', b', ,', b',;c', b'\t,\t', b',,'])
            if rng.randint(0, 1):
                ls[i] = junk
            else:
                ls.insert(i, junk)
        elif k == 10:
            # another addressing mode in one place: the other rule set's modes in an otherwise well-formed line
            pos = [j for j, c in enumerate(ls[i]) if c in b'#$@<>*{}']
            if pos:
                j = rng.choice(pos)
                ls[i] = ls[i][:j] + bytes([rng.choice(b'#$@<>*{}')]) + ls[i][j + 1:]
        elif k == 0 and f:
            del f[rng.randint(0, len(f) - 1)]
            ls[i] = b' '.join(f)
        elif k == 1 and f:
            j = rng.randint(0, len(f) - 1)
            f.insert(j, f[j])
            ls[i] = b' '.join(f)
        elif k == 2 and len(f) > 1:
            j = rng.randint(0, len(f) - 2)
            f[j], f[j + 1] = f[j + 1], f[j]
            ls[i] = b' '.join(f)
        elif k == 3 and f:
            f[rng.randint(0, len(f) - 1)] = rng.choice([b'-1', b'99999', b'-99999', b'2147483648', b'99999999999999999999', b'1e3', b'0x10', b'+5'] + self.mvals)
            ls[i] = b' '.join(f)
        elif k == 4 and f:
            f[0] = rng.choice([b'XYZ', b'MUL.I', b'MOV', b'MOV.Q', b'ORG', b'END', b'org', b'end', b'NOP.B'])
            ls[i] = b' '.join(f)
        elif k == 5:
            ls.insert(i, rng.choice([b'ORG 0', b'END', b'END 1', b'ORG 1 2', b'ORG', b'END 0 0']))
        elif k == 6:
            return mutate_text(rng, t)
        elif k == 7:
            return t[:rng.randint(0, len(t))]
        elif k == 8:
            ls[i] = ls[i].replace(b',', b' ')
        else:
            ls[i] = ls[i] + rng.choice([b' ; c', b' 7', b',', b' $'])
        return b'\n'.join(ls)

    def verdict_name(self, r):
        return {50: 'field-not-below-core-size', 51: 'entry-point-outside-the-code', 53: 'not-a-legal-88-instruction',
                54: 'opcode-modifier-or-mode-outside-the-data-model', 55: 'a-significant-line-was-skipped-silently (lines=%s instructions=%s)' % tuple(r[1:3]) if len(r) > 2 else 'skipped-line'}.get(r[0], str(r[0]))

    def nontrivial(self, ints, impl):
        return any(r and r[:2] == [70, 0] for r in impl)



class C17(AsmPlan):
    pid = 'C17'
    check_meta = False
    tie = {90: None, 99: None, 98: None}
    mon_extra = True
    codes = {60, 61}
    timeout_ms = 90000
    tie_name = 'the gmars binary built from /repo (flags, files, stdout, exit status) vs the extracted Cli model'
    rule = ('pairs (and singles) of generated warrior programs rendered by the extracted renderer into files, flag vectors over -8 -s -p -c -l -F -r -preset with core size >= 3*length+1, -F also closer than two lengths, -8 also next to a preset; '
            'fixed placement: stdout and exit status must equal the tallies of the reference battle (extracted Mars on the by-construction warriors) times the rounds; '
            'random placement: the extracted conservation checker (ties equal, wins+ties <= rounds, each round counted once); non-trivial = exit status 0 with two warriors')

    def gens(self, tier):
        k = {'quick': 1, 'search': 1}.get(tier, 12)
        return [('cli', 260 * k, [])]

    def concrete(self, ints, spec):
        fl = ints[1:9]
        t1 = find(spec, 60)
        if t1 is None:
            return []
        t2 = find(spec, 61)
        c = [13] + fl + [2 if t2 is not None else 1, len(t1) - 1] + t1[1:]
        if t2 is not None:
            c += [len(t2) - 1] + t2[1:]
        return [' '.join(str(x) for x in c)]

    def model_applies(self, model_recs):
        return not any(r[:2] == [90, 5] or r[:1] == [97] for r in model_recs)

    def judge(self, ints, spec, idx, conc, impl):
        f = fatal(impl)
        if f:
            return f
        if find(spec, 62) is not None:
            return None
        exp_exit = find(spec, 65)
        got = find(impl, 90)
        if exp_exit is None or got is None:
            return 'no-result' if got is None else None
        if exp_exit[1] == 1:
            return None if got[1] == 1 else 'exit-status-0-for-warriors-that-must-be-refused'
        if got[1] != 0:
            return 'exit-status-%d' % got[1]
        exp_out = find(spec, 66)
        if exp_out is not None and got[2:] != exp_out[1:]:
            return 'printed-tallies-differ-from-the-reference-battle: got %r want %r' % (bytes(got[2:]).decode('latin-1'), bytes(exp_out[1:]).decode('latin-1'))
        return None

    def verdict_name(self, r):
        return {60: 'tallies-not-conserved %s' % r[1:], 61: 'output-not-in-the-documented-shape'}.get(r[0], str(r[0]))

    def pretty(self, ints):
        names = ['-8', '-s', '-p', '-c', '-l', '-F', '-r', 'preset#']
        return dict(flags=dict(zip(names, ints[1:9])), programs=ints[9], abstract=ints[10:90])

    def shrink(self, ints):
        fl = ints[1:9]
        if fl[6] > 1:
            yield ints[:7] + [1] + ints[8:]
        return

    def nontrivial(self, ints, impl):
        g = find(impl, 90)
        return g is not None and g[1] == 0 and ints[9] == 2

    def tags(self, ints, impl):
        t = ['preset=%d' % ints[8], 'F=0' if ints[6] == 0 else 'F>0', 'progs=%d' % ints[9], 'use88=%d' % ints[1]]
        g = find(impl, 90)
        if g is not None:
            t.append('exit=%d' % g[1])
        return t



class C14(TextPlan):
    pid = 'C14'
    tie = {**ASM_TIE, 93: None, 94: None, 2: 3, 3: None, 5: None, 6: None, 7: None, 8: None, 9: None, 10: None}
    mon_extra = False
    binary = 'harness-race'
    extra_env = {'GORACE': 'halt_on_error=1 exitcode=66'}
    timeout_ms = 60000
    tie_name = 'concurrent jobs under the race detector: every result of every goroutine vs the pure extracted model of that job'
    rule = ('jobs = assemble a rendered program (incl. FOR counts over EQU chains, whose resolution walks Go maps) or a text with an unterminated / empty FOR block / build a simulator, add warrior data (either the job\'s own, scribbled over afterwards, or one set shared by all goroutines, which must be unchanged at the end), spawn, run; '
            'each job repeated 12-24 times on 1..32 goroutines at once in a binary built with -race (halt on the first report); all repetitions must give one and the same result and it must equal the '
            'pure model\'s; non-trivial = the job succeeded (assembled / battle ran)')
    base_gens = [('prog', 150, progargs(2, 2, EQUS | FORS, 4)), ('prog', 60, progargs(2, 3, EQUS | SIGNS | ASSERTS, 4)), ('prog', 40, progargs(0, 2, EQUS, 4))]

    def custom_cases(self, wd, tier, seed):
        import engine as E
        rng = random.Random(seed)
        base = self.expand_texts(wd, tier, seed)
        lines = []
        for cfg, t in base:
            threads = rng.choice([1, 2, 4, 8, 16, 32])
            lines.append([14, threads, rng.choice([12, 16, 24]), 10] + cfg + list(t))
        # texts on which the expander ends without having sent anything, or early: what the reader of its
        # channel gets must not depend on how far the goroutine has got (D31)
        early = [b'i for 2\ndat i\n', b'i for 2\ndat i', b'for 3', b'x for 2\n', b'for 1\nfor 1\ndat 0\nrof\n', b'a equ 1\nfor a\ndat 0\n',
                 b'dat 0\nfor 2\n', b'|', b'for 2\ndat 0 |\nrof\n', b'for 0\nrof', b'for 2\nrof\n', b'lbl for 1\n;c\n',
                 # ... and texts on which the lexer ends in unusual places (the DOS end-of-file mark, NUL, an error token)
                 b'mov 0, 1\nend\n\x1a', b'\x1a', b'dat 0\n\x1a\ndat 1\n', b'dat 0 \x1a', b'x equ 1\x1a\ndat x\n', b'MOV.I 0, 1\n\x1a\n', b'dat 0\n\x00dat 1\n', b'dat 0\n=\ndat 1\n']
        for t in early:
            for md in (2, 0):
                lines.append([14, rng.choice([8, 16, 32]), 24, 10] + [md, 8000, 8000, 80000, 8000, 8000, 100, 100] + list(t))
        k = {'quick': 1, 'search': 1}.get(tier, 20)
        for b in E.gen_cases('battle', seed + 5, 120 * k, [2 | 4 | 8 | 128, 3, 1, 60]):
            threads = rng.choice([1, 4, 16, 32])
            lines.append([14, threads, 8] + [int(x) for x in b.split()])
        # the same without scribbling: the goroutines are handed one and the same warrior data (record 95: it is unchanged afterwards)
        for b in E.gen_cases('battle', seed + 6, 60 * k, [2 | 4 | 8, 3, 1, 60]):
            threads = rng.choice([4, 16, 32])
            lines.append([14, threads, 8] + [int(x) for x in b.split()])
        return [' '.join(str(x) for x in l) for l in lines]

    def extra_monitor(self, ints, impl):
        f = fatal(impl)
        if f:
            return f + ' (a data race report also ends the worker)'
        r = find(impl, 93)
        if r is not None and r[1] != 1:
            return 'the-same-job-gave-%d-different-results' % r[1]
        r = find(impl, 94)
        if r is not None and r[1] != 1:
            return 'a-concurrent-or-aliased-run-differs-from-the-same-job-run-alone'
        r = find(impl, 95)
        if r is not None and r[1] != 1:
            return 'warrior-data-shared-by-the-jobs-was-changed-by-them'
        return None

    def input_in_fragment(self, ints):
        return True

    def nontrivial(self, ints, impl):
        return any(r and (r[:2] == [70, 0] or r[0] == 3) for r in impl)

    def tags(self, ints, impl):
        return ['threads=%d' % ints[1], 'job=' + {10: 'assemble', 1: 'battle'}.get(ints[3], str(ints[3]))]

    def pretty(self, ints):
        inner = ints[3:]
        d = dict(threads=ints[1], repetitions=ints[2])
        if inner[0] == 10:
            d['assemble'] = dict(config=inner[1:9], text=bytes(x & 255 for x in inner[9:]).decode('latin-1'))
        else:
            d['battle'] = VM.pretty_battle(inner)
        return d

    def shrink(self, ints):
        inner = ints[3:]
        if inner[0] == 10:
            for c in C05.shrink(self, inner):
                yield ints[:3] + c
        else:
            for c in VM.shrink_battle(inner):
                yield ints[:3] + c


ASM_PLANS = [C03(), C05(), C06(), C07(), C08(), C09(), C10(), C14(), C16(), C17()]
