# plans.py — per-property plans: which cases are generated, which records tie
# the model to the implementation, which records the reference (monitor)
# decides, what counts as a non-trivial case.
import vmcases as VM


class Plan:
    pid = ''
    tie = None          # {tag: prefix_len or None} compared implementation vs extracted model
    mon = None          # {tag: ...} compared implementation vs extracted reference/spec
    mon_extra = False   # run the extracted checker on (case, implementation output)
    tie_name = ''
    rule = ''
    timeout_ms = 10000
    trusted_extra = []
    assumptions = []

    def gens(self, tier):
        return []

    def search_rounds(self, tier):
        return 2 if tier == 'quick' else 6

    def canon(self, recs):
        return recs

    def nontrivial(self, ints, impl):
        return True

    def tags(self, ints, impl):
        return []

    def pretty(self, ints):
        return dict(raw=ints[:200])

    def shrink(self, ints):
        return iter(())

    def matches(self, finding, ints, verdict):
        return False

    def extra_monitor(self, ints, impl):
        return None

    def verdict_name(self, r):
        return str(r[:6])


class BattlePlan(Plan):
    def pretty(self, ints):
        if ints and ints[0] == 1:
            return VM.pretty_battle(ints)
        return dict(raw=ints[:200])

    def shrink(self, ints):
        if ints and ints[0] == 1:
            return VM.shrink_battle(ints)
        return iter(())


class C01(BattlePlan):
    pid = 'C01'
    tie = {2: 3, 3: None, 5: None, 6: None, 9: None, 99: None, 98: None}
    mon = {2: 3, 3: None, 5: None, 6: None, 9: None, 99: None, 98: None}
    tie_name = 'single steps: gmars RunCycle vs extracted Exec.exec/Sim.run_cycle (core cell-for-cell, queue element-for-element)'
    rule = ('every one of the 7616 instruction forms k times at the program counter of a random core (sizes 3..64, a few of 800/8000), '
            'read/write limits 1..M chosen independently, process limit 1/2/3/8, operands biased to 0,1,2,M-1,M-2,M/2,R/2(+1),W/2(+1); '
            'non-trivial = the step changed some cell or queued something other than [pc+1]; distinct = distinct case text')
    assumptions = ['the single-step driver (AddWarrior of a core-sized warrior with Start=pc, SpawnWarrior(0,0), one RunCycle) is how one task is observed through the public API']

    def gens(self, tier):
        if tier == 'quick':
            return [('step', 4, [])]
        if tier == 'search':
            return [('step', 6, [])]
        return [('step', 120, [])]

    def nontrivial(self, ints, impl):
        b = VM.parse_battle(ints)
        w = b['ws'][0]
        init = [x for ins in w['code'] for x in ins]
        dump = next((r[1:] for r in impl if r and r[0] == 6), None)
        fin = next((r for r in impl if r and r[0] == 5), None)
        if dump is None or fin is None:
            return True
        q = fin[5:-1]
        return dump != init or q != [1, (w['start'] + 1) % b['M']]

    def tags(self, ints, impl):
        b = VM.parse_battle(ints)
        f = VM.step_form(ints)
        t = ['M=%d' % b['M'] if b['M'] > 64 else 'M<=64', 'P=%d' % b['P'],
             'R<M' if b['R'] < b['M'] else 'R=M', 'W<M' if b['W'] < b['M'] else 'W=M']
        if f:
            t.append('op=' + VM.OPS[f[0]])
            t.append('amode=' + VM.AMS[f[2]])
            t.append('bmode=' + VM.AMS[f[3]])
            t.append('mod=' + VM.MDS[f[1]])
        return t


PLANS = {p.pid: p for p in [C01()]}
