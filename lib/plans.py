# plans.py — per-property plans: which cases are generated, which records tie
# the model to the implementation, which records the reference (monitor)
# decides, what counts as a non-trivial case.
import vmcases as VM


class Plan:
    pid = ''
    tie = None          # {tag: prefix_len or None} compared implementation vs extracted model
    mon = None          # {tag: ...} compared implementation vs extracted reference/spec
    mon_extra = False   # run the extracted checker on (case, implementation output)
    codes = None        # verdict codes of the extracted checker that belong to this property (None = all)
    tie_name = ''
    rule = ''
    timeout_ms = 10000
    trusted_extra = []
    assumptions = []

    def gens(self, tier):
        return []

    def search_rounds(self, tier):
        return 2 if tier == 'quick' else 6

    def canon(self, recs):
        return recs

    def nontrivial(self, ints, impl):
        return True

    def tags(self, ints, impl):
        return []

    def pretty(self, ints):
        return dict(raw=ints[:200])

    def shrink(self, ints):
        return iter(())

    def matches(self, finding, ints, verdict):
        return False

    def extra_monitor(self, ints, impl):
        return None

    def model_applies(self, model_recs):
        """False when the model declares the case outside its fragment (status 5)."""
        return not any(r[:2] in ([70, 5], [82, 5]) or r[:1] == [97] for r in model_recs)

    def input_in_fragment(self, ints):
        return True

    two_stage = False
    allow_empty = False

    def verdict_name(self, r):
        return str(r[:6])


class BattlePlan(Plan):
    def pretty(self, ints):
        if ints and ints[0] == 1:
            return VM.pretty_battle(ints)
        return dict(raw=ints[:200])

    def shrink(self, ints):
        if ints and ints[0] == 1:
            return VM.shrink_battle(ints)
        return iter(())


class C01(BattlePlan):
    pid = 'C01'
    tie = {2: 3, 3: None, 5: None, 6: None, 9: None, 99: None, 98: None}
    mon = {2: 3, 3: None, 5: None, 6: None, 9: None, 99: None, 98: None}
    tie_name = 'single steps: gmars RunCycle vs extracted Exec.exec/Sim.run_cycle (core cell-for-cell, queue element-for-element)'
    rule = ('every one of the 7616 instruction forms k times at the program counter of a random core (sizes 3..64, a few of 800/8000), '
            'read/write limits 1..M chosen independently, process limit 1/2/3/8, operands biased to 0,1,2,M-1,M-2,M/2,R/2(+1),W/2(+1); '
            'non-trivial = the step changed some cell or queued something other than [pc+1]; distinct = distinct case text')
    assumptions = ['the single-step driver (AddWarrior of a core-sized warrior with Start=pc, SpawnWarrior(0,0), one RunCycle) is how one task is observed through the public API']

    def gens(self, tier):
        if tier == 'quick':
            return [('step', 4, [])]
        if tier == 'search':
            return [('step', 6, [])]
        return [('step', 120, [])]

    def nontrivial(self, ints, impl):
        b = VM.parse_battle(ints)
        w = b['ws'][0]
        init = [x for ins in w['code'] for x in ins]
        dump = next((r[1:] for r in impl if r and r[0] == 6), None)
        fin = next((r for r in impl if r and r[0] == 5), None)
        if dump is None or fin is None:
            return True
        q = fin[5:-1]
        return dump != init or q != [1, (w['start'] + 1) % b['M']]

    def tags(self, ints, impl):
        b = VM.parse_battle(ints)
        f = VM.step_form(ints)
        t = ['M=%d' % b['M'] if b['M'] > 64 else 'M<=64', 'P=%d' % b['P'],
             'R<M' if b['R'] < b['M'] else 'R=M', 'W<M' if b['W'] < b['M'] else 'W=M']
        if f:
            t.append('op=' + VM.OPS[f[0]])
            t.append('amode=' + VM.AMS[f[2]])
            t.append('bmode=' + VM.AMS[f[3]])
            t.append('mod=' + VM.MDS[f[1]])
        return t



BT = {2: 3, 3: None, 5: None, 6: None, 7: None, 8: None, 9: None, 10: None, 11: None, 12: None, 99: None, 98: None}


def battle_tags(ints):
    if not ints or ints[0] != 1:
        return ['kind=%d' % (ints[0] if ints else -1)]
    b = VM.parse_battle(ints)
    t = ['warriors=%d' % len(b['ws']), 'P=%d' % b['P'], 'M<=16' if b['M'] <= 16 else 'M>16',
         'R<M' if b['R'] < b['M'] else 'R>=M', 'W<M' if b['W'] < b['M'] else 'W>=M',
         'cycles<=8' if b['C'] <= 8 else 'cycles>8']
    if any(w['off'] + w['start'] >= b['M'] for w in b['ws']):
        t.append('entry-wraps')
    if any(w['off'] + len(w['code']) > b['M'] for w in b['ws']):
        t.append('code-wraps')
    return t


def obs_of(rec, skip):
    """decode an observable record into (cycle, living, count, alive, queues)"""
    p = rec[skip:]
    cyc, liv, cnt = p[0], p[1], p[2]
    al = p[3:3 + cnt]
    pos = 3 + cnt
    qs = []
    for _ in range(cnt):
        n = p[pos]
        qs.append(p[pos + 1:pos + 1 + n])
        pos += 1 + n
    return cyc, liv, cnt, al, qs


class C02(BattlePlan):
    pid = 'C02'
    tie = BT
    mon = BT
    tie_name = 'battle traces: gmars RunCycle/Run vs extracted Sim.run_cycle/run (per-cycle queues, alive flags, counters, core sums; final core; Run() vs stepping)'
    rule = ('1-4 warriors of random / hostile / structured code (imp, dwarf, SPL fans, DAT, DJN loops, self-modifying), cores 5..64, process limit 1/2/3/8, '
            'cycle limits 1..200, placements anywhere including wrapping ones; driven cycle by cycle and by one Run() on a fresh simulator; '
            'non-trivial = a death in a multi-warrior battle, a queue at the process limit, >=3 warriors, or the cycle limit reached')

    def gens(self, tier):
        n = {'quick': 2500, 'search': 3000}.get(tier, 60000)
        return [('battle', n, [2 | 4 | 8 | 64, 4, 1, 200])]

    def nontrivial(self, ints, impl):
        b = VM.parse_battle(ints)
        if len(b['ws']) >= 3:
            return True
        fin = next((r for r in impl if r and r[0] == 5), None)
        if fin is None:
            return True
        cyc, liv, cnt, al, qs = obs_of(fin, 1)
        if cyc >= b['C']:
            return True
        if cnt > 1 and liv < cnt:
            return True
        for r in impl:
            if r and r[0] == 3:
                _, _, _, _, q2 = obs_of(r, 2)
                if any(len(q) >= b['P'] and b['P'] > 1 for q in q2):
                    return True
        return False

    def tags(self, ints, impl):
        return battle_tags(ints)


class C04(BattlePlan):
    pid = 'C04'
    tie = {**BT, 1: None}
    mon = None
    mon_extra = True
    codes = set(range(10, 20))
    tie_name = 'hostile battles and configuration sweep: gmars vs extracted Sim (creation, spawn, every cycle)'
    rule = ('(a) configurations with every field from {0..5, 2^10, 2^20, random < 2^20}: creation returns error xor simulator, never panics, accepted ones run; '
            '(b) hostile battles: every instruction form, fields near M, limits above and below the core size, wrapping placements; the extracted invariant checker '
            '(fields < M, queued PCs < M, queue length <= P, cycles <= limit, living = #alive, alive <-> queue non-empty) runs on gmars\' state after every cycle; '
            'non-trivial = accepted configuration / battle with >= 2 cycles')

    def gens(self, tier):
        k = {'quick': 1, 'search': 1}.get(tier, 20)
        return [('config', 1500 * k, []), ('battle', 1500 * k, [2 | 4 | 8 | 16, 4, 1, 60]), ('stepover', 1 if k == 1 else 6, []), ('step', 3 if k == 1 else 40, [])]

    def verdict_name(self, r):
        names = {10: 'panic-or-hang', 11: 'cycle-count-above-limit', 12: 'warrior-count', 13: 'living-count-differs-from-alive-flags',
                 14: 'queue-longer-than-process-limit', 15: 'queued-pc-out-of-range', 16: 'alive-flag-vs-queue', 17: 'field-out-of-range', 18: 'malformed'}
        return names.get(r[0], str(r[0])) + '@record%d' % (r[1] if len(r) > 1 else -1)

    def extra_monitor(self, ints, impl):
        if ints and ints[0] == 3:
            r = impl[0] if impl else []
            if r[:2] == [1, 2] or any(x and x[0] in (9, 98, 99) for x in impl):
                return 'creation-or-run-panicked'
        return None

    def nontrivial(self, ints, impl):
        if ints[0] == 3:
            return bool(impl) and impl[0][:2] == [1, 1]
        return len([r for r in impl if r and r[0] == 3]) >= 2 or any(r and r[0] == 9 for r in impl)

    def tags(self, ints, impl):
        if ints[0] == 3:
            return ['config-accepted' if impl and impl[0][:2] == [1, 1] else 'config-refused']
        return battle_tags(ints)

    def pretty(self, ints):
        if ints[0] == 3:
            return dict(kind='config', mode=ints[1], CoreSize=ints[2], Processes=ints[3], Cycles=ints[4], ReadLimit=ints[5], WriteLimit=ints[6], Length=ints[7], Distance=ints[8])
        return BattlePlan.pretty(self, ints)


class MonFilter:
    """mixin: only verdict codes in self.codes count for this property"""


class C11(C01):
    pid = 'C11'
    mon_extra = True
    codes = {20, 21}
    tie_name = 'single steps with limits below the core size: gmars vs extracted Exec'
    rule = ('C01 single-step cases (all 7616 forms) with read/write limits chosen independently in 1..M; the extracted locality checker runs on gmars\' before/after core and queue: '
            'changed cells within floor(W/2) of the PC, queued successors other than PC+1/PC+2 within floor(R/2); non-trivial = R<M or W<M and the step changed something')

    def verdict_name(self, r):
        return {20: 'write-beyond-W/2 at %d', 21: 'jump-beyond-R/2 to %d'}.get(r[0], '%d')  % (r[1] if len(r) > 1 else -1) if r[0] in (20, 21) else str(r[0])

    def nontrivial(self, ints, impl):
        b = VM.parse_battle(ints)
        return (b['R'] < b['M'] or b['W'] < b['M']) and C01.nontrivial(self, ints, impl)


class C12(BattlePlan):
    pid = 'C12'
    tie = {**BT, 50: None}
    mon = None
    mon_extra = True
    codes = {40}
    tie_name = 'pairs of battles (shift 0 / shift k, offsets + j*M): gmars vs extracted Sim on both'
    rule = ('pairs (battle, same battle with every offset + k + j*M), 1-3 warriors, entry point anywhere, code and entry points wrapping past the end of the core; '
            'the extracted rotation checker compares every observable of the shifted run with the rotated observable of the original; non-trivial = k>0 and at least 2 cycles ran')

    def gens(self, tier):
        n = {'quick': 2500, 'search': 3000}.get(tier, 60000)
        return [('rot', n, [])]

    def pretty(self, ints):
        if ints[0] == 4:
            d = VM.pretty_battle([1] + ints[3:])
            d['shift_k'] = ints[1]
            d['offset_multiple_j'] = ints[2]
            return d
        return BattlePlan.pretty(self, ints)

    def shrink(self, ints):
        if ints[0] != 4:
            return
        for c in VM.shrink_battle([1] + ints[3:]):
            yield [4, ints[1], ints[2]] + c[1:]
        if ints[2] > 0:
            yield [4, ints[1], 0] + ints[3:]

    def nontrivial(self, ints, impl):
        return ints[1] > 0 and len([r for r in impl if r and r[0] == 3]) >= 4

    def tags(self, ints, impl):
        return ['k=0' if ints[1] == 0 else 'k>0', 'j=%d' % ints[2]] + battle_tags([1] + ints[3:])

    def verdict_name(self, r):
        return 'shifted-run-differs-from-rotated-run@record%d' % (r[1] if len(r) > 1 else -1)


class C13(Plan):
    pid = 'C13'
    tie = {1: None, 30: None, 31: None, 99: None, 98: None}
    mon = None
    mon_extra = True
    codes = {1, 2, 3, 4, 5, 6}
    timeout_ms = 4000
    tie_name = 'API histories: gmars vs extracted Sim API model (results, errors, panics, hangs, observable state after every call)'
    rule = ('every call sequence of depth 3 (quick) / 4 (thorough) over a 32-call alphabet {AddWarrior x2, SpawnWarrior(i in -1..2, off in 0,M-1,M,2M+3), RunCycle, Run, Reset, '
            'GetWarrior(i), GetMem(a), Alive/Queue/NextPC/Length} on a 5-cell core (exhaustive), plus random histories up to 60 calls on cores 3..8; each call under recover and a watchdog; '
            'the extracted ApiSpec monitor checks result and observable state after every call; non-trivial = at least one warrior spawned and one cycle run')

    def gens(self, tier):
        if tier == 'quick':
            return [('apix', 3, []), ('api', 1500, [])]
        if tier == 'search':
            return [('api', 3000, [])]
        return [('apix', 4, []), ('api', 40000, [])]

    def verdict_name(self, r):
        names = {1: 'panic', 2: 'hang', 3: 'wrong-result', 4: 'wrong-state', 5: 'malformed', 6: 'inapplicable-call-changed-state'}
        return names.get(r[0], str(r[0])) + '@call%d' % (r[1] if len(r) > 1 else -1)

    OPN = {1: ('AddWarrior', 1), 2: ('SpawnWarrior', 2), 3: ('RunCycle', 0), 4: ('Run', 0), 5: ('Reset', 0), 6: ('GetWarrior', 1), 7: ('GetMem', 1),
           8: ('Alive', 1), 9: ('Queue', 1), 10: ('NextPC', 1), 11: ('Length', 1)}

    def parse(self, ints):
        M, R, W, P, C, Ln, Ds, nd = ints[1:9]
        pos = 9
        ds = []
        for _ in range(nd):
            ln, st = ints[pos:pos + 2]
            pos += 2
            ds.append(dict(start=st, code=[tuple(ints[pos + 6 * j:pos + 6 * j + 6]) for j in range(ln)]))
            pos += 6 * ln
        nops = ints[pos]
        pos += 1
        ops = []
        for _ in range(nops):
            if pos >= len(ints):
                break
            name, ar = self.OPN.get(ints[pos], ('?', 0))
            ops.append([ints[pos]] + ints[pos + 1:pos + 1 + ar])
            pos += 1 + ar
        return dict(M=M, R=R, W=W, P=P, C=C, Len=Ln, Dist=Ds, ds=ds, ops=ops)

    def unparse(self, a):
        out = [2, a['M'], a['R'], a['W'], a['P'], a['C'], a['Len'], a['Dist'], len(a['ds'])]
        for d in a['ds']:
            out += [len(d['code']), d['start']]
            for i in d['code']:
                out += list(i)
        out.append(len(a['ops']))
        for o in a['ops']:
            out += o
        return out

    def pretty(self, ints):
        a = self.parse(ints)
        return dict(M=a['M'], P=a['P'], cycles=a['C'],
                    warrior_data=[dict(start=d['start'], code=[VM.fmt_instr(i) for i in d['code']]) for d in a['ds']],
                    calls=['%s(%s)' % (self.OPN.get(o[0], ('?',))[0], ','.join(str(x) for x in o[1:])) for o in a['ops']])

    def shrink(self, ints):
        import copy
        a = self.parse(ints)
        n = len(a['ops'])
        for k in range(n - 1, -1, -1):
            c = copy.deepcopy(a)
            del c['ops'][k]
            yield self.unparse(c)
        for di, d in enumerate(a['ds']):
            for ci, ins in enumerate(d['code']):
                if tuple(ins) != VM.ZERO and len(d['code']) >= 1:
                    c = copy.deepcopy(a)
                    c['ds'][di]['code'][ci] = VM.ZERO
                    yield self.unparse(c)

    def nontrivial(self, ints, impl):
        a = self.parse(ints)
        kinds = [o[0] for o in a['ops']]
        return 1 in kinds and 2 in kinds and (3 in kinds or 4 in kinds)

    def tags(self, ints, impl):
        a = self.parse(ints)
        t = ['len<=4' if len(a['ops']) <= 4 else 'len>4']
        for o in a['ops']:
            t.append('call=' + self.OPN.get(o[0], ('?',))[0])
        return t


class C15(BattlePlan):
    pid = 'C15'
    tie = {**BT, 2: None, 4: None, 13: None}
    mon = None
    mon_extra = True
    codes = {30, 31, 32, 33, 34, 35}
    tie_name = 'report streams: gmars Reporter callbacks vs the reports of extracted Exec.exec / Sim.run_cycle / spawn'
    rule = ('C01 single steps and C02 battles with a recording Reporter and a StateRecorder attached, core dumped after every cycle; the extracted report checker verifies: '
            'addresses < M and warrior indexes valid, every changed cell named by a write/increment/decrement report of that cycle, TaskPop sequence and terminate reports equal '
            'the reference trace, reported changes within floor(W/2) of the PC, recorder state = last-touch fold of the stream (with and without recorded reads), every address empty after Reset; non-trivial = some cell changed')

    def gens(self, tier):
        k = {'quick': 1, 'search': 1}.get(tier, 25)
        return [('battle', 1000 * k, [1 | 2 | 8 | 16 | 32, 3, 1, 40]), ('battle', 300 * k, [1 | 2 | 8 | 16 | 32 | 256, 3, 1, 40]),
                ('battle', 200 * k, [1 | 8 | 16 | 32 | 64, 3, 1, 40]), ('stepr', 2 * k, [])]

    def extra_monitor(self, ints, impl):
        # after Reset the recorder must show every address as empty (state 0, owner -1)
        for r in impl:
            if r and r[0] == 14:
                cells = r[1:]
                bad = [i // 2 for i in range(0, len(cells) - 1, 2) if (cells[i], cells[i + 1]) != (0, -1)]
                if bad:
                    return 'recorder-not-empty-after-reset: address %d' % bad[0]
        return None

    def verdict_name(self, r):
        names = {30: 'report-address-or-warrior-index-invalid', 31: 'cell-changed-without-report', 32: 'task-reports-differ-from-reference-trace',
                 35: 'recorder-state-differs-from-last-touch-fold'}
        return names.get(r[0], str(r[0])) + '@cycle%d' % (r[1] if len(r) > 1 else -1) + (' address %d' % r[2] if len(r) > 2 else '')

    def nontrivial(self, ints, impl):
        dumps = [r for r in impl if r and r[0] == 11]
        return len(dumps) >= 1

    def tags(self, ints, impl):
        return battle_tags(ints)


PLANS = {p.pid: p for p in [C01(), C02(), C04(), C11(), C12(), C13(), C15()]}
