import time
# engine.py — shared machinery of bin/check: build, run implementation / model /
# spec on case files, compare projected observables, classify, shrink, write
# evidence and replay files.
import fcntl, hashlib, json, os, re, shutil, subprocess, sys, time, random

V = os.path.dirname(os.path.dirname(os.path.abspath(__file__)))
BUILD = os.path.join(V, 'build')
ENV = dict(os.environ, GOFLAGS='-mod=mod', GOPROXY='off', GOSUMDB='off', GOTOOLCHAIN='local')
ALLOWED_AXIOMS = set()  # no axiom is expected under any property theorem


class Infra(Exception):
    pass


def sh(cmd, **kw):
    return subprocess.run(cmd, shell=isinstance(cmd, str), env=ENV, **kw)


def build(parts=('coq', 'ocaml', 'go')):
    """Rebuild what the checks need; serialised by a lock so checks may run in parallel."""
    os.makedirs(BUILD, exist_ok=True)
    with open(os.path.join(BUILD, '.lock'), 'w') as lk:
        fcntl.flock(lk, fcntl.LOCK_EX)
        for p in parts:
            r = sh([os.path.join(V, 'bin', 'build.sh'), p], stdout=subprocess.PIPE, stderr=subprocess.STDOUT, text=True)
            if r.returncode != 0:
                raise Infra('build of %s failed:\n%s' % (p, r.stdout[-3000:]))


def workdir(pid):
    d = os.path.join(V, '.work', '%s.%d' % (pid, os.getpid()))
    shutil.rmtree(d, ignore_errors=True)
    os.makedirs(d)
    return d


def gen_cases(kind, seed, n, args=()):
    r = sh([os.path.join(BUILD, 'harness'), 'gen', kind, str(seed), str(n)] + [str(a) for a in args],
           stdout=subprocess.PIPE, text=True)
    if r.returncode != 0:
        raise Infra('generator failed for kind %s' % kind)
    return [l for l in r.stdout.split('\n') if l.strip()]


def write_lines(path, lines):
    with open(path, 'w') as f:
        for l in lines:
            f.write(l)
            f.write('\n')


def read_lines(path):
    with open(path) as f:
        return f.read().split('\n')[:-1] if os.path.getsize(path) else []


def run_impl(wd, cases, tag='impl', timeout_ms=10000, binary='harness', extra_env=None):
    cp = os.path.join(wd, tag + '.cases')
    op = os.path.join(wd, tag + '.out')
    write_lines(cp, cases)
    env = dict(ENV, **(extra_env or {}))
    r = subprocess.run([os.path.join(BUILD, binary), 'run', cp, op, str(timeout_ms)], env=env)
    if r.returncode != 0:
        raise Infra('harness run failed')
    out = read_lines(op)
    if len(out) != len(cases):
        raise Infra('harness returned %d lines for %d cases' % (len(out), len(cases)))
    return out


def timed_out(o):
    o = o.strip()
    return o == '99' or o.endswith('| 99')


def rerun_slow(wd, cases, out, skip, tag, binary='harness', extra_env=None, slow_ms=None):
    """Cases that did not answer within the deadline are run once more, alone and with a long deadline
    (gmars expands one FOR block per pass, at most 1000 passes: minutes, not a hang) - except those in
    `skip` (the executable model itself could not finish them: FOR counts beyond the bound of C05)."""
    slow = [i for i, o in enumerate(out) if timed_out(o) and i not in skip]
    if not slow:
        return out
    # in batches of one case per worker; once a batch has confirmed that some case does not return even with the
    # long deadline, the violation is established and the remaining late cases keep their first verdict
    for b in range(0, len(slow), 16):
        batch = slow[b:b + 16]
        t0 = time.time()
        again = run_impl(wd, [cases[i] for i in batch], tag=tag + '.slow', timeout_ms=(slow_ms or SLOW_MS), binary=binary, extra_env=extra_env)
        confirmed = False
        for i, o in zip(batch, again):
            if not timed_out(o):
                SLOW_CASES.append(dict(case=cases[i][:200], seconds_for_the_batch=round(time.time() - t0, 1)))
            else:
                confirmed = True
            out[i] = o
        if confirmed:
            break
    return out


SLOW_MS = int(os.environ.get('VERIF_SLOW_SECONDS', '150')) * 1000
SLOW_CASES = []


def _big_stack():
    import resource
    try:
        resource.setrlimit(resource.RLIMIT_STACK, (resource.RLIM_INFINITY, resource.RLIM_INFINITY))
    except Exception:
        pass


SAMPLE_POOL = {'model': [], 'spec': []}


def run_model(wd, which, cases, impl=None, jobs=14):
    """which: 'model' | 'spec' | 'mon' (mon takes the implementation outputs too)."""
    out = _run_model(wd, which, cases, impl, jobs)
    if which in SAMPLE_POOL and len(SAMPLE_POOL[which]) < 20000:
        SAMPLE_POOL[which].extend(zip(cases, out))
    return out


def _run_model(wd, which, cases, impl=None, jobs=14):
    n = len(cases)
    if n == 0:
        return []
    jobs = max(1, min(jobs, (n + 7) // 8))
    chunks = [(i * n // jobs, (i + 1) * n // jobs) for i in range(jobs)]
    procs = []
    for k, (a, b) in enumerate(chunks):
        cp = os.path.join(wd, '%s.%d.cases' % (which, k))
        write_lines(cp, cases[a:b])
        cmd = [os.path.join(BUILD, 'ocaml', 'model'), which, cp]
        if which == 'mon':
            ip = os.path.join(wd, '%s.%d.impl' % (which, k))
            write_lines(ip, impl[a:b])
            cmd.append(ip)
        op = open(os.path.join(wd, '%s.%d.out' % (which, k)), 'w')
        procs.append((subprocess.Popen(cmd, stdout=op, env=ENV, preexec_fn=_big_stack), op, a, b, k))
    out = []
    for p, op, a, b, k in procs:
        rc = p.wait()
        op.close()
        lines = read_lines(os.path.join(wd, '%s.%d.out' % (which, k)))
        if rc != 0 or len(lines) != b - a:
            raise Infra('extracted %s failed on chunk %d (rc=%s, %d/%d lines)' % (which, k, rc, len(lines), b - a))
        out.extend(lines)
    return out


def records(line):
    """'1 1 | 2 0 0' -> [[1,1],[2,0,0]]"""
    out = []
    for part in line.split('|'):
        part = part.strip()
        if part:
            out.append([int(x) for x in part.split()])
    return out


def project(recs, tags):
    """tags: {tag: None | prefix_len}. Keeps the records whose first number is a key."""
    out = []
    for r in recs:
        if r and r[0] in tags:
            k = tags[r[0]]
            out.append(r if k is None else r[:k])
    return out


# ---------- in-kernel sample of the extraction ----------
def kernel_sample(wd, tier, seed):
    """Re-evaluates a sample of the cases with vm_compute inside Coq (the same Gallina
    definitions, no extraction, no OCaml) and compares with what the extracted binary printed."""
    rnd = random.Random(seed)
    want = 12 if tier != 'thorough' else 150
    picked = []
    for which, fn in (('model', 'run_case6'), ('spec', 'spec_case2')):
        pool = [(c, o) for c, o in SAMPLE_POOL[which] if len(c) < 1500 and len(o) < 4000 and o.strip() != "97"]
        rnd.shuffle(pool)
        picked += [(fn, c, o) for c, o in pool[:want]]
    if not picked:
        return dict(cases=0, mismatches=0, ok=True)

    def zl(xs):
        return '[' + ';'.join('(%d)' % x for x in xs) + ']'
    items = []
    for fn, c, o in picked:
        ints = [int(x) for x in c.split()]
        recs = records(o)
        items.append('(%s, %s, %s)' % ('true' if fn == 'run_case6' else 'false', zl(ints), '[' + ';'.join(zl(r) for r in recs) + ']'))
    src = os.path.join(wd, 'KSample.v')
    with open(src, 'w') as f:
        f.write('From GM Require Import Base AsmCodec Monitors.\nFrom Coq Require Import ZArith List Bool.\nImport ListNotations.\nOpen Scope Z_scope.\n')
        f.write('Definition zl_eqb (a b : list Z) : bool := list_eqb Z.eqb a b.\n')
        f.write('Definition cases : list (bool * list Z * list (list Z)) := [\n' + ';\n'.join(items) + '].\n')
        f.write('Definition mism := filter (fun c : bool * list Z * list (list Z) => match c with (m, i, o) => negb (list_eqb zl_eqb (if m then run_case6 i else spec_case2 i) o) end) cases.\n')
        f.write('Definition nmism := Eval vm_compute in length mism.\nPrint nmism.\n')
    r = sh(['timeout', '900', 'coqc', '-Q', os.path.join(V, 'coq', 'theories'), 'GM', src], stdout=subprocess.PIPE, stderr=subprocess.STDOUT, text=True,
           preexec_fn=_big_stack)
    m = re.search(r'nmism = (\d+)%nat', r.stdout)
    n = int(m.group(1)) if m else -1
    return dict(cases=len(picked), mismatches=n, ok=(r.returncode == 0 and n == 0), log=r.stdout[-600:] if n != 0 else '')


def coqchk(pid):
    """Independent re-check of props/<pid>.vo and everything it depends on; lists axioms."""
    r = sh(['timeout', '3000', 'coqchk', '-silent', '-o', '-Q', os.path.join(V, 'coq', 'theories'), 'GM', 'GM.props.' + pid],
           stdout=subprocess.PIPE, stderr=subprocess.STDOUT, text=True)
    out = r.stdout
    m = re.search(r'\* Axioms:(.*?)\n\s*\n\* Constants', out, re.S)
    ax = m.group(1).strip() if m else '?'
    clean = (r.returncode == 0 and ax == '<none>' and out.count('<none>') >= 4)
    return dict(ok=clean, axioms=ax, summary=out[-700:])


# ---------- proof log ----------
def proof_log(pid):
    """Re-compiles props/<pid>.v alone (dependencies are built) and reads Print Assumptions."""
    src = os.path.join(V, 'coq', 'theories', 'props', pid + '.v')
    if not os.path.exists(src):
        return dict(obligations=0, discharged=0, axioms=[], theorems=[], ok=False, log='no property file')
    text = open(src).read()
    theorems = re.findall(r'^\s*(?:Theorem|Corollary|Lemma)\s+([A-Za-z0-9_\']+)', text, re.M)
    forbidden = re.findall(r'\b(Admitted|admit|Axiom|Parameter|Conjecture|Unset Guard|bypass_check)\b', text)
    wd = workdir(pid + '.proof')
    try:
        r = sh(['timeout', '900', 'coqc', '-Q', os.path.join(V, 'coq', 'theories'), 'GM', src, '-o', os.path.join(wd, pid + '.vo')],
               stdout=subprocess.PIPE, stderr=subprocess.STDOUT, text=True)
    finally:
        pass
    log = r.stdout
    shutil.rmtree(wd, ignore_errors=True)
    closed = log.count('Closed under the global context')
    axioms = re.findall(r'^Axioms:\n((?:.+\n)+)', log, re.M)
    ok = (r.returncode == 0 and not forbidden and closed == len(theorems) and not axioms)
    return dict(obligations=len(theorems), discharged=closed if r.returncode == 0 else 0,
                axioms=axioms, theorems=theorems, ok=ok, log=log[-2000:], forbidden=forbidden)


def scan_forbidden():
    """grep the whole development for vernacular that would weaken the kernel's guarantee."""
    bad = []
    root = os.path.join(V, 'coq', 'theories')
    pat = re.compile(r'\b(Admitted|admit|Axiom|Axioms|Parameter|Parameters|Conjecture|Admit Obligations)\b|Unset Guard|bypass_check|type-in-type|Unset Universe Checking|Unset Positivity')
    for dp, _, fs in os.walk(root):
        for f in fs:
            if f.endswith('.v'):
                txt = open(os.path.join(dp, f)).read()
                txt = re.sub(r'\(\*.*?\*\)', '', txt, flags=re.S)
                for m in pat.finditer(txt):
                    bad.append('%s: %s' % (os.path.relpath(os.path.join(dp, f), root), m.group(0)))
    return bad


# ---------- known findings ----------
def known_findings():
    p = os.path.join(V, 'KNOWN_FINDINGS.json')
    if not os.path.exists(p):
        return []
    return json.load(open(p)).get('findings', [])


# ---------- reporting ----------
def case_hash(s):
    return hashlib.sha1(s.encode()).hexdigest()[:12]


def write_replay(pid, body):
    os.makedirs(os.path.join(V, 'replays'), exist_ok=True)
    h = case_hash(json.dumps(body, sort_keys=True))
    path = os.path.join(V, 'replays', '%s-%s.json' % (pid, h))
    body = dict(body, property=pid, rerun='bin/check %s --replay %s' % (pid, path))
    with open(path, 'w') as f:
        json.dump(body, f, indent=1)
    return path


def write_evidence(pid, tier, seed, coverage, wall, violations, assumptions):
    os.makedirs(os.path.join(V, 'evidence'), exist_ok=True)
    ev = dict(property_id=pid, tier=tier, seed=seed, level='proof', coverage=coverage,
              assumptions=assumptions, wall_s=round(wall, 2), violations=violations)
    with open(os.path.join(V, 'evidence', pid + '.json'), 'w') as f:
        json.dump(ev, f, indent=1)


TRUSTED_BASE = [
    'Coq 8.16.1 kernel (coqc); vm_compute for finite sweeps and the in-kernel sample of the correspondence; no native_compute',
    'no axioms: every property theorem prints "Closed under the global context"',
    'extraction: ExtrOcamlBasic only, no Extract Constant/Inductive of our own; OCaml 4.13.1; ocaml/driver.ml',
    'correspondence harness: go/ (generators, runner through the public gmars API), lib/*.py (diff, shrink, evidence)',
    'the Go source is modelled, not verified: theorems are about coq/theories/model, tied to /repo by the per-run correspondence',
]
