# vmcases.py — Python view of the VM case kinds (battle = kind 1): parsing,
# pretty-printing for evidence/replays, shrinking candidates, non-triviality.

OPS = ['DAT', 'MOV', 'ADD', 'SUB', 'MUL', 'DIV', 'MOD', 'CMP', 'SEQ', 'SNE', 'SLT', 'JMP', 'JMZ', 'JMN', 'DJN', 'SPL', 'NOP']
MDS = ['F', 'A', 'B', 'AB', 'BA', 'X', 'I']
AMS = ['$', '#', '*', '@', '{', '<', '}', '>']


def parse_battle(ints):
    assert ints[0] == 1
    M, R, W, P, C, fl, ms, nw = ints[1:9]
    pos = 9
    ws = []
    for _ in range(nw):
        ln, start, off = ints[pos:pos + 3]
        pos += 3
        code = [tuple(ints[pos + 6 * j: pos + 6 * j + 6]) for j in range(ln)]
        pos += 6 * ln
        ws.append(dict(start=start, off=off, code=code))
    return dict(M=M, R=R, W=W, P=P, C=C, flags=fl, maxsteps=ms, ws=ws)


def unparse_battle(b):
    out = [1, b['M'], b['R'], b['W'], b['P'], b['C'], b['flags'], b['maxsteps'], len(b['ws'])]
    for w in b['ws']:
        out += [len(w['code']), w['start'], w['off']]
        for ins in w['code']:
            out += list(ins)
    return out


def fmt_instr(i):
    try:
        return '%s.%s %s%d, %s%d' % (OPS[i[0]], MDS[i[1]], AMS[i[3]], i[2], AMS[i[5]], i[4])
    except Exception:
        return str(i)


def pretty_battle(ints, maxcells=24):
    b = parse_battle(ints)
    d = dict(M=b['M'], R=b['R'], W=b['W'], P=b['P'], cycles=b['C'], maxsteps=b['maxsteps'], warriors=[])
    for w in b['ws']:
        code = [fmt_instr(i) for i in w['code'][:maxcells]]
        if len(w['code']) > maxcells:
            code.append('... %d more' % (len(w['code']) - maxcells))
        d['warriors'].append(dict(offset=w['off'], start=w['start'], code=code))
    return d


ZERO = (0, 0, 0, 0, 0, 0)


def shrink_battle(ints):
    """Yields smaller variants of a battle case (most aggressive first)."""
    b = parse_battle(ints)
    import copy
    if len(b['ws']) > 1:
        for k in range(len(b['ws']) - 1, -1, -1):
            c = copy.deepcopy(b)
            del c['ws'][k]
            yield unparse_battle(c)
    for ms in (1, 2, 3, b['maxsteps'] // 2):
        if 0 < ms < b['maxsteps']:
            c = copy.deepcopy(b)
            c['maxsteps'] = ms
            yield unparse_battle(c)
    for wi, w in enumerate(b['ws']):
        # drop trailing instructions of a warrior that does not span the core
        if len(w['code']) > 1 and len(w['code']) < b['M']:
            c = copy.deepcopy(b)
            c['ws'][wi]['code'] = c['ws'][wi]['code'][:-1]
            if c['ws'][wi]['start'] < len(c['ws'][wi]['code']):
                yield unparse_battle(c)
        for ci, ins in enumerate(w['code']):
            if ins != ZERO:
                c = copy.deepcopy(b)
                c['ws'][wi]['code'][ci] = ZERO
                yield unparse_battle(c)
    for wi, w in enumerate(b['ws']):
        for ci, ins in enumerate(w['code']):
            for f in (2, 4):
                if ins[f] not in (0,):
                    c = copy.deepcopy(b)
                    l = list(ins)
                    l[f] = 0
                    c['ws'][wi]['code'][ci] = tuple(l)
                    yield unparse_battle(c)
            for f in (3, 5):
                if ins[f] not in (0, 1):
                    c = copy.deepcopy(b)
                    l = list(ins)
                    l[f] = 0
                    c['ws'][wi]['code'][ci] = tuple(l)
                    yield unparse_battle(c)
    for key in ('P',):
        if b[key] > 1:
            c = copy.deepcopy(b)
            c[key] = 1
            yield unparse_battle(c)


def step_form(ints):
    """For single-step cases: the instruction form at the program counter."""
    b = parse_battle(ints)
    w = b['ws'][0]
    pc = w['start']
    if 0 <= pc < len(w['code']):
        i = w['code'][pc]
        return (i[0], i[1], i[3], i[5])
    return None
