# manifest_data.py — the claims registered in MANIFEST.json (bin/mkmanifest.py renders them).
NOTES = ('Every check: full Coq build (no -vos), proof log of props/<ID>.v, then implementation vs extracted model (tie) '
         'and implementation vs extracted reference (monitor) on corpus + generated cases. See DESIGN.md.')
NOT_APPLICABLE = {}
CHECKS = {
 'C01': dict(
   text=('Theorem about the literal uint64 model of exec/simops/queue (coq/theories/model/Exec.v): for every core size 2<=M<=2^32, limits 1<=R,W<=M, '
         'process limit, well-formed core and pc<M, one step equals the ICWS\'94 reference step (spec/Emi94.v) cell-for-cell and queue element-for-element; '
         'the model is tied to /repo by running gmars and the extracted model on every instruction form on each run, and the extracted reference monitors gmars directly.'),
   design_ref='DESIGN.md 5 C01',
   note='Trusted: Coq kernel, extraction (ExtrOcamlBasic), the Go/Python harness, the hand-written model (checked against the code by correspondence only). No axioms.',
   technique='Coq proof of refinement model->reference (case analysis over modes/opcodes/modifiers) + per-run differential correspondence of the extracted model'),
}
