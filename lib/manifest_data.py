# manifest_data.py — the claims registered in MANIFEST.json (bin/mkmanifest.py renders them).
NOTES = ('Every check: full Coq build (no -vos), proof log of props/<ID>.v, then implementation vs extracted model (tie) '
         'and implementation vs extracted reference (monitor) on corpus + generated cases. See DESIGN.md.')
NOT_APPLICABLE = {}
NOTE_STD = ('Trusted: Coq 8.16.1 kernel, extraction (ExtrOcamlBasic only), OCaml driver, the Go/Python harness and its generators, '
            'and the hand-written model, which is tied to /repo only by the per-run correspondence (differential testing, not proof). No axioms: every theorem prints Closed under the global context.')
CHECKS = {
 'C02': dict(
   text=('Theorems about the literal model of RunCycle/Run/SpawnWarrior/processQueue (model/Sim.v): under the invariant and C01\'s guards, one RunCycle is exactly one cycle of the reference '
         'round-robin scheduler (spec/Mars.v over Emi94) or a no-op when the battle is over; Run equals iterate-until-finished and terminates within cycles-left+1 iterations; spawn loads at (off+i) mod M; '
         'the ring buffer is a bounded FIFO. Proved by induction over the warrior loop and over the remaining cycles. Every run ties the model to gmars on generated battles (stepping and Run(), first battle and a battle after Reset) and monitors gmars against the extracted reference.'),
   design_ref='DESIGN.md 5 C02', note=NOTE_STD,
   technique='Coq refinement proof (simulation relation model->reference scheduler, induction on cycles) + per-run differential correspondence'),
 'C04': dict(
   text=('Theorems about the literal model (uint64 wrap-around included, so limits above the core size are covered): creation is refused or yields the invariant; the invariant (fields < M, queued PCs < M, '
         'queue length <= P, cycles <= limit, living = #alive, alive <-> tasks) is preserved by AddWarrior, SpawnWarrior, RunCycle and Run for arbitrary well-formed code, and none of them reaches a Panic. '
         'Proved by induction over operation sequences. Every run sweeps configurations and hostile battles on gmars and evaluates the extracted invariant checker on gmars\' own state after every cycle.'),
   design_ref='DESIGN.md 5 C04', note=NOTE_STD,
   technique='Coq invariant proof by induction over operation sequences + per-run correspondence and extracted invariant monitor'),
 'C12': dict(
   text=('Theorems: one reference step commutes with rotating core and program counter by any k (every effective address is (pc+x) mod M); spawning k cells further, every cycle and the whole run-to-completion '
         'of the reference scheduler stay rotated (same survivors, same cycle count); offsets congruent modulo M are the same placement; carried to the literal model of RunCycle through the C02 refinement. '
         'Every run executes pairs of battles (shift k, offsets + j*M including offsets just below 2^64) on gmars and the extracted rotation checker compares all observables.'),
   design_ref='DESIGN.md 5 C12', note=NOTE_STD,
   technique='Coq equivariance proof (rotation relation preserved by step/spawn/cycle/run, by induction) + per-run correspondence and extracted rotation monitor'),
 'C13': dict(
   text=('Theorems about the literal API model (every Go panic site explicit, Run with fuel): from any state satisfying the invariant no sequence of AddWarrior/SpawnWarrior/RunCycle/Run/Reset/GetWarrior/GetMem/'
         'Alive/Queue/NextPC/Length calls panics or leaves Run looping; RunCycle, Run, SpawnWarrior, AddWarrior, GetMem agree with the documented machine (ApiSpec over Mars), inapplicable calls change nothing; '
         'Reset yields the state of a fresh simulator. Every run enumerates all call sequences to depth 3 (thorough: 4) plus random histories on gmars under recover and a watchdog; the extracted ApiSpec monitor checks every call.'),
   design_ref='DESIGN.md 5 C13', note=NOTE_STD,
   technique='Coq proof by induction over call sequences (invariant + refinement to ApiSpec) + exhaustive-to-depth and random differential histories with extracted monitor'),
 'C15': dict(
   text=('Theorems about the report streams of the literal model: for every limits, every cell changed by a task (and by a whole RunCycle from any invariant state) is named by a write/increment/decrement report; '
         'all addresses are below M and warrior indexes exist; a task-termination report appears exactly when no successor is queued; the StateRecorder model never indexes out of range on such a stream and equals '
         'the last-touch fold. Every run compares gmars\' Reporter callbacks and StateRecorder state with the model and runs the extracted report checker on gmars\' own stream and per-cycle core dumps.'),
   design_ref='DESIGN.md 5 C15', note=NOTE_STD,
   technique='Coq proof (frame lemmas per opcode, induction over the warrior loop, fold lemma for the recorder) + per-run correspondence and extracted report monitor'),
 'C11': dict(
   text=('Theorems: for every M in 2..2^32, limits 1..M, well-formed core and pc: every cell changed by a step is within floor(W/2) of pc, every queued successor other than pc+1/pc+2 within floor(R/2), '
         'operands are fetched within floor(R/2), and with R=W=M the step equals the step with limits ignored. Proved on the reference step and transferred to the literal model through C01. '
         'Every run executes all 7616 forms with limits below the core size on gmars and runs the extracted locality checker on gmars\' before/after cores and queues.'),
   design_ref='DESIGN.md 5 C11', note=NOTE_STD,
   technique='Coq proof (frame lemmas + fold bound) transferred through the C01 refinement + per-run correspondence and extracted locality monitor'),
 'C01': dict(
   text=('Theorem about the literal uint64 model of exec/simops/queue (coq/theories/model/Exec.v): for every core size 2<=M<=2^32, limits 1<=R,W<=M, '
         'process limit, well-formed core and pc<M, one step equals the ICWS\'94 reference step (spec/Emi94.v) cell-for-cell and queue element-for-element; '
         'the model is tied to /repo by running gmars and the extracted model on every instruction form on each run, and the extracted reference monitors gmars directly.'),
   design_ref='DESIGN.md 5 C01',
   note=NOTE_STD,
   technique='Coq proof of refinement model->reference (case analysis over modes/opcodes/modifiers) + per-run differential correspondence of the extracted model'),
}

CHECKS.update({
 'C06': dict(
   text=('Theorems about the literal model of compiler.compile / assembleLine (model/Compile.v), for ALL lists of source lines and metadata (so independent of what lexer, parser and expression evaluator produce): '
         'an accepted warrior has every field below the core size, an entry point inside the code (0 for empty code), at most the configured length, and under ICWS\'88 only instructions of the independently written '
         'legal-\'88 table with the implied modifier; the load.go \'88 table agrees with that table on all opcode/mode combinations. Every run renders generated abstract programs (legal, illegal, over-length, '
         'out-of-range, \'94-only forms under \'88) through the extracted renderer, assembles them with gmars and with the extracted model, and checks acceptance and result against the extracted reference meaning.'),
   design_ref='DESIGN.md 5 C06', note=NOTE_STD,
   technique='Coq proof over all line lists (case analysis of assembleLine + finite table sweep lifted by lemma) + per-run two-stage differential correspondence'),
 'C10': dict(
   text=('Theorems about the literal model of ParseLoadFile (model/Load.v), for every input text: the reader always answers (error or warrior); an accepted warrior has every field below the core size, an entry '
         'point inside the code, and under \'88 only legal \'88 instructions with the implied modifier; the number of instructions returned equals the number of instruction-bearing lines of the text, where only a line of white space (in front of a remark) counts as blank - a line of commas does not (D32) - so no line is silently dropped. '
         'Every run feeds generated load files (canonical, mutated, truncated, wrong rule set, bare ORG, junk) to gmars and the extracted model and checks the extracted acceptance monitor.'),
   design_ref='DESIGN.md 5 C10', note=NOTE_STD,
   technique='Coq proof by induction over the lines of the text + per-run differential correspondence and extracted acceptance monitor'),
 'C17': dict(
   text=('Theorems about the literal model of cmd/gmars (model/Cli.v) with math/rand as a parameter (the list of positions drawn): flags -s -p -c -l -8 give exactly the documented configuration and a preset the documented '
         'one; for every list of positions the tally counts each round exactly once as a win, a tie for both, or nothing; one round equals the reference battle (spec/Mars.v) at that placement; with -F the two printed lines '
         'are the reference outcome times the number of rounds. Flag parsing by package flag, file reading and the random source are modelled, not proved. Every run builds the gmars binary from /repo, runs it on generated '
         'command lines and warriors, and compares exit status and output with the extracted model and the extracted reference.'),
   design_ref='DESIGN.md 5 C17', note=NOTE_STD,
   technique='Coq proof (configuration table, tally invariant by induction over rounds, refinement of a round to the reference battle through C02) + per-run correspondence against the built binary'),
})

CHECKS.update({
 'C16': dict(
   text=('Theorem about the literal model of warrior.go LoadCode / sim.go addressSigned (model/Listing.v): for every core size 1..2^63, both dialects, every non-empty warrior with fields below the core size '
         '(legal \'88 instructions in \'88 mode) and every entry point inside it, the independently written pMARS-listing reader (spec/LoadPrint.v read_listing: START label, ORG START / END START, signed decimal '
         'fields, implied modifier in \'88) returns exactly the instructions and entry point; the empty warrior prints nothing; whatever the assembler model (C06) or the load-file reader model (C10) accepts satisfies the '
         'hypotheses. Includes the decimal print/parse round trip for all integers. Every run prints generated warriors (all forms, fields at 0, 1, M/2, M/2+1, M-1, every entry point) with gmars, compares the text with the '
         'extracted model and reads gmars\' own text back with the extracted reader.'),
   design_ref='DESIGN.md 5 C16', note=NOTE_STD,
   technique='Coq round-trip proof (decimal codec by induction on fuel, tokeniser lemmas over a chunk normal form, induction over the code) + per-run correspondence and extracted reader as monitor'),
})

CHECKS.update({
 'C09': dict(
   text=('Theorem C09_round_trip (the property at full strength on the models): for EVERY layout style of the canonical load-file text (letter case chosen per character, blanks or tabs, LF or CR-LF, comment / blank / ;name lines '
         'between lines, trailing remarks - also with inner semicolons -, a missing final newline, fields printed unsigned or signed), both dialects, every instruction form with fields below the core size and every entry point, '
         'BOTH readers return exactly the instructions and the entry point: the load-file reader (model/Load.v; core sizes up to 2^63) and the assembler (compile_warrior: an END-TO-END theorem through the models of lexer, symbol scanner, parser and compiler; '
         'core sizes up to 2^31, the range of the 32-bit operand evaluator; configurations the assembler accepts whose maximum length admits the warrior). The assembler half is proved for every layout RECORD satisfying layout_ok '
         '(C09_assembler_any_layout: arbitrary blank runs, any respelling in another letter case, optional carriage returns, blank and comment lines, remarks, optional final line end), of which the layouts loadprint derives from its style number are instances; '
         'what the reader accepts re-prints and re-reads to itself (C09_reader_fixpoint). Every run feeds gmars\' ParseLoadFile and CompileWarrior with extracted renderings (styled and plain canonical) of generated warriors and compares with the warrior and with the extracted models.'),
   design_ref='DESIGN.md 0.2 and 5 C09', note=NOTE_STD,
   technique='Coq round-trip proofs for both readers over all layout styles: load-file reader by a chunk normal form of a line; assembler end to end (text as blank runs and lexemes; symbolic execution of the parser state machine over token-level documents; compile step for any letter case) + per-run two-stage correspondence for reader and assembler'),
})

CHECKS.update({
 'C07': dict(
   text=('Theorems about the literal model of expr.go (model/ExprEval.v: combineSigns, flipDoubleNegatives, evaluation, 32-bit range check): for EVERY expression tree over non-negative literals, + - * / %, parentheses and '
         'any run of stacked unary signs, written out token by token, evaluateExpression returns the exact integer value (usual precedence, left associativity, / and % truncating toward zero) when it fits 32 bits and an error when a '
         'division by zero occurs or it does not fit; the two token rewritings turn a printed tree into a printed tree of the same value that never contains "++" or "--"; the value is then reduced to v mod M; the predefined names '
         'evaluate to the configuration values; an ;assert passes exactly when its expression is non-zero, and on whole programs (labelled instructions, EQU definitions to any depth, ORG, ;assert lines anywhere) the compiler refuses the program when a condition has the reference value 0 (C07_zero_condition_refused) and accepts it with the denoted code when every condition is non-zero (C07_nonzero_conditions_accepted); and for EVERY token list that the reference evaluator accepts (so also for the lists textual EQU substitution produces, which are the printed form of no tree in the program) evaluateExpression returns the reference value (C07_all_accepted_token_lists). go/types.Eval itself is modelled (by the precedence-climbing evaluator proved correct against the denotation), not verified, '
         'and the lexing of the rendered text and EQU substitution are tied by correspondence: every run evaluates generated expressions (depth <= 6, sign runs, redundant parentheses, EQU-introduced signs, several core sizes) '
         'with gmars (hooked evaluateExpression and whole programs) against the extracted model and the independent denotation.'),
   design_ref='DESIGN.md 5 C07', note=NOTE_STD + ' go/types.Eval is modelled on the fragment of decimal literals, + - * / %, unary signs and parentheses; inputs outside it are excluded from the tie (model answers Unmodelled).',
   technique='Coq proof (precedence-climbing parser correct by induction on trees; sign folding / double-negative rewriting as tree transformations preserving value; adjacency freedom) + per-run correspondence'),
})

CHECKS.update({
 'C05': dict(
   text=('Theorem about the literal model of CompileWarrior: for EVERY input text and EVERY configuration assembling ends within the fuel of every loop of the model (C05_assembling_terminates: compile_warrior never answers out-of-fuel). '
         'Pieces, each a theorem for all inputs: the lexer goroutine (lex.go) ends within 2n+4 state functions for every classification of runes and sends ordinary tokens followed by exactly one terminal token, so Tokens() receives every send and nothing stays blocked; '
         'the symbol scanner ends within 3n+6 and the parser within 4n+10 state functions on every closed stream (potential arguments over the 4 and 13 state functions); a pass of the FOR expander (forexpand.go) ends within 4n+8 state functions, sends at most one terminal token, as its last send, and is never left blocked; '
         'the pass driver ends (at most 1000 passes); the EQU graph walk is total, and once it finds no cycle the memoised expansion of EQU values ends (the walk bounds its recursion) and the substitute-until-nothing-changes loop of expandExpression ends within |symbols|+3 passes (every token needs at most |graph|+1 passes; the resolved table is free of EQU names). '
         'NOT theorems: wall-clock time, memory and the goroutine count are facts about the Go runtime - measured on every run; textual EQU substitution is exponential in nesting depth in the size of the substituted text (the bound counts passes). '
         'Every run feeds generated inputs (valid, mutated, token soup, invalid UTF-8, NUL, ^Z, CR/LF variants, unterminated lines, EQU cycles with ;assert, half-failing FOR blocks, lexer error tokens on every line of FOR programs) '
         'to gmars in worker processes under a watchdog, compares result and token streams with the extracted model, and checks err xor result and the goroutine count before/after.'),
   design_ref='DESIGN.md 0.2 and 5 C05', note=NOTE_STD + ' Runtime behaviour (time, memory, goroutine profile) is covered by the per-run harness only.',
   technique='Coq proof (potential arguments over the lexer, scanner, expander and parser state machines; send-protocol invariant; cycle-check walk bounds EQU expansion and substitution passes) + per-run correspondence with watchdog, err-xor-result and goroutine-leak monitors'),
})

CHECKS.update({
 'C14': dict(
   text=('PARTIAL by nature: data races, goroutine scheduling and the absence of package-level mutable state are runtime / source facts that no executable model expresses; they are checked on every run by the harness built with -race '
         '(the same jobs - assemble text; build simulator, add shared warrior data, spawn, run - on 1..32 threads, every result compared with its sequential result and with the extracted model, GORACE=halt_on_error). '
         'What is proved: (1) copy isolation in a store model of Go slices (backing arrays by address; WarriorData.Copy allocates; addWarrior keeps only the copy): after AddWarrior no write through the caller\'s slice shows in what the simulator loads, and vice versa, '
         'and earlier warriors are untouched; (2) the EQU cycle check always answers (its depth-first walk never exhausts its fuel) and gives the same answer for every order in which Go ranges over the map of names (permutation invariance, distinct names), and the expansion of the EQU values (expandExpressions) returns the same table for every order - each name mapped to its fully substituted value, which is unique; (3) jobs whose steps write only their own state '
         'end, under every interleaving, where they end when run alone (instantiated to simulators stepping RunCycle); the literal models are functions, so repeating a job repeats its result. The store model is exercised by the harness case that mutates '
         'the caller\'s WarriorData after AddWarrior and compares the battle with the model\'s.'),
   design_ref='DESIGN.md 5 C14', note=NOTE_STD + ' The concurrency part of the property is decided by the race-detector harness, not by a theorem.',
   technique='Coq proofs about a store model (alias freedom), permutation invariance of the cycle check and of the EQU expansion, schedule independence of private-state jobs + per-run -race harness with sequential/concurrent result comparison'),
})

CHECKS.update({
 'C03': dict(
   text=('PARTIAL. Proved END TO END on the literal model (lexer, symbol scanner, FOR passes, parser, compiler) for programs of labelled instructions, EQU definitions (anywhere, used before or after their definition, nested to any depth: C03_programs_with_equ_partial) and ORG, and for programs of labelled instructions with ORG and the END line (C03_labelled_programs_partial), i.e. the full statement restricted to programs without FOR and generalised to every layout; the EQU theorem also covers ;assert lines anywhere among the lines - comments `;assert<text>` whose text lexes to a condition, evaluated by the compiler with the definitions as written exactly as the reference reads them (C03EquCompile.r2_assertions, example C03AssertExample): '
         'any text whose lexemes, with any white space between them, form a document - comment lines, an ORG line, instruction lines with label sections in any spelling (names, colons, line ends), mnemonics in any letter case with or without modifier, operands with or without modes, one or two operands, remarks, blank lines, '
         'an END line with labels and with or without expression - that renders an abstract program having a meaning (spec/Meaning.v: labels are offsets from the referring instruction, END-line labels the address past the code, dialect defaults for omitted modes and modifiers, lone-operand rule, fields modulo the core size, ORG/END entry point) '
         'is assembled by compile_warrior to exactly that code, entry point and comment metadata, for both dialects and every valid configuration; a concrete program exercising all of this is checked by vm_compute to meet the hypotheses. '
         'Also proved separately: lexer on any sequence of well-placed lexemes; default-modifier tables equal the reference tables; one substitution pass is token-wise and replaces every EQU name by its text; mnemonics recognised under every letter-casing; entry point lemma. '
         'EQU: the reference substitutes names pass by pass with the definitions as written and evaluates the token list; the compiler uses its table of resolved values - both arrive at the same token list (C03Equ) and both evaluators give it the same value (C07Inverse), definitions that refer to each other along a rank pass the cycle check. FOR: a text whose tokens unroll block by block (C08) to such a document is assembled to the meaning of the unrolled program (C03_programs_with_for_partial), and for a block without labels or counter over unlabelled instruction and comment lines, count >= 1 from any expression over the EQU symbols in front, that relation is constructed rather than assumed (C03_programs_with_plain_for_partial, with an example; C03_programs_with_counter_for_partial for `c FOR count` whose body uses the counter in its operands, with an example; C03_programs_with_blocks_partial for ANY NUMBER of such blocks one after another, by induction over the blocks, with an example of two blocks; C03_programs_with_blocks_reference_partial: the same with the counts given by the reference value of the count expression over the EQU definitions in front of each block, the agreement of the expander with it being proved, C08_block_count_partial), as it is for the comment idiom - a block with count <= 0 around any body (C03_programs_with_comment_block_partial, with an example). NOT proved: FOR blocks with block labels, labelled body lines or nesting inside the end-to-end statement (kept as C03_full_statement; parts in C08), EQU or ;assert together with an END line. That statement is decided on every run by the two-stage correspondence: generated abstract programs rendered under several styles by the extracted renderer, assembled by gmars and by the extracted model, compared with the extracted meaning.'),
   design_ref='DESIGN.md 0.2, 5 C03', note=NOTE_STD + ' EQU/FOR/;assert programs are covered by differential testing against the by-construction meaning; the end-to-end theorem covers labelled instructions with ORG/END in every layout.',
   technique='Coq end-to-end theorem for EQU/FOR-free programs (positioned-parser symbolic execution by induction over documents, refinement of the compile stage to the independent meaning function, lexer lemma for arbitrary spacing) + compile-stage lemmas + per-run two-stage differential correspondence against the independent meaning function'),
 'C08': dict(
   text=('PARTIAL. Proved on the literal model (model/ForExpand.v, Scanner.v, Compile.v pass_loop): ASSEMBLES LIKE ITS UNROLLING at the token level (C08_assembles_like_unrolling_partial) - if the tokens of a text unroll, block by block, to the tokens of another text (relation unrolls: k times the first block of the stream is written out, its count evaluated over the EQU symbols defined in front of it and the predefined constants, until no block is left), '
         'compile_warrior gives the same result for both texts; THE PASSES ADD UP (C08_passes_partial): the driver returns exactly the unrolled stream whenever it has more than k passes; ONE PASS OF THE DRIVER (C08_pass_driver_partial), symbol scanner included: the scanner run symbolically over the lines in front of the block (labels, colons, comments, EQU values with comments skipped, redefinition error, END line hiding the block, the FOR itself); '
         'ONE PASS of the expander as a whole (C08_one_pass_partial) - for any lines in front of the first block, its header, a body of arbitrary lines with properly nested inner blocks, the closing ROF and the rest of the stream, the pass ends and sends exactly the front lines (labels re-attached), the block written out count times with the block labels in place, and the rest unchanged. Also, for every stream, label list and count: the body is sent count times with the counter replaced by 1..count (nothing for count 0) and all other tokens kept; '
         'from the ROF line on (also when it is the last line and lacks a newline) exactly the block is sent - first iteration with the labels written before the counter standing in front of the body line found for them, iterations 2..count plain, with a count below one only the labels - and then the rest is copied unchanged; '
         'on the FOR line the count is the value of the expression over the pre-scanned EQU symbols and the predefined constants, the name before FOR is the counter, earlier names are block labels. A concrete program is shown to unroll and to be assembled like its unrolling BY the theorem. FOR THE SIMPLEST BLOCKS THE RELATION IS CONSTRUCTED (C08_plain_block_unrolls_partial): every block without labels or counter whose body is unlabelled lines not starting with FOR or ROF is replaced in one pass by its body written out count times, with a counter (`c FOR count`) the counter is replaced by 1 .. count (C08_counter_block_unrolls_partial) each written-out line is the rendering of the abstractly substituted line of Render.unroll (C08_copy_renders_partial), the count the expander evaluates over the symbols in front of the block is the reference value of the count expression (C08_block_count_partial), and with a count <= 0 the block disappears whatever its body is (C08_zero_block_unrolls_partial: the comment idiom). '
         'That a pass and the pass driver always end is part of C05. NOT proved: that the relation unrolls holds between the rendering of every abstract program and the rendering of its Render.unroll (each instance is a finite derivation), and the composition with the reference meaning (kept as C08_full_statement). That statement is decided on every run by the correspondence: generated programs (blocks in sequence, nesting to 3, counts 0..6 from literals and EQUs, counters in inner/outer expressions, block labels) and their extracted unrollings '
         'assembled by gmars and by the extracted model, compared with each other and with the extracted meaning.'),
   design_ref='DESIGN.md 0.2, 5 C08', note=NOTE_STD + ' One known finding is listed in KNOWN_FINDINGS.json (D34: the FOR expander drops a comment - an ;assert among them - that stands in a label section in front of the first block); the check prints KNOWN-FINDING for it and reports every other violation.' + ' The link between the abstract unroller and the token-level unrolling relation is covered by differential testing; the expander, the scanner and the pass driver are theorems.',
   technique='Coq theorems on the expander, scanner and pass-driver state machines (symbolic execution by induction over positioned machines, induction over the unrolling derivation) + per-run differential correspondence of program vs extracted unrolling vs meaning'),
})
