(* C01Phase.v — the operand phase of the literal model equals the reference
   operand evaluation (for both the A and the B block), with the bounds the
   rest of the step needs. *)
From GM Require Import Base Exec Emi94 VmArith.
From Coq Require Import Lia ZifyN ZifyBool.
Open Scope N_scope.
Ltac Zify.zify_post_hook ::= Z.div_mod_to_equations.

Definition wf_i (M : N) (i : instr) : Prop := i_a i < M /\ i_b i < M.
Definition cwf (M : N) (c : core) : Prop := forall a, a < M -> wf_i M (get c a).

Lemma cwf_core_wf M c : cwf M c <-> core_wf M c.
Proof. unfold cwf, core_wf, wf_i. tauto. Qed.

Lemma upd_ext c a f g : f (get c a) = g (get c a) -> upd c a f = upd c a g.
Proof. unfold upd. intros ->. reflexivity. Qed.

Lemma cwf_upd M c a f : cwf M c -> a < M -> wf_i M (f (get c a)) -> cwf M (upd c a f).
Proof.
  intros Hc Ha Hf x Hx. rewrite get_upd.
  destruct (x =? a); [assumption|]. now apply Hc.
Qed.
Lemma cwf_set M c a i : cwf M c -> wf_i M i -> cwf M (set c a i).
Proof.
  intros Hc Hi x Hx. rewrite get_set. destruct (x =? a); [assumption|]. now apply Hc.
Qed.

Lemma mod_lt_M M x : 2 <= M -> x mod M < M.
Proof. intros. apply N.mod_lt. lia. Qed.
Lemma wf_setA M i v : wf_i M i -> v < M -> wf_i M (setA i v).
Proof. unfold wf_i, setA. cbn. tauto. Qed.
Lemma wf_setB M i v : wf_i M i -> v < M -> wf_i M (setB i v).
Proof. unfold wf_i, setB. cbn. tauto. Qed.
Lemma wf_fset M f i v : wf_i M i -> v < M -> wf_i M (fset f i v).
Proof. destruct f; [apply wf_setA|apply wf_setB]. Qed.
Lemma wf_fget M f i : wf_i M i -> fget f i < M.
Proof. unfold wf_i. destruct f; cbn; tauto. Qed.

Section Phase.
Variables M R W : N.
Variable wi : Z.
Hypothesis HM2 : 2 <= M.
Hypothesis HM : M <= 2 ^ 32.
Hypothesis HR : 1 <= R <= M.
Hypothesis HW : 1 <= W <= M.

(* the generic shape of an indirect operand of the model, in reference terms *)
Lemma phase_ind_eq (f : fld) (pre post : bool) c pc num :
  cwf M c -> pc < M -> num < M ->
  let getf := match f with FA => i_a | FB => i_b end in
  let setf := match f with FA => setA | FB => setB end in
  let rp0 := rfold M R num in
  let wp0 := wfold M W num in
  let c1 := if pre then upd c (idx M pc wp0) (fun i => setf i (dec1 M (getf i))) else c in
  let rp := rfold M R (add64 rp0 (getf (get c1 (idx M pc rp0)))) in
  let wp := wfold M W (add64 wp0 (getf (get c1 (idx M pc wp0)))) in
  let ir := get c1 (idx M pc rp) in
  let c2 := if post then upd c1 (idx M pc wp0) (fun i => setf i (inc1 M (getf i))) else c1 in
  let rp0' := fold M num R in
  let wp0' := fold M num W in
  let tgt := addr M pc wp0' in
  let c1' := if pre then upd c tgt (fun i => fset f i ((fget f i + M - 1) mod M)) else c in
  let rp' := fold M (rp0' + fget f (get c1' (addr M pc rp0'))) R in
  let wp' := fold M (wp0' + fget f (get c1' tgt)) W in
  let ir' := get c1' (addr M pc rp') in
  let c2' := if post then upd c1' tgt (fun i => fset f i ((fget f i + 1) mod M)) else c1' in
  c2 = c2' /\ rp = rp' /\ wp = wp' /\ ir = ir' /\ idx M pc wp0 = tgt /\ wp0 = wp0' /\
  rp' < M /\ wp' < M /\ wp0' < M /\ cwf M c2' /\ wf_i M ir'.
Proof.
  intros Hc Hpc Hnum. cbv zeta.
  pose proof (M_lt_two64 M HM) as Mb.
  rewrite !(rfold_eq M R) by assumption. rewrite !(wfold_eq M W) by assumption.
  assert (Hr0 : fold M num R < M) by (apply fold_lt; lia).
  assert (Hw0 : fold M num W < M) by (apply fold_lt; lia).
  rewrite !idx_eq by assumption.
  set (tgt := addr M pc (fold M num W)).
  assert (Htgt : tgt < M) by (apply addr_lt; lia).
  assert (Hra : addr M pc (fold M num R) < M) by (apply addr_lt; lia).
  (* the pre-decrement *)
  assert (E1 : (if pre then upd c tgt (fun i => match f with FA => setA | FB => setB end i
                                              (dec1 M (match f with FA => i_a | FB => i_b end i))) else c)
               = (if pre then upd c tgt (fun i => fset f i ((fget f i + M - 1) mod M)) else c)).
  { destruct pre; [|reflexivity]. apply upd_ext.
    destruct f; cbn [fset fget]; rewrite dec1_eq by (try assumption; apply Hc; assumption); reflexivity. }
  rewrite E1. clear E1.
  set (c1 := if pre then upd c tgt (fun i => fset f i ((fget f i + M - 1) mod M)) else c).
  assert (Hc1 : cwf M c1).
  { subst c1. destruct pre; [|assumption]. apply cwf_upd; try assumption.
    apply wf_fset; [apply Hc; assumption|apply mod_lt_M; assumption]. }
  assert (Eg : forall a, match f with FA => i_a | FB => i_b end (get c1 a) = fget f (get c1 a))
    by (intros; destruct f; reflexivity).
  rewrite !Eg.
  assert (Hf1 : fget f (get c1 (addr M pc (fold M num R))) < M) by (apply wf_fget, Hc1; assumption).
  assert (Hf2 : fget f (get c1 tgt) < M) by (apply wf_fget, Hc1; assumption).
  rewrite !add64_small by lia.
  set (rp := fold M (fold M num R + fget f (get c1 (addr M pc (fold M num R)))) R).
  set (wp := fold M (fold M num W + fget f (get c1 tgt)) W).
  assert (Hrp : rp < M) by (apply fold_lt; lia).
  assert (Hwp : wp < M) by (apply fold_lt; lia).
  rewrite idx_eq by assumption.
  assert (E2 : (if post then upd c1 tgt (fun i => match f with FA => setA | FB => setB end i
                                              (inc1 M (match f with FA => i_a | FB => i_b end i))) else c1)
               = (if post then upd c1 tgt (fun i => fset f i ((fget f i + 1) mod M)) else c1)).
  { destruct post; [|reflexivity]. apply upd_ext.
    destruct f; cbn [fset fget]; rewrite inc1_eq by (try assumption; apply Hc1; assumption); reflexivity. }
  rewrite E2. clear E2.
  do 6 (split; [reflexivity|]).
  do 3 (split; [assumption|]).
  split.
  - destruct post; [|assumption]. apply cwf_upd; try assumption.
    apply wf_fset; [apply Hc1; assumption|apply mod_lt_M; assumption].
  - apply Hc1. apply addr_lt. lia.
Qed.
End Phase.
