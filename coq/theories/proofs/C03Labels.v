(* C03Labels.v — from a source text to the instructions it denotes, for programs of
   labelled instructions: lexer (any spacing), scanner and expander (nothing to expand),
   parser (C03Parse), compiler (C03Compile) against the reference meaning. *)
From GM Require Import Base Text Token Lexer Scanner ExprSpec ExprEval ForExpand Parser Sim Compile
     Prog Meaning AsmSpec C03Lexer C05Lexer C03Proof C07Model C10Proof C14Proof ScanProof
     C16Proof C09Parse C09Asm C09GenCompile C09GenLex C03Parse C03Compile.
From Coq Require Import Lia.
Open Scope Z_scope.

Definition plainword (t : token) : Prop :=
  t_typ t = tokText -> lower_is (t_val t) "for" = false /\ lower_is (t_val t) "equ" = false.

(* nothing for the expander to do: the passes hand the tokens on *)
Lemma front_plain cfg toks : closed_stream toks -> Forall plainword toks ->
  counts_modelled toks None = true /\ pass_loop cfg (S max_for_passes) toks = Some (Some toks).
Proof.
  intros C P. split; [apply counts_modelled_plain; exact P|].
  destruct (scan_input_plain _ C P) as [syms Es].
  change (pass_loop cfg (S max_for_passes) toks)
    with (match scan_input toks with
          | None => None
          | Some None => Some None
          | Some (Some (syms, for_seen)) =>
            if for_seen then
              match for_expand toks (with_constants cfg syms) with
              | None => None
              | Some None => None
              | Some (Some r) => pass_loop cfg max_for_passes (fr_tokens r)
              end
            else Some (Some toks)
          end).
  rewrite Es. reflexivity.
Qed.

Lemma not_pseudo_plain s : is_pseudo_text s = false -> lower_is s "for" = false /\ lower_is s "equ" = false.
Proof.
  unfold is_pseudo_text, lower_is. cbv zeta. intros H.
  destruct (text_eqb (lower s) (s2t "equ")); [rewrite ?orb_true_r in H; discriminate H|].
  destruct (text_eqb (lower s) (s2t "for")); [rewrite ?orb_true_r in H; discriminate H|]. auto.
Qed.
Lemma label_not_pseudo n : label_name n -> is_pseudo_text n = false.
Proof.
  unfold label_name, tok_is_op, tok_is_pseudo. cbn [t_typ t_val]. intros H.
  destruct (is_pseudo_text n); [rewrite orb_true_r in H; discriminate H|reflexivity].
Qed.

Section Glue.
Variable spell : N -> text.
Variable cfg : config.
Variable lbs : labels.            (* the labels of the program, with their addresses *)
Notation cf := (mconf_of cfg).
Hypothesis Hsp : spell_ok spell (map fst lbs).

(* a known name is spelt as a predefined word or as one of the program's labels, and is no keyword *)
Lemma known_spelled id : known cf lbs id ->
  In (spell id) (predefined ++ map spell (map fst lbs)) /\ is_pseudo_text (spell id) = false.
Proof.
  destruct Hsp as [[P1 [P2 [P3 P4]]] Hlab Hinj Hnd _]. unfold known, predefined_value.
  destruct (N.eqb_spec id ID_CORESIZE) as [->|N1]; [intros _; rewrite P1; split; [cbn; auto|reflexivity]|].
  destruct (N.eqb_spec id ID_MAXLENGTH) as [->|N2]; [intros _; rewrite P2; split; [cbn; auto|reflexivity]|].
  destruct (N.eqb_spec id ID_MAXPROCESSES) as [->|N3]; [intros _; rewrite P3; split; [cbn; auto|reflexivity]|].
  destruct (N.eqb_spec id ID_MINDISTANCE) as [->|N4]; [intros _; rewrite P4; split; [cbn; auto 10|reflexivity]|].
  intros [H|H]; [congruence|].
  destruct (lab_find' id lbs) as [a|] eqn:Ea; [|congruence].
  pose proof (lab_find'_in _ _ _ Ea) as Hin. split.
  - apply in_or_app. right. apply in_map. exact Hin.
  - apply label_not_pseudo. apply (Hlab id Hin).
Qed.

(* the names in the operands of a line *)
Definition line_names (l : Prog.iline) : list N :=
  names (o_expr (il_a l)) ++ match il_b l with Some b => names (o_expr b) | None => [] end.

Lemma meaning_line_known l t i x : renders_line spell l t -> instr_meaning cf [] lbs i l = MI x ->
  Forall (known cf lbs) (line_names l).
Proof.
  intros [_ [_ [[_ [_ Ha]] Hb]]] H. unfold instr_meaning in H. cbv zeta in H.
  destruct (if mf_legacy cf then _ else _) as [md|]; [|discriminate].
  destruct (value_at cf [] lbs i (o_expr (il_a l))) as [av| |] eqn:Eva; try discriminate.
  destruct (value_at_spec cf lbs i _ av Ha Eva) as [Ka _]. unfold line_names. apply Forall_app. split; [exact Ka|].
  destruct (il_b l) as [b|]; [|constructor]. destruct (tl_B t) as [[bm B]|]; [|destruct Hb].
  destruct Hb as [_ [_ Hb]].
  destruct (value_at cf [] lbs i (o_expr b)) as [bv| |] eqn:Evb; try discriminate.
  apply (value_at_spec cf lbs i _ bv Hb Evb).
Qed.

Lemma rd_known org ils0 es : renders_doc spell org ils0 es -> forall i acc code s,
  meaning_code cf [] lbs i ils0 acc = MOk code s -> Forall (fun l => Forall (known cf lbs) (line_names l)) ils0.
Proof.
  induction 1 as [|org l ils1 t k es Hl _ IH|org c k ils1 es _ _ IH|e kw cmt k ils1 es _ _ _ IH]; intros i acc code s H.
  - constructor.
  - cbn [meaning_code] in H. destruct (instr_meaning cf [] lbs i l) as [x| |] eqn:Ei; try discriminate.
    constructor; [apply (meaning_line_known l t i x Hl Ei)|apply (IH _ _ _ _ H)].
  - apply (IH _ _ _ _ H).
  - apply (IH _ _ _ _ H).
Qed.

(* ---------- tokens of rendered expressions ---------- *)
Lemma etoks_text e t : In t (etoks spell e) -> t_typ t = tokText -> exists id, In id (names e) /\ t_val t = spell id.
Proof.
  unfold etoks. induction e as [n|id|e IH|m e IH|o a IHa b IHb]; cbn [nprint map names In]; intros Hin Ht.
  - destruct Hin as [<-|[]]. discriminate Ht.
  - destruct Hin as [<-|[]]. exists id. split; [left; reflexivity|reflexivity].
  - destruct Hin as [<-|Hin]; [discriminate Ht|]. rewrite map_app in Hin. apply in_app_or in Hin.
    destruct Hin as [Hin|[<-|[]]]; [apply IH; assumption|discriminate Ht].
  - destruct Hin as [<-|Hin]; [destruct m; discriminate Ht|apply IH; assumption].
  - rewrite map_app in Hin. apply in_app_or in Hin. destruct Hin as [Hin|[<-|Hin]].
    + destruct (IHa Hin Ht) as [id [H1 H2]]. exists id. split; [apply in_or_app; left; exact H1|exact H2].
    + destruct o; discriminate Ht.
    + destruct (IHb Hin Ht) as [id [H1 H2]]. exists id. split; [apply in_or_app; right; exact H1|exact H2].
Qed.
Lemma etoks_terms e : Forall term_tok (etoks spell e).
Proof.
  unfold etoks. apply Forall_forall. intros t Hin. apply in_map_iff in Hin. destruct Hin as [x [<- _]].
  destruct x as [[n|o| |]|id]; reflexivity.
Qed.
Lemma nprint_head e : exists h r, nprint e = h :: r /\
  match h with TE (ENum _) | TN _ | TE ELp | TE (EOp OAdd) | TE (EOp OSub) => True | _ => False end.
Proof.
  induction e as [n|id|e IH|m e IH|o a IHa b IHb]; cbn [nprint].
  - eexists _, _. split; [reflexivity|exact I].
  - eexists _, _. split; [reflexivity|exact I].
  - eexists _, _. split; [reflexivity|exact I].
  - eexists _, _. split; [reflexivity|destruct m; exact I].
  - destruct IHa as [h [r [E H]]]. rewrite E. cbn [app]. eexists _, _. split; [reflexivity|exact H].
Qed.
Lemma operand_rendered o m toks : renders_operand spell o m toks -> operand_ok m toks.
Proof.
  intros [-> [-> _]]. split; [apply etoks_terms|]. split; [apply etoks_nonempty|].
  destruct (o_mode o) as [a|]; cbn [option_map].
  - apply (amode_tok a).
  - unfold etoks. destruct (nprint_head (o_expr o)) as [h [r [E H]]]. rewrite E. cbn [map hd].
    destruct h as [[n|[]| |]|id]; try destruct H; split; try reflexivity.
    + unfold val_is. cbn [ntok_tok inj t_val]. apply digits_not_char; [apply dec_of_N_spec|reflexivity].
    + unfold val_is. cbn [ntok_tok t_val]. apply text_eqb_neq. apply (sp_word _ _ Hsp).
Qed.

Definition labs_ok (t : tline) : Prop := match tl_labs t with [] | LName _ :: _ => True | _ => False end.

Lemma spelled_labels ids0 : incl ids0 (map fst lbs) -> Forall label_name (map spell ids0).
Proof.
  intros Hinc. apply Forall_forall. intros n Hn. apply in_map_iff in Hn. destruct Hn as [id [<- Hid]].
  apply (sp_lab _ _ Hsp id). apply Hinc. exact Hid.
Qed.

Lemma tline_rendered l t : incl (il_labels l) (map fst lbs) -> renders_line spell l t -> labs_ok t -> tline_ok t.
Proof.
  intros Hin [Hl [Hop [Ha Hb]]] Hsh. split; [exact Hsh|]. split; [|split; [apply (optext_tok _ _ _ Hop)|split; [apply (operand_rendered _ _ _ Ha)|]]].
  - rewrite Hl. apply spelled_labels. exact Hin.
  - destruct (il_b l) as [b|], (tl_B t) as [[bm B]|]; try destruct Hb; try exact I. apply (operand_rendered b bm B). split; assumption.
Qed.

Lemma expr_plain e : Forall (known cf lbs) (names e) -> Forall plainword (etoks spell e).
Proof.
  intros He. apply Forall_forall. intros tk Htk Ht. destruct (etoks_text e tk Htk Ht) as [id [H1 H2]].
  rewrite H2. apply not_pseudo_plain. rewrite Forall_forall in He. apply (known_spelled id (He id H1)).
Qed.
Lemma labs_plain ids0 labs : incl ids0 (map fst lbs) -> lnames labs = map spell ids0 -> Forall plainword (map ltok_tok labs).
Proof.
  intros Hinc Hl. apply Forall_forall. intros tk Htk Ht. apply in_map_iff in Htk. destruct Htk as [x [<- Hx]].
  destruct x as [n| |]; try discriminate Ht. cbn [ltok_tok t_val]. apply not_pseudo_plain. apply label_not_pseudo.
  assert (Hn : In n (lnames labs)) by (unfold lnames; apply in_flat_map; exists (LName n); split; [exact Hx|left; reflexivity]).
  rewrite Hl in Hn. pose proof (spelled_labels ids0 Hinc) as F. rewrite Forall_forall in F. apply F. exact Hn.
Qed.
Lemma cmt_plain c : Forall plainword (cmt_toks c).
Proof. destruct c as [c0|]; cbn [cmt_toks]; [constructor; [intros X; discriminate X|constructor]|constructor]. Qed.

(* the words of a rendered line are no keywords of the expander *)
Lemma tline_plain l t : incl (il_labels l) (map fst lbs) -> renders_line spell l t -> Forall (known cf lbs) (line_names l) ->
  Forall plainword (tline_toks t).
Proof.
  intros Hin [Hl [Hop [[Ea1 [Ea2 _]] Hb]]] Hk.
  assert (Hmode : forall m, Forall plainword (mode_toks m)) by (intros [a|]; cbn [mode_toks]; [constructor; [intros X; discriminate X|constructor]|constructor]).
  unfold line_names in Hk. apply Forall_app in Hk. destruct Hk as [Ka Kb].
  unfold tline_toks, tline_head, tline_last. repeat (apply Forall_app; split).
  - apply (labs_plain (il_labels l)); assumption.
  - constructor.
    + intros _. apply not_pseudo_plain. destruct (optext_tok _ _ _ Hop) as [_ [_ Hp]]. exact Hp.
    + apply Forall_app. split; [apply Hmode|].
      destruct (il_b l) as [b|], (tl_B t) as [[bm B]|]; try destruct Hb; try constructor.
      apply Forall_app. split; [rewrite Ea2; apply expr_plain; exact Ka|]. constructor; [intros X; discriminate X|apply Hmode].
  - destruct (il_b l) as [b|], (tl_B t) as [[bm B]|]; try destruct Hb.
    + destruct H0 as [-> _]. apply expr_plain. exact Kb.
    + rewrite Ea2. apply expr_plain. exact Ka.
  - apply cmt_plain.
Qed.

(* ---------- the names referred to ---------- *)
Lemma add_refs_sub (S : text -> Prop) e : forall rf, (forall r, In r rf -> S r) ->
  (forall t, In t e -> t_typ t = tokText -> S (t_val t)) -> forall r, In r (add_refs rf e) -> S r.
Proof.
  induction e as [|t e IH]; intros rf Hrf He r Hr; [apply Hrf; exact Hr|].
  cbn [add_refs fold_left] in Hr. apply (IH (add_ref rf t)); [| |exact Hr].
  - intros r0 H0. unfold add_ref in H0. destruct (t_typ t) eqn:Et; try (apply Hrf; exact H0).
    destruct (mem_text (t_val t) rf); [apply Hrf; exact H0|]. apply in_app_or in H0. destruct H0 as [H0|[<-|[]]]; [apply Hrf; exact H0|].
    apply He; [left; reflexivity|exact Et].
  - intros t0 H0. apply He. right. exact H0.
Qed.
Lemma expr_refs (S : text -> Prop) e rf : Forall (known cf lbs) (names e) -> (forall id, known cf lbs id -> S (spell id)) ->
  (forall r, In r rf -> S r) -> forall r, In r (add_refs rf (etoks spell e)) -> S r.
Proof.
  intros He HS Hrf. apply add_refs_sub; [exact Hrf|]. intros tk Htk Ht. destruct (etoks_text e tk Htk Ht) as [id [H1 H2]]. rewrite H2. apply HS.
  rewrite Forall_forall in He. apply He. exact H1.
Qed.

Lemma refs_line l t rf (S : text -> Prop) : renders_line spell l t -> Forall (known cf lbs) (line_names l) ->
  (forall id, known cf lbs id -> S (spell id)) -> (forall r, In r rf -> S r) -> forall r, In r (refs_after rf t) -> S r.
Proof.
  intros [_ [_ [[_ [Ea2 _]] Hb]]] Hk HS Hrf. unfold line_names in Hk. apply Forall_app in Hk. destruct Hk as [Ka Kb].
  unfold refs_after, refs_mid, tline_last.
  destruct (il_b l) as [b|], (tl_B t) as [[bm B]|]; try destruct Hb.
  - destruct H0 as [-> _]. apply expr_refs; [exact Kb|exact HS|]. rewrite Ea2. apply expr_refs; assumption.
  - rewrite Ea2. apply expr_refs; assumption.
Qed.

(* ---------- whole documents ---------- *)
Definition shape_ok (es : list (lelem * nat)) : Prop :=
  Forall (fun xk => match fst xk with LInstr t => labs_ok t | _ => True end) es.
Definition org_known (org : option nexpr) : Prop := match org with Some e => Forall (known cf lbs) (names e) | None => True end.

Lemma org_kw_facts kw : dir_kw_ok kw "org" ->
  kw_tok (mkT tokText kw) /\ tok_is_pseudo (mkT tokText kw) = true /\ lower_is kw "end" = false /\
  lower_is kw "for" = false /\ lower_is kw "equ" = false.
Proof.
  intros Hk. destruct (dir_kw_facts kw "org" (or_introl eq_refl) Hk) as [K0 [K1 [K2 [_ K4]]]]. cbn in K4.
  split; [split; [reflexivity|exact K0]|]. split; [exact K1|]. split; [exact K4|]. split; [|exact K2].
  unfold dir_kw_ok in Hk. unfold lower_is. rewrite Hk. reflexivity.
Qed.

Lemma rd_ok org ils0 es : renders_doc spell org ils0 es -> incl (flat_map il_labels ils0) (map fst lbs) -> shape_ok es ->
  Forall (fun xk => lelem_ok (fst xk)) es.
Proof.
  induction 1 as [|org l ils1 t k es Hl _ IH|org c k ils1 es _ _ IH|e kw cmt k ils1 es Hkw _ _ IH]; intros Hinc Hsh; [constructor| | |].
  - inversion Hsh as [|a b Ha Hb]; subst. cbn [fst] in Ha. cbn [flat_map] in Hinc. constructor.
    + cbn [fst lelem_ok]. apply (tline_rendered l t); [intros x Hx; apply Hinc; apply in_or_app; left; exact Hx|exact Hl|exact Ha].
    + apply IH; [intros x Hx; apply Hinc; apply in_or_app; right; exact Hx|exact Hb].
  - inversion Hsh as [|a b Ha Hb]; subst. constructor; [exact I|apply IH; assumption].
  - inversion Hsh as [|a b Ha Hb]; subst. constructor; [|apply IH; assumption].
    cbn [fst lelem_ok]. destruct (org_kw_facts kw Hkw) as [K1 [K2 [K3 _]]]. unfold dir_ok. repeat split; try assumption; try apply K1.
    + apply etoks_terms.
    + apply etoks_nonempty.
Qed.

Lemma repeat_nl_plain k : Forall plainword (repeat nl_tok k).
Proof. induction k; cbn [repeat]; constructor; [intros X; discriminate X|assumption]. Qed.

Lemma rd_plain org ils0 es : renders_doc spell org ils0 es -> incl (flat_map il_labels ils0) (map fst lbs) ->
  Forall (fun l => Forall (known cf lbs) (line_names l)) ils0 -> org_known org -> Forall plainword (body es).
Proof.
  induction 1 as [|org l ils1 t k es Hl _ IH|org c k ils1 es _ _ IH|e kw cmt k ils1 es Hkw _ _ IH]; intros Hinc Hk Ho; [constructor| | |].
  - inversion Hk as [|a b Ha Hb]; subst. cbn [body lelem_toks]. cbn [flat_map] in Hinc. apply Forall_app. split.
    + apply (tline_plain l t); [intros x Hx; apply Hinc; apply in_or_app; left; exact Hx|exact Hl|exact Ha].
    + apply Forall_app. split; [apply repeat_nl_plain|]. apply IH; [intros x Hx; apply Hinc; apply in_or_app; right; exact Hx|exact Hb|exact Ho].
  - cbn [body lelem_toks]. cbn [app]. constructor; [intros X; discriminate X|].
    apply Forall_app. split; [apply repeat_nl_plain|apply IH; assumption].
  - cbn [body lelem_toks]. destruct (org_kw_facts kw Hkw) as [_ [_ [_ [K4 K5]]]].
    cbn [app]. constructor; [intros _; split; assumption|]. rewrite <- app_assoc. apply Forall_app. split; [apply expr_plain; exact Ho|].
    apply Forall_app. split; [apply cmt_plain|]. apply Forall_app. split; [apply repeat_nl_plain|apply IH; [exact Hinc|exact Hk|exact I]].
Qed.

Lemma rd_refs (S : text -> Prop) org ils0 es : renders_doc spell org ils0 es ->
  Forall (fun l => Forall (known cf lbs) (line_names l)) ils0 -> org_known org -> (forall id, known cf lbs id -> S (spell id)) ->
  forall rf, (forall r, In r rf -> S r) -> forall r, In r (drefs rf es) -> S r.
Proof.
  induction 1 as [|org l ils1 t k es Hl _ IH|org c k ils1 es _ _ IH|e kw cmt k ils1 es _ _ _ IH]; intros Hk Ho HS rf Hrf; cbn [drefs]; [exact Hrf| | |].
  - inversion Hk as [|a b Ha Hb]; subst. apply (IH Hb Ho HS). apply (refs_line l t rf S Hl Ha HS Hrf).
  - apply (IH Hk Ho HS rf Hrf).
  - apply (IH Hk I HS). apply expr_refs; assumption.
Qed.
End Glue.

(* ---------- from the text to the instructions ---------- *)
Lemma nodup_app (A : Type) (a b : list A) : NoDup a -> NoDup b -> (forall x, In x a -> ~ In x b) -> NoDup (a ++ b).
Proof.
  induction a as [|x a IH]; intros Ha Hb Hd; [exact Hb|]. inversion Ha as [|y z Hx Hy]; subst. cbn [app]. constructor.
  - intros Hin. apply in_app_or in Hin. destruct Hin as [Hin|Hin]; [contradiction|]. apply (Hd x); [left; reflexivity|exact Hin].
  - apply IH; [exact Hy|exact Hb|]. intros w Hw. apply Hd. right. exact Hw.
Qed.

Section End2End.
Variable spell : N -> text.
Variable cfg : config.
Notation cf := (mconf_of cfg).

(* a document, with or without an END line *)
Definition doc_tokens (lead : nat) (es : list (lelem * nat)) (xo : option endline) : list token :=
  match xo with Some x => ldoc_end_toks lead es x | None => ldoc_toks lead es end.
Definition line_ends_ok (es : list (lelem * nat)) (xo : option endline) : Prop :=
  match xo with Some _ => Forall (fun xk => (1 <= snd xk)%nat) es | None => ends_ok es end.
Definition renders_tail (pend : option nexpr) (elabs : list N) (nlines : nat) (xo : option endline) : Prop :=
  match xo with
  | Some x => renders_end spell pend elabs x /\ (match en_labs x with [] | LName _ :: _ => True | _ => False end) /\
              (elabs = [] \/ Z.of_nat nlines < Z.of_N (c_size cfg))
  | None => pend = None /\ elabs = []
  end.

Theorem program_tokens org pend elabs ils es xo lead nm au code start inp :
  validate cfg = true ->
  spell_ok spell (flat_map il_labels ils ++ elabs) ->
  renders_doc spell org ils es -> shape_ok es -> line_ends_ok es xo -> renders_tail pend elabs (length ils) xo ->
  match org with Some e => nok e | None => True end ->
  meaning cf (mkProg (map IInstr ils) org pend nm au elabs) = MOk code start ->
  lex_ascii inp = Some (doc_tokens lead es xo) ->
  compile_warrior cfg inp = COk code start (dmeta (mkPM [] [] []) es).
Proof.
  intros Hv Hsp0 Hrd Hsh Hends Htail Horg Hmean Hlex.
  set (n := Z.of_nat (length ils)).
  set (lbs := lab_pairs 0 ils ++ end_pairs n elabs).
  assert (Hkeys : map fst lbs = flat_map il_labels ils ++ elabs).
  { unfold lbs. rewrite map_app, lab_pairs_keys. f_equal. unfold end_pairs. rewrite map_map. cbn [fst]. apply map_id. }
  assert (Hsp : spell_ok spell (map fst lbs)) by (rewrite Hkeys; exact Hsp0).
  assert (Hinc : incl (flat_map il_labels ils) (map fst lbs)) by (rewrite Hkeys; intros x Hx; apply in_or_app; left; exact Hx).
  assert (Hpnok : match pend with Some e => nok e | None => True end).
  { destruct pend as [e|]; [|exact I]. destruct xo as [x|]; [|destruct Htail as [Hp _]; discriminate Hp].
    destruct Htail as [[_ [_ [_ Hn]]] _]. exact Hn. }
  (* what the meaning says about the names *)
  assert (Hfacts : Forall (fun l => Forall (known cf lbs) (line_names l)) ils /\ org_known cfg lbs org /\ org_known cfg lbs pend).
  { pose proof Hmean as Hm2. unfold meaning in Hm2. cbn [pr_items pr_end_labels pr_org pr_end] in Hm2.
    rewrite collect_instrs in Hm2. cbn [app] in Hm2. rewrite assertions_instrs in Hm2. rewrite Z.add_0_l in Hm2.
    fold n in Hm2. change (map (fun id => (id, n)) elabs) with (end_pairs n elabs) in Hm2. fold lbs in Hm2.
    destruct (meaning_code cf [] lbs 0 ils []) as [code' s'| |] eqn:Emc; try discriminate.
    split; [apply (rd_known spell cfg lbs org ils es Hrd 0 [] code' s' Emc)|].
    destruct (mf_len cf <? Z.of_nat (length code')); [discriminate|].
    assert (G : forall e, nok e ->
              match value_at cf [] lbs 0 e with
              | MV v => if (v <? 0) || (negb (v =? 0) && (Z.of_nat (length code') <=? v)) then MReject else MOk code' v
              | MErr => MReject
              | MAny => MUnconstrained
              end = MOk code start -> Forall (known cf lbs) (names e)).
    { intros e He H. destruct (value_at cf [] lbs 0 e) as [v| |] eqn:Ev; try discriminate. apply (value_at_spec cf lbs 0 e v He Ev). }
    destruct org as [eo|], pend as [ep|]; try discriminate; cbn [org_known]; split; try exact I.
    - apply (G eo Horg Hm2).
    - apply (G ep Hpnok Hm2). }
  destruct Hfacts as [Hknown [Hko Hkp]].
  pose proof (rd_ok spell lbs Hsp org ils es Hrd Hinc Hsh) as Hok.
  pose proof (rd_plain spell cfg lbs Hsp org ils es Hrd Hinc Hknown Hko) as Hpl.
  assert (HS : forall id, known cf lbs id -> In (spell id) (predefined ++ map spell (map fst lbs))).
  { intros id Hk. apply (known_spelled spell cfg lbs Hsp id Hk). }
  assert (Hnd : NoDup (predefined ++ map spell (map fst lbs))).
  { destruct Hsp as [_ Hlab Hinj Hnd _]. apply nodup_app.
    - unfold predefined. repeat constructor; cbn [In]; intros H; repeat (destruct H as [H|H]; [discriminate H|]); exact H.
    - apply NoDup_map_spell; assumption.
    - intros x Hx Hin. apply in_map_iff in Hin. destruct Hin as [id [<- Hid]]. apply (proj2 (Hlab id Hid)). exact Hx. }
  assert (Hrefs0 : forall r, In r (drefs [] es) -> In r (predefined ++ map spell (map fst lbs))).
  { apply (rd_refs spell cfg lbs (fun r => In r (predefined ++ map spell (map fst lbs))) org ils es Hrd Hknown Hko HS). intros r []. }
  rewrite Hkeys, map_app in Hnd, Hrefs0, HS. rewrite <- (rd_names spell org ils es Hrd) in Hnd, Hrefs0, HS.
  unfold compile_warrior. rewrite Hlex.
  destruct xo as [x|]; cbn [doc_tokens line_ends_ok renders_tail] in *.
  - (* with an END line *)
    destruct Htail as [Hre [Hxsh Hbound]]. pose proof Hre as [Hxl [Hxkw Hxe]].
    assert (Hex : en_e x = match pend with Some e => etoks spell e | None => [] end) by (destruct pend; [apply Hxe|exact Hxe]).
    assert (Hxok : end_ok x).
    { split; [exact Hxsh|]. split; [rewrite Hxl; apply (spelled_labels spell lbs Hsp); rewrite Hkeys; intros y Hy; apply in_or_app; right; exact Hy|].
      split; [|split; [exact Hxkw|]].
      - split; [reflexivity|]. unfold tok_is_op, tok_is_pseudo, is_pseudo_text. cbn [t_typ t_val]. unfold lower_is in Hxkw. rewrite Hxkw. rewrite !orb_true_r. reflexivity.
      - rewrite Hex. destruct pend; [apply etoks_terms|constructor]. }
    assert (Hplx : Forall plainword (end_toks x)).
    { unfold end_toks. apply Forall_app. split.
      - apply (labs_plain spell lbs Hsp elabs); [rewrite Hkeys; intros y Hy; apply in_or_app; right; exact Hy|exact Hxl].
      - constructor.
        + intros _. unfold lower_is in *. apply text_eqb_eq in Hxkw. cbn [t_val]. rewrite Hxkw. split; reflexivity.
        + apply Forall_app. split; [rewrite Hex; destruct pend as [e|]; [apply (expr_plain spell cfg lbs Hsp); exact Hkp|constructor]|].
          apply Forall_app. split; [apply cmt_plain|apply repeat_nl_plain]. }
    assert (Hplain : Forall plainword (ldoc_end_toks lead es x)).
    { unfold ldoc_end_toks. apply Forall_app. split; [apply repeat_nl_plain|]. apply Forall_app. split; [exact Hpl|].
      apply Forall_app. split; [exact Hplx|]. constructor; [intros X; discriminate X|constructor]. }
    destruct (front_plain cfg _ (ldoc_end_closed lead es x Hok Hxok) Hplain) as [F1 F2].
    rewrite F1. cbn [negb]. rewrite F2.
    rewrite <- Hxl in Hnd, HS.
    assert (Hrefs : forall r, In r (add_refs (drefs [] es) (en_e x)) -> In r (predefined ++ dnames es ++ lnames (en_labs x))).
    { rewrite Hex. destruct pend as [e|].
      - apply (expr_refs spell cfg lbs (fun r => In r (predefined ++ dnames es ++ lnames (en_labs x))) e); [exact Hkp|exact HS|].
        intros r Hr. rewrite Hxl. apply Hrefs0. exact Hr.
      - cbn [add_refs fold_left]. intros r Hr. rewrite Hxl. apply Hrefs0. exact Hr. }
    destruct (parse_ldoc_end lead es x Hok Hends Hxok Hnd Hrefs) as [lines [Hparse Hess]].
    rewrite Hparse.
    apply (compile_program spell cfg org pend elabs ils es (Some x) lines _ nm au code start Hv Hrd Hsp0 (conj Hre Hbound) Horg Hess Hmean).
  - (* without *)
    destruct Htail as [-> ->]. cbn [map] in Hnd, Hrefs0. rewrite app_nil_r in Hnd, Hrefs0.
    assert (Hplain : Forall plainword (ldoc_toks lead es)).
    { unfold ldoc_toks. apply Forall_app. split; [apply repeat_nl_plain|]. apply Forall_app. split; [exact Hpl|].
      constructor; [intros X; discriminate X|constructor]. }
    destruct (front_plain cfg _ (ldoc_closed lead es Hok) Hplain) as [F1 F2].
    rewrite F1. cbn [negb]. rewrite F2.
    destruct (parse_ldoc lead es Hok Hends Hnd Hrefs0) as [lines [Hparse Hess]].
    rewrite Hparse. rewrite <- (app_nil_r (elines 0 es)) in Hess.
    apply (compile_program spell cfg org None [] ils es None lines _ nm au code start Hv Hrd Hsp0 (conj eq_refl eq_refl) Horg Hess Hmean).
Qed.

(* the same for a text given by its lexemes, with any white space between them *)
Theorem program_text org pend elabs ils es xo lead nm au code start its tail :
  validate cfg = true ->
  spell_ok spell (flat_map il_labels ils ++ elabs) ->
  renders_doc spell org ils es -> shape_ok es -> line_ends_ok es xo -> renders_tail pend elabs (length ils) xo ->
  match org with Some e => nok e | None => True end ->
  meaning cf (mkProg (map IInstr ils) org pend nm au elabs) = MOk code start ->
  Forall (fun x => is_space_a x = true) tail -> tail <> [] -> items_ok its tail ->
  flat_map item_toks its ++ newlines tail ++ [tEOF] = doc_tokens lead es xo ->
  compile_warrior cfg (flat_map item_text its ++ tail) = COk code start (dmeta (mkPM [] [] []) es).
Proof.
  intros Hv Hsp Hrd Hsh Hends Htail Horg Hmean Ht Hne Hits Htoks.
  apply (program_tokens org pend elabs ils es xo lead nm au code start _ Hv Hsp Hrd Hsh Hends Htail Horg Hmean).
  rewrite (lex_items its tail Ht Hne Hits). rewrite Htoks. reflexivity.
Qed.
End End2End.
