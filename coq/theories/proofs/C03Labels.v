(* C03Labels.v — from a source text to the instructions it denotes, for programs of
   labelled instructions: lexer (any spacing), scanner and expander (nothing to expand),
   parser (C03Parse), compiler (C03Compile) against the reference meaning. *)
From GM Require Import Base Text Token Lexer Scanner ExprSpec ExprEval ForExpand Parser Sim Compile
     Prog Meaning AsmSpec C03Lexer C05Lexer C03Proof C07Model C10Proof C14Proof ScanProof
     C16Proof C09Parse C09Asm C09GenCompile C09GenLex C03Parse C03Compile.
From Coq Require Import Lia.
Open Scope Z_scope.

Definition plainword (t : token) : Prop :=
  t_typ t = tokText -> lower_is (t_val t) "for" = false /\ lower_is (t_val t) "equ" = false.

(* nothing for the expander to do: the passes hand the tokens on *)
Lemma front_plain cfg toks : closed_stream toks -> Forall plainword toks ->
  counts_modelled toks None = true /\ pass_loop cfg (S max_for_passes) toks = Some (Some toks).
Proof.
  intros C P. split; [apply counts_modelled_plain; exact P|].
  destruct (scan_input_plain _ C P) as [syms Es].
  change (pass_loop cfg (S max_for_passes) toks)
    with (match scan_input toks with
          | None => None
          | Some None => Some None
          | Some (Some (syms, for_seen)) =>
            if for_seen then
              match for_expand toks (with_constants cfg syms) with
              | None => None
              | Some None => None
              | Some (Some r) => pass_loop cfg max_for_passes (fr_tokens r)
              end
            else Some (Some toks)
          end).
  rewrite Es. reflexivity.
Qed.

Lemma not_pseudo_plain s : is_pseudo_text s = false -> lower_is s "for" = false /\ lower_is s "equ" = false.
Proof.
  unfold is_pseudo_text, lower_is. cbv zeta. intros H.
  destruct (text_eqb (lower s) (s2t "equ")); [rewrite ?orb_true_r in H; discriminate H|].
  destruct (text_eqb (lower s) (s2t "for")); [rewrite ?orb_true_r in H; discriminate H|]. auto.
Qed.
Lemma label_not_pseudo n : label_name n -> is_pseudo_text n = false.
Proof.
  unfold label_name, tok_is_op, tok_is_pseudo. cbn [t_typ t_val]. intros H.
  destruct (is_pseudo_text n); [rewrite orb_true_r in H; discriminate H|reflexivity].
Qed.

Section Glue.
Variable spell : N -> text.
Variable cfg : config.
Variable ils : list Prog.iline.
Notation cf := (mconf_of cfg).
Notation ls := (lab_pairs 0 ils).
Notation ids := (flat_map il_labels ils).
Hypothesis Hsp : spell_ok spell ids.

(* a known name is spelt as a predefined word or as one of the program's labels, and is no keyword *)
Lemma known_spelled id : known cf ls id ->
  In (spell id) (predefined ++ map spell ids) /\ is_pseudo_text (spell id) = false.
Proof.
  destruct Hsp as [[P1 [P2 [P3 P4]]] Hlab Hinj Hnd _]. unfold known, predefined_value.
  destruct (N.eqb_spec id ID_CORESIZE) as [->|N1]; [intros _; rewrite P1; split; [cbn; auto|reflexivity]|].
  destruct (N.eqb_spec id ID_MAXLENGTH) as [->|N2]; [intros _; rewrite P2; split; [cbn; auto|reflexivity]|].
  destruct (N.eqb_spec id ID_MAXPROCESSES) as [->|N3]; [intros _; rewrite P3; split; [cbn; auto|reflexivity]|].
  destruct (N.eqb_spec id ID_MINDISTANCE) as [->|N4]; [intros _; rewrite P4; split; [cbn; auto 10|reflexivity]|].
  intros [H|H]; [congruence|].
  destruct (lab_find' id ls) as [a|] eqn:Ea; [|congruence].
  pose proof (lab_find'_in _ _ _ Ea) as Hin. rewrite lab_pairs_keys in Hin. split.
  - apply in_or_app. right. apply in_map. exact Hin.
  - apply label_not_pseudo. apply (Hlab id Hin).
Qed.

(* the names in the operands of a line *)
Definition line_names (l : Prog.iline) : list N :=
  names (o_expr (il_a l)) ++ match il_b l with Some b => names (o_expr b) | None => [] end.

Lemma meaning_line_known lbs l t i x : renders_line spell l t -> instr_meaning cf [] lbs i l = MI x ->
  Forall (known cf lbs) (line_names l).
Proof.
  intros [_ [_ [[_ [_ Ha]] Hb]]] H. unfold instr_meaning in H. cbv zeta in H.
  destruct (if mf_legacy cf then _ else _) as [md|]; [|discriminate].
  destruct (value_at cf [] lbs i (o_expr (il_a l))) as [av| |] eqn:Eva; try discriminate.
  destruct (value_at_spec cf lbs i _ av Ha Eva) as [Ka _]. unfold line_names. apply Forall_app. split; [exact Ka|].
  destruct (il_b l) as [b|]; [|constructor]. destruct (tl_B t) as [[bm B]|]; [|destruct Hb].
  destruct Hb as [_ [_ Hb]].
  destruct (value_at cf [] lbs i (o_expr b)) as [bv| |] eqn:Evb; try discriminate.
  apply (value_at_spec cf lbs i _ bv Hb Evb).
Qed.

Lemma rd_known lbs ils0 es : renders_doc spell ils0 es -> forall i acc code s,
  meaning_code cf [] lbs i ils0 acc = MOk code s -> Forall (fun l => Forall (known cf lbs) (line_names l)) ils0.
Proof.
  induction 1 as [|l ils1 t k es Hl _ IH|c k ils1 es _ _ IH]; intros i acc code s H.
  - constructor.
  - cbn [meaning_code] in H. destruct (instr_meaning cf [] lbs i l) as [x| |] eqn:Ei; try discriminate.
    constructor; [apply (meaning_line_known lbs l t i x Hl Ei)|apply (IH _ _ _ _ H)].
  - apply (IH _ _ _ _ H).
Qed.

(* ---------- tokens of rendered expressions ---------- *)
Lemma etoks_text e t : In t (etoks spell e) -> t_typ t = tokText -> exists id, In id (names e) /\ t_val t = spell id.
Proof.
  unfold etoks. induction e as [n|id|e IH|m e IH|o a IHa b IHb]; cbn [nprint map names In]; intros Hin Ht.
  - destruct Hin as [<-|[]]. discriminate Ht.
  - destruct Hin as [<-|[]]. exists id. split; [left; reflexivity|reflexivity].
  - destruct Hin as [<-|Hin]; [discriminate Ht|]. rewrite map_app in Hin. apply in_app_or in Hin.
    destruct Hin as [Hin|[<-|[]]]; [apply IH; assumption|discriminate Ht].
  - destruct Hin as [<-|Hin]; [destruct m; discriminate Ht|apply IH; assumption].
  - rewrite map_app in Hin. apply in_app_or in Hin. destruct Hin as [Hin|[<-|Hin]].
    + destruct (IHa Hin Ht) as [id [H1 H2]]. exists id. split; [apply in_or_app; left; exact H1|exact H2].
    + destruct o; discriminate Ht.
    + destruct (IHb Hin Ht) as [id [H1 H2]]. exists id. split; [apply in_or_app; right; exact H1|exact H2].
Qed.
Lemma etoks_terms e : Forall term_tok (etoks spell e).
Proof.
  unfold etoks. apply Forall_forall. intros t Hin. apply in_map_iff in Hin. destruct Hin as [x [<- _]].
  destruct x as [[n|o| |]|id]; reflexivity.
Qed.
Lemma nprint_head e : exists h r, nprint e = h :: r /\
  match h with TE (ENum _) | TN _ | TE ELp | TE (EOp OAdd) | TE (EOp OSub) => True | _ => False end.
Proof.
  induction e as [n|id|e IH|m e IH|o a IHa b IHb]; cbn [nprint].
  - eexists _, _. split; [reflexivity|exact I].
  - eexists _, _. split; [reflexivity|exact I].
  - eexists _, _. split; [reflexivity|exact I].
  - eexists _, _. split; [reflexivity|destruct m; exact I].
  - destruct IHa as [h [r [E H]]]. rewrite E. cbn [app]. eexists _, _. split; [reflexivity|exact H].
Qed.
Lemma operand_rendered o m toks : renders_operand spell o m toks -> operand_ok m toks.
Proof.
  intros [-> [-> _]]. split; [apply etoks_terms|]. split; [apply etoks_nonempty|].
  destruct (o_mode o) as [a|]; cbn [option_map].
  - apply (amode_tok a).
  - unfold etoks. destruct (nprint_head (o_expr o)) as [h [r [E H]]]. rewrite E. cbn [map hd].
    destruct h as [[n|[]| |]|id]; try destruct H; split; try reflexivity.
    + unfold val_is. cbn [ntok_tok inj t_val]. apply digits_not_char; [apply dec_of_N_spec|reflexivity].
    + unfold val_is. cbn [ntok_tok t_val]. apply text_eqb_neq. apply (sp_word _ _ Hsp).
Qed.

Definition labs_ok (t : tline) : Prop := match tl_labs t with [] | LName _ :: _ => True | _ => False end.

Lemma tline_rendered l t : In l ils -> renders_line spell l t -> labs_ok t -> tline_ok t.
Proof.
  intros Hin [Hl [Hop [Ha Hb]]] Hsh. split; [exact Hsh|]. split; [|split; [apply (optext_tok _ _ _ Hop)|split; [apply (operand_rendered _ _ _ Ha)|]]].
  - rewrite Hl. apply Forall_forall. intros n Hn. apply in_map_iff in Hn. destruct Hn as [id [<- Hid]].
    apply (sp_lab _ _ Hsp id). apply in_flat_map. exists l. split; assumption.
  - destruct (il_b l) as [b|], (tl_B t) as [[bm B]|]; try destruct Hb; try exact I. apply (operand_rendered b bm B). split; assumption.
Qed.

(* the words of a rendered line are no keywords of the expander *)
Lemma tline_plain l t : In l ils -> renders_line spell l t -> Forall (known cf ls) (line_names l) -> Forall plainword (tline_toks t).
Proof.
  intros Hin [Hl [Hop [[Ea1 [Ea2 _]] Hb]]] Hk.
  assert (Hexpr : forall e, Forall (known cf ls) (names e) -> Forall plainword (etoks spell e)).
  { intros e He. apply Forall_forall. intros tk Htk Ht. destruct (etoks_text e tk Htk Ht) as [id [H1 H2]].
    rewrite H2. apply not_pseudo_plain. rewrite Forall_forall in He. apply (known_spelled id (He id H1)). }
  assert (Hmode : forall m, Forall plainword (mode_toks m)) by (intros [a|]; cbn [mode_toks]; [constructor; [intros X; discriminate X|constructor]|constructor]).
  unfold line_names in Hk. apply Forall_app in Hk. destruct Hk as [Ka Kb].
  unfold tline_toks, tline_head, tline_last. repeat (apply Forall_app; split).
  - apply Forall_forall. intros tk Htk Ht. apply in_map_iff in Htk. destruct Htk as [x [<- Hx]].
    destruct x as [n| |]; try discriminate Ht. cbn [ltok_tok t_val]. apply not_pseudo_plain. apply label_not_pseudo.
    assert (Hn : In n (lnames (tl_labs t))) by (unfold lnames; apply in_flat_map; exists (LName n); split; [exact Hx|left; reflexivity]).
    rewrite Hl in Hn. apply in_map_iff in Hn. destruct Hn as [id [<- Hid]]. apply (sp_lab _ _ Hsp id). apply in_flat_map. exists l. split; assumption.
  - constructor.
    + intros _. apply not_pseudo_plain. destruct (optext_tok _ _ _ Hop) as [_ [_ Hp]]. exact Hp.
    + apply Forall_app. split; [apply Hmode|].
      destruct (il_b l) as [b|], (tl_B t) as [[bm B]|]; try destruct Hb; try constructor.
      apply Forall_app. split; [rewrite Ea2; apply Hexpr; exact Ka|]. constructor; [intros X; discriminate X|apply Hmode].
  - destruct (il_b l) as [b|], (tl_B t) as [[bm B]|]; try destruct Hb.
    + destruct H0 as [-> _]. apply Hexpr. exact Kb.
    + rewrite Ea2. apply Hexpr. exact Ka.
  - destruct (tl_cmt t) as [c0|]; cbn [cmt_toks]; [constructor; [intros X; discriminate X|constructor]|constructor].
Qed.

(* ---------- the names referred to ---------- *)
Lemma add_refs_sub (S : text -> Prop) e : forall rf, (forall r, In r rf -> S r) ->
  (forall t, In t e -> t_typ t = tokText -> S (t_val t)) -> forall r, In r (add_refs rf e) -> S r.
Proof.
  induction e as [|t e IH]; intros rf Hrf He r Hr; [apply Hrf; exact Hr|].
  cbn [add_refs fold_left] in Hr. apply (IH (add_ref rf t)); [| |exact Hr].
  - intros r0 H0. unfold add_ref in H0. destruct (t_typ t) eqn:Et; try (apply Hrf; exact H0).
    destruct (mem_text (t_val t) rf); [apply Hrf; exact H0|]. apply in_app_or in H0. destruct H0 as [H0|[<-|[]]]; [apply Hrf; exact H0|].
    apply He; [left; reflexivity|exact Et].
  - intros t0 H0. apply He. right. exact H0.
Qed.

Lemma refs_line l t rf (S : text -> Prop) : renders_line spell l t -> Forall (known cf ls) (line_names l) ->
  (forall id, known cf ls id -> S (spell id)) -> (forall r, In r rf -> S r) -> forall r, In r (refs_after rf t) -> S r.
Proof.
  intros [_ [_ [[_ [Ea2 _]] Hb]]] Hk HS Hrf. unfold line_names in Hk. apply Forall_app in Hk. destruct Hk as [Ka Kb].
  assert (Hexpr : forall e, Forall (known cf ls) (names e) -> forall tk, In tk (etoks spell e) -> t_typ tk = tokText -> S (t_val tk)).
  { intros e He tk Htk Ht. destruct (etoks_text e tk Htk Ht) as [id [H1 H2]]. rewrite H2. apply HS.
    rewrite Forall_forall in He. apply He. exact H1. }
  unfold refs_after, refs_mid, tline_last.
  destruct (il_b l) as [b|], (tl_B t) as [[bm B]|]; try destruct Hb.
  - destruct H0 as [-> _]. apply add_refs_sub; [|apply Hexpr; exact Kb]. apply add_refs_sub; [exact Hrf|rewrite Ea2; apply Hexpr; exact Ka].
  - apply add_refs_sub; [exact Hrf|rewrite Ea2; apply Hexpr; exact Ka].
Qed.
End Glue.

(* ---------- whole documents ---------- *)
Section End2End.
Variable spell : N -> text.
Variable cfg : config.
Variable ils : list Prog.iline.
Notation cf := (mconf_of cfg).
Notation ls := (lab_pairs 0 ils).
Notation ids := (flat_map il_labels ils).
Hypothesis Hsp : spell_ok spell ids.

Definition shape_ok (es : list (lelem * nat)) : Prop :=
  Forall (fun xk => match fst xk with LInstr t => labs_ok t | LComment _ => True end) es.

Lemma rd_ok ils0 es : renders_doc spell ils0 es -> incl ils0 ils -> shape_ok es -> Forall (fun xk => lelem_ok (fst xk)) es.
Proof.
  induction 1 as [|l ils1 t k es Hl _ IH|c k ils1 es _ _ IH]; intros Hinc Hsh; [constructor| |].
  - inversion Hsh as [|a b Ha Hb]; subst. cbn [fst] in Ha. constructor.
    + cbn [fst lelem_ok]. apply (tline_rendered spell ils Hsp l t); [apply Hinc; left; reflexivity|exact Hl|exact Ha].
    + apply IH; [intros x Hx; apply Hinc; right; exact Hx|exact Hb].
  - inversion Hsh as [|a b Ha Hb]; subst. constructor; [exact I|apply IH; assumption].
Qed.

Lemma repeat_nl_plain k : Forall plainword (repeat nl_tok k).
Proof. induction k; cbn [repeat]; constructor; [intros X; discriminate X|assumption]. Qed.

Lemma rd_plain ils0 es : renders_doc spell ils0 es -> incl ils0 ils ->
  Forall (fun l => Forall (known cf ls) (line_names l)) ils0 -> Forall plainword (body es).
Proof.
  induction 1 as [|l ils1 t k es Hl _ IH|c k ils1 es _ _ IH]; intros Hinc Hk; [constructor| |].
  - inversion Hk as [|a b Ha Hb]; subst. cbn [body lelem_toks]. apply Forall_app. split.
    + apply (tline_plain spell cfg ils Hsp l t); [apply Hinc; left; reflexivity|exact Hl|exact Ha].
    + apply Forall_app. split; [apply repeat_nl_plain|]. apply IH; [intros x Hx; apply Hinc; right; exact Hx|exact Hb].
  - cbn [body lelem_toks]. cbn [app]. constructor; [intros X; discriminate X|].
    apply Forall_app. split; [apply repeat_nl_plain|apply IH; assumption].
Qed.

Lemma rd_refs (S : text -> Prop) ils0 es : renders_doc spell ils0 es ->
  Forall (fun l => Forall (known cf ls) (line_names l)) ils0 -> (forall id, known cf ls id -> S (spell id)) ->
  forall rf, (forall r, In r rf -> S r) -> forall r, In r (drefs rf es) -> S r.
Proof.
  induction 1 as [|l ils1 t k es Hl _ IH|c k ils1 es _ _ IH]; intros Hk HS rf Hrf; cbn [drefs]; [exact Hrf| |].
  - inversion Hk as [|a b Ha Hb]; subst. apply (IH Hb HS). apply (refs_line spell cfg ils l t rf S Hl Ha HS Hrf).
  - apply (IH Hk HS rf Hrf).
Qed.

Lemma nodup_app (A : Type) (a b : list A) : NoDup a -> NoDup b -> (forall x, In x a -> ~ In x b) -> NoDup (a ++ b).
Proof.
  induction a as [|x a IH]; intros Ha Hb Hd; [exact Hb|]. inversion Ha as [|y z Hx Hy]; subst. cbn [app]. constructor.
  - intros Hin. apply in_app_or in Hin. destruct Hin as [Hin|Hin]; [contradiction|]. apply (Hd x); [left; reflexivity|exact Hin].
  - apply IH; [exact Hy|exact Hb|]. intros w Hw. apply Hd. right. exact Hw.
Qed.

Lemma names_nodup es : renders_doc spell ils es -> NoDup (predefined ++ dnames es).
Proof.
  intros Hrd. rewrite (rd_names spell ils es Hrd).
  destruct Hsp as [_ Hlab Hinj Hnd _]. apply nodup_app.
  - unfold predefined. repeat constructor; cbn [In]; intros H; repeat (destruct H as [H|H]; [discriminate H|]); exact H.
  - apply NoDup_map_spell; assumption.
  - intros x Hx Hin. apply in_map_iff in Hin. destruct Hin as [id [<- Hid]]. apply (proj2 (Hlab id Hid)). exact Hx.
Qed.

(* the statement: a text whose tokens are those of a document that renders the program is assembled to
   what the program denotes *)
Theorem labels_tokens es lead nm au code start inp :
  validate cfg = true -> renders_doc spell ils es -> shape_ok es -> ends_ok es ->
  meaning cf (mkProg (map IInstr ils) None None nm au []) = MOk code start ->
  lex_ascii inp = Some (ldoc_toks lead es) ->
  compile_warrior cfg inp = COk code start (dmeta (mkPM [] [] []) es).
Proof.
  intros Hv Hrd Hsh Hends Hmean Hlex.
  (* every name in an operand is known, since the program has a meaning *)
  assert (Hknown : Forall (fun l => Forall (known cf ls) (line_names l)) ils).
  { unfold meaning in Hmean. cbn [pr_items pr_end_labels pr_org pr_end map] in Hmean.
    rewrite collect_instrs in Hmean. cbn [app] in Hmean. rewrite app_nil_r in Hmean. rewrite assertions_instrs in Hmean.
    destruct (meaning_code cf [] ls 0 ils []) as [code' s'| |] eqn:Emc; try discriminate.
    apply (rd_known spell cfg ls ils es Hrd 0 [] code' s' Emc). }
  pose proof (rd_ok ils es Hrd (incl_refl _) Hsh) as Hok.
  assert (Hplain : Forall plainword (ldoc_toks lead es)).
  { unfold ldoc_toks. apply Forall_app. split; [apply repeat_nl_plain|]. apply Forall_app. split.
    - apply (rd_plain ils es Hrd (incl_refl _) Hknown).
    - constructor; [intros X; discriminate X|constructor]. }
  destruct (front_plain cfg _ (ldoc_closed lead es Hok) Hplain) as [F1 F2].
  assert (Hrefs : forall r, In r (drefs [] es) -> In r (predefined ++ dnames es)).
  { rewrite (rd_names spell ils es Hrd).
    apply (rd_refs (fun r => In r (predefined ++ map spell ids)) ils es Hrd Hknown).
    - intros id Hk. apply (known_spelled spell cfg ils Hsp id Hk).
    - intros r []. }
  destruct (parse_ldoc lead es Hok Hends (names_nodup es Hrd) Hrefs) as [lines [Hparse Hess]].
  unfold compile_warrior. rewrite Hlex, F1. cbn [negb]. rewrite F2, Hparse.
  apply (compile_labels spell cfg ils es lines _ nm au code start Hv Hrd Hsp Hess Hmean).
Qed.

(* the same for a text given by its lexemes, with any white space between them *)
Theorem labels_text es lead nm au code start its tail :
  validate cfg = true -> renders_doc spell ils es -> shape_ok es -> ends_ok es ->
  meaning cf (mkProg (map IInstr ils) None None nm au []) = MOk code start ->
  Forall (fun x => is_space_a x = true) tail -> tail <> [] -> items_ok its tail ->
  flat_map item_toks its ++ newlines tail ++ [tEOF] = ldoc_toks lead es ->
  compile_warrior cfg (flat_map item_text its ++ tail) = COk code start (dmeta (mkPM [] [] []) es).
Proof.
  intros Hv Hrd Hsh Hends Hmean Ht Hne Hits Htoks.
  apply (labels_tokens es lead nm au code start _ Hv Hrd Hsh Hends Hmean).
  rewrite (lex_items its tail Ht Hne Hits). rewrite Htoks. reflexivity.
Qed.

End End2End.
