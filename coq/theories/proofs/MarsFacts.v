(* MarsFacts.v — structural facts about the reference scheduler. *)
From GM Require Import Base Emi94 Mars.
From Coq Require Import Lia.
Open Scope N_scope.

Lemma replace_nth_length {A} (l : list A) i x : length (replace_nth l i x) = length l.
Proof. revert i. induction l as [|h t IH]; intros [|i]; cbn; auto. Qed.

Lemma m_cycle_from_facts cfg k : forall i s tr,
  let '(s', early, _) := m_cycle_from cfg k i s tr in
  length (m_ws s') = length (m_ws s) /\ m_cycles s' = m_cycles s /\
  (early = true -> (1 < length (m_ws s))%nat /\ m_living s' = 1%nat).
Proof.
  induction k as [|k IH]; intros i s tr; cbn [m_cycle_from].
  { split; [reflexivity|]. split; [reflexivity|discriminate]. }
  destruct (nth_error (m_ws s) i) as [w|]; [|split; [reflexivity|split; [reflexivity|discriminate]]].
  destruct (mw_st w); try apply IH.
  destruct (mw_q w) as [|pc q]; [apply IH|].
  destruct (step_core _ _ _ _ _) as [c' succs].
  destruct (enq _ q succs) as [|x xs].
  - match goal with |- context [if ?b then _ else _] => destruct b eqn:Hb end.
    + cbn [m_ws m_cycles]. rewrite replace_nth_length. split; [reflexivity|]. split; [reflexivity|].
      intros _. apply andb_prop in Hb. destruct Hb as [H1 H2].
      apply Nat.ltb_lt in H1. apply Nat.eqb_eq in H2. auto.
    + match goal with |- context [m_cycle_from cfg k (S i) ?s2 ?tr2] => specialize (IH (S i) s2 tr2) end.
      destruct (m_cycle_from cfg k (S i) _ _) as [[s' early] tr'].
      cbn [m_ws m_cycles] in IH. rewrite replace_nth_length in IH. exact IH.
  - match goal with |- context [m_cycle_from cfg k (S i) ?s2 ?tr2] => specialize (IH (S i) s2 tr2) end.
    destruct (m_cycle_from cfg k (S i) _ _) as [[s' early] tr'].
    cbn [m_ws m_cycles] in IH. rewrite replace_nth_length in IH. exact IH.
Qed.

Lemma m_cycle_facts cfg s :
  let s' := m_cycle cfg s in
  length (m_ws s') = length (m_ws s) /\
  ((m_cycles s' = m_cycles s /\ (1 < length (m_ws s))%nat /\ m_living s' = 1%nat) \/
   m_cycles s' = m_cycles s + 1).
Proof.
  cbv zeta. unfold m_cycle, m_cycle_tr.
  pose proof (m_cycle_from_facts cfg (length (m_ws s)) 0 s []) as F.
  destruct (m_cycle_from cfg (length (m_ws s)) 0 s []) as [[s' early] tr].
  destruct F as (F1 & F2 & F3). destruct early; cbn [fst m_ws m_cycles m_living].
  - split; [assumption|]. left. destruct (F3 eq_refl). auto.
  - split; [assumption|]. right. now rewrite F2.
Qed.

Lemma m_load_congr M c off off' code :
  0 < M -> off mod M = off' mod M -> m_load M c off code = m_load M c off' code.
Proof.
  intros HM. revert c off off'. induction code as [|x t IH]; intros c off off' E; cbn [m_load]; [reflexivity|].
  rewrite E. apply IH.
  rewrite <- (N.add_mod_idemp_l off 1), <- (N.add_mod_idemp_l off' 1) by lia. now rewrite E.
Qed.

