(* C07Model.v — evaluateExpression (expr.go) on the tokens of a printed
   expression: the literal model of combineSigns / flipDoubleNegatives is the
   state machine / rewriting of C07Signs, so the value is the denotation. *)
From GM Require Import Base Text Token Lexer Scanner ExprSpec ExprEval C07Parser C07Signs C16Proof.
From Coq Require Import Lia.
Open Scope Z_scope.

Definition bop_text (o : bop) : text :=
  match o with OAdd => [43] | OSub => [45] | OMul => [42] | ODiv => [47] | OMod => [37] end%N.
Definition inj (t : etok) : token :=
  match t with
  | ENum n => mkT tokNumber (dec_of_N (Z.to_N n))
  | EOp o => mkT tokSymbol (bop_text o)
  | ELp => mkT tokParenL [40%N]
  | ERp => mkT tokParenR [41%N]
  end.
Definition nonneg_tok (t : etok) : Prop := match t with ENum n => 0 <= n | _ => True end.

Lemma to_etok_inj t : nonneg_tok t -> to_etok (inj t) = Some t.
Proof.
  destruct t as [n|o| |]; cbn [inj to_etok t_typ t_val nonneg_tok]; intros H; try reflexivity.
  - rewrite parse_digits_dec. rewrite Z2N.id by exact H. reflexivity.
  - destruct o; reflexivity.
Qed.
Lemma to_etoks_inj l : Forall nonneg_tok l -> to_etoks (map inj l) = Some l.
Proof.
  intros H. induction H as [|t l Ht _ IH]; [reflexivity|].
  cbn [map to_etoks]. rewrite to_etok_inj by exact Ht. rewrite IH. reflexivity.
Qed.

Lemma digits_not_char l x : all_digits l -> is_digit_a x = false -> text_eqb l [x] = false.
Proof.
  intros D Hx. destruct l as [|c l']; [reflexivity|]. inversion D as [|y z Hc Hl]; subst.
  unfold text_eqb. destruct (N.eqb_spec c x) as [->|Hne]; [congruence|reflexivity].
Qed.
Lemma val_is_minus t : val_is (inj t) 45 = is_minus t.
Proof. destruct t as [n|[]| |]; try reflexivity. unfold val_is. cbn [inj t_val is_minus].
  apply digits_not_char; [apply dec_of_N_spec|reflexivity].
Qed.
Lemma val_is_plus t : val_is (inj t) 43 = is_plus t.
Proof. destruct t as [n|[]| |]; try reflexivity. unfold val_is. cbn [inj t_val is_plus].
  apply digits_not_char; [apply dec_of_N_spec|reflexivity].
Qed.
Lemma is_sym_inj t : ttype_eqb (t_typ (inj t)) tokSymbol = is_opt t.
Proof. destruct t; reflexivity. Qed.

(* ---------- combineSigns ---------- *)
Fixpoint swallow_e (l : list etok) (neg : bool) : bool * list etok :=
  match l with
  | t :: r => if is_minus t then swallow_e r (negb neg) else if is_plus t then swallow_e r neg else (neg, l)
  | [] => (neg, [])
  end.
Lemma swallow_inj l : forall neg, swallow (map inj l) neg = (fst (swallow_e l neg), map inj (snd (swallow_e l neg))).
Proof.
  induction l as [|t r IH]; intros neg; [reflexivity|].
  cbn [map swallow swallow_e]. rewrite val_is_minus, val_is_plus.
  destruct (is_minus t); [apply IH|]. destruct (is_plus t); [apply IH|]. reflexivity.
Qed.
Lemma swallow_len l : forall neg, (length (snd (swallow_e l neg)) <= length l)%nat.
Proof.
  induction l as [|t r IH]; intros neg; [cbn; lia|].
  cbn [swallow_e]. destruct (is_minus t); [specialize (IH (negb neg)); cbn [length]; lia|].
  destruct (is_plus t); [specialize (IH neg); cbn [length]; lia|]. cbn. lia.
Qed.
Lemma sm_after l : forall neg,
  sm (After neg) l =
  (if fst (swallow_e l neg) then [EOp OSub] else []) ++
  match snd (swallow_e l neg) with [] => [] | x :: r => x :: sm (cst_of x) r end.
Proof.
  induction l as [|t r IH]; intros neg.
  - cbn. destruct neg; reflexivity.
  - cbn [sm swallow_e]. destruct (is_minus t); [apply IH|]. destruct (is_plus t); [apply IH|]. reflexivity.
Qed.

Lemma combine_inj f : forall l ls, (length l < f)%nat ->
  ExprEval.combine f ls (map inj l) = map inj (sm (if ls then After false else NotSym) l).
Proof.
  induction f as [|f IH]; intros l ls Hf; [lia|].
  destruct l as [|t r]; [destruct ls; reflexivity|].
  cbn [ExprEval.combine]. change (map inj (t :: r)) with (inj t :: map inj r). cbv iota.
  destruct ls.
  - change (inj t :: map inj r) with (map inj (t :: r)). rewrite swallow_inj. rewrite sm_after.
    pose proof (swallow_len (t :: r) false) as Hl.
    destruct (swallow_e (t :: r) false) as [neg rest]. cbn [fst snd] in *.
    rewrite map_app. f_equal; [destruct neg; reflexivity|].
    destruct rest as [|x rest']; [reflexivity|]. cbn [map]. f_equal.
    rewrite is_sym_inj. rewrite IH by (cbn [length] in *; lia). unfold cst_of. destruct (is_opt x); reflexivity.
  - cbn [sm map]. f_equal. rewrite is_sym_inj. rewrite IH by (cbn [length] in Hf; lia).
    unfold cst_of. destruct (is_opt t); reflexivity.
Qed.
Lemma combine_signs_inj l : combine_signs (map inj l) = map inj (sm NotSym l).
Proof. unfold combine_signs. rewrite map_length. apply (combine_inj (S (length l)) l false). lia. Qed.

(* ---------- flipDoubleNegatives ---------- *)
Lemma flip_inj f : forall l, (length l < f)%nat -> flip f (map inj l) = map inj (flip_nf l).
Proof.
  induction f as [|f IH]; intros l Hf; [lia|].
  destruct l as [|a [|b r]]; try reflexivity.
  cbn [map flip flip_nf]. rewrite !val_is_minus.
  destruct (is_minus a && is_minus b).
  - cbn [map]. f_equal. apply IH. cbn [length] in Hf. lia.
  - cbn [map]. f_equal. apply (IH (b :: r)). cbn [length] in *. lia.
Qed.
Lemma flip_dn_inj l : flip_double_negatives (map inj l) = map inj (flip_nf l).
Proof. unfold flip_double_negatives. rewrite map_length. apply flip_inj. lia. Qed.

(* ---------- adjacency: no two tokens that Go's scanner would merge ---------- *)
Definition bad (x y : etok) : bool :=
  match x, y with
  | ENum _, ENum _ => true
  | EOp ODiv, EOp ODiv | EOp ODiv, EOp OMul | EOp OAdd, EOp OAdd | EOp OSub, EOp OSub => true
  | _, _ => false
  end.
Lemma adjacency_cons x y r : bad x y = false -> adjacency (x :: y :: r) = adjacency (y :: r).
Proof. destruct x as [n|[]| |], y as [k|[]| |]; cbn [bad]; intros H; try discriminate H; reflexivity. Qed.
Lemma adjacency_one x : adjacency [x] = AdjOk.
Proof. destruct x as [n|[]| |]; reflexivity. Qed.

Definition not_num_head (l : list etok) : Prop := match l with ENum _ :: _ => False | _ => True end.
Lemma print_head2 e : exists h t, print e = h :: t /\
  match h with
  | ENum _ | ELp => sgn_head e = None
  | EOp OAdd => sgn_head e = Some false
  | EOp OSub => sgn_head e = Some true
  | _ => False
  end.
Proof.
  induction e as [n|e IH|m e IH|o a IHa b IHb].
  - eexists _, _. split; reflexivity.
  - eexists _, _. split; reflexivity.
  - destruct m; eexists _, _; split; reflexivity.
  - destruct IHa as [h [t [E1 E2]]]. exists h, (t ++ EOp o :: print b). cbn [print sgn_head]. rewrite E1. split; [reflexivity|exact E2].
Qed.

Lemma adj_tail x rest : (match x with ENum _ => not_num_head rest | ERp => True | _ => False end) ->
  adjacency rest = AdjOk -> adjacency (x :: rest) = AdjOk.
Proof.
  intros Hx Hr. destruct rest as [|y r]; [apply adjacency_one|].
  rewrite adjacency_cons; [exact Hr|].
  destruct x as [n|o| |]; try contradiction; destruct y as [k|[]| |]; try reflexivity. contradiction.
Qed.

Lemma adj_print e : wfadj e = true -> forall rest, adjacency rest = AdjOk -> not_num_head rest ->
  adjacency (print e ++ rest) = AdjOk.
Proof.
  induction e as [n|e IH|m e IH|o a IHa b IHb]; intros W rest Hr Hn.
  - cbn [print app]. apply adj_tail; assumption.
  - cbn [wfadj] in W. cbn [print app]. rewrite <- app_assoc. cbn [app].
    assert (X : adjacency (print e ++ ERp :: rest) = AdjOk).
    { apply IH; [exact W| |exact I]. apply adj_tail; [exact I|exact Hr]. }
    destruct (print_head2 e) as [h [t [E1 E2]]]. rewrite E1 in *. cbn [app] in *.
    rewrite adjacency_cons; [exact X|reflexivity].
  - cbn [wfadj] in W. apply andb_prop in W. destruct W as [W1 W2]. cbn [print app].
    assert (X : adjacency (print e ++ rest) = AdjOk) by (apply IH; assumption).
    destruct (print_head2 e) as [h [t [E1 E2]]]. rewrite E1 in *. cbn [app] in *.
    rewrite adjacency_cons; [exact X|].
    destruct m, h as [k|[]| |]; try reflexivity; try contradiction; rewrite E2 in W2; discriminate W2.
  - cbn [wfadj] in W. apply andb_prop in W. destruct W as [W W3]. apply andb_prop in W. destruct W as [W1 W2].
    cbn [print]. rewrite <- app_assoc. cbn [app]. apply IHa; [exact W1| |exact I].
    assert (X : adjacency (print b ++ rest) = AdjOk) by (apply IHb; assumption).
    destruct (print_head2 b) as [h [t [E1 E2]]]. rewrite E1 in *. cbn [app] in *.
    rewrite adjacency_cons; [exact X|].
    destruct o, h as [k|[]| |]; try reflexivity; try contradiction; rewrite E2 in W3; discriminate W3.
Qed.

Lemma print_nonneg e : ok e -> Forall nonneg_tok (print e).
Proof.
  induction e as [n|e IH|m e IH|o a IHa b IHb]; cbn [ok print]; intros H.
  - constructor; [exact H|constructor].
  - constructor; [exact I|]. apply Forall_app. split; [apply IH; exact H|constructor; [exact I|constructor]].
  - constructor; [exact I|]. apply IH. apply H.
  - destruct H as (Ha & Hb & _). apply Forall_app. split; [apply IHa; exact Ha|]. constructor; [exact I|apply IHb; exact Hb].
Qed.

Lemma inj_terms l : existsb (fun t => ttype_eqb (t_typ t) tokText || negb (tok_is_expr_term t)) (map inj l) = false.
Proof. induction l as [|t r IH]; [reflexivity|]. cbn [map existsb]. rewrite IH. destruct t; reflexivity. Qed.

(* ---------- the theorem ---------- *)
Theorem evaluate_printed e : ok e ->
  evaluate_expression (map inj (print e)) =
  match denote e with
  | Some v => if int32_ok v then EOk v else EErr
  | None => EErr
  end.
Proof.
  intros Hok. unfold evaluate_expression. rewrite inj_terms.
  rewrite combine_signs_inj, flip_dn_inj, signs_tokens.
  destruct (signs_norm_ok e Hok) as [N1 [N2 N3]].
  unfold go_eval. rewrite to_etoks_inj by (apply print_nonneg; exact N1).
  rewrite <- (app_nil_r (print (signs_norm e))) at 1.
  rewrite adj_print by (try assumption; try reflexivity; exact I).
  rewrite eval_print by exact N1. rewrite N2. reflexivity.
Qed.
