(* C09GenCompile.v — the compiler stage on the source lines of a load-file document:
   mnemonics in any letter case, blank and comment lines, trailing remarks. *)
From GM Require Import Base Text Token Lexer Scanner ExprSpec ExprEval ForExpand Parser Sim Compile
     Meaning Render LoadPrint AsmSpec C03Lexer C03Proof C06Proof C07Proof C07Model C09Proof C09Parse C09Compile C09GenParse.
From Coq Require Import Lia ZifyN ZifyNat ZifyBool.
Ltac Zify.zify_post_hook ::= Z.div_mod_to_equations.
Open Scope N_scope.

(* ---------- mnemonics in any letter case ---------- *)
Definition op_text_ok (legacy : bool) (i : instr) (optext : text) : Prop :=
  exists o1 o2, optext = o1 ++ (if legacy then [] else 46 :: o2) /\
    lower o1 = lower (opcode_name (i_op i)) /\ lower o2 = lower (opmode_name (i_md i)) /\
    ~ In 46 o1 /\ ~ In 46 o2.

Lemma opcode_of_text_lower a b : lower a = lower b -> opcode_of_text a = opcode_of_text b.
Proof. intros H. unfold opcode_of_text. rewrite H. reflexivity. Qed.
Lemma opmode_of_text_lower a b : lower a = lower b -> opmode_of_text a = opmode_of_text b.
Proof. intros H. unfold opmode_of_text. rewrite H. reflexivity. Qed.
Lemma is_pseudo_lower a b : lower a = lower b -> is_pseudo_text a = is_pseudo_text b.
Proof. intros H. unfold is_pseudo_text. rewrite H. reflexivity. Qed.
Lemma opcode_name_code o : opcode_of_text (opcode_name o) = Some o.
Proof. destruct o; reflexivity. Qed.
Lemma opmode_name_code o : opmode_of_text (opmode_name o) = Some o.
Proof. destruct o; reflexivity. Qed.

Fixpoint split_dot (s cur : text) : list text :=
  match s with
  | [] => [cur]
  | 46 :: r => cur :: split_dot r []
  | ch :: r => split_dot r (cur ++ [ch])
  end.
Lemma split_nodot o : forall cur, ~ In 46 o -> split_dot o cur = [cur ++ o].
Proof.
  induction o as [|c r IH]; intros cur H; cbn [split_dot]; [rewrite app_nil_r; reflexivity|].
  assert (Hc : c <> 46) by (intros E; apply H; left; exact E).
  assert (Hr : ~ In 46 r) by (intros E; apply H; right; exact E).
  replace (match c with 46 => cur :: split_dot r [] | _ => split_dot r (cur ++ [c]) end) with (split_dot r (cur ++ [c])).
  - rewrite IH by exact Hr. rewrite <- app_assoc. reflexivity.
  - destruct c as [|p]; [reflexivity|]. do 6 (destruct p as [p|p|]; try reflexivity). congruence.
Qed.
Lemma split_one_dot o1 o2 : ~ In 46 o1 -> ~ In 46 o2 -> split_dot (o1 ++ 46 :: o2) [] = [o1; o2].
Proof.
  intros H1 H2. assert (G : forall cur, split_dot (o1 ++ 46 :: o2) cur = [cur ++ o1; o2]).
  { induction o1 as [|c r IH]; intros cur.
    - cbn [app split_dot]. rewrite (split_nodot o2 [] H2). rewrite app_nil_r. reflexivity.
    - assert (Hc : c <> 46) by (intros E; apply H1; left; exact E).
      assert (Hr : ~ In 46 r) by (intros E; apply H1; right; exact E).
      cbn [app split_dot].
      replace (match c with 46 => cur :: split_dot (r ++ 46 :: o2) [] | _ => split_dot (r ++ 46 :: o2) (cur ++ [c]) end)
        with (split_dot (r ++ 46 :: o2) (cur ++ [c])).
      + rewrite (IH Hr). rewrite <- app_assoc. reflexivity.
      + destruct c as [|p]; [reflexivity|]. do 6 (destruct p as [p|p|]; try reflexivity). congruence. }
  apply G.
Qed.

Lemma op_text_tok legacy i optext : ((legacy = true) -> legal88 i = true) -> op_text_ok legacy i optext ->
  tok_is_op (mkT tokText optext) = true /\ tok_is_pseudo (mkT tokText optext) = false.
Proof.
  intros Hl [o1 [o2 [-> [L1 [L2 [N1 N2]]]]]]. split.
  - unfold tok_is_op. cbn [t_typ t_val]. destruct legacy.
    + rewrite app_nil_r. rewrite (opcode_of_text_lower o1 _ L1), opcode_name_code. rewrite orb_true_r. reflexivity.
    + rewrite existsb_app. cbn [existsb N.eqb Pos.eqb]. rewrite !orb_true_r. reflexivity.
  - unfold tok_is_pseudo. cbn [t_val].
    assert (E : lower (o1 ++ (if legacy then [] else 46 :: o2)) = lower (canon_op legacy i)).
    { unfold canon_op, lower. rewrite !map_app. fold (lower o1). fold (lower (opcode_name (i_op i))). rewrite L1.
      destruct legacy; [reflexivity|]. cbn [map]. fold (lower o2). fold (lower (opmode_name (i_md i))). rewrite L2. reflexivity. }
    rewrite (is_pseudo_lower _ _ E). apply (op_tok_is_op legacy i).
Qed.

(* ---------- one line, any spelling of the mnemonic ---------- *)
Lemma assemble_gen cfg i L C c optext sga sgb cmt nl :
  0 < c_size cfg -> c_size cfg <= 2147483648 -> i_a i < c_size cfg -> i_b i < c_size cfg ->
  ((c_mode cfg =? 0) = true -> legal88 i = true) -> op_text_ok (c_mode cfg =? 0) i optext ->
  assemble_line cfg c (instr_line L C optext (amode_char (i_am i)) (fld_toks sga (c_size cfg) (i_a i))
                                  (amode_char (i_bm i)) (fld_toks sgb (c_size cfg) (i_b i)) cmt nl) = AOk i.
Proof.
  intros Hm Hm' Ha Hb Hl [o1 [o2 [-> [L1 [L2 [N1 N2]]]]]]. unfold assemble_line.
  cbn [instr_line sl_op sl_amode sl_bmode sl_a sl_b sl_codeline].
  rewrite !amode_text.
  destruct (field_value sga (c_size cfg) (i_a i) c C (S (S (length (c_values c)))) Hm Hm' Ha) as [av [EA1 [EA2 EA3]]].
  destruct (field_value sgb (c_size cfg) (i_b i) c C (S (S (length (c_values c)))) Hm Hm' Hb) as [bv [EB1 [EB2 EB3]]].
  fold (expand_fuel c) in EA1, EB1.
  cbv zeta.
  match goal with |- match ?X with Some _ => _ | None => AErr end = _ =>
    replace X with (Some (i_op i, i_md i)) end.
  2: { destruct (c_mode cfg =? 0) eqn:Em.
       - destruct (legal88_facts i (Hl eq_refl)) as [F1 [F2 [F3 F4]]].
         rewrite (amode88_text _ F1), (amode88_text _ F2). cbn [andb negb]. rewrite app_nil_r.
         unfold opcode88_of_text. rewrite (opcode_of_text_lower o1 _ L1).
         unfold opcode88_of_text in F3. rewrite F3, F4. reflexivity.
       - change ((fix split (s cur : text) {struct s} : list text :=
                    match s with
                    | [] => [cur]
                    | 46 :: r => cur :: split r []
                    | ch :: r => split r (cur ++ [ch])
                    end) (o1 ++ 46 :: o2) []) with (split_dot (o1 ++ 46 :: o2) []).
         rewrite (split_one_dot o1 o2 N1 N2).
         rewrite (opcode_of_text_lower o1 _ L1), opcode_name_code, (opmode_of_text_lower o2 _ L2), opmode_name_code. reflexivity. }
  rewrite EA1, EA2.
  destruct (fld_toks sgb (c_size cfg) (i_b i)) as [|b0 bs] eqn:Efb.
  { exfalso. unfold fld_toks in Efb. destruct (_ && _); discriminate Efb. }
  rewrite EB1, EB2, EA3, EB3. destruct i; reflexivity.
Qed.

(* ---------- documents that denote a warrior ---------- *)
Definition comment_plain (c : text) : Prop := has_prefix (s2t ";assert") c = false.

(* the elements in order: instruction lines are the instructions, one after another; blank and comment
   lines, and remarks, denote nothing *)
Inductive denotes (cfg : config) : list elem -> list instr -> Prop :=
| DNil : denotes cfg [] []
| DInstr i optext sga sgb cmt es code :
    op_text_ok (c_mode cfg =? 0) i optext ->
    (match cmt with Some c => comment_plain c | None => True end) ->
    denotes cfg es code ->
    denotes cfg (EInstr optext (amode_char (i_am i)) (fld_toks sga (c_size cfg) (i_a i))
                        (amode_char (i_bm i)) (fld_toks sgb (c_size cfg) (i_b i)) cmt :: es) (i :: code)
| DBlank es code : denotes cfg es code -> denotes cfg (EBlank :: es) code
| DComment c es code : comment_plain c -> denotes cfg es code -> denotes cfg (EComment c :: es) code.

(* the document of a '94 load file: fillers, ORG, then the code; of an '88 load file: the code, then END *)
Definition is_fill (x : elem) : Prop := match x with EBlank => True | EComment c => comment_plain c | _ => False end.

Lemma ls_doc cfg : forall es code fnl L C v l se cur,
  denotes cfg es code ->
  fold_left (ls_step cfg) (doc_slines es fnl L C) (mkC v l se, cur) = (mkC v l se, (cur + Z.of_nat (length code))%Z).
Proof.
  intros es code fnl L C v l se cur H. revert L C cur.
  induction H as [|i optext sga sgb cmt es code Ho Hc H IH|es code H IH|c es code Hc H IH]; intros L C cur; cbn [doc_slines fold_left length].
  - rewrite Z.add_0_r. reflexivity.
  - cbn [ls_step instr_line sl_typ sl_labels fold_left c_values c_labels c_startexpr]. rewrite IH. f_equal. lia.
  - cbn [ls_step blank_line sl_typ]. apply IH.
  - cbn [ls_step comment_line sl_typ]. apply IH.
Qed.

Lemma ea_doc m c cfg : forall es code fnl L C, denotes cfg es code ->
  eval_assertions m c (doc_slines es fnl L C) = Some (EOk 1).
Proof.
  intros es code fnl L C H. revert L C.
  induction H as [|i optext sga sgb cmt es code Ho Hc H IH|es code H IH|cm es code Hc H IH]; intros L C; cbn [doc_slines eval_assertions].
  - reflexivity.
  - cbn [instr_line sl_typ]. apply IH.
  - cbn [blank_line sl_typ]. apply IH.
  - cbn [comment_line sl_typ sl_comment]. unfold comment_plain in Hc. rewrite Hc. apply IH.
Qed.

Lemma asm_doc cfg c : forall es code fnl L C acc,
  0 < c_size cfg -> c_size cfg <= 2147483648 -> wf_code cfg code -> denotes cfg es code ->
  assemble_all cfg c (doc_slines es fnl L C) acc = inr (acc ++ code).
Proof.
  intros es code fnl L C acc Hm Hm' Hw H. revert L C acc Hw.
  induction H as [|i optext sga sgb cmt es code Ho Hc H IH|es code H IH|cm es code Hc H IH]; intros L C acc [Hw Hl]; cbn [doc_slines assemble_all].
  - rewrite app_nil_r. reflexivity.
  - inversion Hw as [|x y [Hx1 Hx2] Hy]; subst.
    cbn [instr_line sl_typ].
    match goal with |- context [assemble_line cfg c ?ln] =>
      replace (assemble_line cfg c ln) with (AOk i) end.
    + rewrite IH.
      * rewrite <- app_assoc. reflexivity.
      * split; [exact Hy|]. intros E. specialize (Hl E). inversion Hl; assumption.
    + symmetry. apply (assemble_gen cfg i L C c optext sga sgb cmt); try assumption.
      intros E. specialize (Hl E). inversion Hl; assumption.
  - cbn [blank_line sl_typ]. apply IH. split; assumption.
  - cbn [comment_line sl_typ]. apply IH. split; assumption.
Qed.

(* ---------- the two document shapes of load files ---------- *)
Definition dir_kw_ok (kw : text) (which : string) : Prop := lower kw = s2t which.

Lemma dir_kw_facts kw which : (which = "org" \/ which = "end")%string -> dir_kw_ok kw which ->
  tok_is_op (mkT tokText kw) = true /\ tok_is_pseudo (mkT tokText kw) = true /\
  lower_is kw "equ" = false /\ lower_is kw "org" = (if String.eqb which "org" then true else false) /\
  lower_is kw "end" = (if String.eqb which "end" then true else false).
Proof.
  intros Hw Hk. unfold dir_kw_ok in Hk.
  assert (P : is_pseudo_text kw = true) by (unfold is_pseudo_text; rewrite Hk; destruct Hw as [-> | ->]; reflexivity).
  split; [unfold tok_is_op, tok_is_pseudo; cbn [t_typ t_val]; rewrite P; rewrite orb_true_r; reflexivity|].
  split; [exact P|]. unfold lower_is. rewrite Hk. destruct Hw as [-> | ->]; repeat split; reflexivity.
Qed.

Theorem compile_doc94 cfg pre kw body code start fnl meta :
  validate cfg = true -> (c_mode cfg =? 0) = false -> c_size cfg <= 2147483648 -> wf_code cfg code ->
  (0 <= start < Z.of_nat (length code))%Z -> N.of_nat (length code) <= c_len cfg ->
  denotes cfg pre [] -> dir_kw_ok kw "org" -> denotes cfg body code ->
  compile cfg (doc_slines (pre ++ EDir kw [num_tok (Z.to_N start)] :: body) fnl 1 0) meta = COk code start meta.
Proof.
  intros Hv Hmode Hm' Hw Hs Hlen Hpre Hkw Hbody.
  assert (Hm : 0 < c_size cfg).
  { unfold validate in Hv. destruct (c_size cfg <? 3) eqn:E; [discriminate Hv|]. lia. }
  destruct (dir_kw_facts kw "org" (or_introl eq_refl) Hkw) as [_ [_ [K1 [K2 K3]]]]. cbn in K2, K3.
  (* the lines: those of the fillers, the ORG line, those of the body *)
  assert (Esl : forall L C, exists L', doc_slines (pre ++ EDir kw [num_tok (Z.to_N start)] :: body) fnl L C =
              doc_slines pre true L C ++ dir_line L' kw [num_tok (Z.to_N start)]
                 (match body with [] => if fnl then 1%Z else 0%Z | _ => 1%Z end) :: doc_slines body fnl (L' + 1) C).
  { clear - Hpre K3. intros L C. revert L C. remember (@nil instr) as nocode eqn:En.
    induction Hpre as [|i optext sga sgb cmt es code Ho Hc H IH|es code H IH|c es code Hc H IH]; intros L C; try discriminate En.
    - exists L. cbn [app doc_slines]. rewrite K3. reflexivity.
    - destruct (IH En (L + 1)%Z C) as [L' E]. exists L'. cbn [app doc_slines]. rewrite E.
      destruct (es ++ EDir kw [num_tok (Z.to_N start)] :: body) eqn:Ee; [destruct es; discriminate Ee|].
      destruct es; reflexivity.
    - destruct (IH En (L + 1)%Z C) as [L' E]. exists L'. cbn [app doc_slines]. rewrite E.
      destruct (es ++ EDir kw [num_tok (Z.to_N start)] :: body) eqn:Ee; [destruct es; discriminate Ee|].
      destruct es; reflexivity. }
  destruct (Esl 1%Z 0%Z) as [L' Esl']. rewrite Esl'. clear Esl Esl'.
  set (dl := dir_line L' kw [num_tok (Z.to_N start)] _).
  unfold compile. rewrite Hv. cbn [negb].
  (* symbols *)
  assert (Els : load_symbols cfg (doc_slines pre true 1 0 ++ dl :: doc_slines body fnl (L' + 1) 0) =
                mkC (load_constants cfg) [] [num_tok (Z.to_N start)]).
  { rewrite load_symbols_fold, fold_left_app. rewrite (ls_doc cfg pre [] true 1 0 _ _ _ 0 Hpre). cbn [fold_left length Z.of_nat].
    unfold dl at 1. cbn [ls_step dir_line sl_typ sl_op sl_a c_values c_labels]. rewrite K1, K2.
    rewrite (ls_doc cfg body code fnl _ _ _ _ _ _ Hbody). reflexivity. }
  rewrite Els. cbn [c_values c_labels c_startexpr].
  rewrite constants_acyclic.
  assert (Eea : forall m c, eval_assertions m c (doc_slines pre true 1 0 ++ dl :: doc_slines body fnl (L' + 1) 0) = Some (EOk 1)).
  { intros m c. pose proof (ea_doc m c cfg pre [] true 1 0 Hpre) as E1. pose proof (ea_doc m c cfg body code fnl (L' + 1) 0 Hbody) as E2.
    revert E1. generalize (doc_slines pre true 1 0). induction l as [|ln t IH]; intros E1.
    - cbn [app eval_assertions]. unfold dl. cbn [dir_line sl_typ]. exact E2.
    - cbn [app eval_assertions] in *. destruct (sl_typ ln); try (apply IH; exact E1).
      destruct (has_prefix (s2t ";assert") (sl_comment ln)); [|apply IH; exact E1].
      destruct (eval_assert m c (skipn 7 (sl_comment ln))) as [[v| |]|]; try discriminate E1. apply IH; exact E1. }
  rewrite Eea, constants_resolved.
  assert (HA : forall c, assemble_all cfg c (doc_slines pre true 1 0 ++ dl :: doc_slines body fnl (L' + 1) 0) [] = inr code).
  { intros c. pose proof (asm_doc cfg c pre [] true 1 0 [] Hm Hm' ltac:(split; [constructor|intros; constructor]) Hpre) as E1.
    assert (G : forall l acc, assemble_all cfg c l acc = inr (acc ++ []) ->
                assemble_all cfg c (l ++ dl :: doc_slines body fnl (L' + 1) 0) acc = inr (acc ++ code)).
    { induction l as [|ln t IH]; intros acc E.
      - cbn [app assemble_all]. unfold dl. cbn [dir_line sl_typ]. apply asm_doc; assumption.
      - cbn [app assemble_all] in *. destruct (sl_typ ln); try (apply IH; exact E).
        destruct (assemble_line cfg c ln) eqn:El; try discriminate E.
        exfalso. clear - E. assert (X : forall l a, assemble_all cfg c l a = inr (acc ++ []) -> (length a <= length acc)%nat).
        { induction l as [|ln2 t2 IH2]; intros a Ha; cbn [assemble_all] in Ha.
          - inversion Ha. rewrite app_nil_r. lia.
          - destruct (sl_typ ln2); try (apply IH2; exact Ha).
            destruct (assemble_line cfg c ln2); try discriminate Ha. specialize (IH2 _ Ha). rewrite app_length in IH2. cbn [length] in IH2. lia. }
        specialize (X _ _ E). rewrite app_length in X. cbn [length] in X. lia. }
    apply (G _ [] E1). }
  rewrite HA.
  replace (c_len cfg <? N.of_nat (length code)) with false by lia.
  unfold expand_fuel. cbn [c_values]. rewrite expand_expression_plain by (repeat constructor; cbn; discriminate).
  rewrite eval_num. rewrite Z2N.id by lia.
  assert (Hs31 : (start < 2147483648)%Z).
  { unfold validate in Hv.
    assert (c_len cfg <= c_size cfg) by (destruct (c_size cfg <? c_len cfg) eqn:E; [repeat (rewrite ?andb_false_r, ?andb_false_l in Hv); discriminate Hv|lia]).
    lia. }
  unfold int32_ok. replace ((-2147483648 <=? start) && (start <=? 2147483647))%Z with true by lia.
  replace ((start <? 0) || negb (start =? 0) && (Z.of_nat (length code) <=? start))%Z with false by lia.
  reflexivity.
Qed.

Theorem compile_doc88 cfg kw body code start fnl meta :
  validate cfg = true -> c_size cfg <= 2147483648 -> wf_code cfg code ->
  (0 <= start < Z.of_nat (length code))%Z -> N.of_nat (length code) <= c_len cfg ->
  dir_kw_ok kw "end" -> denotes cfg body code ->
  compile cfg (doc_slines (body ++ [EDir kw [num_tok (Z.to_N start)]]) fnl 1 0) meta = COk code start meta.
Proof.
  intros Hv Hm' Hw Hs Hlen Hkw Hbody.
  assert (Hm : 0 < c_size cfg).
  { unfold validate in Hv. destruct (c_size cfg <? 3) eqn:E; [discriminate Hv|]. lia. }
  destruct (dir_kw_facts kw "end" (or_intror eq_refl) Hkw) as [_ [_ [K1 [K2 K3]]]]. cbn in K2, K3.
  assert (Esl : forall L C, exists L', doc_slines (body ++ [EDir kw [num_tok (Z.to_N start)]]) fnl L C =
              doc_slines body true L C ++ [dir_line L' kw [num_tok (Z.to_N start)] (if fnl then 1%Z else 0%Z)]).
  { clear - Hbody K3. intros L C. revert L C.
    induction Hbody as [|i optext sga sgb cmt es code Ho Hc H IH|es code H IH|c es code Hc H IH]; intros L C.
    - exists L. cbn [app doc_slines]. rewrite K3. reflexivity.
    - destruct (IH (L + 1)%Z (C + 1)%Z) as [L' E]. exists L'. cbn [app doc_slines]. rewrite E.
      destruct (es ++ [EDir kw [num_tok (Z.to_N start)]]) eqn:Ee; [destruct es; discriminate Ee|]. destruct es; reflexivity.
    - destruct (IH (L + 1)%Z C) as [L' E]. exists L'. cbn [app doc_slines]. rewrite E.
      destruct (es ++ [EDir kw [num_tok (Z.to_N start)]]) eqn:Ee; [destruct es; discriminate Ee|]. destruct es; reflexivity.
    - destruct (IH (L + 1)%Z C) as [L' E]. exists L'. cbn [app doc_slines]. rewrite E.
      destruct (es ++ [EDir kw [num_tok (Z.to_N start)]]) eqn:Ee; [destruct es; discriminate Ee|]. destruct es; reflexivity. }
  destruct (Esl 1%Z 0%Z) as [L' Esl']. rewrite Esl'. clear Esl Esl'.
  set (dl := dir_line L' kw [num_tok (Z.to_N start)] _).
  unfold compile. rewrite Hv. cbn [negb].
  assert (Els : load_symbols cfg (doc_slines body true 1 0 ++ [dl]) = mkC (load_constants cfg) [] [num_tok (Z.to_N start)]).
  { rewrite load_symbols_fold, fold_left_app. rewrite (ls_doc cfg body code true 1 0 _ _ _ 0 Hbody). cbn [fold_left].
    unfold dl. cbn [ls_step dir_line sl_typ sl_op sl_a sl_labels fold_left c_values c_labels c_startexpr]. rewrite K1, K2, K3. reflexivity. }
  rewrite Els. cbn [c_values c_labels c_startexpr].
  rewrite constants_acyclic.
  assert (Eea : forall m c, eval_assertions m c (doc_slines body true 1 0 ++ [dl]) = Some (EOk 1)).
  { intros m c. pose proof (ea_doc m c cfg body code true 1 0 Hbody) as E1.
    revert E1. generalize (doc_slines body true 1 0). induction l as [|ln t IH]; intros E1.
    - reflexivity.
    - cbn [app eval_assertions] in *. destruct (sl_typ ln); try (apply IH; exact E1).
      destruct (has_prefix (s2t ";assert") (sl_comment ln)); [|apply IH; exact E1].
      destruct (eval_assert m c (skipn 7 (sl_comment ln))) as [[v| |]|]; try discriminate E1. apply IH; exact E1. }
  rewrite Eea, constants_resolved.
  assert (HA : forall c, assemble_all cfg c (doc_slines body true 1 0 ++ [dl]) [] = inr code).
  { intros c. pose proof (asm_doc cfg c body code true 1 0 [] Hm Hm' Hw Hbody) as E1. cbn [app] in E1.
    revert E1. generalize (@nil instr). generalize (doc_slines body true 1 0).
    induction l as [|ln t IH]; intros acc E.
    - cbn [app assemble_all] in *. exact E.
    - cbn [app assemble_all] in *. destruct (sl_typ ln); try (apply IH; exact E).
      destruct (assemble_line cfg c ln); try discriminate E. apply IH. exact E. }
  rewrite HA.
  replace (c_len cfg <? N.of_nat (length code)) with false by lia.
  unfold expand_fuel. cbn [c_values]. rewrite expand_expression_plain by (repeat constructor; cbn; discriminate).
  rewrite eval_num. rewrite Z2N.id by lia.
  assert (Hs31 : (start < 2147483648)%Z).
  { unfold validate in Hv.
    assert (c_len cfg <= c_size cfg) by (destruct (c_size cfg <? c_len cfg) eqn:E; [repeat (rewrite ?andb_false_r, ?andb_false_l in Hv); discriminate Hv|lia]).
    lia. }
  unfold int32_ok. replace ((-2147483648 <=? start) && (start <=? 2147483647))%Z with true by lia.
  replace ((start <? 0) || negb (start =? 0) && (Z.of_nat (length code) <=? start))%Z with false by lia.
  reflexivity.
Qed.
