(* C03Blocks.v — programs with ANY NUMBER of FOR blocks one after another (not nested, no block labels, bodies of
   unlabelled instruction and comment lines, with or without a counter, count >= 1 from any expression over the EQU
   symbols in front): the derivation of C08Passes.unrolls is built by induction over the blocks, so the text is
   assembled to what the document with every block written out denotes. *)
From GM Require Import Base Text Token Lexer Scanner ExprSpec ExprEval ForExpand Parser Sim Compile
     Prog Meaning AsmSpec C03Lexer C05Lexer C05Fuel C03Proof C07Model C10Proof C14Proof C16Proof ScanProof
     C08Proof C08Block C08Scan C08Passes C08Flat C14Expand C09Parse C09Asm C09GenCompile C09GenLex
     C03Parse C03Compile C03Labels C03EquCompile C03EquLabels C03Flat C08Count.
From Coq Require Import Lia.
Open Scope Z_scope.

Record blk := mkBlk { b_front : list (lelem * nat);          (* the lines between the previous block and this one *)
                      b_c : option text; b_forw : token; b_count : list token;
                      b_body : list (lelem * nat); b_rofw : token; b_skip : list token; b_n : nat }.   (* count = S b_n *)

Definition copy (b : blk) (j : N) : list (lelem * nat) :=
  match b_c b with Some c => map (sek c j) (b_body b) | None => b_body b end.
Definition expand (b : blk) : list (lelem * nat) := concat (map (copy b) (nseq 1 (S (b_n b)))).
Definition hdr (b : blk) : list token :=
  (match b_c b with Some c => [mkT tokText c] | None => [] end) ++ b_forw b :: b_count b ++ [nlt].
Fixpoint blocks_rest (bs : list blk) (last : list (lelem * nat)) : list token :=
  match bs with
  | [] => body last
  | b :: r => body (b_front b) ++ hdr b ++ body (b_body b) ++ b_rofw b :: b_skip b ++ nlt :: blocks_rest r last
  end.
Fixpoint blocks_doc (bs : list blk) (last : list (lelem * nat)) : list (lelem * nat) :=
  match bs with [] => last | b :: r => b_front b ++ expand b ++ blocks_doc r last end.

Definition words_ok (b : blk) : Prop :=
  t_typ (b_forw b) = tokText /\ tok_is_pseudo (b_forw b) = true /\ lower_is (t_val (b_forw b)) "for" = true /\ Forall plain_tok (b_count b) /\
  t_typ (b_rofw b) = tokText /\ tok_is_pseudo (b_rofw b) = true /\ lower_is (t_val (b_rofw b)) "for" = false /\ lower_is (t_val (b_rofw b)) "rof" = true /\
  Forall plain_tok (b_skip b) /\ (match b_c b with Some c => is_label c | None => True end) /\
  Forall (fun xk => junk_free (fst xk)) (b_front b) /\ Forall (fun xk => flat_elem (fst xk)) (b_body b).

Lemma forall_flat_map_inv {A B} (P : B -> Prop) (f : A -> list B) l : Forall P (flat_map f l) -> Forall (fun x => Forall P (f x)) l.
Proof. induction l as [|x l IH]; intros H; [constructor|]. cbn [flat_map] in H. apply Forall_app in H. destruct H. constructor; auto. Qed.
Lemma forall_flat_map {A B} (P : B -> Prop) (f : A -> list B) l : Forall (fun x => Forall P (f x)) l -> Forall P (flat_map f l).
Proof. induction 1; [constructor|]. cbn [flat_map]. apply Forall_app. split; assumption. Qed.

Lemma flat_cnt b : flat_bline b -> cnt_bline b.
Proof. intros [H1 [H2 [H3 _]]]. repeat split; assumption. Qed.
Lemma cnt_nonterm bs : Forall cnt_bline bs -> Forall nonterm (flat_map bl_toks bs).
Proof.
  induction 1 as [|b bs [Hl [Hr _]] _ IH]; [constructor|]. cbn [flat_map]. apply Forall_app. split; [|exact IH].
  unfold bl_toks. rewrite Hl. cbn [lbl_seg flat_map app]. apply Forall_app. split; [|repeat constructor].
  eapply Forall_impl; [|exact Hr]. intros t [Ht _]. exact Ht.
Qed.
Lemma plain_nonterm l : Forall plain_tok l -> Forall nonterm l.
Proof. intros H. eapply Forall_impl; [|exact H]. intros t [Ht _]. exact Ht. Qed.

Section Blocks.
Variable spell : N -> text.
Hypothesis Hne : forall id, spell id <> [].
Variable cfg : config.
Variable lead : nat.

Fixpoint counts_ok (F : list (lelem * nat)) (bs : list blk) : Prop :=
  match bs with
  | [] => True
  | b :: r => (forall syms, front_symbols (doc_plines lead (F ++ b_front b)) = Some syms ->
                 expand_and_evaluate (filter noncomment (b_count b)) (with_constants cfg syms) = Some (EOk (Z.of_nat (S (b_n b)))))
              /\ counts_ok (F ++ b_front b ++ expand b) r
  end.

Definition elem_facts (xk : lelem * nat) : Prop :=
  lelem_ok (fst xk) /\ Forall pline_ok (elem_plines xk) /\ line_rendered spell (fst xk) /\ labs_shape (fst xk) /\ (1 <= snd xk)%nat.

(* ---------- what the first written-out copy of a body says about the body as written ---------- *)
Lemma flat_body_facts bodyEs : Forall (fun xk => flat_elem (fst xk)) bodyEs -> Forall elem_facts bodyEs ->
  Forall flat_bline (flat_map elem_blines bodyEs) /\ flat_map bl_toks (flat_map elem_blines bodyEs) = body bodyEs.
Proof.
  intros Hf He. split.
  - induction He as [|xk bs [H1 [H2 [H3 _]]] _ IH]; [constructor|]. inversion Hf; subst. cbn [flat_map]. apply Forall_app.
    split; [apply (flat_elem_blines spell Hne); assumption|apply IH; assumption].
  - apply flat_body_toks. apply Forall_forall. intros xk Hx. rewrite Forall_forall in Hf, He. destruct (He xk Hx) as [_ [_ [_ [A B]]]].
    split; [apply Hf; exact Hx|split; assumption].
Qed.

Lemma counter_body_facts c bodyEs : is_label c -> Forall (fun xk => flat_elem (fst xk)) bodyEs -> Forall elem_facts (map (sek c 1) bodyEs) ->
  Forall cnt_bline (flat_map elem_blines bodyEs) /\ flat_map bl_toks (flat_map elem_blines bodyEs) = body bodyEs /\
  Forall (fun xk => flat_elem (fst xk) /\ op_differs c (fst xk)) bodyEs.
Proof.
  intros Hc Hf He.
  assert (Hod : Forall (fun xk => op_differs c (fst xk)) bodyEs).
  { clear - He Hc. induction bodyEs as [|[x k] bs IH]; [constructor|]. cbn [map] in He. inversion He as [|a b [Hok _] Hr]; subst. constructor; [|apply IH; assumption].
    cbn [fst sek] in *. destruct x as [t|cm|kw e cmt|labs kw e cmt]; cbn [op_differs]; try exact I.
    destruct Hok as [_ [_ [[_ [O2 _]] _]]]. cbn [subst_elem tl_op] in O2.
    intros E. destruct Hc as [_ Hc2]. rewrite E in O2. rewrite O2 in Hc2. discriminate Hc2. }
  split; [|split].
  - clear - Hf He Hod. induction bodyEs as [|xk bs IH]; [constructor|]. cbn [flat_map map] in *.
    inversion Hf; subst. inversion He as [|a b [G1 [G2 _]] Hr]; subst. inversion Hod; subst.
    apply Forall_app. split; [apply (cnt_elem_blines c); assumption|apply IH; assumption].
  - apply flat_body_toks. clear - Hf He. induction bodyEs as [|[x k] bs IH]; [constructor|]. cbn [map] in He.
    inversion Hf; subst. inversion He as [|a b [_ [_ [_ [A1 A2]]]] Hr]; subst. constructor; [|apply IH; assumption].
    cbn [sek fst snd] in *. split; [assumption|]. split; [|exact A2]. unfold labs_shape in *. rewrite subst_fst_rest in A1. exact A1.
  - apply Forall_forall. intros xk Hx. rewrite Forall_forall in Hf, Hod. split; [apply Hf|apply Hod]; exact Hx.
Qed.

(* the parts of the document with every block written out *)
Lemma copy_first b : expand b = copy b 1 ++ concat (map (copy b) (nseq 2 (b_n b))).
Proof. unfold expand. rewrite nseq_S. reflexivity. Qed.

Lemma doc_parts (P : lelem * nat -> Prop) last : forall bs F, Forall P (F ++ blocks_doc bs last) ->
  Forall P F /\ Forall (fun b => Forall P (b_front b) /\ Forall P (copy b 1)) bs /\ Forall P last.
Proof.
  induction bs as [|b r IH]; intros F H.
  - cbn [blocks_doc] in H. apply Forall_app in H. destruct H. repeat split; try assumption. constructor.
  - cbn [blocks_doc] in H. rewrite !app_assoc in H. destruct (IH _ H) as [H1 [H2 H3]].
    rewrite <- !app_assoc in H1. apply Forall_app in H1. destruct H1 as [HF H1]. apply Forall_app in H1. destruct H1 as [Hfr Hex].
    rewrite copy_first in Hex. apply Forall_app in Hex. destruct Hex as [Hc1 _].
    split; [exact HF|]. split; [constructor; [split; assumption|exact H2]|exact H3].
Qed.

Definition block_facts (b : blk) : Prop :=
  Forall cnt_bline (flat_map elem_blines (b_body b)) /\ flat_map bl_toks (flat_map elem_blines (b_body b)) = body (b_body b) /\
  match b_c b with
  | Some c => Forall (fun xk => flat_elem (fst xk) /\ op_differs c (fst xk)) (b_body b)
  | None => Forall flat_bline (flat_map elem_blines (b_body b))
  end.

Lemma block_facts_of b : words_ok b -> Forall elem_facts (copy b 1) -> block_facts b.
Proof.
  intros [_ [_ [_ [_ [_ [_ [_ [_ [_ [Hc [_ Hf]]]]]]]]]]] He. unfold block_facts, copy in *. destruct (b_c b) as [c|].
  - destruct (counter_body_facts c (b_body b) Hc Hf He) as [A [B C]]. auto.
  - destruct (flat_body_facts (b_body b) Hf He) as [A B]. split; [eapply Forall_impl; [apply flat_cnt|exact A]|]. auto.
Qed.

Lemma rest_nonterm last : Forall (fun xk => lelem_ok (fst xk)) last -> forall bs, Forall words_ok bs -> Forall block_facts bs ->
  Forall (fun b => Forall (fun xk => lelem_ok (fst xk)) (b_front b)) bs -> Forall nonterm (blocks_rest bs last).
Proof.
  intros Hl. induction bs as [|b r IH]; intros Hw Hf Hfr; [apply body_nonterm; exact Hl|].
  inversion Hw as [|x y Hwb Hwr]; subst. inversion Hf as [|x y [Hcb [Eb _]] Hfr']; subst. inversion Hfr as [|x y Hfb Hfrr]; subst.
  destruct Hwb as [F1 [_ [_ [Hcount [R1 [_ [_ [_ [Hskip [Hc _]]]]]]]]]].
  cbn [blocks_rest]. apply Forall_app. split; [apply body_nonterm; exact Hfb|].
  apply Forall_app. split.
  { unfold hdr. apply Forall_app. split; [destruct (b_c b); repeat constructor|].
    constructor; [unfold nonterm, is_terminal; rewrite F1; reflexivity|]. apply Forall_app. split; [apply plain_nonterm; exact Hcount|repeat constructor]. }
  apply Forall_app. split; [rewrite <- Eb; apply cnt_nonterm; exact Hcb|].
  constructor; [unfold nonterm, is_terminal; rewrite R1; reflexivity|]. apply Forall_app. split; [apply plain_nonterm; exact Hskip|].
  constructor; [reflexivity|]. apply IH; assumption.
Qed.

(* the written-out copies have no labels: the expander hands them on as they are *)
Lemma flat_junk_free x : flat_elem x -> junk_free x.
Proof.
  destruct x as [t|c|kw e cmt|labs kw e cmt]; cbn [flat_elem]; intros H; try contradiction; unfold junk_free; cbn [line_rest fst]; [rewrite H|]; constructor.
Qed.
Lemma expand_junk_free b : Forall (fun xk => flat_elem (fst xk)) (b_body b) -> Forall (fun xk => junk_free (fst xk)) (expand b).
Proof.
  intros Hf. unfold expand. generalize (nseq 1 (S (b_n b))). intros l. induction l as [|j l IH]; [constructor|].
  cbn [map concat]. apply Forall_app. split; [|exact IH]. unfold copy. destruct (b_c b) as [c|].
  - apply Forall_forall. intros xk Hx. apply in_map_iff in Hx. destruct Hx as [y [<- Hy]]. rewrite Forall_forall in Hf.
    unfold junk_free. cbn [sek fst]. rewrite subst_fst_rest. apply (flat_junk_free (fst y)). apply Hf. exact Hy.
  - eapply Forall_impl; [|exact Hf]. intros a Ha. apply flat_junk_free. exact Ha.
Qed.
Lemma body_expand b : block_facts b ->
  body (expand b) = match b_c b with
                    | Some c => flat_map (fun j => map (subst_body c [] j) (body (b_body b))) (nseq 1 (S (b_n b)))
                    | None => flat_map (fun _ : N => body (b_body b)) (nseq 1 (S (b_n b)))
                    end.
Proof.
  intros [_ [_ Hk]]. unfold expand. rewrite body_concat_map. unfold copy. destruct (b_c b) as [c|]; [|reflexivity].
  apply flat_map_ext. intros j. apply subst_body_doc. exact Hk.
Qed.

(* ---------- the document: fixed through the induction ---------- *)
Variable org : option nexpr.
Variable its : list Prog.item.
Variable es last : list (lelem * nat).
Hypothesis Hsp : spell_ok spell (flat_map il_labels (instrs its) ++ map fst (equs its)).
Hypothesis Hrd : renders_doc2 spell org its es.
Hypothesis Hsh : shape2_ok es.
Hypothesis Hk1 : Forall (fun xk => (1 <= snd xk)%nat) es.

Lemma es_facts : Forall elem_facts es.
Proof.
  pose proof (r2_ok spell its Hsp org its es Hrd (incl_refl _) Hsh) as Hok.
  pose proof (forall_flat_map_inv _ _ _ (r2_plines spell org its es Hrd Hok Hsh)) as Hpl.
  pose proof (r2_lines spell org its es Hrd) as Hlines.
  apply Forall_forall. intros xk Hx. unfold shape2_ok in Hsh. rewrite Forall_forall in Hok, Hpl, Hlines, Hsh, Hk1.
  repeat split; [apply Hok|apply Hpl|apply Hlines|apply Hsh|apply Hk1]; exact Hx.
Qed.

Lemma ev_nodup : NoDup (map spell (map fst (equs its))).
Proof.
  destruct Hsp as [_ _ Hinj Hnd _]. apply NoDup_map_spell.
  - clear - Hnd. induction (flat_map il_labels (instrs its)) as [|a l IH]; [exact Hnd|]. cbn [app] in Hnd. inversion Hnd; subst. apply IH. assumption.
  - intros a b Ha Hb. apply Hinj; apply in_or_app; right; assumption.
Qed.

Lemma shk_of X : Forall elem_facts X -> Forall (fun xk => labs_shape (fst xk) /\ (1 <= snd xk)%nat) X.
Proof. intros H. eapply Forall_impl; [|exact H]. intros a [_ [_ [_ [A B]]]]. split; assumption. Qed.

Lemma es_done : unrolls cfg 0 (ldoc_toks lead es) (ldoc_toks lead es).
Proof.
  pose proof (r2_ok spell its Hsp org its es Hrd (incl_refl _) Hsh) as Hok.
  assert (Efin : ldoc_toks lead es = flat_map pl_toks (doc_plines lead es) ++ [tEOF]).
  { unfold ldoc_toks. rewrite (doc_plines_toks lead es (shk_of es es_facts)). rewrite <- app_assoc. reflexivity. }
  rewrite Efin. apply U_done; [|reflexivity|].
  - unfold doc_plines. apply Forall_app. split; [apply empty_pline_ok|]. apply (r2_plines spell org its es Hrd Hok Hsh).
  - unfold plain_symbols, doc_plines. rewrite scan_spec_app, scan_spec_empty.
    apply (r2_scan spell org its es Hrd Hsh [] ev_nodup). intros m0. discriminate.
Qed.

(* a part in front of the document: its lines are well formed and its EQU symbols are read *)
Lemma front_part F X : es = F ++ X ->
  Forall pline_ok (doc_plines lead F) /\ exists syms, front_symbols (doc_plines lead F) = Some syms.
Proof.
  intros E. pose proof es_facts as Hf. rewrite E in Hf. apply Forall_app in Hf. destruct Hf as [HF _]. split.
  - unfold doc_plines. apply Forall_app. split; [apply empty_pline_ok|]. apply forall_flat_map.
    eapply Forall_impl; [|exact HF]. intros a [_ [A _]]. exact A.
  - pose proof Hrd as Hrd'. rewrite E in Hrd'. destruct (r2_app_inv spell F X org its Hrd') as [org1 [its1 [its2 [Eits [R1 _]]]]].
    assert (Hnd1 : NoDup (map spell (map fst (equs its1)))).
    { pose proof ev_nodup as H. rewrite Eits, equs_app, !map_app in H. apply nodup_app_l in H. exact H. }
    assert (Hsh1 : Forall (fun xk => labs_shape (fst xk)) F) by (eapply Forall_impl; [|exact HF]; intros a [_ [_ [_ [A _]]]]; exact A).
    destruct (r2_scan_value spell org1 its1 F R1 Hsh1 [] Hnd1) as [syms Hsyms]. exists syms.
    unfold front_symbols, doc_plines. rewrite scan_spec_app, scan_spec_empty, Hsyms. reflexivity.
Qed.

(* ---------- the induction over the blocks ---------- *)
Lemma blocks_unroll : forall bs F, es = F ++ blocks_doc bs last ->
  Forall (fun xk => junk_free (fst xk)) F -> Forall words_ok bs -> counts_ok F bs ->
  unrolls cfg (length bs) (repeat nl_tok lead ++ body F ++ blocks_rest bs last ++ [tEOF]) (ldoc_toks lead es).
Proof.
  induction bs as [|b r IH]; intros F E Hjf Hw Hc.
  - cbn [blocks_doc blocks_rest length] in *. replace (repeat nl_tok lead ++ body F ++ body last ++ [tEOF]) with (ldoc_toks lead es); [apply es_done|].
    unfold ldoc_toks. rewrite E, body_app, <- app_assoc. reflexivity.
  - cbn [blocks_doc blocks_rest length counts_ok] in *. destruct Hc as [Hcount Hc']. inversion Hw as [|x y Hwb Hwr]; subst x y.
    (* the facts about every part *)
    pose proof es_facts as Hfacts. rewrite E in Hfacts. destruct (doc_parts elem_facts last (b :: r) F Hfacts) as [HfF [Hfbs Hflast]].
    inversion Hfbs as [|x y [Hffront Hfcopy] Hfr]; subst x y.
    pose proof (block_facts_of b Hwb Hfcopy) as Hbf.
    assert (Hbfr : Forall block_facts r).
    { clear - Hwr Hfr Hne. induction Hwr as [|b0 r0 Hb0 _ IH0]; [constructor|]. inversion Hfr as [|x y [_ Hc0] Hr0]; subst. constructor; [apply block_facts_of; assumption|apply IH0; assumption]. }
    assert (Hrest : Forall nonterm (blocks_rest r last)).
    { apply rest_nonterm; try assumption.
      - eapply Forall_impl; [|exact Hflast]. intros a [A _]. exact A.
      - eapply Forall_impl; [|exact Hfr]. intros b0 [A _]. eapply Forall_impl; [|exact A]. intros a [A0 _]. exact A0. }
    destruct Hwb as [F1 [F2 [F3 [Hcnt [R1 [R2 [R3 [R4 [Hskip [Hlab [Hjfront Hflat]]]]]]]]]]].
    (* the lines in front of the block *)
    assert (E1 : es = (F ++ b_front b) ++ (expand b ++ blocks_doc r last)) by (rewrite E, <- !app_assoc; reflexivity).
    destruct (front_part _ _ E1) as [Hpre [syms Hsyms]].
    assert (Hjf1 : Forall (fun xk => junk_free (fst xk)) (F ++ b_front b)) by (apply Forall_app; split; assumption).
    assert (Hshk1 : Forall (fun xk => labs_shape (fst xk) /\ (1 <= snd xk)%nat) (F ++ b_front b)) by (apply shk_of; apply Forall_app; split; assumption).
    (* the next front *)
    assert (E2 : es = (F ++ b_front b ++ expand b) ++ blocks_doc r last) by (rewrite E, <- !app_assoc; reflexivity).
    assert (Hjf2 : Forall (fun xk => junk_free (fst xk)) (F ++ b_front b ++ expand b)).
    { apply Forall_app. split; [exact Hjf|]. apply Forall_app. split; [exact Hjfront|apply expand_junk_free; exact Hflat]. }
    pose proof (IH _ E2 Hjf2 Hwr Hc') as Hnext.
    destruct Hbf as [Hcb [Eb Hkind]].
    assert (Epre : flat_map pl_toks (doc_plines lead (F ++ b_front b)) = repeat nl_tok lead ++ body F ++ body (b_front b)).
    { rewrite (doc_plines_toks lead _ Hshk1), body_app. reflexivity. }
    assert (Enext : repeat nl_tok lead ++ body (F ++ b_front b ++ expand b) ++ blocks_rest r last ++ [tEOF]
                    = flat_map pl_out (doc_plines lead (F ++ b_front b)) ++ body (expand b) ++ blocks_rest r last ++ [tEOF]).
    { rewrite (doc_out_junkfree lead _ Hjf1), Epre, !body_app, <- !app_assoc. reflexivity. }
    rewrite Enext in Hnext. rewrite (body_expand b (conj Hcb (conj Eb Hkind))) in Hnext.
    unfold hdr. destruct (b_c b) as [c|] eqn:Ec.
    + (* with a counter *)
      replace (repeat nl_tok lead ++ body F ++ (body (b_front b) ++ ([mkT tokText c] ++ b_forw b :: b_count b ++ [nlt]) ++ body (b_body b)
                 ++ b_rofw b :: b_skip b ++ nlt :: blocks_rest r last) ++ [tEOF])
        with (flat_map pl_toks (doc_plines lead (F ++ b_front b)) ++ (mkT tokText c :: b_forw b :: b_count b ++ [nlt])
                 ++ flat_map bl_toks (flat_map elem_blines (b_body b)) ++ b_rofw b :: b_skip b ++ (nlt :: blocks_rest r last ++ [tEOF])).
      2: { rewrite Epre, Eb, <- !app_assoc. cbn [app]. rewrite <- !app_assoc. reflexivity. }
      apply (counter_block_unrolls cfg (length r) _ (doc_plines lead (F ++ b_front b)) c (b_forw b) (b_count b) _ (b_rofw b) (b_skip b)
               (blocks_rest r last) syms (Z.of_nat (S (b_n b)))); try assumption.
      * apply Hcount. exact Hsyms.
      * rewrite Nat2Z.id, Eb. exact Hnext.
    + (* without *)
      replace (repeat nl_tok lead ++ body F ++ (body (b_front b) ++ ([] ++ b_forw b :: b_count b ++ [nlt]) ++ body (b_body b)
                 ++ b_rofw b :: b_skip b ++ nlt :: blocks_rest r last) ++ [tEOF])
        with (flat_map pl_toks (doc_plines lead (F ++ b_front b)) ++ (b_forw b :: b_count b ++ [nlt])
                 ++ flat_map bl_toks (flat_map elem_blines (b_body b)) ++ b_rofw b :: b_skip b ++ (nlt :: blocks_rest r last ++ [tEOF])).
      2: { rewrite Epre, Eb, <- !app_assoc. cbn [app]. rewrite <- !app_assoc. reflexivity. }
      apply (flat_block_unrolls cfg (length r) _ (doc_plines lead (F ++ b_front b)) (b_forw b) (b_count b) _ (b_rofw b) (b_skip b)
               (blocks_rest r last) syms (Z.of_nat (S (b_n b)))); try assumption.
      * apply Hcount. exact Hsyms.
      * rewrite Nat2Z.id, Eb. exact Hnext.
Qed.
(* ---------- the counts, stated with the reference: no model-side evaluation in the hypotheses ---------- *)
Definition nitems (X : list (lelem * nat)) : nat :=
  length (filter (fun xk => match fst xk with LInstr _ | LEqu _ _ _ _ => true | LComment c => has_prefix (s2t ";assert") c | _ => false end) X).
Lemma r2_length org0 its0 X : renders_doc2 spell org0 its0 X -> length its0 = nitems X.
Proof.
  unfold nitems. induction 1 as [|org1 l its1 t k es1 _ _ IH|org1 c k its1 es1 Hc _ IH|e kw cmt k its1 es1 _ _ _ IH|org1 n e labs kw cmt k its1 es1 _ _ _ _ IH|org1 c e k its1 es1 [Hp _] _ IH];
    cbn [filter fst length]; try (rewrite IH; reflexivity); try reflexivity.
  - unfold comment_plain in Hc. rewrite Hc. exact IH.
  - rewrite Hp. cbn [length]. rewrite IH. reflexivity.
Qed.

(* each count is written as the rendering of an expression whose reference value, over the EQU definitions among
   the items in front of the block, is the number of copies *)
Fixpoint counts_ref (F : list (lelem * nat)) (bs : list blk) : Prop :=
  match bs with
  | [] => True
  | b :: r => (exists cnt, b_count b = etoks spell cnt /\ Forall nn_ntok (nprint cnt) /\
                 value_at (mconf_of cfg) (equs (firstn (nitems (F ++ b_front b)) its)) [] 0 cnt = MV (Z.of_nat (S (b_n b))))
              /\ counts_ref (F ++ b_front b ++ expand b) r
  end.

Variable rkN : N -> nat.
Hypothesis Hrk : ranked spell (equs its) rkN.

Lemma counts_from_reference : forall bs F, es = F ++ blocks_doc bs last -> counts_ref F bs -> counts_ok F bs.
Proof.
  induction bs as [|b r IH]; intros F E Hc; [exact I|].
  cbn [counts_ref counts_ok blocks_doc] in *. destruct Hc as [[cnt [Ecnt [Hnn Hval]]] Hc']. split.
  2: { apply IH; [rewrite E, <- !app_assoc; reflexivity|exact Hc']. }
  intros syms Hsyms.
  assert (E1 : es = (F ++ b_front b) ++ (expand b ++ blocks_doc r last)) by (rewrite E, <- !app_assoc; reflexivity).
  pose proof es_facts as Hf. rewrite E1 in Hf. apply Forall_app in Hf. destruct Hf as [HF _].
  pose proof Hrd as Hrd'. rewrite E1 in Hrd'. destruct (r2_app_inv spell _ _ org its Hrd') as [org1 [its1 [its2 [Eits [R1 _]]]]].
  assert (Efirst : firstn (nitems (F ++ b_front b)) its = its1).
  { rewrite <- (r2_length _ _ _ R1), Eits. rewrite firstn_app, Nat.sub_diag, firstn_all. cbn [firstn]. apply app_nil_r. }
  rewrite Efirst in Hval.
  (* the symbols the scanner has read are these definitions *)
  assert (Hnd1 : NoDup (map spell (map fst (equs its1)))).
  { pose proof ev_nodup as H. rewrite Eits, equs_app, !map_app in H. apply nodup_app_l in H. exact H. }
  assert (Hsh1 : Forall (fun xk => labs_shape (fst xk)) (F ++ b_front b)) by (eapply Forall_impl; [|exact HF]; intros a [_ [_ [_ [A _]]]]; exact A).
  assert (Esy : syms = equ_entries spell (equs its1)).
  { unfold front_symbols, doc_plines in Hsyms. rewrite scan_spec_app, scan_spec_empty in Hsyms.
    rewrite (r2_scan_table spell org1 its1 _ R1 Hsh1 [] Hnd1) in Hsyms. cbn [app] in Hsyms. inversion Hsyms. reflexivity. }
  subst syms. rewrite Ecnt, (etoks_noncomment spell cnt).
  (* the prefix's own tables *)
  assert (Hsp1 : spell_ok spell (map fst (equs its1))).
  { destruct Hsp as [P Hlab Hinj Hnd Hw].
    assert (Hin : forall id, In id (map fst (equs its1)) -> In id (flat_map il_labels (instrs its) ++ map fst (equs its))).
    { intros id Hid. apply in_or_app. right. rewrite Eits, equs_app, map_app. apply in_or_app. left. exact Hid. }
    constructor; [exact P| | | |exact Hw].
    - intros id Hid. apply Hlab. apply Hin. exact Hid.
    - intros a b0 Ha Hb. apply Hinj; apply Hin; assumption.
    - assert (N1 : NoDup (map fst (equs its))).
      { clear - Hnd. induction (flat_map il_labels (instrs its)) as [|a l IHl]; [exact Hnd|]. cbn [app] in Hnd. inversion Hnd; subst. apply IHl. assumption. }
      rewrite Eits, equs_app, map_app in N1. apply nodup_app_l in N1. exact N1. }
  assert (Henv : env_nn (equs its1)).
  { clear - R1. intros id d H. apply env_find_entry in H.
    induction R1 as [|org0 l its0 t k es0 _ _ IHr|org0 c k its0 es0 _ _ IHr|e kw cmt k its0 es0 _ _ _ IHr|org0 n0 e0 labs kw cmt k its0 es0 _ _ Hnn0 _ IHr|org0 c e1 k its0 es0 _ _ IHr];
      cbn [equs] in H; try (apply IHr; exact H); [destruct H|].
    destruct H as [H|H]; [inversion H; subst; exact Hnn0|apply IHr; exact H]. }
  assert (Hrk1 : ranked spell (equs its1) rkN).
  { intros n e Hin x Hx n' e' Hin' Hs. apply (Hrk n e) with (x := x) (e' := e'); try assumption; rewrite Eits, equs_app; apply in_or_app; left; assumption. }
  apply (block_count spell cfg (equs its1) Hsp1 rkN cnt _ Henv Hrk1 Hnn Hval).
Qed.
End Blocks.

(* ---------- the theorem ---------- *)
Theorem blocks_program spell (Hne : forall id, spell id <> []) cfg org (its : list Prog.item) bs last lead nm au code start inp toks rkN :
  let es := blocks_doc bs last in
  validate cfg = true ->
  spell_ok spell (flat_map il_labels (instrs its) ++ map fst (equs its)) ->
  renders_doc2 spell org its es -> shape2_ok es -> Forall (fun xk => (1 <= snd xk)%nat) es ->
  ranked spell (equs its) rkN ->
  bodies_known cfg its ->
  meaning (mconf_of cfg) (mkProg its org None nm au []) = MOk code start ->
  Forall words_ok bs -> counts_ok cfg lead [] bs -> (length bs <= max_for_passes)%nat ->
  lex_ascii inp = Some toks -> counts_modelled toks None = true ->
  toks = repeat nl_tok lead ++ blocks_rest bs last ++ [tEOF] ->
  compile_warrior cfg inp = COk code start (dmeta (mkPM [] [] []) es).
Proof.
  intros es Hv Hsp Hrd Hsh Hk1 Hrk Hbod Hmean Hw Hc Hlen Hlex Hcm Htoks.
  apply (for_program_tokens spell cfg org its es lead nm au code start inp toks (length bs) rkN); try assumption.
  rewrite Htoks.
  exact (blocks_unroll spell Hne cfg lead org its es last Hsp Hrd Hsh Hk1 bs [] eq_refl (Forall_nil _) Hw Hc).
Qed.

(* the same with the counts given by the reference (Meaning.value_at over the EQU definitions in front of each block) *)
Theorem blocks_program_ref spell (Hne : forall id, spell id <> []) cfg org (its : list Prog.item) bs last lead nm au code start inp toks rkN :
  let es := blocks_doc bs last in
  validate cfg = true ->
  spell_ok spell (flat_map il_labels (instrs its) ++ map fst (equs its)) ->
  renders_doc2 spell org its es -> shape2_ok es -> Forall (fun xk => (1 <= snd xk)%nat) es ->
  ranked spell (equs its) rkN ->
  bodies_known cfg its ->
  meaning (mconf_of cfg) (mkProg its org None nm au []) = MOk code start ->
  Forall words_ok bs -> counts_ref spell cfg its [] bs -> (length bs <= max_for_passes)%nat ->
  lex_ascii inp = Some toks -> counts_modelled toks None = true ->
  toks = repeat nl_tok lead ++ blocks_rest bs last ++ [tEOF] ->
  compile_warrior cfg inp = COk code start (dmeta (mkPM [] [] []) es).
Proof.
  intros es Hv Hsp Hrd Hsh Hk1 Hrk Hbod Hmean Hw Hc Hlen Hlex Hcm Htoks.
  apply (blocks_program spell Hne cfg org its bs last lead nm au code start inp toks rkN); try assumption.
  apply (counts_from_reference spell cfg lead org its es last Hsp Hrd Hsh Hk1 rkN Hrk bs [] eq_refl Hc).
Qed.
