(* C12Top.v — rotation equivariance carried to the literal model through C02. *)
From GM Require Import Base Exec Sim Emi94 Mars Rotate VmArith C01Phase QueueProof
     C12Step C12Run InvSim MarsFacts C02Proof.
From Coq Require Import Lia.
Open Scope N_scope.

Lemma rel_mwf s t : Inv s -> Rel s t -> mwf (s_m s) t.
Proof.
  intros (_ & _ & _ & _ & E & _) (_ & R2 & _). unfold mwf. rewrite R2.
  apply Forall_map. eapply Forall_impl; [|exact E].
  intros w [_ Hw]. unfold absw, w_queue. cbn [mw_q].
  destruct (w_state w); [constructor| |].
  - destruct Hw as (q & -> & _ & _ & _ & Hv). exact Hv.
  - destruct Hw as (q & -> & Hq & _ & Hl).
    assert (E0 : rq_values q = []) by (apply length_zero_iff_nil; rewrite rq_values_length; lia).
    rewrite E0. constructor.
Qed.

Lemma can_run_rot s s' t t' k :
  cfg_of s' = cfg_of s -> mrot (s_m s) k t t' -> can_run s' t' = can_run s t.
Proof.
  intros Hc HR. unfold can_run. rewrite Hc.
  assert (HM : mc_M (cfg_of s) = s_m s) by reflexivity.
  rewrite (m_finished_rot (cfg_of s) k t t') by (rewrite HM; exact HR).
  destruct HR as (_ & R2 & _). unfold m_living. rewrite R2, m_living_rot. reflexivity.
Qed.

Theorem model_cycle_equivariant k s s' t t' :
  Inv s -> Inv s' -> guards s -> guards s' -> cfg_of s' = cfg_of s ->
  Rel s t -> Rel s' t' -> mrot (s_m s) k t t' ->
  match run_cycle s, run_cycle s' with
  | Ok (s1, r1, _), Ok (s1', r1', _) =>
      exists t1 t1', Rel s1 t1 /\ Rel s1' t1' /\ mrot (s_m s) k t1 t1' /\ r1' = r1
  | _, _ => False
  end.
Proof.
  intros HI HI' HG HG' Hc HR HR' Hrot.
  pose proof (run_cycle_refines s t HI HG HR) as A.
  pose proof (run_cycle_refines s' t' HI' HG' HR') as B.
  rewrite (can_run_rot s s' t t' k Hc Hrot) in B. rewrite Hc in B.
  destruct (run_cycle s) as [[[s1 r1] rp1]|]; [|assumption].
  destruct (run_cycle s') as [[[s1' r1'] rp1']|]; [|assumption].
  assert (HM0 : 0 < mc_M (cfg_of s)) by (destruct HI as (? & _); cbn; lia).
  destruct (can_run s t).
  - destruct A as (A1 & _ & _ & A4). destruct B as (B1 & _ & _ & B4).
    destruct (m_cycle_rot (cfg_of s) k HM0 t t' Hrot (rel_mwf s t HI HR)) as [Hrot1 _].
    exists (m_cycle (cfg_of s) t), (m_cycle (cfg_of s) t').
    split; [assumption|]. split; [assumption|]. split; [exact Hrot1|].
    subst r1 r1'. destruct Hrot1 as (_ & W1 & C1). destruct Hrot as (_ & _ & C0).
    rewrite C1, C0. unfold m_living. rewrite W1, m_living_rot. reflexivity.
  - destruct A as [-> ->]. destruct B as [-> ->]. exists t, t'. auto.
Qed.
