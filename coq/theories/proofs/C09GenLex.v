(* C09GenLex.v — lexing a text given as blank runs and lexemes, closed by white
   space or by a last number / comment that runs into the end of the input. *)
From GM Require Import Base Text Token Lexer Scanner C05Lexer C03Lexer.
From Coq Require Import Lia ZifyBool ZifyN ZifyNat.
Open Scope N_scope.

(* ---------- a number or a comment that ends the input ---------- *)
Lemma digit_loop_end d : forall f buf, Forall (fun x => is_digit_a x = true) d -> d <> [] -> (length d < f)%nat ->
  exists l', digit_loop is_digit_a f (lx d) buf = ([mkT tokNumber (buf ++ d); tEOF], None, l').
Proof.
  induction d as [|x d IH]; intros f buf Hs Hne Hf; [congruence|].
  destruct f as [|f]; [cbn in Hf; lia|]. inversion Hs as [|y l Hx Hl]; subst.
  cbn [digit_loop]. replace (l_nr (lx (x :: d))) with x by reflexivity. rewrite Hx.
  destruct d as [|x2 d].
  - rewrite lnext_last. eexists. reflexivity.
  - rewrite lnext_more. destruct (IH f (buf ++ [x]) Hl ltac:(discriminate) ltac:(cbn [length] in *; lia)) as [l' E].
    exists l'. rewrite E. rewrite <- app_assoc. reflexivity.
Qed.
Lemma comment_loop_end body : forall f buf, Forall (fun x => x <> 10) body -> body <> [] -> (length body < f)%nat ->
  exists l', comment_loop f (lx body) buf = ([mkT tokComment (buf ++ body); tEOF], None, l').
Proof.
  induction body as [|x body IH]; intros f buf Hs Hne Hf; [congruence|].
  destruct f as [|f]; [cbn in Hf; lia|]. inversion Hs as [|y l Hx Hl]; subst.
  cbn [comment_loop]. replace (l_nr (lx (x :: body))) with x by reflexivity.
  destruct (N.eqb_spec x 10) as [->|_]; [congruence|].
  destruct body as [|x2 body].
  - rewrite lnext_last. eexists. reflexivity.
  - rewrite lnext_more. destruct (IH f (buf ++ [x]) Hl ltac:(discriminate) ltac:(cbn [length] in *; lia)) as [l' E].
    exists l'. rewrite E. rewrite <- app_assoc. reflexivity.
Qed.

Lemma final_num c0 d' f out : Forall (fun x => is_digit_a x = true) (c0 :: d') -> (c0 <> 48 \/ d' = []) ->
  lrun (S (S f)) LInput (lx (c0 :: d')) out = Some (out ++ [mkT tokNumber (c0 :: d'); tEOF]).
Proof.
  intros Hd Hz. inversion Hd as [|y l Hc0 Hd']; subst.
  assert (Hcls : is_space_a c0 = false /\ (is_letter_a c0 || (c0 =? 95)) = false).
  { unfold is_digit_a, is_letter_a, is_upper_a, is_lower_a, is_space_a in *. lia. }
  destruct Hcls as [Hsp Hlt].
  cbn [lex_run]. unfold lex_step at 1. replace (l_nr (lx (c0 :: d'))) with c0 by reflexivity.
  rewrite Hsp, Hlt, Hc0. cbn [lex_run]. unfold lex_step at 1. rewrite length_inp_lx.
  destruct (N.eq_dec c0 48) as [->|Hne].
  - destruct Hz as [Hz| ->]; [congruence|].
    cbn [zero_loop lx l_nr N.eqb Pos.eqb lnext l_eof l_inp]. rewrite ?app_nil_r. reflexivity.
  - assert (E : zero_loop (S (S (length d'))) (lx (c0 :: d')) = Some (lx (c0 :: d'))).
    { cbn [zero_loop lx l_nr]. destruct (N.eqb_spec c0 48); [congruence|reflexivity]. }
    rewrite E. destruct (digit_loop_end (c0 :: d') (S (S (length d'))) [] Hd ltac:(discriminate) ltac:(cbn [length]; lia)) as [l' E2].
    rewrite E2. cbn [app]. rewrite ?app_nil_r. reflexivity.
Qed.
Lemma final_comment b f out : Forall (fun x => x <> 10) b ->
  lrun (S (S f)) LInput (lx (59 :: b)) out = Some (out ++ [mkT tokComment (59 :: b); tEOF]).
Proof.
  intros Hb. cbn [lex_run]. unfold lex_step at 1.
  cbn [lx l_nr is_space_a is_letter_a is_upper_a is_lower_a is_digit_a N.leb N.eqb N.compare Pos.compare Pos.compare_cont Pos.eqb andb orb].
  cbn [lex_run]. unfold lex_step at 1.
  change (mkL b 59 false) with (lx (59 :: b)). rewrite length_inp_lx.
  destruct (comment_loop_end (59 :: b) (S (S (length b))) [] ltac:(constructor; [discriminate|exact Hb]) ltac:(discriminate) ltac:(cbn [length]; lia)) as [l' E].
  rewrite E. cbn [app]. rewrite ?app_nil_r. reflexivity.
Qed.

(* ---------- lexemes followed by any closing text ---------- *)
Lemma lex_pieces_gen ps : forall endt endk out f,
  endt <> [] -> (forall out f, lrun (S (S f)) LInput (lx endt) out = Some (out ++ endk)) -> pieces_ok ps endt ->
  lrun (2 * length ps + 2 + f) LInput (lx (flat_map ptext ps ++ endt)) out = Some (out ++ flat_map ptoks ps ++ endk).
Proof.
  induction ps as [|p t IH]; intros endt endk out f Hne Hend Hok.
  - cbn [flat_map app length]. replace (2 * 0 + 2 + f)%nat with (S (S f)) by lia. apply Hend.
  - cbn [pieces_ok] in Hok. destruct Hok as [Hp Hrest].
    cbn [flat_map length]. rewrite <- app_assoc.
    remember (flat_map ptext t ++ endt) as rest eqn:Er.
    assert (Hrne : rest <> []) by (subst rest; destruct (flat_map ptext t); [exact Hne|discriminate]).
    destruct rest as [|next rest']; [congruence|]. cbn [first_of hd] in Hp.
    replace (2 * S (length t) + 2 + f)%nat with (2 + (2 * length t + 2 + f))%nat by lia.
    apply (piece_step p next rest' out _ _ Hp). rewrite Er.
    rewrite (IH endt endk (out ++ ptoks p) f Hne Hend Hrest). rewrite <- !app_assoc. reflexivity.
Qed.

Theorem lex_text_gen ps endt endk :
  endt <> [] -> (forall out f, lrun (S (S f)) LInput (lx endt) out = Some (out ++ endk ++ [tEOF])) ->
  Forall nonterm endk -> pieces_ok ps endt ->
  lex_ascii (flat_map ptext ps ++ endt) = Some (flat_map ptoks ps ++ endk ++ [tEOF]).
Proof.
  intros Hne Hend Hnk Hok. unfold lex_ascii, lex_sends.
  set (txt := flat_map ptext ps ++ endt).
  assert (Hl : (length ps + 1 <= length txt)%nat).
  { unfold txt. rewrite app_length. pose proof (pieces_len ps endt Hok). destruct endt; [congruence|cbn [length]; lia]. }
  assert (Hi : lex_init txt = lx txt).
  { unfold lex_init, txt. destruct (flat_map ptext ps ++ endt) eqn:E; [|reflexivity].
    destruct (flat_map ptext ps); [cbn in E; congruence|discriminate]. }
  rewrite Hi.
  replace (2 * length txt + 4)%nat with ((2 * length txt + 4 - (2 * length ps + 2)) + (2 * length ps + 2 + 0))%nat by lia.
  rewrite (lrun_mono_k _ _ _ _ _ _ (lex_pieces_gen ps endt (endk ++ [tEOF]) [] 0 Hne Hend Hok)).
  cbn [app]. rewrite recv_closed; [reflexivity|].
  exists (flat_map ptoks ps ++ endk), tEOF. rewrite <- app_assoc. split; [reflexivity|]. split; [reflexivity|].
  apply Forall_app. split; [|exact Hnk].
  apply Forall_forall. intros tk Hin. apply in_flat_map in Hin. destruct Hin as [p [_ Hp]].
  destruct p; cbn [ptoks] in Hp; try (destruct Hp as [<-|[]]; reflexivity).
  unfold newlines in Hp. apply in_flat_map in Hp. destruct Hp as [c [_ Hc]]. destruct (c =? 10); [destruct Hc as [<-|[]]; reflexivity|contradiction].
Qed.

(* ---------- blank runs and lexemes ---------- *)
Notation item := (text * piece)%type.
Definition item_text (bp : item) : text := fst bp ++ ptext (snd bp).
Definition item_toks (bp : item) : list token := newlines (fst bp) ++ ptoks (snd bp).
Definition item_pieces (bp : item) : list piece := (match fst bp with [] => [] | b => [PBlank b] end) ++ [snd bp].
Definition its_pieces (its : list item) : list piece := flat_map item_pieces its.

Lemma item_pieces_text bp : flat_map ptext (item_pieces bp) = item_text bp.
Proof. destruct bp as [[|c b] p]; cbn [item_pieces item_text fst snd flat_map app ptext]; rewrite ?app_nil_r; reflexivity. Qed.
Lemma item_pieces_toks bp : flat_map ptoks (item_pieces bp) = item_toks bp.
Proof. destruct bp as [[|c b] p]; cbn [item_pieces item_toks fst snd flat_map app ptoks newlines]; rewrite ?app_nil_r; reflexivity. Qed.
Lemma its_text its : flat_map ptext (its_pieces its) = flat_map item_text its.
Proof. induction its as [|bp t IH]; [reflexivity|]. unfold its_pieces in *. cbn [flat_map]. rewrite flat_map_app, item_pieces_text, IH. reflexivity. Qed.
Lemma its_toks its : flat_map ptoks (its_pieces its) = flat_map item_toks its.
Proof. induction its as [|bp t IH]; [reflexivity|]. unfold its_pieces in *. cbn [flat_map]. rewrite flat_map_app, item_pieces_toks, IH. reflexivity. Qed.

(* a lexeme proper: its text begins with a character that is not white space *)
Definition starts_nonspace (p : piece) : Prop := exists c r, ptext p = c :: r /\ is_space_a c = false.
Fixpoint items_ok (its : list item) (endt : text) : Prop :=
  match its with
  | [] => True
  | bp :: t => Forall (fun x => is_space_a x = true) (fst bp) /\ starts_nonspace (snd bp) /\
               piece_ok (snd bp) (first_of (flat_map item_text t ++ endt)) /\ items_ok t endt
  end.
Lemma items_pieces_ok its endt : items_ok its endt -> pieces_ok (its_pieces its) endt.
Proof.
  induction its as [|[b p] t IH]; intros H; [exact I|]. cbn [items_ok fst snd] in H. destruct H as [Hb [[c [r [Ec Hc]]] [Hp Ht]]].
  unfold its_pieces. cbn [flat_map]. fold (its_pieces t). unfold item_pieces. cbn [fst snd].
  destruct b as [|b0 b'].
  - cbn [app pieces_ok]. split; [rewrite its_text; exact Hp|apply IH; exact Ht].
  - cbn [app pieces_ok]. split; [|split; [rewrite its_text; exact Hp|apply IH; exact Ht]].
    cbn [piece_ok]. split; [discriminate|]. split; [exact Hb|].
    cbn [flat_map]. rewrite Ec. cbn [app first_of hd]. exact Hc.
Qed.

(* closed by white space *)
Theorem lex_items its tail :
  Forall (fun x => is_space_a x = true) tail -> tail <> [] -> items_ok its tail ->
  lex_ascii (flat_map item_text its ++ tail) = Some (flat_map item_toks its ++ newlines tail ++ [tEOF]).
Proof.
  intros Ht Hne Hok. rewrite <- its_text, <- its_toks. apply lex_text; [exact Ht|exact Hne|apply items_pieces_ok; exact Hok].
Qed.

(* closed by a last lexeme - a number or a comment - that runs into the end of the input *)
Definition final_ok (p : piece) : Prop :=
  match p with
  | PNum d => exists c0 d', d = c0 :: d' /\ Forall (fun x => is_digit_a x = true) d /\ (c0 <> 48 \/ d' = [])
  | PComment b => Forall (fun x => x <> 10) b
  | _ => False
  end.
Lemma final_piece p : final_ok p -> ptext p <> [] /\ Forall nonterm (ptoks p) /\
  forall out f, lrun (S (S f)) LInput (lx (ptext p)) out = Some (out ++ ptoks p ++ [tEOF]).
Proof.
  destruct p as [s|w|d|c| | | | |b]; cbn [final_ok]; try contradiction.
  - intros [c0 [d' [-> [Hd Hz]]]]. split; [discriminate|]. split; [repeat constructor|]. intros out f. apply final_num; assumption.
  - intros Hb. split; [discriminate|]. split; [repeat constructor|]. intros out f. apply final_comment. exact Hb.
Qed.
Theorem lex_items_eof its b p :
  Forall (fun x => is_space_a x = true) b -> final_ok p -> starts_nonspace p -> items_ok its (b ++ ptext p) ->
  lex_ascii (flat_map item_text its ++ b ++ ptext p) = Some (flat_map item_toks its ++ newlines b ++ ptoks p ++ [tEOF]).
Proof.
  intros Hb Hf [c [r [Ec Hc]]] Hok. destruct (final_piece p Hf) as [Hne [Hnt Hrun]].
  destruct b as [|b0 b'].
  - cbn [app newlines flat_map]. rewrite <- its_text, <- its_toks.
    apply lex_text_gen; [exact Hne|exact Hrun|exact Hnt|apply items_pieces_ok; exact Hok].
  - (* the blank run is one more lexeme in front of the closing text *)
    replace (flat_map item_text its ++ (b0 :: b') ++ ptext p) with (flat_map ptext (its_pieces its ++ [PBlank (b0 :: b')]) ++ ptext p)
      by (rewrite flat_map_app, its_text; cbn [flat_map ptext]; rewrite app_nil_r, <- app_assoc; reflexivity).
    replace (flat_map item_toks its ++ newlines (b0 :: b') ++ ptoks p ++ [tEOF])
      with (flat_map ptoks (its_pieces its ++ [PBlank (b0 :: b')]) ++ ptoks p ++ [tEOF])
      by (rewrite flat_map_app, its_toks; cbn [flat_map ptoks]; rewrite app_nil_r, <- app_assoc; reflexivity).
    apply lex_text_gen; [exact Hne|exact Hrun|exact Hnt|].
    assert (G : forall ps, pieces_ok ps ((b0 :: b') ++ ptext p) -> pieces_ok (ps ++ [PBlank (b0 :: b')]) (ptext p)).
    { induction ps as [|q t IH]; intros H.
      - cbn [app pieces_ok]. split; [|exact I]. cbn [piece_ok flat_map app]. split; [discriminate|]. split; [exact Hb|].
        rewrite Ec. exact Hc.
      - cbn [app pieces_ok] in *. destruct H as [H1 H2]. split; [|apply IH; exact H2].
        rewrite flat_map_app. cbn [flat_map ptext]. rewrite app_nil_r, <- app_assoc. exact H1. }
    apply G. apply items_pieces_ok. exact Hok.
Qed.
