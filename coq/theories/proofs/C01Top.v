(* C01Top.v — assembles the step-level statement of C01. *)
From GM Require Import Base Exec Emi94 VmArith C01Phase C01Exec QueueProof.
From Coq Require Import Lia.
Open Scope N_scope.

Lemma step_refines M R W P wi c pc q :
  2 <= M -> M <= 2 ^ 32 -> 1 <= R <= M -> 1 <= W <= M -> 1 <= P ->
  core_wf M c -> pc < M -> rq_wf q -> q_size q = P ->
  let '(c', q') := Exec.step M R W wi c pc q in
  let '(c'', l) := Emi94.step M R W P c pc (rq_values q) in
  core_eq M c' c'' /\ rq_values q' = l /\ rq_wf q' /\ q_size q' = P /\ core_wf M c''.
Proof.
  intros HM2 HM HR HW HP Hc Hpc Hq Hs.
  apply cwf_core_wf in Hc.
  pose proof (exec_refines M R W wi HM2 HM HR HW c pc Hc Hpc) as E.
  unfold Exec.step, Emi94.step.
  destruct (exec M R W wi c pc) as [[c' pushes] reps].
  destruct (step_core M R W c pc) as [c'' succs].
  destruct E as (E1 & E2 & E3 & E4). subst succs.
  destruct (rq_pushes q pushes Hq) as (A & B & C).
  split; [intros a _; apply E1|]. split; [rewrite C, Hs; reflexivity|].
  split; [assumption|]. split; [congruence|]. now apply cwf_core_wf.
Qed.

(* non-vacuity: a concrete core and queue meet the hypotheses *)
Example step_hyps_satisfiable :
  let c := set (set empty_core 0 (mkI MOV mI 0 DIRECT 1 DIRECT)) 1 (mkI DJN mF 2 B_DECREMENT 3 A_INCREMENT) in
  core_wf 5 c /\ rq_wf (rq_push (rq_new 2) 1) /\
  fst (Emi94.step 5 3 4 2 c 1 [0]) <> c.
Proof.
  cbv zeta. split; [|split].
  - intros a Ha. rewrite !get_set.
    destruct (a =? 1); [cbn; lia|]. destruct (a =? 0); [cbn; lia|].
    rewrite get_empty. cbn. lia.
  - unfold rq_wf. cbn. lia.
  - intros E. apply (f_equal (fun c => i_b (get c 3))) in E. vm_compute in E. discriminate.
Qed.
