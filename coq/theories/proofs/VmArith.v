(* VmArith.v — when Go's uint64 arithmetic is plain arithmetic; the fold. *)
From GM Require Import Base Exec Emi94.
From Coq Require Import Lia ZifyN ZifyBool.
Open Scope N_scope.
Ltac Zify.zify_post_hook ::= Z.div_mod_to_equations.

Lemma two64_val : two64 = 18446744073709551616. Proof. reflexivity. Qed.
Lemma two32_sq : 2 ^ 32 * 2 ^ 32 = two64. Proof. reflexivity. Qed.
Global Opaque two64.

Lemma w64_small x : x < two64 -> w64 x = x.
Proof. intros. unfold w64. now apply N.mod_small. Qed.
Lemma add64_small a b : a + b < two64 -> add64 a b = a + b.
Proof. intros. unfold add64. now apply w64_small. Qed.
Lemma sub64_small a b : b <= a -> a < two64 -> sub64 a b = a - b.
Proof.
  intros Hb Ha. unfold sub64, w64.
  rewrite (N.mod_small b) by lia.
  replace (a + (two64 - b)) with ((a - b) + 1 * two64) by lia.
  rewrite N.mod_add by (rewrite two64_val; discriminate).
  apply N.mod_small. lia.
Qed.
Lemma mul64_small a b : a * b < two64 -> mul64 a b = a * b.
Proof. intros. unfold mul64. now apply w64_small. Qed.

Lemma mul_bound M x y : M <= 2 ^ 32 -> x < M -> y < M -> x * y < two64.
Proof.
  intros HM Hx Hy. rewrite <- two32_sq.
  apply N.le_lt_trans with (x * 2 ^ 32).
  - apply N.mul_le_mono_l. lia.
  - apply N.mul_lt_mono_pos_r; lia.
Qed.

Lemma M_lt_two64 M : M <= 2 ^ 32 -> 4 * M + 4 < two64.
Proof. rewrite two64_val. intros. assert (2 ^ 32 = 4294967296) by reflexivity. lia. Qed.

Ltac mb := match goal with H : ?M <= 2 ^ 32 |- _ => pose proof (M_lt_two64 M H) end.

Lemma fold_lt M p L : 1 <= L <= M -> fold M p L < M.
Proof.
  intros HL. unfold fold. cbv zeta.
  assert (p mod L < L) by (apply N.mod_lt; lia).
  destruct (L / 2 <? p mod L); lia.
Qed.

Lemma rfold_eq M R p : M <= 2 ^ 32 -> 1 <= R <= M -> rfold M R p = fold M p R.
Proof.
  intros HM HR. mb. unfold rfold, fold. cbv zeta.
  assert (p mod R < R) by (apply N.mod_lt; lia).
  destruct (R / 2 <? p mod R); [|reflexivity].
  rewrite sub64_small by lia. apply add64_small. lia.
Qed.
Lemma wfold_eq M W p : M <= 2 ^ 32 -> 1 <= W <= M -> wfold M W p = fold M p W.
Proof.
  intros HM HW. mb. unfold wfold, fold. cbv zeta.
  assert (p mod W < W) by (apply N.mod_lt; lia).
  destruct (W / 2 <? p mod W); [|reflexivity].
  rewrite sub64_small by lia. apply add64_small. lia.
Qed.

Lemma idx_eq M pc p : M <= 2 ^ 32 -> pc < M -> p < M -> idx M pc p = addr M pc p.
Proof. intros. mb. unfold idx, addr. rewrite add64_small by lia. reflexivity. Qed.
Lemma idx_lt M pc p : 2 <= M -> idx M pc p < M.
Proof. intros. unfold idx. apply N.mod_lt. lia. Qed.
Lemma addr_lt M pc p : 2 <= M -> addr M pc p < M.
Proof. intros. unfold addr. apply N.mod_lt. lia. Qed.

Lemma dec1_eq M x : 2 <= M -> M <= 2 ^ 32 -> x < M -> dec1 M x = (x + M - 1) mod M.
Proof.
  intros. mb. unfold dec1. rewrite add64_small by lia.
  rewrite sub64_small by lia. reflexivity.
Qed.
Lemma inc1_eq M x : M <= 2 ^ 32 -> x < M -> inc1 M x = (x + 1) mod M.
Proof. intros. mb. unfold inc1. rewrite add64_small by lia. reflexivity. Qed.

Lemma g_add_eq M x y : M <= 2 ^ 32 -> x < M -> y < M -> g_add M x y = (x + y) mod M.
Proof. intros. mb. unfold g_add. rewrite add64_small by lia. reflexivity. Qed.
Lemma g_sub_eq M x y : M <= 2 ^ 32 -> x < M -> y < M -> g_sub M x y = (x + M - y) mod M.
Proof.
  intros. mb. unfold g_sub. rewrite sub64_small by lia.
  rewrite add64_small by lia. f_equal. lia.
Qed.
Lemma g_mul_eq M x y : M <= 2 ^ 32 -> x < M -> y < M -> g_mul M x y = (x * y) mod M.
Proof.
  intros. unfold g_mul. rewrite mul64_small; [reflexivity|].
  now apply mul_bound with M.
Qed.

(* djn tests the uint64-decremented copy; same verdict as the modular decrement *)
Lemma djn_test_eq M x : 2 <= M -> M <= 2 ^ 32 -> x < M ->
  nz (sub64 x 1) = negb ((x + M - 1) mod M =? 0).
Proof.
  intros HM2 HM Hx. mb. unfold nz. f_equal.
  destruct (N.eq_dec x 0) as [->|Hn].
  - unfold sub64, w64. cbn [N.add].
    rewrite (N.mod_small 1) by (rewrite two64_val; lia).
    rewrite (N.mod_small (two64 - 1)) by (rewrite two64_val; lia).
    replace (0 + M - 1) with (M - 1) by lia.
    rewrite (N.mod_small (M - 1)) by lia.
    destruct (N.eqb_spec (two64 - 1) 0) as [E|E]; [rewrite two64_val in E; lia|].
    destruct (N.eqb_spec (M - 1) 0); [lia|reflexivity].
  - rewrite sub64_small by lia.
    replace (x + M - 1) with ((x - 1) + 1 * M) by lia.
    rewrite N.mod_add by lia. rewrite (N.mod_small (x - 1)) by lia. reflexivity.
Qed.
