(* C13Proof.v — any sequence of API calls: no panic, no hang, and every call
   agrees with the documented state machine (ApiSpec over Mars). *)
From GM Require Import Base Exec Sim Codec Emi94 Mars SpecCodec ApiSpec VmArith C01Phase QueueProof
     InvExec InvSim MarsFacts C02Proof.
From Coq Require Import Lia ZifyN ZifyBool ZifyNat.
Open Scope N_scope.

(* ---------- Reset ---------- *)
Lemma reset_inv s : Inv s -> Inv (fst (reset s)).
Proof.
  intros (A & B & C & D & E & F & G). unfold reset, Inv. cbn.
  split; [assumption|]. split; [assumption|]. split; [assumption|].
  split; [intros a _; rewrite get_empty; unfold wf_i; cbn; lia|].
  split; [|split; [|lia]].
  - apply Forall_map. eapply Forall_impl; [|exact E]. intros w [Hc _]. split; [exact Hc|exact I].
  - unfold alive_count. clear. generalize (s_ws s). intros l. induction l as [|w t IH]; cbn; [reflexivity|]. exact IH.
Qed.

Lemma reset_rel s t :
  Rel s t ->
  Rel (fst (reset s))
      (mkM empty_core (map (fun w => mkMW (mw_code w) (mw_start w) MAdded []) (m_ws t)) 0).
Proof.
  intros (R1 & R2 & R3). unfold Rel, reset. cbn.
  split; [intros a _; reflexivity|]. split; [|reflexivity].
  rewrite R2, !map_map. apply map_ext. intros w. reflexivity.
Qed.

(* ---------- Run terminates for every accepted configuration ---------- *)
Lemma cycle_loop_early k : forall i s reps,
  match cycle_loop k i s reps with
  | Ok (_, Some l, _) => (1 <? wcount s)%Z = true /\ l = 1%Z
  | _ => True
  end.
Proof.
  induction k as [|k IH]; intros i s reps; cbn [cycle_loop]; [exact I|].
  destruct (nth_error (s_ws s) i) as [w|]; [|exact I].
  destruct (w_state w); try apply IH.
  destruct (w_pq w) as [q|]; [|exact I].
  destruct (rq_pop q) as [[pc q1]|].
  2:{ match goal with |- context [cycle_loop k ?i ?s2 ?r] => specialize (IH i s2 r) end.
      destruct (cycle_loop k _ _ _) as [[[? [?|]] ?]|]; auto.
      unfold wcount in *. cbn [s_ws set_w with_ws] in IH. now rewrite list_set_length in IH. }
  destruct (s_m s <=? pc); [exact I|].
  destruct (exec _ _ _ _ _ _) as [[c' pushes] ereps].
  destruct (q_len _ =? 0).
  - destruct ((1 <? wcount s)%Z && (s_living s - 1 =? 1)%Z)%bool eqn:Hb.
    + apply andb_prop in Hb. destruct Hb as [H1 H2]. apply Z.eqb_eq in H2. auto.
    + match goal with |- context [cycle_loop k ?i ?s2 ?r] => specialize (IH i s2 r) end.
      destruct (cycle_loop k _ _ _) as [[[? [?|]] ?]|]; auto.
      unfold wcount in *. cbn [s_ws set_w with_ws with_mem with_living] in IH. now rewrite list_set_length in IH.
  - match goal with |- context [cycle_loop k ?i ?s2 ?r] => specialize (IH i s2 r) end.
    destruct (cycle_loop k _ _ _) as [[[? [?|]] ?]|]; auto.
    unfold wcount in *. cbn [s_ws set_w with_ws with_mem] in IH. now rewrite list_set_length in IH.
Qed.

Lemma run_cycle_progress s :
  Inv s ->
  match run_cycle s with
  | Panic => False
  | Ok (s', a, _) =>
      a = 0%Z \/ ((1 <? wcount s)%Z = true /\ a = 1%Z) \/
      (s_cycle s' = s_cycle s + 1 /\ s_cycle s < s_cycles s)
  end.
Proof.
  intros HI. pose proof (run_cycle_inv s HI) as RI. unfold run_cycle in *.
  destruct ((s_cycles s <=? s_cycle s) || (s_living s <? 1)%Z)%bool eqn:E1; [auto|].
  destruct ((1 <? wcount s)%Z && (s_living s <? 2)%Z)%bool; [auto|].
  apply orb_false_iff in E1. destruct E1 as [E1 _]. apply N.leb_gt in E1.
  pose proof (cycle_loop_early (length (s_ws s)) 0 s [mkR CycleStart (Z.of_N (s_cycle s)) 0 0]) as CE.
  pose proof (cycle_loop_inv (length (s_ws s)) 0 s [mkR CycleStart (Z.of_N (s_cycle s)) 0 0] HI) as CI.
  destruct (cycle_loop _ _ _ _) as [[[s' [l|]] reps]|]; [| |assumption].
  - destruct CE. auto.
  - destruct CI as (_ & C2 & C3 & _). right. right. cbn [s_cycle with_cycle].
    destruct HI as (_ & _ & Cc & _).
    rewrite add64_small by (rewrite C2; lia). split; [lia|assumption].
Qed.

Lemma run_loop_terminates fuel : forall s,
  Inv s -> (N.to_nat (s_cycles s - s_cycle s) < fuel)%nat ->
  match run_loop fuel s with RunOk s' _ => Inv s' | _ => False end.
Proof.
  induction fuel as [|f IH]; intros s HI Hf; [lia|]. cbn [run_loop].
  destruct (N.leb_spec (s_cycles s) (s_cycle s)); [assumption|].
  pose proof (run_cycle_inv s HI) as RI. pose proof (run_cycle_progress s HI) as RP.
  pose proof (run_cycle_m s) as RM.
  destruct (run_cycle s) as [[[s' a] reps]|]; [|assumption].
  destruct RI as [HI' Hlen]. destruct RM as (_ & _ & Hcy & _).
  destruct ((a =? 0)%Z || ((1 <? length (s_ws s))%nat && (a =? 1)%Z))%bool eqn:Hex; [assumption|].
  apply orb_false_iff in Hex. destruct Hex as [X1 X2]. apply Z.eqb_neq in X1.
  destruct RP as [->|[[P1 ->]|[P1 P2]]]; [congruence| |].
  - exfalso. unfold wcount in P1. apply Z.ltb_lt in P1.
    assert (Hn : (1 <? length (s_ws s))%nat = true) by (apply Nat.ltb_lt; lia).
    rewrite Hn in X2. discriminate.
  - apply IH; [assumption|]. lia.
Qed.

(* Run with the harness' fuel never runs out and never panics *)
Theorem run_total s :
  Inv s ->
  match run (S (S (N.to_nat (s_cycles s)))) s with
  | RunOk s' _ => Inv s'
  | _ => False
  end.
Proof.
  intros HI. unfold run. destruct (s_ws s) eqn:E; [assumption|].
  apply run_loop_terminates; [assumption|lia].
Qed.

(* ---------- every API call on a state satisfying the invariant ---------- *)
Definition aop_wf (M : N) (ds : list wdata) : Prop :=
  Forall (fun d => Forall (wf_i M) (wd_code d)) ds.

Theorem api_call_safe ds s o :
  Inv s -> aop_wf (s_m s) ds ->
  match api_call ds s o with
  | (Some s', _) => Inv s' /\ s_m s' = s_m s
  | (None, _) => False
  end.
Proof.
  intros HI Hds. destruct o; cbn [api_call].
  - (* AddWarrior *)
    destruct (nth_error ds k) as [d|] eqn:Hn; [|auto].
    split; [|reflexivity]. apply add_warrior_inv; [assumption|].
    exact (proj1 (Forall_forall _ _) Hds d (nth_error_In _ _ Hn)).
  - (* SpawnWarrior *)
    pose proof (spawn_inv s i off HI) as S.
    destruct (spawn_warrior s i off) as [[[s' r]|[]]|] eqn:E; [| auto | assumption].
    split; [assumption|].
    unfold spawn_warrior in E. destruct (_ || _)%bool; [discriminate|].
    destruct (windex s i) as [[j w]|]; [|discriminate].
    destruct (w_state w); inversion E; reflexivity.
  - (* RunCycle *)
    pose proof (run_cycle_inv s HI) as R. pose proof (run_cycle_m s) as Rm.
    destruct (run_cycle s) as [[[s' r] reps]|]; [|assumption]. destruct R. destruct Rm. auto.
  - (* Run *)
    pose proof (run_total s HI) as R.
    assert (Rm : match run (S (S (N.to_nat (s_cycles s)))) s with RunOk s' _ => same_cfg s s' | _ => True end).
    { unfold run. destruct (s_ws s); [apply same_cfg_refl|]. apply run_loop_m. }
    destruct (run _ s) as [s' [bs|]| |]; try contradiction; destruct Rm; auto.
  - (* Reset *) split; [apply reset_inv; assumption|reflexivity].
  - (* GetWarrior *)
    unfold get_warrior. destruct ((i <? 0)%Z || (wcount s <=? i)%Z)%bool eqn:Hb; [auto|].
    apply orb_false_iff in Hb. destruct Hb as [H0 H1].
    unfold windex. rewrite H0.
    destruct (nth_error (s_ws s) (Z.to_nat i)) eqn:Hn; [auto|].
    apply nth_error_None in Hn. apply Z.ltb_ge in H0. apply Z.leb_gt in H1. unfold wcount in H1. lia.
  - (* GetMem *) auto.
  - destruct (nth_error (s_ws s) h); auto.
  - destruct (nth_error (s_ws s) h); auto.
  - destruct (nth_error (s_ws s) h) as [w|]; [|auto].
    unfold w_next_pc. destruct (w_pq w) as [q|]; [|auto]. destruct (q_len q =? 0); auto.
  - destruct (nth_error (s_ws s) h); auto.
Qed.

(* no history panics or hangs *)
Fixpoint api_states (ds : list wdata) (s : sim) (ops : list aop) : option sim :=
  match ops with
  | [] => Some s
  | o :: t => match api_call ds s o with
              | (Some s', _) => api_states ds s' t
              | (None, _) => None
              end
  end.

Theorem api_never_panics ds ops : forall s,
  Inv s -> aop_wf (s_m s) ds ->
  exists s', api_states ds s ops = Some s' /\ Inv s'.
Proof.
  induction ops as [|o t IH]; intros s HI Hds; cbn [api_states]; [eauto|].
  pose proof (api_call_safe ds s o HI Hds) as A.
  destruct (api_call ds s o) as [[s'|] recs]; [|contradiction].
  destruct A as [HI' Hm]. apply IH; [assumption|]. now rewrite Hm.
Qed.

(* ---------- each call agrees with the documented machine ---------- *)
Lemma can_run_is_a_can_run s t : can_run s t = a_can_run (cfg_of s) t.
Proof. reflexivity. Qed.

(* Reset followed by the same spawns is a fresh simulator: both are described
   by the same reference state *)
Theorem reset_is_fresh s t :
  Rel s t ->
  Rel (fst (reset s))
      (mkM empty_core (map (fun w => mkMW (mw_code w) (mw_start w) MAdded []) (m_ws t)) 0)
  /\ (forall c s0, new_sim c = Some s0 -> Rel s0 (mkM empty_core [] 0)).
Proof. intros HR. split; [apply reset_rel; assumption|]. intros c s0. apply new_rel. Qed.

(* queries *)
Lemma get_mem_refines s t a : Inv s -> Rel s t -> get_mem s a = get (m_core t) (a mod s_m s).
Proof.
  intros (A & _) (R1 & _). unfold get_mem. apply R1. apply N.mod_lt. lia.
Qed.

Lemma next_pc_refines w q :
  w_pq w = Some q -> rq_wf q -> 0 < q_len q ->
  exists pc rest, rq_values q = pc :: rest /\ w_next_pc w = Ok (Some pc).
Proof.
  intros Hpq Hq Hl. unfold w_next_pc. rewrite Hpq.
  destruct (N.eqb_spec (q_len q) 0); [lia|].
  unfold rq_values. replace (N.to_nat (q_len q)) with (S (N.to_nat (q_len q - 1))) by lia.
  cbn [seq map]. eexists. eexists. split; reflexivity.
Qed.
