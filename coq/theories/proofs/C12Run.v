(* C12Run.v — a battle shifted around the core is the rotated battle:
   spawn, one cycle and run-to-completion of the reference scheduler commute
   with rotation; offsets congruent modulo M are interchangeable. *)
From GM Require Import Base Emi94 Mars Rotate MarsFacts C12Step.
From Coq Require Import Lia ZifyN ZifyBool ZifyNat.
Open Scope N_scope.

Definition rotw (M k : N) (w : mwar) : mwar :=
  mkMW (mw_code w) (mw_start w) (mw_st w) (map (shift M k) (mw_q w)).
(* t' is t rotated by k *)
Definition mrot (M k : N) (t t' : mars) : Prop :=
  rot_rel M k (m_core t) (m_core t') /\ m_ws t' = map (rotw M k) (m_ws t) /\ m_cycles t' = m_cycles t.
(* every queued program counter is an address *)
Definition mwf (M : N) (t : mars) : Prop :=
  Forall (fun w => Forall (fun x => x < M) (mw_q w)) (m_ws t).

Lemma enq_map (f : N -> N) P q xs : enq P (map f q) (map f xs) = map f (enq P q xs).
Proof.
  unfold enq. revert q. induction xs as [|x xs IH]; intros q; cbn [fold_left map]; [reflexivity|].
  rewrite map_length.
  destruct (_ <? _); [|apply IH]. rewrite <- IH. f_equal. now rewrite map_app.
Qed.

Lemma m_alive_rotw M k w : m_alive (rotw M k w) = m_alive w.
Proof. reflexivity. Qed.
Lemma m_living_rot M k ws : length (filter m_alive (map (rotw M k) ws)) = length (filter m_alive ws).
Proof. induction ws as [|w t IH]; cbn; [reflexivity|]. rewrite m_alive_rotw. destruct (m_alive w); cbn; lia. Qed.

Lemma replace_nth_map {A B} (f : A -> B) l i x : map f (replace_nth l i x) = replace_nth (map f l) i (f x).
Proof. revert i. induction l as [|h t IH]; intros [|i]; cbn; try reflexivity. now rewrite IH. Qed.

Lemma replace_nth_Forall {A} (P : A -> Prop) l i x : Forall P l -> P x -> Forall P (replace_nth l i x).
Proof.
  revert i. induction l as [|h t IH]; intros i Hl Hx; [destruct i; constructor|].
  inversion Hl; subst. destruct i; cbn; constructor; auto.
Qed.

Lemma step_core_succ_lt M R W c pc : 0 < M -> Forall (fun x => x < M) (snd (step_core M R W c pc)).
Proof.
  intros HM. unfold step_core, step_core_g.
  destruct (eval_operand_g _ _ _ c pc _ _) as [[[c1 rpa] wpa] ira].
  destruct (eval_operand_g _ _ _ c1 pc _ _) as [[[c2 rpb] wpb] irb].
  assert (H1 : forall x, x mod M < M) by (intros; apply N.mod_lt; lia).
  destruct (i_op (get c pc)); cbn [snd];
    repeat match goal with |- context [if ?b then _ else _] => destruct b end;
    repeat constructor; unfold addr; apply H1.
Qed.

Lemma enq_Forall' (Q : N -> Prop) P q xs : Forall Q q -> Forall Q xs -> Forall Q (enq P q xs).
Proof.
  unfold enq. revert q. induction xs as [|x xs IH]; intros q Hq Hx; cbn [fold_left]; [assumption|].
  inversion Hx; subst. apply IH; [|assumption].
  destruct (_ <? _); [|assumption]. apply Forall_app. split; [assumption|]. constructor; [assumption|constructor].
Qed.

Section Run.
Variable cfg : mcfg.
Variable k : N.
Let M := mc_M cfg.
Hypothesis HM : 0 < M.

Lemma m_cycle_from_rot n : forall i t t' tr tr',
  mrot M k t t' -> mwf M t ->
  let '(t1, e1, _) := m_cycle_from cfg n i t tr in
  let '(t1', e1', _) := m_cycle_from cfg n i t' tr' in
  mrot M k t1 t1' /\ mwf M t1 /\ e1' = e1.
Proof.
  induction n as [|n IH]; intros i t t' tr tr' HR HW; cbn [m_cycle_from]; [auto|].
  pose proof HR as (R1 & R2 & R3).
  rewrite R2, nth_error_map.
  destruct (nth_error (m_ws t) i) as [w|] eqn:Hn; cbn [option_map]; [|auto].
  pose proof (proj1 (Forall_forall _ _) HW w (nth_error_In _ _ Hn)) as Hq. cbv beta in Hq.
  cbn [rotw mw_st mw_q mw_code mw_start].
  destruct (mw_st w); try (apply IH; assumption).
  destruct (mw_q w) as [|pc q] eqn:Eq; cbn [map]; [apply IH; assumption|].
  pose proof (Forall_inv Hq) as Hpc. pose proof (Forall_inv_tail Hq) as Hqt. cbv beta in Hpc.
  pose proof (step_core_rot M k HM (fun p => fold M p (mc_R cfg)) (fun p => fold M p (mc_W cfg))
                            (m_core t) (m_core t') pc R1 Hpc) as SR.
  pose proof (step_core_succ_lt M (mc_R cfg) (mc_W cfg) (m_core t) pc HM) as SL.
  fold M. unfold step_core in *.
  destruct (step_core_g M _ _ (m_core t) pc) as [c1 s1].
  destruct (step_core_g M _ _ (m_core t') (shift M k pc)) as [c1' s1'].
  destruct SR as [SR1 SR2]. subst s1'. cbn [snd] in SL.
  rewrite enq_map, map_length.
  assert (HF : Forall (fun x => x < M) (enq (mc_P cfg) q s1)) by (apply enq_Forall'; assumption).
  destruct (enq (mc_P cfg) q s1) as [|x0 xs0] eqn:Eenq; cbn [map].
  - set (t2 := mkM c1 (replace_nth (m_ws t) i (mkMW (mw_code w) (mw_start w) MDead [])) (m_cycles t)).
    set (t2' := mkM c1' (replace_nth (map (rotw M k) (m_ws t)) i (mkMW (mw_code w) (mw_start w) MDead [])) (m_cycles t')).
    assert (HR2 : mrot M k t2 t2').
    { unfold mrot, t2, t2'. cbn [m_core m_ws m_cycles]. split; [assumption|]. split; [|assumption].
      rewrite replace_nth_map. reflexivity. }
    assert (HW2 : mwf M t2).
    { unfold mwf, t2. cbn [m_ws]. apply replace_nth_Forall; [assumption|constructor]. }
    assert (HL : m_living t2' = m_living t2).
    { unfold m_living, t2, t2'. cbn [m_ws].
      change (mkMW (mw_code w) (mw_start w) MDead []) with (rotw M k (mkMW (mw_code w) (mw_start w) MDead [])) at 1.
      rewrite <- (replace_nth_map (rotw M k)). apply m_living_rot. }
    rewrite HL, map_length.
    destruct ((1 <? length (m_ws t))%nat && (m_living t2 =? 1)%nat)%bool; [auto|].
    apply IH; assumption.
  - set (t2 := mkM c1 (replace_nth (m_ws t) i (mkMW (mw_code w) (mw_start w) MAlive (x0 :: xs0))) (m_cycles t)).
    set (t2' := mkM c1' (replace_nth (map (rotw M k) (m_ws t)) i
                   (mkMW (mw_code w) (mw_start w) MAlive (shift M k x0 :: map (shift M k) xs0))) (m_cycles t')).
    assert (HR2 : mrot M k t2 t2').
    { unfold mrot, t2, t2'. cbn [m_core m_ws m_cycles]. split; [assumption|]. split; [|assumption].
      rewrite replace_nth_map. reflexivity. }
    assert (HW2 : mwf M t2).
    { unfold mwf, t2. cbn [m_ws]. apply replace_nth_Forall; assumption. }
    apply IH; assumption.
Qed.

Theorem m_cycle_rot t t' :
  mrot M k t t' -> mwf M t ->
  mrot M k (m_cycle cfg t) (m_cycle cfg t') /\ mwf M (m_cycle cfg t).
Proof.
  intros HR HW. unfold m_cycle, m_cycle_tr.
  pose proof (m_cycle_from_rot (length (m_ws t)) 0 t t' [] [] HR HW) as L.
  assert (Hlen : length (m_ws t') = length (m_ws t)) by (destruct HR as (_ & -> & _); apply map_length).
  rewrite Hlen.
  destruct (m_cycle_from cfg (length (m_ws t)) 0 t []) as [[t1 e1] tr1].
  destruct (m_cycle_from cfg (length (m_ws t)) 0 t' []) as [[t1' e1'] tr1'].
  destruct L as (L1 & L2 & ->). cbn [fst].
  destruct e1; [auto|].
  destruct L1 as (A & B & C). split; [|exact L2].
  unfold mrot. cbn [m_core m_ws m_cycles]. split; [assumption|]. split; [assumption|]. now rewrite C.
Qed.

Lemma m_finished_rot t t' : mrot M k t t' -> m_finished cfg t' = m_finished cfg t.
Proof.
  intros (_ & R2 & R3). unfold m_finished, m_living. rewrite R2, R3, map_length, m_living_rot. reflexivity.
Qed.

Theorem m_until_done_rot fuel : forall t t',
  mrot M k t t' -> mwf M t ->
  mrot M k (m_until_done cfg fuel t) (m_until_done cfg fuel t').
Proof.
  induction fuel as [|f IH]; intros t t' HR HW; cbn [m_until_done]; [assumption|].
  rewrite (m_finished_rot t t' HR).
  destruct (m_finished cfg t); [assumption|].
  destruct (m_cycle_rot t t' HR HW). apply IH; assumption.
Qed.

(* spawning the same warrior k cells further *)
Lemma m_load_rot code : forall c c' off,
  rot_rel M k c c' -> rot_rel M k (m_load M c off code) (m_load M c' (off + k) code).
Proof.
  induction code as [|x t IH]; intros c c' off H; cbn [m_load]; [assumption|].
  replace (off + k + 1) with (off + 1 + k) by lia. apply IH.
  replace ((off + k) mod M) with (shift M k (off mod M)).
  - apply rot_set; [assumption|assumption|apply N.mod_lt; lia].
  - unfold shift. now rewrite N.add_mod_idemp_l by lia.
Qed.

Theorem m_spawn_rot t t' i off :
  mrot M k t t' -> mwf M t ->
  match m_spawn cfg t i off, m_spawn cfg t' i (off + k) with
  | Some t1, Some t1' => mrot M k t1 t1' /\ mwf M t1
  | None, None => True
  | _, _ => False
  end.
Proof.
  intros (R1 & R2 & R3) HW. unfold m_spawn. rewrite R2, nth_error_map.
  destruct (nth_error (m_ws t) i) as [w|] eqn:Hn; cbn [option_map]; [|exact I].
  rewrite m_alive_rotw. destruct (m_alive w); [exact I|].
  cbn [rotw mw_code mw_start]. fold M.
  assert (HP : enq (mc_P cfg) [] [Z.to_N ((Z.of_N (off + k) + mw_start w) mod Z.of_N M)]
             = map (shift M k) (enq (mc_P cfg) [] [Z.to_N ((Z.of_N off + mw_start w) mod Z.of_N M)])).
  { unfold enq. cbn [fold_left length]. destruct (_ <? _); [|reflexivity]. cbn [app map]. f_equal.
    unfold shift.
    assert (HZ : (0 < Z.of_N M)%Z) by lia.
    apply N2Z.inj. rewrite N2Z.inj_mod, !N2Z.inj_add.
    rewrite !Z2N.id by (apply Z.mod_pos_bound; lia).
    rewrite Zplus_mod_idemp_l. f_equal. lia. }
  split.
  - unfold mrot. cbn [m_core m_ws m_cycles]. split; [apply m_load_rot; assumption|]. split; [|assumption].
    rewrite replace_nth_map. cbn [rotw mw_code mw_start mw_st mw_q]. rewrite HP. reflexivity.
  - unfold mwf. cbn [m_ws]. apply replace_nth_Forall; [assumption|]. cbn [mw_q].
    apply enq_Forall'; [constructor|]. constructor; [|constructor].
    apply N2Z.inj_lt. rewrite Z2N.id by (apply Z.mod_pos_bound; lia). apply Z.mod_pos_bound. lia.
Qed.

(* offsets congruent modulo M are the same placement *)
Theorem m_spawn_congruent t i off j : m_spawn cfg t i (off + j * M) = m_spawn cfg t i off.
Proof.
  unfold m_spawn. destruct (nth_error (m_ws t) i) as [w|]; [|reflexivity].
  destruct (m_alive w); [reflexivity|]. fold M. f_equal. f_equal.
  - apply m_load_congr; [assumption|]. now rewrite N.mod_add by lia.
  - f_equal. f_equal. f_equal. f_equal. f_equal.
    rewrite N2Z.inj_add, N2Z.inj_mul.
    replace (Z.of_N off + Z.of_N j * Z.of_N M + mw_start w)%Z
      with (Z.of_N off + mw_start w + Z.of_N j * Z.of_N M)%Z by lia.
    apply Z_mod_plus_full.
Qed.
End Run.
