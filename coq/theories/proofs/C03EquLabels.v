(* C03EquLabels.v — from a source text to the instructions it denotes, for programs of labelled
   instructions and EQU definitions: the scanner and the pass driver (nothing to expand, but EQU lines
   to read), the parser (C03Parse), the compiler (C03EquCompile). *)
From GM Require Import Base Text Token Lexer Scanner ExprSpec ExprEval ForExpand Parser Sim Compile
     Prog Meaning AsmSpec C03Lexer C05Lexer C05Fuel C03Proof C07Model C10Proof C14Proof C16Proof ScanProof
     C08Proof C08Block C08Scan C08Passes C09Parse C09Asm C09GenCompile C09GenLex C03Parse C03Compile C03Labels C03EquCompile.
From Coq Require Import Lia.
Open Scope Z_scope.

(* ---------- the lines of a document as the scanner sees them ---------- *)
(* a label section: each name with the colons and line ends that follow it *)
Fixpoint group_acc (cur : option (text * list token)) (l : list ltok) : list (text * list token) :=
  match l with
  | [] => match cur with Some c => [c] | None => [] end
  | LName n :: r => (match cur with Some c => [c] | None => [] end) ++ group_acc (Some (n, [])) r
  | LColon :: r => match cur with Some (n, j) => group_acc (Some (n, j ++ [colon])) r | None => group_acc None r end
  | LNl :: r => match cur with Some (n, j) => group_acc (Some (n, j ++ [nlt])) r | None => group_acc None r end
  end.
Definition cur_toks (cur : option (text * list token)) : list token :=
  match cur with Some (n, j) => mkT tokText n :: j | None => [] end.
Lemma group_toks : forall l cur, (cur = None -> match l with [] | LName _ :: _ => True | _ => False end) ->
  plbl_seg (group_acc cur l) = cur_toks cur ++ map ltok_tok l.
Proof.
  induction l as [|x r IH]; intros cur Hc.
  - cbn [group_acc map]. destruct cur as [[n j]|]; cbn [plbl_seg flat_map cur_toks app]; rewrite ?app_nil_r; reflexivity.
  - destruct x as [n| |]; cbn [group_acc map ltok_tok].
    + unfold plbl_seg. rewrite flat_map_app. fold (plbl_seg (group_acc (Some (n, [])) r)). rewrite IH by discriminate.
      destruct cur as [[n0 j0]|]; cbn [flat_map cur_toks app fst snd]; rewrite ?app_nil_r; reflexivity.
    + destruct cur as [[n0 j0]|]; [|destruct (Hc eq_refl)]. rewrite IH by discriminate. cbn [cur_toks app]. f_equal. rewrite <- app_assoc. reflexivity.
    + destruct cur as [[n0 j0]|]; [|destruct (Hc eq_refl)]. rewrite IH by discriminate. cbn [cur_toks app]. f_equal. rewrite <- app_assoc. reflexivity.
Qed.
Lemma group_names : forall l cur, map fst (group_acc cur l) = (match cur with Some c => [fst c] | None => [] end) ++ lnames l.
Proof.
  induction l as [|x r IH]; intros cur.
  - cbn [group_acc lnames flat_map]. destruct cur; cbn; rewrite ?app_nil_r; reflexivity.
  - destruct x as [n| |]; cbn [group_acc lnames flat_map].
    + rewrite map_app, IH. fold (lnames r). destruct cur; cbn [map fst app]; reflexivity.
    + fold (lnames r). destruct cur as [[n0 j0]|]; rewrite IH; reflexivity.
    + fold (lnames r). destruct cur as [[n0 j0]|]; rewrite IH; reflexivity.
Qed.
Lemma group_ok : forall l cur, Forall label_name (lnames l) ->
  (match cur with Some (n, j) => is_label n /\ Forall junk_tok j | None => True end) ->
  plbl_ok (group_acc cur l).
Proof.
  assert (Hil : forall n, label_name n -> is_label n).
  { intros n H. unfold label_name, tok_is_op in H. unfold is_label, tok_is_op. cbn [t_typ t_val] in *.
    destruct (tok_is_pseudo (mkT tokText n)) eqn:E; [rewrite orb_true_r in H; discriminate H|]. split; [reflexivity|exact H]. }
  induction l as [|x r IH]; intros cur Hn Hc.
  - cbn [group_acc]. destruct cur as [[n j]|]; [constructor; [exact Hc|constructor]|constructor].
  - destruct x as [n| |]; cbn [group_acc lnames flat_map app] in *.
    + inversion Hn as [|a b Ha Hb]; subst. unfold plbl_ok. apply Forall_app. split.
      * destruct cur as [[n0 j0]|]; [constructor; [exact Hc|constructor]|constructor].
      * apply IH; [exact Hb|]. split; [apply Hil; exact Ha|constructor].
    + destruct cur as [[n0 j0]|]; apply IH; try assumption; try exact I. destruct Hc as [H1 H2]. split; [exact H1|].
      apply Forall_app. split; [exact H2|constructor; [exact I|constructor]].
    + destruct cur as [[n0 j0]|]; apply IH; try assumption; try exact I. destruct Hc as [H1 H2]. split; [exact H1|].
      apply Forall_app. split; [exact H2|constructor; [exact I|constructor]].
Qed.

Definition line_rest (x : lelem) : list ltok * list token :=
  match x with
  | LInstr t => (tl_labs t, mkT tokText (tl_op t) :: mode_toks (tl_am t) ++
                   (match tl_B t with Some (bm, _) => tl_A t ++ mkT tokComma [44%N] :: mode_toks bm | None => [] end)
                   ++ tline_last t ++ cmt_toks (tl_cmt t))
  | LComment c => ([], [mkT tokComment c])
  | LDir kw e cmt => ([], mkT tokText kw :: e ++ cmt_toks cmt)
  | LEqu labs kw e cmt => (labs, mkT tokText kw :: e ++ cmt_toks cmt)
  end.
Definition elem_plines (xk : lelem * nat) : list pline :=
  mkPL (group_acc None (fst (line_rest (fst xk)))) (snd (line_rest (fst xk))) :: repeat (mkPL [] []) (pred (snd xk)).
Definition doc_plines (lead : nat) (es : list (lelem * nat)) : list pline := repeat (mkPL [] []) lead ++ flat_map elem_plines es.

Lemma empty_plines k : flat_map pl_toks (repeat (mkPL [] []) k) = repeat nl_tok k.
Proof. induction k as [|k IH]; [reflexivity|]. cbn [repeat flat_map]. rewrite IH. reflexivity. Qed.

Definition labs_shape (x : lelem) : Prop :=
  match fst (line_rest x) with [] | LName _ :: _ => True | _ => False end.

Lemma elem_plines_toks x k : labs_shape x -> (1 <= k)%nat ->
  flat_map pl_toks (elem_plines (x, k)) = lelem_toks x ++ repeat nl_tok k.
Proof.
  intros Hs Hk. unfold elem_plines. cbn [fst snd flat_map]. rewrite empty_plines. unfold pl_toks at 1. cbn [pl_labels pl_rest].
  rewrite group_toks by (intros _; exact Hs). cbn [cur_toks app].
  destruct k as [|k]; [lia|]. cbn [pred repeat].
  destruct x as [t|c|kw e cmt|labs kw e cmt]; cbn [line_rest fst snd lelem_toks map app].
  - unfold tline_toks, tline_head. rewrite <- !app_assoc. cbn [app]. rewrite <- !app_assoc.
    destruct (tl_B t) as [[bm B]|]; cbn [app]; rewrite <- ?app_assoc; reflexivity.
  - reflexivity.
  - rewrite <- !app_assoc. reflexivity.
  - rewrite <- !app_assoc. cbn [app]. rewrite <- !app_assoc. reflexivity.
Qed.

Lemma doc_plines_toks lead es : Forall (fun xk => labs_shape (fst xk) /\ (1 <= snd xk)%nat) es ->
  flat_map pl_toks (doc_plines lead es) = repeat nl_tok lead ++ body es.
Proof.
  intros H. unfold doc_plines. rewrite flat_map_app, empty_plines. f_equal.
  induction H as [|[x k] t [Hs Hk] _ IH]; [reflexivity|]. cbn [flat_map body]. rewrite flat_map_app, IH.
  cbn [fst snd] in Hs, Hk. rewrite (elem_plines_toks x k Hs Hk). rewrite <- app_assoc. reflexivity.
Qed.

(* ---------- the count pre-check of the model on EQU lines ---------- *)
Section Counts.
Variable spell : N -> text.

Definition ntok_operand (t : ntok) : bool := match t with TE (ENum _) | TN _ => true | _ => false end.
Lemma is_operand_tau t : is_operand (ntok_tok spell t) = ntok_operand t.
Proof. destruct t as [[n|o| |]|id]; reflexivity. Qed.

(* in a printed expression two operands are never neighbours; it begins and ends as expressions do *)
Definition nlast_ok (l : list ntok) : Prop := match rev l with t :: _ => match t with TE (ENum _) | TN _ | TE ERp => True | _ => False end | [] => False end.
Lemma operand_adjacent_app a x b : is_operand x = false ->
  operand_adjacent (a ++ x :: b) = operand_adjacent a || operand_adjacent b.
Proof.
  intros Hx.
  assert (H0 : operand_adjacent (x :: b) = operand_adjacent b).
  { destruct b as [|y b']; [reflexivity|]. cbn [operand_adjacent]. rewrite Hx. reflexivity. }
  induction a as [|t r IH]; cbn [app]; [exact H0|].
  destruct r as [|t2 r2].
  - cbn [app]. change (operand_adjacent (t :: x :: b)) with ((is_operand t && is_operand x) || operand_adjacent (x :: b)).
    rewrite Hx, andb_false_r, H0. reflexivity.
  - cbn [app] in *. change (operand_adjacent (t :: t2 :: r2 ++ x :: b)) with ((is_operand t && is_operand t2) || operand_adjacent (t2 :: r2 ++ x :: b)).
    rewrite IH. change (operand_adjacent (t :: t2 :: r2)) with ((is_operand t && is_operand t2) || operand_adjacent (t2 :: r2)).
    rewrite orb_assoc. reflexivity.
Qed.

Lemma print_not_adjacent e : operand_adjacent (etoks spell e) = false.
Proof.
  unfold etoks. induction e as [n|id|e IH|mn e IH|o a IHa b IHb]; cbn [nprint map]; try reflexivity.
  - rewrite map_app. cbn [map].
    change (ntok_tok spell (TE ELp) :: map (ntok_tok spell) (nprint e) ++ [ntok_tok spell (TE ERp)])
      with ([] ++ ntok_tok spell (TE ELp) :: (map (ntok_tok spell) (nprint e) ++ [ntok_tok spell (TE ERp)])).
    rewrite operand_adjacent_app by reflexivity. cbn [operand_adjacent orb].
    rewrite operand_adjacent_app by reflexivity. rewrite IH. reflexivity.
  - change (ntok_tok spell (TE (EOp (if mn then OSub else OAdd))) :: map (ntok_tok spell) (nprint e))
      with ([] ++ ntok_tok spell (TE (EOp (if mn then OSub else OAdd))) :: map (ntok_tok spell) (nprint e)).
    rewrite operand_adjacent_app by (destruct mn; reflexivity). rewrite IH. reflexivity.
  - rewrite map_app. cbn [map]. rewrite operand_adjacent_app by (destruct o; reflexivity). rewrite IHa, IHb. reflexivity.
Qed.
Lemma print_count_ok e : forallb count_tok_ok (etoks spell e) = true.
Proof.
  unfold etoks. apply forallb_forall. intros t Ht. apply in_map_iff in Ht. destruct Ht as [x [<- _]].
  destruct x as [[n|o| |]|id]; try reflexivity.
  - unfold count_tok_ok. cbn [ntok_tok inj t_typ]. rewrite (to_etok_inj (ENum (Z.of_N (Z.to_N n)))) || idtac.
    cbn [to_etok t_typ t_val]. rewrite parse_digits_dec. reflexivity.
  - destruct o; reflexivity.
Qed.
End Counts.

(* ---------- counts_modelled on a document ---------- *)
Definition skippable (t : token) : Prop :=
  plainword t /\ t_typ t <> tokEOF /\ t_typ t <> tokError.
Lemma cm_skip : forall ts rest, Forall skippable ts -> counts_modelled (ts ++ rest) None = counts_modelled rest None.
Proof.
  induction ts as [|t ts IH]; intros rest H; [reflexivity|]. inversion H as [|x y [Hp [H1 H2]] Hy]; subst.
  cbn [app counts_modelled]. destruct (t_typ t) eqn:Et; try congruence; cbn [count_line_ok andb]; try (apply IH; exact Hy).
  destruct (Hp Et) as [F1 F2]. rewrite F1, F2. cbn [orb]. apply IH. exact Hy.
Qed.
Lemma cm_acc : forall ts acc rest, Forall (fun t => t_typ t <> tokNewline /\ t_typ t <> tokEOF /\ t_typ t <> tokError) ts ->
  counts_modelled (ts ++ nl_tok :: rest) (Some acc) = count_line_ok (Some (acc ++ ts)) && counts_modelled rest None.
Proof.
  induction ts as [|t ts IH]; intros acc rest H.
  - cbn [app counts_modelled nl_tok t_typ]. rewrite app_nil_r. reflexivity.
  - inversion H as [|x y [H1 [H2 H3]] Hy]; subst. cbn [app counts_modelled].
    destruct (t_typ t) eqn:Et; try congruence; rewrite (IH _ _ Hy), <- app_assoc; reflexivity.
Qed.
Lemma repeat_nl_skippable k : Forall skippable (repeat nl_tok k).
Proof. induction k; cbn [repeat]; constructor; try assumption. split; [intros X; discriminate X|split; discriminate]. Qed.

(* ---------- names: predefined, EQU or label ---------- *)
Section Names.
Variable cf : mconf.
Variable ev : env.
Variable ls : labels.

Definition knownE (id : N) : Prop :=
  predefined_value cf id <> None \/ env_find id ev <> None \/ lab_find' id ls <> None.

Lemma spe_all_app i a b : spe_all cf ev ls i (a ++ b) =
  match spe_all cf ev ls i a, spe_all cf ev ls i b with Some x, Some y => Some (x ++ y) | _, _ => None end.
Proof.
  induction a as [|t r IH]; cbn [app spe_all].
  - destruct (spe_all cf ev ls i b); reflexivity.
  - rewrite IH. destruct (spe_tok cf ev ls i t), (spe_all cf ev ls i r), (spe_all cf ev ls i b); try reflexivity. rewrite app_assoc. reflexivity.
Qed.
Lemma spe_all_some i e l : spe_all cf ev ls i (nprint e) = Some l -> Forall knownE (names e).
Proof.
  revert l. induction e as [n|id|e IH|m e IH|o a IHa b IHb]; cbn [names nprint]; intros l H.
  - constructor.
  - constructor; [|constructor]. cbn [spe_all spe_tok] in H. unfold knownE.
    destruct (predefined_value cf id); [left; discriminate|]. destruct (env_find id ev); [right; left; discriminate|].
    destruct (lab_find' id ls); [right; right; discriminate|discriminate].
  - cbn [spe_all spe_tok] in H. rewrite spe_all_app in H. destruct (spe_all cf ev ls i (nprint e)) as [x|] eqn:E; [|discriminate]. eapply IH. reflexivity.
  - cbn [spe_all spe_tok] in H. destruct (spe_all cf ev ls i (nprint e)) as [x|] eqn:E; [|discriminate]. eapply IH. reflexivity.
  - rewrite spe_all_app in H. destruct (spe_all cf ev ls i (nprint a)) as [x|] eqn:Ea; [|discriminate].
    cbn [spe_all spe_tok] in H. destruct (spe_all cf ev ls i (nprint b)) as [y|] eqn:Eb; [|discriminate].
    apply Forall_app. split; [eapply IHa|eapply IHb]; reflexivity.
Qed.
Lemma value_names i e v : value_at cf ev ls i e = MV v -> Forall knownE (names e).
Proof.
  unfold value_at. cbn [subst_all]. fold (all_te (nprint e)). destruct (all_te (nprint e)) eqn:Ea.
  - intros _. rewrite (all_te_nonames e Ea). constructor.
  - rewrite subst_pass_spe. destruct (spe_all cf ev ls i (nprint e)) as [l'|] eqn:Es; [|discriminate]. intros _. apply (spe_all_some i e l' Es).
Qed.
End Names.

(* ---------- the glue over documents with EQU lines ---------- *)
Section EquGlue.
Variable spell : N -> text.
Variable cfg : config.
Variable its : list Prog.item.
Notation cf := (mconf_of cfg).
Notation ev := (equs its).
Notation ils := (instrs its).
Notation ls := (lab_pairs 0 ils).
Notation ids := (flat_map il_labels ils ++ map fst ev).
Hypothesis Hsp : spell_ok spell ids.

(* a table that knows the labels and the EQU names: "known" of C03Labels then means predefined, EQU or label *)
Definition lbs' : labels := ls ++ map (fun n => (n, 0)) (map fst ev).
Lemma lbs'_keys : map fst lbs' = ids.
Proof. unfold lbs'. rewrite map_app, lab_pairs_keys. f_equal. rewrite map_map. cbn [fst]. apply map_id. Qed.
Lemma Hsp' : spell_ok spell (map fst lbs').
Proof. rewrite lbs'_keys. exact Hsp. Qed.

Lemma lab_find'_keys id (ps : labels) : In id (map fst ps) -> lab_find' id ps <> None.
Proof.
  induction ps as [|[k v] t IH]; intros H; [destruct H|]. cbn [lab_find' map fst In] in *.
  destruct (N.eqb_spec k id); [discriminate|]. apply IH. destruct H as [H|H]; [congruence|exact H].
Qed.
Lemma knownE_known id : knownE cf ev ls id -> known cf lbs' id.
Proof.
  intros [H|[H|H]]; [left; exact H| |].
  - right. apply lab_find'_keys. rewrite lbs'_keys. apply in_or_app. right.
    destruct (env_find id ev) as [d|] eqn:E; [|congruence]. apply (env_find_in id ev d E).
  - right. apply lab_find'_keys. rewrite lbs'_keys. apply in_or_app. left. rewrite <- lab_pairs_keys with (a := 0).
    destruct (lab_find' id ls) as [a|] eqn:E; [|congruence]. apply (lab_find'_in _ _ _ E).
Qed.

Definition bodies_known : Prop := Forall (fun ne => Forall (knownE cf ev ls) (names (snd ne))) ev.

Lemma meaning_line_knownE l t i x : renders_line spell l t -> instr_meaning cf ev ls i l = MI x ->
  Forall (known cf lbs') (line_names l).
Proof.
  intros _ H. unfold instr_meaning in H. cbv zeta in H.
  destruct (if mf_legacy cf then _ else _) as [md|]; [|discriminate].
  destruct (value_at cf ev ls i (o_expr (il_a l))) as [av| |] eqn:Eva; try discriminate.
  unfold line_names. apply Forall_app. split.
  - eapply Forall_impl; [apply knownE_known|]. apply (value_names cf ev ls i _ av Eva).
  - destruct (il_b l) as [b|]; [|constructor].
    destruct (value_at cf ev ls i (o_expr b)) as [bv| |] eqn:Evb; try discriminate.
    eapply Forall_impl; [apply knownE_known|]. apply (value_names cf ev ls i _ bv Evb).
Qed.

Lemma r2_known org its0 es : renders_doc2 spell org its0 es -> forall i acc code s,
  meaning_code cf ev ls i (instrs its0) acc = MOk code s -> Forall (fun l => Forall (known cf lbs') (line_names l)) (instrs its0).
Proof.
  induction 1 as [|org l its1 t k es Hl _ IH|org c k its1 es _ _ IH|e kw cmt k its1 es _ _ _ IH|org n e labs kw cmt k its1 es _ _ _ _ IH];
    intros i acc code s H; cbn [instrs] in *; try (apply (IH _ _ _ _ H)); [constructor|].
  cbn [meaning_code] in H. destruct (instr_meaning cf ev ls i l) as [x| |] eqn:Ei; try discriminate.
  constructor; [apply (meaning_line_knownE l t i x Hl Ei)|apply (IH _ _ _ _ H)].
Qed.

(* shapes the renderings must have: a label section begins with a name *)
Definition shape2_ok (es : list (lelem * nat)) : Prop := Forall (fun xk => labs_shape (fst xk)) es.

Lemma r2_ok org its0 es : renders_doc2 spell org its0 es -> incl (flat_map il_labels (instrs its0) ++ map fst (equs its0)) ids ->
  shape2_ok es -> Forall (fun xk => lelem_ok (fst xk)) es.
Proof.
  induction 1 as [|org l its1 t k es Hl _ IH|org c k its1 es _ _ IH|e kw cmt k its1 es Hkw _ _ IH|org n e labs kw cmt k its1 es Hl Hkw _ _ IH];
    intros Hinc Hsh; [constructor| | | |]; inversion Hsh as [|a b Ha Hb]; subst; cbn [fst] in Ha.
  - cbn [instrs equs flat_map] in Hinc. constructor.
    + cbn [fst lelem_ok]. apply (tline_rendered spell lbs' Hsp' l t); [|exact Hl|exact Ha].
      rewrite lbs'_keys. intros x Hx. apply Hinc. apply in_or_app. left. apply in_or_app. left. exact Hx.
    + apply IH; [|exact Hb]. intros x Hx. apply Hinc. apply in_app_or in Hx. destruct Hx as [Hx|Hx]; apply in_or_app; [left; apply in_or_app; right; exact Hx|right; exact Hx].
  - constructor; [exact I|apply IH; assumption].
  - constructor; [|apply IH; assumption].
    cbn [fst lelem_ok]. destruct (org_kw_facts kw Hkw) as [K1 [K2 [K3 _]]]. unfold dir_ok. repeat split; try assumption; try apply K1.
    + apply etoks_terms.
    + apply etoks_nonempty.
  - cbn [instrs equs map fst] in Hinc. constructor.
    + cbn [fst lelem_ok]. destruct (equ_kw_facts kw Hkw) as [K1 [K2 [K3 _]]]. split; [exact Ha|]. split.
      * rewrite Hl. constructor; [|constructor]. apply (sp_lab _ _ Hsp n). apply Hinc. apply in_or_app. right. left. reflexivity.
      * unfold dir_ok. repeat split; try assumption; try apply K1; [apply etoks_terms|apply etoks_nonempty].
    + apply IH; [|exact Hb]. intros x Hx. apply Hinc. apply in_app_or in Hx. destruct Hx as [Hx|Hx]; apply in_or_app; [left; exact Hx|right; right; exact Hx].
Qed.
End EquGlue.
