(* C03EquLabels.v — from a source text to the instructions it denotes, for programs of labelled
   instructions and EQU definitions: the scanner and the pass driver (nothing to expand, but EQU lines
   to read), the parser (C03Parse), the compiler (C03EquCompile). *)
From GM Require Import Base Text Token Lexer Scanner ExprSpec ExprEval ForExpand Parser Sim Compile
     Prog Meaning AsmSpec C03Lexer C05Lexer C05Fuel C03Proof C07Model C10Proof C14Proof C16Proof ScanProof
     C08Proof C08Block C08Scan C08Passes C14Expand C09Parse C09Asm C09GenCompile C09GenLex C03Parse C03Compile C03Labels C03EquCompile.
From Coq Require Import Lia.
Open Scope Z_scope.

(* ---------- the lines of a document as the scanner sees them ---------- *)
(* a label section: each name with the colons and line ends that follow it *)
Fixpoint group_acc (cur : option (text * list token)) (l : list ltok) : list (text * list token) :=
  match l with
  | [] => match cur with Some c => [c] | None => [] end
  | LName n :: r => (match cur with Some c => [c] | None => [] end) ++ group_acc (Some (n, [])) r
  | LColon :: r => match cur with Some (n, j) => group_acc (Some (n, j ++ [colon])) r | None => group_acc None r end
  | LNl :: r => match cur with Some (n, j) => group_acc (Some (n, j ++ [nlt])) r | None => group_acc None r end
  end.
Definition cur_toks (cur : option (text * list token)) : list token :=
  match cur with Some (n, j) => mkT tokText n :: j | None => [] end.
Lemma group_toks : forall l cur, (cur = None -> match l with [] | LName _ :: _ => True | _ => False end) ->
  plbl_seg (group_acc cur l) = cur_toks cur ++ map ltok_tok l.
Proof.
  induction l as [|x r IH]; intros cur Hc.
  - cbn [group_acc map]. destruct cur as [[n j]|]; cbn [plbl_seg flat_map cur_toks app]; rewrite ?app_nil_r; reflexivity.
  - destruct x as [n| |]; cbn [group_acc map ltok_tok].
    + unfold plbl_seg. rewrite flat_map_app. fold (plbl_seg (group_acc (Some (n, [])) r)). rewrite IH by discriminate.
      destruct cur as [[n0 j0]|]; cbn [flat_map cur_toks app fst snd]; rewrite ?app_nil_r; reflexivity.
    + destruct cur as [[n0 j0]|]; [|destruct (Hc eq_refl)]. rewrite IH by discriminate. cbn [cur_toks app]. f_equal. rewrite <- app_assoc. reflexivity.
    + destruct cur as [[n0 j0]|]; [|destruct (Hc eq_refl)]. rewrite IH by discriminate. cbn [cur_toks app]. f_equal. rewrite <- app_assoc. reflexivity.
Qed.
Lemma group_names : forall l cur, map fst (group_acc cur l) = (match cur with Some c => [fst c] | None => [] end) ++ lnames l.
Proof.
  induction l as [|x r IH]; intros cur.
  - cbn [group_acc lnames flat_map]. destruct cur; cbn; rewrite ?app_nil_r; reflexivity.
  - destruct x as [n| |]; cbn [group_acc lnames flat_map].
    + rewrite map_app, IH. fold (lnames r). destruct cur; cbn [map fst app]; reflexivity.
    + fold (lnames r). destruct cur as [[n0 j0]|]; rewrite IH; reflexivity.
    + fold (lnames r). destruct cur as [[n0 j0]|]; rewrite IH; reflexivity.
Qed.
Lemma group_ok : forall l cur, Forall label_name (lnames l) ->
  (match cur with Some (n, j) => is_label n /\ Forall junk_tok j | None => True end) ->
  plbl_ok (group_acc cur l).
Proof.
  assert (Hil : forall n, label_name n -> is_label n).
  { intros n H. unfold label_name, tok_is_op in H. unfold is_label, tok_is_op. cbn [t_typ t_val] in *.
    destruct (tok_is_pseudo (mkT tokText n)) eqn:E; [rewrite orb_true_r in H; discriminate H|]. split; [reflexivity|exact H]. }
  induction l as [|x r IH]; intros cur Hn Hc.
  - cbn [group_acc]. destruct cur as [[n j]|]; [constructor; [exact Hc|constructor]|constructor].
  - destruct x as [n| |]; cbn [group_acc lnames flat_map app] in *.
    + inversion Hn as [|a b Ha Hb]; subst. unfold plbl_ok. apply Forall_app. split.
      * destruct cur as [[n0 j0]|]; [constructor; [exact Hc|constructor]|constructor].
      * apply IH; [exact Hb|]. split; [apply Hil; exact Ha|constructor].
    + destruct cur as [[n0 j0]|]; apply IH; try assumption; try exact I. destruct Hc as [H1 H2]. split; [exact H1|].
      apply Forall_app. split; [exact H2|constructor; [exact I|constructor]].
    + destruct cur as [[n0 j0]|]; apply IH; try assumption; try exact I. destruct Hc as [H1 H2]. split; [exact H1|].
      apply Forall_app. split; [exact H2|constructor; [exact I|constructor]].
Qed.

Definition line_rest (x : lelem) : list ltok * list token :=
  match x with
  | LInstr t => (tl_labs t, mkT tokText (tl_op t) :: mode_toks (tl_am t) ++
                   (match tl_B t with Some (bm, _) => tl_A t ++ mkT tokComma [44%N] :: mode_toks bm | None => [] end)
                   ++ tline_last t ++ cmt_toks (tl_cmt t))
  | LComment c => ([], [mkT tokComment c])
  | LDir kw e cmt => ([], mkT tokText kw :: e ++ cmt_toks cmt)
  | LEqu labs kw e cmt => (labs, mkT tokText kw :: e ++ cmt_toks cmt)
  end.
Definition elem_plines (xk : lelem * nat) : list pline :=
  mkPL (group_acc None (fst (line_rest (fst xk)))) (snd (line_rest (fst xk))) :: repeat (mkPL [] []) (pred (snd xk)).
Definition doc_plines (lead : nat) (es : list (lelem * nat)) : list pline := repeat (mkPL [] []) lead ++ flat_map elem_plines es.

Lemma empty_plines k : flat_map pl_toks (repeat (mkPL [] []) k) = repeat nl_tok k.
Proof. induction k as [|k IH]; [reflexivity|]. cbn [repeat flat_map]. rewrite IH. reflexivity. Qed.

Definition labs_shape (x : lelem) : Prop :=
  match fst (line_rest x) with [] | LName _ :: _ => True | _ => False end.

Lemma elem_plines_toks x k : labs_shape x -> (1 <= k)%nat ->
  flat_map pl_toks (elem_plines (x, k)) = lelem_toks x ++ repeat nl_tok k.
Proof.
  intros Hs Hk. unfold elem_plines. cbn [fst snd flat_map]. rewrite empty_plines. unfold pl_toks at 1. cbn [pl_labels pl_rest].
  rewrite group_toks by (intros _; exact Hs). cbn [cur_toks app].
  destruct k as [|k]; [lia|]. cbn [pred repeat].
  destruct x as [t|c|kw e cmt|labs kw e cmt]; cbn [line_rest fst snd lelem_toks map app].
  - unfold tline_toks, tline_head. rewrite <- !app_assoc. cbn [app]. rewrite <- !app_assoc.
    destruct (tl_B t) as [[bm B]|]; cbn [app]; rewrite <- ?app_assoc; reflexivity.
  - reflexivity.
  - rewrite <- !app_assoc. reflexivity.
  - rewrite <- !app_assoc. cbn [app]. rewrite <- !app_assoc. reflexivity.
Qed.

Lemma doc_plines_toks lead es : Forall (fun xk => labs_shape (fst xk) /\ (1 <= snd xk)%nat) es ->
  flat_map pl_toks (doc_plines lead es) = repeat nl_tok lead ++ body es.
Proof.
  intros H. unfold doc_plines. rewrite flat_map_app, empty_plines. f_equal.
  induction H as [|[x k] t [Hs Hk] _ IH]; [reflexivity|]. cbn [flat_map body]. rewrite flat_map_app, IH.
  cbn [fst snd] in Hs, Hk. rewrite (elem_plines_toks x k Hs Hk). rewrite <- app_assoc. reflexivity.
Qed.

(* ---------- the count pre-check of the model on EQU lines ---------- *)
Section Counts.
Variable spell : N -> text.

Definition ntok_operand (t : ntok) : bool := match t with TE (ENum _) | TN _ => true | _ => false end.
Lemma is_operand_tau t : is_operand (ntok_tok spell t) = ntok_operand t.
Proof. destruct t as [[n|o| |]|id]; reflexivity. Qed.

(* in a printed expression two operands are never neighbours; it begins and ends as expressions do *)
Definition nlast_ok (l : list ntok) : Prop := match rev l with t :: _ => match t with TE (ENum _) | TN _ | TE ERp => True | _ => False end | [] => False end.
Lemma operand_adjacent_app a x b : is_operand x = false ->
  operand_adjacent (a ++ x :: b) = operand_adjacent a || operand_adjacent b.
Proof.
  intros Hx.
  assert (H0 : operand_adjacent (x :: b) = operand_adjacent b).
  { destruct b as [|y b']; [reflexivity|]. cbn [operand_adjacent]. rewrite Hx. reflexivity. }
  induction a as [|t r IH]; cbn [app]; [exact H0|].
  destruct r as [|t2 r2].
  - cbn [app]. change (operand_adjacent (t :: x :: b)) with ((is_operand t && is_operand x) || operand_adjacent (x :: b)).
    rewrite Hx, andb_false_r, H0. reflexivity.
  - cbn [app] in *. change (operand_adjacent (t :: t2 :: r2 ++ x :: b)) with ((is_operand t && is_operand t2) || operand_adjacent (t2 :: r2 ++ x :: b)).
    rewrite IH. change (operand_adjacent (t :: t2 :: r2)) with ((is_operand t && is_operand t2) || operand_adjacent (t2 :: r2)).
    rewrite orb_assoc. reflexivity.
Qed.

Lemma print_not_adjacent e : operand_adjacent (etoks spell e) = false.
Proof.
  unfold etoks. induction e as [n|id|e IH|mn e IH|o a IHa b IHb]; cbn [nprint map]; try reflexivity.
  - rewrite map_app. cbn [map].
    change (ntok_tok spell (TE ELp) :: map (ntok_tok spell) (nprint e) ++ [ntok_tok spell (TE ERp)])
      with ([] ++ ntok_tok spell (TE ELp) :: (map (ntok_tok spell) (nprint e) ++ [ntok_tok spell (TE ERp)])).
    rewrite operand_adjacent_app by reflexivity. cbn [operand_adjacent orb].
    rewrite operand_adjacent_app by reflexivity. rewrite IH. reflexivity.
  - change (ntok_tok spell (TE (EOp (if mn then OSub else OAdd))) :: map (ntok_tok spell) (nprint e))
      with ([] ++ ntok_tok spell (TE (EOp (if mn then OSub else OAdd))) :: map (ntok_tok spell) (nprint e)).
    rewrite operand_adjacent_app by (destruct mn; reflexivity). rewrite IH. reflexivity.
  - rewrite map_app. cbn [map]. rewrite operand_adjacent_app by (destruct o; reflexivity). rewrite IHa, IHb. reflexivity.
Qed.
Lemma print_count_ok e : forallb count_tok_ok (etoks spell e) = true.
Proof.
  unfold etoks. apply forallb_forall. intros t Ht. apply in_map_iff in Ht. destruct Ht as [x [<- _]].
  destruct x as [[n|o| |]|id]; try reflexivity.
  - unfold count_tok_ok. cbn [ntok_tok inj t_typ]. rewrite (to_etok_inj (ENum (Z.of_N (Z.to_N n)))) || idtac.
    cbn [to_etok t_typ t_val]. rewrite parse_digits_dec. reflexivity.
  - destruct o; reflexivity.
Qed.
End Counts.

(* ---------- counts_modelled on a document ---------- *)
Definition skippable (t : token) : Prop :=
  plainword t /\ t_typ t <> tokEOF /\ t_typ t <> tokError.
Lemma cm_skip : forall ts rest, Forall skippable ts -> counts_modelled (ts ++ rest) None = counts_modelled rest None.
Proof.
  induction ts as [|t ts IH]; intros rest H; [reflexivity|]. inversion H as [|x y [Hp [H1 H2]] Hy]; subst.
  cbn [app counts_modelled]. destruct (t_typ t) eqn:Et; try congruence; cbn [count_line_ok andb]; try (apply IH; exact Hy).
  destruct (Hp Et) as [F1 F2]. rewrite F1, F2. cbn [orb]. apply IH. exact Hy.
Qed.
Lemma cm_acc : forall ts acc rest, Forall (fun t => t_typ t <> tokNewline /\ t_typ t <> tokEOF /\ t_typ t <> tokError) ts ->
  counts_modelled (ts ++ nl_tok :: rest) (Some acc) = count_line_ok (Some (acc ++ ts)) && counts_modelled rest None.
Proof.
  induction ts as [|t ts IH]; intros acc rest H.
  - cbn [app counts_modelled nl_tok t_typ]. rewrite app_nil_r. reflexivity.
  - inversion H as [|x y [H1 [H2 H3]] Hy]; subst. cbn [app counts_modelled].
    destruct (t_typ t) eqn:Et; try congruence; rewrite (IH _ _ Hy), <- app_assoc; reflexivity.
Qed.
Lemma repeat_nl_skippable k : Forall skippable (repeat nl_tok k).
Proof. induction k; cbn [repeat]; constructor; try assumption. split; [intros X; discriminate X|split; discriminate]. Qed.

(* ---------- names: predefined, EQU or label ---------- *)
Section Names.
Variable cf : mconf.
Variable ev : env.
Variable ls : labels.

Definition knownE (id : N) : Prop :=
  predefined_value cf id <> None \/ env_find id ev <> None \/ lab_find' id ls <> None.

Lemma spe_all_app i a b : spe_all cf ev ls i (a ++ b) =
  match spe_all cf ev ls i a, spe_all cf ev ls i b with Some x, Some y => Some (x ++ y) | _, _ => None end.
Proof.
  induction a as [|t r IH]; cbn [app spe_all].
  - destruct (spe_all cf ev ls i b); reflexivity.
  - rewrite IH. destruct (spe_tok cf ev ls i t), (spe_all cf ev ls i r), (spe_all cf ev ls i b); try reflexivity. rewrite app_assoc. reflexivity.
Qed.
Lemma spe_all_some i e l : spe_all cf ev ls i (nprint e) = Some l -> Forall knownE (names e).
Proof.
  revert l. induction e as [n|id|e IH|m e IH|o a IHa b IHb]; cbn [names nprint]; intros l H.
  - constructor.
  - constructor; [|constructor]. cbn [spe_all spe_tok] in H. unfold knownE.
    destruct (predefined_value cf id); [left; discriminate|]. destruct (env_find id ev); [right; left; discriminate|].
    destruct (lab_find' id ls); [right; right; discriminate|discriminate].
  - cbn [spe_all spe_tok] in H. rewrite spe_all_app in H. destruct (spe_all cf ev ls i (nprint e)) as [x|] eqn:E; [|discriminate]. eapply IH. reflexivity.
  - cbn [spe_all spe_tok] in H. destruct (spe_all cf ev ls i (nprint e)) as [x|] eqn:E; [|discriminate]. eapply IH. reflexivity.
  - rewrite spe_all_app in H. destruct (spe_all cf ev ls i (nprint a)) as [x|] eqn:Ea; [|discriminate].
    cbn [spe_all spe_tok] in H. destruct (spe_all cf ev ls i (nprint b)) as [y|] eqn:Eb; [|discriminate].
    apply Forall_app. split; [eapply IHa|eapply IHb]; reflexivity.
Qed.
Lemma value_names i e v : value_at cf ev ls i e = MV v -> Forall knownE (names e).
Proof.
  unfold value_at. cbn [subst_all]. fold (all_te (nprint e)). destruct (all_te (nprint e)) eqn:Ea.
  - intros _. rewrite (all_te_nonames e Ea). constructor.
  - rewrite subst_pass_spe. destruct (spe_all cf ev ls i (nprint e)) as [l'|] eqn:Es; [|discriminate]. intros _. apply (spe_all_some i e l' Es).
Qed.
End Names.

(* ---------- the glue over documents with EQU lines ---------- *)
Section EquGlue.
Variable spell : N -> text.
Variable cfg : config.
Variable its : list Prog.item.
Notation cf := (mconf_of cfg).
Notation ev := (equs its).
Notation ils := (instrs its).
Notation ls := (lab_pairs 0 ils).
Notation ids := (flat_map il_labels ils ++ map fst ev).
Hypothesis Hsp : spell_ok spell ids.

(* a table that knows the labels and the EQU names: "known" of C03Labels then means predefined, EQU or label *)
Definition lbs' : labels := ls ++ map (fun n => (n, 0)) (map fst ev).
Lemma lbs'_keys : map fst lbs' = ids.
Proof. unfold lbs'. rewrite map_app, lab_pairs_keys. f_equal. rewrite map_map. cbn [fst]. apply map_id. Qed.
Lemma Hsp' : spell_ok spell (map fst lbs').
Proof. rewrite lbs'_keys. exact Hsp. Qed.

Lemma lab_find'_keys id (ps : labels) : In id (map fst ps) -> lab_find' id ps <> None.
Proof.
  induction ps as [|[k v] t IH]; intros H; [destruct H|]. cbn [lab_find' map fst In] in *.
  destruct (N.eqb_spec k id); [discriminate|]. apply IH. destruct H as [H|H]; [congruence|exact H].
Qed.
Lemma knownE_known id : knownE cf ev ls id -> known cf lbs' id.
Proof.
  intros [H|[H|H]]; [left; exact H| |].
  - right. apply lab_find'_keys. rewrite lbs'_keys. apply in_or_app. right.
    destruct (env_find id ev) as [d|] eqn:E; [|congruence]. apply (env_find_in id ev d E).
  - right. apply lab_find'_keys. rewrite lbs'_keys. apply in_or_app. left. rewrite <- lab_pairs_keys with (a := 0).
    destruct (lab_find' id ls) as [a|] eqn:E; [|congruence]. apply (lab_find'_in _ _ _ E).
Qed.

Definition bodies_known : Prop := Forall (fun ne => Forall (knownE cf ev ls) (names (snd ne))) ev.

Lemma meaning_line_knownE l t i x : renders_line spell l t -> instr_meaning cf ev ls i l = MI x ->
  Forall (known cf lbs') (line_names l).
Proof.
  intros _ H. unfold instr_meaning in H. cbv zeta in H.
  destruct (if mf_legacy cf then _ else _) as [md|]; [|discriminate].
  destruct (value_at cf ev ls i (o_expr (il_a l))) as [av| |] eqn:Eva; try discriminate.
  unfold line_names. apply Forall_app. split.
  - eapply Forall_impl; [apply knownE_known|]. apply (value_names cf ev ls i _ av Eva).
  - destruct (il_b l) as [b|]; [|constructor].
    destruct (value_at cf ev ls i (o_expr b)) as [bv| |] eqn:Evb; try discriminate.
    eapply Forall_impl; [apply knownE_known|]. apply (value_names cf ev ls i _ bv Evb).
Qed.

Lemma r2_known org its0 es : renders_doc2 spell org its0 es -> forall i acc code s,
  meaning_code cf ev ls i (instrs its0) acc = MOk code s -> Forall (fun l => Forall (known cf lbs') (line_names l)) (instrs its0).
Proof.
  induction 1 as [|org l its1 t k es Hl _ IH|org c k its1 es _ _ IH|e kw cmt k its1 es _ _ _ IH|org n e labs kw cmt k its1 es _ _ _ _ IH|org c e k its1 es Hac _ IH];
    intros i acc code s H; cbn [instrs] in *; try (apply (IH _ _ _ _ H)); [constructor|].
  cbn [meaning_code] in H. destruct (instr_meaning cf ev ls i l) as [x| |] eqn:Ei; try discriminate.
  constructor; [apply (meaning_line_knownE l t i x Hl Ei)|apply (IH _ _ _ _ H)].
Qed.

(* shapes the renderings must have: a label section begins with a name *)
Definition shape2_ok (es : list (lelem * nat)) : Prop := Forall (fun xk => labs_shape (fst xk)) es.

Lemma r2_ok org its0 es : renders_doc2 spell org its0 es -> incl (flat_map il_labels (instrs its0) ++ map fst (equs its0)) ids ->
  shape2_ok es -> Forall (fun xk => lelem_ok (fst xk)) es.
Proof.
  induction 1 as [|org l its1 t k es Hl _ IH|org c k its1 es _ _ IH|e kw cmt k its1 es Hkw _ _ IH|org n e labs kw cmt k its1 es Hl Hkw _ _ IH|org c e k its1 es Hac _ IH];
    intros Hinc Hsh; [constructor| | | | |]; inversion Hsh as [|a b Ha Hb]; subst; cbn [fst] in Ha.
  - cbn [instrs equs flat_map] in Hinc. constructor.
    + cbn [fst lelem_ok]. apply (tline_rendered spell lbs' Hsp' l t); [|exact Hl|exact Ha].
      rewrite lbs'_keys. intros x Hx. apply Hinc. apply in_or_app. left. apply in_or_app. left. exact Hx.
    + apply IH; [|exact Hb]. intros x Hx. apply Hinc. apply in_app_or in Hx. destruct Hx as [Hx|Hx]; apply in_or_app; [left; apply in_or_app; right; exact Hx|right; exact Hx].
  - constructor; [exact I|apply IH; assumption].
  - constructor; [|apply IH; assumption].
    cbn [fst lelem_ok]. destruct (org_kw_facts kw Hkw) as [K1 [K2 [K3 _]]]. unfold dir_ok. repeat split; try assumption; try apply K1.
    + apply etoks_terms.
    + apply etoks_nonempty.
  - cbn [instrs equs map fst] in Hinc. constructor.
    + cbn [fst lelem_ok]. destruct (equ_kw_facts kw Hkw) as [K1 [K2 [K3 _]]]. split; [exact Ha|]. split.
      * rewrite Hl. constructor; [|constructor]. apply (sp_lab _ _ Hsp n). apply Hinc. apply in_or_app. right. left. reflexivity.
      * unfold dir_ok. repeat split; try assumption; try apply K1; [apply etoks_terms|apply etoks_nonempty].
    + apply IH; [|exact Hb]. intros x Hx. apply Hinc. apply in_app_or in Hx. destruct Hx as [Hx|Hx]; apply in_or_app; [left; exact Hx|right; right; exact Hx].
  - constructor; [exact I|apply IH; assumption].
Qed.
End EquGlue.

(* ---------- scanner, pass driver and count check on such documents ---------- *)
Lemma term_plain t : term_tok t -> plain_tok t.
Proof. unfold term_tok, tok_is_expr_term, plain_tok, is_terminal. destruct (t_typ t); try discriminate; intros _; split; try reflexivity; discriminate. Qed.
Lemma terms_plain l : Forall term_tok l -> Forall plain_tok l.
Proof. intros H. eapply Forall_impl; [apply term_plain|exact H]. Qed.
Lemma mode_plain m0 : Forall plain_tok (mode_toks m0).
Proof. destruct m0; cbn [mode_toks]; repeat constructor; discriminate. Qed.
Lemma cmt_plain_tok c : Forall plain_tok (cmt_toks c).
Proof. destruct c; cbn [cmt_toks]; repeat constructor; discriminate. Qed.

Lemma scan_spec_app a : forall b syms K, scan_spec (a ++ b) syms K = scan_spec a syms (fun m0 => scan_spec b m0 K).
Proof.
  induction a as [|p a IH]; intros b syms K; [reflexivity|]. cbn [app scan_spec]. unfold line_result.
  destruct (is_kw (pl_first p) "equ"); [destruct (define_all _ _ _); [apply IH|reflexivity]|].
  destruct (is_kw (pl_first p) "end"); [reflexivity|apply IH].
Qed.
Lemma scan_spec_empty k : forall syms K, scan_spec (repeat (mkPL [] []) k) syms K = K syms.
Proof. induction k as [|k IH]; intros syms K; [reflexivity|]. cbn [repeat scan_spec]. unfold line_result. cbn. apply IH. Qed.
Lemma empty_pline_ok k : Forall pline_ok (repeat (mkPL [] []) k).
Proof.
  induction k as [|k IH]; cbn [repeat]; constructor; [|exact IH].
  split; [constructor|]. split; [constructor|]. cbn. left. discriminate.
Qed.

Section EquGlue2.
Variable spell : N -> text.
Variable cfg : config.
Variable its : list Prog.item.
Notation cf := (mconf_of cfg).
Notation ev := (equs its).
Notation ils := (instrs its).
Notation ls := (lab_pairs 0 ils).
Notation ids := (flat_map il_labels ils ++ map fst ev).
Hypothesis Hsp : spell_ok spell ids.
Notation lbs := (lbs' its).

(* the lines as the scanner sees them are well formed, define each EQU name once, and hold no FOR *)
Lemma r2_plines org its0 es : renders_doc2 spell org its0 es -> Forall (fun xk => lelem_ok (fst xk)) es ->
  Forall (fun xk => labs_shape (fst xk)) es ->
  Forall pline_ok (flat_map elem_plines es).
Proof.
  induction 1 as [|org l its1 t k es Hl _ IH|org c k its1 es _ _ IH|e kw cmt k its1 es Hkw _ _ IH|org n e labs kw cmt k its1 es Hl Hkw _ _ IH|org c e k its1 es Hac _ IH];
    intros Hok Hsh; [constructor| | | | |]; inversion Hok as [|a b Ha Hb]; subst; inversion Hsh as [|a b Hs1 Hs2]; subst; cbn [fst] in Ha, Hs1;
    cbn [flat_map]; apply Forall_app; (split; [|apply IH; assumption]); unfold elem_plines; cbn [fst snd]; (constructor; [|apply empty_pline_ok]).
  - (* an instruction line *)
    cbn [lelem_ok] in Ha. destruct Ha as [Hhd [Hnm [Hop [[HA1 _] HB]]]]. cbn [line_rest fst snd].
    split; [apply group_ok; [exact Hnm|exact I]|]. split.
    + constructor; [split; [reflexivity|discriminate]|]. apply Forall_app. split; [apply mode_plain|].
      apply Forall_app. split.
      * destruct (tl_B t) as [[bm B]|]; [|constructor]. apply Forall_app. split; [apply terms_plain; exact HA1|].
        constructor; [split; [reflexivity|discriminate]|apply mode_plain].
      * apply Forall_app. split; [|apply cmt_plain_tok]. unfold tline_last. destruct (tl_B t) as [[bm B]|]; apply terms_plain; [apply HB|exact HA1].
    + destruct Hop as [O1 [O2 O3]]. unfold pl_first. cbn [pl_rest pl_labels app hd].
      destruct (group_acc None (tl_labs t)); [right|]; (split; [reflexivity|right; split; assumption]).
  - cbn [line_rest fst snd group_acc]. split; [constructor|]. split; [repeat constructor; discriminate|]. cbn. left. discriminate.
  - cbn [lelem_ok] in Ha. destruct Ha as [_ [_ [_ [He _]]]]. destruct (org_kw_facts kw Hkw) as [_ [K2 [_ [K4 _]]]].
    cbn [line_rest fst snd group_acc]. split; [constructor|]. split.
    + constructor; [split; [reflexivity|discriminate]|]. apply Forall_app. split; [apply terms_plain; exact He|apply cmt_plain_tok].
    + cbn. right. split; [reflexivity|left; split; assumption].
  - cbn [lelem_ok] in Ha. destruct Ha as [Hhd [Hnm [_ [_ [_ [He _]]]]]]. destruct (equ_kw_facts kw Hkw) as [_ [K2 [_ [K4 _]]]].
    assert (Kf : lower_is kw "for" = false) by (unfold dir_kw_ok in Hkw; unfold lower_is; rewrite Hkw; reflexivity).
    cbn [line_rest fst snd]. split; [apply group_ok; [exact Hnm|exact I]|]. split.
    + constructor; [split; [reflexivity|discriminate]|]. apply Forall_app. split; [apply terms_plain; exact He|apply cmt_plain_tok].
    + unfold pl_first. cbn [pl_rest pl_labels app hd].
      destruct (group_acc None labs); [right|]; (split; [reflexivity|left; split; assumption]).
  - cbn [line_rest fst snd group_acc]. split; [constructor|]. split; [repeat constructor; discriminate|]. cbn. left. discriminate.
Qed.

Lemma r2_scan org its0 es : renders_doc2 spell org its0 es -> Forall (fun xk => labs_shape (fst xk)) es ->
  forall syms, NoDup (map fst syms ++ map spell (map fst (equs its0))) ->
  forall K, (forall m0, K m0 <> SRErr) -> scan_spec (flat_map elem_plines es) syms K <> SRErr.
Proof.
  induction 1 as [|org l its1 t k es [_ [Hop _]] _ IH|org c k its1 es _ _ IH|e kw cmt k its1 es Hkw _ _ IH|org n e labs kw cmt k its1 es Hl Hkw _ _ IH|org c e k its1 es Hac _ IH];
    intros Hsh syms Hnd K HK; [apply HK| | | | |]; inversion Hsh as [|a b Hs1 Hs2]; subst; cbn [fst] in Hs1;
    cbn [flat_map]; rewrite scan_spec_app; unfold elem_plines; cbn [fst snd scan_spec]; unfold line_result.
  - (* instruction: neither EQU nor END *)
    destruct (optext_tok _ _ _ Hop) as [O1 [O2 O3]].
    assert (Ek : forall w, is_kw (pl_first (mkPL (group_acc None (tl_labs t)) (snd (line_rest (LInstr t))))) w = false).
    { intros w. unfold is_kw, pl_first. cbn [line_rest snd pl_rest app hd]. rewrite O3. rewrite andb_false_r. reflexivity. }
    rewrite !Ek. rewrite scan_spec_empty. apply IH; assumption.
  - cbn [line_rest fst snd group_acc]. unfold is_kw, pl_first. cbn [pl_rest app hd t_typ ttype_eqb andb]. rewrite scan_spec_empty. apply IH; assumption.
  - destruct (dir_kw_facts kw "org" (or_introl eq_refl) Hkw) as [_ [_ [K1 [_ K3]]]]. cbn in K3.
    cbn [line_rest fst snd group_acc]. unfold is_kw, pl_first. cbn [pl_rest app hd t_typ t_val]. rewrite K1, K3. rewrite !andb_false_r. rewrite scan_spec_empty. apply IH; assumption.
  - destruct (equ_kw_facts kw Hkw) as [_ [K2 [_ [K4 _]]]].
    cbn [line_rest fst snd]. unfold is_kw, pl_first. cbn [pl_rest pl_labels app hd t_typ t_val]. rewrite K2, K4. cbn [ttype_eqb andb].
    replace (ttype_eqb tokText tokText) with true by reflexivity. cbn [andb].
    rewrite group_names. cbn [app]. rewrite Hl. cbn [define_all].
    cbn [equs map fst] in Hnd.
    assert (Hfresh : sym_has (spell n) syms = false).
    { unfold sym_has. destruct (sym_find (spell n) syms) as [v|] eqn:E; [|reflexivity]. exfalso.
      apply sym_find_in in E. apply NoDup_remove_2 in Hnd. apply Hnd. apply in_or_app. left. exact E. }
    rewrite Hfresh. rewrite scan_spec_empty. apply IH; [exact Hs2| |exact HK].
    rewrite (sym_set_fresh (spell n)).
    + rewrite map_app. cbn [map fst]. rewrite <- app_assoc. cbn [app]. exact Hnd.
    + unfold sym_has in Hfresh. intros Hin. destruct (sym_find (spell n) syms) eqn:E; [discriminate Hfresh|]. 
      clear - Hin E. induction syms as [|[k0 v0] s IHs]; [destruct Hin|]. cbn [sym_find map fst In] in *.
      destruct (text_eqb (spell n) k0) eqn:Eq; [discriminate E|]. destruct Hin as [Hin|Hin]; [subst k0; rewrite text_eqb_refl in Eq; discriminate Eq|apply IHs; assumption].
  - cbn [line_rest fst snd group_acc]. unfold is_kw, pl_first. cbn [pl_rest app hd t_typ ttype_eqb andb]. rewrite scan_spec_empty. apply IH; assumption.
Qed.
(* without an END line the scan runs through: the continuation receives the symbols *)
Lemma r2_scan_value org its0 es : renders_doc2 spell org its0 es -> Forall (fun xk => labs_shape (fst xk)) es ->
  forall syms, NoDup (map fst syms ++ map spell (map fst (equs its0))) ->
  exists m, forall K, scan_spec (flat_map elem_plines es) syms K = K m.
Proof.
  induction 1 as [|org l its1 t k es [_ [Hop _]] _ IH|org c k its1 es _ _ IH|e kw cmt k its1 es Hkw _ _ IH|org n e labs kw cmt k its1 es Hl Hkw _ _ IH|org c e k its1 es Hac _ IH];
    intros Hsh syms Hnd; [exists syms; reflexivity| | | | |]; inversion Hsh as [|a b Hs1 Hs2]; subst; cbn [fst] in Hs1.
  - destruct (IH Hs2 syms Hnd) as [m Hm]. exists m. intros K.
    cbn [flat_map]; rewrite scan_spec_app; unfold elem_plines; cbn [fst snd scan_spec]; unfold line_result.
    destruct (optext_tok _ _ _ Hop) as [O1 [O2 O3]].
    assert (Ek : forall w, is_kw (pl_first (mkPL (group_acc None (tl_labs t)) (snd (line_rest (LInstr t))))) w = false).
    { intros w. unfold is_kw, pl_first. cbn [line_rest snd pl_rest app hd]. rewrite O3. rewrite andb_false_r. reflexivity. }
    rewrite !Ek. rewrite scan_spec_empty. apply Hm.
  - destruct (IH Hs2 syms Hnd) as [m Hm]. exists m. intros K.
    cbn [flat_map]; rewrite scan_spec_app; unfold elem_plines; cbn [fst snd scan_spec]; unfold line_result.
    cbn [line_rest fst snd group_acc]. unfold is_kw, pl_first. cbn [pl_rest app hd t_typ ttype_eqb andb]. rewrite scan_spec_empty. apply Hm.
  - destruct (IH Hs2 syms Hnd) as [m Hm]. exists m. intros K.
    cbn [flat_map]; rewrite scan_spec_app; unfold elem_plines; cbn [fst snd scan_spec]; unfold line_result.
    destruct (dir_kw_facts kw "org" (or_introl eq_refl) Hkw) as [_ [_ [K1 [_ K3]]]]. cbn in K3.
    cbn [line_rest fst snd group_acc]. unfold is_kw, pl_first. cbn [pl_rest app hd t_typ t_val]. rewrite K1, K3. rewrite !andb_false_r. rewrite scan_spec_empty. apply Hm.
  - destruct (equ_kw_facts kw Hkw) as [_ [K2 [_ [K4 _]]]].
    cbn [equs map fst] in Hnd.
    assert (Hfresh : sym_has (spell n) syms = false).
    { unfold sym_has. destruct (sym_find (spell n) syms) as [v|] eqn:E; [|reflexivity]. exfalso.
      apply sym_find_in in E. apply NoDup_remove_2 in Hnd. apply Hnd. apply in_or_app. left. exact E. }
    assert (Hnotin : ~ In (spell n) (map fst syms)).
    { unfold sym_has in Hfresh. intros Hin. destruct (sym_find (spell n) syms) eqn:E; [discriminate Hfresh|].
      clear - Hin E. induction syms as [|[k0 v0] s IHs]; [destruct Hin|]. cbn [sym_find map fst In] in *.
      destruct (text_eqb (spell n) k0) eqn:Eq; [discriminate E|]. destruct Hin as [Hin|Hin]; [subst k0; rewrite text_eqb_refl in Eq; discriminate Eq|apply IHs; assumption]. }
    destruct (IH Hs2 (syms ++ [(spell n, equ_value (mkPL (group_acc None labs) (mkT tokText kw :: etoks spell e ++ cmt_toks cmt)))])) as [m Hm].
    { rewrite map_app. cbn [map fst]. rewrite <- app_assoc. cbn [app]. exact Hnd. }
    exists m. intros K.
    cbn [flat_map]; rewrite scan_spec_app; unfold elem_plines; cbn [fst snd scan_spec]; unfold line_result.
    cbn [line_rest fst snd]. unfold is_kw, pl_first. cbn [pl_rest pl_labels app hd t_typ t_val]. rewrite K2, K4. cbn [ttype_eqb andb].
    replace (ttype_eqb tokText tokText) with true by reflexivity. cbn [andb].
    rewrite group_names. cbn [app]. rewrite Hl. cbn [define_all].
    rewrite Hfresh. rewrite scan_spec_empty. rewrite (sym_set_fresh (spell n)) by exact Hnotin. apply Hm.
  - destruct (IH Hs2 syms Hnd) as [m Hm]. exists m. intros K.
    cbn [flat_map]; rewrite scan_spec_app; unfold elem_plines; cbn [fst snd scan_spec]; unfold line_result.
    cbn [line_rest fst snd group_acc]. unfold is_kw, pl_first. cbn [pl_rest app hd t_typ ttype_eqb andb]. rewrite scan_spec_empty. apply Hm.
Qed.
Lemma etoks_noncomment e : filter noncomment (etoks spell e) = etoks spell e.
Proof.
  unfold etoks. induction (nprint e) as [|t r IH]; [reflexivity|]. cbn [map filter].
  replace (noncomment (ntok_tok spell t)) with true; [rewrite IH; reflexivity|]. destruct t as [[n|o| |]|id]; reflexivity.
Qed.
Lemma equ_value_line labs kw e cmt : equ_value (mkPL labs (mkT tokText kw :: etoks spell e ++ cmt_toks cmt)) = etoks spell e.
Proof.
  unfold equ_value. cbn [pl_rest tl]. rewrite filter_app, etoks_noncomment. destruct cmt; cbn [cmt_toks filter noncomment t_typ]; apply app_nil_r.
Qed.

(* ... and they are the definitions in front, in order, as written *)
Lemma r2_scan_table org its0 es : renders_doc2 spell org its0 es -> Forall (fun xk => labs_shape (fst xk)) es ->
  forall syms, NoDup (map fst syms ++ map spell (map fst (equs its0))) ->
  forall K, scan_spec (flat_map elem_plines es) syms K = K (syms ++ equ_entries spell (equs its0)).
Proof.
  induction 1 as [|org l its1 t k es [_ [Hop _]] _ IH|org c k its1 es _ _ IH|e kw cmt k its1 es Hkw _ _ IH|org n e labs kw cmt k its1 es Hl Hkw _ _ IH|org c e k its1 es Hac _ IH];
    intros Hsh syms Hnd; [intros K; cbn [equs equ_entries map]; rewrite app_nil_r; reflexivity| | | | |]; inversion Hsh as [|a b Hs1 Hs2]; subst; cbn [fst] in Hs1.
  - pose proof (IH Hs2 syms Hnd) as Hm. intros K. cbn [equs].
    cbn [flat_map]; rewrite scan_spec_app; unfold elem_plines; cbn [fst snd scan_spec]; unfold line_result.
    destruct (optext_tok _ _ _ Hop) as [O1 [O2 O3]].
    assert (Ek : forall w, is_kw (pl_first (mkPL (group_acc None (tl_labs t)) (snd (line_rest (LInstr t))))) w = false).
    { intros w. unfold is_kw, pl_first. cbn [line_rest snd pl_rest app hd]. rewrite O3. rewrite andb_false_r. reflexivity. }
    rewrite !Ek. rewrite scan_spec_empty. apply Hm.
  - pose proof (IH Hs2 syms Hnd) as Hm. intros K. cbn [equs].
    cbn [flat_map]; rewrite scan_spec_app; unfold elem_plines; cbn [fst snd scan_spec]; unfold line_result.
    cbn [line_rest fst snd group_acc]. unfold is_kw, pl_first. cbn [pl_rest app hd t_typ ttype_eqb andb]. rewrite scan_spec_empty. apply Hm.
  - pose proof (IH Hs2 syms Hnd) as Hm. intros K. cbn [equs].
    cbn [flat_map]; rewrite scan_spec_app; unfold elem_plines; cbn [fst snd scan_spec]; unfold line_result.
    destruct (dir_kw_facts kw "org" (or_introl eq_refl) Hkw) as [_ [_ [K1 [_ K3]]]]. cbn in K3.
    cbn [line_rest fst snd group_acc]. unfold is_kw, pl_first. cbn [pl_rest app hd t_typ t_val]. rewrite K1, K3. rewrite !andb_false_r. rewrite scan_spec_empty. apply Hm.
  - destruct (equ_kw_facts kw Hkw) as [_ [K2 [_ [K4 _]]]].
    cbn [equs map fst] in Hnd.
    assert (Hfresh : sym_has (spell n) syms = false).
    { unfold sym_has. destruct (sym_find (spell n) syms) as [v|] eqn:E; [|reflexivity]. exfalso.
      apply sym_find_in in E. apply NoDup_remove_2 in Hnd. apply Hnd. apply in_or_app. left. exact E. }
    assert (Hnotin : ~ In (spell n) (map fst syms)).
    { unfold sym_has in Hfresh. intros Hin. destruct (sym_find (spell n) syms) eqn:E; [discriminate Hfresh|].
      clear - Hin E. induction syms as [|[k0 v0] s IHs]; [destruct Hin|]. cbn [sym_find map fst In] in *.
      destruct (text_eqb (spell n) k0) eqn:Eq; [discriminate E|]. destruct Hin as [Hin|Hin]; [subst k0; rewrite text_eqb_refl in Eq; discriminate Eq|apply IHs; assumption]. }
    assert (Hm : forall K, scan_spec (flat_map elem_plines es) (syms ++ [(spell n, etoks spell e)]) K
                           = K ((syms ++ [(spell n, etoks spell e)]) ++ equ_entries spell (equs its1))).
    { apply (IH Hs2). rewrite map_app. cbn [map fst]. rewrite <- app_assoc. cbn [app]. exact Hnd. }
    intros K.
    cbn [flat_map]; rewrite scan_spec_app; unfold elem_plines; cbn [fst snd scan_spec]; unfold line_result.
    cbn [line_rest fst snd]. unfold is_kw, pl_first. cbn [pl_rest pl_labels app hd t_typ t_val]. rewrite K2, K4. cbn [ttype_eqb andb].
    replace (ttype_eqb tokText tokText) with true by reflexivity. cbn [andb].
    rewrite group_names. cbn [app]. rewrite Hl. cbn [define_all].
    rewrite Hfresh. rewrite scan_spec_empty. rewrite (sym_set_fresh (spell n)) by exact Hnotin. rewrite equ_value_line, Hm.
    cbn [equs equ_entries map fst snd]. rewrite <- app_assoc. reflexivity.
  - pose proof (IH Hs2 syms Hnd) as Hm. intros K. cbn [equs].
    cbn [flat_map]; rewrite scan_spec_app; unfold elem_plines; cbn [fst snd scan_spec]; unfold line_result.
    cbn [line_rest fst snd group_acc]. unfold is_kw, pl_first. cbn [pl_rest app hd t_typ ttype_eqb andb]. rewrite scan_spec_empty. apply Hm.
Qed.
End EquGlue2.

Section EquGlue3.
Variable spell : N -> text.
Variable cfg : config.
Variable its : list Prog.item.
Notation cf := (mconf_of cfg).
Notation ev := (equs its).
Notation ils := (instrs its).
Notation ls := (lab_pairs 0 ils).
Notation ids := (flat_map il_labels ils ++ map fst ev).
Hypothesis Hsp : spell_ok spell ids.
Notation lbs := (lbs' its).

Lemma skippable_of l : Forall plainword l -> Forall nonterm l -> Forall skippable l.
Proof.
  intros Hp Hn. apply Forall_forall. intros t Ht. rewrite Forall_forall in Hp, Hn. specialize (Hn t Ht). unfold nonterm, is_terminal in Hn.
  split; [apply Hp; exact Ht|]. split; intros X; rewrite X in Hn; discriminate Hn.
Qed.

Lemma labs_nonterm labs : Forall nonterm (map ltok_tok labs).
Proof. induction labs as [|[n| |] t IH]; cbn [map]; constructor; try exact IH; reflexivity. Qed.

Lemma r2_counts org its0 es : renders_doc2 spell org its0 es ->
  incl (flat_map il_labels (instrs its0) ++ map fst (equs its0)) ids ->
  Forall (fun xk => lelem_ok (fst xk)) es -> Forall (fun xk => (1 <= snd xk)%nat) es ->
  Forall (fun l => Forall (known cf lbs) (line_names l)) (instrs its0) -> org_known cfg lbs org ->
  forall rest, counts_modelled (body es ++ rest) None = counts_modelled rest None.
Proof.
  pose proof (Hsp' spell its Hsp) as Hs'.
  induction 1 as [|org l its1 t k es Hl _ IH|org c k its1 es _ _ IH|e kw cmt k its1 es Hkw _ _ IH|org n e labs kw cmt k its1 es Hl Hkw _ _ IH|org c e k its1 es Hac _ IH];
    intros Hinc Hok Hk Hkn Ho rest; [reflexivity| | | | |]; inversion Hok as [|a b Ha Hb]; subst; inversion Hk as [|a b Hk1 Hk2]; subst; cbn [fst snd] in Ha, Hk1;
    rewrite body_cons, <- !app_assoc.
  - cbn [instrs equs flat_map] in Hinc, Hkn. inversion Hkn as [|a b Hkl Hkr]; subst.
    cbn [lelem_toks]. rewrite cm_skip; [rewrite cm_skip by apply repeat_nl_skippable; apply IH; try assumption|].
    + intros x Hx. apply Hinc. apply in_app_or in Hx. destruct Hx as [Hx|Hx]; apply in_or_app; [left; apply in_or_app; right; exact Hx|right; exact Hx].
    + apply skippable_of; [|apply tline_toks_nonterm; exact Ha].
      apply (tline_plain spell cfg lbs Hs' l t); [|exact Hl|exact Hkl].
      rewrite lbs'_keys. intros x Hx. apply Hinc. apply in_or_app. left. apply in_or_app. left. exact Hx.
  - cbn [lelem_toks]. rewrite cm_skip; [rewrite cm_skip by apply repeat_nl_skippable; apply IH; assumption|].
    constructor; [|constructor]. split; [intros X; discriminate X|split; discriminate].
  - cbn [lelem_toks]. destruct (org_kw_facts kw Hkw) as [_ [_ [_ [K4 K5]]]]. cbn [lelem_ok] in Ha. destruct Ha as [_ [_ [_ [He _]]]].
    rewrite cm_skip; [rewrite cm_skip by apply repeat_nl_skippable; apply IH; try assumption; exact I|].
    apply skippable_of.
    + constructor; [intros _; split; assumption|]. apply Forall_app. split; [apply (expr_plain spell cfg lbs Hs'); exact Ho|apply cmt_plain].
    + constructor; [reflexivity|]. apply Forall_app. split; [eapply Forall_impl; [apply term_nonterm|exact He]|destruct cmt; repeat constructor].
  - cbn [instrs equs map fst] in Hinc. cbn [lelem_toks]. rewrite <- !app_assoc.
    cbn [lelem_ok] in Ha. destruct Ha as [_ [_ [_ [_ [_ [He _]]]]]]. destruct (equ_kw_facts kw Hkw) as [_ [_ [_ [K4 _]]]].
    rewrite cm_skip.
    2: { apply skippable_of; [|apply labs_nonterm]. apply (labs_plain spell lbs Hs' [n]); [|exact Hl].
         rewrite lbs'_keys. intros x [<-|[]]. apply Hinc. apply in_or_app. right. left. reflexivity. }
    cbn [app counts_modelled t_typ t_val]. rewrite K4. rewrite orb_true_r.
    destruct k as [|k]; [lia|]. cbn [repeat]. rewrite <- !app_assoc.
    replace (etoks spell e ++ cmt_toks cmt ++ (nl_tok :: repeat nl_tok k) ++ body es ++ rest)
      with ((etoks spell e ++ cmt_toks cmt) ++ nl_tok :: (repeat nl_tok k ++ body es ++ rest)) by (rewrite <- !app_assoc; reflexivity).
    rewrite cm_acc.
    + cbn [app count_line_ok]. rewrite forallb_app, (print_count_ok spell e).
      assert (Hc : forallb count_tok_ok (cmt_toks cmt) = true) by (destruct cmt; reflexivity). rewrite Hc.
      assert (Ha2 : operand_adjacent (etoks spell e ++ cmt_toks cmt) = false).
      { destruct cmt as [c|]; cbn [cmt_toks]; [rewrite operand_adjacent_app by reflexivity; rewrite (print_not_adjacent spell e); reflexivity|rewrite app_nil_r; apply print_not_adjacent]. }
      rewrite Ha2. cbn [andb negb]. rewrite cm_skip by apply repeat_nl_skippable. apply IH; try assumption.
      intros x Hx. apply Hinc. apply in_app_or in Hx. destruct Hx as [Hx|Hx]; apply in_or_app; [left; exact Hx|right; right; exact Hx].
    + apply Forall_app. split.
      * eapply Forall_impl; [|exact He]. intros t0 Ht0. unfold term_tok, tok_is_expr_term in Ht0. destruct (t_typ t0); try discriminate Ht0; repeat split; discriminate.
      * destruct cmt; repeat constructor; discriminate.
  - cbn [lelem_toks]. rewrite cm_skip; [rewrite cm_skip by apply repeat_nl_skippable; apply IH; assumption|].
    constructor; [|constructor]. split; [intros X; discriminate X|split; discriminate].
Qed.

(* the names referred to: defined ones *)
Lemma r2_refs (S : text -> Prop) org its0 es : renders_doc2 spell org its0 es ->
  Forall (fun l => Forall (known cf lbs) (line_names l)) (instrs its0) -> org_known cfg lbs org ->
  Forall (fun ne => Forall (known cf lbs) (names (snd ne))) (equs its0) ->
  (forall id, known cf lbs id -> S (spell id)) ->
  forall rf, (forall r, In r rf -> S r) -> forall r, In r (drefs rf es) -> S r.
Proof.
  induction 1 as [|org l its1 t k es Hl _ IH|org c k its1 es _ _ IH|e kw cmt k its1 es _ _ _ IH|org n e labs kw cmt k its1 es _ _ _ _ IH|org c e k its1 es Hac _ IH];
    intros Hk Ho Hb HS rf Hrf; cbn [drefs instrs equs] in *; [exact Hrf| | | | |].
  - inversion Hk as [|a b Ha Hb']; subst. apply (IH Hb' Ho Hb HS). apply (refs_line spell cfg lbs l t rf S Hl Ha HS Hrf).
  - apply (IH Hk Ho Hb HS rf Hrf).
  - apply (IH Hk I Hb HS). apply (expr_refs spell cfg lbs); assumption.
  - inversion Hb as [|a b Hb1 Hb2]; subst. cbn [snd] in Hb1. apply (IH Hk Ho Hb2 HS). apply (expr_refs spell cfg lbs); assumption.
  - apply (IH Hk Ho Hb HS rf Hrf).
Qed.
End EquGlue3.

(* ---------- from the text to the instructions ---------- *)
Lemma ends_ok_all es : Forall (fun xk : lelem * nat => (1 <= snd xk)%nat) es -> ends_ok es.
Proof.
  induction 1 as [|[x k] t Hk _ IH]; [exact I|]. cbn [ends_ok]. destruct t as [|y t']; [exact I|]. split; [exact Hk|exact IH].
Qed.

(* what CompileWarrior does with the tokens the lexer hands it *)
Definition after_lex (cfg : config) (toks : list token) : cres :=
  if negb (counts_modelled toks None) then CUnmodelled else
  match pass_loop cfg (S max_for_passes) toks with
  | None => COutOfFuel
  | Some None => CErr
  | Some (Some toks') =>
    match parse toks' with
    | None => COutOfFuel
    | Some None => CErr
    | Some (Some (lines, meta)) => compile cfg lines meta
    end
  end.
Lemma compile_warrior_after_lex cfg inp :
  compile_warrior cfg inp = match lex_ascii inp with None => COutOfFuel | Some toks => after_lex cfg toks end.
Proof. reflexivity. Qed.


Section EquEnd2End.
Variable spell : N -> text.
Variable cfg : config.
Notation cf := (mconf_of cfg).

Theorem program2_after_lex org (its : list Prog.item) es lead nm au code start rkN :
  validate cfg = true ->
  spell_ok spell (flat_map il_labels (instrs its) ++ map fst (equs its)) ->
  renders_doc2 spell org its es -> shape2_ok es -> Forall (fun xk => (1 <= snd xk)%nat) es ->
  ranked spell (equs its) rkN ->
  bodies_known cfg its ->
  meaning cf (mkProg its org None nm au []) = MOk code start ->
  after_lex cfg (ldoc_toks lead es) = COk code start (dmeta (mkPM [] [] []) es).
Proof.
  intros Hv Hsp Hrd Hsh Hk1 Hrk Hbod Hmean.
  set (ev := equs its) in *. set (ils := instrs its) in *. set (ls := lab_pairs 0 ils) in *.
  pose proof (Hsp' spell its Hsp) as Hs'. pose proof (lbs'_keys its) as Hkeys.
  pose proof (r2_plain spell org its es Hrd) as Hplain.
  (* what the meaning says about the names *)
  assert (Hfacts : Forall (fun l => Forall (known cf (lbs' its)) (line_names l)) ils /\ org_known cfg (lbs' its) org).
  { pose proof Hmean as Hm2. unfold meaning in Hm2. cbn [pr_items pr_end_labels pr_org pr_end] in Hm2.
    rewrite (collect_plain its 0 [] [] [] Hplain) in Hm2. cbn [app map] in Hm2. rewrite app_nil_r in Hm2.
    fold ev ils ls in Hm2. destruct (assertions cf ev ls its) as [ac0 as0| |]; try discriminate.
    destruct (meaning_code cf ev ls 0 ils []) as [code' s'| |] eqn:Emc; try discriminate.
    split; [apply (r2_known spell cfg its org its es Hrd 0 [] code' s' Emc)|].
    destruct (mf_len cf <? Z.of_nat (length code')); [discriminate|].
    destruct org as [eo|]; [|exact I]. cbn [org_known].
    destruct (value_at cf ev ls 0 eo) as [v| |] eqn:Ev; try discriminate.
    eapply Forall_impl; [apply (knownE_known cfg its)|]. apply (value_names cf ev ls 0 eo v Ev). }
  destruct Hfacts as [Hknown Hko].
  assert (Hbk : Forall (fun ne => Forall (known cf (lbs' its)) (names (snd ne))) ev).
  { unfold bodies_known in Hbod. eapply Forall_impl; [|exact Hbod]. intros ne Hne. eapply Forall_impl; [apply (knownE_known cfg its)|exact Hne]. }
  pose proof (r2_ok spell its Hsp org its es Hrd (incl_refl _) Hsh) as Hok.
  assert (Hshk : Forall (fun xk => labs_shape (fst xk) /\ (1 <= snd xk)%nat) es).
  { apply Forall_forall. intros xk Hx. unfold shape2_ok in Hsh. rewrite Forall_forall in Hsh, Hk1. split; [apply Hsh|apply Hk1]; exact Hx. }
  (* the tokens, as lines *)
  assert (Etoks : ldoc_toks lead es = flat_map pl_toks (doc_plines lead es) ++ [tEOF]).
  { unfold ldoc_toks. rewrite (doc_plines_toks lead es Hshk). rewrite <- app_assoc. reflexivity. }
  (* the count pre-check *)
  assert (Hcm : counts_modelled (ldoc_toks lead es) None = true).
  { unfold ldoc_toks. rewrite cm_skip by apply repeat_nl_skippable.
    rewrite (r2_counts spell cfg its Hsp org its es Hrd (incl_refl _) Hok Hk1 Hknown Hko). reflexivity. }
  (* the scanner and the pass driver *)
  destruct Hsp as [Hpre Hlab Hinj Hnd Hword].
  assert (Hev_inj : forall a b, In a (map fst ev) -> In b (map fst ev) -> spell a = spell b -> a = b)
    by (intros a b Ha Hb; apply Hinj; apply in_or_app; right; assumption).
  assert (Hev_nd : NoDup (map spell (map fst ev))).
  { apply NoDup_map_spell; [|exact Hev_inj]. clear - Hnd. induction (flat_map il_labels ils) as [|a l IH]; [exact Hnd|]. cbn [app] in Hnd. inversion Hnd; subst. apply IH. assumption. }
  assert (Hpl : Forall pline_ok (doc_plines lead es)).
  { unfold doc_plines. apply Forall_app. split; [apply empty_pline_ok|]. apply (r2_plines spell org its es Hrd Hok Hsh). }
  assert (Hscan : plain_symbols (doc_plines lead es) <> SRErr).
  { unfold plain_symbols, doc_plines. rewrite scan_spec_app, scan_spec_empty.
    apply (r2_scan spell org its es Hrd Hsh [] Hev_nd). intros m0. discriminate. }
  pose proof (pass_last cfg max_for_passes (doc_plines lead es) tEOF Hpl eq_refl) as Hpass.
  rewrite <- Etoks in Hpass. destruct (plain_symbols (doc_plines lead es)) as [|m0 fs]; [congruence|].
  (* the parser *)
  assert (Hperm : Permutation.Permutation (predefined ++ dnames es) (predefined ++ map spell (map fst (lbs' its)))).
  { apply Permutation.Permutation_app_head. rewrite Hkeys, map_app. apply (r2_names spell org its es Hrd). }
  assert (Hndp : NoDup (predefined ++ dnames es)).
  { apply (Permutation.Permutation_NoDup (Permutation.Permutation_sym Hperm)). rewrite Hkeys. apply nodup_app.
    - unfold predefined. repeat constructor; cbn [In]; intros H; repeat (destruct H as [H|H]; [discriminate H|]); exact H.
    - apply NoDup_map_spell; assumption.
    - intros x Hx Hin. apply in_map_iff in Hin. destruct Hin as [id [<- Hid]]. apply (proj2 (Hlab id Hid)). exact Hx. }
  assert (Hrefs : forall r, In r (drefs [] es) -> In r (predefined ++ dnames es)).
  { apply (r2_refs spell cfg its (fun r => In r (predefined ++ dnames es)) org its es Hrd Hknown Hko Hbk).
    - intros id Hid. apply (Permutation.Permutation_in _ (Permutation.Permutation_sym Hperm)). apply (known_spelled spell cfg (lbs' its) Hs' id Hid).
    - intros r []. }
  destruct (parse_ldoc lead es Hok (ends_ok_all es Hk1) Hndp Hrefs) as [lines [Hparse Hess]].
  unfold after_lex. rewrite Hcm. cbn [negb]. rewrite Hpass, Hparse.
  apply (compile_program2 spell cfg org its es lines _ nm au code start rkN Hv Hrd (mkSpellOk spell _ Hpre Hlab Hinj Hnd Hword) Hrk Hess Hmean).
Qed.

Theorem program2_tokens org (its : list Prog.item) es lead nm au code start inp rkN :
  validate cfg = true ->
  spell_ok spell (flat_map il_labels (instrs its) ++ map fst (equs its)) ->
  renders_doc2 spell org its es -> shape2_ok es -> Forall (fun xk => (1 <= snd xk)%nat) es ->
  ranked spell (equs its) rkN ->
  bodies_known cfg its ->
  meaning cf (mkProg its org None nm au []) = MOk code start ->
  lex_ascii inp = Some (ldoc_toks lead es) ->
  compile_warrior cfg inp = COk code start (dmeta (mkPM [] [] []) es).
Proof.
  intros Hv Hsp Hrd Hsh Hk1 Hrk Hbod Hmean Hlex. rewrite compile_warrior_after_lex, Hlex.
  apply (program2_after_lex org its es lead nm au code start rkN); assumption.
Qed.

(* the same for a text given by its lexemes, with any white space between them *)
Theorem program2_text org (its : list Prog.item) es lead nm au code start rkN lexemes tail :
  validate cfg = true ->
  spell_ok spell (flat_map il_labels (instrs its) ++ map fst (equs its)) ->
  renders_doc2 spell org its es -> shape2_ok es -> Forall (fun xk => (1 <= snd xk)%nat) es ->
  ranked spell (equs its) rkN ->
  bodies_known cfg its ->
  meaning cf (mkProg its org None nm au []) = MOk code start ->
  Forall (fun x => is_space_a x = true) tail -> tail <> [] -> items_ok lexemes tail ->
  flat_map item_toks lexemes ++ newlines tail ++ [tEOF] = ldoc_toks lead es ->
  compile_warrior cfg (flat_map item_text lexemes ++ tail) = COk code start (dmeta (mkPM [] [] []) es).
Proof.
  intros Hv Hsp Hrd Hsh Hk Hrk Hb Hmean Ht Hne Hits Htoks.
  apply (program2_tokens org its es lead nm au code start _ rkN Hv Hsp Hrd Hsh Hk Hrk Hb Hmean).
  rewrite (lex_items lexemes tail Ht Hne Hits). rewrite Htoks. reflexivity.
Qed.
End EquEnd2End.


(* ---------- with FOR blocks: through the pass driver (C08Passes) ---------- *)
(* a text with FOR blocks whose tokens unroll, block by block, to a document that renders a program with a meaning is
   assembled to that meaning *)
Theorem for_program_tokens spell cfg org (its : list Prog.item) es lead nm au code start inp toks k rkN :
  validate cfg = true ->
  spell_ok spell (flat_map il_labels (instrs its) ++ map fst (equs its)) ->
  renders_doc2 spell org its es -> shape2_ok es -> Forall (fun xk => (1 <= snd xk)%nat) es ->
  ranked spell (equs its) rkN ->
  bodies_known cfg its ->
  meaning (mconf_of cfg) (mkProg its org None nm au []) = MOk code start ->
  lex_ascii inp = Some toks -> counts_modelled toks None = true ->
  unrolls cfg k toks (ldoc_toks lead es) -> (k <= max_for_passes)%nat ->
  compile_warrior cfg inp = COk code start (dmeta (mkPM [] [] []) es).
Proof.
  intros Hv Hsp Hrd Hsh Hk1 Hrk Hb Hmean Hlex Hcm Hun Hk.
  pose proof (program2_after_lex spell cfg org its es lead nm au code start rkN Hv Hsp Hrd Hsh Hk1 Hrk Hb Hmean) as Hfin.
  rewrite compile_warrior_after_lex, Hlex.
  unfold after_lex in *. rewrite Hcm. cbn [negb].
  rewrite (driver_unrolls cfg k toks _ Hun (S max_for_passes) ltac:(lia)).
  destruct (negb (counts_modelled (ldoc_toks lead es) None)); [discriminate Hfin|].
  assert (Hf : unrolls cfg 0 (ldoc_toks lead es) (ldoc_toks lead es)).
  { clear - Hun. remember (ldoc_toks lead es) as fin. clear Heqfin. induction Hun as [pre e Hpre He Hs|]; [apply U_done; assumption|assumption]. }
  rewrite (driver_unrolls cfg 0 _ _ Hf (S max_for_passes) ltac:(lia)) in Hfin. exact Hfin.
Qed.
