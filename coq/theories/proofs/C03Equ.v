(* C03Equ.v — EQU names are substituted textually: the compiler's expansion of an operand, which uses
   the table of fully resolved EQU values, gives what repeated one-level substitution passes with the
   raw definitions give (the reference's way), whenever those passes arrive at a list without names. *)
From GM Require Import Base Text Token Lexer Scanner ExprSpec ExprEval ForExpand Parser Sim Compile
     C03Proof C10Proof C14Proof EquFuel SubstFuel C14Expand.
From Coq Require Import Lia.
Open Scope Z_scope.

Lemma tok_eqb_eq a b : tok_eqb a b = true -> a = b.
Proof.
  unfold tok_eqb. intros H. apply andb_prop in H. destruct H as [H1 H2]. apply text_eqb_eq in H2.
  destruct a as [ta va], b as [tb vb]. cbn in *. subst. f_equal. unfold ttype_eqb in H1. apply N.eqb_eq in H1.
  destruct ta, tb; try reflexivity; discriminate H1.
Qed.
Lemma toks_eqb_eq a : forall b, toks_eqb a b = true -> a = b.
Proof.
  unfold toks_eqb. induction a as [|x a IH]; intros [|y b] H; cbn [list_eqb] in H; try discriminate; [reflexivity|].
  apply andb_prop in H. destruct H as [H1 H2]. apply tok_eqb_eq in H1. subst. f_equal. apply IH. exact H2.
Qed.

Definition textfree (l : list token) : Prop := Forall (fun t => t_typ t <> tokText) l.
Lemma expand_plain m c line : forall l, textfree l -> expand_all m c line l = Some l.
Proof.
  induction l as [|t r IH]; intros H; cbn [expand_all]; [reflexivity|].
  inversion H as [|x y Ht Hr]; subst. rewrite (IH Hr). unfold expand_tok. destruct (t_typ t); try reflexivity. congruence.
Qed.

Section Subst.
Variable raw : symtab.          (* the definitions as written: predefined constants and EQU values *)
Variable res : symtab.          (* the table of resolved values that expandExpressions returns *)
Variable labels : labtab.
Variable se : list token.
Variable m line : Z.

Hypothesis Hfsi : FSI raw res.
Hypothesis Hall : forall k, sym_has k raw = true -> sym_has k res = true.

Notation craw := (mkC raw labels se).
Notation cres := (mkC res labels se).
Notation P := (expand_all m craw line).
Notation Q := (expand_all m cres line).
Notation kfree := (key_free raw).

Definition off (lab : Z) : list token :=
  let v := Z.rem (lab - line) m in
  if v <? 0 then [minus_tok; num_tok (Z.to_N (- v))] else [num_tok (Z.to_N v)].
Lemma off_textfree lab : textfree (off lab).
Proof. unfold off. cbv zeta. destruct (_ <? 0); repeat constructor; discriminate. Qed.

(* labels replaced by their offsets; definitions and unknown names are left alone *)
Definition Ltok (t : token) : list token :=
  match t_typ t with
  | tokText => match sym_find (t_val t) raw with
               | Some _ => [t]
               | None => match lab_find (t_val t) labels with Some lab => off lab | None => [t] end
               end
  | _ => [t]
  end.
Definition L (l : list token) : list token := flat_map Ltok l.
Lemma L_app a b : L (a ++ b) = L a ++ L b.
Proof. apply flat_map_app. Qed.
Lemma L_textfree l : textfree l -> L l = l.
Proof.
  induction l as [|t r IH]; intros H; [reflexivity|]. inversion H as [|x y Ht Hr]; subst. cbn [L flat_map]. fold (L r). rewrite (IH Hr).
  unfold Ltok. destruct (t_typ t); try reflexivity. congruence.
Qed.
Lemma L_tok_idem t : L (Ltok t) = Ltok t.
Proof.
  assert (One : L [t] = Ltok t) by (cbn [L flat_map]; apply app_nil_r).
  unfold Ltok at 1. destruct (t_typ t) eqn:Et; try exact One.
  destruct (sym_find (t_val t) raw) eqn:Es; [exact One|].
  destruct (lab_find (t_val t) labels) eqn:El; [|exact One].
  rewrite (L_textfree _ (off_textfree z)). unfold Ltok. rewrite Et, Es, El. reflexivity.
Qed.
Lemma L_idem l : L (L l) = L l.
Proof.
  induction l as [|t r IH]; [reflexivity|]. cbn [L flat_map]. fold (L r). rewrite L_app, IH, L_tok_idem. reflexivity.
Qed.

(* every name left is a label *)
Definition all_labels (l : list token) : Prop :=
  Forall (fun t => t_typ t = tokText -> sym_find (t_val t) raw = None /\ lab_find (t_val t) labels <> None) l.
Lemma L_all_labels l : all_labels l -> textfree (L l).
Proof.
  induction l as [|t r IH]; intros H; [constructor|]. inversion H as [|x y Ht Hr]; subst. cbn [L flat_map]. fold (L r).
  apply Forall_app. split; [|apply IH; exact Hr]. unfold Ltok. destruct (t_typ t) eqn:Et; try (constructor; [rewrite Et; discriminate|constructor]).
  destruct (Ht eq_refl) as [H1 H2]. rewrite H1. destruct (lab_find (t_val t) labels); [apply off_textfree|congruence].
Qed.

Lemma fs_textfree n l : textfree l -> fs raw n l = l.
Proof.
  induction l as [|o os IH]; intros H; [destruct n; reflexivity|]. inversion H as [|x y Hx Hy]; subst.
  rewrite fs_cons, (IH Hy). destruct n; cbn [fs flat_map app]; destruct (t_typ o); try reflexivity; congruence.
Qed.

(* ---------- one pass with the raw definitions ---------- *)
Lemma P_cons t r : P (t :: r) = match expand_tok m craw line t, P r with Some a, Some b => Some (a ++ b) | _, _ => None end.
Proof. reflexivity. Qed.

Lemma pass_level : forall T T' n, P T = Some T' ->
  L (fs raw n T') = L (fs raw (S n) T) /\
  (kfree (fs raw n T') -> kfree (fs raw (S n) T)) /\
  (all_labels (fs raw n T') -> all_labels (fs raw (S n) T)).
Proof.
  induction T as [|t r IH]; intros T' n H.
  - cbn in H. inversion H; subst. assert (E0 : forall k, fs raw k [] = []) by (intros [|k]; reflexivity). rewrite !E0.
    repeat split; intros; assumption.
  - rewrite P_cons in H. destruct (expand_tok m craw line t) as [a|] eqn:Ea; [|discriminate]. destruct (P r) as [b|] eqn:Eb; [|discriminate].
    inversion H; subst T'. destruct (IH b n eq_refl) as [I1 [I2 I3]].
    rewrite fs_app, (fs_cons raw (S n) t r), !L_app, I1.
    assert (Ht : L (fs raw n a) = L (fs raw (S n) [t]) /\ (kfree (fs raw n a) -> kfree (fs raw (S n) [t])) /\
                 (all_labels (fs raw n a) -> all_labels (fs raw (S n) [t]))).
    { rewrite fs_one_tok. unfold expand_tok in Ea. cbn [c_values c_labels] in Ea. destruct (t_typ t) eqn:Et;
        try (inversion Ea; subst a; assert (E1 : fs raw n [t] = [t]) by (destruct n; cbn [fs flat_map app]; rewrite Et; reflexivity);
             rewrite E1; split; [reflexivity|split; intros X; exact X]).
      destruct (sym_find (t_val t) raw) as [v|] eqn:Es.
      - inversion Ea; subst a. split; [reflexivity|split; intros X; exact X].
      - destruct (lab_find (t_val t) labels) as [lab|] eqn:El; [|discriminate Ea].
        assert (Eo : a = off lab) by (unfold off; cbv zeta in Ea |- *; destruct (_ <? 0); inversion Ea; reflexivity). subst a.
        assert (Ef : fs raw n (off lab) = off lab) by (apply fs_textfree; apply off_textfree).
        rewrite Ef. split; [|split].
        + rewrite (L_textfree _ (off_textfree lab)). cbn [L flat_map]. unfold Ltok. rewrite Et, Es, El. rewrite app_nil_r. reflexivity.
        + intros _. constructor; [|constructor]. intros _. unfold sym_has. rewrite Es. reflexivity.
        + intros _. constructor; [|constructor]. intros _. split; [exact Es|rewrite El; discriminate]. }
    destruct Ht as [T1 [T2 T3]]. rewrite T1. split; [reflexivity|]. split.
    + intros X. apply kfree_app in X. destruct X as [X1 X2]. apply kfree_app. split; [apply T2; exact X1|apply I2; exact X2].
    + intros X. unfold all_labels in *. apply Forall_app in X. destruct X as [X1 X2]. apply Forall_app. split; [apply T3; exact X1|apply I3; exact X2].
Qed.

Fixpoint Pk (k : nat) (T : list token) : option (list token) :=
  match k with
  | O => Some T
  | S k' => match P T with Some T' => Pk k' T' | None => None end
  end.

Lemma textfree_facts R : textfree R -> kfree R /\ all_labels R /\ fs raw 0 R = R.
Proof.
  intros H. split; [|split].
  - eapply Forall_impl; [|exact H]. intros t Ht X. congruence.
  - eapply Forall_impl; [|exact H]. intros t Ht X. congruence.
  - apply fs_zero.
Qed.

(* k passes that arrive at a list without names: the list is the full substitution with the labels replaced *)
Theorem passes_full : forall k T R, Pk k T = Some R -> textfree R ->
  R = L (fs raw k T) /\ kfree (fs raw k T) /\ all_labels (fs raw k T).
Proof.
  induction k as [|k IH]; intros T R H Hr; cbn [Pk] in H.
  - inversion H; subst. destruct (textfree_facts R Hr) as [A [B C]]. rewrite C. split; [symmetry; apply L_textfree; exact Hr|split; assumption].
  - destruct (P T) as [T'|] eqn:E; [|discriminate]. destruct (IH T' R H Hr) as [A [B C]].
    destruct (pass_level T T' k E) as [I1 [I2 I3]]. split; [rewrite A; exact I1|]. split; [apply I2; exact B|apply I3; exact C].
Qed.

(* ---------- the passes run by the compiler itself with the raw definitions (as ;assert lines are evaluated) ---------- *)
Lemma Pk_fixed : forall k T, P T = Some T -> Pk k T = Some T.
Proof. induction k as [|k IH]; intros T H; cbn [Pk]; [reflexivity|]. rewrite H. apply IH. exact H. Qed.

(* expandExpression's loop - substitute until nothing changes - with the definitions as written arrives where k passes
   arrive, when it is given more than k rounds *)
Theorem raw_by_passes : forall k T R f, Pk k T = Some R -> textfree R -> (k < f)%nat ->
  expand_expression f m craw line T = Some (Some R).
Proof.
  induction k as [|k IH]; intros T R f H Hr Hf.
  - cbn [Pk] in H. inversion H; subst T. destruct f as [|f]; [lia|]. cbn [expand_expression].
    rewrite expand_pass_tokenwise, (expand_plain m craw line R Hr), toks_eqb_refl. reflexivity.
  - cbn [Pk] in H. destruct (P T) as [T'|] eqn:E; [|discriminate]. destruct f as [|f]; [lia|]. cbn [expand_expression].
    rewrite expand_pass_tokenwise, E. destruct (toks_eqb T T') eqn:Eq.
    + apply toks_eqb_eq in Eq. subst T'. rewrite (Pk_fixed k T E) in H. inversion H; subst. reflexivity.
    + apply IH; [exact H|exact Hr|lia].
Qed.

(* ---------- the compiler's passes, with the resolved table ---------- *)
Lemma res_none k : sym_find k raw = None -> sym_find k res = None.
Proof.
  intros H. destruct (sym_find k res) as [v|] eqn:E; [|reflexivity]. exfalso.
  assert (X : sym_has k raw = true) by (apply (FSI_sub raw res k Hfsi); unfold sym_has; rewrite E; reflexivity).
  unfold sym_has in X. rewrite H in X. discriminate X.
Qed.

(* a list whose names are all labels: one pass replaces them *)
Lemma Q_labels : forall l, kfree l -> all_labels l -> Q l = Some (L l).
Proof.
  induction l as [|t r IH]; intros Hk Ha; [reflexivity|].
  inversion Hk as [|x y Hk1 Hk2]; subst. inversion Ha as [|x y Ha1 Ha2]; subst.
  cbn [expand_all L flat_map]. fold (L r). rewrite (IH Hk2 Ha2).
  unfold expand_tok, Ltok. cbn [c_values c_labels]. destruct (t_typ t) eqn:Et; try reflexivity.
  destruct (Ha1 eq_refl) as [H1 H2]. rewrite H1, (res_none _ H1). destruct (lab_find (t_val t) labels) as [lab|]; [|congruence].
  unfold off. cbv zeta. destruct (_ <? 0); reflexivity.
Qed.

(* the first pass: definitions are replaced by their resolved values, top-level labels by their offsets *)
Lemma Q_first F : forall T, kfree (fs raw (S F) T) -> all_labels (fs raw (S F) T) ->
  exists T1, Q T = Some T1 /\ kfree T1 /\ all_labels T1 /\ L T1 = L (fs raw (S F) T).
Proof.
  induction T as [|t r IH]; intros Hk Ha.
  - exists []. repeat split; constructor.
  - rewrite fs_cons in Hk, Ha. apply kfree_app in Hk. destruct Hk as [Hk1 Hk2].
    unfold all_labels in Ha. apply Forall_app in Ha. destruct Ha as [Ha1 Ha2].
    destruct (IH Hk2 Ha2) as [R1 [Q1 [K1 [A1 L1]]]].
    assert (Ht : exists a, expand_tok m cres line t = Some a /\ kfree a /\ all_labels a /\ L a = L (fs raw (S F) [t])).
    { rewrite fs_one_tok in *. unfold expand_tok. cbn [c_values c_labels]. destruct (t_typ t) eqn:Et;
        try (exists [t]; repeat split; try assumption; reflexivity).
      destruct (sym_find (t_val t) raw) as [v|] eqn:Es.
      - (* a definition: its resolved value is its full substitution *)
        assert (Hin : sym_has (t_val t) res = true) by (apply Hall; unfold sym_has; rewrite Es; reflexivity).
        unfold sym_has in Hin. destruct (sym_find (t_val t) res) as [v'|] eqn:Er; [|discriminate Hin].
        destruct (Hfsi _ _ Er) as [v0 [f [Ev0 [Ef Hkf]]]]. rewrite Es in Ev0. inversion Ev0; subst v0.
        assert (Eq : v' = fs raw F v) by (rewrite Ef; apply fs_unique; [rewrite <- Ef; exact Hkf|exact Hk1]).
        exists v'. rewrite Eq. repeat split; try assumption. 
      - rewrite (res_none _ Es). inversion Ha1 as [|x y Hl _]; subst. destruct (Hl Et) as [_ Hlab].
        destruct (lab_find (t_val t) labels) as [lab|] eqn:El; [|congruence].
        exists (off lab). split; [unfold off; cbv zeta; destruct (_ <? 0); reflexivity|].
        pose proof (off_textfree lab) as Ho. destruct (textfree_facts _ Ho) as [A [B _]]. split; [exact A|]. split; [exact B|].
        rewrite (L_textfree _ Ho). cbn [L flat_map]. unfold Ltok. rewrite Et, Es, El. rewrite app_nil_r. reflexivity. }
    destruct Ht as [a [Ea [Ka [Aa La]]]].
    exists (a ++ R1). split; [cbn [expand_all]; rewrite Ea, Q1; reflexivity|].
    split; [apply kfree_app; split; assumption|]. split; [apply Forall_app; split; assumption|].
    rewrite (fs_cons raw (S F) t r), !L_app, La, L1. reflexivity.
Qed.

Lemma expand_three f T T1 T2 : Q T = Some T1 -> Q T1 = Some T2 -> textfree T2 ->
  expand_expression (S (S (S f))) m cres line T = Some (Some T2).
Proof.
  intros H1 H2 H3.
  assert (Hfix : Q T2 = Some T2) by (apply expand_plain; exact H3).
  cbn [expand_expression]. rewrite !expand_pass_tokenwise, H1.
  destruct (toks_eqb T T1) eqn:E1.
  - apply toks_eqb_eq in E1. subst T1. rewrite H1 in H2. inversion H2; subst. reflexivity.
  - rewrite expand_pass_tokenwise, H2. destruct (toks_eqb T1 T2) eqn:E2; [reflexivity|].
    rewrite expand_pass_tokenwise, Hfix, toks_eqb_refl. reflexivity.
Qed.

(* the compiler's expansion arrives where the passes with the raw definitions arrive *)
Theorem expand_by_passes k T R f : Pk k T = Some R -> textfree R ->
  expand_expression (S (S (S f))) m cres line T = Some (Some R).
Proof.
  intros H Hr. destruct (passes_full k T R H Hr) as [A [B C]].
  destruct k as [|k].
  - cbn [Pk] in H. inversion H; subst T.
    apply (expand_three f R R R); try (apply expand_plain; exact Hr); exact Hr.
  - destruct (Q_first k T B C) as [T1 [Q1 [K1 [A1 L1]]]].
    apply (expand_three f T T1 R); [exact Q1| |exact Hr].
    rewrite (Q_labels T1 K1 A1), L1, <- A. reflexivity.
Qed.
End Subst.

(* the table expandExpressions returns has the two properties used above *)
Lemma resolved_table raw res : expand_expressions raw (build_graph raw) = Some (Some res) ->
  FSI raw res /\ (forall k, sym_has k raw = true -> sym_has k res = true).
Proof.
  intros H. rewrite expand_expressions_eq in H.
  assert (H0 : FSI raw []) by (intros k v' X; discriminate X).
  destruct (ee_go_spec2 raw raw [] res H0 H) as [A [_ C]]. split; [exact A|].
  intros k Hk. apply C. unfold sym_has in Hk. destruct (sym_find k raw) as [v|] eqn:E; [|discriminate Hk]. apply (sym_find_in k raw v E).
Qed.

(* EQU names are substituted textually: with the table of resolved values in hand, the compiler's expansion of an
   expression gives exactly what k passes that replace each EQU name by its text as written (and each label by its
   offset) give, whenever those passes leave no name *)
Theorem equ_textual raw res labels se m line k T R f :
  expand_expressions raw (build_graph raw) = Some (Some res) ->
  Pk raw labels se m line k T = Some R -> textfree R ->
  expand_expression (S (S (S f))) m (mkC res labels se) line T = Some (Some R).
Proof.
  intros H. destruct (resolved_table raw res H) as [A B]. apply expand_by_passes; assumption.
Qed.
