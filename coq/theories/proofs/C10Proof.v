(* C10Proof.v — a load file the reader accepts denotes a well-formed warrior:
   fields below the core size, entry point inside the code (or 0 for an empty
   '88 file), and under ICWS'88 only legal '88 instructions. *)
From GM Require Import Base Text Token Parser Compile Load Sim Meaning AsmSpec C06Proof.
From Coq Require Import Lia ZifyN ZifyBool.
Open Scope N_scope.

Lemma parse_address_lt s m v : 0 < m -> parse_address s m = Some v -> v < m.
Proof.
  intros Hm. unfold parse_address. destruct (parse_int 64 s) as [z|]; [|discriminate].
  intros E. inversion E. pose proof (norm_field_lt z (Z.of_N m) ltac:(lia)) as X.
  now rewrite N2Z.id in X.
Qed.

Definition lwf (m : N) (legacy : bool) (st : lstate94) : Prop :=
  Forall (fun i => wf_instr m i /\ (legacy = true -> legal88 i = true)) (ls_code st) /\ (0 <= ls_start st)%Z.

Lemma line94_wf m st raw st' :
  0 < m -> lwf m false st -> line94 m st raw = Some (inl st') -> lwf m false st'.
Proof.
  intros Hm [Hc Hs]. unfold line94.
  destruct raw as [|c0 rest]; [intros E; inversion E; subst; split; assumption|].
  destruct (N.eqb_spec c0 59) as [->|Hne].
  { intros E; inversion E; subst; split; assumption. }
  assert (Hraw : forall (X : option (lstate94 + option Z)) (Y : option (lstate94 + option Z)),
            match c0 :: rest with [] => X | 59 :: _ => X | _ => Y end = Y).
  { intros X Y. destruct c0 as [|p]; [reflexivity|].
    do 6 (destruct p as [p|p|]; try reflexivity). exfalso. apply Hne. reflexivity. }
  rewrite Hraw. clear Hraw.
  set (low := before_semicolon (lower (c0 :: rest))).
  destruct (fields (commas_to_spaces low)) as [|f0 [|f1 [|f2 [|f3 [|f4 [|f5 r]]]]]] eqn:Ef.
  - destruct (fields low); [intros E; inversion E; subst; split; assumption|discriminate].
  - destruct (text_eqb f0 _); [discriminate|]. destruct (text_eqb f0 _); discriminate.
  - destruct (text_eqb f0 _); [|discriminate].
    destruct (parse_int 32 f1) as [v|]; [|discriminate].
    destruct (Z.ltb_spec v 0); [discriminate|].
    intros E; inversion E; subst. split; [assumption|cbn; lia].
  - discriminate.
  - discriminate.
  - destruct (negb (has_char 44 low)); [discriminate|].
    match goal with |- context [match ?parts with [] => _ | _ :: _ => _ end] => destruct parts as [|o [|md [|x r]]] end;
      try discriminate.
    destruct (opcode_of_text o) as [o'|]; [|discriminate].
    destruct (opmode_of_text md) as [md'|]; [|discriminate].
    destruct (amode_of_text f1) as [am'|]; [|discriminate].
    destruct (parse_address f2 m) as [av|] eqn:Ea; [|discriminate].
    destruct (amode_of_text f3) as [bm'|]; [|discriminate].
    destruct (parse_address f4 m) as [bv|] eqn:Eb; [|discriminate].
    intros E; inversion E; subst. split; [|assumption]. cbn [ls_code].
    apply Forall_app. split; [assumption|]. constructor; [|constructor].
    split; [split; cbn; eapply parse_address_lt; eassumption|discriminate].
  - discriminate.
Qed.

Lemma load94_lines_wf m : forall lines st st',
  0 < m -> lwf m false st -> load94_lines m st lines = Some st' -> lwf m false st'.
Proof.
  induction lines as [|l t IH]; intros st st' Hm Hw E; cbn [load94_lines] in E.
  - inversion E; subst; assumption.
  - destruct (line94 m st l) as [[st1|z]|] eqn:El; [|inversion E; subst; assumption|discriminate].
    apply (IH st1 st' Hm); [|assumption]. eapply line94_wf; eassumption.
Qed.

Lemma line88_wf m st raw st' :
  0 < m -> lwf m true st -> line88 m st raw = Some (inl st') -> lwf m true st'.
Proof.
  intros Hm [Hc Hs]. unfold line88.
  destruct raw as [|c0 rest]; [intros E; inversion E; subst; split; assumption|].
  destruct (N.eqb_spec c0 59) as [->|Hne].
  { intros E; inversion E; subst; split; assumption. }
  assert (Hraw : forall (X : option (lstate94 + option Z)) (Y : option (lstate94 + option Z)),
            match c0 :: rest with [] => X | 59 :: _ => X | _ => Y end = Y).
  { intros X Y. destruct c0 as [|p]; [reflexivity|].
    do 6 (destruct p as [p|p|]; try reflexivity). exfalso. apply Hne. reflexivity. }
  rewrite Hraw. clear Hraw.
  set (low := before_semicolon (lower (c0 :: rest))).
  destruct (fields (commas_to_spaces low)) as [|f0 [|f1 [|f2 [|f3 [|f4 [|f5 r]]]]]] eqn:Ef.
  - destruct (fields low); [intros E; inversion E; subst; split; assumption|discriminate].
  - repeat match goal with |- context [text_eqb f0 ?x] => destruct (text_eqb f0 x) end; cbn [negb orb]; discriminate.
  - repeat match goal with |- context [text_eqb f0 ?x] => destruct (text_eqb f0 x) end; cbn [negb orb andb]; try discriminate.
    all: destruct (parse_int 32 f1) as [v|]; [|discriminate].
    all: destruct (Z.ltb_spec v 0); cbn [orb]; try discriminate.
    all: repeat match goal with |- context [(?a <? ?b)%Z] => destruct (a <? b)%Z end; cbn [orb andb]; try discriminate.
    all: intros E; inversion E; subst; split; [exact Hc|cbn; lia].
  - destruct (negb _); discriminate.
  - destruct (negb _); discriminate.
  - destruct (negb (has_char 44 low)); [discriminate|].
    destruct (opcode88_of_text f0) as [o'|]; [|discriminate].
    destruct (amode88_of_text f1) as [am'|] eqn:Eam; [|discriminate].
    destruct (parse_address f2 m) as [av|] eqn:Ea; [|discriminate].
    destruct (amode88_of_text f3) as [bm'|] eqn:Ebm; [|discriminate].
    destruct (parse_address f4 m) as [bv|] eqn:Eb; [|discriminate].
    destruct (op_mode_88 o' am' bm') as [md|] eqn:Em; [|discriminate].
    intros E; inversion E; subst. split; [|assumption]. cbn [ls_code].
    apply Forall_app. split; [assumption|]. constructor; [|constructor].
    split; [split; cbn; eapply parse_address_lt; eassumption|].
    intros _. unfold legal88. cbn [i_op i_am i_bm i_md].
    rewrite (op_mode_88_legal o' am' bm' md (or_intror I) (amode88_is88 _ _ Eam) (amode88_is88 _ _ Ebm) Em).
    destruct md; reflexivity.
  - destruct (negb _); discriminate.
Qed.

Lemma line88_end_nonneg m st raw v :
  line88 m st raw = Some (inr (Some v)) -> (0 <= v)%Z.
Proof.
  unfold line88.
  destruct raw as [|c0 rest]; [discriminate|].
  destruct (N.eqb_spec c0 59) as [->|Hne]; [discriminate|].
  assert (Hraw : forall (X : option (lstate94 + option Z)) (Y : option (lstate94 + option Z)),
            match c0 :: rest with [] => X | 59 :: _ => X | _ => Y end = Y).
  { intros X Y. destruct c0 as [|p]; [reflexivity|].
    do 6 (destruct p as [p|p|]; try reflexivity). exfalso. apply Hne. reflexivity. }
  rewrite Hraw. clear Hraw.
  destruct (fields (commas_to_spaces _)) as [|f0 [|f1 [|f2 [|f3 [|f4 [|f5 r]]]]]]; try discriminate;
    try (destruct (negb _); discriminate); try (destruct (fields (before_semicolon _)); discriminate).
  - repeat match goal with |- context [text_eqb f0 ?x] => destruct (text_eqb f0 x) end; cbn [negb orb]; discriminate.
  - repeat match goal with |- context [text_eqb f0 ?x] => destruct (text_eqb f0 x) end; cbn [negb orb andb]; try discriminate.
    all: destruct (parse_int 32 f1) as [z|]; [|discriminate].
    all: destruct (Z.ltb_spec z 0); cbn [orb]; try discriminate.
    all: repeat match goal with |- context [(?a <? ?b)%Z] => destruct (a <? b)%Z end; cbn [orb andb]; try discriminate.
    all: intros E; inversion E; subst; assumption.
  - destruct (negb (has_char 44 _)); [discriminate|].
    destruct (opcode88_of_text f0); [|discriminate]. destruct (amode88_of_text f1); [|discriminate].
    destruct (parse_address f2 m); [|discriminate]. destruct (amode88_of_text f3); [|discriminate].
    destruct (parse_address f4 m); [|discriminate]. destruct (op_mode_88 _ _ _); discriminate.
Qed.

Lemma load88_lines_wf m : forall lines st st',
  0 < m -> lwf m true st -> load88_lines m st lines = Some st' -> lwf m true st'.
Proof.
  induction lines as [|l t IH]; intros st st' Hm Hw E; cbn [load88_lines] in E.
  - inversion E; subst; assumption.
  - destruct (line88 m st l) as [[st1|[v|]]|] eqn:El; [| | |discriminate].
    + apply (IH st1 st' Hm); [|assumption]. eapply line88_wf; eassumption.
    + inversion E; subst. destruct Hw as [Hc _]. split; [assumption|]. cbn [ls_start].
      eapply line88_end_nonneg; eassumption.
    + inversion E; subst; assumption.
Qed.

Lemma lwf_init m legacy : lwf m legacy (mkLS [] 0).
Proof. split; [constructor|cbn; lia]. Qed.

Theorem load_accepts_wf cfg s code start :
  3 <= c_size cfg ->
  parse_load_file cfg s = LOk code start ->
  Forall (wf_instr (c_size cfg)) code /\
  (0 <= start /\ (start < Z.of_nat (length code) \/ start = 0))%Z /\
  (c_mode cfg = 0 -> Forall (fun i => legal88 i = true) code).
Proof.
  intros HM. unfold parse_load_file.
  assert (Hm : 0 < c_size cfg) by lia.
  destruct (N.eqb_spec (c_mode cfg) 0) as [E0|E0].
  - unfold parse_load_file_88.
    destruct (load88_lines _ _ _) as [st|] eqn:El; [|discriminate].
    pose proof (load88_lines_wf (c_size cfg) _ _ st Hm (lwf_init _ _) El) as [Hc Hs].
    destruct ((negb (ls_start st =? 0)%Z && (Z.of_nat (length (ls_code st)) <=? ls_start st)%Z)%bool) eqn:Eb; [discriminate|].
    intros E; inversion E; subst.
    split; [eapply Forall_impl; [|exact Hc]; intros i [A _]; exact A|].
    split.
    + split; [assumption|]. apply andb_false_iff in Eb. destruct Eb as [Eb|Eb].
      * right. now apply negb_false_iff, Z.eqb_eq in Eb.
      * left. now apply Z.leb_gt in Eb.
    + intros _. eapply Forall_impl; [|exact Hc]. intros i [_ L]. exact (L eq_refl).
  - unfold parse_load_file_94.
    destruct (load94_lines _ _ _) as [st|] eqn:El; [|discriminate].
    pose proof (load94_lines_wf (c_size cfg) _ _ st Hm (lwf_init _ _) El) as [Hc Hs].
    destruct (Z.leb_spec (Z.of_nat (length (ls_code st))) (ls_start st)); [discriminate|].
    intros E; inversion E; subst.
    split; [eapply Forall_impl; [|exact Hc]; intros i [A _]; exact A|].
    split; [split; [assumption|left; assumption]|]. intros X. contradiction.
Qed.

(* ---------- nothing is skipped silently ---------- *)
Lemma text_eqb_eq a b : text_eqb a b = true -> a = b.
Proof.
  unfold text_eqb. revert b. induction a as [|x a IH]; intros [|y b] H; try discriminate; [reflexivity|].
  apply andb_prop in H. destruct H as [H1 H2]. apply N.eqb_eq in H1. subst. f_equal. apply IH. exact H2.
Qed.

Lemma opcode88_not_directive f : opcode88_of_text f <> None ->
  text_eqb f (s2t "org") = false /\ text_eqb f (s2t "end") = false.
Proof.
  intros H. split.
  - destruct (text_eqb f (s2t "org")) eqn:E; [|reflexivity]. apply text_eqb_eq in E. subst. exfalso. apply H. reflexivity.
  - destruct (text_eqb f (s2t "end")) eqn:E; [|reflexivity]. apply text_eqb_eq in E. subst. exfalso. apply H. reflexivity.
Qed.

(* a "op.mod" field is neither of the directive words: those contain no dot *)
Fixpoint has_dot (s : text) : bool := match s with [] => false | c :: r => (c =? 46) || has_dot r end.
Lemma split_two_has_dot : forall s cur o md,
  (fix split (s cur : text) : list text :=
     match s with
     | [] => [cur]
     | 46 :: r => cur :: split r []
     | ch :: r => split r (cur ++ [ch])
     end) s cur = [o; md] -> has_dot s = true.
Proof.
  induction s as [|c r IH]; intros cur o md H; [discriminate|].
  cbn [has_dot]. destruct (N.eqb_spec c 46) as [->|Hne]; [reflexivity|]. cbn [orb].
  assert (E : (fix split (s cur : text) : list text :=
     match s with
     | [] => [cur]
     | 46 :: r => cur :: split r []
     | ch :: r => split r (cur ++ [ch])
     end) (c :: r) cur = (fix split (s cur : text) : list text :=
     match s with
     | [] => [cur]
     | 46 :: r => cur :: split r []
     | ch :: r => split r (cur ++ [ch])
     end) r (cur ++ [c])).
  { destruct c as [|p]; [reflexivity|]. do 6 (destruct p as [p|p|]; try reflexivity). exfalso. apply Hne. reflexivity. }
  rewrite E in H. eapply IH. exact H.
Qed.
Lemma dot_not_directive f : has_dot f = true ->
  text_eqb f (s2t "org") = false /\ text_eqb f (s2t "end") = false.
Proof.
  intros H. split.
  - destruct (text_eqb f (s2t "org")) eqn:E; [|reflexivity]. apply text_eqb_eq in E. subst. discriminate.
  - destruct (text_eqb f (s2t "end")) eqn:E; [|reflexivity]. apply text_eqb_eq in E. subst. discriminate.
Qed.

Lemma raw_match {A} (c0 : N) rest (X Y : A) :
  c0 <> 59 -> match c0 :: rest with [] => X | 59 :: _ => X | _ => Y end = Y.
Proof.
  intros Hne. destruct c0 as [|p]; [reflexivity|].
  do 6 (destruct p as [p|p|]; try reflexivity). exfalso. apply Hne. reflexivity.
Qed.

(* one '94 line: what the reader does with it is what its kind says *)
Lemma line94_kind m st raw :
  match line94 m st raw with
  | None => True
  | Some (inr _) => line_kind false raw = KEnd
  | Some (inl st') =>
      match line_kind false raw with
      | KInstr => length (ls_code st') = S (length (ls_code st))
      | KEnd => False
      | _ => length (ls_code st') = length (ls_code st)
      end
  end.
Proof.
  unfold line94, line_kind, line_fields.
  destruct raw as [|c0 rest]; [reflexivity|].
  destruct (N.eqb_spec c0 59) as [->|Hne]; [reflexivity|].
  rewrite !(raw_match c0 rest) by assumption.
  cbv zeta. destruct (fields (commas_to_spaces _)) as [|f0 [|f1 [|f2 [|f3 [|f4 [|f5 r]]]]]] eqn:Ef; try reflexivity; try exact I;
    try (destruct (fields (before_semicolon _)); [reflexivity|exact I]).
  - destruct (text_eqb f0 (s2t "end")); [reflexivity|]. destruct (text_eqb f0 (s2t "org")); exact I.
  - destruct (text_eqb f0 (s2t "org")) eqn:Eo; [|exact I].
    destruct (parse_int 32 f1) as [v|]; [|exact I]. destruct (v <? 0)%Z; [exact I|].
    destruct (text_eqb f0 (s2t "end")) eqn:Ee; [|reflexivity].
    apply text_eqb_eq in Eo, Ee. subst. discriminate.
  - destruct (negb _); [exact I|].
    match goal with |- context [match ?parts with [] => _ | _ :: _ => _ end] => destruct parts as [|o [|md [|x r]]] eqn:Ep end;
      try exact I.
    destruct (opcode_of_text o); [|exact I]. destruct (opmode_of_text md); [|exact I].
    destruct (amode_of_text f1); [|exact I]. destruct (parse_address f2 m); [|exact I].
    destruct (amode_of_text f3); [|exact I]. destruct (parse_address f4 m); [|exact I].
    destruct (dot_not_directive f0 (split_two_has_dot f0 [] o md Ep)) as [E1 E2].
    rewrite E1, E2. cbn [orb ls_code]. rewrite app_length. cbn [length]. lia.
Qed.

Theorem load94_no_skip m : forall lines st st',
  load94_lines m st lines = Some st' ->
  length (ls_code st') = (length (ls_code st) + count_instr false lines)%nat.
Proof.
  induction lines as [|l t IH]; intros st st' E; cbn [load94_lines count_instr] in *.
  - inversion E; subst. lia.
  - pose proof (line94_kind m st l) as K.
    destruct (line94 m st l) as [[st1|z]|]; [| |discriminate].
    + specialize (IH st1 st' E). destruct (line_kind false l); try contradiction; lia.
    + inversion E; subst. rewrite K. lia.
Qed.

Lemma line88_kind m st raw :
  match line88 m st raw with
  | None => True
  | Some (inr _) => line_kind true raw = KEnd
  | Some (inl st') =>
      match line_kind true raw with
      | KInstr => length (ls_code st') = S (length (ls_code st))
      | KEnd => False
      | _ => length (ls_code st') = length (ls_code st)
      end
  end.
Proof.
  unfold line88, line_kind, line_fields.
  destruct raw as [|c0 rest]; [reflexivity|].
  destruct (N.eqb_spec c0 59) as [->|Hne]; [reflexivity|].
  rewrite !(raw_match c0 rest) by assumption.
  cbv zeta. destruct (fields (commas_to_spaces _)) as [|f0 [|f1 [|f2 [|f3 [|f4 [|f5 r]]]]]] eqn:Ef; try reflexivity;
    try (destruct (negb _); exact I); try (destruct (fields (before_semicolon _)); [reflexivity|exact I]).
  - destruct (text_eqb f0 (s2t "end")) eqn:Ee, (text_eqb f0 (s2t "org")) eqn:Eo; cbn [negb orb]; try exact I; reflexivity.
  - destruct (text_eqb f0 (s2t "end")) eqn:Ee, (text_eqb f0 (s2t "org")) eqn:Eo; cbn [negb orb andb]; try exact I.
    + apply text_eqb_eq in Eo, Ee. subst. discriminate.
    + destruct (parse_int 32 f1) as [v|]; [|exact I]. destruct (_ || _)%bool; [exact I|reflexivity].
    + destruct (parse_int 32 f1) as [v|]; [|exact I]. destruct (_ || _)%bool; [exact I|reflexivity].
  - destruct (negb _); [exact I|].
    destruct (opcode88_of_text f0) as [o'|] eqn:Eo; [|exact I].
    destruct (amode88_of_text f1); [|exact I]. destruct (parse_address f2 m); [|exact I].
    destruct (amode88_of_text f3); [|exact I]. destruct (parse_address f4 m); [|exact I].
    destruct (op_mode_88 _ _ _); [|exact I].
    destruct (opcode88_not_directive f0 ltac:(congruence)) as [E1 E2].
    rewrite E1, E2. cbn [orb ls_code]. rewrite app_length. cbn [length]. lia.
Qed.

Theorem load88_no_skip m : forall lines st st',
  load88_lines m st lines = Some st' ->
  length (ls_code st') = (length (ls_code st) + count_instr true lines)%nat.
Proof.
  induction lines as [|l t IH]; intros st st' E; cbn [load88_lines count_instr] in *.
  - inversion E; subst. lia.
  - pose proof (line88_kind m st l) as K.
    destruct (line88 m st l) as [[st1|[v|]]|]; [| | |discriminate].
    + specialize (IH st1 st' E). destruct (line_kind true l); try contradiction; lia.
    + inversion E; subst. rewrite K. cbn [ls_code]. lia.
    + inversion E; subst. rewrite K. lia.
Qed.

Theorem load_no_silent_skip cfg s code start :
  parse_load_file cfg s = LOk code start ->
  length code = count_instr (c_mode cfg =? 0) (read_lines s []).
Proof.
  unfold parse_load_file. destruct (c_mode cfg =? 0).
  - unfold parse_load_file_88. destruct (load88_lines _ _ _) as [st|] eqn:El; [|discriminate].
    destruct (_ && _)%bool; [discriminate|]. intros E; inversion E; subst.
    now rewrite (load88_no_skip _ _ _ _ El).
  - unfold parse_load_file_94. destruct (load94_lines _ _ _) as [st|] eqn:El; [|discriminate].
    destruct (_ <=? _)%Z; [discriminate|]. intros E; inversion E; subst.
    now rewrite (load94_no_skip _ _ _ _ El).
Qed.

(* ---------- a line of commas is not a blank line (D32) ---------- *)
Lemma comma_line_refused m st raw c0 rest :
  raw = c0 :: rest -> c0 <> 59 ->
  fields (commas_to_spaces (before_semicolon (lower raw))) = [] -> fields (before_semicolon (lower raw)) <> [] ->
  line94 m st raw = None /\ line88 m st raw = None.
Proof.
  intros -> Hne Hf Hb. unfold line94, line88. rewrite !(raw_match c0 rest) by assumption. cbv zeta. rewrite Hf.
  destruct (fields (before_semicolon (lower (c0 :: rest)))); [congruence|split; reflexivity].
Qed.
