(* C15Recorder.v — the recorder never indexes out of range on a valid stream and
   shows the last touch of every address. *)
From GM Require Import Base Exec Recorder Reports.
From Coq Require Import Lia ZifyN ZifyBool ZifyNat FMapPositive.
Open Scope N_scope.

Lemma rec_get_set r a b x : rec_get (rec_set r a x) b = if b =? a then x else rec_get r b.
Proof.
  unfold rec_get, rec_set. destruct (N.eqb_spec b a) as [->|H].
  - now rewrite PositiveMap.gss.
  - rewrite PositiveMap.gso; [reflexivity|]. intros E. apply H.
    apply (f_equal Pos.pred_N) in E. now rewrite !N.pos_pred_succ in E.
Qed.
Lemma rec_get_empty a : rec_get rec_empty a = (0, (-1)%Z).
Proof. unfold rec_get, rec_empty. now rewrite PositiveMap.gempty. Qed.

Lemma existsb_ext' {A} (f g : A -> bool) l : (forall x, f x = g x) -> existsb f l = existsb g l.
Proof. intros H. induction l as [|x t IH]; cbn; [reflexivity|]. now rewrite H, IH. Qed.
Lemma existsb_map' {A B} (f : B -> bool) (g : A -> B) l : existsb f (map g l) = existsb (fun x => f (g x)) l.
Proof. induction l as [|x t IH]; cbn; [reflexivity|]. now rewrite IH. Qed.

Lemma rec_spawn_get M addr wi n : forall r i a,
  rec_get (rec_spawn M r addr wi n i) a =
  if existsb (fun j => (addr + (i + N.of_nat j)) mod M =? a) (seq 0 n) then (2, wi) else rec_get r a.
Proof.
  induction n as [|n IH]; intros r i a; cbn [rec_spawn seq existsb]; [reflexivity|].
  rewrite IH, rec_get_set. rewrite <- seq_shift, existsb_map'.
  replace (i + N.of_nat 0) with i by lia.
  rewrite (N.eqb_sym a).
  rewrite (existsb_ext' (fun x => (addr + (i + N.of_nat (S x))) mod M =? a)
                        (fun j => (addr + (i + 1 + N.of_nat j)) mod M =? a))
    by (intros x; do 3 f_equal; lia).
  destruct ((addr + i) mod M =? a); cbn [orb]; [|reflexivity].
  destruct (existsb _ _); reflexivity.
Qed.

(* one report: the recorder's new state is the old one overridden by the touch *)
Lemma rec_report_get M lens reads r rp :
  0 < M -> rep_wf M lens rp ->
  exists r', rec_report M lens reads r rp = Some r' /\
    forall a, a < M ->
      rec_get r' a = match touch M lens reads rp a with Some x => x | None => rec_get r a end.
Proof.
  intros HM [Ha Hs]. unfold rec_report, touch, rec_mark.
  assert (Hlt : (r_addr rp <? M) = true) by (now apply N.ltb_lt).
  destruct (r_type rp) eqn:Et; rewrite ?Hlt;
    try (eexists; split; [reflexivity|]; intros a _; rewrite ?rec_get_set, ?rec_get_empty, 1?(N.eqb_sym a);
         try destruct (r_addr rp =? a); reflexivity).
  - (* spawn *)
    destruct (Hs eq_refl) as [H0 H1].
    destruct (Z.ltb_spec (r_wi rp) 0); [lia|].
    destruct (nth_error lens (Z.to_nat (r_wi rp))) as [len|] eqn:Hn;
      [|apply nth_error_None in Hn; lia].
    eexists. split; [reflexivity|]. intros a _.
    rewrite rec_spawn_get. rewrite (nth_error_nth _ _ O Hn).
    rewrite (existsb_ext' (fun j => (r_addr rp + (0 + N.of_nat j)) mod M =? a)
                          (fun i => (r_addr rp + N.of_nat i) mod M =? a)) by (intros; do 3 f_equal; lia).
    destruct (existsb _ _); reflexivity.
  - (* read *)
    destruct reads; rewrite ?Hlt; eexists; (split; [reflexivity|]); intros a _;
      rewrite ?rec_get_set, 1?(N.eqb_sym a); try destruct (r_addr rp =? a); reflexivity.
Qed.

Theorem recorder_last_touch M lens reads evs :
  0 < M -> Forall (rep_wf M lens) evs ->
  forall r0, exists r, rec_fold M lens reads r0 evs = Some r /\
    forall a, a < M ->
      rec_get r a =
      fold_left (fun acc rp => match touch M lens reads rp a with Some x => x | None => acc end)
                evs (rec_get r0 a).
Proof.
  intros HM Hw. induction Hw as [|e t He Ht IH]; intros r0; cbn [rec_fold fold_left].
  - exists r0. auto.
  - destruct (rec_report_get M lens reads r0 e HM He) as (r1 & -> & G1).
    destruct (IH r1) as (r & Hr & G). exists r. split; [assumption|].
    intros a Ha. rewrite (G a Ha), (G1 a Ha). reflexivity.
Qed.

Corollary recorder_from_empty M lens reads evs :
  0 < M -> Forall (rep_wf M lens) evs ->
  exists r, rec_fold M lens reads rec_empty evs = Some r /\
    forall a, a < M -> rec_get r a = last_touch M lens reads evs a.
Proof.
  intros HM Hw. destruct (recorder_last_touch M lens reads evs HM Hw rec_empty) as (r & Hr & G).
  exists r. split; [assumption|]. intros a Ha. rewrite (G a Ha), rec_get_empty. reflexivity.
Qed.
