(* C02Proof.v — RunCycle of the literal model refines one cycle of the
   reference scheduler (Mars), and Run is "iterate until finished". *)
From GM Require Import Base Exec Sim Emi94 Mars Rotate VmArith C01Phase C01Exec QueueProof
     C12Step InvExec InvSim MarsFacts.
From Coq Require Import Lia ZifyN ZifyBool ZifyNat.
Open Scope N_scope.

(* ---------- abstraction ---------- *)
Definition abs_st (st : wstate) : mst :=
  match st with WAdded => MAdded | WAlive => MAlive | WDead => MDead end.
(* a warrior that is not started (or sits between Reset and its re-spawn) has no tasks *)
Definition absw (w : warrior) : mwar :=
  mkMW (w_code w) (w_start w) (abs_st (w_state w))
       (match w_state w with WAdded => [] | _ => w_queue w end).
Definition cfg_of (s : sim) : mcfg := mkMC (s_m s) (s_rl s) (s_wl s) (s_procs s) (s_cycles s).

(* the reference state t describes the model state s *)
Definition Rel (s : sim) (t : mars) : Prop :=
  core_eq (s_m s) (s_mem s) (m_core t) /\ m_ws t = map absw (s_ws s) /\ m_cycles t = s_cycle s.

(* the guards of C01 *)
Definition guards (s : sim) : Prop :=
  s_m s <= 2 ^ 32 /\ 1 <= s_rl s <= s_m s /\ 1 <= s_wl s <= s_m s.

Lemma m_alive_absw w : m_alive (absw w) = alive w.
Proof. unfold m_alive, absw, alive. cbn. destruct (w_state w); reflexivity. Qed.

Lemma living_map ws : length (filter m_alive (map absw ws)) = alive_count ws.
Proof.
  unfold alive_count. induction ws as [|w t IH]; cbn; [reflexivity|].
  rewrite m_alive_absw. destruct (alive w); cbn; lia.
Qed.

Lemma map_list_set ws i w : map absw (list_set ws i w) = replace_nth (map absw ws) i (absw w).
Proof.
  revert i. induction ws as [|h t IH]; intros [|i]; cbn; try reflexivity. now rewrite IH.
Qed.

(* the reference step respects cell-for-cell equality of cores *)
Lemma step_core_proper M R W c c' pc :
  0 < M -> pc < M -> core_eq M c c' ->
  let '(c1, s1) := step_core M R W c pc in
  let '(c1', s1') := step_core M R W c' pc in
  core_eq M c1 c1' /\ s1' = map (fun x => x mod M) s1.
Proof.
  intros HM Hpc H.
  assert (Hr : rot_rel M 0 c c').
  { intros a Ha. unfold shift. rewrite N.add_0_r, N.mod_small by assumption. symmetry. now apply H. }
  pose proof (step_core_rot M 0 HM (fun p => fold M p R) (fun p => fold M p W) c c' pc Hr Hpc) as S.
  unfold step_core.
  replace (shift M 0 pc) with pc in S by (unfold shift; rewrite N.add_0_r, N.mod_small; auto).
  destruct (step_core_g M _ _ c pc) as [c1 s1].
  destruct (step_core_g M _ _ c' pc) as [c1' s1'].
  destruct S as [S1 S2]. split.
  - intros a Ha. specialize (S1 a Ha). unfold shift in S1.
    rewrite N.add_0_r, N.mod_small in S1 by assumption. now symmetry.
  - rewrite S2. apply map_ext. intros x. unfold shift. now rewrite N.add_0_r.
Qed.

Lemma map_mod_id M l : Forall (fun x => x < M) l -> map (fun x => x mod M) l = l.
Proof.
  induction 1 as [|x l Hx Hl IH]; cbn; [reflexivity|].
  rewrite IH, N.mod_small by assumption. reflexivity.
Qed.

Lemma enq_nil_len P q xs : enq P q xs = [] -> q = [].
Proof.
  unfold enq. revert q. induction xs as [|x xs IH]; intros q H; cbn [fold_left] in H; [assumption|].
  apply IH in H. destruct (_ <? _); [destruct q; discriminate|assumption].
Qed.

Lemma len0_values q : rq_wf q -> (q_len q = 0 <-> rq_values q = []).
Proof.
  intros Hq. split; intros H.
  - apply length_zero_iff_nil. rewrite rq_values_length. lia.
  - apply (f_equal (@length N)) in H. rewrite rq_values_length in H. cbn in H. lia.
Qed.

(* ---------- one cycle ---------- *)
Lemma cycle_loop_refines k : forall i s reps t tr,
  Inv s -> guards s -> Rel s t ->
  match cycle_loop k i s reps with
  | Panic => False
  | Ok (s', r, _) =>
    let '(t', early, _) := m_cycle_from (cfg_of s) k i t tr in
    Rel s' t' /\ Inv s' /\ cfg_of s' = cfg_of s /\ s_cycle s' = s_cycle s /\
    match r with
    | None => early = false
    | Some l => early = true /\ l = 1%Z /\ s_living s' = 1%Z
    end
  end.
Proof.
  induction k as [|k IH]; intros i s reps t tr HI HG HR; cbn [cycle_loop m_cycle_from].
  { auto 10. }
  pose proof HR as (R1 & R2 & R3).
  rewrite R2, nth_error_map.
  destruct (nth_error (s_ws s) i) as [w|] eqn:Hn; cbn [option_map]; [|auto 10].
  pose proof HI as (A & B & C & D & E & F & G).
  pose proof HG as (G1 & G2 & G3).
  pose proof (proj1 (Forall_forall _ _) E w (nth_error_In _ _ Hn)) as [Hcode Hw].
  cbn [mw_code mw_start mw_st mw_q absw].
  destruct (w_state w) eqn:Hst; cbn [abs_st].
  - (* added *) exact (IH (S i) s reps t tr HI HG HR).
  - (* alive *)
    destruct Hw as (q & Hpq & Hq & Hs & Hl & Hv). rewrite Hpq.
    pose proof (rq_pop_spec q Hq) as Hpop.
    destruct (rq_pop q) as [[pc q1]|] eqn:Hp.
    2:{ unfold rq_pop in Hp. destruct (N.eqb_spec (q_len q) 0); [lia|discriminate]. }
    destruct Hpop as (Hvals & Hq1 & Hs1).
    unfold w_queue. rewrite Hpq, Hvals.
    rewrite Hvals in Hv. inversion Hv as [|? ? Hpc Hv1]; subst.
    destruct (N.leb_spec (s_m s) pc); [lia|].
    assert (HM0 : 0 < s_m s) by lia.
    assert (HM2 : 2 <= s_m s) by lia.
    pose proof (exec_refines (s_m s) (s_rl s) (s_wl s) (Z.of_nat i) HM2 G1 G2 G3 (s_mem s) pc D Hpc) as ER.
    pose proof (step_core_proper (s_m s) (s_rl s) (s_wl s) (s_mem s) (m_core t) pc HM0 Hpc R1) as SP.
    cbn [cfg_of mc_M mc_R mc_W mc_P].
    destruct (exec (s_m s) (s_rl s) (s_wl s) (Z.of_nat i) (s_mem s) pc) as [[c' pushes] ereps].
    destruct (step_core (s_m s) (s_rl s) (s_wl s) (s_mem s) pc) as [c'' succs].
    destruct (step_core (s_m s) (s_rl s) (s_wl s) (m_core t) pc) as [ct succs'].
    destruct ER as (E1 & E2 & E3 & E4). destruct SP as (P1 & P2).
    subst succs. rewrite (map_mod_id _ _ E4) in P2. subst succs'.
    assert (Hc' : cwf (s_m s) c').
    { intros a Ha. rewrite E1. now apply E3. }
    assert (Rc : core_eq (s_m s) c' ct).
    { intros a Ha. rewrite E1. now apply P1. }
    destruct (rq_pushes q1 pushes Hq1) as (Hq2 & Hs2 & Hv2).
    set (q2 := fold_left rq_push pushes q1) in *.
    assert (Hv2' : Forall (fun x => x < s_m s) (rq_values q2))
      by (rewrite Hv2; apply enq_Forall; assumption).
    assert (Hen : enq (s_procs s) (rq_values q1) pushes = rq_values q2)
      by (rewrite Hv2; congruence).
    rewrite Hen.
    destruct (N.eqb_spec (q_len q2) 0) as [Hz|Hz].
    + (* the warrior dies *)
      apply (len0_values q2 Hq2) in Hz. rewrite Hz.
      set (s2 := with_living (set_w (with_mem s c') i (mkW (w_code w) (w_start w) WDead (Some q2))) (s_living s - 1)%Z).
      assert (HI2 : Inv s2).
      { unfold Inv, s2. cbn [s_m s_procs s_cycles s_mem s_ws s_living s_cycle set_w with_mem with_ws with_living].
        do 4 (split; [assumption|]). split; [|split; [|assumption]].
        - apply list_set_Forall; [assumption|]. split; [assumption|]. cbn [w_state w_pq].
          exists q2. split; [reflexivity|]. split; [assumption|]. split; [congruence|].
          now apply (len0_values q2 Hq2).
        - rewrite (alive_count_set _ _ w _ Hn). unfold alive. rewrite Hst. cbn [w_state]. lia. }
      set (t2 := mkM ct (replace_nth (map absw (s_ws s)) i (mkMW (w_code w) (w_start w) MDead [])) (m_cycles t)).
      assert (HR2 : Rel s2 t2).
      { unfold Rel, s2, t2. cbn [s_m s_mem s_ws s_cycle set_w with_mem with_ws with_living m_core m_ws m_cycles].
        split; [assumption|]. split; [|assumption].
        rewrite map_list_set. f_equal. unfold absw, w_queue. cbn [w_code w_start w_state w_pq abs_st].
        now rewrite Hz. }
      assert (HL : (m_living t2 =? 1)%nat = (s_living s - 1 =? 1)%Z).
      { destruct HI2 as (_ & _ & _ & _ & _ & F2 & _). destruct HR2 as (_ & W2 & _).
        unfold m_living. rewrite W2, living_map.
        unfold s2 in F2 at 1. cbn [s_living with_living] in F2.
        destruct (Nat.eqb_spec (alive_count (s_ws s2)) 1), (Z.eqb_spec (s_living s - 1) 1); try reflexivity; lia. }
      assert (HN : (1 <? length (map absw (s_ws s)))%nat = (1 <? wcount s)%Z).
      { rewrite map_length. unfold wcount.
        destruct (Nat.ltb_spec 1 (length (s_ws s))), (Z.ltb_spec 1 (Z.of_nat (length (s_ws s)))); try reflexivity; lia. }
      fold t2. rewrite HL, HN.
      destruct ((1 <? wcount s)%Z && (s_living s - 1 =? 1)%Z)%bool eqn:Hearly.
      * split; [exact HR2|]. split; [exact HI2|]. split; [reflexivity|]. split; [reflexivity|].
        apply andb_prop in Hearly. destruct Hearly as [_ Hearly]. apply Z.eqb_eq in Hearly.
        split; [reflexivity|]. split; [assumption|]. unfold s2. cbn [s_living with_living]. assumption.
      * assert (HG2 : guards s2) by exact HG.
        match goal with |- context [cycle_loop k (S i) s2 ?r] =>
          specialize (IH (S i) s2 r t2 (tr ++ [mkEv i pc (length pushes) true]) HI2 HG2 HR2) end.
        destruct (cycle_loop k (S i) s2 _) as [[[s' r] rp]|]; [|assumption].
        change (cfg_of s2) with (cfg_of s) in IH.
        destruct (m_cycle_from (cfg_of s) k (S i) t2 _) as [[t' early] tr'].
        destruct IH as (I1 & I2 & I3 & I4 & I5).
        split; [assumption|]. split; [assumption|]. split; [assumption|]. split; [rewrite I4; reflexivity|assumption].
    + (* the warrior lives on *)
      assert (Hne : rq_values q2 <> []) by (intros Hx; apply Hz; now apply (len0_values q2 Hq2)).
      destruct (rq_values q2) as [|x0 xs0] eqn:Hq2v; [congruence|].
      set (s2 := set_w (with_mem s c') i (mkW (w_code w) (w_start w) WAlive (Some q2))).
      assert (HI2 : Inv s2).
      { unfold Inv, s2. cbn [s_m s_procs s_cycles s_mem s_ws s_living s_cycle set_w with_mem with_ws with_living].
        do 4 (split; [assumption|]). split; [|split; [|assumption]].
        - apply list_set_Forall; [assumption|]. split; [assumption|]. cbn [w_state w_pq].
          exists q2. split; [reflexivity|]. split; [assumption|]. split; [congruence|]. split; [lia|].
          rewrite Hq2v. assumption.
        - rewrite (alive_count_set _ _ w _ Hn). unfold alive. rewrite Hst. cbn [w_state]. lia. }
      set (t2 := mkM ct (replace_nth (map absw (s_ws s)) i (mkMW (w_code w) (w_start w) MAlive (x0 :: xs0))) (m_cycles t)).
      assert (HR2 : Rel s2 t2).
      { unfold Rel, s2, t2. cbn [s_m s_mem s_ws s_cycle set_w with_mem with_ws with_living m_core m_ws m_cycles].
        split; [assumption|]. split; [|assumption].
        rewrite map_list_set. f_equal. unfold absw, w_queue. cbn [w_code w_start w_state w_pq abs_st].
        now rewrite Hq2v. }
      assert (HG2 : guards s2) by exact HG.
      fold t2.
      match goal with |- context [cycle_loop k (S i) s2 ?r] =>
        specialize (IH (S i) s2 r t2 (tr ++ [mkEv i pc (length pushes) false]) HI2 HG2 HR2) end.
      destruct (cycle_loop k (S i) s2 _) as [[[s' r] rp]|]; [|assumption].
      change (cfg_of s2) with (cfg_of s) in IH.
      destruct (m_cycle_from (cfg_of s) k (S i) t2 _) as [[t' early] tr'].
      destruct IH as (I1 & I2 & I3 & I4 & I5).
      split; [assumption|]. split; [assumption|]. split; [assumption|]. split; [rewrite I4; reflexivity|assumption].
  - (* dead *) specialize (IH (S i) s reps t tr HI HG HR). destruct (w_queue w); exact IH.
Qed.

(* ---------- RunCycle ---------- *)
Definition can_run (s : sim) (t : mars) : bool :=
  negb (m_finished (cfg_of s) t) && (0 <? m_living t)%nat.

Lemma rel_living s t : Inv s -> Rel s t -> s_living s = Z.of_nat (m_living t) /\
                                        length (m_ws t) = length (s_ws s) /\
                                        (m_living t <= length (s_ws s))%nat.
Proof.
  intros (_ & _ & _ & _ & _ & F & _) (_ & R2 & _).
  unfold m_living. rewrite R2, living_map, map_length. split; [assumption|]. split; [reflexivity|].
  unfold alive_count. generalize (s_ws s). induction l as [|h l IHl]; cbn; [lia|]. destruct (alive h); cbn; lia.
Qed.

Lemma guard_is_not_can_run s t :
  Inv s -> Rel s t ->
  ((s_cycles s <=? s_cycle s) || (s_living s <? 1)%Z || ((1 <? wcount s)%Z && (s_living s <? 2)%Z))%bool
  = negb (can_run s t).
Proof.
  intros HI HR. destruct (rel_living s t HI HR) as (L1 & L2 & L3).
  destruct HR as (_ & _ & R3).
  unfold can_run, m_finished, wcount. cbn [cfg_of mc_C]. rewrite L2, R3, L1.
  destruct (N.leb_spec (s_cycles s) (s_cycle s)); cbn [orb];
    repeat match goal with
           | |- context [(?a <? ?b)%Z] => destruct (Z.ltb_spec a b)
           | |- context [(?a =? ?b)%nat] => destruct (Nat.eqb_spec a b)
           | |- context [(?a <? ?b)%nat] => destruct (Nat.ltb_spec a b)
           | |- context [(?a <=? ?b)%nat] => destruct (Nat.leb_spec a b)
           end; cbn; try reflexivity; lia.
Qed.

Theorem run_cycle_refines s t :
  Inv s -> guards s -> Rel s t ->
  match run_cycle s with
  | Panic => False
  | Ok (s', r, _) =>
    if can_run s t then
      let t' := m_cycle (cfg_of s) t in
      Rel s' t' /\ Inv s' /\ cfg_of s' = cfg_of s /\
      r = (if m_cycles t' =? m_cycles t then 1%Z else Z.of_nat (m_living t'))
    else s' = s /\ r = 0%Z
  end.
Proof.
  intros HI HG HR. unfold run_cycle.
  pose proof (guard_is_not_can_run s t HI HR) as GD.
  destruct ((s_cycles s <=? s_cycle s) || (s_living s <? 1)%Z)%bool eqn:E1.
  { cbn [orb] in GD. destruct (can_run s t); [discriminate|auto]. }
  cbn [orb] in GD.
  destruct ((1 <? wcount s)%Z && (s_living s <? 2)%Z)%bool eqn:E2.
  { destruct (can_run s t); [discriminate|auto]. }
  destruct (can_run s t); [|discriminate]. clear GD.
  pose proof (cycle_loop_refines (length (s_ws s)) 0 s [mkR CycleStart (Z.of_N (s_cycle s)) 0 0] t [] HI HG HR) as L.
  unfold m_cycle, m_cycle_tr.
  assert (Hlen : length (m_ws t) = length (s_ws s)) by (destruct HR as (_ & -> & _); apply map_length).
  rewrite Hlen.
  destruct (cycle_loop _ _ _ _) as [[[s' r] reps]|]; [|assumption].
  destruct (m_cycle_from (cfg_of s) (length (s_ws s)) 0 t []) as [[t' early] tr].
  destruct L as (L1 & L2 & L3 & L4 & L5).
  destruct r as [l|].
  - destruct L5 as (-> & -> & L7). cbn [fst].
    split; [assumption|]. split; [assumption|]. split; [assumption|].
    destruct L1 as (_ & _ & T3). destruct HR as (_ & _ & R3).
    rewrite T3, L4, R3, N.eqb_refl. reflexivity.
  - subst early. cbn [fst].
    destruct L1 as (T1 & T2 & T3). destruct HR as (R1 & R2 & R3).
    pose proof L2 as (A & B & C & D & E & F & G).
    apply orb_false_iff in E1. destruct E1 as [E1 _]. apply N.leb_gt in E1.
    assert (Hadd : add64 (s_cycle s') 1 = s_cycle s' + 1) by (apply add64_small; rewrite L4; inversion L3; lia).
    split; [|split; [|split]].
    + unfold Rel. cbn [s_m s_mem s_ws s_cycle with_cycle m_core m_ws m_cycles].
      split; [assumption|]. split; [assumption|]. rewrite Hadd, T3. reflexivity.
    + unfold Inv. cbn [s_m s_procs s_cycles s_mem s_ws s_living s_cycle with_cycle].
      do 6 (split; [assumption|]). rewrite Hadd, L4. inversion L3. lia.
    + unfold cfg_of in *. cbn [s_m s_procs s_cycles s_rl s_wl with_cycle]. assumption.
    + cbn [m_cycles]. rewrite T3, L4, R3.
      destruct (N.eqb_spec (s_cycle s + 1) (s_cycle s)); [lia|].
      cbn [s_living with_cycle]. unfold m_living. cbn [m_ws]. rewrite T2, living_map. assumption.
Qed.

(* ---------- Run ---------- *)
Lemma until_done_finished cfg f t : m_finished cfg t = true -> m_until_done cfg f t = t.
Proof. destruct f; cbn; [reflexivity|]. now intros ->. Qed.

Lemma not_can_run_finished s t :
  Inv s -> Rel s t -> can_run s t = false -> m_finished (cfg_of s) t = true.
Proof.
  intros HI HR. destruct (rel_living s t HI HR) as (L1 & L2 & L3).
  unfold can_run, m_finished. rewrite L2.
  destruct (m_living t) eqn:Hl; cbn.
  - intros _. destruct (length (s_ws s)) as [|[|n]]; cbn; try reflexivity;
      rewrite ?orb_true_r; reflexivity.
  - rewrite andb_true_r. intros H. apply negb_false_iff in H. exact H.
Qed.

Theorem run_loop_refines fuel : forall s t,
  Inv s -> guards s -> Rel s t -> s_ws s <> [] ->
  (N.to_nat (s_cycles s - s_cycle s) < fuel)%nat ->
  match run_loop fuel s with
  | RunOk s' (Some flags) =>
      Rel s' (m_until_done (cfg_of s) fuel t) /\ Inv s' /\ flags = map alive (s_ws s')
  | _ => False
  end.
Proof.
  induction fuel as [|f IH]; intros s t HI HG HR Hne Hf; [lia|].
  cbn [run_loop m_until_done].
  destruct (N.leb_spec (s_cycles s) (s_cycle s)) as [Hc|Hc].
  { assert (Hfin : m_finished (cfg_of s) t = true).
    { unfold m_finished. cbn [cfg_of mc_C]. destruct HR as (_ & _ & ->).
      apply N.leb_le in Hc. rewrite Hc. now rewrite !orb_true_r. }
    rewrite Hfin. auto. }
  pose proof (run_cycle_refines s t HI HG HR) as RC.
  pose proof (run_cycle_inv s HI) as RI.
  destruct (run_cycle s) as [[[s' a] reps]|]; [|assumption].
  destruct RI as [_ Hlen].
  destruct (can_run s t) eqn:CR.
  - (* a cycle runs *)
    assert (Hnf : m_finished (cfg_of s) t = false).
    { unfold can_run in CR. apply andb_prop in CR. destruct CR as [CR _]. now apply negb_true_iff in CR. }
    rewrite Hnf.
    destruct RC as (R' & I' & C' & Ha).
    pose proof (m_cycle_facts (cfg_of s) t) as MF. cbv zeta in MF.
    set (t' := m_cycle (cfg_of s) t) in *.
    destruct (rel_living s' t' I' R') as (L1 & L2 & L3).
    destruct MF as [ML MC].
    destruct (rel_living s t HI HR) as (_ & Hlt & _).
    assert (Hn1 : (1 <= length (s_ws s))%nat) by (destruct (s_ws s); [congruence|cbn; lia]).
    assert (Hfin' : forall b, b = true ->
              b = ((a =? 0)%Z || ((1 <? length (s_ws s))%nat && (a =? 1)%Z))%bool ->
              m_finished (cfg_of s) t' = true).
    { intros b Hb Eb. subst b. symmetry in Eb. unfold m_finished. rewrite L2, Hlen.
      destruct MC as [(M1 & M2 & M3)|M1].
      - rewrite M3.
        destruct (Nat.ltb_spec 1 (length (s_ws s))) as [|X]; [cbn; now rewrite ?orb_true_r|].
        rewrite Hlt in M2. lia.
      - rewrite M1 in Ha. destruct (N.eqb_spec (m_cycles t + 1) (m_cycles t)); [lia|].
        subst a. apply orb_prop in Eb. destruct Eb as [Eb|Eb].
        + apply Z.eqb_eq in Eb. assert (m_living t' = 0%nat) by lia. rewrite H.
          destruct (length (s_ws s)) as [|[|nn]]; cbn; try reflexivity; try lia.
        + apply andb_prop in Eb. destruct Eb as [Eb1 Eb2]. apply Z.eqb_eq in Eb2.
          assert (m_living t' = 1%nat) by lia. rewrite H, Eb1. cbn. now rewrite ?orb_true_r. }
    destruct ((a =? 0)%Z || ((1 <? length (s_ws s))%nat && (a =? 1)%Z))%bool eqn:Hex.
    + rewrite (until_done_finished _ f t' (Hfin' true eq_refl eq_refl)). auto.
    + (* the loop goes on: the cycle was counted *)
      assert (Hcyc : m_cycles t' = m_cycles t + 1).
      { destruct MC as [(M1 & M2 & M3)|M1]; [|assumption].
        exfalso. rewrite M1, N.eqb_refl in Ha. subst a.
        rewrite Hlt in M2. apply Nat.ltb_lt in M2. rewrite M2 in Hex. discriminate. }
      assert (Hs' : s_cycle s' = s_cycle s + 1).
      { destruct R' as (_ & _ & T3). destruct HR as (_ & _ & R3). lia. }
      assert (Hcs : s_cycles s' = s_cycles s) by (inversion C'; reflexivity).
      assert (HG' : guards s') by (unfold guards in *; inversion C'; congruence).
      assert (Hne' : s_ws s' <> []) by (intros X; rewrite X in Hlen; cbn in Hlen; destruct (s_ws s); [congruence|discriminate]).
      specialize (IH s' t' I' HG' R' Hne' ltac:(lia)).
      rewrite C' in IH. exact IH.
  - (* nothing can run: Run returns at once *)
    destruct RC as [-> ->]. cbn [Z.eqb orb].
    rewrite (not_can_run_finished s t HI HR CR). auto.
Qed.

Theorem run_refines s t :
  Inv s -> guards s -> Rel s t -> s_ws s <> [] ->
  forall fuel, (N.to_nat (s_cycles s - s_cycle s) < fuel)%nat ->
  match run fuel s with
  | RunOk s' (Some flags) =>
      Rel s' (m_until_done (cfg_of s) fuel t) /\ Inv s' /\ flags = map alive (s_ws s')
  | _ => False
  end.
Proof.
  intros HI HG HR Hne fuel Hf. unfold run.
  destruct (s_ws s) eqn:E; [congruence|]. rewrite <- E in *.
  apply run_loop_refines; assumption.
Qed.

(* ---------- SpawnWarrior and AddWarrior ---------- *)
Lemma core_eq_set M c c' a i : core_eq M c c' -> core_eq M (set c a i) (set c' a i).
Proof. intros H x Hx. rewrite !get_set. destruct (x =? a); [reflexivity|now apply H]. Qed.

Lemma load_refines M off code : forall c c' i,
  0 < M -> off < M -> i + N.of_nat (length code) + M < two64 ->
  core_eq M c c' ->
  core_eq M (load_code M c off i code) (m_load M c' (off + i) code).
Proof.
  induction code as [|x t IH]; intros c c' i HM Hoff Hb H; cbn [load_code m_load]; [assumption|].
  replace (off + i + 1) with (off + (i + 1)) by lia.
  apply IH; try assumption.
  - cbn [length] in Hb. lia.
  - rewrite add64_small by lia. apply core_eq_set. assumption.
Qed.

Lemma nth_error_Z_of_nat {A} (l : list A) (wi : Z) w :
  (0 <= wi)%Z -> nth_error l (Z.to_nat wi) = Some w -> (wi < Z.of_nat (length l))%Z.
Proof.
  intros H0 Hn. assert (Z.to_nat wi < length l)%nat by (apply nth_error_Some; congruence). lia.
Qed.

Lemma entry_eq M off st :
  0 < M -> (0 <= st)%Z ->
  Z.to_N ((Z.of_N off + st) mod Z.of_N M) = (off mod M + Z.to_N st) mod M.
Proof.
  intros HM Hs. rewrite <- (Z2N.id st) at 1 by assumption.
  rewrite <- N2Z.inj_add, <- N2Z.inj_mod, N2Z.id.
  now rewrite N.add_mod_idemp_l by lia.
Qed.

Theorem spawn_refines s t wi off :
  Inv s -> guards s -> Rel s t -> off < two64 ->
  Forall (fun w => (0 <= w_start w)%Z /\ Z.to_N (w_start w) + N.of_nat (length (w_code w)) + 2 * s_m s < two64) (s_ws s) ->
  match spawn_warrior s wi off with
  | Panic => False
  | Ok (inr _) =>                       (* refused: no such warrior, or it is alive *)
      (wi < 0)%Z \/ (Z.of_nat (length (s_ws s)) <= wi)%Z \/
      exists w, nth_error (m_ws t) (Z.to_nat wi) = Some w /\ m_alive w = true
  | Ok (inl (s', _)) =>
      (0 <= wi)%Z /\
      exists t', m_spawn (cfg_of s) t (Z.to_nat wi) off = Some t' /\ Rel s' t' /\ Inv s' /\ cfg_of s' = cfg_of s
  end.
Proof.
  intros HI HG HR Hoff Hws.
  pose proof (spawn_inv s wi off HI) as SI.
  pose proof HI as (A & B & C & D & E & F & G).
  pose proof HG as (G1 & G2 & G3).
  pose proof HR as (R1 & R2 & R3).
  unfold spawn_warrior in *.
  destruct (wi <? 0)%Z eqn:H0; cbn [orb] in *; [apply Z.ltb_lt in H0; auto|].
  apply Z.ltb_ge in H0.
  destruct (wcount s <=? wi)%Z eqn:H1; [apply Z.leb_le in H1; unfold wcount in H1; auto|].
  apply Z.leb_gt in H1. unfold wcount in H1.
  unfold windex in *. destruct (wi <? 0)%Z eqn:H0'; [apply Z.ltb_lt in H0'; lia|].
  destruct (nth_error (s_ws s) (Z.to_nat wi)) as [w|] eqn:Hn; [|assumption].
  assert (Hnt : nth_error (m_ws t) (Z.to_nat wi) = Some (absw w))
    by (rewrite R2, nth_error_map, Hn; reflexivity).
  pose proof (proj1 (Forall_forall _ _) Hws w (nth_error_In _ _ Hn)) as [Hst0 Hbd].
  assert (Mb : 4 * s_m s + 4 < two64) by (apply M_lt_two64; assumption).
  destruct (w_state w) eqn:Hst.
  2:{ right. right. exists (absw w). split; [assumption|]. rewrite m_alive_absw. unfold alive. now rewrite Hst. }
  all: split; [assumption|]; unfold m_spawn; rewrite Hnt, m_alive_absw; unfold alive; rewrite Hst;
       eexists; split; [reflexivity|]; split; [|split; [exact SI|reflexivity]].
  all: unfold Rel; cbn [s_m s_mem s_ws s_cycle set_w with_mem with_ws with_living m_core m_ws m_cycles cfg_of mc_M mc_P];
       split; [|split; [|assumption]].
  all: try (rewrite (m_load_congr (s_m s) (m_core t) off (off mod s_m s + 0) (mw_code (absw w)));
            [apply load_refines; cbn [absw mw_code]; try assumption; try (apply N.mod_lt; lia); lia
            | lia | rewrite N.add_0_r, N.mod_mod; lia]).
  all: rewrite map_list_set, R2; f_equal; unfold absw, w_queue; cbn [w_code w_start w_state w_pq abs_st mw_start];
       f_equal;
       pose proof (rq_new_wf (s_procs s) B) as Hnw;
       rewrite (rq_push_values _ _ Hnw), rq_new_values; cbn [length rq_new q_size];
       unfold enq; cbn [fold_left length app];
       assert (Hlt : (N.of_nat 0 <? s_procs s) = true) by (apply N.ltb_lt; cbn; lia);
       rewrite Hlt; cbn [app]; f_equal;
       assert (Hz : z2u64 (w_start w) = Z.to_N (w_start w))
         by (unfold z2u64; rewrite Z.mod_small; [reflexivity| rewrite two64_val in Hbd; lia]);
       rewrite Hz;
       assert (Hom : off mod s_m s < s_m s) by (apply N.mod_lt; lia);
       rewrite add64_small by lia;
       apply entry_eq; [lia|assumption].
Qed.

Lemma add_refines s t code start :
  Rel s t ->
  Rel (add_warrior s code start)
      (mkM (m_core t) (m_ws t ++ [mkMW code start MAdded []]) (m_cycles t)).
Proof.
  intros (R1 & R2 & R3). unfold Rel, add_warrior. cbn.
  split; [assumption|]. split; [|assumption]. rewrite R2, map_app. reflexivity.
Qed.

Lemma new_rel c s : new_sim c = Some s -> Rel s (mkM empty_core [] 0).
Proof.
  unfold new_sim. destruct (validate c); [|discriminate]. intros E. inversion E.
  unfold Rel. cbn. split; [intros a _; reflexivity|auto].
Qed.
