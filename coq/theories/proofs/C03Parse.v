(* C03Parse.v — the parser stage on instruction lines that carry labels: label sections in
   any spelling (names, colons, line ends in any order after the first name), written or
   omitted addressing modes, one or two operands whose expressions mention names, trailing
   remarks, comment lines and any number of blank lines.  The result is stated up to what
   the compiler looks at: blank source lines, line numbers and newline counts are dropped. *)
From GM Require Import Base Text Token Lexer Scanner ExprSpec ExprEval ForExpand Parser Sim Compile
     C03Lexer C05Lexer C05Fuel C10Proof C14Proof ParserFuel C09Parse.
From Coq Require Import Lia.
Open Scope N_scope.

(* ---------- a parser positioned on a token list ---------- *)
Definition pqg (en : bool) (mt : pmeta) (syms refs : list text) (l : list token) (L C : Z) (cur : sline) (lines : list sline) : parser :=
  match l with
  | t :: r => mkP r t false L C false cur mt en lines syms refs
  | [] => mkP [] tEOF true L C false cur mt en lines syms refs
  end.
(* before an END line has been read *)
Notation pq := (pqg false).

Lemma pnext_pq en mt sy rf t t2 r L C cur lines :
  pnext (pqg en mt sy rf (t :: t2 :: r) L C cur lines) =
  pqg en mt sy rf (t2 :: r) (match t_typ t with tokNewline => (L + 1)%Z | _ => L end) C cur lines.
Proof. reflexivity. Qed.
Lemma pnext_pq_nn en mt sy rf t t2 r L C cur lines : t_typ t <> tokNewline ->
  pnext (pqg en mt sy rf (t :: t2 :: r) L C cur lines) = pqg en mt sy rf (t2 :: r) L C cur lines.
Proof. intros H. rewrite pnext_pq. destruct (t_typ t); try reflexivity. congruence. Qed.

(* ---------- what the compiler looks at ---------- *)
Definition core (l : sline) : sline :=
  mkSL 0 (sl_codeline l) (sl_typ l) (sl_labels l) (sl_op l) (sl_amode l) (sl_a l) (sl_bmode l) (sl_b l) (sl_comment l) 0.
Definition is_blank (l : sline) : bool := match sl_typ l with lineEmpty => true | _ => false end.
Definition essential (ls : list sline) : list sline := map core (filter (fun l => negb (is_blank l)) ls).
Lemma essential_app a b : essential (a ++ b) = essential a ++ essential b.
Proof. unfold essential. rewrite filter_app, map_app. reflexivity. Qed.
Lemma essential_blank a x : is_blank x = true -> essential (a ++ [x]) = essential a.
Proof. intros H. rewrite essential_app. unfold essential at 2. cbn [filter]. rewrite H. cbn. apply app_nil_r. Qed.
Lemma essential_line a x : is_blank x = false -> essential (a ++ [x]) = essential a ++ [core x].
Proof. intros H. rewrite essential_app. unfold essential at 2. cbn [filter]. rewrite H. reflexivity. Qed.

(* ---------- the names an expression refers to ---------- *)
Definition add_ref (refs : list text) (t : token) : list text :=
  match t_typ t with
  | tokText => if mem_text (t_val t) refs then refs else refs ++ [t_val t]
  | _ => refs
  end.
Definition add_refs (refs : list text) (e : list token) : list text := fold_left add_ref e refs.

Definition term_tok (t : token) : Prop := tok_is_expr_term t = true.
Lemma term_not_newline t : term_tok t -> t_typ t <> tokNewline.
Proof. unfold term_tok, tok_is_expr_term. destruct (t_typ t); try discriminate; intros _ X; discriminate X. Qed.

Lemma expr_loop_names en mt sy rf0 e : forall f t' rest L C cur lines acc refs,
  Forall term_tok e -> tok_is_expr_term t' = false -> (length e < f)%nat ->
  expr_loop f (pqg en mt sy rf0 (e ++ t' :: rest) L C cur lines) acc refs =
  (pqg en mt sy rf0 (t' :: rest) L C cur lines, acc ++ e, add_refs refs e).
Proof.
  induction e as [|t e IH]; intros f t' rest L C cur lines acc refs He Ht' Hf.
  - destruct f as [|f]; [lia|]. cbn [app expr_loop pqg p_nt]. rewrite Ht'. rewrite app_nil_r. reflexivity.
  - destruct f as [|f]; [cbn in Hf; lia|]. inversion He as [|x y H1 Hy]; subst.
    cbn [app]. cbn [expr_loop].
    replace (p_nt (pqg en mt sy rf0 (t :: e ++ t' :: rest) L C cur lines)) with t by reflexivity.
    unfold term_tok in H1. rewrite H1.
    assert (Hn : pnext (pqg en mt sy rf0 (t :: e ++ t' :: rest) L C cur lines) = pqg en mt sy rf0 (e ++ t' :: rest) L C cur lines).
    { pose proof (term_not_newline t H1) as Hnl. destruct e as [|t2 e2]; cbn [app]; apply pnext_pq_nn; exact Hnl. }
    rewrite Hn.
    change (match t_typ t with tokText => if mem_text (t_val t) refs then refs else refs ++ [t_val t] | _ => refs end) with (add_ref refs t).
    rewrite (IH f t' rest L C cur lines (acc ++ [t]) (add_ref refs t) Hy Ht'); [|cbn [length] in Hf; lia].
    rewrite <- app_assoc. reflexivity.
Qed.

(* ---------- single state functions ---------- *)
Lemma q_line_text mt sy rf t r L C cur lines :
  t_typ t = tokText ->
  parse_step PLine (pq mt sy rf (t :: r) L C cur lines) = (pq mt sy rf (t :: r) L C (empty_sline L) lines, Some PLabels).
Proof. intros H. cbn [parse_step pqg p_end p_nt]. rewrite H. reflexivity. Qed.

Lemma q_line_eof mt sy rf L C cur lines :
  parse_step PLine (pq mt sy rf [tEOF] L C cur lines) = (pq mt sy rf [tEOF] L C (empty_sline L) lines, None).
Proof. reflexivity. Qed.

Lemma q_line_nl mt sy rf r L C cur lines :
  parse_step PLine (pq mt sy rf (nl_tok :: r) L C cur lines) = (pq mt sy rf (nl_tok :: r) L C (empty_sline L) lines, Some PEmptyLines).
Proof. reflexivity. Qed.

Lemma q_line_comment mt sy rf c r L C cur lines :
  parse_step PLine (pq mt sy rf (mkT tokComment c :: r) L C cur lines) =
  (pq (read_metadata mt c) sy rf (mkT tokComment c :: r) L C (mkSL L 0 lineComment [] [] [] [] [] [] [] 0) lines, Some Parser.PComment).
Proof. reflexivity. Qed.

(* blank lines: any run of line ends is swallowed into one blank source line *)
Lemma empty_go_run mt sy rf k : forall f t' rest L C cur lines, (k < f)%nat -> t_typ t' <> tokNewline ->
  exists L' cur', sl_typ cur' = sl_typ cur /\
  empty_go f (pq mt sy rf (repeat nl_tok k ++ t' :: rest) L C cur lines) =
  (pq mt sy rf (t' :: rest) L' C cur' (lines ++ [cur']), Some PLine).
Proof.
  induction k as [|k IH]; intros f t' rest L C cur lines Hf Ht.
  - destruct f as [|f]; [lia|]. exists L, cur. split; [reflexivity|]. cbn [repeat app empty_go pqg p_nt].
    destruct (t_typ t'); try reflexivity. congruence.
  - destruct f as [|f]; [lia|]. cbn [repeat app empty_go].
    replace (t_typ (p_nt (pq mt sy rf (nl_tok :: repeat nl_tok k ++ t' :: rest) L C cur lines))) with tokNewline by reflexivity.
    assert (Hn : pnext (cur_newline (pq mt sy rf (nl_tok :: repeat nl_tok k ++ t' :: rest) L C cur lines)) =
                 pq mt sy rf (repeat nl_tok k ++ t' :: rest) (L + 1)%Z C (add_newline cur) lines).
    { destruct k; reflexivity. }
    rewrite Hn. destruct (IH f t' rest (L + 1)%Z C (add_newline cur) lines ltac:(lia) Ht) as [L' [cur' [E1 E2]]].
    exists L', cur'. split; [exact E1|exact E2].
Qed.

Lemma q_empty mt sy rf k t' rest L C cur lines : t_typ t' <> tokNewline ->
  exists L' cur', sl_typ cur' = sl_typ cur /\
  parse_step PEmptyLines (pq mt sy rf (repeat nl_tok k ++ t' :: rest) L C cur lines) =
  (pq mt sy rf (t' :: rest) L' C cur' (lines ++ [cur']), Some PLine).
Proof.
  intros Ht. rewrite step_empty. apply empty_go_run; [|exact Ht].
  destruct k; cbn [repeat app pqg p_toks length]; [lia|]. rewrite app_length, repeat_length. cbn [length]. lia.
Qed.

(* ---------- the label section of a line ---------- *)
Inductive ltok := LName (n : text) | LColon | LNl.
Definition ltok_tok (x : ltok) : token :=
  match x with LName n => mkT tokText n | LColon => mkT tokColon [58] | LNl => nl_tok end.
Definition lnames (l : list ltok) : list text := flat_map (fun x => match x with LName n => [n] | _ => [] end) l.
Fixpoint drop_colons (l : list ltok) : list ltok := match l with LColon :: r => drop_colons r | _ => l end.
Lemma drop_colons_len l : (length (drop_colons l) <= length l)%nat.
Proof. induction l as [|[n| |] r IH]; cbn [drop_colons length]; lia. Qed.
Lemma drop_colons_names l : lnames (drop_colons l) = lnames l.
Proof. induction l as [|[n| |] r IH]; cbn [drop_colons lnames flat_map app]; try reflexivity. exact IH. Qed.

Definition add_labels (c : sline) (ns : list text) : sline :=
  mkSL (sl_line c) (sl_codeline c) (sl_typ c) (sl_labels c ++ ns) (sl_op c) (sl_amode c) (sl_a c) (sl_bmode c) (sl_b c) (sl_comment c) (sl_newlines c).
Lemma add_labels_nil c : add_labels c [] = c.
Proof. destruct c. unfold add_labels. cbn. rewrite app_nil_r. reflexivity. Qed.
Lemma add_labels_app c a b : add_labels (add_labels c a) b = add_labels c (a ++ b).
Proof. unfold add_labels. cbn. rewrite app_assoc. reflexivity. Qed.

Definition op_tok (o : token) : Prop := t_typ o = tokText /\ tok_is_op o = true /\ tok_is_pseudo o = false.
(* a mnemonic or a pseudo-op, and the state that reads it *)
Definition kw_tok (o : token) : Prop := t_typ o = tokText /\ tok_is_op o = true.
Definition op_state (o : token) : pstate := if tok_is_pseudo o then PPseudoOp else POp.
Lemma op_tok_kw o : op_tok o -> kw_tok o /\ op_state o = POp.
Proof. intros [H1 [H2 H3]]. unfold kw_tok, op_state. rewrite H3. auto. Qed.
Definition label_name (n : text) : Prop := tok_is_op (mkT tokText n) = false.

Lemma colon_go_skip mt sy rf o r C cur lines : forall ls f L, t_typ o <> tokColon -> (length ls < f)%nat ->
  colon_go f (pq mt sy rf (map ltok_tok ls ++ o :: r) L C cur lines) =
  pq mt sy rf (map ltok_tok (drop_colons ls) ++ o :: r) L C cur lines.
Proof.
  induction ls as [|x ls IH]; intros f L Ho Hf.
  - cbn [map app drop_colons]. apply colon_go_other. exact Ho.
  - destruct f as [|f]; [lia|]. destruct x as [n| |].
    + cbn [drop_colons]. apply colon_go_other. cbn. discriminate.
    + cbn [map app drop_colons ltok_tok colon_go].
      replace (t_typ (p_nt (pq mt sy rf (mkT tokColon [58] :: map ltok_tok ls ++ o :: r) L C cur lines))) with tokColon by reflexivity.
      assert (Hn : pnext (pq mt sy rf (mkT tokColon [58] :: map ltok_tok ls ++ o :: r) L C cur lines) =
                   pq mt sy rf (map ltok_tok ls ++ o :: r) L C cur lines).
      { destruct ls; cbn [map app]; apply pnext_pq_nn; discriminate. }
      rewrite Hn. apply IH; [exact Ho|cbn [length] in Hf; lia].
    + cbn [drop_colons]. apply colon_go_other. cbn. discriminate.
Qed.

Lemma q_labels_op mt sy rf o r L C cur lines : kw_tok o ->
  parse_step PLabels (pq mt sy rf (o :: r) L C cur lines) = (pq mt sy rf (o :: r) L C cur lines, Some (op_state o)).
Proof. intros [H1 H2]. cbn [parse_step pqg p_nt]. rewrite H1, H2. reflexivity. Qed.

Lemma q_labels_nl mt sy rf t2 r L C cur lines :
  parse_step PLabels (pq mt sy rf (nl_tok :: t2 :: r) L C cur lines) = (pq mt sy rf (t2 :: r) (L + 1)%Z C cur lines, Some PLabels).
Proof. reflexivity. Qed.

Lemma q_labels_colon mt sy rf r L C cur lines :
  parse_step PLabels (pq mt sy rf (mkT tokColon [58] :: r) L C cur lines) = (pq mt sy rf (mkT tokColon [58] :: r) L C cur lines, Some Parser.PColon).
Proof. reflexivity. Qed.

Lemma q_labels_name mt sy rf n t2 r L C cur lines : label_name n -> mem_text n sy = false ->
  parse_step PLabels (pq mt sy rf (mkT tokText n :: t2 :: r) L C cur lines) =
  (pq mt (sy ++ [n]) rf (t2 :: r) L C (add_labels cur [n]) lines, Some PLabels).
Proof.
  intros H1 H2. cbn [parse_step pqg p_nt t_typ]. unfold label_name in H1. rewrite H1. cbv zeta. cbn [p_syms t_val]. rewrite H2. reflexivity.
Qed.

Lemma q_colon mt sy rf ls o r L C cur lines : kw_tok o ->
  parse_step Parser.PColon (pq mt sy rf (map ltok_tok ls ++ o :: r) L C cur lines) =
  match drop_colons ls with
  | [] => (pq mt sy rf (o :: r) L C cur lines, Some (op_state o))
  | LNl :: t => (pq mt sy rf (map ltok_tok t ++ o :: r) (L + 1)%Z C cur lines, Some Parser.PColon)
  | LName n :: t => if tok_is_op (mkT tokText n) then
                      (pq mt sy rf (map ltok_tok (LName n :: t) ++ o :: r) L C cur lines,
                       Some (if tok_is_pseudo (mkT tokText n) then PPseudoOp else POp))
                    else (pq mt sy rf (map ltok_tok (LName n :: t) ++ o :: r) L C cur lines, Some PLabels)
  | LColon :: t => (pq mt sy rf (map ltok_tok ls ++ o :: r) L C cur lines, None)
  end.
Proof.
  intros [H1 H2]. rewrite step_colon. cbv zeta.
  rewrite colon_go_skip.
  - destruct (drop_colons ls) as [|[n| |] t] eqn:E.
    + cbn [map app pqg p_nt]. rewrite H1, H2. reflexivity.
    + cbn [map app ltok_tok pqg p_nt t_typ]. destruct (tok_is_op (mkT tokText n)); reflexivity.
    + exfalso. clear - E. induction ls as [|[n| |] ls IH]; cbn [drop_colons] in E; try discriminate. apply IH. exact E.
    + cbn [map app ltok_tok]. replace (t_typ (p_nt (pq mt sy rf (nl_tok :: map ltok_tok t ++ o :: r) L C cur lines))) with tokNewline by reflexivity.
      f_equal. destruct t; reflexivity.
  - rewrite H1. discriminate.
  - destruct ls as [|x ls']; cbn [map app pqg p_toks length]; [lia|]. rewrite app_length, map_length. cbn [length]. lia.
Qed.

(* the whole label section, from either of its two states, ends in front of the mnemonic *)
Lemma lab_phase mt rf o r C lines : kw_tok o ->
  forall k ls, (length ls <= k)%nat -> Forall label_name (lnames ls) ->
  forall sy, NoDup (sy ++ lnames ls) ->
  forall L cur,
  (exists n L', forall f, parse_run (n + f) PLabels (pq mt sy rf (map ltok_tok ls ++ o :: r) L C cur lines) =
                          parse_run f (op_state o) (pq mt (sy ++ lnames ls) rf (o :: r) L' C (add_labels cur (lnames ls)) lines)) /\
  (exists n L', forall f, parse_run (n + f) Parser.PColon (pq mt sy rf (map ltok_tok ls ++ o :: r) L C cur lines) =
                          parse_run f (op_state o) (pq mt (sy ++ lnames ls) rf (o :: r) L' C (add_labels cur (lnames ls)) lines)).
Proof.
  intros Ho. induction k as [|k IH]; intros ls Hk Hnm sy Hnd L cur.
  - destruct ls; [|cbn in Hk; lia]. cbn [map app lnames flat_map]. rewrite app_nil_r, add_labels_nil. split.
    + exists 1%nat, L. intros f. cbn [Nat.add]. rewrite parse_run_S, q_labels_op by exact Ho. reflexivity.
    + exists 1%nat, L. intros f. cbn [Nat.add]. rewrite parse_run_S.
      pose proof (q_colon mt sy rf [] o r L C cur lines Ho) as Q. cbn [map app drop_colons] in Q. rewrite Q. reflexivity.
  - (* the step from PLabels on a non-empty section, shared by both parts *)
    assert (FromLabels : forall ls', (length ls' <= S k)%nat -> Forall label_name (lnames ls') -> forall sy', NoDup (sy' ++ lnames ls') ->
              forall L0 cur0, (match ls' with LColon :: _ => False | _ => True end) ->
              exists n L', forall f, parse_run (n + f) PLabels (pq mt sy' rf (map ltok_tok ls' ++ o :: r) L0 C cur0 lines) =
                          parse_run f (op_state o) (pq mt (sy' ++ lnames ls') rf (o :: r) L' C (add_labels cur0 (lnames ls')) lines)).
    { intros ls' Hk' Hnm' sy' Hnd' L0 cur0 Hhd. destruct ls' as [|[n| |] t].
      - cbn [map app lnames flat_map]. rewrite app_nil_r, add_labels_nil.
        exists 1%nat, L0. intros f. cbn [Nat.add]. rewrite parse_run_S, q_labels_op by exact Ho. reflexivity.
      - cbn [lnames flat_map app] in Hnm', Hnd'. fold (lnames t) in Hnm', Hnd'.
        inversion Hnm' as [|x y Hn Ht]; subst.
        assert (Hfresh : mem_text n sy' = false).
        { destruct (mem_text n sy') eqn:E; [|reflexivity]. exfalso. unfold mem_text in E. apply existsb_exists in E.
          destruct E as [z [Hz1 Hz2]]. apply text_eqb_eq in Hz2. subst z.
          apply NoDup_remove_2 in Hnd'. apply Hnd'. apply in_or_app. left. exact Hz1. }
        assert (Hnd2 : NoDup ((sy' ++ [n]) ++ lnames t)).
        { rewrite <- app_assoc. cbn [app]. exact Hnd'. }
        destruct (IH t ltac:(cbn [length] in Hk'; lia) Ht (sy' ++ [n]) Hnd2 L0 (add_labels cur0 [n])) as [[m [L' Hm]] _].
        exists (S m), L'. intros f. cbn [Nat.add]. rewrite parse_run_S. cbn [map ltok_tok app].
        destruct (map ltok_tok t ++ o :: r) as [|t2 r2] eqn:E2; [destruct (map ltok_tok t); discriminate E2|].
        rewrite q_labels_name by assumption. rewrite Hm.
        cbn [lnames flat_map app]. fold (lnames t). rewrite <- app_assoc, add_labels_app. reflexivity.
      - destruct Hhd.
      - cbn [lnames flat_map app] in Hnm', Hnd'. fold (lnames t) in Hnm', Hnd'.
        destruct (IH t ltac:(cbn [length] in Hk'; lia) Hnm' sy' Hnd' (L0 + 1)%Z cur0) as [[m [L' Hm]] _].
        exists (S m), L'. intros f. cbn [Nat.add]. rewrite parse_run_S. cbn [map ltok_tok app].
        destruct (map ltok_tok t ++ o :: r) as [|t2 r2] eqn:E2; [destruct (map ltok_tok t); discriminate E2|].
        rewrite q_labels_nl. rewrite Hm. reflexivity. }
    (* the step from PColon *)
    assert (FromColon : forall ls', (length ls' <= S k)%nat -> Forall label_name (lnames ls') -> forall sy', NoDup (sy' ++ lnames ls') ->
              forall L0 cur0,
              exists n L', forall f, parse_run (n + f) Parser.PColon (pq mt sy' rf (map ltok_tok ls' ++ o :: r) L0 C cur0 lines) =
                          parse_run f (op_state o) (pq mt (sy' ++ lnames ls') rf (o :: r) L' C (add_labels cur0 (lnames ls')) lines)).
    { intros ls' Hk' Hnm' sy' Hnd' L0 cur0.
      pose proof (q_colon mt sy' rf ls' o r L0 C cur0 lines Ho) as Q.
      pose proof (drop_colons_len ls') as Hdl. pose proof (drop_colons_names ls') as Hdn.
      destruct (drop_colons ls') as [|[n| |] t] eqn:Ed.
      - cbn [lnames flat_map] in Hdn. rewrite <- Hdn. rewrite app_nil_r, add_labels_nil.
        exists 1%nat, L0. intros f. cbn [Nat.add]. rewrite parse_run_S, Q. reflexivity.
      - rewrite <- Hdn in Hnm', Hnd' |- *.
        assert (Hn : tok_is_op (mkT tokText n) = false).
        { cbn [lnames flat_map app] in Hnm'. inversion Hnm'; assumption. }
        rewrite Hn in Q.
        destruct (FromLabels (LName n :: t) ltac:(lia) Hnm' sy' Hnd' L0 cur0 I) as [m [L' Hm]].
        exists (S m), L'. intros f. cbn [Nat.add]. rewrite parse_run_S, Q. apply Hm.
      - exfalso. clear - Ed. induction ls' as [|[n| |] ls IH]; cbn [drop_colons] in Ed; try discriminate. apply IH. exact Ed.
      - rewrite <- Hdn in Hnm', Hnd' |- *. cbn [lnames flat_map app] in Hnm', Hnd' |- *. fold (lnames t) in *.
        destruct (IH t ltac:(cbn [length] in Hdl; lia) Hnm' sy' Hnd' (L0 + 1)%Z cur0) as [_ [m [L' Hm]]].
        exists (S m), L'. intros f. cbn [Nat.add]. rewrite parse_run_S, Q. apply Hm. }
    split.
    + destruct ls as [|[n| |] t] eqn:El; try (apply (FromLabels _ Hk Hnm sy Hnd L cur); exact I).
      (* a colon: over to the colon state, on the same tokens *)
      destruct (FromColon (LColon :: t) Hk Hnm sy Hnd L cur) as [m [L' Hm]].
      exists (S m), L'. intros f. cbn [Nat.add]. rewrite parse_run_S. cbn [map ltok_tok app]. rewrite q_labels_colon. apply Hm.
    + apply FromColon; assumption.
Qed.

(* ---------- mnemonic, modes and operands ---------- *)
Lemma q_op_mode mt sy rf t t2 r L C cur lines :
  t_typ t <> tokNewline -> tok_is_amode t2 = true ->
  parse_step POp (pq mt sy rf (t :: t2 :: r) L C cur lines) =
  (pq mt sy rf (t2 :: r) L (C + 1)%Z (set_op cur C lineInstruction (t_val t)) lines, Some PModeA).
Proof.
  intros H1 H2. cbn [parse_step]. cbv zeta.
  match goal with |- context [pnext ?q] =>
    replace (pnext q) with (pq mt sy rf (t2 :: r) L (C + 1)%Z (set_op cur C lineInstruction (t_val t)) lines)
      by (cbn; destruct (t_typ t); try reflexivity; congruence) end.
  cbn [pqg p_nt]. rewrite H2. reflexivity.
Qed.
Lemma q_op_expr mt sy rf t t2 r L C cur lines :
  t_typ t <> tokNewline -> tok_is_amode t2 = false -> tok_is_expr_term t2 = true -> val_is t2 42 = false ->
  parse_step POp (pq mt sy rf (t :: t2 :: r) L C cur lines) =
  (pq mt sy rf (t2 :: r) L (C + 1)%Z (set_op cur C lineInstruction (t_val t)) lines, Some PExprA).
Proof.
  intros H1 H2 H3 H4. cbn [parse_step]. cbv zeta.
  match goal with |- context [pnext ?q] =>
    replace (pnext q) with (pq mt sy rf (t2 :: r) L (C + 1)%Z (set_op cur C lineInstruction (t_val t)) lines)
      by (cbn; destruct (t_typ t); try reflexivity; congruence) end.
  cbn [pqg p_nt]. rewrite H2, H3, H4. reflexivity.
Qed.
Lemma q_mode_a mt sy rf t t2 r L C cur lines :
  t_typ t <> tokNewline -> tok_is_expr_term t2 = true ->
  parse_step PModeA (pq mt sy rf (t :: t2 :: r) L C cur lines) =
  (pq mt sy rf (t2 :: r) L C (set_amode cur (t_val t)) lines, Some PExprA).
Proof.
  intros H1 H2. cbn [parse_step]. cbv zeta.
  match goal with |- context [pnext ?q] =>
    replace (pnext q) with (pq mt sy rf (t2 :: r) L C (set_amode cur (t_val t)) lines)
      by (cbn; destruct (t_typ t); try reflexivity; congruence) end.
  cbn [pqg p_nt]. rewrite H2. reflexivity.
Qed.
Lemma q_mode_b mt sy rf t t2 r L C cur lines :
  t_typ t <> tokNewline -> tok_is_expr_term t2 = true ->
  parse_step PModeB (pq mt sy rf (t :: t2 :: r) L C cur lines) =
  (pq mt sy rf (t2 :: r) L C (set_bmode cur (t_val t)) lines, Some PExprB).
Proof.
  intros H1 H2. cbn [parse_step]. cbv zeta.
  match goal with |- context [pnext ?q] =>
    replace (pnext q) with (pq mt sy rf (t2 :: r) L C (set_bmode cur (t_val t)) lines)
      by (cbn; destruct (t_typ t); try reflexivity; congruence) end.
  cbn [pqg p_nt]. rewrite H2. reflexivity.
Qed.
Lemma q_comma_mode mt sy rf t2 r L C cur lines :
  tok_is_amode t2 = true ->
  parse_step Parser.PComma (pq mt sy rf (mkT tokComma [44] :: t2 :: r) L C cur lines) = (pq mt sy rf (t2 :: r) L C cur lines, Some PModeB).
Proof. intros H. cbn [parse_step]. rewrite pnext_pq. cbn [t_typ pqg p_nt]. rewrite H. reflexivity. Qed.
Lemma q_comma_expr mt sy rf t2 r L C cur lines :
  tok_is_amode t2 = false -> tok_is_expr_term t2 = true ->
  parse_step Parser.PComma (pq mt sy rf (mkT tokComma [44] :: t2 :: r) L C cur lines) = (pq mt sy rf (t2 :: r) L C cur lines, Some PExprB).
Proof. intros H H'. cbn [parse_step]. rewrite pnext_pq. cbn [t_typ pqg p_nt]. rewrite H, H'. reflexivity. Qed.

Lemma loop_fuel en mt sy rf (e : list token) t' r L C cur lines :
  (length e < S (S (length (p_toks (pqg en mt sy rf (e ++ t' :: r) L C cur lines)))))%nat.
Proof. destruct e as [|t0 e0]; cbn [app pqg p_toks length]; [lia|]. rewrite app_length. cbn [length]. lia. Qed.

(* the A expression, by what follows it *)
Lemma q_expr_a mt sy rf e t' r L C cur lines :
  Forall term_tok e -> sl_a cur = [] -> tok_is_expr_term t' = false ->
  parse_step PExprA (pq mt sy rf (e ++ t' :: r) L C cur lines) =
  match t_typ t' with
  | tokComment => (pq mt sy (add_refs rf e) (t' :: r) L C (set_a cur e) lines, Some Parser.PComment)
  | tokComma => (pq mt sy (add_refs rf e) (t' :: r) L C (set_a cur e) lines, Some Parser.PComma)
  | tokNewline | tokEOF => (pq mt sy (add_refs rf e) (t' :: r) L C (set_a cur e) (lines ++ [set_a cur e]), Some PLine)
  | _ => (p_fail (pq mt sy (add_refs rf e) (t' :: r) L C (set_a cur e) lines), None)
  end.
Proof.
  intros He Ha Ht. cbn [parse_step].
  replace (p_refs (pq mt sy rf (e ++ t' :: r) L C cur lines)) with rf by (destruct e; reflexivity).
  replace (sl_a (p_cur (pq mt sy rf (e ++ t' :: r) L C cur lines))) with (@nil token) by (destruct e; cbn; congruence).
  rewrite (expr_loop_names false mt sy rf e _ t' r L C cur lines [] rf He Ht (loop_fuel false mt sy rf e t' r L C cur lines)).
  cbn [app]. cbn [pqg p_set_refs cur_set p_set_cur p_cur p_nt p_toks p_eof p_line p_codeline p_err p_meta p_end p_lines p_syms].
  destruct (t_typ t'); reflexivity.
Qed.
Lemma q_expr_b mt sy rf e t' r L C cur lines :
  Forall term_tok e -> sl_b cur = [] -> tok_is_expr_term t' = false ->
  parse_step PExprB (pq mt sy rf (e ++ t' :: r) L C cur lines) =
  match t_typ t' with
  | tokComment => (pq mt sy (add_refs rf e) (t' :: r) L C (set_b cur e) lines, Some Parser.PComment)
  | tokNewline => (pnext (pq mt sy (add_refs rf e) (t' :: r) L C (add_newline (set_b cur e)) (lines ++ [add_newline (set_b cur e)])), Some PLine)
  | tokEOF => (pq mt sy (add_refs rf e) (t' :: r) L C (set_b cur e) (lines ++ [set_b cur e]), Some PLine)
  | _ => (p_fail (pq mt sy (add_refs rf e) (t' :: r) L C (set_b cur e) lines), None)
  end.
Proof.
  intros He Hb Ht. cbn [parse_step].
  replace (p_refs (pq mt sy rf (e ++ t' :: r) L C cur lines)) with rf by (destruct e; reflexivity).
  replace (sl_b (p_cur (pq mt sy rf (e ++ t' :: r) L C cur lines))) with (@nil token) by (destruct e; cbn; congruence).
  rewrite (expr_loop_names false mt sy rf e _ t' r L C cur lines [] rf He Ht (loop_fuel false mt sy rf e t' r L C cur lines)).
  cbn [app]. cbn [pqg p_set_refs cur_set p_set_cur p_cur p_nt p_toks p_eof p_line p_codeline p_err p_meta p_end p_lines p_syms].
  destruct (t_typ t'); reflexivity.
Qed.

Definition set_comment (c : sline) (cm : text) : sline :=
  mkSL (sl_line c) (sl_codeline c) (sl_typ c) (sl_labels c) (sl_op c) (sl_amode c) (sl_a c) (sl_bmode c) (sl_b c) cm (sl_newlines c).
Lemma q_comment_nl_g en mt sy rf c t' rest L C cur lines :
  parse_step Parser.PComment (pqg en mt sy rf (mkT tokComment c :: nl_tok :: t' :: rest) L C cur lines) =
  (pqg en mt sy rf (t' :: rest) (L + 1)%Z C (add_newline (set_comment cur c)) (lines ++ [add_newline (set_comment cur c)]), Some PLine).
Proof. reflexivity. Qed.
Lemma q_comment_eof_g en mt sy rf c L C cur lines :
  parse_step Parser.PComment (pqg en mt sy rf [mkT tokComment c; tEOF] L C cur lines) =
  (pqg en mt sy rf [tEOF] L C (set_comment cur c) (lines ++ [set_comment cur c]), None).
Proof. reflexivity. Qed.
Definition q_comment_nl := q_comment_nl_g false.
Definition q_comment_eof := q_comment_eof_g false.

(* ---------- pseudo-op lines: a keyword, then an expression or nothing ---------- *)
Definition is_end (t : token) : bool := lower_is (t_val t) "end".
Definition after_kw (cur : sline) (t : token) : sline := set_op cur (sl_codeline cur) linePseudoOp (t_val t).

Lemma q_pseudo_op_expr en mt sy rf t t2 r L C cur lines :
  t_typ t <> tokNewline -> tok_is_expr_term t2 = true ->
  parse_step PPseudoOp (pqg en mt sy rf (t :: t2 :: r) L C cur lines) =
  (pqg (en || is_end t) mt sy rf (t2 :: r) L C (after_kw cur t) lines, Some PPseudoExpr).
Proof.
  intros H1 H2. cbn [parse_step]. cbv zeta.
  match goal with |- context [pnext ?q] =>
    replace (pnext q) with (pqg (en || is_end t) mt sy rf (t2 :: r) L C (after_kw cur t) lines)
      by (cbn; destruct (t_typ t); try reflexivity; congruence) end.
  cbn [pqg p_nt]. rewrite H2. reflexivity.
Qed.
Lemma q_pseudo_op_comment en mt sy rf t c r L C cur lines :
  t_typ t <> tokNewline ->
  parse_step PPseudoOp (pqg en mt sy rf (t :: mkT tokComment c :: r) L C cur lines) =
  (pqg (en || is_end t) mt sy rf (mkT tokComment c :: r) L C (after_kw cur t) lines, Some Parser.PComment).
Proof.
  intros H1. cbn [parse_step]. cbv zeta.
  match goal with |- context [pnext ?q] =>
    replace (pnext q) with (pqg (en || is_end t) mt sy rf (mkT tokComment c :: r) L C (after_kw cur t) lines)
      by (cbn; destruct (t_typ t); try reflexivity; congruence) end.
  reflexivity.
Qed.
(* nothing follows the keyword: accepted for END only *)
Lemma q_pseudo_op_nl en mt sy rf t t3 r L C cur lines :
  t_typ t <> tokNewline -> tok_no_operands_ok t = true ->
  parse_step PPseudoOp (pqg en mt sy rf (t :: nl_tok :: t3 :: r) L C cur lines) =
  (pqg (en || is_end t) mt sy rf (t3 :: r) (L + 1)%Z C (add_newline (after_kw cur t)) (lines ++ [add_newline (after_kw cur t)]), Some PLine).
Proof.
  intros H1 H2. cbn [parse_step]. cbv zeta.
  match goal with |- context [pnext ?q] =>
    replace (pnext q) with (pqg (en || is_end t) mt sy rf (nl_tok :: t3 :: r) L C (after_kw cur t) lines)
      by (cbn; destruct (t_typ t); try reflexivity; congruence) end.
  cbn [pqg p_nt nl_tok t_typ tok_is_expr_term]. rewrite H2. reflexivity.
Qed.
Lemma q_pseudo_op_eof en mt sy rf t L C cur lines :
  t_typ t <> tokNewline -> tok_no_operands_ok t = true ->
  exists pf, parse_step PPseudoOp (pqg en mt sy rf [t; tEOF] L C cur lines) = (pf, None) /\
    p_err pf = false /\ p_syms pf = sy /\ p_refs pf = rf /\ p_meta pf = mt /\
    p_lines pf = lines ++ [add_newline (after_kw cur t)].
Proof.
  intros H1 H2. cbn [parse_step]. cbv zeta.
  match goal with |- context [pnext ?q] =>
    replace (pnext q) with (pqg (en || is_end t) mt sy rf [tEOF] L C (after_kw cur t) lines)
      by (cbn; destruct (t_typ t); try reflexivity; congruence) end.
  cbn [pqg p_nt tEOF t_typ tok_is_expr_term]. rewrite H2. eexists. split; [reflexivity|]. repeat split.
Qed.

(* the expression of a pseudo-op, by what follows it *)
Lemma q_pseudo_expr en mt sy rf e t' r L C cur lines :
  Forall term_tok e -> sl_a cur = [] -> tok_is_expr_term t' = false ->
  parse_step PPseudoExpr (pqg en mt sy rf (e ++ t' :: r) L C cur lines) =
  match t_typ t' with
  | tokComment => (pqg en mt sy (add_refs rf e) (t' :: r) L C (set_a cur e) lines, Some Parser.PComment)
  | tokNewline => (p_push_line (cur_newline (pnext (pqg en mt sy (add_refs rf e) (t' :: r) L C (set_a cur e) lines))), Some PLine)
  | tokEOF => (pqg en mt sy (add_refs rf e) (t' :: r) L C (set_a cur e) (lines ++ [set_a cur e]), Some PLine)
  | _ => (p_fail (pqg en mt sy (add_refs rf e) (t' :: r) L C (set_a cur e) lines), None)
  end.
Proof.
  intros He Ha Ht. cbn [parse_step].
  replace (p_refs (pqg en mt sy rf (e ++ t' :: r) L C cur lines)) with rf by (destruct e; reflexivity).
  replace (sl_a (p_cur (pqg en mt sy rf (e ++ t' :: r) L C cur lines))) with (@nil token) by (destruct e; cbn; congruence).
  rewrite (expr_loop_names en mt sy rf e _ t' r L C cur lines [] rf He Ht (loop_fuel en mt sy rf e t' r L C cur lines)).
  cbn [app]. cbn [pqg p_set_refs cur_set p_set_cur p_cur p_nt p_toks p_eof p_line p_codeline p_err p_meta p_end p_lines p_syms].
  destruct (t_typ t'); reflexivity.
Qed.

Lemma q_line_ended mt sy rf l L C cur lines :
  parse_step PLine (pqg true mt sy rf l L C cur lines) = (pqg true mt sy rf l L C cur lines, None).
Proof. destruct l; reflexivity. Qed.

(* ---------- instruction lines ---------- *)
Record tline := mkTL { tl_labs : list ltok; tl_op : text; tl_am : option N; tl_A : list token;
                       tl_B : option (option N * list token); tl_cmt : option text }.
Definition mode_toks (m : option N) : list token := match m with Some a => [sym [a]] | None => [] end.
Definition mode_text (m : option N) : text := match m with Some a => [a] | None => [] end.
Definition tline_head (i : tline) : list token :=
  map ltok_tok (tl_labs i) ++ mkT tokText (tl_op i) :: mode_toks (tl_am i) ++
  match tl_B i with Some (bm, _) => tl_A i ++ mkT tokComma [44] :: mode_toks bm | None => [] end.
Definition tline_last (i : tline) : list token := match tl_B i with Some (_, B) => B | None => tl_A i end.
Definition cmt_toks (c : option text) : list token := match c with Some c => [mkT tokComment c] | None => [] end.
Definition tline_toks (i : tline) : list token := tline_head i ++ tline_last i ++ cmt_toks (tl_cmt i).

(* an operand as written: its mode, if any, then an expression *)
Definition operand_ok (m : option N) (e : list token) : Prop :=
  Forall term_tok e /\ e <> [] /\
  match m with
  | Some a => tok_is_amode (sym [a]) = true
  | None => tok_is_amode (hd tEOF e) = false /\ val_is (hd tEOF e) 42 = false
  end.
Definition tline_ok (i : tline) : Prop :=
  (match tl_labs i with [] | LName _ :: _ => True | _ => False end) /\
  Forall label_name (lnames (tl_labs i)) /\ op_tok (mkT tokText (tl_op i)) /\
  operand_ok (tl_am i) (tl_A i) /\
  match tl_B i with Some (bm, B) => operand_ok bm B | None => True end.

Definition with_mode (c : sline) (m : option N) (b : bool) : sline :=
  match m with Some a => if b then set_bmode c [a] else set_amode c [a] | None => c end.
Definition pre_cur (L C : Z) (i : tline) : sline :=
  let c2 := with_mode (set_op (add_labels (empty_sline L) (lnames (tl_labs i))) C lineInstruction (tl_op i)) (tl_am i) false in
  match tl_B i with Some (bm, _) => with_mode (set_a c2 (tl_A i)) bm true | None => c2 end.
Definition tline_state (i : tline) : pstate := match tl_B i with Some _ => PExprB | None => PExprA end.
Definition refs_mid (rf : list text) (i : tline) : list text := match tl_B i with Some _ => add_refs rf (tl_A i) | None => rf end.
Definition refs_after (rf : list text) (i : tline) : list text := add_refs (refs_mid rf i) (tline_last i).

Lemma operand_head m e : operand_ok m e -> exists e0 e', e = e0 :: e' /\ tok_is_expr_term e0 = true.
Proof.
  intros [H1 [H2 _]]. destruct e as [|e0 e']; [congruence|]. exists e0, e'. split; [reflexivity|]. inversion H1; assumption.
Qed.

(* from the start of the line to the last operand expression *)
Lemma mode_expr_run mt sy rf (b : bool) m e rest L C cur lines : operand_ok m e ->
  forall t0, t_typ t0 <> tokNewline ->
  (b = false -> parse_step POp (pq mt sy rf (t0 :: mode_toks m ++ e ++ rest) L C cur lines) =
     (pq mt sy rf (mode_toks m ++ e ++ rest) L (C + 1)%Z (set_op cur C lineInstruction (t_val t0)) lines,
      Some (match m with Some _ => PModeA | None => PExprA end))) /\
  (b = true -> t0 = mkT tokComma [44] -> parse_step Parser.PComma (pq mt sy rf (t0 :: mode_toks m ++ e ++ rest) L C cur lines) =
     (pq mt sy rf (mode_toks m ++ e ++ rest) L C cur lines, Some (match m with Some _ => PModeB | None => PExprB end))).
Proof.
  intros Hok t0 Ht0. destruct (operand_head m e Hok) as [e0 [e' [-> He0]]]. destruct Hok as [_ [_ Hm]].
  destruct m as [a|]; cbn [mode_toks app].
  - split; [intros _; apply q_op_mode; assumption|intros _ ->; apply q_comma_mode; assumption].
  - cbn [hd] in Hm. destruct Hm as [M1 M2]. split; [intros _; apply q_op_expr; assumption|intros _ ->; apply q_comma_expr; assumption].
Qed.

Lemma tline_prefix mt sy rf i t' r L C cur lines :
  tline_ok i -> NoDup (sy ++ lnames (tl_labs i)) ->
  exists n L', forall f,
    parse_run (n + f) PLine (pq mt sy rf (tline_head i ++ tline_last i ++ t' :: r) L C cur lines) =
    parse_run f (tline_state i)
      (pq mt (sy ++ lnames (tl_labs i)) (refs_mid rf i) (tline_last i ++ t' :: r) L' (C + 1)%Z (pre_cur L C i) lines).
Proof.
  intros [Hhd [Hnm [Hop [HA HB]]]] Hnd.
  set (o := mkT tokText (tl_op i)) in *.
  set (after_op := mode_toks (tl_am i) ++
         match tl_B i with Some (bm, _) => tl_A i ++ mkT tokComma [44] :: mode_toks bm | None => [] end).
  assert (Etoks : tline_head i ++ tline_last i ++ t' :: r =
                  map ltok_tok (tl_labs i) ++ o :: (after_op ++ tline_last i ++ t' :: r)).
  { unfold tline_head, after_op. rewrite <- !app_assoc. cbn [app]. rewrite <- !app_assoc. reflexivity. }
  rewrite Etoks. clear Etoks.
  (* the label section *)
  destruct (op_tok_kw o Hop) as [Hkw Hst].
  destruct (lab_phase mt rf o (after_op ++ tline_last i ++ t' :: r) C lines Hkw (length (tl_labs i)) (tl_labs i) (le_n _) Hnm sy Hnd
              L (empty_sline L)) as [[n1 [L1 H1]] _].
  rewrite Hst in H1.
  assert (Hstart : forall f, parse_run (S (n1 + f)) PLine (pq mt sy rf (map ltok_tok (tl_labs i) ++ o :: (after_op ++ tline_last i ++ t' :: r)) L C cur lines) =
                   parse_run f POp (pq mt (sy ++ lnames (tl_labs i)) rf (o :: (after_op ++ tline_last i ++ t' :: r)) L1 C
                                       (add_labels (empty_sline L) (lnames (tl_labs i))) lines)).
  { intros f. rewrite parse_run_S.
    destruct (tl_labs i) as [|[n| |] t] eqn:El; try (destruct Hhd; fail).
    - cbn [map app]. rewrite q_line_text by reflexivity. cbn [map app] in H1. apply H1.
    - cbn [map app ltok_tok]. rewrite q_line_text by reflexivity. apply H1. }
  set (sy1 := sy ++ lnames (tl_labs i)) in *.
  set (c1 := set_op (add_labels (empty_sline L) (lnames (tl_labs i))) C lineInstruction (tl_op i)).
  (* mnemonic and the first operand's mode *)
  assert (HopA : exists n2, forall f X,
            parse_run (n2 + f) POp (pq mt sy1 rf (o :: (mode_toks (tl_am i) ++ tl_A i ++ X)) L1 C (add_labels (empty_sline L) (lnames (tl_labs i))) lines) =
            parse_run f PExprA (pq mt sy1 rf (tl_A i ++ X) L1 (C + 1)%Z (with_mode c1 (tl_am i) false) lines)).
  { destruct (operand_head _ _ HA) as [a0 [A' [EA Ha0]]].
    destruct (tl_am i) as [a|] eqn:Eam.
    - exists 2%nat. intros f X. cbn [Nat.add]. rewrite parse_run_S.
      destruct (mode_expr_run mt sy1 rf false (Some a) (tl_A i) X L1 C (add_labels (empty_sline L) (lnames (tl_labs i))) lines HA o ltac:(discriminate)) as [Q _].
      rewrite (Q eq_refl). cbn [mode_toks app]. rewrite EA. cbn [app].
      rewrite parse_run_S, q_mode_a by (try discriminate; exact Ha0). reflexivity.
    - exists 1%nat. intros f X. cbn [Nat.add]. rewrite parse_run_S.
      destruct (mode_expr_run mt sy1 rf false None (tl_A i) X L1 C (add_labels (empty_sline L) (lnames (tl_labs i))) lines HA o ltac:(discriminate)) as [Q _].
      rewrite (Q eq_refl). reflexivity. }
  destruct HopA as [n2 H2].
  unfold tline_state, refs_mid, pre_cur. fold c1.
  destruct (tl_B i) as [[bm B]|] eqn:EB.
  - (* two operands *)
    destruct (operand_head _ _ HB) as [b0 [B' [EBl Hb0]]].
    assert (HcommaB : exists n3, forall f,
              parse_run (n3 + f) Parser.PComma (pq mt sy1 (add_refs rf (tl_A i)) (mkT tokComma [44] :: mode_toks bm ++ B ++ t' :: r) L1 (C + 1)%Z
                                                  (set_a (with_mode c1 (tl_am i) false) (tl_A i)) lines) =
              parse_run f PExprB (pq mt sy1 (add_refs rf (tl_A i)) (B ++ t' :: r) L1 (C + 1)%Z
                                      (with_mode (set_a (with_mode c1 (tl_am i) false) (tl_A i)) bm true) lines)).
    { destruct bm as [b|].
      - exists 2%nat. intros f. cbn [Nat.add]. rewrite parse_run_S.
        destruct (mode_expr_run mt sy1 (add_refs rf (tl_A i)) true (Some b) B (t' :: r) L1 (C + 1)%Z
                    (set_a (with_mode c1 (tl_am i) false) (tl_A i)) lines HB (mkT tokComma [44]) ltac:(discriminate)) as [_ Q].
        rewrite (Q eq_refl eq_refl). cbn [mode_toks app]. rewrite EBl. cbn [app].
        rewrite parse_run_S, q_mode_b by (try discriminate; exact Hb0). reflexivity.
      - exists 1%nat. intros f. cbn [Nat.add]. rewrite parse_run_S.
        destruct (mode_expr_run mt sy1 (add_refs rf (tl_A i)) true None B (t' :: r) L1 (C + 1)%Z
                    (set_a (with_mode c1 (tl_am i) false) (tl_A i)) lines HB (mkT tokComma [44]) ltac:(discriminate)) as [_ Q].
        rewrite (Q eq_refl eq_refl). reflexivity. }
    destruct HcommaB as [n3 H3].
    exists (S n1 + n2 + 1 + n3)%nat, L1. intros f.
    replace (S n1 + n2 + 1 + n3 + f)%nat with (S (n1 + (n2 + (1 + (n3 + f)))))%nat by lia.
    rewrite Hstart. unfold after_op, tline_last. rewrite EB. rewrite <- !app_assoc. cbn [app].
    rewrite H2. cbn [Nat.add]. rewrite parse_run_S.
    rewrite q_expr_a; [|apply HA|destruct (tl_am i); reflexivity|reflexivity].
    cbn [t_typ]. apply H3.
  - (* a lone operand *)
    exists (S n1 + n2)%nat, L1. intros f.
    replace (S n1 + n2 + f)%nat with (S (n1 + (n2 + f)))%nat by lia.
    rewrite Hstart. unfold after_op, tline_last. rewrite EB. rewrite app_nil_r. rewrite H2. reflexivity.
Qed.

(* ---------- after the last operand: remark, line ends ---------- *)
Definition set_last (c : sline) (i : tline) : sline :=
  match tl_B i with Some (_, B) => set_b c B | None => set_a c (tl_A i) end.
Definition fin_cur (L C : Z) (i : tline) : sline :=
  let f := set_last (pre_cur L C i) i in match tl_cmt i with Some c => set_comment f c | None => f end.
Definition tline_sline (C : Z) (i : tline) : sline :=
  mkSL 0 C lineInstruction (lnames (tl_labs i)) (tl_op i) (mode_text (tl_am i)) (tl_A i)
       (match tl_B i with Some (bm, _) => mode_text bm | None => [] end)
       (match tl_B i with Some (_, B) => B | None => [] end)
       (match tl_cmt i with Some c => c | None => [] end) 0.
Lemma core_fin L C i : core (fin_cur L C i) = tline_sline C i /\ is_blank (fin_cur L C i) = false.
Proof.
  destruct i as [labs op am A B cmt]. unfold fin_cur, set_last, pre_cur, tline_sline. cbn [tl_labs tl_op tl_am tl_A tl_B tl_cmt].
  destruct am as [a|], B as [[[b|] B]|], cmt as [c|]; split; reflexivity.
Qed.
Lemma core_newline x : core (add_newline x) = core x /\ is_blank (add_newline x) = is_blank x.
Proof. split; reflexivity. Qed.

Lemma skip_nls mt sy rf j t0 r0 L C cur lines : t_typ t0 <> tokNewline ->
  exists n L' cur' lines',
    (forall f, parse_run (n + f) PLine (pq mt sy rf (repeat nl_tok j ++ t0 :: r0) L C cur lines) =
               parse_run f PLine (pq mt sy rf (t0 :: r0) L' C cur' lines')) /\
    essential lines' = essential lines.
Proof.
  intros Ht. destruct j as [|j].
  - exists 0%nat, L, cur, lines. split; [intros f; reflexivity|reflexivity].
  - destruct (q_empty mt sy rf (S j) t0 r0 L C (empty_sline L) lines Ht) as [L' [cur' [E1 E2]]].
    exists 2%nat, L', cur', (lines ++ [cur']). split.
    + intros f. cbn [Nat.add]. rewrite parse_run_S. cbn [repeat app]. rewrite q_line_nl.
      rewrite parse_run_S. cbn [repeat app] in E2. rewrite E2. reflexivity.
    + apply essential_blank. unfold is_blank. rewrite E1. reflexivity.
Qed.

Lemma last_state_facts L C i : tline_ok i ->
  Forall term_tok (tline_last i) /\
  match tl_B i with Some _ => sl_b (pre_cur L C i) = [] | None => sl_a (pre_cur L C i) = [] end.
Proof.
  intros [_ [_ [_ [HA HB]]]]. unfold tline_last, pre_cur. destruct (tl_B i) as [[bm B]|].
  - split; [apply HB|]. destruct bm, (tl_am i); reflexivity.
  - split; [apply HA|]. destruct (tl_am i); reflexivity.
Qed.

Lemma tline_run_more mt sy rf i k t0 r0 L C cur lines :
  tline_ok i -> NoDup (sy ++ lnames (tl_labs i)) -> t_typ t0 <> tokNewline ->
  exists n L' cur' lines',
    (forall f, parse_run (n + f) PLine (pq mt sy rf (tline_toks i ++ repeat nl_tok (S k) ++ t0 :: r0) L C cur lines) =
               parse_run f PLine (pq mt (sy ++ lnames (tl_labs i)) (refs_after rf i) (t0 :: r0) L' (C + 1)%Z cur' lines')) /\
    essential lines' = essential lines ++ [tline_sline C i].
Proof.
  intros Hok Hnd Ht0.
  destruct (core_fin L C i) as [CF1 CF2]. destruct (last_state_facts L C i Hok) as [HL HS].
  unfold tline_toks. rewrite <- !app_assoc.
  destruct (tl_cmt i) as [c|] eqn:Ec; cbn [cmt_toks app].
  - (* a remark, then the line end *)
    destruct (tline_prefix mt sy rf i (mkT tokComment c) (repeat nl_tok (S k) ++ t0 :: r0) L C cur lines Hok Hnd) as [n1 [L1 H1]].
    destruct (skip_nls mt (sy ++ lnames (tl_labs i)) (refs_after rf i) k t0 r0 (L1 + 1)%Z (C + 1)%Z
                (add_newline (fin_cur L C i)) (lines ++ [add_newline (fin_cur L C i)]) Ht0) as [n2 [L2 [cur2 [lines2 [H2 E2]]]]].
    exists (n1 + (2 + n2))%nat, L2, cur2, lines2. split.
    + intros f. replace (n1 + (2 + n2) + f)%nat with (n1 + S (S (n2 + f)))%nat by lia. rewrite H1.
      rewrite parse_run_S. unfold tline_state, refs_after, refs_mid, tline_last in *.
      destruct (tl_B i) as [[bm B]|] eqn:EB.
      * rewrite q_expr_b by (try assumption; reflexivity). cbn [t_typ].
        rewrite parse_run_S. cbn [repeat app].
        destruct (repeat nl_tok k ++ t0 :: r0) as [|x y] eqn:Er; [destruct k; discriminate Er|].
        rewrite q_comment_nl. unfold fin_cur, set_last in H2. rewrite EB, Ec in H2. apply H2.
      * rewrite q_expr_a by (try assumption; reflexivity). cbn [t_typ].
        rewrite parse_run_S. cbn [repeat app].
        destruct (repeat nl_tok k ++ t0 :: r0) as [|x y] eqn:Er; [destruct k; discriminate Er|].
        rewrite q_comment_nl. unfold fin_cur, set_last in H2. rewrite EB, Ec in H2. apply H2.
    + rewrite E2. rewrite essential_line by (rewrite (proj2 (core_newline _)); exact CF2).
      rewrite (proj1 (core_newline _)), CF1. reflexivity.
  - destruct (tline_prefix mt sy rf i nl_tok (repeat nl_tok k ++ t0 :: r0) L C cur lines Hok Hnd) as [n1 [L1 H1]].
    unfold tline_state, refs_after, refs_mid, tline_last in *.
    destruct (tl_B i) as [[bm B]|] eqn:EB.
    + (* two operands: the line end is consumed with the line *)
      destruct (skip_nls mt (sy ++ lnames (tl_labs i)) (add_refs (add_refs rf (tl_A i)) B) k t0 r0 (L1 + 1)%Z (C + 1)%Z
                  (add_newline (fin_cur L C i)) (lines ++ [add_newline (fin_cur L C i)]) Ht0) as [n2 [L2 [cur2 [lines2 [H2 E2]]]]].
      exists (n1 + (1 + n2))%nat, L2, cur2, lines2. split.
      * intros f. replace (n1 + (1 + n2) + f)%nat with (n1 + S (n2 + f))%nat by lia. cbn [repeat app]. rewrite H1.
        rewrite parse_run_S. rewrite q_expr_b by (try assumption; reflexivity). cbn [t_typ].
        destruct (repeat nl_tok k ++ t0 :: r0) as [|x y] eqn:Er; [destruct k; discriminate Er|].
        rewrite pnext_pq. cbn [t_typ nl_tok]. unfold fin_cur, set_last in H2. rewrite EB, Ec in H2. apply H2.
      * rewrite E2. rewrite essential_line by (rewrite (proj2 (core_newline _)); exact CF2).
        rewrite (proj1 (core_newline _)), CF1. reflexivity.
    + (* a lone operand: the line ends in front of its line end *)
      destruct (skip_nls mt (sy ++ lnames (tl_labs i)) (add_refs rf (tl_A i)) (S k) t0 r0 L1 (C + 1)%Z
                  (fin_cur L C i) (lines ++ [fin_cur L C i]) Ht0) as [n2 [L2 [cur2 [lines2 [H2 E2]]]]].
      exists (n1 + (1 + n2))%nat, L2, cur2, lines2. split.
      * intros f. replace (n1 + (1 + n2) + f)%nat with (n1 + S (n2 + f))%nat by lia. cbn [repeat app]. rewrite H1.
        rewrite parse_run_S. rewrite q_expr_a by (try assumption; reflexivity). cbn [t_typ nl_tok].
        unfold fin_cur, set_last in H2. rewrite EB, Ec in H2. cbn [repeat app] in H2. apply H2.
      * rewrite E2. rewrite essential_line by exact CF2. rewrite CF1. reflexivity.
Qed.

Definition finished (pf : parser) (sy rf : list text) (ess : list sline) (mt : pmeta) : Prop :=
  p_err pf = false /\ p_syms pf = sy /\ p_refs pf = rf /\ essential (p_lines pf) = ess /\ p_meta pf = mt.

Lemma tline_run_last mt sy rf i L C cur lines :
  tline_ok i -> NoDup (sy ++ lnames (tl_labs i)) ->
  exists n pf,
    (forall f, parse_run (n + f) PLine (pq mt sy rf (tline_toks i ++ [tEOF]) L C cur lines) = Some pf) /\
    finished pf (sy ++ lnames (tl_labs i)) (refs_after rf i) (essential lines ++ [tline_sline C i]) mt.
Proof.
  intros Hok Hnd.
  destruct (core_fin L C i) as [CF1 CF2]. destruct (last_state_facts L C i Hok) as [HL HS].
  unfold tline_toks. rewrite <- !app_assoc.
  destruct (tl_cmt i) as [c|] eqn:Ec; cbn [cmt_toks app].
  - destruct (tline_prefix mt sy rf i (mkT tokComment c) [tEOF] L C cur lines Hok Hnd) as [n1 [L1 H1]].
    unfold tline_state, refs_after, refs_mid, tline_last in *.
    destruct (tl_B i) as [[bm B]|] eqn:EB.
    + eexists (n1 + 2)%nat, _. split.
      * intros f. replace (n1 + 2 + f)%nat with (n1 + S (S f))%nat by lia. rewrite H1.
        rewrite parse_run_S. rewrite q_expr_b by (try assumption; reflexivity). cbn [t_typ].
        rewrite parse_run_S, q_comment_eof. reflexivity.
      * unfold finished. cbn [pqg p_err p_syms p_refs p_lines p_meta]. repeat split.
        rewrite essential_line; [f_equal; f_equal|]; unfold fin_cur, set_last in CF1, CF2; rewrite EB, Ec in CF1, CF2; assumption.
    + eexists (n1 + 2)%nat, _. split.
      * intros f. replace (n1 + 2 + f)%nat with (n1 + S (S f))%nat by lia. rewrite H1.
        rewrite parse_run_S. rewrite q_expr_a by (try assumption; reflexivity). cbn [t_typ].
        rewrite parse_run_S, q_comment_eof. reflexivity.
      * unfold finished. cbn [pqg p_err p_syms p_refs p_lines p_meta]. repeat split.
        rewrite essential_line; [f_equal; f_equal|]; unfold fin_cur, set_last in CF1, CF2; rewrite EB, Ec in CF1, CF2; assumption.
  - destruct (tline_prefix mt sy rf i tEOF [] L C cur lines Hok Hnd) as [n1 [L1 H1]].
    unfold tline_state, refs_after, refs_mid, tline_last in *.
    destruct (tl_B i) as [[bm B]|] eqn:EB.
    + eexists (n1 + 2)%nat, _. split.
      * intros f. replace (n1 + 2 + f)%nat with (n1 + S (S f))%nat by lia. rewrite H1.
        rewrite parse_run_S. rewrite q_expr_b by (try assumption; reflexivity). cbn [t_typ tEOF].
        rewrite parse_run_S, q_line_eof. reflexivity.
      * unfold finished. cbn [pqg p_err p_syms p_refs p_lines p_meta]. repeat split.
        rewrite essential_line; [f_equal; f_equal|]; unfold fin_cur, set_last in CF1, CF2; rewrite EB, Ec in CF1, CF2; assumption.
    + eexists (n1 + 2)%nat, _. split.
      * intros f. replace (n1 + 2 + f)%nat with (n1 + S (S f))%nat by lia. rewrite H1.
        rewrite parse_run_S. rewrite q_expr_a by (try assumption; reflexivity). cbn [t_typ tEOF].
        rewrite parse_run_S, q_line_eof. reflexivity.
      * unfold finished. cbn [pqg p_err p_syms p_refs p_lines p_meta]. repeat split.
        rewrite essential_line; [f_equal; f_equal|]; unfold fin_cur, set_last in CF1, CF2; rewrite EB, Ec in CF1, CF2; assumption.
Qed.

(* ---------- comment lines ---------- *)
Definition comment_sline (c : text) : sline := mkSL 0 0 lineComment [] [] [] [] [] [] c 0.
Lemma comment_run_more mt sy rf c k t0 r0 L C cur lines : t_typ t0 <> tokNewline ->
  exists n L' cur' lines',
    (forall f, parse_run (n + f) PLine (pq mt sy rf (mkT tokComment c :: repeat nl_tok (S k) ++ t0 :: r0) L C cur lines) =
               parse_run f PLine (pq (read_metadata mt c) sy rf (t0 :: r0) L' C cur' lines')) /\
    essential lines' = essential lines ++ [comment_sline c].
Proof.
  intros Ht0.
  set (cl := add_newline (set_comment (mkSL L 0 lineComment [] [] [] [] [] [] [] 0) c)).
  destruct (skip_nls (read_metadata mt c) sy rf k t0 r0 (L + 1)%Z C cl (lines ++ [cl]) Ht0) as [n2 [L2 [cur2 [lines2 [H2 E2]]]]].
  exists (2 + n2)%nat, L2, cur2, lines2. split.
  - intros f. cbn [Nat.add]. rewrite parse_run_S, q_line_comment. rewrite parse_run_S. cbn [repeat app].
    destruct (repeat nl_tok k ++ t0 :: r0) as [|x y] eqn:Er; [destruct k; discriminate Er|].
    rewrite q_comment_nl. apply H2.
  - rewrite E2. rewrite essential_line by reflexivity. reflexivity.
Qed.
Lemma comment_run_last mt sy rf c L C cur lines :
  exists n pf,
    (forall f, parse_run (n + f) PLine (pq mt sy rf [mkT tokComment c; tEOF] L C cur lines) = Some pf) /\
    finished pf sy rf (essential lines ++ [comment_sline c]) (read_metadata mt c).
Proof.
  eexists 2%nat, _. split.
  - intros f. cbn [Nat.add]. rewrite parse_run_S, q_line_comment. rewrite parse_run_S, q_comment_eof. reflexivity.
  - unfold finished. cbn [pqg p_err p_syms p_refs p_lines p_meta]. repeat split. rewrite essential_line by reflexivity. reflexivity.
Qed.

(* ---------- pseudo-op lines that are not END: ORG and the like ---------- *)
Definition dir_sline (kw : text) (e : list token) (cmt : option text) : sline :=
  mkSL 0 0 linePseudoOp [] kw [] e [] [] (match cmt with Some c => c | None => [] end) 0.
Definition dir_ok (kw : text) (e : list token) : Prop :=
  kw_tok (mkT tokText kw) /\ tok_is_pseudo (mkT tokText kw) = true /\ lower_is kw "end" = false /\
  Forall term_tok e /\ e <> [].

Lemma dir_prefix mt sy rf kw e t' r L C cur lines : dir_ok kw e -> forall f,
  parse_run (3 + f) PLine (pq mt sy rf (mkT tokText kw :: e ++ t' :: r) L C cur lines) =
  parse_run f PPseudoExpr (pq mt sy rf (e ++ t' :: r) L C (after_kw (empty_sline L) (mkT tokText kw)) lines).
Proof.
  intros [Hkw [Hps [Hend [He Hne]]]] f. change (3 + f)%nat with (S (S (S f))).
  rewrite parse_run_S, q_line_text by reflexivity.
  rewrite parse_run_S, q_labels_op by exact Hkw. unfold op_state. rewrite Hps.
  destruct e as [|e0 e']; [congruence|]. inversion He as [|x y He0 _]; subst. cbn [app].
  rewrite parse_run_S, q_pseudo_op_expr by (try discriminate; exact He0).
  unfold is_end. cbn [t_val orb]. rewrite Hend. reflexivity.
Qed.

Lemma dir_run_more mt sy rf kw e cmt k t0 r0 L C cur lines : dir_ok kw e -> t_typ t0 <> tokNewline ->
  exists n L' cur' lines',
    (forall f, parse_run (n + f) PLine (pq mt sy rf (mkT tokText kw :: e ++ cmt_toks cmt ++ repeat nl_tok (S k) ++ t0 :: r0) L C cur lines) =
               parse_run f PLine (pq mt sy (add_refs rf e) (t0 :: r0) L' C cur' lines')) /\
    essential lines' = essential lines ++ [dir_sline kw e cmt].
Proof.
  intros Hok Ht0. pose proof Hok as [_ [_ [_ [He _]]]].
  set (c0 := set_a (after_kw (empty_sline L) (mkT tokText kw)) e).
  destruct cmt as [c|]; cbn [cmt_toks app].
  - destruct (skip_nls mt sy (add_refs rf e) k t0 r0 (L + 1)%Z C (add_newline (set_comment c0 c)) (lines ++ [add_newline (set_comment c0 c)]) Ht0)
      as [n2 [L2 [cur2 [lines2 [H2 E2]]]]].
    exists (3 + (2 + n2))%nat, L2, cur2, lines2. split.
    + intros f. replace (3 + (2 + n2) + f)%nat with (3 + S (S (n2 + f)))%nat by lia.
      rewrite (dir_prefix mt sy rf kw e (mkT tokComment c) _ L C cur lines Hok).
      rewrite parse_run_S, q_pseudo_expr by (try assumption; reflexivity). cbn [t_typ].
      rewrite parse_run_S. cbn [repeat app].
      destruct (repeat nl_tok k ++ t0 :: r0) as [|x y] eqn:Er; [destruct k; discriminate Er|].
      rewrite q_comment_nl. apply H2.
    + rewrite E2. rewrite essential_line by reflexivity. reflexivity.
  - destruct (skip_nls mt sy (add_refs rf e) k t0 r0 (L + 1)%Z C (add_newline c0) (lines ++ [add_newline c0]) Ht0)
      as [n2 [L2 [cur2 [lines2 [H2 E2]]]]].
    exists (3 + (1 + n2))%nat, L2, cur2, lines2. split.
    + intros f. replace (3 + (1 + n2) + f)%nat with (3 + S (n2 + f))%nat by lia. cbn [repeat app].
      rewrite (dir_prefix mt sy rf kw e nl_tok _ L C cur lines Hok).
      rewrite parse_run_S, q_pseudo_expr by (try assumption; reflexivity). cbn [t_typ nl_tok].
      destruct (repeat nl_tok k ++ t0 :: r0) as [|x y] eqn:Er; [destruct k; discriminate Er|].
      rewrite pnext_pq. cbn [t_typ]. apply H2.
    + rewrite E2. rewrite essential_line by reflexivity. reflexivity.
Qed.

Lemma dir_run_last mt sy rf kw e cmt L C cur lines : dir_ok kw e ->
  exists n pf,
    (forall f, parse_run (n + f) PLine (pq mt sy rf (mkT tokText kw :: e ++ cmt_toks cmt ++ [tEOF]) L C cur lines) = Some pf) /\
    finished pf sy (add_refs rf e) (essential lines ++ [dir_sline kw e cmt]) mt.
Proof.
  intros Hok. pose proof Hok as [_ [_ [_ [He _]]]].
  destruct cmt as [c|]; cbn [cmt_toks app].
  - eexists (3 + 2)%nat, _. split.
    + intros f. rewrite <- Nat.add_assoc. rewrite (dir_prefix mt sy rf kw e (mkT tokComment c) _ L C cur lines Hok).
      cbn [Nat.add]. rewrite parse_run_S, q_pseudo_expr by (try assumption; reflexivity). cbn [t_typ].
      rewrite parse_run_S, q_comment_eof. reflexivity.
    + unfold finished. cbn [pqg p_err p_syms p_refs p_lines p_meta]. repeat split. rewrite essential_line by reflexivity. reflexivity.
  - eexists (3 + 2)%nat, _. split.
    + intros f. rewrite <- Nat.add_assoc. rewrite (dir_prefix mt sy rf kw e tEOF _ L C cur lines Hok).
      cbn [Nat.add]. rewrite parse_run_S, q_pseudo_expr by (try assumption; reflexivity). cbn [t_typ tEOF].
      rewrite parse_run_S, q_line_eof. reflexivity.
    + unfold finished. cbn [pqg p_err p_syms p_refs p_lines p_meta]. repeat split. rewrite essential_line by reflexivity. reflexivity.
Qed.

(* ---------- pseudo-op lines with a label section: EQU ---------- *)
Definition ldir_sline (labs : list ltok) (kw : text) (e : list token) (cmt : option text) : sline :=
  mkSL 0 0 linePseudoOp (lnames labs) kw [] e [] [] (match cmt with Some c => c | None => [] end) 0.
Definition ldir_ok (labs : list ltok) (kw : text) (e : list token) : Prop :=
  (match labs with [] | LName _ :: _ => True | _ => False end) /\ Forall label_name (lnames labs) /\ dir_ok kw e.

Lemma ldir_prefix mt sy rf labs kw e t' r L C cur lines : ldir_ok labs kw e -> NoDup (sy ++ lnames labs) ->
  exists n L1, forall f,
  parse_run (n + f) PLine (pq mt sy rf (map ltok_tok labs ++ mkT tokText kw :: e ++ t' :: r) L C cur lines) =
  parse_run f PPseudoExpr (pq mt (sy ++ lnames labs) rf (e ++ t' :: r) L1 C
                              (after_kw (add_labels (empty_sline L) (lnames labs)) (mkT tokText kw)) lines).
Proof.
  intros [Hhd [Hnm [Hkw [Hps [Hend [He Hne]]]]]] Hnd.
  set (o := mkT tokText kw) in *.
  destruct (lab_phase mt rf o (e ++ t' :: r) C lines Hkw (length labs) labs (le_n _) Hnm sy Hnd L (empty_sline L)) as [[n1 [L1 H1]] _].
  unfold op_state in H1. rewrite Hps in H1.
  exists (S n1 + 1)%nat, L1. intros f. replace (S n1 + 1 + f)%nat with (S (n1 + S f)) by lia.
  rewrite parse_run_S.
  assert (Hs : parse_step PLine (pq mt sy rf (map ltok_tok labs ++ o :: e ++ t' :: r) L C cur lines) =
               (pq mt sy rf (map ltok_tok labs ++ o :: e ++ t' :: r) L C (empty_sline L) lines, Some PLabels)).
  { destruct labs as [|[n| |] t]; try (destruct Hhd; fail); cbn [map app ltok_tok]; apply q_line_text; reflexivity. }
  rewrite Hs, H1. destruct e as [|e0 e']; [congruence|]. inversion He as [|x y He0 _]; subst. cbn [app].
  rewrite parse_run_S, q_pseudo_op_expr by (try discriminate; exact He0).
  unfold is_end, o. cbn [t_val orb]. rewrite Hend. reflexivity.
Qed.

Lemma ldir_run_more mt sy rf labs kw e cmt k t0 r0 L C cur lines : ldir_ok labs kw e -> NoDup (sy ++ lnames labs) -> t_typ t0 <> tokNewline ->
  exists n L' cur' lines',
    (forall f, parse_run (n + f) PLine (pq mt sy rf (map ltok_tok labs ++ mkT tokText kw :: e ++ cmt_toks cmt ++ repeat nl_tok (S k) ++ t0 :: r0) L C cur lines) =
               parse_run f PLine (pq mt (sy ++ lnames labs) (add_refs rf e) (t0 :: r0) L' C cur' lines')) /\
    essential lines' = essential lines ++ [ldir_sline labs kw e cmt].
Proof.
  intros Hok Hnd Ht0. pose proof Hok as [_ [_ [_ [_ [_ [He _]]]]]].
  set (c0 := set_a (after_kw (add_labels (empty_sline L) (lnames labs)) (mkT tokText kw)) e).
  destruct cmt as [c|]; cbn [cmt_toks app].
  - destruct (ldir_prefix mt sy rf labs kw e (mkT tokComment c) (repeat nl_tok (S k) ++ t0 :: r0) L C cur lines Hok Hnd) as [n1 [L1 H1]].
    destruct (skip_nls mt (sy ++ lnames labs) (add_refs rf e) k t0 r0 (L1 + 1)%Z C (add_newline (set_comment c0 c)) (lines ++ [add_newline (set_comment c0 c)]) Ht0)
      as [n2 [L2 [cur2 [lines2 [H2 E2]]]]].
    exists (n1 + (2 + n2))%nat, L2, cur2, lines2. split.
    + intros f. replace (n1 + (2 + n2) + f)%nat with (n1 + S (S (n2 + f)))%nat by lia. rewrite H1.
      rewrite parse_run_S, q_pseudo_expr by (try assumption; reflexivity). cbn [t_typ].
      rewrite parse_run_S. cbn [repeat app].
      destruct (repeat nl_tok k ++ t0 :: r0) as [|x y] eqn:Er; [destruct k; discriminate Er|].
      rewrite q_comment_nl. apply H2.
    + rewrite E2. rewrite essential_line by reflexivity. reflexivity.
  - destruct (ldir_prefix mt sy rf labs kw e nl_tok (repeat nl_tok k ++ t0 :: r0) L C cur lines Hok Hnd) as [n1 [L1 H1]].
    destruct (skip_nls mt (sy ++ lnames labs) (add_refs rf e) k t0 r0 (L1 + 1)%Z C (add_newline c0) (lines ++ [add_newline c0]) Ht0)
      as [n2 [L2 [cur2 [lines2 [H2 E2]]]]].
    exists (n1 + (1 + n2))%nat, L2, cur2, lines2. split.
    + intros f. replace (n1 + (1 + n2) + f)%nat with (n1 + S (n2 + f))%nat by lia. cbn [repeat app]. rewrite H1.
      rewrite parse_run_S, q_pseudo_expr by (try assumption; reflexivity). cbn [t_typ nl_tok].
      destruct (repeat nl_tok k ++ t0 :: r0) as [|x y] eqn:Er; [destruct k; discriminate Er|].
      rewrite pnext_pq. cbn [t_typ]. apply H2.
    + rewrite E2. rewrite essential_line by reflexivity. reflexivity.
Qed.

Lemma ldir_run_last mt sy rf labs kw e cmt L C cur lines : ldir_ok labs kw e -> NoDup (sy ++ lnames labs) ->
  exists n pf,
    (forall f, parse_run (n + f) PLine (pq mt sy rf (map ltok_tok labs ++ mkT tokText kw :: e ++ cmt_toks cmt ++ [tEOF]) L C cur lines) = Some pf) /\
    finished pf (sy ++ lnames labs) (add_refs rf e) (essential lines ++ [ldir_sline labs kw e cmt]) mt.
Proof.
  intros Hok Hnd. pose proof Hok as [_ [_ [_ [_ [_ [He _]]]]]].
  destruct cmt as [c|]; cbn [cmt_toks app].
  - destruct (ldir_prefix mt sy rf labs kw e (mkT tokComment c) [tEOF] L C cur lines Hok Hnd) as [n1 [L1 H1]].
    eexists (n1 + 2)%nat, _. split.
    + intros f. replace (n1 + 2 + f)%nat with (n1 + S (S f))%nat by lia. rewrite H1.
      rewrite parse_run_S, q_pseudo_expr by (try assumption; reflexivity). cbn [t_typ].
      rewrite parse_run_S, q_comment_eof. reflexivity.
    + unfold finished. cbn [pqg p_err p_syms p_refs p_lines p_meta]. repeat split. rewrite essential_line by reflexivity. reflexivity.
  - destruct (ldir_prefix mt sy rf labs kw e tEOF [] L C cur lines Hok Hnd) as [n1 [L1 H1]].
    eexists (n1 + 2)%nat, _. split.
    + intros f. replace (n1 + 2 + f)%nat with (n1 + S (S f))%nat by lia. rewrite H1.
      rewrite parse_run_S, q_pseudo_expr by (try assumption; reflexivity). cbn [t_typ tEOF].
      rewrite parse_run_S, q_line_eof. reflexivity.
    + unfold finished. cbn [pqg p_err p_syms p_refs p_lines p_meta]. repeat split. rewrite essential_line by reflexivity. reflexivity.
Qed.

(* ---------- documents: lines, each followed by its line ends ---------- *)
Inductive lelem := LInstr (i : tline) | LComment (c : text) | LDir (kw : text) (e : list token) (cmt : option text)
| LEqu (labs : list ltok) (kw : text) (e : list token) (cmt : option text).
Definition lelem_toks (x : lelem) : list token :=
  match x with
  | LInstr i => tline_toks i
  | LComment c => [mkT tokComment c]
  | LDir kw e cmt => mkT tokText kw :: e ++ cmt_toks cmt
  | LEqu labs kw e cmt => map ltok_tok labs ++ mkT tokText kw :: e ++ cmt_toks cmt
  end.
Fixpoint body (es : list (lelem * nat)) : list token :=
  match es with [] => [] | (x, k) :: t => lelem_toks x ++ repeat nl_tok k ++ body t end.
Definition ldoc_toks (lead : nat) (es : list (lelem * nat)) : list token := repeat nl_tok lead ++ body es ++ [tEOF].

Fixpoint dnames (es : list (lelem * nat)) : list text :=
  match es with
  | [] => []
  | (LInstr i, _) :: t => lnames (tl_labs i) ++ dnames t
  | (LEqu labs _ _ _, _) :: t => lnames labs ++ dnames t
  | _ :: t => dnames t
  end.
Fixpoint drefs (rf : list text) (es : list (lelem * nat)) : list text :=
  match es with
  | [] => rf
  | (LInstr i, _) :: t => drefs (refs_after rf i) t
  | (LDir _ e _, _) :: t => drefs (add_refs rf e) t
  | (LEqu _ _ e _, _) :: t => drefs (add_refs rf e) t
  | _ :: t => drefs rf t
  end.
Fixpoint elines (C : Z) (es : list (lelem * nat)) : list sline :=
  match es with
  | [] => []
  | (LInstr i, _) :: t => tline_sline C i :: elines (C + 1) t
  | (LComment c, _) :: t => comment_sline c :: elines C t
  | (LDir kw e cmt, _) :: t => dir_sline kw e cmt :: elines C t
  | (LEqu labs kw e cmt, _) :: t => ldir_sline labs kw e cmt :: elines C t
  end.
Fixpoint dmeta (mt : pmeta) (es : list (lelem * nat)) : pmeta :=
  match es with [] => mt | (LComment c, _) :: t => dmeta (read_metadata mt c) t | _ :: t => dmeta mt t end.
Fixpoint dcount (es : list (lelem * nat)) : Z :=
  match es with [] => 0%Z | (LInstr _, _) :: t => (1 + dcount t)%Z | _ :: t => dcount t end.

(* every line but the last is followed by at least one line end *)
Fixpoint ends_ok (es : list (lelem * nat)) : Prop :=
  match es with
  | [] => True
  | [(_, _)] => True
  | (_, k) :: t => (1 <= k)%nat /\ ends_ok t
  end.
Definition lelem_ok (x : lelem) : Prop :=
  match x with LInstr i => tline_ok i | LComment _ => True | LDir kw e _ => dir_ok kw e | LEqu labs kw e _ => ldir_ok labs kw e end.

Lemma tline_toks_head i : tline_ok i -> exists t0 r0, tline_toks i = t0 :: r0 /\ t_typ t0 <> tokNewline.
Proof.
  intros [Hhd _]. unfold tline_toks, tline_head. destruct (tl_labs i) as [|[n| |] t]; try (destruct Hhd; fail); cbn [map app ltok_tok];
    eexists _, _; (split; [reflexivity|discriminate]).
Qed.
Lemma lelem_toks_head x rest : lelem_ok x -> exists t1 r1, lelem_toks x ++ rest = t1 :: r1 /\ t_typ t1 <> tokNewline.
Proof.
  intros Hx. destruct x as [i|c|kw e cmt|labs kw e cmt]; cbn [lelem_toks].
  - destruct (tline_toks_head i Hx) as [t1 [r1 [E Hn]]]. rewrite E. cbn [app]. eexists _, _. split; [reflexivity|exact Hn].
  - cbn [app]. eexists _, _. split; [reflexivity|discriminate].
  - cbn [app]. eexists _, _. split; [reflexivity|discriminate].
  - destruct Hx as [Hhd _]. destruct labs as [|[n| |] t]; try (destruct Hhd; fail); cbn [map app ltok_tok]; eexists _, _; (split; [reflexivity|discriminate]).
Qed.
Lemma body_head es : Forall (fun xk => lelem_ok (fst xk)) es ->
  exists t0 r0, body es ++ [tEOF] = t0 :: r0 /\ t_typ t0 <> tokNewline.
Proof.
  intros H. destruct es as [|[x k] t]; [exists tEOF, []; split; [reflexivity|discriminate]|].
  inversion H as [|a b Hx Ht]; subst. cbn [fst] in Hx. cbn [body]. rewrite <- app_assoc. apply lelem_toks_head. exact Hx.
Qed.

Lemma body_cons x k t : body ((x, k) :: t) = lelem_toks x ++ repeat nl_tok k ++ body t.
Proof. reflexivity. Qed.

Lemma nodup_app_l (A : Type) (l1 l2 : list A) : NoDup (l1 ++ l2) -> NoDup l1.
Proof.
  induction l1 as [|a l1 IH]; intros H; [constructor|]. cbn [app] in H. inversion H as [|x y H2 H3]; subst. constructor.
  - intros Hin. apply H2. apply in_or_app. left. exact Hin.
  - apply IH. exact H3.
Qed.

(* the lines of a document, each followed by at least one line end, in front of any further text *)
Theorem doc_run_more : forall es, Forall (fun xk => lelem_ok (fst xk)) es -> Forall (fun xk => (1 <= snd xk)%nat) es ->
  forall t0 r0, t_typ t0 <> tokNewline ->
  forall mt sy rf L C cur lines, NoDup (sy ++ dnames es) ->
  exists n L' cur' lines',
    (forall f, parse_run (n + f) PLine (pq mt sy rf (body es ++ t0 :: r0) L C cur lines) =
               parse_run f PLine (pq (dmeta mt es) (sy ++ dnames es) (drefs rf es) (t0 :: r0) L' (C + dcount es)%Z cur' lines')) /\
    essential lines' = essential lines ++ elines C es.
Proof.
  induction es as [|[x k] t IH]; intros Hok Hk t0 r0 Ht0 mt sy rf L C cur lines Hnd.
  - exists 0%nat, L, cur, lines. cbn [body app dnames drefs elines dmeta dcount]. rewrite !app_nil_r, Z.add_0_r. split; [intros f; reflexivity|reflexivity].
  - inversion Hok as [|a b Hx Ht]; subst. inversion Hk as [|a b Hk1 Hk2]; subst. cbn [fst snd] in Hx, Hk1.
    destruct k as [|k]; [lia|].
    assert (Hrest : exists t1 r1, body t ++ t0 :: r0 = t1 :: r1 /\ t_typ t1 <> tokNewline).
    { destruct t as [|[y ky] t']; [exists t0, r0; split; [reflexivity|exact Ht0]|].
      inversion Ht as [|a b Hy _]; subst. cbn [fst] in Hy. rewrite body_cons.
      rewrite <- app_assoc. apply lelem_toks_head. exact Hy. }
    destruct Hrest as [t1 [r1 [Eb Hn1]]].
    rewrite body_cons. rewrite <- !app_assoc. rewrite Eb.
    destruct x as [i|c|kw e cmt|labs kw e cmt]; cbn [lelem_toks].
    + change (dnames ((LInstr i, S k) :: t)) with (lnames (tl_labs i) ++ dnames t) in *.
      change (drefs rf ((LInstr i, S k) :: t)) with (drefs (refs_after rf i) t).
      change (elines C ((LInstr i, S k) :: t)) with (tline_sline C i :: elines (C + 1) t).
      change (dmeta mt ((LInstr i, S k) :: t)) with (dmeta mt t).
      change (dcount ((LInstr i, S k) :: t)) with (1 + dcount t)%Z.
      rewrite app_assoc in Hnd.
      destruct (tline_run_more mt sy rf i k t1 r1 L C cur lines Hx (nodup_app_l _ _ _ Hnd) Hn1) as [n [L' [cur' [lines' [H1 E1]]]]].
      destruct (IH Ht Hk2 t0 r0 Ht0 mt (sy ++ lnames (tl_labs i)) (refs_after rf i) L' (C + 1)%Z cur' lines' Hnd) as [n2 [L2 [cur2 [lines2 [H2 E2]]]]].
      exists (n + n2)%nat, L2, cur2, lines2. split.
      * intros f. rewrite <- Nat.add_assoc. rewrite H1. rewrite <- Eb. rewrite H2. rewrite <- app_assoc.
        replace (C + 1 + dcount t)%Z with (C + (1 + dcount t))%Z by lia. reflexivity.
      * rewrite E2, E1. rewrite <- !app_assoc. reflexivity.
    + change (dnames ((LComment c, S k) :: t)) with (dnames t) in *.
      change (drefs rf ((LComment c, S k) :: t)) with (drefs rf t).
      change (elines C ((LComment c, S k) :: t)) with (comment_sline c :: elines C t).
      change (dmeta mt ((LComment c, S k) :: t)) with (dmeta (read_metadata mt c) t).
      change (dcount ((LComment c, S k) :: t)) with (dcount t).
      destruct (comment_run_more mt sy rf c k t1 r1 L C cur lines Hn1) as [n [L' [cur' [lines' [H1 E1]]]]].
      destruct (IH Ht Hk2 t0 r0 Ht0 (read_metadata mt c) sy rf L' C cur' lines' Hnd) as [n2 [L2 [cur2 [lines2 [H2 E2]]]]].
      exists (n + n2)%nat, L2, cur2, lines2. split.
      * intros f. rewrite <- Nat.add_assoc. cbn [app]. rewrite H1. rewrite <- Eb. apply H2.
      * rewrite E2, E1. rewrite <- !app_assoc. reflexivity.
    + change (dnames ((LDir kw e cmt, S k) :: t)) with (dnames t) in *.
      change (drefs rf ((LDir kw e cmt, S k) :: t)) with (drefs (add_refs rf e) t).
      change (elines C ((LDir kw e cmt, S k) :: t)) with (dir_sline kw e cmt :: elines C t).
      change (dmeta mt ((LDir kw e cmt, S k) :: t)) with (dmeta mt t).
      change (dcount ((LDir kw e cmt, S k) :: t)) with (dcount t).
      destruct (dir_run_more mt sy rf kw e cmt k t1 r1 L C cur lines Hx Hn1) as [n [L' [cur' [lines' [H1 E1]]]]].
      destruct (IH Ht Hk2 t0 r0 Ht0 mt sy (add_refs rf e) L' C cur' lines' Hnd) as [n2 [L2 [cur2 [lines2 [H2 E2]]]]].
      exists (n + n2)%nat, L2, cur2, lines2. split.
      * intros f. rewrite <- Nat.add_assoc. cbn [app]. rewrite <- !app_assoc. rewrite H1. rewrite <- Eb. apply H2.
      * rewrite E2, E1. rewrite <- !app_assoc. reflexivity.
    + change (dnames ((LEqu labs kw e cmt, S k) :: t)) with (lnames labs ++ dnames t) in *.
      change (drefs rf ((LEqu labs kw e cmt, S k) :: t)) with (drefs (add_refs rf e) t).
      change (elines C ((LEqu labs kw e cmt, S k) :: t)) with (ldir_sline labs kw e cmt :: elines C t).
      change (dmeta mt ((LEqu labs kw e cmt, S k) :: t)) with (dmeta mt t).
      change (dcount ((LEqu labs kw e cmt, S k) :: t)) with (dcount t).
      rewrite app_assoc in Hnd.
      destruct (ldir_run_more mt sy rf labs kw e cmt k t1 r1 L C cur lines Hx (nodup_app_l _ _ _ Hnd) Hn1) as [n [L' [cur' [lines' [H1 E1]]]]].
      destruct (IH Ht Hk2 t0 r0 Ht0 mt (sy ++ lnames labs) (add_refs rf e) L' C cur' lines' Hnd) as [n2 [L2 [cur2 [lines2 [H2 E2]]]]].
      exists (n + n2)%nat, L2, cur2, lines2. split.
      * intros f. rewrite <- Nat.add_assoc. rewrite <- !app_assoc. cbn [app]. rewrite <- !app_assoc. rewrite H1. rewrite <- Eb. rewrite H2. rewrite <- app_assoc. reflexivity.
      * rewrite E2, E1. rewrite <- !app_assoc. reflexivity.
Qed.

Lemma ends_ok_front es x : ends_ok (es ++ [x]) -> Forall (fun xk => (1 <= snd xk)%nat) es.
Proof.
  induction es as [|[y ky] t IH]; intros H; [constructor|]. cbn [app] in H.
  destruct (t ++ [x]) as [|p l] eqn:E; [destruct t; discriminate E|].
  cbn [ends_ok] in H. destruct H as [H1 H2]. constructor; [exact H1|]. apply IH. exact H2.
Qed.

(* a document that runs to the end of the text: the last line may lack its line end *)
Theorem doc_run : forall es, Forall (fun xk => lelem_ok (fst xk)) es -> ends_ok es ->
  forall mt sy rf L C cur lines, NoDup (sy ++ dnames es) ->
  exists n pf,
    (forall f, parse_run (n + f) PLine (pq mt sy rf (body es ++ [tEOF]) L C cur lines) = Some pf) /\
    finished pf (sy ++ dnames es) (drefs rf es) (essential lines ++ elines C es) (dmeta mt es).
Proof.
  intros es Hok Hends mt sy rf L C cur lines Hnd.
  (* split off the last line *)
  destruct es as [|x0 es0] using rev_ind.
  - eexists 1%nat, _. split; [intros f; cbn [Nat.add body app]; rewrite parse_run_S, q_line_eof; reflexivity|].
    unfold finished. cbn [pqg p_err p_syms p_refs p_lines p_meta dnames drefs elines dmeta]. rewrite !app_nil_r. repeat split.
  - clear IHes0. destruct x0 as [x k].
    apply Forall_app in Hok. destruct Hok as [Hok0 Hokx]. inversion Hokx as [|a b Hx _]; subst. cbn [fst] in Hx.
    pose proof (ends_ok_front es0 (x, k) Hends) as Hk0.
    assert (Eb : body (es0 ++ [(x, k)]) = body es0 ++ lelem_toks x ++ repeat nl_tok k).
    { clear. induction es0 as [|[y ky] t IH]; cbn [app body]; [rewrite app_nil_r; reflexivity|]. rewrite IH, <- !app_assoc. reflexivity. }
    assert (En : dnames (es0 ++ [(x, k)]) = dnames es0 ++ dnames [(x, k)]).
    { clear. induction es0 as [|[y ky] t IH]; [reflexivity|]. cbn [app]. destruct y; cbn [dnames]; rewrite ?IH, <- ?app_assoc; reflexivity. }
    assert (Er : forall rf0, drefs rf0 (es0 ++ [(x, k)]) = drefs (drefs rf0 es0) [(x, k)]).
    { clear. induction es0 as [|[y ky] t IH]; intros rf0; [reflexivity|]. cbn [app]. destruct y; cbn [drefs]; apply IH. }
    assert (El : forall C0, elines C0 (es0 ++ [(x, k)]) = elines C0 es0 ++ elines (C0 + dcount es0) [(x, k)]).
    { clear. induction es0 as [|[y ky] t IH]; intros C0; [cbn [app elines dcount]; rewrite Z.add_0_r; reflexivity|].
      cbn [app]. destruct y; cbn [elines dcount]; rewrite IH; cbn [app]; rewrite ?Z.add_assoc; reflexivity. }
    assert (Em : forall mt0, dmeta mt0 (es0 ++ [(x, k)]) = dmeta (dmeta mt0 es0) [(x, k)]).
    { clear. induction es0 as [|[y ky] t IH]; intros mt0; [reflexivity|]. cbn [app]. destruct y; cbn [dmeta]; apply IH. }
    rewrite Eb, En, Er, El, Em. rewrite En in Hnd. rewrite app_assoc in Hnd.
    assert (Hhead : exists t1 r1, (lelem_toks x ++ repeat nl_tok k) ++ [tEOF] = t1 :: r1 /\ t_typ t1 <> tokNewline).
    { rewrite <- app_assoc. apply lelem_toks_head. exact Hx. }
    destruct Hhead as [t1 [r1 [Eh Hn1]]].
    destruct (doc_run_more es0 Hok0 Hk0 t1 r1 Hn1 mt sy rf L C cur lines (nodup_app_l _ _ _ Hnd)) as [n1 [L1 [cur1 [lines1 [H1 E1]]]]].
    set (mt1 := dmeta mt es0) in *. set (sy1 := sy ++ dnames es0) in *. set (rf1 := drefs rf es0) in *. set (C1 := (C + dcount es0)%Z) in *.
    assert (Hlast : exists n2 pf, (forall f, parse_run (n2 + f) PLine (pq mt1 sy1 rf1 (t1 :: r1) L1 C1 cur1 lines1) = Some pf) /\
                      finished pf (sy1 ++ dnames [(x, k)]) (drefs rf1 [(x, k)]) (essential lines1 ++ elines C1 [(x, k)]) (dmeta mt1 [(x, k)])).
    { rewrite <- Eh. destruct k as [|k].
      - cbn [repeat]. rewrite app_nil_r. destruct x as [i|c|kw e cmt|labs kw e cmt]; cbn [lelem_toks dnames drefs elines dmeta].
        + rewrite app_nil_r. cbn [dnames] in Hnd. rewrite app_nil_r in Hnd. apply tline_run_last; assumption.
        + rewrite app_nil_r. cbn [app]. apply comment_run_last.
        + rewrite app_nil_r. cbn [app]. rewrite <- app_assoc. apply dir_run_last. exact Hx.
        + cbn [dnames] in Hnd. rewrite app_nil_r in Hnd. rewrite app_nil_r. rewrite <- !app_assoc. cbn [app]. rewrite <- !app_assoc. apply ldir_run_last; assumption.
      - destruct x as [i|c|kw e cmt|labs kw e cmt]; cbn [lelem_toks dnames drefs elines dmeta].
        + cbn [dnames] in Hnd. rewrite app_nil_r in Hnd |- *.
          destruct (tline_run_more mt1 sy1 rf1 i k tEOF [] L1 C1 cur1 lines1 Hx Hnd ltac:(discriminate)) as [n [L' [cur' [lines' [H2 E2]]]]].
          eexists (n + 1)%nat, _. split.
          * intros f. replace (n + 1 + f)%nat with (n + S f)%nat by lia. rewrite <- ?app_assoc. rewrite H2.
            rewrite parse_run_S, q_line_eof. reflexivity.
          * unfold finished. cbn [pqg p_err p_syms p_refs p_lines p_meta]. repeat split. exact E2.
        + rewrite app_nil_r.
          destruct (comment_run_more mt1 sy1 rf1 c k tEOF [] L1 C1 cur1 lines1 ltac:(discriminate)) as [n [L' [cur' [lines' [H2 E2]]]]].
          eexists (n + 1)%nat, _. split.
          * intros f. replace (n + 1 + f)%nat with (n + S f)%nat by lia. cbn [app]. rewrite <- ?app_assoc. rewrite H2.
            rewrite parse_run_S, q_line_eof. reflexivity.
          * unfold finished. cbn [pqg p_err p_syms p_refs p_lines p_meta]. repeat split. exact E2.
        + rewrite app_nil_r.
          destruct (dir_run_more mt1 sy1 rf1 kw e cmt k tEOF [] L1 C1 cur1 lines1 Hx ltac:(discriminate)) as [n [L' [cur' [lines' [H2 E2]]]]].
          eexists (n + 1)%nat, _. split.
          * intros f. replace (n + 1 + f)%nat with (n + S f)%nat by lia. cbn [app]. rewrite <- ?app_assoc. rewrite H2.
            rewrite parse_run_S, q_line_eof. reflexivity.
          * unfold finished. cbn [pqg p_err p_syms p_refs p_lines p_meta]. repeat split. exact E2.
        + cbn [dnames] in Hnd. rewrite app_nil_r in Hnd |- *.
          destruct (ldir_run_more mt1 sy1 rf1 labs kw e cmt k tEOF [] L1 C1 cur1 lines1 Hx Hnd ltac:(discriminate)) as [n [L' [cur' [lines' [H2 E2]]]]].
          eexists (n + 1)%nat, _. split.
          * intros f. replace (n + 1 + f)%nat with (n + S f)%nat by lia. rewrite <- ?app_assoc. cbn [app]. rewrite <- ?app_assoc. rewrite H2.
            rewrite parse_run_S, q_line_eof. reflexivity.
          * unfold finished. cbn [pqg p_err p_syms p_refs p_lines p_meta]. repeat split. exact E2. }
    destruct Hlast as [n2 [pf [H2 F2]]].
    exists (n1 + n2)%nat, pf. split.
    + intros f. rewrite <- !app_assoc. rewrite <- app_assoc in Eh. rewrite Eh. rewrite <- Nat.add_assoc. rewrite H1. apply H2.
    + rewrite E1 in F2. unfold sy1 in F2. rewrite <- ?app_assoc in F2. rewrite <- ?app_assoc. exact F2.
Qed.

(* ---------- the END line, and what the parser does after it: nothing ---------- *)
Record endline := mkEnd { en_labs : list ltok; en_kw : text; en_e : list token; en_cmt : option text; en_nls : nat }.
Definition end_toks (x : endline) : list token :=
  map ltok_tok (en_labs x) ++ mkT tokText (en_kw x) :: en_e x ++ cmt_toks (en_cmt x) ++ repeat nl_tok (en_nls x).
Definition end_sline (x : endline) : sline :=
  mkSL 0 0 linePseudoOp (lnames (en_labs x)) (en_kw x) [] (en_e x) [] [] (match en_cmt x with Some c => c | None => [] end) 0.
Definition end_ok (x : endline) : Prop :=
  (match en_labs x with [] | LName _ :: _ => True | _ => False end) /\
  Forall label_name (lnames (en_labs x)) /\ kw_tok (mkT tokText (en_kw x)) /\ lower_is (en_kw x) "end" = true /\
  Forall term_tok (en_e x).

Definition ended (pf : parser) (sy rf : list text) (mt : pmeta) (lines : list sline) (Y : sline) : Prop :=
  p_err pf = false /\ p_syms pf = sy /\ p_refs pf = rf /\ p_meta pf = mt /\
  exists X, p_lines pf = lines ++ [X] /\ core X = core Y /\ is_blank X = is_blank Y.

Lemma fin_comment mt sy rf c k L C cur lines :
  exists n pf, (forall f, parse_run (n + f) Parser.PComment (pqg true mt sy rf (mkT tokComment c :: repeat nl_tok k ++ [tEOF]) L C cur lines) = Some pf) /\
    ended pf sy rf mt lines (set_comment cur c).
Proof.
  destruct k as [|k].
  - eexists 1%nat, _. split; [intros f; cbn [Nat.add repeat app]; rewrite parse_run_S, q_comment_eof_g; reflexivity|].
    unfold ended. cbn [pqg p_err p_syms p_refs p_lines p_meta]. repeat split. eexists. split; [reflexivity|split; reflexivity].
  - cbn [repeat app]. destruct (repeat nl_tok k ++ [tEOF]) as [|x y] eqn:Er; [destruct k; discriminate Er|].
    eexists 2%nat, _. split.
    + intros f. cbn [Nat.add]. rewrite parse_run_S.
      rewrite q_comment_nl_g. rewrite parse_run_S, q_line_ended. reflexivity.
    + unfold ended. cbn [pqg p_err p_syms p_refs p_lines p_meta]. repeat split. eexists. split; [reflexivity|split; reflexivity].
Qed.

Lemma end_run mt sy rf x L C cur lines :
  end_ok x -> NoDup (sy ++ lnames (en_labs x)) ->
  exists n pf,
    (forall f, parse_run (n + f) PLine (pq mt sy rf (end_toks x ++ [tEOF]) L C cur lines) = Some pf) /\
    finished pf (sy ++ lnames (en_labs x)) (add_refs rf (en_e x)) (essential lines ++ [end_sline x]) mt.
Proof.
  intros [Hhd [Hnm [Hkw [Hend He]]]] Hnd.
  set (o := mkT tokText (en_kw x)) in *.
  assert (Hps : tok_is_pseudo o = true).
  { unfold tok_is_pseudo, is_pseudo_text, o. cbn [t_val]. unfold lower_is in Hend. rewrite Hend. reflexivity. }
  assert (Hno : tok_no_operands_ok o = true) by (unfold tok_no_operands_ok, o; cbn [t_val]; rewrite Hend; reflexivity).
  assert (Hie : is_end o = true) by exact Hend.
  set (rest := en_e x ++ cmt_toks (en_cmt x) ++ repeat nl_tok (en_nls x) ++ [tEOF]).
  assert (Et : end_toks x ++ [tEOF] = map ltok_tok (en_labs x) ++ o :: rest).
  { unfold end_toks, rest. rewrite <- !app_assoc. cbn [app]. rewrite <- !app_assoc. reflexivity. }
  rewrite Et. clear Et.
  destruct (lab_phase mt rf o rest C lines Hkw (length (en_labs x)) (en_labs x) (le_n _) Hnm sy Hnd L (empty_sline L)) as [[n1 [L1 H1]] _].
  unfold op_state in H1. rewrite Hps in H1.
  set (sy1 := sy ++ lnames (en_labs x)) in *.
  set (cur0 := add_labels (empty_sline L) (lnames (en_labs x))) in *.
  set (c1 := after_kw cur0 o).
  (* what the rest of the line does, from the keyword on *)
  assert (Hfin : exists n2 pf, (forall f, parse_run (n2 + f) PPseudoOp (pq mt sy1 rf (o :: rest) L1 C cur0 lines) = Some pf) /\
            ended pf sy1 (add_refs rf (en_e x)) mt lines
                  (match en_cmt x with Some c => set_comment (set_a c1 (en_e x)) c | None => set_a c1 (en_e x) end)).
  { unfold rest. destruct (en_e x) as [|e0 e'] eqn:Ee.
    - cbn [app add_refs fold_left]. destruct (en_cmt x) as [c|] eqn:Ec; cbn [cmt_toks app].
      + destruct (fin_comment mt sy1 rf c (en_nls x) L1 C c1 lines) as [n [pf [Hr Hf]]].
        exists (S n), pf. split; [|exact Hf].
        intros f. cbn [Nat.add]. rewrite parse_run_S, q_pseudo_op_comment by discriminate. rewrite Hie. cbn [orb]. apply Hr.
      + destruct (en_nls x) as [|k]; cbn [repeat app].
        * destruct (q_pseudo_op_eof false mt sy1 rf o L1 C cur0 lines ltac:(discriminate) Hno) as [pf [Hs [F1 [F2 [F3 [F4 F5]]]]]].
          exists 1%nat, pf. split; [intros f; cbn [Nat.add]; rewrite parse_run_S, Hs; reflexivity|].
          unfold ended. repeat split; try assumption. eexists. split; [exact F5|split; reflexivity].
        * destruct (repeat nl_tok k ++ [tEOF]) as [|y z] eqn:Er; [destruct k; discriminate Er|].
          eexists 2%nat, _. split.
          -- intros f. cbn [Nat.add]. rewrite parse_run_S.
             rewrite q_pseudo_op_nl by (try discriminate; exact Hno). rewrite Hie. cbn [orb]. rewrite parse_run_S, q_line_ended. reflexivity.
          -- unfold ended. cbn [pqg p_err p_syms p_refs p_lines p_meta]. repeat split. eexists. split; [reflexivity|split; reflexivity].
    - inversion He as [|a b He0 He']; subst a b.
      assert (Hstep : forall X f, parse_run (S f) PPseudoOp (pq mt sy1 rf (o :: (e0 :: e') ++ X) L1 C cur0 lines) =
                                  parse_run f PPseudoExpr (pqg true mt sy1 rf ((e0 :: e') ++ X) L1 C c1 lines)).
      { intros X f. rewrite parse_run_S. cbn [app]. rewrite q_pseudo_op_expr by (try discriminate; exact He0). rewrite Hie. reflexivity. }
      destruct (en_cmt x) as [c|] eqn:Ec; cbn [cmt_toks].
      + destruct (fin_comment mt sy1 (add_refs rf (e0 :: e')) c (en_nls x) L1 C (set_a c1 (e0 :: e')) lines) as [n [pf [Hr Hf]]].
        exists (S (S n)), pf. split; [|exact Hf].
        intros f. cbn [Nat.add]. rewrite Hstep. rewrite parse_run_S. cbn [app].
        change (e0 :: e' ++ mkT tokComment c :: repeat nl_tok (en_nls x) ++ [tEOF]) with ((e0 :: e') ++ mkT tokComment c :: repeat nl_tok (en_nls x) ++ [tEOF]).
        rewrite q_pseudo_expr by (try assumption; reflexivity). cbn [t_typ]. apply Hr.
      + cbn [app]. destruct (en_nls x) as [|k]; cbn [repeat app].
        * eexists 3%nat, _. split.
          -- intros f. cbn [Nat.add]. change (o :: e0 :: e' ++ [tEOF]) with (o :: (e0 :: e') ++ [tEOF]). rewrite Hstep. rewrite parse_run_S.
             rewrite q_pseudo_expr by (try assumption; reflexivity). cbn [t_typ tEOF].
             rewrite parse_run_S, q_line_ended. reflexivity.
          -- unfold ended. cbn [pqg p_err p_syms p_refs p_lines p_meta]. repeat split. eexists. split; [reflexivity|split; reflexivity].
        * destruct (repeat nl_tok k ++ [tEOF]) as [|y z] eqn:Er; [destruct k; discriminate Er|].
          eexists 3%nat, _. split.
          -- intros f. cbn [Nat.add]. change (o :: e0 :: e' ++ nl_tok :: y :: z) with (o :: (e0 :: e') ++ nl_tok :: y :: z).
             rewrite Hstep. rewrite parse_run_S.
             rewrite q_pseudo_expr by (try assumption; reflexivity). cbn [t_typ nl_tok].
             rewrite pnext_pq. cbn [t_typ nl_tok].
             change (p_push_line (cur_newline (pqg true mt sy1 (add_refs rf (e0 :: e')) (y :: z) (L1 + 1)%Z C (set_a c1 (e0 :: e')) lines)))
               with (pqg true mt sy1 (add_refs rf (e0 :: e')) (y :: z) (L1 + 1)%Z C (add_newline (set_a c1 (e0 :: e'))) (lines ++ [add_newline (set_a c1 (e0 :: e'))])).
             rewrite parse_run_S, q_line_ended. reflexivity.
          -- unfold ended. cbn [pqg p_err p_syms p_refs p_lines p_meta]. repeat split. eexists. split; [reflexivity|split; reflexivity]. }
  destruct Hfin as [n2 [pf [H2 [F1 [F2 [F3 [F4 [X [F5 [F6 F7]]]]]]]]]].
  exists (S (n1 + n2)), pf. split.
  - intros f. cbn [Nat.add]. rewrite parse_run_S.
    assert (Hs : parse_step PLine (pq mt sy rf (map ltok_tok (en_labs x) ++ o :: rest) L C cur lines) =
                 (pq mt sy rf (map ltok_tok (en_labs x) ++ o :: rest) L C (empty_sline L) lines, Some PLabels)).
    { destruct (en_labs x) as [|[n| |] t]; try (destruct Hhd; fail); cbn [map app ltok_tok]; apply q_line_text; reflexivity. }
    rewrite Hs. rewrite <- Nat.add_assoc. rewrite H1. apply H2.
  - unfold finished. repeat split; try assumption. rewrite F5.
    assert (Hcore : core X = end_sline x /\ is_blank X = false).
    { rewrite F6, F7. unfold end_sline, c1, cur0, after_kw. destruct (en_cmt x); split; reflexivity. }
    destruct Hcore as [Hc1 Hc2]. rewrite essential_line by exact Hc2. rewrite Hc1. reflexivity.
Qed.

(* a document whose last line is an END line *)
Definition ldoc_end_toks (lead : nat) (es : list (lelem * nat)) (x : endline) : list token :=
  repeat nl_tok lead ++ body es ++ end_toks x ++ [tEOF].

(* ---------- the parser as a whole ---------- *)
Definition p_init (toks : list token) : parser :=
  pnext (mkP toks (mkT tokError []) false 1 0 false (empty_sline 1) (mkPM [] [] []) false [] predefined []).

Lemma parse_from_run toks n pf : closed_stream toks -> parse_run n PLine (p_init toks) = Some pf ->
  parse toks = if p_err pf then Some None
               else if forallb (fun r => mem_text r (p_syms pf)) (p_refs pf) then Some (Some (p_lines pf, p_meta pf)) else Some None.
Proof.
  intros Hc Hr. pose proof (parse_total toks Hc) as Ht. unfold parse in *. fold (p_init toks) in *.
  destruct (parse_run (4 * length toks + 10) PLine (p_init toks)) as [p'|] eqn:E; [|congruence].
  pose proof (parse_run_mono _ _ _ _ (4 * length toks + 10) Hr) as M1.
  pose proof (parse_run_mono _ _ _ _ n E) as M2.
  rewrite Nat.add_comm in M2. rewrite M1 in M2. inversion M2; subst. reflexivity.
Qed.

Lemma mem_text_in x l : In x l -> mem_text x l = true.
Proof. intros H. unfold mem_text. apply existsb_exists. exists x. split; [exact H|apply text_eqb_refl]. Qed.

Lemma term_nonterm t : term_tok t -> nonterm t.
Proof. unfold term_tok, nonterm, tok_is_expr_term, is_terminal. destruct (t_typ t); try discriminate; reflexivity. Qed.
Lemma tline_toks_nonterm i : tline_ok i -> Forall nonterm (tline_toks i).
Proof.
  intros [_ [_ [_ [[HA _] HB]]]]. unfold tline_toks, tline_head, tline_last.
  assert (Hl : Forall nonterm (map ltok_tok (tl_labs i))).
  { induction (tl_labs i) as [|[n| |] t IH]; cbn [map]; constructor; try exact IH; reflexivity. }
  assert (Hm : forall m, Forall nonterm (mode_toks m)) by (intros [a|]; repeat constructor).
  assert (HA' : Forall nonterm (tl_A i)) by (eapply Forall_impl; [apply term_nonterm|exact HA]).
  assert (Hc : Forall nonterm (cmt_toks (tl_cmt i))) by (destruct (tl_cmt i); repeat constructor).
  destruct (tl_B i) as [[bm B]|].
  - destruct HB as [HB _]. assert (HB' : Forall nonterm B) by (eapply Forall_impl; [apply term_nonterm|exact HB]).
    repeat (first [apply Forall_app; split | apply Forall_cons]); try assumption; try apply Hm; try reflexivity.
  - repeat (first [apply Forall_app; split | apply Forall_cons]); try assumption; try apply Hm; try reflexivity; try constructor.
Qed.
Lemma repeat_nl_nonterm k : Forall nonterm (repeat nl_tok k).
Proof. induction k; cbn [repeat]; constructor; [reflexivity|assumption]. Qed.
Lemma body_nonterm es : Forall (fun xk => lelem_ok (fst xk)) es -> Forall nonterm (body es).
Proof.
  induction es as [|[x k] t IH]; intros H; [constructor|]. inversion H as [|a b Hx Ht]; subst. cbn [fst] in Hx.
  cbn [body]. apply Forall_app. split; [|apply Forall_app; split; [apply repeat_nl_nonterm|apply IH; exact Ht]].
  destruct x as [i|c|kw e cmt|labs kw e cmt]; [apply tline_toks_nonterm; exact Hx|repeat constructor| |].
  - destruct Hx as [_ [_ [_ [He _]]]]. cbn [lelem_toks]. constructor; [reflexivity|]. apply Forall_app. split.
    + eapply Forall_impl; [apply term_nonterm|exact He].
    + destruct cmt; repeat constructor.
  - destruct Hx as [_ [_ [_ [_ [_ [He _]]]]]]. cbn [lelem_toks]. apply Forall_app. split.
    + clear. induction labs as [|[n| |] tl0 IHl]; cbn [map]; [constructor| | |]; (constructor; [reflexivity|exact IHl]).
    + constructor; [reflexivity|]. apply Forall_app. split; [eapply Forall_impl; [apply term_nonterm|exact He]|destruct cmt; repeat constructor].
Qed.
Lemma ldoc_closed lead es : Forall (fun xk => lelem_ok (fst xk)) es -> closed_stream (ldoc_toks lead es).
Proof.
  intros H. exists (repeat nl_tok lead ++ body es), tEOF. split; [unfold ldoc_toks; rewrite app_assoc; reflexivity|].
  split; [reflexivity|]. apply Forall_app. split; [apply repeat_nl_nonterm|apply body_nonterm; exact H].
Qed.

Theorem parse_ldoc lead es :
  Forall (fun xk => lelem_ok (fst xk)) es -> ends_ok es ->
  NoDup (predefined ++ dnames es) ->
  (forall r, In r (drefs [] es) -> In r (predefined ++ dnames es)) ->
  exists lines, parse (ldoc_toks lead es) = Some (Some (lines, dmeta (mkPM [] [] []) es)) /\ essential lines = elines 0 es.
Proof.
  intros Hok Hends Hnd Hrefs.
  destruct (body_head es Hok) as [t0 [r0 [Eb Hn0]]].
  assert (Ei : p_init (ldoc_toks lead es) = pq (mkPM [] [] []) predefined [] (ldoc_toks lead es) 1 0 (empty_sline 1) []).
  { unfold ldoc_toks. rewrite Eb. destruct lead; reflexivity. }
  destruct (skip_nls (mkPM [] [] []) predefined [] lead t0 r0 1 0 (empty_sline 1) [] Hn0) as [n1 [L1 [cur1 [lines1 [H1 E1]]]]].
  destruct (doc_run es Hok Hends (mkPM [] [] []) predefined [] L1 0%Z cur1 lines1 Hnd) as [n2 [pf [H2 [F1 [F2 [F3 [F4 F5]]]]]]].
  assert (Hrun : parse_run (n1 + (n2 + 0)) PLine (p_init (ldoc_toks lead es)) = Some pf).
  { rewrite Ei. unfold ldoc_toks. rewrite Eb. rewrite H1. rewrite <- Eb. apply H2. }
  rewrite (parse_from_run _ _ _ (ldoc_closed lead es Hok) Hrun). rewrite F1, F2, F3.
  replace (forallb (fun r => mem_text r (predefined ++ dnames es)) (drefs [] es)) with true.
  - exists (p_lines pf). split; [rewrite F5; reflexivity|]. rewrite F4, E1. reflexivity.
  - symmetry. apply forallb_forall. intros r Hr. apply mem_text_in. apply Hrefs. exact Hr.
Qed.

Lemma end_toks_nonterm x : end_ok x -> Forall nonterm (end_toks x).
Proof.
  intros [_ [_ [_ [_ He]]]]. unfold end_toks. apply Forall_app. split.
  - induction (en_labs x) as [|[n| |] t IH]; cbn [map]; constructor; try exact IH; reflexivity.
  - constructor; [reflexivity|]. apply Forall_app. split; [eapply Forall_impl; [apply term_nonterm|exact He]|].
    apply Forall_app. split; [destruct (en_cmt x); repeat constructor|apply repeat_nl_nonterm].
Qed.
Lemma end_toks_head x : end_ok x -> exists t0 r0, end_toks x ++ [tEOF] = t0 :: r0 /\ t_typ t0 <> tokNewline.
Proof.
  intros [Hhd _]. unfold end_toks. destruct (en_labs x) as [|[n| |] t]; try (destruct Hhd; fail); cbn [map app ltok_tok];
    eexists _, _; (split; [reflexivity|discriminate]).
Qed.
Lemma ldoc_end_closed lead es x : Forall (fun xk => lelem_ok (fst xk)) es -> end_ok x -> closed_stream (ldoc_end_toks lead es x).
Proof.
  intros H Hx. exists (repeat nl_tok lead ++ body es ++ end_toks x), tEOF. split; [unfold ldoc_end_toks; rewrite <- !app_assoc; reflexivity|].
  split; [reflexivity|]. apply Forall_app. split; [apply repeat_nl_nonterm|]. apply Forall_app. split; [apply body_nonterm; exact H|apply end_toks_nonterm; exact Hx].
Qed.

Theorem parse_ldoc_end lead es x :
  Forall (fun xk => lelem_ok (fst xk)) es -> Forall (fun xk => (1 <= snd xk)%nat) es -> end_ok x ->
  NoDup (predefined ++ dnames es ++ lnames (en_labs x)) ->
  (forall r, In r (add_refs (drefs [] es) (en_e x)) -> In r (predefined ++ dnames es ++ lnames (en_labs x))) ->
  exists lines, parse (ldoc_end_toks lead es x) = Some (Some (lines, dmeta (mkPM [] [] []) es)) /\
                essential lines = elines 0 es ++ [end_sline x].
Proof.
  intros Hok Hk Hx Hnd Hrefs.
  destruct (end_toks_head x Hx) as [t0 [r0 [Ee Hn0]]].
  assert (Hhead : exists t1 r1, body es ++ end_toks x ++ [tEOF] = t1 :: r1 /\ t_typ t1 <> tokNewline).
  { destruct es as [|[y ky] t']; [exists t0, r0; split; [exact Ee|exact Hn0]|].
    inversion Hok as [|a b Hy _]; subst. cbn [fst] in Hy. rewrite body_cons.
    rewrite <- app_assoc. apply lelem_toks_head. exact Hy. }
  destruct Hhead as [t1 [r1 [Eb Hn1]]].
  assert (Ei : p_init (ldoc_end_toks lead es x) = pq (mkPM [] [] []) predefined [] (ldoc_end_toks lead es x) 1 0 (empty_sline 1) []).
  { unfold ldoc_end_toks. rewrite Eb. destruct lead; reflexivity. }
  destruct (skip_nls (mkPM [] [] []) predefined [] lead t1 r1 1 0 (empty_sline 1) [] Hn1) as [n1 [L1 [cur1 [lines1 [H1 E1]]]]].
  rewrite app_assoc in Hnd.
  destruct (doc_run_more es Hok Hk t0 r0 Hn0 (mkPM [] [] []) predefined [] L1 0%Z cur1 lines1 (nodup_app_l _ _ _ Hnd))
    as [n2 [L2 [cur2 [lines2 [H2 E2]]]]].
  destruct (end_run (dmeta (mkPM [] [] []) es) (predefined ++ dnames es) (drefs [] es) x L2 (0 + dcount es)%Z cur2 lines2 Hx Hnd)
    as [n3 [pf [H3 [F1 [F2 [F3 [F4 F5]]]]]]].
  assert (Hrun : parse_run (n1 + (n2 + (n3 + 0))) PLine (p_init (ldoc_end_toks lead es x)) = Some pf).
  { rewrite Ei. unfold ldoc_end_toks. rewrite Eb. rewrite H1. rewrite <- Eb. rewrite <- Ee in H2. rewrite H2. rewrite Ee, <- Ee. apply H3. }
  rewrite (parse_from_run _ _ _ (ldoc_end_closed lead es x Hok Hx) Hrun). rewrite F1, F2, F3.
  rewrite <- app_assoc.
  replace (forallb (fun r => mem_text r (predefined ++ dnames es ++ lnames (en_labs x))) (add_refs (drefs [] es) (en_e x))) with true.
  - exists (p_lines pf). split; [rewrite F5; reflexivity|]. rewrite F4, E2, E1. reflexivity.
  - symmetry. apply forallb_forall. intros r Hr. apply mem_text_in. apply Hrefs. exact Hr.
Qed.
