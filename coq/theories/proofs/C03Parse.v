(* C03Parse.v — the parser stage on instruction lines that carry labels: label sections in
   any spelling (names, colons, line ends in any order after the first name), written or
   omitted addressing modes, one or two operands whose expressions mention names, trailing
   remarks, comment lines and any number of blank lines.  The result is stated up to what
   the compiler looks at: blank source lines, line numbers and newline counts are dropped. *)
From GM Require Import Base Text Token Lexer Scanner ExprSpec ExprEval ForExpand Parser Sim Compile
     C03Lexer C05Lexer C05Fuel C10Proof C14Proof ParserFuel C09Parse.
From Coq Require Import Lia.
Open Scope N_scope.

(* ---------- a parser positioned on a token list ---------- *)
Definition pq (mt : pmeta) (syms refs : list text) (l : list token) (L C : Z) (cur : sline) (lines : list sline) : parser :=
  match l with
  | t :: r => mkP r t false L C false cur mt false lines syms refs
  | [] => mkP [] tEOF true L C false cur mt false lines syms refs
  end.

Lemma pnext_pq mt sy rf t t2 r L C cur lines :
  pnext (pq mt sy rf (t :: t2 :: r) L C cur lines) =
  pq mt sy rf (t2 :: r) (match t_typ t with tokNewline => (L + 1)%Z | _ => L end) C cur lines.
Proof. reflexivity. Qed.
Lemma pnext_pq_nn mt sy rf t t2 r L C cur lines : t_typ t <> tokNewline ->
  pnext (pq mt sy rf (t :: t2 :: r) L C cur lines) = pq mt sy rf (t2 :: r) L C cur lines.
Proof. intros H. rewrite pnext_pq. destruct (t_typ t); try reflexivity. congruence. Qed.

(* ---------- what the compiler looks at ---------- *)
Definition core (l : sline) : sline :=
  mkSL 0 (sl_codeline l) (sl_typ l) (sl_labels l) (sl_op l) (sl_amode l) (sl_a l) (sl_bmode l) (sl_b l) (sl_comment l) 0.
Definition is_blank (l : sline) : bool := match sl_typ l with lineEmpty => true | _ => false end.
Definition essential (ls : list sline) : list sline := map core (filter (fun l => negb (is_blank l)) ls).
Lemma essential_app a b : essential (a ++ b) = essential a ++ essential b.
Proof. unfold essential. rewrite filter_app, map_app. reflexivity. Qed.
Lemma essential_blank a x : is_blank x = true -> essential (a ++ [x]) = essential a.
Proof. intros H. rewrite essential_app. unfold essential at 2. cbn [filter]. rewrite H. cbn. apply app_nil_r. Qed.
Lemma essential_line a x : is_blank x = false -> essential (a ++ [x]) = essential a ++ [core x].
Proof. intros H. rewrite essential_app. unfold essential at 2. cbn [filter]. rewrite H. reflexivity. Qed.

(* ---------- the names an expression refers to ---------- *)
Definition add_ref (refs : list text) (t : token) : list text :=
  match t_typ t with
  | tokText => if mem_text (t_val t) refs then refs else refs ++ [t_val t]
  | _ => refs
  end.
Definition add_refs (refs : list text) (e : list token) : list text := fold_left add_ref e refs.

Definition term_tok (t : token) : Prop := tok_is_expr_term t = true.
Lemma term_not_newline t : term_tok t -> t_typ t <> tokNewline.
Proof. unfold term_tok, tok_is_expr_term. destruct (t_typ t); try discriminate; intros _ X; discriminate X. Qed.

Lemma expr_loop_names mt sy rf0 e : forall f t' rest L C cur lines acc refs,
  Forall term_tok e -> tok_is_expr_term t' = false -> (length e < f)%nat ->
  expr_loop f (pq mt sy rf0 (e ++ t' :: rest) L C cur lines) acc refs =
  (pq mt sy rf0 (t' :: rest) L C cur lines, acc ++ e, add_refs refs e).
Proof.
  induction e as [|t e IH]; intros f t' rest L C cur lines acc refs He Ht' Hf.
  - destruct f as [|f]; [lia|]. cbn [app expr_loop pq p_nt]. rewrite Ht'. rewrite app_nil_r. reflexivity.
  - destruct f as [|f]; [cbn in Hf; lia|]. inversion He as [|x y H1 Hy]; subst.
    cbn [app]. cbn [expr_loop].
    replace (p_nt (pq mt sy rf0 (t :: e ++ t' :: rest) L C cur lines)) with t by reflexivity.
    unfold term_tok in H1. rewrite H1.
    assert (Hn : pnext (pq mt sy rf0 (t :: e ++ t' :: rest) L C cur lines) = pq mt sy rf0 (e ++ t' :: rest) L C cur lines).
    { pose proof (term_not_newline t H1) as Hnl. destruct e as [|t2 e2]; cbn [app]; apply pnext_pq_nn; exact Hnl. }
    rewrite Hn.
    change (match t_typ t with tokText => if mem_text (t_val t) refs then refs else refs ++ [t_val t] | _ => refs end) with (add_ref refs t).
    rewrite (IH f t' rest L C cur lines (acc ++ [t]) (add_ref refs t) Hy Ht'); [|cbn [length] in Hf; lia].
    rewrite <- app_assoc. reflexivity.
Qed.

(* ---------- single state functions ---------- *)
Lemma q_line_text mt sy rf t r L C cur lines :
  t_typ t = tokText ->
  parse_step PLine (pq mt sy rf (t :: r) L C cur lines) = (pq mt sy rf (t :: r) L C (empty_sline L) lines, Some PLabels).
Proof. intros H. cbn [parse_step pq p_end p_nt]. rewrite H. reflexivity. Qed.

Lemma q_line_eof mt sy rf L C cur lines :
  parse_step PLine (pq mt sy rf [tEOF] L C cur lines) = (pq mt sy rf [tEOF] L C (empty_sline L) lines, None).
Proof. reflexivity. Qed.

Lemma q_line_nl mt sy rf r L C cur lines :
  parse_step PLine (pq mt sy rf (nl_tok :: r) L C cur lines) = (pq mt sy rf (nl_tok :: r) L C (empty_sline L) lines, Some PEmptyLines).
Proof. reflexivity. Qed.

Lemma q_line_comment mt sy rf c r L C cur lines :
  parse_step PLine (pq mt sy rf (mkT tokComment c :: r) L C cur lines) =
  (pq (read_metadata mt c) sy rf (mkT tokComment c :: r) L C (mkSL L 0 lineComment [] [] [] [] [] [] [] 0) lines, Some Parser.PComment).
Proof. reflexivity. Qed.

(* blank lines: any run of line ends is swallowed into one blank source line *)
Lemma empty_go_run mt sy rf k : forall f t' rest L C cur lines, (k < f)%nat -> t_typ t' <> tokNewline ->
  exists L' cur', sl_typ cur' = sl_typ cur /\
  empty_go f (pq mt sy rf (repeat nl_tok k ++ t' :: rest) L C cur lines) =
  (pq mt sy rf (t' :: rest) L' C cur' (lines ++ [cur']), Some PLine).
Proof.
  induction k as [|k IH]; intros f t' rest L C cur lines Hf Ht.
  - destruct f as [|f]; [lia|]. exists L, cur. split; [reflexivity|]. cbn [repeat app empty_go pq p_nt].
    destruct (t_typ t'); try reflexivity. congruence.
  - destruct f as [|f]; [lia|]. cbn [repeat app empty_go].
    replace (t_typ (p_nt (pq mt sy rf (nl_tok :: repeat nl_tok k ++ t' :: rest) L C cur lines))) with tokNewline by reflexivity.
    assert (Hn : pnext (cur_newline (pq mt sy rf (nl_tok :: repeat nl_tok k ++ t' :: rest) L C cur lines)) =
                 pq mt sy rf (repeat nl_tok k ++ t' :: rest) (L + 1)%Z C (add_newline cur) lines).
    { destruct k; reflexivity. }
    rewrite Hn. destruct (IH f t' rest (L + 1)%Z C (add_newline cur) lines ltac:(lia) Ht) as [L' [cur' [E1 E2]]].
    exists L', cur'. split; [exact E1|exact E2].
Qed.

Lemma q_empty mt sy rf k t' rest L C cur lines : t_typ t' <> tokNewline ->
  exists L' cur', sl_typ cur' = sl_typ cur /\
  parse_step PEmptyLines (pq mt sy rf (repeat nl_tok k ++ t' :: rest) L C cur lines) =
  (pq mt sy rf (t' :: rest) L' C cur' (lines ++ [cur']), Some PLine).
Proof.
  intros Ht. rewrite step_empty. apply empty_go_run; [|exact Ht].
  destruct k; cbn [repeat app pq p_toks length]; [lia|]. rewrite app_length, repeat_length. cbn [length]. lia.
Qed.

(* ---------- the label section of a line ---------- *)
Inductive ltok := LName (n : text) | LColon | LNl.
Definition ltok_tok (x : ltok) : token :=
  match x with LName n => mkT tokText n | LColon => mkT tokColon [58] | LNl => nl_tok end.
Definition lnames (l : list ltok) : list text := flat_map (fun x => match x with LName n => [n] | _ => [] end) l.
Fixpoint drop_colons (l : list ltok) : list ltok := match l with LColon :: r => drop_colons r | _ => l end.
Lemma drop_colons_len l : (length (drop_colons l) <= length l)%nat.
Proof. induction l as [|[n| |] r IH]; cbn [drop_colons length]; lia. Qed.
Lemma drop_colons_names l : lnames (drop_colons l) = lnames l.
Proof. induction l as [|[n| |] r IH]; cbn [drop_colons lnames flat_map app]; try reflexivity. exact IH. Qed.

Definition add_labels (c : sline) (ns : list text) : sline :=
  mkSL (sl_line c) (sl_codeline c) (sl_typ c) (sl_labels c ++ ns) (sl_op c) (sl_amode c) (sl_a c) (sl_bmode c) (sl_b c) (sl_comment c) (sl_newlines c).
Lemma add_labels_nil c : add_labels c [] = c.
Proof. destruct c. unfold add_labels. cbn. rewrite app_nil_r. reflexivity. Qed.
Lemma add_labels_app c a b : add_labels (add_labels c a) b = add_labels c (a ++ b).
Proof. unfold add_labels. cbn. rewrite app_assoc. reflexivity. Qed.

Definition op_tok (o : token) : Prop := t_typ o = tokText /\ tok_is_op o = true /\ tok_is_pseudo o = false.
Definition label_name (n : text) : Prop := tok_is_op (mkT tokText n) = false.

Lemma colon_go_skip mt sy rf o r C cur lines : forall ls f L, t_typ o <> tokColon -> (length ls < f)%nat ->
  colon_go f (pq mt sy rf (map ltok_tok ls ++ o :: r) L C cur lines) =
  pq mt sy rf (map ltok_tok (drop_colons ls) ++ o :: r) L C cur lines.
Proof.
  induction ls as [|x ls IH]; intros f L Ho Hf.
  - cbn [map app drop_colons]. apply colon_go_other. exact Ho.
  - destruct f as [|f]; [lia|]. destruct x as [n| |].
    + cbn [drop_colons]. apply colon_go_other. cbn. discriminate.
    + cbn [map app drop_colons ltok_tok colon_go].
      replace (t_typ (p_nt (pq mt sy rf (mkT tokColon [58] :: map ltok_tok ls ++ o :: r) L C cur lines))) with tokColon by reflexivity.
      assert (Hn : pnext (pq mt sy rf (mkT tokColon [58] :: map ltok_tok ls ++ o :: r) L C cur lines) =
                   pq mt sy rf (map ltok_tok ls ++ o :: r) L C cur lines).
      { destruct ls; cbn [map app]; apply pnext_pq_nn; discriminate. }
      rewrite Hn. apply IH; [exact Ho|cbn [length] in Hf; lia].
    + cbn [drop_colons]. apply colon_go_other. cbn. discriminate.
Qed.

Lemma q_labels_op mt sy rf o r L C cur lines : op_tok o ->
  parse_step PLabels (pq mt sy rf (o :: r) L C cur lines) = (pq mt sy rf (o :: r) L C cur lines, Some POp).
Proof. intros [H1 [H2 H3]]. cbn [parse_step pq p_nt]. rewrite H1, H2, H3. reflexivity. Qed.

Lemma q_labels_nl mt sy rf t2 r L C cur lines :
  parse_step PLabels (pq mt sy rf (nl_tok :: t2 :: r) L C cur lines) = (pq mt sy rf (t2 :: r) (L + 1)%Z C cur lines, Some PLabels).
Proof. reflexivity. Qed.

Lemma q_labels_colon mt sy rf r L C cur lines :
  parse_step PLabels (pq mt sy rf (mkT tokColon [58] :: r) L C cur lines) = (pq mt sy rf (mkT tokColon [58] :: r) L C cur lines, Some Parser.PColon).
Proof. reflexivity. Qed.

Lemma q_labels_name mt sy rf n t2 r L C cur lines : label_name n -> mem_text n sy = false ->
  parse_step PLabels (pq mt sy rf (mkT tokText n :: t2 :: r) L C cur lines) =
  (pq mt (sy ++ [n]) rf (t2 :: r) L C (add_labels cur [n]) lines, Some PLabels).
Proof.
  intros H1 H2. cbn [parse_step pq p_nt t_typ]. unfold label_name in H1. rewrite H1. cbv zeta. cbn [p_syms t_val]. rewrite H2. reflexivity.
Qed.

Lemma q_colon mt sy rf ls o r L C cur lines : op_tok o ->
  parse_step Parser.PColon (pq mt sy rf (map ltok_tok ls ++ o :: r) L C cur lines) =
  match drop_colons ls with
  | [] => (pq mt sy rf (o :: r) L C cur lines, Some POp)
  | LNl :: t => (pq mt sy rf (map ltok_tok t ++ o :: r) (L + 1)%Z C cur lines, Some Parser.PColon)
  | LName n :: t => if tok_is_op (mkT tokText n) then
                      (pq mt sy rf (map ltok_tok (LName n :: t) ++ o :: r) L C cur lines,
                       Some (if tok_is_pseudo (mkT tokText n) then PPseudoOp else POp))
                    else (pq mt sy rf (map ltok_tok (LName n :: t) ++ o :: r) L C cur lines, Some PLabels)
  | LColon :: t => (pq mt sy rf (map ltok_tok ls ++ o :: r) L C cur lines, None)
  end.
Proof.
  intros [H1 [H2 H3]]. rewrite step_colon. cbv zeta.
  rewrite colon_go_skip.
  - destruct (drop_colons ls) as [|[n| |] t] eqn:E.
    + cbn [map app pq p_nt]. rewrite H1, H2, H3. reflexivity.
    + cbn [map app ltok_tok pq p_nt t_typ]. destruct (tok_is_op (mkT tokText n)); reflexivity.
    + exfalso. clear - E. induction ls as [|[n| |] ls IH]; cbn [drop_colons] in E; try discriminate. apply IH. exact E.
    + cbn [map app ltok_tok]. replace (t_typ (p_nt (pq mt sy rf (nl_tok :: map ltok_tok t ++ o :: r) L C cur lines))) with tokNewline by reflexivity.
      f_equal. destruct t; reflexivity.
  - rewrite H1. discriminate.
  - destruct ls as [|x ls']; cbn [map app pq p_toks length]; [lia|]. rewrite app_length, map_length. cbn [length]. lia.
Qed.

(* the whole label section, from either of its two states, ends in front of the mnemonic *)
Lemma lab_phase mt rf o r C lines : op_tok o ->
  forall k ls, (length ls <= k)%nat -> Forall label_name (lnames ls) ->
  forall sy, NoDup (sy ++ lnames ls) ->
  forall L cur,
  (exists n L', forall f, parse_run (n + f) PLabels (pq mt sy rf (map ltok_tok ls ++ o :: r) L C cur lines) =
                          parse_run f POp (pq mt (sy ++ lnames ls) rf (o :: r) L' C (add_labels cur (lnames ls)) lines)) /\
  (exists n L', forall f, parse_run (n + f) Parser.PColon (pq mt sy rf (map ltok_tok ls ++ o :: r) L C cur lines) =
                          parse_run f POp (pq mt (sy ++ lnames ls) rf (o :: r) L' C (add_labels cur (lnames ls)) lines)).
Proof.
  intros Ho. induction k as [|k IH]; intros ls Hk Hnm sy Hnd L cur.
  - destruct ls; [|cbn in Hk; lia]. cbn [map app lnames flat_map]. rewrite app_nil_r, add_labels_nil. split.
    + exists 1%nat, L. intros f. cbn [Nat.add]. rewrite parse_run_S, q_labels_op by exact Ho. reflexivity.
    + exists 1%nat, L. intros f. cbn [Nat.add]. rewrite parse_run_S.
      pose proof (q_colon mt sy rf [] o r L C cur lines Ho) as Q. cbn [map app drop_colons] in Q. rewrite Q. reflexivity.
  - (* the step from PLabels on a non-empty section, shared by both parts *)
    assert (FromLabels : forall ls', (length ls' <= S k)%nat -> Forall label_name (lnames ls') -> forall sy', NoDup (sy' ++ lnames ls') ->
              forall L0 cur0, (match ls' with LColon :: _ => False | _ => True end) ->
              exists n L', forall f, parse_run (n + f) PLabels (pq mt sy' rf (map ltok_tok ls' ++ o :: r) L0 C cur0 lines) =
                          parse_run f POp (pq mt (sy' ++ lnames ls') rf (o :: r) L' C (add_labels cur0 (lnames ls')) lines)).
    { intros ls' Hk' Hnm' sy' Hnd' L0 cur0 Hhd. destruct ls' as [|[n| |] t].
      - cbn [map app lnames flat_map]. rewrite app_nil_r, add_labels_nil.
        exists 1%nat, L0. intros f. cbn [Nat.add]. rewrite parse_run_S, q_labels_op by exact Ho. reflexivity.
      - cbn [lnames flat_map app] in Hnm', Hnd'. fold (lnames t) in Hnm', Hnd'.
        inversion Hnm' as [|x y Hn Ht]; subst.
        assert (Hfresh : mem_text n sy' = false).
        { destruct (mem_text n sy') eqn:E; [|reflexivity]. exfalso. unfold mem_text in E. apply existsb_exists in E.
          destruct E as [z [Hz1 Hz2]]. apply text_eqb_eq in Hz2. subst z.
          apply NoDup_remove_2 in Hnd'. apply Hnd'. apply in_or_app. left. exact Hz1. }
        assert (Hnd2 : NoDup ((sy' ++ [n]) ++ lnames t)).
        { rewrite <- app_assoc. cbn [app]. exact Hnd'. }
        destruct (IH t ltac:(cbn [length] in Hk'; lia) Ht (sy' ++ [n]) Hnd2 L0 (add_labels cur0 [n])) as [[m [L' Hm]] _].
        exists (S m), L'. intros f. cbn [Nat.add]. rewrite parse_run_S. cbn [map ltok_tok app].
        destruct (map ltok_tok t ++ o :: r) as [|t2 r2] eqn:E2; [destruct (map ltok_tok t); discriminate E2|].
        rewrite q_labels_name by assumption. rewrite Hm.
        cbn [lnames flat_map app]. fold (lnames t). rewrite <- app_assoc, add_labels_app. reflexivity.
      - destruct Hhd.
      - cbn [lnames flat_map app] in Hnm', Hnd'. fold (lnames t) in Hnm', Hnd'.
        destruct (IH t ltac:(cbn [length] in Hk'; lia) Hnm' sy' Hnd' (L0 + 1)%Z cur0) as [[m [L' Hm]] _].
        exists (S m), L'. intros f. cbn [Nat.add]. rewrite parse_run_S. cbn [map ltok_tok app].
        destruct (map ltok_tok t ++ o :: r) as [|t2 r2] eqn:E2; [destruct (map ltok_tok t); discriminate E2|].
        rewrite q_labels_nl. rewrite Hm. reflexivity. }
    (* the step from PColon *)
    assert (FromColon : forall ls', (length ls' <= S k)%nat -> Forall label_name (lnames ls') -> forall sy', NoDup (sy' ++ lnames ls') ->
              forall L0 cur0,
              exists n L', forall f, parse_run (n + f) Parser.PColon (pq mt sy' rf (map ltok_tok ls' ++ o :: r) L0 C cur0 lines) =
                          parse_run f POp (pq mt (sy' ++ lnames ls') rf (o :: r) L' C (add_labels cur0 (lnames ls')) lines)).
    { intros ls' Hk' Hnm' sy' Hnd' L0 cur0.
      pose proof (q_colon mt sy' rf ls' o r L0 C cur0 lines Ho) as Q.
      pose proof (drop_colons_len ls') as Hdl. pose proof (drop_colons_names ls') as Hdn.
      destruct (drop_colons ls') as [|[n| |] t] eqn:Ed.
      - cbn [lnames flat_map] in Hdn. rewrite <- Hdn. rewrite app_nil_r, add_labels_nil.
        exists 1%nat, L0. intros f. cbn [Nat.add]. rewrite parse_run_S, Q. reflexivity.
      - rewrite <- Hdn in Hnm', Hnd' |- *.
        assert (Hn : tok_is_op (mkT tokText n) = false).
        { cbn [lnames flat_map app] in Hnm'. inversion Hnm'; assumption. }
        rewrite Hn in Q.
        destruct (FromLabels (LName n :: t) ltac:(lia) Hnm' sy' Hnd' L0 cur0 I) as [m [L' Hm]].
        exists (S m), L'. intros f. cbn [Nat.add]. rewrite parse_run_S, Q. apply Hm.
      - exfalso. clear - Ed. induction ls' as [|[n| |] ls IH]; cbn [drop_colons] in Ed; try discriminate. apply IH. exact Ed.
      - rewrite <- Hdn in Hnm', Hnd' |- *. cbn [lnames flat_map app] in Hnm', Hnd' |- *. fold (lnames t) in *.
        destruct (IH t ltac:(cbn [length] in Hdl; lia) Hnm' sy' Hnd' (L0 + 1)%Z cur0) as [_ [m [L' Hm]]].
        exists (S m), L'. intros f. cbn [Nat.add]. rewrite parse_run_S, Q. apply Hm. }
    split.
    + destruct ls as [|[n| |] t] eqn:El; try (apply (FromLabels _ Hk Hnm sy Hnd L cur); exact I).
      (* a colon: over to the colon state, on the same tokens *)
      destruct (FromColon (LColon :: t) Hk Hnm sy Hnd L cur) as [m [L' Hm]].
      exists (S m), L'. intros f. cbn [Nat.add]. rewrite parse_run_S. cbn [map ltok_tok app]. rewrite q_labels_colon. apply Hm.
    + apply FromColon; assumption.
Qed.

(* ---------- mnemonic, modes and operands ---------- *)
Lemma q_op_mode mt sy rf t t2 r L C cur lines :
  t_typ t <> tokNewline -> tok_is_amode t2 = true ->
  parse_step POp (pq mt sy rf (t :: t2 :: r) L C cur lines) =
  (pq mt sy rf (t2 :: r) L (C + 1)%Z (set_op cur C lineInstruction (t_val t)) lines, Some PModeA).
Proof.
  intros H1 H2. cbn [parse_step]. cbv zeta.
  match goal with |- context [pnext ?q] =>
    replace (pnext q) with (pq mt sy rf (t2 :: r) L (C + 1)%Z (set_op cur C lineInstruction (t_val t)) lines)
      by (cbn; destruct (t_typ t); try reflexivity; congruence) end.
  cbn [pq p_nt]. rewrite H2. reflexivity.
Qed.
Lemma q_op_expr mt sy rf t t2 r L C cur lines :
  t_typ t <> tokNewline -> tok_is_amode t2 = false -> tok_is_expr_term t2 = true -> val_is t2 42 = false ->
  parse_step POp (pq mt sy rf (t :: t2 :: r) L C cur lines) =
  (pq mt sy rf (t2 :: r) L (C + 1)%Z (set_op cur C lineInstruction (t_val t)) lines, Some PExprA).
Proof.
  intros H1 H2 H3 H4. cbn [parse_step]. cbv zeta.
  match goal with |- context [pnext ?q] =>
    replace (pnext q) with (pq mt sy rf (t2 :: r) L (C + 1)%Z (set_op cur C lineInstruction (t_val t)) lines)
      by (cbn; destruct (t_typ t); try reflexivity; congruence) end.
  cbn [pq p_nt]. rewrite H2, H3, H4. reflexivity.
Qed.
Lemma q_mode_a mt sy rf t t2 r L C cur lines :
  t_typ t <> tokNewline -> tok_is_expr_term t2 = true ->
  parse_step PModeA (pq mt sy rf (t :: t2 :: r) L C cur lines) =
  (pq mt sy rf (t2 :: r) L C (set_amode cur (t_val t)) lines, Some PExprA).
Proof.
  intros H1 H2. cbn [parse_step]. cbv zeta.
  match goal with |- context [pnext ?q] =>
    replace (pnext q) with (pq mt sy rf (t2 :: r) L C (set_amode cur (t_val t)) lines)
      by (cbn; destruct (t_typ t); try reflexivity; congruence) end.
  cbn [pq p_nt]. rewrite H2. reflexivity.
Qed.
Lemma q_mode_b mt sy rf t t2 r L C cur lines :
  t_typ t <> tokNewline -> tok_is_expr_term t2 = true ->
  parse_step PModeB (pq mt sy rf (t :: t2 :: r) L C cur lines) =
  (pq mt sy rf (t2 :: r) L C (set_bmode cur (t_val t)) lines, Some PExprB).
Proof.
  intros H1 H2. cbn [parse_step]. cbv zeta.
  match goal with |- context [pnext ?q] =>
    replace (pnext q) with (pq mt sy rf (t2 :: r) L C (set_bmode cur (t_val t)) lines)
      by (cbn; destruct (t_typ t); try reflexivity; congruence) end.
  cbn [pq p_nt]. rewrite H2. reflexivity.
Qed.
Lemma q_comma_mode mt sy rf t2 r L C cur lines :
  tok_is_amode t2 = true ->
  parse_step Parser.PComma (pq mt sy rf (mkT tokComma [44] :: t2 :: r) L C cur lines) = (pq mt sy rf (t2 :: r) L C cur lines, Some PModeB).
Proof. intros H. cbn [parse_step]. rewrite pnext_pq. cbn [t_typ pq p_nt]. rewrite H. reflexivity. Qed.
Lemma q_comma_expr mt sy rf t2 r L C cur lines :
  tok_is_amode t2 = false -> tok_is_expr_term t2 = true ->
  parse_step Parser.PComma (pq mt sy rf (mkT tokComma [44] :: t2 :: r) L C cur lines) = (pq mt sy rf (t2 :: r) L C cur lines, Some PExprB).
Proof. intros H H'. cbn [parse_step]. rewrite pnext_pq. cbn [t_typ pq p_nt]. rewrite H, H'. reflexivity. Qed.

Lemma loop_fuel mt sy rf (e : list token) t' r L C cur lines :
  (length e < S (S (length (p_toks (pq mt sy rf (e ++ t' :: r) L C cur lines)))))%nat.
Proof. destruct e as [|t0 e0]; cbn [app pq p_toks length]; [lia|]. rewrite app_length. cbn [length]. lia. Qed.

(* the A expression, by what follows it *)
Lemma q_expr_a mt sy rf e t' r L C cur lines :
  Forall term_tok e -> sl_a cur = [] -> tok_is_expr_term t' = false ->
  parse_step PExprA (pq mt sy rf (e ++ t' :: r) L C cur lines) =
  match t_typ t' with
  | tokComment => (pq mt sy (add_refs rf e) (t' :: r) L C (set_a cur e) lines, Some Parser.PComment)
  | tokComma => (pq mt sy (add_refs rf e) (t' :: r) L C (set_a cur e) lines, Some Parser.PComma)
  | tokNewline | tokEOF => (pq mt sy (add_refs rf e) (t' :: r) L C (set_a cur e) (lines ++ [set_a cur e]), Some PLine)
  | _ => (p_fail (pq mt sy (add_refs rf e) (t' :: r) L C (set_a cur e) lines), None)
  end.
Proof.
  intros He Ha Ht. cbn [parse_step].
  replace (p_refs (pq mt sy rf (e ++ t' :: r) L C cur lines)) with rf by (destruct e; reflexivity).
  replace (sl_a (p_cur (pq mt sy rf (e ++ t' :: r) L C cur lines))) with (@nil token) by (destruct e; cbn; congruence).
  rewrite (expr_loop_names mt sy rf e _ t' r L C cur lines [] rf He Ht (loop_fuel mt sy rf e t' r L C cur lines)).
  cbn [app]. cbn [pq p_set_refs cur_set p_set_cur p_cur p_nt p_toks p_eof p_line p_codeline p_err p_meta p_end p_lines p_syms].
  destruct (t_typ t'); reflexivity.
Qed.
Lemma q_expr_b mt sy rf e t' r L C cur lines :
  Forall term_tok e -> sl_b cur = [] -> tok_is_expr_term t' = false ->
  parse_step PExprB (pq mt sy rf (e ++ t' :: r) L C cur lines) =
  match t_typ t' with
  | tokComment => (pq mt sy (add_refs rf e) (t' :: r) L C (set_b cur e) lines, Some Parser.PComment)
  | tokNewline => (pnext (pq mt sy (add_refs rf e) (t' :: r) L C (add_newline (set_b cur e)) (lines ++ [add_newline (set_b cur e)])), Some PLine)
  | tokEOF => (pq mt sy (add_refs rf e) (t' :: r) L C (set_b cur e) (lines ++ [set_b cur e]), Some PLine)
  | _ => (p_fail (pq mt sy (add_refs rf e) (t' :: r) L C (set_b cur e) lines), None)
  end.
Proof.
  intros He Hb Ht. cbn [parse_step].
  replace (p_refs (pq mt sy rf (e ++ t' :: r) L C cur lines)) with rf by (destruct e; reflexivity).
  replace (sl_b (p_cur (pq mt sy rf (e ++ t' :: r) L C cur lines))) with (@nil token) by (destruct e; cbn; congruence).
  rewrite (expr_loop_names mt sy rf e _ t' r L C cur lines [] rf He Ht (loop_fuel mt sy rf e t' r L C cur lines)).
  cbn [app]. cbn [pq p_set_refs cur_set p_set_cur p_cur p_nt p_toks p_eof p_line p_codeline p_err p_meta p_end p_lines p_syms].
  destruct (t_typ t'); reflexivity.
Qed.

Definition set_comment (c : sline) (cm : text) : sline :=
  mkSL (sl_line c) (sl_codeline c) (sl_typ c) (sl_labels c) (sl_op c) (sl_amode c) (sl_a c) (sl_bmode c) (sl_b c) cm (sl_newlines c).
Lemma q_comment_nl mt sy rf c t' rest L C cur lines :
  parse_step Parser.PComment (pq mt sy rf (mkT tokComment c :: nl_tok :: t' :: rest) L C cur lines) =
  (pq mt sy rf (t' :: rest) (L + 1)%Z C (add_newline (set_comment cur c)) (lines ++ [add_newline (set_comment cur c)]), Some PLine).
Proof. reflexivity. Qed.
Lemma q_comment_eof mt sy rf c L C cur lines :
  parse_step Parser.PComment (pq mt sy rf [mkT tokComment c; tEOF] L C cur lines) =
  (pq mt sy rf [tEOF] L C (set_comment cur c) (lines ++ [set_comment cur c]), None).
Proof. reflexivity. Qed.

(* ---------- instruction lines ---------- *)
Record tline := mkTL { tl_labs : list ltok; tl_op : text; tl_am : option N; tl_A : list token;
                       tl_B : option (option N * list token); tl_cmt : option text }.
Definition mode_toks (m : option N) : list token := match m with Some a => [sym [a]] | None => [] end.
Definition mode_text (m : option N) : text := match m with Some a => [a] | None => [] end.
Definition tline_head (i : tline) : list token :=
  map ltok_tok (tl_labs i) ++ mkT tokText (tl_op i) :: mode_toks (tl_am i) ++
  match tl_B i with Some (bm, _) => tl_A i ++ mkT tokComma [44] :: mode_toks bm | None => [] end.
Definition tline_last (i : tline) : list token := match tl_B i with Some (_, B) => B | None => tl_A i end.
Definition cmt_toks (c : option text) : list token := match c with Some c => [mkT tokComment c] | None => [] end.
Definition tline_toks (i : tline) : list token := tline_head i ++ tline_last i ++ cmt_toks (tl_cmt i).

(* an operand as written: its mode, if any, then an expression *)
Definition operand_ok (m : option N) (e : list token) : Prop :=
  Forall term_tok e /\ e <> [] /\
  match m with
  | Some a => tok_is_amode (sym [a]) = true
  | None => tok_is_amode (hd tEOF e) = false /\ val_is (hd tEOF e) 42 = false
  end.
Definition tline_ok (i : tline) : Prop :=
  (match tl_labs i with [] | LName _ :: _ => True | _ => False end) /\
  Forall label_name (lnames (tl_labs i)) /\ op_tok (mkT tokText (tl_op i)) /\
  operand_ok (tl_am i) (tl_A i) /\
  match tl_B i with Some (bm, B) => operand_ok bm B | None => True end.

Definition with_mode (c : sline) (m : option N) (b : bool) : sline :=
  match m with Some a => if b then set_bmode c [a] else set_amode c [a] | None => c end.
Definition pre_cur (L C : Z) (i : tline) : sline :=
  let c2 := with_mode (set_op (add_labels (empty_sline L) (lnames (tl_labs i))) C lineInstruction (tl_op i)) (tl_am i) false in
  match tl_B i with Some (bm, _) => with_mode (set_a c2 (tl_A i)) bm true | None => c2 end.
Definition tline_state (i : tline) : pstate := match tl_B i with Some _ => PExprB | None => PExprA end.
Definition refs_mid (rf : list text) (i : tline) : list text := match tl_B i with Some _ => add_refs rf (tl_A i) | None => rf end.
Definition refs_after (rf : list text) (i : tline) : list text := add_refs (refs_mid rf i) (tline_last i).

Lemma operand_head m e : operand_ok m e -> exists e0 e', e = e0 :: e' /\ tok_is_expr_term e0 = true.
Proof.
  intros [H1 [H2 _]]. destruct e as [|e0 e']; [congruence|]. exists e0, e'. split; [reflexivity|]. inversion H1; assumption.
Qed.

(* from the start of the line to the last operand expression *)
Lemma mode_expr_run mt sy rf (b : bool) m e rest L C cur lines : operand_ok m e ->
  forall t0, t_typ t0 <> tokNewline ->
  (b = false -> parse_step POp (pq mt sy rf (t0 :: mode_toks m ++ e ++ rest) L C cur lines) =
     (pq mt sy rf (mode_toks m ++ e ++ rest) L (C + 1)%Z (set_op cur C lineInstruction (t_val t0)) lines,
      Some (match m with Some _ => PModeA | None => PExprA end))) /\
  (b = true -> t0 = mkT tokComma [44] -> parse_step Parser.PComma (pq mt sy rf (t0 :: mode_toks m ++ e ++ rest) L C cur lines) =
     (pq mt sy rf (mode_toks m ++ e ++ rest) L C cur lines, Some (match m with Some _ => PModeB | None => PExprB end))).
Proof.
  intros Hok t0 Ht0. destruct (operand_head m e Hok) as [e0 [e' [-> He0]]]. destruct Hok as [_ [_ Hm]].
  destruct m as [a|]; cbn [mode_toks app].
  - split; [intros _; apply q_op_mode; assumption|intros _ ->; apply q_comma_mode; assumption].
  - cbn [hd] in Hm. destruct Hm as [M1 M2]. split; [intros _; apply q_op_expr; assumption|intros _ ->; apply q_comma_expr; assumption].
Qed.

Lemma tline_prefix mt sy rf i t' r L C cur lines :
  tline_ok i -> NoDup (sy ++ lnames (tl_labs i)) ->
  exists n L', forall f,
    parse_run (n + f) PLine (pq mt sy rf (tline_head i ++ tline_last i ++ t' :: r) L C cur lines) =
    parse_run f (tline_state i)
      (pq mt (sy ++ lnames (tl_labs i)) (refs_mid rf i) (tline_last i ++ t' :: r) L' (C + 1)%Z (pre_cur L C i) lines).
Proof.
  intros [Hhd [Hnm [Hop [HA HB]]]] Hnd.
  set (o := mkT tokText (tl_op i)) in *.
  set (after_op := mode_toks (tl_am i) ++
         match tl_B i with Some (bm, _) => tl_A i ++ mkT tokComma [44] :: mode_toks bm | None => [] end).
  assert (Etoks : tline_head i ++ tline_last i ++ t' :: r =
                  map ltok_tok (tl_labs i) ++ o :: (after_op ++ tline_last i ++ t' :: r)).
  { unfold tline_head, after_op. rewrite <- !app_assoc. cbn [app]. rewrite <- !app_assoc. reflexivity. }
  rewrite Etoks. clear Etoks.
  (* the label section *)
  destruct (lab_phase mt rf o (after_op ++ tline_last i ++ t' :: r) C lines Hop (length (tl_labs i)) (tl_labs i) (le_n _) Hnm sy Hnd
              L (empty_sline L)) as [[n1 [L1 H1]] _].
  assert (Hstart : forall f, parse_run (S (n1 + f)) PLine (pq mt sy rf (map ltok_tok (tl_labs i) ++ o :: (after_op ++ tline_last i ++ t' :: r)) L C cur lines) =
                   parse_run f POp (pq mt (sy ++ lnames (tl_labs i)) rf (o :: (after_op ++ tline_last i ++ t' :: r)) L1 C
                                       (add_labels (empty_sline L) (lnames (tl_labs i))) lines)).
  { intros f. rewrite parse_run_S.
    destruct (tl_labs i) as [|[n| |] t] eqn:El; try (destruct Hhd; fail).
    - cbn [map app]. rewrite q_line_text by reflexivity. cbn [map app] in H1. apply H1.
    - cbn [map app ltok_tok]. rewrite q_line_text by reflexivity. apply H1. }
  set (sy1 := sy ++ lnames (tl_labs i)) in *.
  set (c1 := set_op (add_labels (empty_sline L) (lnames (tl_labs i))) C lineInstruction (tl_op i)).
  (* mnemonic and the first operand's mode *)
  assert (HopA : exists n2, forall f X,
            parse_run (n2 + f) POp (pq mt sy1 rf (o :: (mode_toks (tl_am i) ++ tl_A i ++ X)) L1 C (add_labels (empty_sline L) (lnames (tl_labs i))) lines) =
            parse_run f PExprA (pq mt sy1 rf (tl_A i ++ X) L1 (C + 1)%Z (with_mode c1 (tl_am i) false) lines)).
  { destruct (operand_head _ _ HA) as [a0 [A' [EA Ha0]]].
    destruct (tl_am i) as [a|] eqn:Eam.
    - exists 2%nat. intros f X. cbn [Nat.add]. rewrite parse_run_S.
      destruct (mode_expr_run mt sy1 rf false (Some a) (tl_A i) X L1 C (add_labels (empty_sline L) (lnames (tl_labs i))) lines HA o ltac:(discriminate)) as [Q _].
      rewrite (Q eq_refl). cbn [mode_toks app]. rewrite EA. cbn [app].
      rewrite parse_run_S, q_mode_a by (try discriminate; exact Ha0). reflexivity.
    - exists 1%nat. intros f X. cbn [Nat.add]. rewrite parse_run_S.
      destruct (mode_expr_run mt sy1 rf false None (tl_A i) X L1 C (add_labels (empty_sline L) (lnames (tl_labs i))) lines HA o ltac:(discriminate)) as [Q _].
      rewrite (Q eq_refl). reflexivity. }
  destruct HopA as [n2 H2].
  unfold tline_state, refs_mid, pre_cur. fold c1.
  destruct (tl_B i) as [[bm B]|] eqn:EB.
  - (* two operands *)
    destruct (operand_head _ _ HB) as [b0 [B' [EBl Hb0]]].
    assert (HcommaB : exists n3, forall f,
              parse_run (n3 + f) Parser.PComma (pq mt sy1 (add_refs rf (tl_A i)) (mkT tokComma [44] :: mode_toks bm ++ B ++ t' :: r) L1 (C + 1)%Z
                                                  (set_a (with_mode c1 (tl_am i) false) (tl_A i)) lines) =
              parse_run f PExprB (pq mt sy1 (add_refs rf (tl_A i)) (B ++ t' :: r) L1 (C + 1)%Z
                                      (with_mode (set_a (with_mode c1 (tl_am i) false) (tl_A i)) bm true) lines)).
    { destruct bm as [b|].
      - exists 2%nat. intros f. cbn [Nat.add]. rewrite parse_run_S.
        destruct (mode_expr_run mt sy1 (add_refs rf (tl_A i)) true (Some b) B (t' :: r) L1 (C + 1)%Z
                    (set_a (with_mode c1 (tl_am i) false) (tl_A i)) lines HB (mkT tokComma [44]) ltac:(discriminate)) as [_ Q].
        rewrite (Q eq_refl eq_refl). cbn [mode_toks app]. rewrite EBl. cbn [app].
        rewrite parse_run_S, q_mode_b by (try discriminate; exact Hb0). reflexivity.
      - exists 1%nat. intros f. cbn [Nat.add]. rewrite parse_run_S.
        destruct (mode_expr_run mt sy1 (add_refs rf (tl_A i)) true None B (t' :: r) L1 (C + 1)%Z
                    (set_a (with_mode c1 (tl_am i) false) (tl_A i)) lines HB (mkT tokComma [44]) ltac:(discriminate)) as [_ Q].
        rewrite (Q eq_refl eq_refl). reflexivity. }
    destruct HcommaB as [n3 H3].
    exists (S n1 + n2 + 1 + n3)%nat, L1. intros f.
    replace (S n1 + n2 + 1 + n3 + f)%nat with (S (n1 + (n2 + (1 + (n3 + f)))))%nat by lia.
    rewrite Hstart. unfold after_op, tline_last. rewrite EB. rewrite <- !app_assoc. cbn [app].
    rewrite H2. cbn [Nat.add]. rewrite parse_run_S.
    rewrite q_expr_a; [|apply HA|destruct (tl_am i); reflexivity|reflexivity].
    cbn [t_typ]. apply H3.
  - (* a lone operand *)
    exists (S n1 + n2)%nat, L1. intros f.
    replace (S n1 + n2 + f)%nat with (S (n1 + (n2 + f)))%nat by lia.
    rewrite Hstart. unfold after_op, tline_last. rewrite EB. rewrite app_nil_r. rewrite H2. reflexivity.
Qed.

(* ---------- after the last operand: remark, line ends ---------- *)
Definition set_last (c : sline) (i : tline) : sline :=
  match tl_B i with Some (_, B) => set_b c B | None => set_a c (tl_A i) end.
Definition fin_cur (L C : Z) (i : tline) : sline :=
  let f := set_last (pre_cur L C i) i in match tl_cmt i with Some c => set_comment f c | None => f end.
Definition tline_sline (C : Z) (i : tline) : sline :=
  mkSL 0 C lineInstruction (lnames (tl_labs i)) (tl_op i) (mode_text (tl_am i)) (tl_A i)
       (match tl_B i with Some (bm, _) => mode_text bm | None => [] end)
       (match tl_B i with Some (_, B) => B | None => [] end)
       (match tl_cmt i with Some c => c | None => [] end) 0.
Lemma core_fin L C i : core (fin_cur L C i) = tline_sline C i /\ is_blank (fin_cur L C i) = false.
Proof.
  destruct i as [labs op am A B cmt]. unfold fin_cur, set_last, pre_cur, tline_sline. cbn [tl_labs tl_op tl_am tl_A tl_B tl_cmt].
  destruct am as [a|], B as [[[b|] B]|], cmt as [c|]; split; reflexivity.
Qed.
Lemma core_newline x : core (add_newline x) = core x /\ is_blank (add_newline x) = is_blank x.
Proof. split; reflexivity. Qed.

Lemma skip_nls mt sy rf j t0 r0 L C cur lines : t_typ t0 <> tokNewline ->
  exists n L' cur' lines',
    (forall f, parse_run (n + f) PLine (pq mt sy rf (repeat nl_tok j ++ t0 :: r0) L C cur lines) =
               parse_run f PLine (pq mt sy rf (t0 :: r0) L' C cur' lines')) /\
    essential lines' = essential lines.
Proof.
  intros Ht. destruct j as [|j].
  - exists 0%nat, L, cur, lines. split; [intros f; reflexivity|reflexivity].
  - destruct (q_empty mt sy rf (S j) t0 r0 L C (empty_sline L) lines Ht) as [L' [cur' [E1 E2]]].
    exists 2%nat, L', cur', (lines ++ [cur']). split.
    + intros f. cbn [Nat.add]. rewrite parse_run_S. cbn [repeat app]. rewrite q_line_nl.
      rewrite parse_run_S. cbn [repeat app] in E2. rewrite E2. reflexivity.
    + apply essential_blank. unfold is_blank. rewrite E1. reflexivity.
Qed.

Lemma last_state_facts L C i : tline_ok i ->
  Forall term_tok (tline_last i) /\
  match tl_B i with Some _ => sl_b (pre_cur L C i) = [] | None => sl_a (pre_cur L C i) = [] end.
Proof.
  intros [_ [_ [_ [HA HB]]]]. unfold tline_last, pre_cur. destruct (tl_B i) as [[bm B]|].
  - split; [apply HB|]. destruct bm, (tl_am i); reflexivity.
  - split; [apply HA|]. destruct (tl_am i); reflexivity.
Qed.

Lemma tline_run_more mt sy rf i k t0 r0 L C cur lines :
  tline_ok i -> NoDup (sy ++ lnames (tl_labs i)) -> t_typ t0 <> tokNewline ->
  exists n L' cur' lines',
    (forall f, parse_run (n + f) PLine (pq mt sy rf (tline_toks i ++ repeat nl_tok (S k) ++ t0 :: r0) L C cur lines) =
               parse_run f PLine (pq mt (sy ++ lnames (tl_labs i)) (refs_after rf i) (t0 :: r0) L' (C + 1)%Z cur' lines')) /\
    essential lines' = essential lines ++ [tline_sline C i].
Proof.
  intros Hok Hnd Ht0.
  destruct (core_fin L C i) as [CF1 CF2]. destruct (last_state_facts L C i Hok) as [HL HS].
  unfold tline_toks. rewrite <- !app_assoc.
  destruct (tl_cmt i) as [c|] eqn:Ec; cbn [cmt_toks app].
  - (* a remark, then the line end *)
    destruct (tline_prefix mt sy rf i (mkT tokComment c) (repeat nl_tok (S k) ++ t0 :: r0) L C cur lines Hok Hnd) as [n1 [L1 H1]].
    destruct (skip_nls mt (sy ++ lnames (tl_labs i)) (refs_after rf i) k t0 r0 (L1 + 1)%Z (C + 1)%Z
                (add_newline (fin_cur L C i)) (lines ++ [add_newline (fin_cur L C i)]) Ht0) as [n2 [L2 [cur2 [lines2 [H2 E2]]]]].
    exists (n1 + (2 + n2))%nat, L2, cur2, lines2. split.
    + intros f. replace (n1 + (2 + n2) + f)%nat with (n1 + S (S (n2 + f)))%nat by lia. rewrite H1.
      rewrite parse_run_S. unfold tline_state, refs_after, refs_mid, tline_last in *.
      destruct (tl_B i) as [[bm B]|] eqn:EB.
      * rewrite q_expr_b by (try assumption; reflexivity). cbn [t_typ].
        rewrite parse_run_S. cbn [repeat app].
        destruct (repeat nl_tok k ++ t0 :: r0) as [|x y] eqn:Er; [destruct k; discriminate Er|].
        rewrite q_comment_nl. unfold fin_cur, set_last in H2. rewrite EB, Ec in H2. apply H2.
      * rewrite q_expr_a by (try assumption; reflexivity). cbn [t_typ].
        rewrite parse_run_S. cbn [repeat app].
        destruct (repeat nl_tok k ++ t0 :: r0) as [|x y] eqn:Er; [destruct k; discriminate Er|].
        rewrite q_comment_nl. unfold fin_cur, set_last in H2. rewrite EB, Ec in H2. apply H2.
    + rewrite E2. rewrite essential_line by (rewrite (proj2 (core_newline _)); exact CF2).
      rewrite (proj1 (core_newline _)), CF1. reflexivity.
  - destruct (tline_prefix mt sy rf i nl_tok (repeat nl_tok k ++ t0 :: r0) L C cur lines Hok Hnd) as [n1 [L1 H1]].
    unfold tline_state, refs_after, refs_mid, tline_last in *.
    destruct (tl_B i) as [[bm B]|] eqn:EB.
    + (* two operands: the line end is consumed with the line *)
      destruct (skip_nls mt (sy ++ lnames (tl_labs i)) (add_refs (add_refs rf (tl_A i)) B) k t0 r0 (L1 + 1)%Z (C + 1)%Z
                  (add_newline (fin_cur L C i)) (lines ++ [add_newline (fin_cur L C i)]) Ht0) as [n2 [L2 [cur2 [lines2 [H2 E2]]]]].
      exists (n1 + (1 + n2))%nat, L2, cur2, lines2. split.
      * intros f. replace (n1 + (1 + n2) + f)%nat with (n1 + S (n2 + f))%nat by lia. cbn [repeat app]. rewrite H1.
        rewrite parse_run_S. rewrite q_expr_b by (try assumption; reflexivity). cbn [t_typ].
        destruct (repeat nl_tok k ++ t0 :: r0) as [|x y] eqn:Er; [destruct k; discriminate Er|].
        rewrite pnext_pq. cbn [t_typ nl_tok]. unfold fin_cur, set_last in H2. rewrite EB, Ec in H2. apply H2.
      * rewrite E2. rewrite essential_line by (rewrite (proj2 (core_newline _)); exact CF2).
        rewrite (proj1 (core_newline _)), CF1. reflexivity.
    + (* a lone operand: the line ends in front of its line end *)
      destruct (skip_nls mt (sy ++ lnames (tl_labs i)) (add_refs rf (tl_A i)) (S k) t0 r0 L1 (C + 1)%Z
                  (fin_cur L C i) (lines ++ [fin_cur L C i]) Ht0) as [n2 [L2 [cur2 [lines2 [H2 E2]]]]].
      exists (n1 + (1 + n2))%nat, L2, cur2, lines2. split.
      * intros f. replace (n1 + (1 + n2) + f)%nat with (n1 + S (n2 + f))%nat by lia. cbn [repeat app]. rewrite H1.
        rewrite parse_run_S. rewrite q_expr_a by (try assumption; reflexivity). cbn [t_typ nl_tok].
        unfold fin_cur, set_last in H2. rewrite EB, Ec in H2. cbn [repeat app] in H2. apply H2.
      * rewrite E2. rewrite essential_line by exact CF2. rewrite CF1. reflexivity.
Qed.

Definition finished (pf : parser) (sy rf : list text) (ess : list sline) (mt : pmeta) : Prop :=
  p_err pf = false /\ p_syms pf = sy /\ p_refs pf = rf /\ essential (p_lines pf) = ess /\ p_meta pf = mt.

Lemma tline_run_last mt sy rf i L C cur lines :
  tline_ok i -> NoDup (sy ++ lnames (tl_labs i)) ->
  exists n pf,
    (forall f, parse_run (n + f) PLine (pq mt sy rf (tline_toks i ++ [tEOF]) L C cur lines) = Some pf) /\
    finished pf (sy ++ lnames (tl_labs i)) (refs_after rf i) (essential lines ++ [tline_sline C i]) mt.
Proof.
  intros Hok Hnd.
  destruct (core_fin L C i) as [CF1 CF2]. destruct (last_state_facts L C i Hok) as [HL HS].
  unfold tline_toks. rewrite <- !app_assoc.
  destruct (tl_cmt i) as [c|] eqn:Ec; cbn [cmt_toks app].
  - destruct (tline_prefix mt sy rf i (mkT tokComment c) [tEOF] L C cur lines Hok Hnd) as [n1 [L1 H1]].
    unfold tline_state, refs_after, refs_mid, tline_last in *.
    destruct (tl_B i) as [[bm B]|] eqn:EB.
    + eexists (n1 + 2)%nat, _. split.
      * intros f. replace (n1 + 2 + f)%nat with (n1 + S (S f))%nat by lia. rewrite H1.
        rewrite parse_run_S. rewrite q_expr_b by (try assumption; reflexivity). cbn [t_typ].
        rewrite parse_run_S, q_comment_eof. reflexivity.
      * unfold finished. cbn [pq p_err p_syms p_refs p_lines p_meta]. repeat split.
        rewrite essential_line; [f_equal; f_equal|]; unfold fin_cur, set_last in CF1, CF2; rewrite EB, Ec in CF1, CF2; assumption.
    + eexists (n1 + 2)%nat, _. split.
      * intros f. replace (n1 + 2 + f)%nat with (n1 + S (S f))%nat by lia. rewrite H1.
        rewrite parse_run_S. rewrite q_expr_a by (try assumption; reflexivity). cbn [t_typ].
        rewrite parse_run_S, q_comment_eof. reflexivity.
      * unfold finished. cbn [pq p_err p_syms p_refs p_lines p_meta]. repeat split.
        rewrite essential_line; [f_equal; f_equal|]; unfold fin_cur, set_last in CF1, CF2; rewrite EB, Ec in CF1, CF2; assumption.
  - destruct (tline_prefix mt sy rf i tEOF [] L C cur lines Hok Hnd) as [n1 [L1 H1]].
    unfold tline_state, refs_after, refs_mid, tline_last in *.
    destruct (tl_B i) as [[bm B]|] eqn:EB.
    + eexists (n1 + 2)%nat, _. split.
      * intros f. replace (n1 + 2 + f)%nat with (n1 + S (S f))%nat by lia. rewrite H1.
        rewrite parse_run_S. rewrite q_expr_b by (try assumption; reflexivity). cbn [t_typ tEOF].
        rewrite parse_run_S, q_line_eof. reflexivity.
      * unfold finished. cbn [pq p_err p_syms p_refs p_lines p_meta]. repeat split.
        rewrite essential_line; [f_equal; f_equal|]; unfold fin_cur, set_last in CF1, CF2; rewrite EB, Ec in CF1, CF2; assumption.
    + eexists (n1 + 2)%nat, _. split.
      * intros f. replace (n1 + 2 + f)%nat with (n1 + S (S f))%nat by lia. rewrite H1.
        rewrite parse_run_S. rewrite q_expr_a by (try assumption; reflexivity). cbn [t_typ tEOF].
        rewrite parse_run_S, q_line_eof. reflexivity.
      * unfold finished. cbn [pq p_err p_syms p_refs p_lines p_meta]. repeat split.
        rewrite essential_line; [f_equal; f_equal|]; unfold fin_cur, set_last in CF1, CF2; rewrite EB, Ec in CF1, CF2; assumption.
Qed.

(* ---------- comment lines ---------- *)
Definition comment_sline (c : text) : sline := mkSL 0 0 lineComment [] [] [] [] [] [] c 0.
Lemma comment_run_more mt sy rf c k t0 r0 L C cur lines : t_typ t0 <> tokNewline ->
  exists n L' cur' lines',
    (forall f, parse_run (n + f) PLine (pq mt sy rf (mkT tokComment c :: repeat nl_tok (S k) ++ t0 :: r0) L C cur lines) =
               parse_run f PLine (pq (read_metadata mt c) sy rf (t0 :: r0) L' C cur' lines')) /\
    essential lines' = essential lines ++ [comment_sline c].
Proof.
  intros Ht0.
  set (cl := add_newline (set_comment (mkSL L 0 lineComment [] [] [] [] [] [] [] 0) c)).
  destruct (skip_nls (read_metadata mt c) sy rf k t0 r0 (L + 1)%Z C cl (lines ++ [cl]) Ht0) as [n2 [L2 [cur2 [lines2 [H2 E2]]]]].
  exists (2 + n2)%nat, L2, cur2, lines2. split.
  - intros f. cbn [Nat.add]. rewrite parse_run_S, q_line_comment. rewrite parse_run_S. cbn [repeat app].
    destruct (repeat nl_tok k ++ t0 :: r0) as [|x y] eqn:Er; [destruct k; discriminate Er|].
    rewrite q_comment_nl. apply H2.
  - rewrite E2. rewrite essential_line by reflexivity. reflexivity.
Qed.
Lemma comment_run_last mt sy rf c L C cur lines :
  exists n pf,
    (forall f, parse_run (n + f) PLine (pq mt sy rf [mkT tokComment c; tEOF] L C cur lines) = Some pf) /\
    finished pf sy rf (essential lines ++ [comment_sline c]) (read_metadata mt c).
Proof.
  eexists 2%nat, _. split.
  - intros f. cbn [Nat.add]. rewrite parse_run_S, q_line_comment. rewrite parse_run_S, q_comment_eof. reflexivity.
  - unfold finished. cbn [pq p_err p_syms p_refs p_lines p_meta]. repeat split. rewrite essential_line by reflexivity. reflexivity.
Qed.

(* ---------- documents: lines, each followed by its line ends ---------- *)
Inductive lelem := LInstr (i : tline) | LComment (c : text).
Definition lelem_toks (x : lelem) : list token :=
  match x with LInstr i => tline_toks i | LComment c => [mkT tokComment c] end.
Fixpoint body (es : list (lelem * nat)) : list token :=
  match es with [] => [] | (x, k) :: t => lelem_toks x ++ repeat nl_tok k ++ body t end.
Definition ldoc_toks (lead : nat) (es : list (lelem * nat)) : list token := repeat nl_tok lead ++ body es ++ [tEOF].

Fixpoint dnames (es : list (lelem * nat)) : list text :=
  match es with [] => [] | (LInstr i, _) :: t => lnames (tl_labs i) ++ dnames t | _ :: t => dnames t end.
Fixpoint drefs (rf : list text) (es : list (lelem * nat)) : list text :=
  match es with [] => rf | (LInstr i, _) :: t => drefs (refs_after rf i) t | _ :: t => drefs rf t end.
Fixpoint elines (C : Z) (es : list (lelem * nat)) : list sline :=
  match es with
  | [] => []
  | (LInstr i, _) :: t => tline_sline C i :: elines (C + 1) t
  | (LComment c, _) :: t => comment_sline c :: elines C t
  end.
Fixpoint dmeta (mt : pmeta) (es : list (lelem * nat)) : pmeta :=
  match es with [] => mt | (LComment c, _) :: t => dmeta (read_metadata mt c) t | _ :: t => dmeta mt t end.

(* every line but the last is followed by at least one line end *)
Fixpoint ends_ok (es : list (lelem * nat)) : Prop :=
  match es with
  | [] => True
  | [(_, _)] => True
  | (_, k) :: t => (1 <= k)%nat /\ ends_ok t
  end.
Definition lelem_ok (x : lelem) : Prop := match x with LInstr i => tline_ok i | LComment _ => True end.

Lemma tline_toks_head i : tline_ok i -> exists t0 r0, tline_toks i = t0 :: r0 /\ t_typ t0 <> tokNewline.
Proof.
  intros [Hhd _]. unfold tline_toks, tline_head. destruct (tl_labs i) as [|[n| |] t]; try (destruct Hhd; fail); cbn [map app ltok_tok];
    eexists _, _; (split; [reflexivity|discriminate]).
Qed.
Lemma body_head es : Forall (fun xk => lelem_ok (fst xk)) es ->
  exists t0 r0, body es ++ [tEOF] = t0 :: r0 /\ t_typ t0 <> tokNewline.
Proof.
  intros H. destruct es as [|[x k] t]; [exists tEOF, []; split; [reflexivity|discriminate]|].
  inversion H as [|a b Hx Ht]; subst. cbn [fst] in Hx. cbn [body]. destruct x as [i|c].
  - destruct (tline_toks_head i Hx) as [t0 [r0 [E Hn]]]. cbn [lelem_toks]. rewrite E. cbn [app]. eexists _, _. split; [reflexivity|exact Hn].
  - cbn [lelem_toks app]. eexists _, _. split; [reflexivity|discriminate].
Qed.

Lemma body_cons x k t : body ((x, k) :: t) = lelem_toks x ++ repeat nl_tok k ++ body t.
Proof. reflexivity. Qed.

Theorem doc_run : forall es, Forall (fun xk => lelem_ok (fst xk)) es -> ends_ok es ->
  forall mt sy rf L C cur lines, NoDup (sy ++ dnames es) ->
  exists n pf,
    (forall f, parse_run (n + f) PLine (pq mt sy rf (body es ++ [tEOF]) L C cur lines) = Some pf) /\
    finished pf (sy ++ dnames es) (drefs rf es) (essential lines ++ elines C es) (dmeta mt es).
Proof.
  induction es as [|[x k] t IH]; intros Hok Hends mt sy rf L C cur lines Hnd.
  - eexists 1%nat, _. split; [intros f; cbn [Nat.add body app]; rewrite parse_run_S, q_line_eof; reflexivity|].
    unfold finished. cbn [pq p_err p_syms p_refs p_lines p_meta dnames drefs elines dmeta]. rewrite !app_nil_r. repeat split.
  - inversion Hok as [|a b Hx Ht]; subst. cbn [fst] in Hx.
    destruct (body_head t Ht) as [t0 [r0 [Eb Hn0]]].
    destruct t as [|y t'].
    + (* the last line *)
      cbn [body app] in Eb |- *. rewrite app_nil_r.
      destruct k as [|k].
      * cbn [repeat app]. rewrite app_nil_r. destruct x as [i|c]; cbn [lelem_toks dnames drefs elines dmeta].
        -- cbn [dnames] in Hnd. rewrite app_nil_r in Hnd. rewrite app_nil_r. apply tline_run_last; assumption.
        -- rewrite app_nil_r. cbn [app]. apply comment_run_last.
      * (* line ends after it, then the end of the text *)
        destruct x as [i|c]; cbn [lelem_toks dnames drefs elines dmeta].
        -- cbn [dnames] in Hnd. rewrite app_nil_r in Hnd |- *.
           destruct (tline_run_more mt sy rf i k tEOF [] L C cur lines Hx Hnd ltac:(discriminate)) as [n [L' [cur' [lines' [H1 E1]]]]].
           eexists (n + 1)%nat, _. split.
           ++ intros f. replace (n + 1 + f)%nat with (n + S f)%nat by lia. rewrite <- app_assoc. rewrite H1.
              rewrite parse_run_S, q_line_eof. reflexivity.
           ++ unfold finished. cbn [pq p_err p_syms p_refs p_lines p_meta]. repeat split. exact E1.
        -- rewrite app_nil_r.
           destruct (comment_run_more mt sy rf c k tEOF [] L C cur lines ltac:(discriminate)) as [n [L' [cur' [lines' [H1 E1]]]]].
           eexists (n + 1)%nat, _. split.
           ++ intros f. replace (n + 1 + f)%nat with (n + S f)%nat by lia. cbn [app]. rewrite H1.
              rewrite parse_run_S, q_line_eof. reflexivity.
           ++ unfold finished. cbn [pq p_err p_syms p_refs p_lines p_meta]. repeat split. exact E1.
    + (* a line, its line ends, more lines *)
      destruct Hends as [Hk Hends]. destruct k as [|k]; [lia|].
      rewrite (body_cons x (S k) (y :: t')). rewrite <- !app_assoc. rewrite Eb.
      destruct x as [i|c]; cbn [lelem_toks].
      2: change (dnames ((LComment c, S k) :: y :: t')) with (dnames (y :: t')) in *;
         change (drefs rf ((LComment c, S k) :: y :: t')) with (drefs rf (y :: t'));
         change (elines C ((LComment c, S k) :: y :: t')) with (comment_sline c :: elines C (y :: t'));
         change (dmeta mt ((LComment c, S k) :: y :: t')) with (dmeta (read_metadata mt c) (y :: t')).
      1: change (dnames ((LInstr i, S k) :: y :: t')) with (lnames (tl_labs i) ++ dnames (y :: t')) in *;
         change (drefs rf ((LInstr i, S k) :: y :: t')) with (drefs (refs_after rf i) (y :: t'));
         change (elines C ((LInstr i, S k) :: y :: t')) with (tline_sline C i :: elines (C + 1) (y :: t'));
         change (dmeta mt ((LInstr i, S k) :: y :: t')) with (dmeta mt (y :: t')).
      * rewrite app_assoc in Hnd.
        assert (Hnd1 : NoDup (sy ++ lnames (tl_labs i))).
        { clear - Hnd. revert Hnd. generalize (sy ++ lnames (tl_labs i)) as l1, (dnames (y :: t')) as l2.
          induction l1 as [|a l1 IH]; intros l2 H; [constructor|]. cbn [app] in H. inversion H; subst. constructor.
          - intros Hin. apply H2. apply in_or_app. left. exact Hin.
          - eapply IH. eassumption. }
        destruct (tline_run_more mt sy rf i k t0 r0 L C cur lines Hx Hnd1 Hn0) as [n [L' [cur' [lines' [H1 E1]]]]].
        destruct (IH Ht Hends mt (sy ++ lnames (tl_labs i)) (refs_after rf i) L' (C + 1)%Z cur' lines' Hnd) as [n2 [pf [H2 F2]]].
        exists (n + n2)%nat, pf. split.
        -- intros f. rewrite <- Nat.add_assoc. rewrite H1. rewrite <- Eb. apply H2.
        -- rewrite E1 in F2. rewrite <- !app_assoc in F2. exact F2.
      * destruct (comment_run_more mt sy rf c k t0 r0 L C cur lines Hn0) as [n [L' [cur' [lines' [H1 E1]]]]].
        destruct (IH Ht Hends (read_metadata mt c) sy rf L' C cur' lines' Hnd) as [n2 [pf [H2 F2]]].
        exists (n + n2)%nat, pf. split.
        -- intros f. rewrite <- Nat.add_assoc. cbn [app]. rewrite H1. rewrite <- Eb. apply H2.
        -- rewrite E1 in F2. rewrite <- !app_assoc in F2. exact F2.
Qed.

(* ---------- the parser as a whole ---------- *)
Definition p_init (toks : list token) : parser :=
  pnext (mkP toks (mkT tokError []) false 1 0 false (empty_sline 1) (mkPM [] [] []) false [] predefined []).

Lemma parse_from_run toks n pf : closed_stream toks -> parse_run n PLine (p_init toks) = Some pf ->
  parse toks = if p_err pf then Some None
               else if forallb (fun r => mem_text r (p_syms pf)) (p_refs pf) then Some (Some (p_lines pf, p_meta pf)) else Some None.
Proof.
  intros Hc Hr. pose proof (parse_total toks Hc) as Ht. unfold parse in *. fold (p_init toks) in *.
  destruct (parse_run (4 * length toks + 10) PLine (p_init toks)) as [p'|] eqn:E; [|congruence].
  pose proof (parse_run_mono _ _ _ _ (4 * length toks + 10) Hr) as M1.
  pose proof (parse_run_mono _ _ _ _ n E) as M2.
  rewrite Nat.add_comm in M2. rewrite M1 in M2. inversion M2; subst. reflexivity.
Qed.

Lemma mem_text_in x l : In x l -> mem_text x l = true.
Proof. intros H. unfold mem_text. apply existsb_exists. exists x. split; [exact H|apply text_eqb_refl]. Qed.

Lemma term_nonterm t : term_tok t -> nonterm t.
Proof. unfold term_tok, nonterm, tok_is_expr_term, is_terminal. destruct (t_typ t); try discriminate; reflexivity. Qed.
Lemma tline_toks_nonterm i : tline_ok i -> Forall nonterm (tline_toks i).
Proof.
  intros [_ [_ [_ [[HA _] HB]]]]. unfold tline_toks, tline_head, tline_last.
  assert (Hl : Forall nonterm (map ltok_tok (tl_labs i))).
  { induction (tl_labs i) as [|[n| |] t IH]; cbn [map]; constructor; try exact IH; reflexivity. }
  assert (Hm : forall m, Forall nonterm (mode_toks m)) by (intros [a|]; repeat constructor).
  assert (HA' : Forall nonterm (tl_A i)) by (eapply Forall_impl; [apply term_nonterm|exact HA]).
  assert (Hc : Forall nonterm (cmt_toks (tl_cmt i))) by (destruct (tl_cmt i); repeat constructor).
  destruct (tl_B i) as [[bm B]|].
  - destruct HB as [HB _]. assert (HB' : Forall nonterm B) by (eapply Forall_impl; [apply term_nonterm|exact HB]).
    repeat (first [apply Forall_app; split | apply Forall_cons]); try assumption; try apply Hm; try reflexivity.
  - repeat (first [apply Forall_app; split | apply Forall_cons]); try assumption; try apply Hm; try reflexivity; try constructor.
Qed.
Lemma repeat_nl_nonterm k : Forall nonterm (repeat nl_tok k).
Proof. induction k; cbn [repeat]; constructor; [reflexivity|assumption]. Qed.
Lemma body_nonterm es : Forall (fun xk => lelem_ok (fst xk)) es -> Forall nonterm (body es).
Proof.
  induction es as [|[x k] t IH]; intros H; [constructor|]. inversion H as [|a b Hx Ht]; subst. cbn [fst] in Hx.
  cbn [body]. apply Forall_app. split; [|apply Forall_app; split; [apply repeat_nl_nonterm|apply IH; exact Ht]].
  destruct x as [i|c]; [apply tline_toks_nonterm; exact Hx|repeat constructor].
Qed.
Lemma ldoc_closed lead es : Forall (fun xk => lelem_ok (fst xk)) es -> closed_stream (ldoc_toks lead es).
Proof.
  intros H. exists (repeat nl_tok lead ++ body es), tEOF. split; [unfold ldoc_toks; rewrite app_assoc; reflexivity|].
  split; [reflexivity|]. apply Forall_app. split; [apply repeat_nl_nonterm|apply body_nonterm; exact H].
Qed.

Theorem parse_ldoc lead es :
  Forall (fun xk => lelem_ok (fst xk)) es -> ends_ok es ->
  NoDup (predefined ++ dnames es) ->
  (forall r, In r (drefs [] es) -> In r (predefined ++ dnames es)) ->
  exists lines, parse (ldoc_toks lead es) = Some (Some (lines, dmeta (mkPM [] [] []) es)) /\ essential lines = elines 0 es.
Proof.
  intros Hok Hends Hnd Hrefs.
  destruct (body_head es Hok) as [t0 [r0 [Eb Hn0]]].
  assert (Ei : p_init (ldoc_toks lead es) = pq (mkPM [] [] []) predefined [] (ldoc_toks lead es) 1 0 (empty_sline 1) []).
  { unfold ldoc_toks. rewrite Eb. destruct lead; reflexivity. }
  destruct (skip_nls (mkPM [] [] []) predefined [] lead t0 r0 1 0 (empty_sline 1) [] Hn0) as [n1 [L1 [cur1 [lines1 [H1 E1]]]]].
  destruct (doc_run es Hok Hends (mkPM [] [] []) predefined [] L1 0%Z cur1 lines1 Hnd) as [n2 [pf [H2 [F1 [F2 [F3 [F4 F5]]]]]]].
  assert (Hrun : parse_run (n1 + (n2 + 0)) PLine (p_init (ldoc_toks lead es)) = Some pf).
  { rewrite Ei. unfold ldoc_toks. rewrite Eb. rewrite H1. rewrite <- Eb. apply H2. }
  rewrite (parse_from_run _ _ _ (ldoc_closed lead es Hok) Hrun). rewrite F1, F2, F3.
  replace (forallb (fun r => mem_text r (predefined ++ dnames es)) (drefs [] es)) with true.
  - exists (p_lines pf). split; [rewrite F5; reflexivity|]. rewrite F4, E1. reflexivity.
  - symmetry. apply forallb_forall. intros r Hr. apply mem_text_in. apply Hrefs. exact Hr.
Qed.
