(* C08Passes.v — the pass driver of CompileWarrior: one pass per FOR block, with the EQU symbols
   in front of the block and the predefined constants, until no FOR is left. *)
From GM Require Import Base Text Token Lexer Scanner ExprSpec ExprEval ForExpand Parser Sim Compile C05Lexer C05Expander C05Fuel
     C10Proof C14Proof ScanProof C08Proof C08Block C08Scan.
From Coq Require Import Lia.
Open Scope N_scope.

Lemma pass_loop_S cfg n toks :
  pass_loop cfg (S n) toks =
  match scan_input toks with
  | None => None
  | Some None => Some None
  | Some (Some (syms, for_seen)) =>
    if for_seen then
      match for_expand toks (with_constants cfg syms) with
      | None => None
      | Some None => None
      | Some (Some r) => pass_loop cfg n (fr_tokens r)
      end
    else Some (Some toks)
  end.
Proof. reflexivity. Qed.

(* the symbols of the lines in front of the block: the EQU definitions in order; None when a name is
   defined twice or an END line comes first (then the block is never expanded) *)
Definition front_symbols (pre : list pline) : option symtab :=
  match scan_spec pre [] (fun m => SROk m true) with SROk m true => Some m | _ => None end.

(* one pass: the stream with its first block is replaced by the stream with the block written out *)
Theorem pass_step cfg k pre hl forw es body cls rofw skip rest e v d_at content' syms :
  Forall pline_ok pre ->
  plbl_ok hl -> t_typ forw = tokText -> tok_is_pseudo forw = true -> lower_is (t_val forw) "for" = true -> Forall plain_tok es ->
  front_symbols pre = Some syms ->
  expand_and_evaluate (filter noncomment es) (with_constants cfg syms) = Some (EOk v) ->
  Forall bline_ok body -> body_run body 0 None [] = Some (O, d_at, content') ->
  Forall (fun vc => is_label (fst vc)) cls ->
  t_typ rofw = tokText -> tok_is_pseudo rofw = true -> lower_is (t_val rofw) "for" = false -> lower_is (t_val rofw) "rof" = true ->
  Forall plain_tok skip -> Forall nonterm rest -> t_typ e = tokEOF ->
  pass_loop cfg (S k)
    (flat_map pl_toks pre ++ (plbl_seg hl ++ forw :: es ++ [nlt]) ++ flat_map bl_toks body
     ++ lbl_seg cls ++ rofw :: skip ++ (nlt :: rest ++ [e])) =
  pass_loop cfg k
    (flat_map pl_out pre ++ emit_body (Z.to_nat v) d_at (last (map fst hl) []) (init_list (map fst hl)) content' ++ rest ++ [tEOF]).
Proof.
  intros Hpre Hhl Hft Hfp Hff Hes Hsy Hev Hbody Hrun Hcls Hrt Hrp Hrf Hrr Hskip Hrest He.
  destruct (one_pass_full (with_constants cfg syms) pre hl forw es body cls rofw skip rest e v d_at content'
              Hpre Hhl Hft Hfp Hff Hes Hev Hbody Hrun Hcls Hrt Hrp Hrf Hrr Hskip Hrest He) as [Hclosed [r [H1 [H2 H3]]]].
  set (toks := flat_map pl_toks pre ++ (plbl_seg hl ++ forw :: es ++ [nlt]) ++ flat_map bl_toks body
               ++ lbl_seg cls ++ rofw :: skip ++ (nlt :: rest ++ [e])) in *.
  rewrite pass_loop_S.
  (* the scanner: the symbols in front, and the FOR *)
  assert (Hscan : scan_input toks = Some (Some (syms, true))).
  { unfold front_symbols in Hsy.
    destruct (scan_spec pre [] (fun m => SROk m true)) as [|m fs] eqn:Esp; [discriminate|]. destruct fs; [|discriminate]. inversion Hsy; subst m.
    assert (Etoks : toks = flat_map pl_toks pre ++ (plbl_seg hl ++ forw :: (es ++ [nlt]) ++ flat_map bl_toks body ++ lbl_seg cls ++ rofw :: skip ++ nlt :: rest ++ [e])).
    { unfold toks. rewrite <- !app_assoc. cbn [app]. rewrite <- !app_assoc. reflexivity. }
    destruct (plbl_seg hl ++ forw :: (es ++ [nlt]) ++ flat_map bl_toks body ++ lbl_seg cls ++ rofw :: skip ++ nlt :: rest ++ [e]) as [|t0 r0] eqn:E0;
      [destruct hl as [|[? ?] ?]; discriminate E0|].
    assert (Ht0 : t_typ t0 <> tokEOF).
    { destruct hl as [|[v0 j0] ls]; cbn [plbl_seg flat_map app] in E0; inversion E0; subst; [rewrite Hft|]; discriminate. }
    assert (HK : continues (t0 :: r0) (fun m => SROk m true)).
    { split; [intros m Hx; exfalso; exact (Ht0 Hx)|]. intros m labs _. rewrite <- E0. apply scan_header; assumption. }
    pose proof (scan_lines pre t0 r0 [] [] (fun m => SROk m true) Hpre HK) as [S1 S2].
    assert (Hne : ~ at_eof (flat_map pl_toks pre ++ t0 :: r0)).
    { intros Hx. specialize (S1 Hx). rewrite Esp in S1. discriminate S1. }
    rewrite (scan_input_yields toks (scan_spec pre [] (fun m => SROk m true)) Hclosed); [rewrite Esp; reflexivity|].
    rewrite Etoks. apply S2. exact Hne. }
  rewrite Hscan. cbn [fst snd]. rewrite H1, H3, H2. rewrite <- !app_assoc. reflexivity.
Qed.

(* ---------- the last pass: no FOR left ---------- *)
Lemma pl_toks_nonterm pre : Forall pline_ok pre -> Forall nonterm (flat_map pl_toks pre).
Proof.
  intros Hpre. apply Forall_forall. intros t Hin. apply in_flat_map in Hin. destruct Hin as [p [Hp Ht]].
  rewrite Forall_forall in Hpre. destruct (Hpre p Hp) as [Pl [Pr _]]. unfold pl_toks in Ht.
  apply in_app_or in Ht. destruct Ht as [Ht|Ht].
  - unfold plbl_seg in Ht. apply in_flat_map in Ht. destruct Ht as [vj [Hv Ht]]. unfold plbl_ok in Pl. rewrite Forall_forall in Pl.
    destruct (Pl vj Hv) as [_ Hj]. destruct Ht as [<-|Ht]; [reflexivity|]. rewrite Forall_forall in Hj. apply junk_nonterm. apply Hj. exact Ht.
  - apply in_app_or in Ht. destruct Ht as [Ht|[<-|[]]]; [|reflexivity]. rewrite Forall_forall in Pr. destruct (Pr t Ht) as [A _]. exact A.
Qed.

(* a stream of lines none of which opens a block: the scanner sees no FOR, and the driver stops *)
Definition plain_symbols (pre : list pline) : sres := scan_spec pre [] (fun m => SROk m false).

Theorem pass_last cfg k pre e : Forall pline_ok pre -> t_typ e = tokEOF ->
  pass_loop cfg (S k) (flat_map pl_toks pre ++ [e]) =
  match plain_symbols pre with SRErr => Some None | SROk _ _ => Some (Some (flat_map pl_toks pre ++ [e])) end.
Proof.
  intros Hpre He. rewrite pass_loop_S.
  assert (Hclosed : closed_stream (flat_map pl_toks pre ++ [e])).
  { apply closed_one; [unfold is_terminal; rewrite He; reflexivity|apply pl_toks_nonterm; exact Hpre]. }
  assert (HK : continues [e] (fun m => SROk m false)).
  { split; [reflexivity|]. intros m labs Hx. exfalso. apply Hx. exact He. }
  assert (Hy : yields SLine (sq [] [] (flat_map pl_toks pre ++ [e])) (plain_symbols pre)).
  { unfold plain_symbols. destruct pre as [|p pre'].
    - cbn [flat_map app scan_spec]. apply scan_eof. exact He.
    - apply (proj2 (scan_lines (p :: pre') e [] [] [] _ Hpre HK)).
      inversion Hpre as [|x y Hp _]; subst. cbn [flat_map]. rewrite <- app_assoc.
      destruct (pl_toks_head p (flat_map pl_toks pre' ++ [e]) Hp) as [t0 [r0 [E0 Hn0]]]. rewrite E0. exact Hn0. }
  rewrite (scan_input_yields _ _ Hclosed Hy).
  assert (Hfs : forall m fs, plain_symbols pre = SROk m fs -> fs = false).
  { unfold plain_symbols. generalize (@nil (text * list token)) as s0. clear. induction pre as [|p pre IH]; intros s0 m fs H; cbn [scan_spec] in H.
    - inversion H; reflexivity.
    - unfold line_result in H. destruct (is_kw (pl_first p) "equ").
      + destruct (define_all _ _ _) as [m'|]; [apply (IH _ _ _ H)|discriminate H].
      + destruct (is_kw (pl_first p) "end"); [inversion H; reflexivity|apply (IH _ _ _ H)]. }
  destruct (plain_symbols pre) as [|m fs] eqn:E; [reflexivity|]. rewrite (Hfs m fs eq_refl). reflexivity.
Qed.

(* ---------- the passes one after the other ---------- *)
(* toks unrolls to final in k single-block steps: each step writes out the first block of the stream, with its count
   taken from the EQU symbols in front of it and the predefined constants; the last stream has no block left *)
Inductive unrolls (cfg : config) : nat -> list token -> list token -> Prop :=
| U_done pre e : Forall pline_ok pre -> t_typ e = tokEOF -> plain_symbols pre <> SRErr ->
    unrolls cfg 0 (flat_map pl_toks pre ++ [e]) (flat_map pl_toks pre ++ [e])
| U_step k pre hl forw es body cls rofw skip rest e v d_at content' syms final :
    Forall pline_ok pre ->
    plbl_ok hl -> t_typ forw = tokText -> tok_is_pseudo forw = true -> lower_is (t_val forw) "for" = true -> Forall plain_tok es ->
    front_symbols pre = Some syms ->
    expand_and_evaluate (filter noncomment es) (with_constants cfg syms) = Some (EOk v) ->
    Forall bline_ok body -> body_run body 0 None [] = Some (O, d_at, content') ->
    Forall (fun vc => is_label (fst vc)) cls ->
    t_typ rofw = tokText -> tok_is_pseudo rofw = true -> lower_is (t_val rofw) "for" = false -> lower_is (t_val rofw) "rof" = true ->
    Forall plain_tok skip -> Forall nonterm rest -> t_typ e = tokEOF ->
    unrolls cfg k (flat_map pl_out pre ++ emit_body (Z.to_nat v) d_at (last (map fst hl) []) (init_list (map fst hl)) content' ++ rest ++ [tEOF]) final ->
    unrolls cfg (S k)
      (flat_map pl_toks pre ++ (plbl_seg hl ++ forw :: es ++ [nlt]) ++ flat_map bl_toks body
       ++ lbl_seg cls ++ rofw :: skip ++ (nlt :: rest ++ [e])) final.

Theorem driver_unrolls cfg k toks final : unrolls cfg k toks final ->
  forall n, (k < n)%nat -> pass_loop cfg n toks = Some (Some final).
Proof.
  induction 1 as [pre e Hpre He Hs|k pre hl forw es body cls rofw skip rest e v d_at content' syms final
                  Hpre Hhl Hft Hfp Hff Hes Hsy Hev Hbody Hrun Hcls Hrt Hrp Hrf Hrr Hskip Hrest He Hu IH]; intros n Hn.
  - destruct n as [|n]; [lia|]. rewrite (pass_last cfg n pre e Hpre He). destruct (plain_symbols pre); [congruence|reflexivity].
  - destruct n as [|n]; [lia|].
    rewrite (pass_step cfg n pre hl forw es body cls rofw skip rest e v d_at content' syms); try assumption.
    apply IH. lia.
Qed.

(* FOR blocks assemble like their unrolling: a text whose tokens unroll, block by block, to the tokens of another
   text is assembled like that other text *)
Theorem assembles_like_unrolling cfg k t1 t2 toks final :
  lex_ascii t1 = Some toks -> lex_ascii t2 = Some final -> unrolls cfg k toks final -> (k <= max_for_passes)%nat ->
  counts_modelled toks None = true -> counts_modelled final None = true ->
  compile_warrior cfg t1 = compile_warrior cfg t2.
Proof.
  intros L1 L2 Hu Hk C1 C2. unfold compile_warrior. rewrite L1, L2, C1, C2. cbn [negb].
  rewrite (driver_unrolls cfg k toks final Hu (S max_for_passes) ltac:(lia)).
  assert (Hf : unrolls cfg 0 final final).
  { clear - Hu. induction Hu as [pre e Hpre He Hs|]; [apply U_done; assumption|assumption]. }
  rewrite (driver_unrolls cfg 0 final final Hf (S max_for_passes) ltac:(lia)). reflexivity.
Qed.
