(* C08Scan.v — the symbol scanner on the lines in front of the first FOR block: which EQU
   symbols it collects, when it reports an error, and that it sees the FOR. *)
From GM Require Import Base Text Token Lexer Scanner ExprSpec ExprEval ForExpand C05Lexer C05Expander C05Fuel C14Proof
     C10Proof ScanProof C08Proof C08Block.
From Coq Require Import Lia.
Open Scope N_scope.

(* ---------- the scanner positioned on a token list ---------- *)
Definition sq (syms : symtab) (labs : list text) (l : list token) : scan := mkSc (rd_at l) labs false false syms.

Lemma scan_run_S n st s :
  scan_run (S n) st s = match scan_step st s with (s', None) => Some s' | (s', Some st') => scan_run n st' s' end.
Proof. reflexivity. Qed.

Lemma sconsume_sq syms labs t t2 r nxt : is_terminal t = false ->
  sconsume (sq syms labs (t :: t2 :: r)) nxt =
  (sq syms labs (t2 :: r), match t_typ t2 with tokEOF => None | _ => Some nxt end).
Proof.
  intros H. unfold sconsume, sq, sc_with_rd. cbn [sc_rd sc_labels sc_for sc_err sc_syms]. rewrite rnext_at by exact H.
  cbn [rd_at r_next]. destruct (t_typ t2); reflexivity.
Qed.

(* what a scan leaves behind *)
Inductive sres := SRErr | SROk (syms : symtab) (for_seen : bool).
Definition sresult (s : scan) : sres := if sc_err s then SRErr else SROk (sc_syms s) (sc_for s).
Definition yields (st : sstate) (s : scan) (R : sres) : Prop :=
  exists n s', (forall f, scan_run (n + f) st s = Some s') /\ sresult s' = R.

Lemma yields_step st s st' s' R : scan_step st s = (s', Some st') -> yields st' s' R -> yields st s R.
Proof.
  intros E [n [sf [Hr Hs]]]. exists (S n), sf. split; [|exact Hs]. intros f. cbn [Nat.add]. rewrite scan_run_S, E. apply Hr.
Qed.
Lemma yields_stop st s s' R : scan_step st s = (s', None) -> sresult s' = R -> yields st s R.
Proof. intros E Hs. exists 1%nat, s'. split; [|exact Hs]. intros f. cbn [Nat.add]. rewrite scan_run_S, E. reflexivity. Qed.

(* the end of the text: nothing more to scan *)
Definition at_eof (l : list token) : Prop := match l with t :: _ => t_typ t = tokEOF | [] => False end.

(* ---------- the rest of a line is skipped ---------- *)
Lemma skip_line syms labs R : forall ts t' rest, Forall plain_tok ts ->
  (at_eof (t' :: rest) -> R = SROk syms false) ->
  (~ at_eof (t' :: rest) -> yields SLine (sq syms labs (t' :: rest)) R) ->
  yields SConsumeLine (sq syms labs (ts ++ nlt :: t' :: rest)) R.
Proof.
  induction ts as [|t ts IH]; intros t' rest Hts He Hn.
  - cbn [app]. destruct (t_typ t') eqn:Et;
      try (eapply yields_step; [cbn [scan_step sq sc_rd rd_at r_next nlt t_typ]; rewrite sconsume_sq by reflexivity; rewrite Et; reflexivity|];
           apply Hn; unfold at_eof; rewrite Et; discriminate).
    eapply yields_stop; [cbn [scan_step sq sc_rd rd_at r_next nlt t_typ]; rewrite sconsume_sq by reflexivity; rewrite Et; reflexivity|].
    unfold sresult. cbn. symmetry. apply He. exact Et.
  - inversion Hts as [|x y [Hx1 Hx2] Hy]; subst. cbn [app].
    destruct (ts ++ nlt :: t' :: rest) as [|t2 r2] eqn:E2; [destruct ts; discriminate E2|].
    eapply yields_step.
    + cbn [scan_step sq sc_rd rd_at r_next]. fold (sq syms labs (t :: t2 :: r2)).
      assert (Hs : match t_typ t with tokNewline => sconsume (sq syms labs (t :: t2 :: r2)) SLine
                                   | tokError | tokEOF => (sq syms labs (t :: t2 :: r2), None)
                                   | _ => sconsume (sq syms labs (t :: t2 :: r2)) SConsumeLine end
                   = sconsume (sq syms labs (t :: t2 :: r2)) SConsumeLine).
      { unfold is_terminal in Hx1. destruct (t_typ t); try reflexivity; try discriminate Hx1. congruence. }
      rewrite Hs. rewrite sconsume_sq by exact Hx1.
      assert (Ht2 : t_typ t2 <> tokEOF).
      { destruct ts as [|u us]; cbn [app] in E2; inversion E2; subst; [discriminate|].
        inversion Hy as [|a b [Ha _] _]; subst. unfold is_terminal in Ha. intros X. rewrite X in Ha. discriminate Ha. }
      destruct (t_typ t2); try reflexivity. congruence.
    + rewrite <- E2. apply IH; assumption.
Qed.

(* ---------- the label section of a line ---------- *)
Lemma scan_junk syms R : forall js labs tail, Forall junk_tok js -> tail <> [] -> ~ at_eof tail ->
  yields SLabels (sq syms labs tail) R -> yields SLabels (sq syms labs (js ++ tail)) R.
Proof.
  induction js as [|j js IH]; intros labs tail Hj Hne Hneof Hy; [exact Hy|].
  inversion Hj as [|x y Hj1 Hj2]; subst. cbn [app].
  destruct (js ++ tail) as [|t2 r2] eqn:E2; [destruct js; [cbn in E2; congruence|discriminate E2]|].
  assert (Ht2 : t_typ t2 <> tokEOF).
  { destruct js as [|u us]; cbn [app] in E2.
    - subst tail. exact Hneof.
    - inversion E2; subst. inversion Hj2 as [|a b Ha _]; subst. unfold junk_tok in Ha. intros X. rewrite X in Ha. exact Ha. }
  eapply yields_step.
  - cbn [scan_step sq sc_rd rd_at r_next]. fold (sq syms labs (j :: t2 :: r2)).
    assert (Hs : forall A (a b c d : A), match t_typ j with tokText => a | tokNewline | tokComment | tokColon => b | tokEOF => c | _ => d end = b)
      by (intros A a b c d; unfold junk_tok in Hj1; destruct (t_typ j); try contradiction; reflexivity).
    rewrite Hs. rewrite sconsume_sq by (apply junk_nonterm; exact Hj1). destruct (t_typ t2); try reflexivity. congruence.
  - rewrite <- E2. apply IH; assumption.
Qed.

Lemma scan_labels syms R : forall ls labs w rest, plbl_ok ls -> t_typ w <> tokEOF ->
  yields SLabels (sq syms (labs ++ map fst ls) (w :: rest)) R -> yields SLabels (sq syms labs (plbl_seg ls ++ w :: rest)) R.
Proof.
  induction ls as [|[v js] ls IH]; intros labs w rest Hok Hw Hy.
  - cbn [map app plbl_seg flat_map] in *. rewrite app_nil_r in Hy. exact Hy.
  - inversion Hok as [|x y [[Hv1 Hv2] Hjs] Hls]; subst. cbn [fst snd] in *.
    cbn [plbl_seg flat_map fst snd]. fold (plbl_seg ls). rewrite <- app_assoc. cbn [app].
    destruct (js ++ plbl_seg ls ++ w :: rest) as [|t2 r2] eqn:E2; [destruct js; [destruct ls as [|[? ?] ?]; discriminate E2|discriminate E2]|].
    assert (Hne : ~ at_eof (plbl_seg ls ++ w :: rest)).
    { destruct ls as [|[v2 j2] ls2]; cbn [plbl_seg flat_map app at_eof]; [exact Hw|discriminate]. }
    assert (Ht2 : t_typ t2 <> tokEOF).
    { destruct js as [|u us]; cbn [app] in E2.
      - rewrite E2 in Hne. exact Hne.
      - inversion E2; subst. inversion Hjs as [|a b Ha _]; subst. unfold junk_tok in Ha. intros X. rewrite X in Ha. exact Ha. }
    eapply yields_step.
    + cbn [scan_step sq sc_rd rd_at r_next t_typ]. rewrite Hv1, Hv2.
      match goal with |- sconsume ?X _ = _ => change X with (sq syms (labs ++ [v]) (mkT tokText v :: t2 :: r2)) end.
      rewrite sconsume_sq by reflexivity. destruct (t_typ t2); try reflexivity. congruence.
    + rewrite <- E2. apply scan_junk; [exact Hjs|destruct ls as [|[? ?] ?]; discriminate|exact Hne|].
      apply IH; [exact Hls|exact Hw|]. cbn [map] in Hy. rewrite <- app_assoc. exact Hy.
Qed.

(* ---------- one line in front of the block ---------- *)
Definition is_kw (w : token) (k : string) : bool := ttype_eqb (t_typ w) tokText && tok_is_pseudo w && lower_is (t_val w) k.
Definition equ_value (p : pline) : list token := filter noncomment (tl (pl_rest p)).

Lemma equ_loop_line tail : forall ts f buf, Forall plain_tok ts -> (length ts < f)%nat ->
  equ_loop f (rd_at (ts ++ nlt :: tail)) buf = (rd_at (nlt :: tail), buf ++ filter noncomment ts).
Proof.
  induction ts as [|t ts IH]; intros f buf Hts Hf.
  - destruct f; [lia|]. cbn [app equ_loop rd_at r_next nlt t_typ filter]. rewrite app_nil_r. reflexivity.
  - destruct f; [cbn in Hf; lia|]. inversion Hts as [|x y [Hx1 Hx2] Hy]; subst. cbn [app].
    destruct (ts ++ nlt :: tail) as [|t2 r2] eqn:E2; [destruct ts; discriminate E2|].
    cbn [equ_loop]. replace (r_next (rd_at (t :: t2 :: r2))) with t by reflexivity.
    rewrite rnext_at by exact Hx1.
    assert (Hnc : filter noncomment (t :: ts) = (if noncomment t then [t] else []) ++ filter noncomment ts)
      by (cbn [filter]; destruct (noncomment t); reflexivity).
    rewrite Hnc. unfold noncomment at 1.
    unfold is_terminal in Hx1. destruct (t_typ t) eqn:Et; try discriminate Hx1; try congruence;
      rewrite IH by (try assumption; cbn [length] in Hf; lia); rewrite <- ?app_assoc; reflexivity.
Qed.

(* what the scanner does with one line, given what it does with the rest of the stream *)
Definition line_result (p : pline) (syms : symtab) (K : symtab -> sres) : sres :=
  if is_kw (pl_first p) "equ" then
    match define_all (map fst (pl_labels p)) (equ_value p) syms with None => SRErr | Some m => K m end
  else if is_kw (pl_first p) "end" then SROk syms false
  else K syms.

Definition continues (tail : list token) (K : symtab -> sres) : Prop :=
  (forall syms, at_eof tail -> K syms = SROk syms false) /\
  (forall syms labs, ~ at_eof tail -> yields SLine (sq syms labs tail) (K syms)).

(* single steps on positioned scanners *)
Lemma st_line_text syms labs t r : t_typ t = tokText ->
  scan_step SLine (sq syms labs (t :: r)) = (sq syms [] (t :: r), Some SLabels).
Proof. intros H. cbn [scan_step sq sc_rd rd_at r_next]. rewrite H. reflexivity. Qed.
Lemma st_line_other syms labs t r : t_typ t <> tokText ->
  scan_step SLine (sq syms labs (t :: r)) = (sq syms labs (t :: r), Some SConsumeLine).
Proof. intros H. cbn [scan_step sq sc_rd rd_at r_next]. destruct (t_typ t); try reflexivity. congruence. Qed.
Lemma st_labels_equ syms labs w t2 r : t_typ w = tokText -> tok_is_pseudo w = true -> lower_is (t_val w) "equ" = true -> t_typ t2 <> tokEOF ->
  scan_step SLabels (sq syms labs (w :: t2 :: r)) = (sq syms labs (t2 :: r), Some SEquValue).
Proof.
  intros H1 H2 H3 H4. cbn [scan_step]. replace (r_next (sc_rd (sq syms labs (w :: t2 :: r)))) with w by reflexivity.
  rewrite H1, H2, H3. rewrite sconsume_sq by (unfold is_terminal; rewrite H1; reflexivity). destruct (t_typ t2); try reflexivity. congruence.
Qed.
Lemma st_labels_for syms labs w r : t_typ w = tokText -> tok_is_pseudo w = true -> lower_is (t_val w) "equ" = false -> lower_is (t_val w) "for" = true ->
  exists s', scan_step SLabels (sq syms labs (w :: r)) = (s', None) /\ sresult s' = SROk syms true.
Proof.
  intros H1 H2 H3 H4. cbn [scan_step]. replace (r_next (sc_rd (sq syms labs (w :: r)))) with w by reflexivity.
  rewrite H1, H2, H3, H4. eexists. split; reflexivity.
Qed.
Lemma st_labels_end syms labs w r : t_typ w = tokText -> tok_is_pseudo w = true -> lower_is (t_val w) "equ" = false -> lower_is (t_val w) "for" = false ->
  lower_is (t_val w) "end" = true ->
  scan_step SLabels (sq syms labs (w :: r)) = (sq syms labs (w :: r), None).
Proof.
  intros H1 H2 H3 H4 H5. cbn [scan_step]. replace (r_next (sc_rd (sq syms labs (w :: r)))) with w by reflexivity.
  rewrite H1, H2, H3, H4, H5. reflexivity.
Qed.
Lemma st_labels_skip syms labs w r : t_typ w = tokText ->
  (tok_is_pseudo w = true /\ lower_is (t_val w) "equ" = false /\ lower_is (t_val w) "for" = false /\ lower_is (t_val w) "end" = false) \/
  (tok_is_pseudo w = false /\ tok_is_op w = true) ->
  scan_step SLabels (sq syms labs (w :: r)) = (sq syms labs (w :: r), Some SConsumeLine).
Proof.
  intros H1 H. cbn [scan_step]. replace (r_next (sc_rd (sq syms labs (w :: r)))) with w by reflexivity. rewrite H1.
  destruct H as [[H2 [H3 [H4 H5]]]|[H2 H3]]; rewrite H2; [rewrite H3, H4, H5|rewrite H3]; reflexivity.
Qed.
Lemma st_equ_value syms labs ts t' rest : Forall plain_tok ts ->
  scan_step SEquValue (sq syms labs (ts ++ nlt :: t' :: rest)) =
  match define_all labs (filter noncomment ts) syms with
  | None => (mkSc (rd_at (nlt :: t' :: rest)) labs false true syms, None)
  | Some m => (sq m [] (t' :: rest), match t_typ t' with tokEOF => None | _ => Some SLine end)
  end.
Proof.
  intros Hts. cbn [scan_step]. replace (sc_rd (sq syms labs (ts ++ nlt :: t' :: rest))) with (rd_at (ts ++ nlt :: t' :: rest)) by reflexivity.
  rewrite (equ_loop_line (t' :: rest) ts _ [] Hts) by (destruct ts; cbn [app rd_at r_toks length]; [lia|rewrite app_length; cbn [length]; lia]).
  cbn [app sq sc_labels sc_syms sc_for sc_err]. destruct (define_all labs (filter noncomment ts) syms) as [m|]; [|reflexivity].
  change (mkSc (rd_at (nlt :: t' :: rest)) [] false false m) with (sq m [] (nlt :: t' :: rest)).
  rewrite sconsume_sq by reflexivity. reflexivity.
Qed.

Lemma scan_line p t' rest syms labs K : pline_ok p -> continues (t' :: rest) K ->
  yields SLine (sq syms labs (pl_toks p ++ t' :: rest)) (line_result p syms K).
Proof.
  intros [Hl [Hr Hw]] [K1 K2]. unfold pl_toks. rewrite <- !app_assoc. cbn [app].
  set (w := pl_first p) in *.
  assert (Hskip : forall labs0 ts, Forall plain_tok ts -> yields SConsumeLine (sq syms labs0 (ts ++ nlt :: t' :: rest)) (K syms)).
  { intros labs0 ts Hts. apply skip_line; [exact Hts|apply K1|apply K2]. }
  (* a line that does not begin with a word *)
  assert (CaseA : pl_labels p = [] -> t_typ w <> tokText ->
            yields SLine (sq syms labs (plbl_seg (pl_labels p) ++ pl_rest p ++ nlt :: t' :: rest)) (line_result p syms K)).
  { intros El Hnt. rewrite El. cbn [plbl_seg flat_map app].
    unfold line_result, is_kw. fold w.
    assert (Ett : ttype_eqb (t_typ w) tokText = false) by (unfold ttype_eqb; destruct (t_typ w); try reflexivity; congruence).
    rewrite Ett. cbn [andb].
    eapply yields_step; [|apply (Hskip labs (pl_rest p) Hr)].
    unfold w, pl_first in Hnt. destruct (pl_rest p) as [|a r0]; cbn [app hd] in *; apply st_line_other; [discriminate|exact Hnt]. }
  (* a line of labels, if any, and a keyword or a mnemonic *)
  assert (CaseB : t_typ w = tokText ->
            ((tok_is_pseudo w = true /\ lower_is (t_val w) "for" = false) \/ (tok_is_pseudo w = false /\ tok_is_op w = true)) ->
            yields SLine (sq syms labs (plbl_seg (pl_labels p) ++ pl_rest p ++ nlt :: t' :: rest)) (line_result p syms K)).
  { intros Ht Hkind. unfold w, pl_first in Ht, Hkind.
    destruct (pl_rest p) as [|a r0] eqn:Er; cbn [app hd] in Ht, Hkind; [discriminate Ht|].
    inversion Hr as [|x y [Ha1 Ha2] Hr0]; subst x y. cbn [app].
    (* SLine: a word; the labels; then the word w = a *)
    destruct (plbl_seg (pl_labels p) ++ a :: r0 ++ nlt :: t' :: rest) as [|t0 r0'] eqn:E0.
    { destruct (pl_labels p) as [|[? ?] ?]; discriminate E0. }
    assert (Ht0 : t_typ t0 = tokText).
    { destruct (pl_labels p) as [|[v js] ls]; cbn [plbl_seg flat_map app] in E0; inversion E0; subst; [exact Ht|reflexivity]. }
    eapply yields_step; [apply st_line_text; exact Ht0|]. rewrite <- E0.
    apply scan_labels; [exact Hl| rewrite Ht; discriminate|]. cbn [app].
    unfold line_result, is_kw. unfold w, pl_first. rewrite Er. cbn [app hd]. unfold equ_value. rewrite Er. cbn [tl].
    assert (Ett : ttype_eqb (t_typ a) tokText = true) by (rewrite Ht; reflexivity). rewrite Ett. cbn [andb].
    destruct (r0 ++ nlt :: t' :: rest) as [|t2 r2] eqn:E2; [destruct r0; discriminate E2|].
    assert (Ht2 : t_typ t2 <> tokEOF).
    { destruct r0 as [|u us]; cbn [app] in E2; inversion E2; subst; [discriminate|].
      inversion Hr0 as [|c d [Hc _] _]; subst. unfold is_terminal in Hc. intros X. rewrite X in Hc. discriminate Hc. }
    destruct Hkind as [[Hp Hf]|[Hp Ho]]; rewrite Hp; cbn [andb].
    - destruct (lower_is (t_val a) "equ") eqn:Eq.
      + eapply yields_step; [apply st_labels_equ; assumption|]. rewrite <- E2.
        pose proof (st_equ_value syms (map fst (pl_labels p)) r0 t' rest Hr0) as Hs.
        destruct (define_all (map fst (pl_labels p)) (filter noncomment r0) syms) as [m|].
        * destruct (t_typ t') eqn:Et';
            try (eapply yields_step; [exact Hs|]; apply K2; unfold at_eof; rewrite Et'; discriminate).
          eapply yields_stop; [exact Hs|]. unfold sresult. cbn. symmetry. apply K1. exact Et'.
        * eapply yields_stop; [exact Hs|reflexivity].
      + destruct (lower_is (t_val a) "end") eqn:Ee.
        * eapply yields_stop; [apply st_labels_end; assumption|reflexivity].
        * eapply yields_step; [apply st_labels_skip; [exact Ht|left; auto]|].
          rewrite <- E2. apply (Hskip _ (a :: r0)). constructor; [split; assumption|exact Hr0].
    - assert (Eq : lower_is (t_val a) "equ" = false).
      { destruct (lower_is (t_val a) "equ") eqn:E; [|reflexivity]. exfalso. unfold tok_is_pseudo, is_pseudo_text in Hp. unfold lower_is in E. rewrite E in Hp. rewrite ?orb_true_r in Hp. discriminate Hp. }
      assert (Ee : lower_is (t_val a) "end" = false).
      { destruct (lower_is (t_val a) "end") eqn:E; [|reflexivity]. exfalso. unfold tok_is_pseudo, is_pseudo_text in Hp. unfold lower_is in E. rewrite E in Hp. discriminate Hp. }
      rewrite ?andb_false_r. cbn [andb].
      eapply yields_step; [apply st_labels_skip; [exact Ht|right; auto]|].
      rewrite <- E2. apply (Hskip _ (a :: r0)). constructor; [split; assumption|exact Hr0]. }
  destruct (pl_labels p) as [|l0 ls0] eqn:El.
  - destruct Hw as [Hnt|[Ht Hkind]]; [apply CaseA; [reflexivity|exact Hnt]|apply CaseB; assumption].
  - destruct Hw as [Ht Hkind]. apply CaseB; assumption.
Qed.

(* ---------- all the lines in front ---------- *)
Fixpoint scan_spec (pre : list pline) (syms : symtab) (K : symtab -> sres) : sres :=
  match pre with
  | [] => K syms
  | p :: t => line_result p syms (fun m => scan_spec t m K)
  end.

Lemma pl_toks_head p tail : pline_ok p -> exists t0 r0, pl_toks p ++ tail = t0 :: r0 /\ t_typ t0 <> tokEOF.
Proof.
  intros [_ [Hr _]]. unfold pl_toks. destruct (pl_labels p) as [|[v js] ls]; cbn [plbl_seg flat_map app].
  - destruct (pl_rest p) as [|a r] eqn:E; cbn [app]; eexists _, _; (split; [reflexivity|]); [discriminate|].
    inversion Hr as [|x y [Ha _] _]; subst. unfold is_terminal in Ha. intros X. rewrite X in Ha. discriminate Ha.
  - eexists _, _. split; [reflexivity|discriminate].
Qed.

Theorem scan_lines : forall pre t' rest syms labs K, Forall pline_ok pre -> continues (t' :: rest) K ->
  (at_eof (flat_map pl_toks pre ++ t' :: rest) -> scan_spec pre syms K = SROk syms false) /\
  (~ at_eof (flat_map pl_toks pre ++ t' :: rest) ->
   yields SLine (sq syms labs (flat_map pl_toks pre ++ t' :: rest)) (scan_spec pre syms K)).
Proof.
  induction pre as [|p pre IH]; intros t' rest syms labs K Hok HK.
  - cbn [flat_map app scan_spec]. destruct HK as [K1 K2]. split; [apply K1|apply K2].
  - inversion Hok as [|x y Hp Hpre]; subst. cbn [flat_map scan_spec]. rewrite <- app_assoc.
    destruct (pl_toks_head p (flat_map pl_toks pre ++ t' :: rest) Hp) as [t0 [r0 [E0 Hn0]]].
    split; [intros He; rewrite E0 in He; exfalso; exact (Hn0 He)|]. intros _.
    destruct (flat_map pl_toks pre ++ t' :: rest) as [|t1 r1] eqn:E1; [destruct (flat_map pl_toks pre); discriminate E1|].
    apply scan_line; [exact Hp|]. split.
    + intros m He. rewrite <- E1 in He. apply (proj1 (IH t' rest m [] K Hpre HK) He).
    + intros m labs' Hne. rewrite <- E1 in Hne |- *. apply (proj2 (IH t' rest m labs' K Hpre HK) Hne).
Qed.

(* the FOR line: the scanner stops there and reports it *)
Lemma scan_header hl forw rest syms labs : plbl_ok hl -> t_typ forw = tokText -> tok_is_pseudo forw = true -> lower_is (t_val forw) "for" = true ->
  yields SLine (sq syms labs (plbl_seg hl ++ forw :: rest)) (SROk syms true).
Proof.
  intros Hl H1 H2 H3.
  assert (Eq : lower_is (t_val forw) "equ" = false).
  { unfold lower_is in *. apply text_eqb_eq in H3. rewrite H3. reflexivity. }
  destruct (plbl_seg hl ++ forw :: rest) as [|t0 r0] eqn:E0; [destruct hl as [|[? ?] ?]; discriminate E0|].
  assert (Ht0 : t_typ t0 = tokText).
  { destruct hl as [|[v js] ls]; cbn [plbl_seg flat_map app] in E0; inversion E0; subst; [exact H1|reflexivity]. }
  eapply yields_step; [apply st_line_text; exact Ht0|]. rewrite <- E0.
  apply scan_labels; [exact Hl|rewrite H1; discriminate|]. cbn [app].
  destruct (st_labels_for syms (map fst hl) forw rest H1 H2 Eq H3) as [s' [Hs Hr]].
  eapply yields_stop; [exact Hs|exact Hr].
Qed.

(* the end of the text *)
Lemma scan_eof e syms labs : t_typ e = tokEOF -> yields SLine (sq syms labs [e]) (SROk syms false).
Proof.
  intros He. eapply yields_step; [apply st_line_other; rewrite He; discriminate|].
  eapply yields_stop; [cbn [scan_step sq sc_rd rd_at r_next]; rewrite He; reflexivity|reflexivity].
Qed.

(* ---------- ScanInput ---------- *)
Lemma scan_run_mono f : forall st s r k, scan_run f st s = Some r -> scan_run (f + k) st s = Some r.
Proof.
  induction f as [|f IH]; intros st s r k H; [discriminate|].
  cbn [Nat.add]. rewrite scan_run_S in *. destruct (scan_step st s) as [s' [st'|]]; [apply IH; exact H|exact H].
Qed.

Lemma scan_input_yields toks R : closed_stream toks -> yields SLine (sq [] [] toks) R ->
  scan_input toks = Some (match R with SRErr => None | SROk syms fs => Some (syms, fs) end).
Proof.
  intros C [n [sf [Hr Hs]]]. pose proof (scan_input_total toks C) as Ht. unfold scan_input in *.
  assert (Ei : mkSc (reader_init toks) [] false false [] = sq [] [] toks).
  { destruct toks as [|t r]; [exfalso; apply (closed_nonempty _ C); reflexivity|]. reflexivity. }
  rewrite Ei in *.
  destruct (scan_run (3 * length toks + 6) SLine (sq [] [] toks)) as [s'|] eqn:E; [|congruence].
  pose proof (scan_run_mono _ _ _ _ n E) as M1. specialize (Hr (3 * length toks + 6)%nat).
  rewrite Nat.add_comm in M1. rewrite Hr in M1. inversion M1; subst s'.
  unfold sresult in Hs. destruct (sc_err sf); subst R; reflexivity.
Qed.
