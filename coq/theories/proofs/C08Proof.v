(* C08Proof.v — the FOR expander's unrolling: what is sent for one block is the body
   written out count times with the counter replaced by 1, 2, ..., count, followed by
   the rest of the program unchanged. *)
From GM Require Import Base Text Token Lexer Scanner ExprSpec ExprEval ForExpand C05Lexer C05Expander C14Proof.
From Coq Require Import Lia.
Open Scope N_scope.

(* ---------- the body, count times ---------- *)
Definition nseq (i : N) (n : nat) : list N := map (fun k => i + N.of_nat k) (seq 0 n).
Lemma nseq_S i n : nseq i (S n) = i :: nseq (i + 1) n.
Proof.
  unfold nseq. cbn [seq map]. f_equal; [lia|]. rewrite <- seq_shift, map_map. apply map_ext. intros k. lia.
Qed.
Lemma repeat_body_unroll n : forall i cl ll body,
  repeat_body n i cl ll body = flat_map (fun j => map (subst_body cl ll j) body) (nseq i n).
Proof.
  induction n as [|n IH]; intros i cl ll body; [reflexivity|].
  rewrite nseq_S. cbn [repeat_body flat_map]. rewrite IH. reflexivity.
Qed.
Lemma repeat_body_zero i cl ll body : repeat_body 0 i cl ll body = [].
Proof. reflexivity. Qed.

(* the counter becomes the iteration number; block labels are renamed uniformly; everything else is kept *)
Lemma subst_counter cl ll i t : t_typ t = tokText -> t_val t = cl -> subst_body cl ll i t = mkT tokNumber (dec_of_N i).
Proof.
  intros H1 H2. unfold subst_body. rewrite H1, H2.
  rewrite text_eqb_refl. reflexivity.
Qed.
Lemma subst_other cl ll i t :
  (t_typ t <> tokText \/ text_eqb (t_val t) cl = false) -> subst_body cl ll i t = t.
Proof.
  intros H. unfold subst_body. destruct (t_typ t) eqn:E; try reflexivity.
  destruct H as [H|H]; [congruence|]. rewrite H. reflexivity.
Qed.

(* ---------- the reader positioned on a list of tokens ---------- *)
Definition rd_at (l : list token) : reader :=
  match l with
  | t :: r => mkRd r t (is_terminal t)
  | [] => mkRd [] (mkT tokError []) true
  end.
Lemma rnext_at t t2 r : is_terminal t = false -> rnext (rd_at (t :: t2 :: r)) = rd_at (t2 :: r).
Proof. intros H. unfold rnext, rd_at. cbn [r_eof r_toks]. rewrite H. reflexivity. Qed.

Definition with_rd (f : fexp) (r : reader) : fexp := f_set_rd f r.

(* forEmitConsumeStream copies everything up to the end-of-file token *)
Lemma stream_copy ts : forall n f e junk,
  Forall nonterm ts -> t_typ e = tokEOF -> f_rd f = rd_at (ts ++ e :: junk) -> (length ts < n)%nat ->
  f_out (stream_loop n f) = f_out f ++ ts.
Proof.
  induction ts as [|t ts IH]; intros n f e junk Hts He Hr Hn.
  - destruct n as [|n]; [lia|]. cbn [stream_loop]. unfold f_nt. rewrite Hr. cbn [app rd_at r_next]. rewrite He.
    rewrite app_nil_r. reflexivity.
  - destruct n as [|n]; [cbn in Hn; lia|]. inversion Hts as [|x y Hx Hy]; subst.
    cbn [stream_loop]. unfold f_nt at 1. rewrite Hr. cbn [app rd_at r_next].
    assert (Hc : stream_loop n (f_emit_consume f) = match t_typ t with
              | tokEOF => f | tokError => f_send f [t] | _ => stream_loop n (f_emit_consume f) end).
    { unfold nonterm, is_terminal in Hx. destruct (t_typ t); try reflexivity; discriminate Hx. }
    assert (Hm : match t_typ t with
              | tokEOF => f | tokError => f_send f [f_nt f] | _ => stream_loop n (f_emit_consume f) end
                 = stream_loop n (f_emit_consume f)).
    { unfold nonterm, is_terminal in Hx. destruct (t_typ t); try reflexivity; discriminate Hx. }
    rewrite Hm. clear Hc Hm.
    rewrite (IH n (f_emit_consume f) e junk Hy He).
    + unfold f_emit_consume, f_next, f_send, f_nt. cbn [f_out f_set_rd]. rewrite Hr. cbn [rd_at r_next app].
      rewrite <- app_assoc. reflexivity.
    + unfold f_emit_consume, f_next, f_send. cbn [f_rd f_set_rd]. rewrite Hr.
      destruct ts as [|t2 ts']; cbn [app]; apply rnext_at; exact Hx.
    + cbn [length] in Hn. lia.
Qed.

(* skipping the rest of the rof line *)
Lemma rof_skip_line skip : forall n f rest,
  Forall (fun t => nonterm t /\ t_typ t <> tokNewline) skip ->
  f_rd f = rd_at (skip ++ mkT tokNewline [] :: rest) -> (length skip < n)%nat ->
  exists f1, rof_skip n f = (f1, true) /\ f_rd f1 = rd_at (mkT tokNewline [] :: rest) /\
             f_out f1 = f_out f /\ f_content f1 = f_content f /\ f_count f1 = f_count f /\
             f_count_label f1 = f_count_label f /\ f_line_labels f1 = f_line_labels f.
Proof.
  induction skip as [|t sk IH]; intros n f rest Hs Hr Hn.
  - destruct n as [|n]; [lia|]. cbn [rof_skip]. unfold f_nt. rewrite Hr. cbn [app rd_at r_next t_typ].
    exists f. auto 10.
  - destruct n as [|n]; [cbn in Hn; lia|]. inversion Hs as [|x y [Hx1 Hx2] Hy]; subst.
    cbn [rof_skip]. unfold f_nt at 1. rewrite Hr. cbn [app rd_at r_next].
    assert (Hm : forall (A : Type) (a b c : A), match t_typ t with tokNewline => a | tokEOF | tokError => b | _ => c end = c).
    { intros A a b c. unfold nonterm, is_terminal in Hx1. destruct (t_typ t); try reflexivity; try discriminate Hx1. congruence. }
    rewrite Hm.
    destruct (IH n (f_next f) rest Hy) as [f1 [E1 [E2 [E3 [E4 [E5 [E6 E7]]]]]]].
    + unfold f_next. cbn [f_rd f_set_rd]. rewrite Hr.
      destruct sk as [|t2 sk']; cbn [app]; apply rnext_at; exact Hx1.
    + cbn [length] in Hn. lia.
    + exists f1. rewrite E1. split; [reflexivity|]. split; [exact E2|]. cbn in *. auto 10.
Qed.

Lemma step_rof symbols f :
  for_step symbols FRof f =
  match rof_skip (S (S (length (r_toks (f_rd f))))) f with
  | (f1, false) => Some (f1, None)
  | (f1, true) =>
    let f2 := f_next f1 in
    let body := repeat_body (Z.to_nat (f_count f2)) 1 (f_count_label f2) (f_line_labels f2) (f_content f2) in
    Some (f_send f2 body, Some FEmitConsumeStream)
  end.
Proof. reflexivity. Qed.
Lemma step_stream symbols f :
  for_step symbols FEmitConsumeStream f = Some (stream_loop (S (S (length (r_toks (f_rd f))))) f, None).
Proof. reflexivity. Qed.

(* from the ROF line on: the unrolled body is sent, then the rest of the stream is copied *)
Theorem rof_phase symbols n f f' skip rest e junk :
  Forall (fun t => nonterm t /\ t_typ t <> tokNewline) skip -> Forall nonterm rest -> t_typ e = tokEOF ->
  f_rd f = rd_at (skip ++ mkT tokNewline [] :: rest ++ e :: junk) ->
  for_run symbols n FRof f = Some f' ->
  f_out f' = f_out f
             ++ flat_map (fun j => map (subst_body (f_count_label f) (f_line_labels f) j) (f_content f))
                         (nseq 1 (Z.to_nat (f_count f)))
             ++ rest.
Proof.
  intros Hs Hrest He Hr H.
  destruct n as [|n]; [discriminate|]. cbn [for_run] in H. rewrite step_rof in H.
  assert (Hl : (length skip < S (S (length (r_toks (f_rd f)))))%nat).
  { rewrite Hr. destruct skip as [|t sk]; cbn [app rd_at r_toks length]; [lia|]. rewrite app_length. cbn [length]. lia. }
  destruct (rof_skip_line skip _ f (rest ++ e :: junk) Hs Hr Hl) as [f1 [E1 [E2 [E3 [E4 [E5 [E6 E7]]]]]]].
  rewrite E1 in H. cbv zeta in H. destruct n as [|n]; [discriminate|]. cbn [for_run] in H. rewrite step_stream in H.
  match type of H with Some ?a = Some _ => assert (Ef : a = f') by congruence end. rewrite <- Ef. clear H Ef.
  set (f2 := f_next f1).
  assert (R2 : f_rd f2 = rd_at (rest ++ e :: junk)).
  { unfold f2, f_next. cbn [f_rd f_set_rd]. rewrite E2.
    destruct rest as [|t2 r']; cbn [app]; apply rnext_at; reflexivity. }
  set (body := repeat_body _ _ _ _ _).
  rewrite (stream_copy rest _ (f_send f2 body) e junk Hrest He).
  - cbn [f_out f_send]. unfold f2, f_next. cbn [f_out f_set_rd]. rewrite E3. unfold body.
    rewrite repeat_body_unroll.
    replace (f_content f2) with (f_content f) by (unfold f2; cbn; congruence).
    replace (f_count f2) with (f_count f) by (unfold f2; cbn; congruence).
    replace (f_count_label f2) with (f_count_label f) by (unfold f2; cbn; congruence).
    replace (f_line_labels f2) with (f_line_labels f) by (unfold f2; cbn; congruence).
    rewrite <- app_assoc. reflexivity.
  - cbn [f_rd f_send]. exact R2.
  - cbn [f_rd f_send]. rewrite R2. destruct rest as [|t2 r']; cbn [app rd_at r_toks length]; [lia|]. rewrite app_length. cbn [length]. lia.
Qed.

(* ---------- the FOR line: counter, block labels, count ---------- *)
Lemma step_for symbols f v :
  expand_and_evaluate (f_expr f) symbols = Some (EOk v) ->
  exists f1, for_step symbols FFor f = Some (f1, Some FInnerLine) /\
    f_count f1 = v /\ f_count_label f1 = last (f_labels f) [] /\ f_line_labels f1 = init_list (f_labels f) /\
    f_to_write f1 = Some (init_list (f_labels f)) /\
    f_content f1 = [] /\ f_out f1 = f_out f /\ f_rd f1 = f_rd f.
Proof. intros H. cbn [for_step]. rewrite H. eexists. split; [reflexivity|]. cbn. auto 10. Qed.

(* the renamed block labels are sent once, just before the first instruction of the body *)
Lemma step_block_labels symbols f ls :
  t_typ (f_nt f) = tokText -> tok_is_pseudo (f_nt f) = false -> tok_is_op (f_nt f) = true -> f_to_write f = Some ls ->
  exists f1, for_step symbols FInnerLabels f = Some (f1, Some FInnerEmitLabels) /\
    f_out f1 = f_out f ++ map (mkT tokText) ls /\ f_to_write f1 = None /\ f_rd f1 = f_rd f /\ f_content f1 = f_content f.
Proof.
  intros H1 H2 H3 H4. cbn [for_step]. rewrite H1, H2, H3, H4. eexists. split; [reflexivity|]. cbn. auto.
Qed.
Lemma step_block_labels_done symbols f :
  t_typ (f_nt f) = tokText -> tok_is_pseudo (f_nt f) = false -> tok_is_op (f_nt f) = true -> f_to_write f = None ->
  for_step symbols FInnerLabels f = Some (f, Some FInnerEmitLabels).
Proof. intros H1 H2 H3 H4. cbn [for_step]. rewrite H1, H2, H3, H4. reflexivity. Qed.
