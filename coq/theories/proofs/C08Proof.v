(* C08Proof.v — the FOR expander's unrolling: what is sent for one block is the body
   written out count times with the counter replaced by 1, 2, ..., count, followed by
   the rest of the program unchanged. *)
From GM Require Import Base Text Token Lexer Scanner ExprSpec ExprEval ForExpand C05Lexer C05Expander C14Proof.
From Coq Require Import Lia.
Open Scope N_scope.

(* ---------- the body, count times ---------- *)
Definition nseq (i : N) (n : nat) : list N := map (fun k => i + N.of_nat k) (seq 0 n).
Lemma nseq_S i n : nseq i (S n) = i :: nseq (i + 1) n.
Proof.
  unfold nseq. cbn [seq map]. f_equal; [lia|]. rewrite <- seq_shift, map_map. apply map_ext. intros k. lia.
Qed.
Lemma repeat_body_unroll n : forall i cl ll body,
  repeat_body n i cl ll body = flat_map (fun j => map (subst_body cl ll j) body) (nseq i n).
Proof.
  induction n as [|n IH]; intros i cl ll body; [reflexivity|].
  rewrite nseq_S. cbn [repeat_body flat_map]. rewrite IH. reflexivity.
Qed.
Lemma repeat_body_zero i cl ll body : repeat_body 0 i cl ll body = [].
Proof. reflexivity. Qed.

(* the counter becomes the iteration number; block labels are renamed uniformly; everything else is kept *)
Lemma subst_counter cl ll i t : t_typ t = tokText -> t_val t = cl -> subst_body cl ll i t = mkT tokNumber (dec_of_N i).
Proof.
  intros H1 H2. unfold subst_body. rewrite H1, H2.
  rewrite text_eqb_refl. reflexivity.
Qed.
Lemma subst_other cl ll i t :
  (t_typ t <> tokText \/ text_eqb (t_val t) cl = false) -> subst_body cl ll i t = t.
Proof.
  intros H. unfold subst_body. destruct (t_typ t) eqn:E; try reflexivity.
  destruct H as [H|H]; [congruence|]. rewrite H. reflexivity.
Qed.

(* ---------- the reader positioned on a list of tokens ---------- *)
Definition rd_at (l : list token) : reader :=
  match l with
  | t :: r => mkRd r t (is_terminal t)
  | [] => mkRd [] (mkT tokError []) true
  end.
Lemma rnext_at t t2 r : is_terminal t = false -> rnext (rd_at (t :: t2 :: r)) = rd_at (t2 :: r).
Proof. intros H. unfold rnext, rd_at. cbn [r_eof r_toks]. rewrite H. reflexivity. Qed.

Definition with_rd (f : fexp) (r : reader) : fexp := f_set_rd f r.

(* forEmitConsumeStream copies everything up to the end-of-file token *)
Lemma stream_copy ts : forall n f e junk,
  Forall nonterm ts -> t_typ e = tokEOF -> f_rd f = rd_at (ts ++ e :: junk) -> (length ts < n)%nat ->
  f_out (stream_loop n f) = f_out f ++ ts.
Proof.
  induction ts as [|t ts IH]; intros n f e junk Hts He Hr Hn.
  - destruct n as [|n]; [lia|]. cbn [stream_loop]. unfold f_nt. rewrite Hr. cbn [app rd_at r_next]. rewrite He.
    rewrite app_nil_r. reflexivity.
  - destruct n as [|n]; [cbn in Hn; lia|]. inversion Hts as [|x y Hx Hy]; subst.
    cbn [stream_loop]. unfold f_nt at 1. rewrite Hr. cbn [app rd_at r_next].
    assert (Hc : stream_loop n (f_emit_consume f) = match t_typ t with
              | tokEOF => f | tokError => f_send f [t] | _ => stream_loop n (f_emit_consume f) end).
    { unfold nonterm, is_terminal in Hx. destruct (t_typ t); try reflexivity; discriminate Hx. }
    assert (Hm : match t_typ t with
              | tokEOF => f | tokError => f_send f [f_nt f] | _ => stream_loop n (f_emit_consume f) end
                 = stream_loop n (f_emit_consume f)).
    { unfold nonterm, is_terminal in Hx. destruct (t_typ t); try reflexivity; discriminate Hx. }
    rewrite Hm. clear Hc Hm.
    rewrite (IH n (f_emit_consume f) e junk Hy He).
    + unfold f_emit_consume, f_next, f_send, f_nt. cbn [f_out f_set_rd]. rewrite Hr. cbn [rd_at r_next app].
      rewrite <- app_assoc. reflexivity.
    + unfold f_emit_consume, f_next, f_send. cbn [f_rd f_set_rd]. rewrite Hr.
      destruct ts as [|t2 ts']; cbn [app]; apply rnext_at; exact Hx.
    + cbn [length] in Hn. lia.
Qed.

(* skipping the rest of the rof line, its newline included *)
Lemma rof_skip_line skip : forall n f rest,
  Forall (fun t => nonterm t /\ t_typ t <> tokNewline) skip ->
  f_rd f = rd_at (skip ++ mkT tokNewline [] :: rest) -> rest <> [] -> (length skip < n)%nat ->
  exists f1, rof_skip n f = (f1, true) /\ f_rd f1 = rd_at rest /\
             f_out f1 = f_out f /\ f_content f1 = f_content f /\ f_count f1 = f_count f /\
             f_count_label f1 = f_count_label f /\ f_line_labels f1 = f_line_labels f /\ f_labels_at f1 = f_labels_at f.
Proof.
  induction skip as [|t sk IH]; intros n f rest Hs Hr Hne Hn.
  - destruct n as [|n]; [lia|]. cbn [rof_skip]. unfold f_nt. rewrite Hr. cbn [app rd_at r_next t_typ].
    exists (f_next f). split; [reflexivity|]. split; [|cbn; auto 10].
    unfold f_next. cbn [f_rd f_set_rd]. rewrite Hr. cbn [app]. destruct rest as [|t2 r']; [congruence|].
    apply rnext_at. reflexivity.
  - destruct n as [|n]; [cbn in Hn; lia|]. inversion Hs as [|x y [Hx1 Hx2] Hy]; subst.
    cbn [rof_skip]. unfold f_nt at 1. rewrite Hr. cbn [app rd_at r_next].
    assert (Hm : forall (A : Type) (a b c d : A), match t_typ t with tokNewline => a | tokEOF => b | tokError => c | _ => d end = d).
    { intros A a b c d. unfold nonterm, is_terminal in Hx1. destruct (t_typ t); try reflexivity; try discriminate Hx1. congruence. }
    rewrite Hm.
    destruct (IH n (f_next f) rest Hy) as [f1 [E1 [E2 [E3 [E4 [E5 [E6 [E7 E8]]]]]]]].
    + unfold f_next. cbn [f_rd f_set_rd]. rewrite Hr.
      destruct sk as [|t2 sk']; cbn [app]; apply rnext_at; exact Hx1.
    + exact Hne.
    + cbn [length] in Hn. lia.
    + exists f1. rewrite E1. split; [reflexivity|]. split; [exact E2|]. cbn in *. auto 10.
Qed.
(* ... or up to the end of the input when the rof line is the last one and lacks a newline *)
Lemma rof_skip_eof skip : forall n f e junk,
  Forall (fun t => nonterm t /\ t_typ t <> tokNewline) skip -> t_typ e = tokEOF ->
  f_rd f = rd_at (skip ++ e :: junk) -> (length skip < n)%nat ->
  exists f1, rof_skip n f = (f1, true) /\ f_rd f1 = rd_at (e :: junk) /\
             f_out f1 = f_out f /\ f_content f1 = f_content f /\ f_count f1 = f_count f /\
             f_count_label f1 = f_count_label f /\ f_line_labels f1 = f_line_labels f /\ f_labels_at f1 = f_labels_at f.
Proof.
  induction skip as [|t sk IH]; intros n f e junk Hs He Hr Hn.
  - destruct n as [|n]; [lia|]. cbn [rof_skip]. unfold f_nt. rewrite Hr. cbn [app rd_at r_next]. rewrite He.
    exists f. split; [reflexivity|]. split; [exact Hr|auto 10].
  - destruct n as [|n]; [cbn in Hn; lia|]. inversion Hs as [|x y [Hx1 Hx2] Hy]; subst.
    cbn [rof_skip]. unfold f_nt at 1. rewrite Hr. cbn [app rd_at r_next].
    assert (Hm : forall (A : Type) (a b c d : A), match t_typ t with tokNewline => a | tokEOF => b | tokError => c | _ => d end = d).
    { intros A a b c d. unfold nonterm, is_terminal in Hx1. destruct (t_typ t); try reflexivity; try discriminate Hx1. congruence. }
    rewrite Hm.
    destruct (IH n (f_next f) e junk Hy He) as [f1 [E1 [E2 [E3 [E4 [E5 [E6 [E7 E8]]]]]]]].
    + unfold f_next. cbn [f_rd f_set_rd]. rewrite Hr.
      destruct sk as [|t2 sk']; cbn [app]; apply rnext_at; exact Hx1.
    + cbn [length] in Hn. lia.
    + exists f1. rewrite E1. split; [reflexivity|]. split; [exact E2|]. cbn in *. auto 10.
Qed.

Lemma step_rof symbols f :
  for_step symbols FRof f =
  match rof_skip (S (S (length (r_toks (f_rd f))))) f with
  | (f1, false) => Some (f1, None)
  | (f2, true) =>
    let body := emit_body (Z.to_nat (f_count f2)) (f_labels_at f2) (f_count_label f2) (f_line_labels f2) (f_content f2) in
    Some (f_send f2 body, Some FEmitConsumeStream)
  end.
Proof. reflexivity. Qed.
Lemma step_stream symbols f :
  for_step symbols FEmitConsumeStream f = Some (stream_loop (S (S (length (r_toks (f_rd f))))) f, None).
Proof. reflexivity. Qed.

(* ---------- what forRof sends for the block ---------- *)
Lemma emit_first_none cl ll labs body : forall j, emit_first j None labs cl ll body = map (subst_body cl ll 1) body.
Proof. induction body as [|t r IH]; intros j; cbn [emit_first map app]; [reflexivity|]. rewrite IH. reflexivity. Qed.
Lemma emit_first_past cl ll labs body : forall j a, (a < j)%nat ->
  emit_first j (Some a) labs cl ll body = map (subst_body cl ll 1) body.
Proof.
  induction body as [|t r IH]; intros j a H; cbn [emit_first map]; [reflexivity|].
  destruct (Nat.eqb_spec a j); [lia|]. cbn [app]. rewrite IH by lia. reflexivity.
Qed.
(* the labels stand in front of the token at index a of the first iteration *)
Lemma emit_first_at cl ll labs body : forall j a, (j <= a)%nat -> (a - j < length body)%nat ->
  emit_first j (Some a) labs cl ll body =
  map (subst_body cl ll 1) (firstn (a - j) body) ++ labs ++ map (subst_body cl ll 1) (skipn (a - j) body).
Proof.
  induction body as [|t r IH]; intros j a Hj Hl; [cbn in Hl; lia|].
  cbn [emit_first]. destruct (Nat.eqb_spec a j) as [->|Hne].
  - replace (j - j)%nat with O by lia. cbn [firstn skipn map app]. rewrite emit_first_past by lia. reflexivity.
  - destruct (a - j)%nat as [|k] eqn:Ek; [lia|]. cbn [firstn skipn map app]. cbn [length] in Hl.
    rewrite (IH (S j) a) by lia. replace (a - S j)%nat with k by lia. reflexivity.
Qed.
(* count >= 1: the first iteration carries the labels, iterations 2 .. count are plain *)
Lemma emit_body_unroll n at_ cl ll body :
  emit_body (S n) at_ cl ll body =
  emit_first 0 at_ (map (mkT tokText) ll) cl ll body
  ++ flat_map (fun j => map (subst_body cl ll j) body) (nseq 2 n).
Proof. unfold emit_body. rewrite repeat_body_unroll. reflexivity. Qed.
(* without block labels the block is the body written out count times *)
Lemma emit_body_plain n cl body :
  emit_body n None cl [] body = flat_map (fun j => map (subst_body cl [] j) body) (nseq 1 n).
Proof.
  destruct n as [|n]; [reflexivity|]. rewrite emit_body_unroll, emit_first_none, nseq_S. reflexivity.
Qed.

(* from the ROF line on: the unrolled body is sent, then the rest of the stream is copied *)
Theorem rof_phase symbols n f f' skip rest e junk :
  Forall (fun t => nonterm t /\ t_typ t <> tokNewline) skip -> Forall nonterm rest -> t_typ e = tokEOF ->
  f_rd f = rd_at (skip ++ mkT tokNewline [] :: rest ++ e :: junk) ->
  for_run symbols n FRof f = Some f' ->
  f_out f' = f_out f
             ++ emit_body (Z.to_nat (f_count f)) (f_labels_at f) (f_count_label f) (f_line_labels f) (f_content f)
             ++ rest.
Proof.
  intros Hs Hrest He Hr H.
  destruct n as [|n]; [discriminate|]. cbn [for_run] in H. rewrite step_rof in H.
  assert (Hl : (length skip < S (S (length (r_toks (f_rd f)))))%nat).
  { rewrite Hr. destruct skip as [|t sk]; cbn [app rd_at r_toks length]; [lia|]. rewrite app_length. cbn [length]. lia. }
  assert (Hne : rest ++ e :: junk <> []) by (destruct rest; discriminate).
  destruct (rof_skip_line skip _ f (rest ++ e :: junk) Hs Hr Hne Hl) as [f2 [E1 [R2 [E3 [E4 [E5 [E6 [E7 E8]]]]]]]].
  rewrite E1 in H. cbv zeta in H. destruct n as [|n]; [discriminate|]. cbn [for_run] in H. rewrite step_stream in H.
  match type of H with Some ?a = Some _ => assert (Ef : a = f') by congruence end. rewrite <- Ef. clear H Ef.
  set (body := emit_body _ _ _ _ _).
  rewrite (stream_copy rest _ (f_send f2 body) e junk Hrest He).
  - cbn [f_out f_send]. rewrite E3. unfold body. rewrite E4, E5, E6, E7, E8.
    rewrite <- app_assoc. reflexivity.
  - cbn [f_rd f_send]. exact R2.
  - cbn [f_rd f_send]. rewrite R2. destruct rest as [|t2 r']; cbn [app rd_at r_toks length]; [lia|]. rewrite app_length. cbn [length]. lia.
Qed.
(* the same when the rof line is the last line of the input and has no newline: the block is still closed *)
Theorem rof_phase_eof symbols n f f' skip e junk :
  Forall (fun t => nonterm t /\ t_typ t <> tokNewline) skip -> t_typ e = tokEOF ->
  f_rd f = rd_at (skip ++ e :: junk) ->
  for_run symbols n FRof f = Some f' ->
  f_out f' = f_out f
             ++ emit_body (Z.to_nat (f_count f)) (f_labels_at f) (f_count_label f) (f_line_labels f) (f_content f).
Proof.
  intros Hs He Hr H.
  destruct n as [|n]; [discriminate|]. cbn [for_run] in H. rewrite step_rof in H.
  assert (Hl : (length skip < S (S (length (r_toks (f_rd f)))))%nat).
  { rewrite Hr. destruct skip as [|t sk]; cbn [app rd_at r_toks length]; [lia|]. rewrite app_length. cbn [length]. lia. }
  destruct (rof_skip_eof skip _ f e junk Hs He Hr Hl) as [f2 [E1 [R2 [E3 [E4 [E5 [E6 [E7 E8]]]]]]]].
  rewrite E1 in H. cbv zeta in H. destruct n as [|n]; [discriminate|]. cbn [for_run] in H. rewrite step_stream in H.
  match type of H with Some ?a = Some _ => assert (Ef : a = f') by congruence end. rewrite <- Ef. clear H Ef.
  set (body := emit_body _ _ _ _ _).
  rewrite (stream_copy [] _ (f_send f2 body) e junk ltac:(constructor) He).
  - cbn [f_out f_send]. rewrite E3, app_nil_r. unfold body. rewrite E4, E5, E6, E7, E8. reflexivity.
  - cbn [f_rd f_send app]. exact R2.
  - cbn [length]. lia.
Qed.

(* ---------- the FOR line: counter, block labels, count ---------- *)
Lemma step_for symbols f v :
  expand_and_evaluate (f_expr f) symbols = Some (EOk v) ->
  exists f1, for_step symbols FFor f = Some (f1, Some FInnerLine) /\
    f_count f1 = v /\ f_count_label f1 = last (f_labels f) [] /\ f_line_labels f1 = init_list (f_labels f) /\
    f_labels_at f1 = None /\
    f_content f1 = [] /\ f_out f1 = f_out f /\ f_rd f1 = f_rd f.
Proof. intros H. cbn [for_step]. rewrite H. eexists. split; [reflexivity|]. cbn. auto 10. Qed.

(* the place of the block labels is fixed by the first line of the body itself (not of a nested block) that
   is an instruction: nothing is sent then, the position in the collected body is remembered *)
Lemma step_block_labels symbols f :
  t_typ (f_nt f) = tokText -> tok_is_pseudo (f_nt f) = false -> tok_is_op (f_nt f) = true ->
  f_depth f = O -> f_labels_at f = None ->
  exists f1, for_step symbols FInnerLabels f = Some (f1, Some FInnerEmitLabels) /\
    f_labels_at f1 = Some (length (f_content f)) /\
    f_out f1 = f_out f /\ f_rd f1 = f_rd f /\ f_content f1 = f_content f /\ f_labels f1 = f_labels f.
Proof.
  intros H1 H2 H3 H4 H5. cbn [for_step]. rewrite H1, H2, H3. unfold f_mark. rewrite H4, H5.
  eexists. split; [reflexivity|]. cbn. auto 10.
Qed.
(* ... or the header of a nested block, whose labels they then become *)
Lemma step_block_labels_nested symbols f :
  t_typ (f_nt f) = tokText -> lower_is (t_val (f_nt f)) "for" = true ->
  f_depth f = O -> f_labels_at f = None ->
  exists f1, for_step symbols FInnerLabels f = Some (f1, Some FInnerEmitLabels) /\
    f_labels_at f1 = Some (length (f_content f)) /\ f_depth f1 = 1%nat /\
    f_out f1 = f_out f /\ f_rd f1 = f_rd f /\ f_content f1 = f_content f /\ f_labels f1 = f_labels f.
Proof.
  intros H1 H2 H4 H5. cbn [for_step]. rewrite H1.
  assert (Hp : tok_is_pseudo (f_nt f) = true).
  { unfold tok_is_pseudo, is_pseudo_text. unfold lower_is in H2. rewrite H2. rewrite !orb_true_r. reflexivity. }
  rewrite Hp, H2. unfold f_mark. rewrite H4, H5. eexists. split; [reflexivity|]. cbn. auto 10.
Qed.
(* once fixed, or inside a nested block, the place does not move *)
Lemma step_block_labels_done symbols f :
  t_typ (f_nt f) = tokText -> tok_is_pseudo (f_nt f) = false -> tok_is_op (f_nt f) = true ->
  (f_depth f <> O \/ f_labels_at f <> None) ->
  for_step symbols FInnerLabels f = Some (f, Some FInnerEmitLabels).
Proof.
  intros H1 H2 H3 H4. cbn [for_step]. rewrite H1, H2, H3. unfold f_mark.
  destruct (f_depth f); [|reflexivity]. destruct (f_labels_at f); [reflexivity|]. destruct H4; congruence.
Qed.
(* a colon after a label of a body line is dropped *)
Lemma step_inner_colon symbols f :
  t_typ (f_nt f) = tokColon -> for_step symbols FInnerLabels f = Some (f_next f, Some FInnerLabels).
Proof. intros H. cbn [for_step]. rewrite H. reflexivity. Qed.
