(* InvSim.v — the simulator invariant of C04 and its preservation by creation,
   AddWarrior, SpawnWarrior and RunCycle, for every accepted configuration. *)
From GM Require Import Base Exec Sim Emi94 VmArith C01Phase QueueProof InvExec.
From Coq Require Import Lia ZifyN ZifyBool ZifyNat.
Open Scope N_scope.

Definition alive_count (ws : list warrior) : nat := length (filter alive ws).

Definition w_inv (M P : N) (w : warrior) : Prop :=
  Forall (wf_i M) (w_code w) /\
  match w_state w with
  | WAlive => exists q, w_pq w = Some q /\ rq_wf q /\ q_size q = P /\ 0 < q_len q /\
                        Forall (fun x => x < M) (rq_values q)
  | WDead => exists q, w_pq w = Some q /\ rq_wf q /\ q_size q = P /\ q_len q = 0
  | WAdded => True        (* after Reset the old queue object is still attached *)
  end.

Definition Inv (s : sim) : Prop :=
  3 <= s_m s /\ 1 <= s_procs s /\ 1 <= s_cycles s < two64 /\
  cwf (s_m s) (s_mem s) /\
  Forall (w_inv (s_m s) (s_procs s)) (s_ws s) /\
  s_living s = Z.of_nat (alive_count (s_ws s)) /\
  s_cycle s <= s_cycles s.

(* what C04 lists, read off the observables *)
Definition queue_ok (M P : N) (w : warrior) : Prop :=
  N.of_nat (length (w_queue w)) <= P /\ Forall (fun x => x < M) (w_queue w) /\
  (alive w = true <-> w_queue w <> []).

(* no warrior is in the window between Reset and its re-spawn *)
Definition fresh_w (w : warrior) : Prop := w_state w = WAdded -> w_pq w = None.

Lemma w_inv_queue_ok M P w : w_inv M P w -> fresh_w w -> queue_ok M P w.
Proof.
  unfold w_inv, queue_ok, w_queue, alive, fresh_w. intros [_ H] Hf.
  destruct (w_state w).
  - rewrite (Hf eq_refl). cbn. split; [lia|]. split; [constructor|]. split; [discriminate|congruence].
  - destruct H as (q & -> & Hq & Hs & Hl & Hv).
    rewrite rq_values_length. destruct Hq as (? & ? & ? & ?).
    split; [lia|]. split; [assumption|]. split; [|reflexivity].
    intros _ E. apply (f_equal (@length N)) in E. rewrite rq_values_length in E. cbn in E. lia.
  - destruct H as (q & -> & Hq & Hs & Hl).
    assert (E : rq_values q = []).
    { apply length_zero_iff_nil. rewrite rq_values_length. lia. }
    rewrite E. cbn. split; [lia|]. split; [constructor|]. split; [discriminate|congruence].
Qed.

(* ---------- creation ---------- *)
Lemma new_sim_inv c : c_cycles c < two64 -> new_sim c = None \/ exists s, new_sim c = Some s /\ Inv s.
Proof.
  intros Hcy. unfold new_sim. destruct (validate c) eqn:V; [|auto].
  right. eexists. split; [reflexivity|].
  unfold validate in V.
  repeat match type of V with (_ && _)%bool = true => apply andb_prop in V; destruct V as [V ?] end.
  unfold Inv. cbn.
  repeat match goal with H : negb (_ <? _) = true |- _ => apply negb_true_iff, N.ltb_ge in H end.
  split; [lia|]. split; [lia|]. split; [lia|].
  split; [intros x _; rewrite get_empty; unfold wf_i; cbn; lia|].
  split; [constructor|]. split; [reflexivity|lia].
Qed.

(* ---------- list_set bookkeeping ---------- *)
Lemma list_set_Forall {A} (P : A -> Prop) l i x :
  Forall P l -> P x -> Forall P (list_set l i x).
Proof.
  revert i. induction l as [|h t IH]; intros i Hl Hx; [destruct i; constructor|].
  inversion Hl; subst. destruct i; cbn; constructor; auto.
Qed.
Lemma list_set_length {A} (l : list A) i x : length (list_set l i x) = length l.
Proof. revert i. induction l as [|h t IH]; intros [|i]; cbn; auto. Qed.
Lemma nth_error_list_set_eq {A} (l : list A) i x w :
  nth_error l i = Some w -> nth_error (list_set l i x) i = Some x.
Proof. revert i. induction l as [|h t IH]; intros [|i] H; cbn in *; try discriminate; auto. Qed.
Lemma nth_error_list_set_ne {A} (l : list A) i j x :
  i <> j -> nth_error (list_set l i x) j = nth_error l j.
Proof.
  revert i j. induction l as [|h t IH]; intros [|i] [|j] H; cbn; auto; try congruence.
Qed.
Lemma alive_count_set l i w w' :
  nth_error l i = Some w ->
  Z.of_nat (alive_count (list_set l i w')) =
  (Z.of_nat (alive_count l) - (if alive w then 1 else 0) + (if alive w' then 1 else 0))%Z.
Proof.
  unfold alive_count. revert i. induction l as [|h t IH]; intros [|i] H; cbn in *; try discriminate.
  - inversion H; subst. destruct (alive w), (alive w'); cbn [length]; lia.
  - specialize (IH i H). destruct (alive h); cbn [length]; lia.
Qed.

(* ---------- AddWarrior ---------- *)
Lemma add_warrior_inv s code start :
  Inv s -> Forall (wf_i (s_m s)) code -> Inv (add_warrior s code start).
Proof.
  intros (A & B & C & D & E & F & G) Hcode. unfold Inv, add_warrior. cbn.
  do 4 (split; [assumption|]). split; [|split; [|assumption]].
  - apply Forall_app. split; [assumption|]. constructor; [|constructor]. split; [assumption|exact I].
  - unfold alive_count. rewrite filter_app, app_length. cbn. unfold alive_count in F. lia.
Qed.

(* ---------- SpawnWarrior ---------- *)
Lemma load_code_cwf M c off i code :
  0 < M -> cwf M c -> Forall (wf_i M) code -> cwf M (load_code M c off i code).
Proof.
  intros HM. revert c i. induction code as [|x t IH]; intros c i Hc Hf; cbn; [assumption|].
  inversion Hf; subst. apply IH; [|assumption]. apply cwf_set; assumption.
Qed.

Lemma spawn_inv s wi off :
  Inv s ->
  match spawn_warrior s wi off with
  | Panic => False
  | Ok (inr _) => True
  | Ok (inl (s', _)) => Inv s'
  end.
Proof.
  intros (A & B & C & D & E & F & G). unfold spawn_warrior.
  destruct ((wi <? 0)%Z || (wcount s <=? wi)%Z)%bool eqn:Hb; [exact I|].
  apply orb_false_iff in Hb. destruct Hb as [H0 H1].
  apply Z.ltb_ge in H0. apply Z.leb_gt in H1. unfold wcount in H1.
  unfold windex. destruct (wi <? 0)%Z eqn:H0'; [apply Z.ltb_lt in H0'; lia|].
  destruct (nth_error (s_ws s) (Z.to_nat wi)) as [w|] eqn:Hn;
    [|apply nth_error_None in Hn; lia].
  pose proof (proj1 (Forall_forall _ _) E w (nth_error_In _ _ Hn)) as [Hcode Hw].
  destruct (w_state w) eqn:Hst; [|exact I|].
  all: cbv zeta; set (off' := off mod s_m s);
       set (pcv := (add64 off' (z2u64 (w_start w))) mod s_m s);
       assert (Hpcv : pcv < s_m s) by (apply N.mod_lt; lia).
  all: unfold Inv; cbn [s_m s_procs s_cycles s_mem s_ws s_living s_cycle set_w with_mem with_ws with_living];
       split; [assumption|]; split; [assumption|]; split; [assumption|];
       split; [apply load_code_cwf; [lia|assumption|assumption]|];
       split; [|split; [|assumption]].
  all: try (apply list_set_Forall; [assumption|]; split; [assumption|]; cbn [w_state w_pq];
            eexists; split; [reflexivity|];
            pose proof (rq_new_wf (s_procs s) B) as Hnw;
            destruct (rq_push_wf (rq_new (s_procs s)) pcv Hnw) as [Hpw Hps];
            split; [assumption|]; split; [rewrite Hps; reflexivity|];
            pose proof (rq_push_values (rq_new (s_procs s)) pcv Hnw) as Hv;
            rewrite rq_new_values in Hv; cbn [length] in Hv;
            assert (Hlt : (N.of_nat 0 <? q_size (rq_new (s_procs s))) = true)
              by (apply N.ltb_lt; cbn; lia);
            rewrite Hlt in Hv; cbn [app] in Hv;
            split; [pose proof (rq_values_length (rq_push (rq_new (s_procs s)) pcv)) as Hl;
                    rewrite Hv in Hl; cbn [length] in Hl; lia
                   | rewrite Hv; constructor; [assumption|constructor]]).
  all: rewrite (alive_count_set _ _ w _ Hn); unfold alive; rewrite Hst; cbn [w_state]; lia.
Qed.

(* ---------- RunCycle ---------- *)
Lemma enq_Forall (Q : N -> Prop) P q xs : Forall Q q -> Forall Q xs -> Forall Q (enq P q xs).
Proof.
  unfold enq. revert q. induction xs as [|x xs IH]; intros q Hq Hx; cbn [fold_left]; [assumption|].
  inversion Hx; subst. apply IH; [|assumption].
  destruct (_ <? _); [|assumption]. apply Forall_app. split; [assumption|]. constructor; [assumption|constructor].
Qed.

Lemma cycle_loop_inv k : forall i s reps,
  Inv s ->
  match cycle_loop k i s reps with
  | Panic => False
  | Ok (s', _, _) => Inv s' /\ s_cycle s' = s_cycle s /\ s_cycles s' = s_cycles s /\
                     length (s_ws s') = length (s_ws s)
  end.
Proof.
  induction k as [|k IH]; intros i s reps HI; cbn [cycle_loop]; [auto|].
  destruct (nth_error (s_ws s) i) as [w|] eqn:Hn; [|auto].
  pose proof HI as (A & B & C & D & E & F & G).
  pose proof (proj1 (Forall_forall _ _) E w (nth_error_In _ _ Hn)) as [Hcode Hw].
  destruct (w_state w) eqn:Hst; try (apply IH; assumption).
  destruct Hw as (q & Hpq & Hq & Hs & Hl & Hv). rewrite Hpq.
  pose proof (rq_pop_spec q Hq) as Hpop.
  destruct (rq_pop q) as [[pc q1]|] eqn:Hp.
  2:{ unfold rq_pop in Hp. destruct (N.eqb_spec (q_len q) 0); [lia|discriminate]. }
  destruct Hpop as (Hvals & Hq1 & Hs1).
  rewrite Hvals in Hv. inversion Hv as [|? ? Hpc Hv1]; subst.
  destruct (N.leb_spec (s_m s) pc); [lia|].
  assert (HM0 : 0 < s_m s) by lia.
  pose proof (exec_inv (s_m s) (s_rl s) (s_wl s) (Z.of_nat i) HM0 (s_mem s) pc D Hpc) as EI.
  destruct (exec (s_m s) (s_rl s) (s_wl s) (Z.of_nat i) (s_mem s) pc) as [[c' pushes] ereps].
  destruct EI as [Hc' Hpush].
  destruct (rq_pushes q1 pushes Hq1) as (Hq2 & Hs2 & Hv2).
  set (q2 := fold_left rq_push pushes q1) in *.
  assert (Hv2' : Forall (fun x => x < s_m s) (rq_values q2))
    by (rewrite Hv2; apply enq_Forall; assumption).
  destruct (N.eqb_spec (q_len q2) 0) as [Hz|Hz].
  - (* the warrior dies *)
    set (s2 := with_living (set_w (with_mem s c') i (mkW (w_code w) (w_start w) WDead (Some q2))) (s_living s - 1)%Z).
    assert (HI2 : Inv s2).
    { unfold Inv, s2. cbn [s_m s_procs s_cycles s_mem s_ws s_living s_cycle set_w with_mem with_ws with_living].
      do 4 (split; [assumption|]). split; [|split; [|assumption]].
      - apply list_set_Forall; [assumption|]. split; [assumption|]. cbn [w_state w_pq].
        exists q2. split; [reflexivity|]. split; [assumption|]. split; [congruence|assumption].
      - rewrite (alive_count_set _ _ w _ Hn). unfold alive. rewrite Hst. cbn [w_state]. lia. }
    assert (Hlen : length (s_ws s2) = length (s_ws s))
      by (unfold s2; cbn [s_ws set_w with_mem with_ws with_living]; apply list_set_length).
    destruct ((1 <? wcount s)%Z && (s_living s - 1 =? 1)%Z)%bool.
    + split; [exact HI2|]. split; [reflexivity|]. split; [reflexivity|exact Hlen].
    + match goal with |- context [cycle_loop k (S i) s2 ?r] => specialize (IH (S i) s2 r HI2) end.
      destruct (cycle_loop k (S i) s2 _) as [[[s' r] rp]|]; [|assumption].
      destruct IH as (I1 & I2 & I3 & I4). split; [exact I1|]. split; [rewrite I2; reflexivity|]. split; [rewrite I3; reflexivity|congruence].
  - (* the warrior lives on *)
    set (s2 := set_w (with_mem s c') i (mkW (w_code w) (w_start w) WAlive (Some q2))).
    assert (HI2 : Inv s2).
    { unfold Inv, s2. cbn [s_m s_procs s_cycles s_mem s_ws s_living s_cycle set_w with_mem with_ws with_living].
      do 4 (split; [assumption|]). split; [|split; [|assumption]].
      - apply list_set_Forall; [assumption|]. split; [assumption|]. cbn [w_state w_pq].
        exists q2. split; [reflexivity|]. split; [assumption|]. split; [congruence|]. split; [lia|assumption].
      - rewrite (alive_count_set _ _ w _ Hn). unfold alive. rewrite Hst. cbn [w_state]. lia. }
    assert (Hlen : length (s_ws s2) = length (s_ws s))
      by (unfold s2; cbn [s_ws set_w with_mem with_ws]; apply list_set_length).
    match goal with |- context [cycle_loop k (S i) s2 ?r] => specialize (IH (S i) s2 r HI2) end.
    destruct (cycle_loop k (S i) s2 _) as [[[s' r] rp]|]; [|assumption].
    destruct IH as (I1 & I2 & I3 & I4). split; [exact I1|]. split; [rewrite I2; reflexivity|]. split; [rewrite I3; reflexivity|congruence].
Qed.

(* one iteration of the warrior loop, as facts: the popped program counter is an
   address, and both possible successor states satisfy the invariant *)
Lemma task_iteration s i w q :
  Inv s -> nth_error (s_ws s) i = Some w -> w_state w = WAlive -> w_pq w = Some q ->
  exists pc q1,
    rq_pop q = Some (pc, q1) /\ pc < s_m s /\
    let '(c', pushes, _) := exec (s_m s) (s_rl s) (s_wl s) (Z.of_nat i) (s_mem s) pc in
    let q2 := fold_left rq_push pushes q1 in
    (q_len q2 = 0 ->
       Inv (with_living (set_w (with_mem s c') i (mkW (w_code w) (w_start w) WDead (Some q2))) (s_living s - 1)%Z)) /\
    (q_len q2 <> 0 ->
       Inv (set_w (with_mem s c') i (mkW (w_code w) (w_start w) WAlive (Some q2)))).
Proof.
  intros HI Hn Hst Hpq.
  pose proof HI as (A & B & C & D & E & F & G).
  pose proof (proj1 (Forall_forall _ _) E w (nth_error_In _ _ Hn)) as [Hcode Hw].
  rewrite Hst in Hw. destruct Hw as (q' & Hpq' & Hq & Hs & Hl & Hv).
  rewrite Hpq in Hpq'. inversion Hpq'; subst q'.
  pose proof (rq_pop_spec q Hq) as Hpop.
  destruct (rq_pop q) as [[pc q1]|] eqn:Hp.
  2:{ unfold rq_pop in Hp. destruct (N.eqb_spec (q_len q) 0); [lia|discriminate]. }
  destruct Hpop as (Hvals & Hq1 & Hs1).
  rewrite Hvals in Hv. pose proof (Forall_inv Hv) as Hpc. pose proof (Forall_inv_tail Hv) as Hv1. cbv beta in Hpc.
  exists pc, q1. split; [reflexivity|]. split; [assumption|].
  assert (HM0 : 0 < s_m s) by lia.
  pose proof (exec_inv (s_m s) (s_rl s) (s_wl s) (Z.of_nat i) HM0 (s_mem s) pc D Hpc) as EI.
  destruct (exec (s_m s) (s_rl s) (s_wl s) (Z.of_nat i) (s_mem s) pc) as [[c' pushes] ereps].
  destruct EI as [Hc' Hpush].
  destruct (rq_pushes q1 pushes Hq1) as (Hq2 & Hs2 & Hv2).
  cbv zeta. set (q2 := fold_left rq_push pushes q1) in *.
  assert (Hv2' : Forall (fun x => x < s_m s) (rq_values q2))
    by (rewrite Hv2; apply enq_Forall; assumption).
  split; intros Hz.
  - unfold Inv. cbn [s_m s_procs s_cycles s_mem s_ws s_living s_cycle set_w with_mem with_ws with_living].
    do 4 (split; [assumption|]). split; [|split; [|assumption]].
    + apply list_set_Forall; [assumption|]. split; [assumption|]. cbn [w_state w_pq].
      exists q2. split; [reflexivity|]. split; [assumption|]. split; [congruence|assumption].
    + rewrite (alive_count_set _ _ w _ Hn). unfold alive. rewrite Hst. cbn [w_state]. lia.
  - unfold Inv. cbn [s_m s_procs s_cycles s_mem s_ws s_living s_cycle set_w with_mem with_ws with_living].
    do 4 (split; [assumption|]). split; [|split; [|assumption]].
    + apply list_set_Forall; [assumption|]. split; [assumption|]. cbn [w_state w_pq].
      exists q2. split; [reflexivity|]. split; [assumption|]. split; [congruence|]. split; [lia|assumption].
    + rewrite (alive_count_set _ _ w _ Hn). unfold alive. rewrite Hst. cbn [w_state]. lia.
Qed.

Theorem run_cycle_inv s :
  Inv s ->
  match run_cycle s with
  | Panic => False
  | Ok (s', _, _) => Inv s' /\ length (s_ws s') = length (s_ws s)
  end.
Proof.
  intros HI. unfold run_cycle.
  destruct ((s_cycles s <=? s_cycle s) || (s_living s <? 1)%Z)%bool eqn:E1; [auto|].
  destruct ((1 <? wcount s)%Z && (s_living s <? 2)%Z)%bool; [auto|].
  apply orb_false_iff in E1. destruct E1 as [E1 _]. apply N.leb_gt in E1.
  pose proof (cycle_loop_inv (length (s_ws s)) 0 s [mkR CycleStart (Z.of_N (s_cycle s)) 0 0] HI) as L.
  destruct (cycle_loop _ _ _ _) as [[[s' [r|]] reps]|]; [|destruct L as (L1 & L2 & L3 & L4)|assumption].
  - destruct L as (L1 & _ & _ & L4). auto.
  - split; [|assumption].
    destruct L1 as (A & B & C & D & E & F & G).
    unfold Inv. cbn [s_m s_procs s_cycles s_mem s_ws s_living s_cycle with_cycle].
    do 6 (split; [assumption|]).
    rewrite add64_small by lia. lia.
Qed.

(* ---------- Run ---------- *)
Lemma run_loop_inv fuel : forall s,
  Inv s ->
  match run_loop fuel s with
  | RunPanic => False
  | RunOutOfFuel => True
  | RunOk s' _ => Inv s' /\ length (s_ws s') = length (s_ws s)
  end.
Proof.
  induction fuel as [|f IH]; intros s HI; cbn [run_loop].
  - destruct (s_cycles s <=? s_cycle s); auto.
  - destruct (s_cycles s <=? s_cycle s); [auto|].
    pose proof (run_cycle_inv s HI) as R.
    destruct (run_cycle s) as [[[s' a] reps]|]; [|assumption].
    destruct R as [HI' Hl].
    destruct (_ || _)%bool; [auto|].
    specialize (IH s' HI'). destruct (run_loop f s'); auto.
    destruct IH. split; [assumption|congruence].
Qed.

Lemma run_inv fuel s :
  Inv s ->
  match run fuel s with
  | RunPanic => False
  | RunOutOfFuel => True
  | RunOk s' _ => Inv s' /\ length (s_ws s') = length (s_ws s)
  end.
Proof.
  intros HI. unfold run. destruct (s_ws s) eqn:E; [rewrite E; auto|].
  rewrite <- E. apply run_loop_inv. assumption.
Qed.

(* the configuration part of the state never changes *)
Definition same_cfg (s s' : sim) : Prop :=
  s_m s' = s_m s /\ s_procs s' = s_procs s /\ s_cycles s' = s_cycles s /\
  s_rl s' = s_rl s /\ s_wl s' = s_wl s.
Lemma same_cfg_refl s : same_cfg s s.
Proof. unfold same_cfg. auto. Qed.
Lemma same_cfg_trans s1 s2 s3 : same_cfg s1 s2 -> same_cfg s2 s3 -> same_cfg s1 s3.
Proof. unfold same_cfg. intros (A & B & C & D & E) (A' & B' & C' & D' & E'). repeat split; congruence. Qed.

Ltac scfg := unfold same_cfg in *;
  cbn [s_m s_procs s_cycles s_rl s_wl set_w with_mem with_ws with_living with_cycle] in *; auto.

Lemma cycle_loop_m k : forall i s reps,
  match cycle_loop k i s reps with Panic => True | Ok (s', _, _) => same_cfg s s' end.
Proof.
  induction k as [|k IH]; intros i s reps; cbn [cycle_loop]; [apply same_cfg_refl|].
  destruct (nth_error (s_ws s) i) as [w|]; [|apply same_cfg_refl].
  destruct (w_state w); try apply IH.
  destruct (w_pq w) as [q|]; [|exact I].
  destruct (rq_pop q) as [[pc q1]|].
  2:{ match goal with |- context [cycle_loop k ?i ?s ?r] => specialize (IH i s r) end.
      destruct (cycle_loop k _ _ _) as [[[? ?] ?]|]; scfg. }
  destruct (s_m s <=? pc); [exact I|].
  destruct (exec _ _ _ _ _ _) as [[c' pushes] ereps].
  destruct (q_len _ =? 0).
  - destruct (_ && _)%bool; [scfg|].
    match goal with |- context [cycle_loop k ?i ?s ?r] => specialize (IH i s r) end.
    destruct (cycle_loop k _ _ _) as [[[? ?] ?]|]; scfg.
  - match goal with |- context [cycle_loop k ?i ?s ?r] => specialize (IH i s r) end.
    destruct (cycle_loop k _ _ _) as [[[? ?] ?]|]; scfg.
Qed.
Lemma run_cycle_m s :
  match run_cycle s with Panic => True | Ok (s', _, _) => same_cfg s s' end.
Proof.
  unfold run_cycle. destruct (_ || _)%bool; [apply same_cfg_refl|]. destruct (_ && _)%bool; [apply same_cfg_refl|].
  pose proof (cycle_loop_m (length (s_ws s)) 0 s [mkR CycleStart (Z.of_N (s_cycle s)) 0 0]) as L.
  destruct (cycle_loop _ _ _ _) as [[[s' [r|]] reps]|]; scfg.
Qed.
Lemma run_loop_m fuel : forall s,
  match run_loop fuel s with RunOk s' _ => same_cfg s s' | _ => True end.
Proof.
  induction fuel as [|f IH]; intros s; cbn [run_loop].
  - destruct (s_cycles s <=? s_cycle s); [apply same_cfg_refl|exact I].
  - destruct (s_cycles s <=? s_cycle s); [apply same_cfg_refl|].
    pose proof (run_cycle_m s) as R.
    destruct (run_cycle s) as [[[s' a] reps]|]; [|exact I].
    destruct (_ || _)%bool; [assumption|].
    specialize (IH s'). destruct (run_loop f s'); auto. eapply same_cfg_trans; eassumption.
Qed.

(* ---------- any sequence of battle operations ---------- *)
Inductive bop :=
| BAdd (code : list instr) (start : Z)
| BSpawn (wi : Z) (off : N)
| BCycle
| BRun (fuel : nat).

Definition bstep (s : sim) (o : bop) : res sim :=
  match o with
  | BAdd code start => Ok (add_warrior s code start)
  | BSpawn wi off => match spawn_warrior s wi off with
                     | Panic => Panic
                     | Ok (inl (s', _)) => Ok s'
                     | Ok (inr _) => Ok s
                     end
  | BCycle => match run_cycle s with Panic => Panic | Ok (s', _, _) => Ok s' end
  | BRun fuel => match run fuel s with
                 | RunPanic => Panic
                 | RunOutOfFuel => Ok s
                 | RunOk s' _ => Ok s'
                 end
  end.
Fixpoint bsteps (s : sim) (ops : list bop) : res sim :=
  match ops with
  | [] => Ok s
  | o :: t => match bstep s o with Panic => Panic | Ok s' => bsteps s' t end
  end.

Definition bop_wf (M : N) (o : bop) : Prop :=
  match o with BAdd code _ => Forall (wf_i M) code | _ => True end.

Lemma bstep_inv s o :
  Inv s -> bop_wf (s_m s) o ->
  match bstep s o with Panic => False | Ok s' => Inv s' /\ s_m s' = s_m s end.
Proof.
  intros HI Ho. destruct o as [code start|wi off| |fuel]; cbn [bstep].
  - split; [apply add_warrior_inv; assumption|reflexivity].
  - pose proof (spawn_inv s wi off HI) as S. unfold spawn_warrior in *.
    destruct ((wi <? 0)%Z || (wcount s <=? wi)%Z)%bool; [auto|].
    destruct (windex s wi) as [[i w]|]; [|assumption].
    destruct (w_state w); auto.
  - pose proof (run_cycle_inv s HI) as R. pose proof (run_cycle_m s) as Rm.
    destruct (run_cycle s) as [[[s' r] reps]|]; [|assumption].
    destruct R. destruct Rm. auto.
  - pose proof (run_inv fuel s HI) as R.
    assert (Rm : match run fuel s with RunOk s' _ => same_cfg s s' | _ => True end).
    { unfold run. destruct (s_ws s); [apply same_cfg_refl|]. apply run_loop_m. }
    destruct (run fuel s); auto. destruct R. destruct Rm. auto.
Qed.

Theorem bsteps_inv ops : forall s,
  Inv s -> Forall (bop_wf (s_m s)) ops ->
  match bsteps s ops with Panic => False | Ok s' => Inv s' end.
Proof.
  induction ops as [|o t IH]; intros s HI Hw; cbn [bsteps]; [assumption|].
  inversion Hw; subst.
  pose proof (bstep_inv s o HI ltac:(assumption)) as B.
  destruct (bstep s o) as [s'|]; [|assumption].
  destruct B as [HI' Hm]. apply IH; [assumption|]. rewrite Hm. assumption.
Qed.

(* what the invariant says about the observables the property lists *)
Theorem inv_observables s :
  Inv s -> Forall fresh_w (s_ws s) ->
  (forall a, a < s_m s -> i_a (get (s_mem s) a) < s_m s /\ i_b (get (s_mem s) a) < s_m s) /\
  Forall (queue_ok (s_m s) (s_procs s)) (s_ws s) /\
  s_cycle s <= s_cycles s /\
  s_living s = Z.of_nat (length (filter alive (s_ws s))).
Proof.
  intros (A & B & C & D & E & F & G) Hf.
  split; [exact D|]. split; [|split; [assumption|exact F]].
  apply Forall_forall. intros w Hw.
  apply w_inv_queue_ok; [exact (proj1 (Forall_forall _ _) E w Hw)|exact (proj1 (Forall_forall _ _) Hf w Hw)].
Qed.

(* "fresh" (no Reset happened) is kept by every battle operation *)
Lemma list_set_fresh l i w : Forall fresh_w l -> fresh_w w -> Forall fresh_w (list_set l i w).
Proof. apply list_set_Forall. Qed.

Lemma cycle_loop_fresh k : forall i s reps,
  Forall fresh_w (s_ws s) ->
  match cycle_loop k i s reps with Panic => True | Ok (s', _, _) => Forall fresh_w (s_ws s') end.
Proof.
  induction k as [|k IH]; intros i s reps Hf; cbn [cycle_loop]; [assumption|].
  destruct (nth_error (s_ws s) i) as [w|]; [|assumption].
  destruct (w_state w); try (apply IH; assumption).
  destruct (w_pq w) as [q|]; [|exact I].
  destruct (rq_pop q) as [[pc q1]|].
  2:{ apply IH. cbn [s_ws set_w with_ws]. apply list_set_fresh; [assumption|]. unfold fresh_w. cbn. discriminate. }
  destruct (s_m s <=? pc); [exact I|].
  destruct (exec _ _ _ _ _ _) as [[c' pushes] ereps].
  destruct (q_len _ =? 0).
  - match goal with |- context [if ?b then _ else _] => destruct b end.
    + cbn [s_ws set_w with_ws with_mem with_living]. apply list_set_fresh; [assumption|]. unfold fresh_w. cbn. discriminate.
    + apply IH. cbn [s_ws set_w with_ws with_mem with_living]. apply list_set_fresh; [assumption|]. unfold fresh_w. cbn. discriminate.
  - apply IH. cbn [s_ws set_w with_ws with_mem]. apply list_set_fresh; [assumption|]. unfold fresh_w. cbn. discriminate.
Qed.

Lemma run_cycle_fresh s :
  Forall fresh_w (s_ws s) ->
  match run_cycle s with Panic => True | Ok (s', _, _) => Forall fresh_w (s_ws s') end.
Proof.
  intros Hf. unfold run_cycle. destruct (_ || _)%bool; [assumption|]. destruct (_ && _)%bool; [assumption|].
  pose proof (cycle_loop_fresh (length (s_ws s)) 0 s [mkR CycleStart (Z.of_N (s_cycle s)) 0 0] Hf) as L.
  destruct (cycle_loop _ _ _ _) as [[[s' [r|]] reps]|]; auto.
Qed.

Lemma run_loop_fresh fuel : forall s,
  Forall fresh_w (s_ws s) ->
  match run_loop fuel s with RunOk s' _ => Forall fresh_w (s_ws s') | _ => True end.
Proof.
  induction fuel as [|f IH]; intros s Hf; cbn [run_loop].
  - destruct (s_cycles s <=? s_cycle s); auto.
  - destruct (s_cycles s <=? s_cycle s); [assumption|].
    pose proof (run_cycle_fresh s Hf) as R.
    destruct (run_cycle s) as [[[s' a] reps]|]; [|exact I].
    destruct (_ || _)%bool; [assumption|]. apply IH. assumption.
Qed.

Lemma bstep_fresh s o :
  Forall fresh_w (s_ws s) ->
  match bstep s o with Panic => True | Ok s' => Forall fresh_w (s_ws s') end.
Proof.
  intros Hf. destruct o as [code start|wi off| |fuel]; cbn [bstep].
  - cbn [add_warrior s_ws with_ws]. apply Forall_app. split; [assumption|].
    constructor; [|constructor]. unfold fresh_w. reflexivity.
  - unfold spawn_warrior. destruct (_ || _)%bool; [assumption|].
    destruct (windex s wi) as [[i w]|]; [|exact I].
    destruct (w_state w); try assumption;
      cbn [s_ws set_w with_ws with_mem with_living]; apply list_set_fresh; try assumption;
      unfold fresh_w; cbn; discriminate.
  - pose proof (run_cycle_fresh s Hf) as R. destruct (run_cycle s) as [[[s' r] reps]|]; auto.
  - unfold run. destruct (s_ws s) eqn:E; [rewrite E; constructor|]. rewrite <- E in *.
    pose proof (run_loop_fresh fuel s Hf) as R. destruct (run_loop fuel s); auto.
Qed.

Theorem bsteps_fresh ops : forall s,
  Forall fresh_w (s_ws s) ->
  match bsteps s ops with Panic => True | Ok s' => Forall fresh_w (s_ws s') end.
Proof.
  induction ops as [|o t IH]; intros s Hf; cbn [bsteps]; [assumption|].
  pose proof (bstep_fresh s o Hf) as B. destruct (bstep s o); [|exact I]. apply IH. assumption.
Qed.

(* non-vacuity: an accepted configuration, two hostile warriors, a wrapping spawn *)
Example inv_example :
  exists s0, new_sim (mkCfg 2 5 2 7 9 1 0 0) = Some s0 /\
  match bsteps s0 [BAdd [mkI SPL mB 0 DIRECT 4 B_DECREMENT; mkI DJN mX 4 A_INCREMENT 3 A_DECREMENT] 1;
                   BAdd [mkI MOV mI 0 DIRECT 1 DIRECT] 0;
                   BSpawn 0 4; BSpawn 1 12; BCycle; BCycle; BCycle; BRun 20] with
  | Ok s => s_cycle s = 1 /\ s_living s = 1%Z /\ map w_queue (s_ws s) = [[0; 4]; []]
  | Panic => False
  end.
Proof. eexists. split; [reflexivity|]. vm_compute. repeat split; reflexivity. Qed.
