(* C03Lexer.v — what the lexer (lex.go) makes of a text written as a sequence of
   lexemes: blanks only contribute their newlines, every other lexeme becomes its
   token, whatever the amount of white space between them. *)
From GM Require Import Base Text Token Lexer Scanner C05Lexer.
From Coq Require Import Lia ZifyBool ZifyN ZifyNat.
Open Scope N_scope.

Notation lstep := (lex_step is_space_a is_letter_a is_digit_a).
Notation lrun := (lex_run is_space_a is_letter_a is_digit_a).
Notation tchar := (text_char is_letter_a is_digit_a).

(* the lexer positioned on a non-empty text *)
Definition lx (s : text) : lexer := match s with c :: r => mkL r c false | [] => mkL [] 0 true end.
Lemma lnext_more c c2 r : lnext (lx (c :: c2 :: r)) = (c, false, lx (c2 :: r)).
Proof. reflexivity. Qed.
Lemma lnext_last c : lnext (lx [c]) = (c, true, mkL [] c true).
Proof. reflexivity. Qed.

Definition nl_tok := mkT tokNewline [].
Definition newlines (sp : text) : list token := flat_map (fun c => if c =? 10 then [nl_tok] else []) sp.

(* ---------- the inner loops ---------- *)
Lemma space_loop_run sp : forall f c rest out, Forall (fun x => is_space_a x = true) sp -> is_space_a c = false ->
  (length sp < f)%nat ->
  space_loop is_space_a f (lx (sp ++ c :: rest)) out = (out ++ newlines sp, Some LInput, lx (c :: rest)).
Proof.
  induction sp as [|x sp IH]; intros f c rest out Hs Hc Hf.
  - destruct f as [|f]; [lia|]. cbn [app space_loop lx l_nr]. rewrite Hc. cbn [newlines flat_map]. rewrite app_nil_r. reflexivity.
  - destruct f as [|f]; [cbn in Hf; lia|]. inversion Hs as [|y l Hx Hl]; subst.
    cbn [app space_loop]. unfold lx at 1. cbn [l_nr]. rewrite Hx.
    assert (E : lnext (lx (x :: sp ++ c :: rest)) = (x, false, lx (sp ++ c :: rest))).
    { destruct sp; reflexivity. }
    change (mkL (sp ++ c :: rest) x false) with (lx (x :: sp ++ c :: rest)). rewrite E.
    rewrite IH by (try assumption; cbn [length] in Hf; lia).
    cbn [newlines flat_map lx l_nr]. destruct (x =? 10); [rewrite <- app_assoc|]; reflexivity.
Qed.
Lemma space_loop_end sp : forall f out, Forall (fun x => is_space_a x = true) sp -> sp <> [] -> (length sp < f)%nat ->
  exists l', space_loop is_space_a f (lx sp) out = (out ++ newlines sp ++ [tEOF], None, l').
Proof.
  induction sp as [|x sp IH]; intros f out Hs Hne Hf; [congruence|].
  destruct f as [|f]; [cbn in Hf; lia|]. inversion Hs as [|y l Hx Hl]; subst.
  cbn [space_loop]. replace (l_nr (lx (x :: sp))) with x by reflexivity. rewrite Hx.
  destruct sp as [|x2 sp].
  - rewrite lnext_last. eexists. cbn [newlines flat_map app]. destruct (x =? 10); cbn [app]; rewrite <- ?app_assoc; reflexivity.
  - rewrite lnext_more.
    destruct (IH f (if x =? 10 then out ++ [nl_tok] else out) Hl ltac:(discriminate) ltac:(cbn [length] in *; lia)) as [l' A].
    exists l'. unfold nl_tok in A. rewrite A. cbn [newlines flat_map]. destruct (x =? 10); [rewrite <- !app_assoc|]; reflexivity.
Qed.

Lemma text_loop_run w : forall f c rest buf, Forall (fun x => tchar x = true) w -> tchar c = false ->
  (length w < f)%nat ->
  text_loop is_letter_a is_digit_a f (lx (w ++ c :: rest)) buf =
  ((match buf ++ w with [] => [] | _ => [mkT tokText (buf ++ w)] end), Some LInput, lx (c :: rest)).
Proof.
  induction w as [|x w IH]; intros f c rest buf Hs Hc Hf.
  - destruct f as [|f]; [lia|]. cbn [app text_loop lx l_nr]. rewrite Hc. rewrite app_nil_r. reflexivity.
  - destruct f as [|f]; [cbn in Hf; lia|]. inversion Hs as [|y l Hx Hl]; subst.
    cbn [app text_loop]. unfold lx at 1. cbn [l_nr]. rewrite Hx.
    assert (E : lnext (lx (x :: w ++ c :: rest)) = (x, false, lx (w ++ c :: rest))) by (destruct w; reflexivity).
    change (mkL (w ++ c :: rest) x false) with (lx (x :: w ++ c :: rest)). rewrite E.
    rewrite IH by (try assumption; cbn [length] in Hf; lia). rewrite <- app_assoc. reflexivity.
Qed.

Lemma digit_loop_run d : forall f c rest buf, Forall (fun x => is_digit_a x = true) d -> is_digit_a c = false ->
  (length d < f)%nat ->
  digit_loop is_digit_a f (lx (d ++ c :: rest)) buf =
  ([mkT tokNumber (match buf ++ d with [] => [48] | _ => buf ++ d end)], Some LInput, lx (c :: rest)).
Proof.
  induction d as [|x d IH]; intros f c rest buf Hs Hc Hf.
  - destruct f as [|f]; [lia|]. cbn [app digit_loop lx l_nr]. rewrite Hc. rewrite app_nil_r. reflexivity.
  - destruct f as [|f]; [cbn in Hf; lia|]. inversion Hs as [|y l Hx Hl]; subst.
    cbn [app digit_loop]. unfold lx at 1. cbn [l_nr]. rewrite Hx.
    assert (E : lnext (lx (x :: d ++ c :: rest)) = (x, false, lx (d ++ c :: rest))) by (destruct d; reflexivity).
    change (mkL (d ++ c :: rest) x false) with (lx (x :: d ++ c :: rest)). rewrite E.
    rewrite IH by (try assumption; cbn [length] in Hf; lia). rewrite <- app_assoc. reflexivity.
Qed.

Lemma comment_loop_run body : forall f rest buf, Forall (fun x => x <> 10) body -> (length body < f)%nat ->
  comment_loop f (lx (body ++ 10 :: rest)) buf = ([mkT tokComment (buf ++ body)], Some LInput, lx (10 :: rest)).
Proof.
  induction body as [|x body IH]; intros f rest buf Hs Hf.
  - destruct f as [|f]; [lia|]. cbn [app comment_loop lx l_nr]. rewrite app_nil_r. reflexivity.
  - destruct f as [|f]; [cbn in Hf; lia|]. inversion Hs as [|y l Hx Hl]; subst.
    cbn [app comment_loop]. unfold lx at 1. cbn [l_nr].
    destruct (N.eqb_spec x 10) as [->|_]; [congruence|].
    assert (E : lnext (lx (x :: body ++ 10 :: rest)) = (x, false, lx (body ++ 10 :: rest))) by (destruct body; reflexivity).
    change (mkL (body ++ 10 :: rest) x false) with (lx (x :: body ++ 10 :: rest)). rewrite E.
    rewrite IH by (try assumption; cbn [length] in Hf; lia). rewrite <- app_assoc. reflexivity.
Qed.

(* ---------- lexemes ---------- *)
Inductive piece :=
| PBlank (s : text) | PWord (w : text) | PNum (d : text) | PSym (c : N)
| PComma | PParL | PParR | PColon | PComment (body : text).

Definition ptext (p : piece) : text :=
  match p with
  | PBlank s => s | PWord w => w | PNum d => d | PSym c => [c]
  | PComma => [44] | PParL => [40] | PParR => [41] | PColon => [58] | PComment b => 59 :: b
  end.
Definition ptoks (p : piece) : list token :=
  match p with
  | PBlank s => newlines s
  | PWord w => [mkT tokText w]
  | PNum d => [mkT tokNumber d]
  | PSym c => [sym [c]]
  | PComma => [mkT tokComma [44]] | PParL => [mkT tokParenL [40]] | PParR => [mkT tokParenR [41]]
  | PColon => [mkT tokColon [58]]
  | PComment b => [mkT tokComment (59 :: b)]
  end.

Definition sym1 (c : N) : bool :=
  (c =? 43) || (c =? 45) || (c =? 42) || (c =? 47) || (c =? 37) || (c =? 36) || (c =? 35) || (c =? 64) || (c =? 123) || (c =? 125).

(* a lexeme is well placed when what follows it (its first character: next) cannot be taken for part of it *)
Definition piece_ok (p : piece) (next : N) : Prop :=
  match p with
  | PBlank s => s <> [] /\ Forall (fun x => is_space_a x = true) s /\ is_space_a next = false
  | PWord w => exists c0 w', w = c0 :: w' /\ (is_letter_a c0 || (c0 =? 95)) = true /\
                             Forall (fun x => tchar x = true) w' /\ tchar next = false
  | PNum d => exists c0 d', d = c0 :: d' /\ Forall (fun x => is_digit_a x = true) d /\ is_digit_a next = false /\
                            (c0 <> 48 \/ d' = [])
  | PSym c => sym1 c = true \/ ((c = 60 \/ c = 62) /\ next <> 61)
  | PComment b => Forall (fun x => x <> 10) b /\ next = 10
  | _ => True
  end.

Lemma lrun_mono f : forall st l out r, lrun f st l out = Some r -> lrun (S f) st l out = Some r.
Proof.
  induction f as [|f IH]; intros st l out r H; [discriminate|].
  cbn [lex_run] in *. destruct (lstep st l) as [[sent nxt] l']. destruct nxt as [st'|]; [|exact H].
  apply IH. exact H.
Qed.
Lemma lrun_mono_k k : forall f st l out r, lrun f st l out = Some r -> lrun (k + f) st l out = Some r.
Proof. induction k as [|k IH]; intros; [assumption|]. cbn [plus]. apply lrun_mono. apply IH. assumption. Qed.

Lemma sym1_cases c : sym1 c = true ->
  c = 43 \/ c = 45 \/ c = 42 \/ c = 47 \/ c = 37 \/ c = 36 \/ c = 35 \/ c = 64 \/ c = 123 \/ c = 125.
Proof. unfold sym1. lia. Qed.

Lemma length_inp_lx x s : length (l_inp (lx (x :: s))) = length s.
Proof. reflexivity. Qed.

Lemma zero_loop_one f next rest : (next =? 48) = false ->
  zero_loop (S (S f)) (lx (48 :: next :: rest)) = Some (lx (next :: rest)).
Proof. intros E. cbn [zero_loop lx l_nr N.eqb Pos.eqb lnext l_eof l_inp]. rewrite E. reflexivity. Qed.

(* one lexeme, followed by more text *)
Lemma piece_step p next rest out f r : piece_ok p next ->
  lrun f LInput (lx (next :: rest)) (out ++ ptoks p) = Some r ->
  lrun (2 + f) LInput (lx (ptext p ++ next :: rest)) out = Some r.
Proof.
  intros Hok H. destruct p as [s|w|d|c| | | | |b]; cbn [ptext ptoks piece_ok] in *.
  - (* blanks *)
    destruct Hok as [Hne [Hs Hn]]. apply lrun_mono. cbn [lex_run].
    destruct s as [|x s]; [congruence|]. inversion Hs as [|y l Hx Hl]; subst.
    cbn [app]. unfold lex_step. replace (l_nr (lx (x :: s ++ next :: rest))) with x by reflexivity. rewrite Hx.
    rewrite length_inp_lx.
    rewrite (space_loop_run (x :: s) _ next rest [] Hs Hn) by (cbn [length]; rewrite app_length; cbn [length]; lia).
    cbn [app]. exact H.
  - (* a word *)
    destruct Hok as [c0 [w' [-> [H0 [Hw Hn]]]]].
    assert (Hsp : is_space_a c0 = false).
    { unfold is_letter_a, is_upper_a, is_lower_a, is_space_a in *. lia. }
    cbn [plus lex_run]. unfold lex_step at 1. cbn [app]. replace (l_nr (lx (c0 :: w' ++ next :: rest))) with c0 by reflexivity.
    rewrite Hsp, H0. cbn [lex_run]. unfold lex_step at 1. rewrite length_inp_lx.
    assert (Ht : tchar c0 = true).
    { unfold text_char. apply orb_prop in H0. destruct H0 as [-> | ->]; [reflexivity|apply orb_true_r]. }
    rewrite (text_loop_run (c0 :: w') _ next rest []) by (try (constructor; assumption); try assumption; cbn [length]; rewrite app_length; cbn [length]; lia).
    cbn [app]. rewrite app_nil_r. exact H.
  - (* a number *)
    destruct Hok as [c0 [d' [-> [Hd [Hn Hz]]]]]. inversion Hd as [|y l Hc0 Hd']; subst.
    assert (Hcls : is_space_a c0 = false /\ (is_letter_a c0 || (c0 =? 95)) = false).
    { unfold is_digit_a, is_letter_a, is_upper_a, is_lower_a, is_space_a in *. lia. }
    destruct Hcls as [Hsp Hlt].
    cbn [plus lex_run]. unfold lex_step at 1. cbn [app]. replace (l_nr (lx (c0 :: d' ++ next :: rest))) with c0 by reflexivity.
    rewrite Hsp, Hlt, Hc0. cbn [lex_run]. unfold lex_step at 1. rewrite length_inp_lx.
    destruct (N.eq_dec c0 48) as [->|Hne].
    + destruct Hz as [Hz| ->]; [congruence|]. cbn [app].
      assert (E48 : (next =? 48) = false) by (unfold is_digit_a in Hn; lia).
      rewrite zero_loop_one by exact E48.
      rewrite (digit_loop_run [] _ next rest [] ltac:(constructor) Hn) by (cbn; lia).
      cbn [app]. rewrite ?app_nil_r. exact H.
    + assert (E : zero_loop (S (S (length (d' ++ next :: rest)))) (lx (c0 :: d' ++ next :: rest)) = Some (lx (c0 :: d' ++ next :: rest))).
      { cbn [zero_loop lx l_nr]. destruct (N.eqb_spec c0 48); [congruence|reflexivity]. }
      rewrite E. rewrite (digit_loop_run (c0 :: d') _ next rest [] Hd Hn) by (cbn [length]; rewrite app_length; cbn [length]; lia).
      cbn [app]. rewrite ?app_nil_r. exact H.
  - (* a symbol *)
    destruct Hok as [Hs | [Hc Hn]].
    + apply lrun_mono. cbn [lex_run app].
      destruct (sym1_cases c Hs) as [->|[->|[->|[->|[->|[->|[->|[->|[->| ->]]]]]]]]]; exact H.
    + cbn [plus lex_run app].
      assert (E61 : (next =? 61) = false) by (destruct (N.eqb_spec next 61); [congruence|reflexivity]).
      destruct Hc as [-> | ->]; cbn [lex_step lx l_nr is_space_a is_letter_a is_digit_a]; cbn; rewrite E61; rewrite ?app_nil_r; exact H.
  - apply lrun_mono. cbn [lex_run app]. exact H.
  - apply lrun_mono. cbn [lex_run app]. exact H.
  - apply lrun_mono. cbn [lex_run app]. exact H.
  - apply lrun_mono. cbn [lex_run app]. exact H.
  - (* a comment *)
    destruct Hok as [Hb ->]. cbn [plus lex_run app]. unfold lex_step at 1.
    cbn [lx l_nr is_space_a is_letter_a is_upper_a is_lower_a is_digit_a N.leb N.eqb N.compare Pos.compare Pos.compare_cont Pos.eqb andb orb].
    cbn [lex_run]. unfold lex_step at 1.
    change (mkL (b ++ 10 :: rest) 59 false) with (lx (59 :: b ++ 10 :: rest)). rewrite length_inp_lx.
    rewrite (comment_loop_run (59 :: b) _ rest []) by (try (constructor; [discriminate|assumption]); cbn [length]; rewrite app_length; cbn [length]; lia).
    cbn [app]. rewrite ?app_nil_r. exact H.
Qed.

(* ---------- a whole text ---------- *)
Definition first_of (t : text) : N := hd 0 t.
(* every lexeme is well placed with respect to the text that follows it *)
Fixpoint pieces_ok (ps : list piece) (tail : text) : Prop :=
  match ps with
  | [] => True
  | p :: t => piece_ok p (first_of (flat_map ptext t ++ tail)) /\ pieces_ok t tail
  end.

Lemma final_blank f sp out : Forall (fun x => is_space_a x = true) sp -> sp <> [] ->
  lrun (S f) LInput (lx sp) out = Some (out ++ newlines sp ++ [tEOF]).
Proof.
  intros Hs Hne. cbn [lex_run]. destruct sp as [|x s]; [congruence|]. inversion Hs as [|y l Hx Hl]; subst.
  unfold lex_step. replace (l_nr (lx (x :: s))) with x by reflexivity. rewrite Hx. rewrite length_inp_lx.
  destruct (space_loop_end (x :: s) (S (S (length s))) [] Hs Hne ltac:(cbn [length]; lia)) as [l' E].
  rewrite E. reflexivity.
Qed.

Lemma lex_pieces ps : forall tail out f,
  Forall (fun x => is_space_a x = true) tail -> tail <> [] -> pieces_ok ps tail ->
  lrun (2 * length ps + 1 + f) LInput (lx (flat_map ptext ps ++ tail)) out =
  Some (out ++ flat_map ptoks ps ++ newlines tail ++ [tEOF]).
Proof.
  induction ps as [|p t IH]; intros tail out f Ht Hne Hok.
  - cbn [flat_map app length]. replace (2 * 0 + 1 + f)%nat with (S f) by lia. apply final_blank; assumption.
  - cbn [pieces_ok] in Hok. destruct Hok as [Hp Hrest].
    cbn [flat_map length]. rewrite <- app_assoc.
    remember (flat_map ptext t ++ tail) as rest eqn:Er.
    assert (Hrne : rest <> []) by (subst rest; destruct (flat_map ptext t); [exact Hne|discriminate]).
    destruct rest as [|next rest']; [congruence|]. cbn [first_of hd] in Hp.
    replace (2 * S (length t) + 1 + f)%nat with (2 + (2 * length t + 1 + f))%nat by lia.
    apply (piece_step p next rest' out _ _ Hp). rewrite Er.
    rewrite (IH tail (out ++ ptoks p) f Ht Hne Hrest). rewrite <- !app_assoc. reflexivity.
Qed.

Lemma ptext_len_ok p next : piece_ok p next -> (1 <= length (ptext p))%nat.
Proof.
  destruct p; cbn [ptext piece_ok length]; try lia.
  - intros [H _]. destruct s; [congruence|cbn; lia].
  - intros [c0 [w' [-> _]]]. cbn. lia.
  - intros [c0 [d' [-> _]]]. cbn. lia.
Qed.
Lemma pieces_len ps tail : pieces_ok ps tail -> (length ps <= length (flat_map ptext ps))%nat.
Proof.
  induction ps as [|p t IH]; intros H; [cbn; lia|]. cbn [pieces_ok] in H. destruct H as [Hp Ht].
  cbn [flat_map length]. rewrite app_length. pose proof (ptext_len_ok p _ Hp). specialize (IH Ht). lia.
Qed.

(* the token stream of a text made of well-placed lexemes and closed by white space: the tokens of the
   lexemes in order (blanks contribute one newline token per line feed, nothing else), then end-of-file *)
Theorem lex_text ps tail :
  Forall (fun x => is_space_a x = true) tail -> tail <> [] -> pieces_ok ps tail ->
  lex_ascii (flat_map ptext ps ++ tail) = Some (flat_map ptoks ps ++ newlines tail ++ [tEOF]).
Proof.
  intros Ht Hne Hok. unfold lex_ascii, lex_sends.
  set (txt := flat_map ptext ps ++ tail).
  assert (Hl : (length ps + 1 <= length txt)%nat).
  { unfold txt. rewrite app_length. pose proof (pieces_len ps tail Hok). destruct tail; [congruence|cbn [length]; lia]. }
  assert (Hi : lex_init txt = lx txt).
  { unfold lex_init, txt. destruct (flat_map ptext ps ++ tail) eqn:E; [|reflexivity].
    destruct (flat_map ptext ps); [cbn in E; congruence|discriminate]. }
  rewrite Hi.
  replace (2 * length txt + 4)%nat with ((2 * length txt + 4 - (2 * length ps + 1)) + (2 * length ps + 1 + 0))%nat by lia.
  rewrite (lrun_mono_k _ _ _ _ _ _ (lex_pieces ps tail [] 0 Ht Hne Hok)).
  cbn [app]. rewrite recv_closed; [reflexivity|].
  exists (flat_map ptoks ps ++ newlines tail), tEOF. rewrite <- app_assoc. split; [reflexivity|]. split; [reflexivity|].
  apply Forall_app. split.
  - apply Forall_forall. intros tk Hin. apply in_flat_map in Hin. destruct Hin as [p [_ Hp]].
    destruct p; cbn [ptoks] in Hp; try (destruct Hp as [<-|[]]; reflexivity).
    unfold newlines in Hp. apply in_flat_map in Hp. destruct Hp as [c [_ Hc]]. destruct (c =? 10); [destruct Hc as [<-|[]]; reflexivity|contradiction].
  - apply Forall_forall. intros tk Hin. unfold newlines in Hin. apply in_flat_map in Hin. destruct Hin as [c [_ Hc]].
    destruct (c =? 10); [destruct Hc as [<-|[]]; reflexivity|contradiction].
Qed.
