(* C14Proof.v — copy isolation in the store model; independence of the EQU cycle
   check from map iteration order; independence of jobs with private state from
   the schedule. *)
From GM Require Import Base Text Token Lexer Scanner ExprSpec ExprEval Alias C10Proof.
From Coq Require Import Lia Permutation.
Open Scope N_scope.

(* ---------- copy isolation ---------- *)
Lemma arr_find_set_other a b i x l : a <> b -> arr_find a (arr_set b i x l) = arr_find a l.
Proof.
  intros Hne. induction l as [|[a' v] t IH]; [reflexivity|].
  cbn [arr_set]. destruct (N.eqb_spec b a') as [->|Hb]; cbn [arr_find].
  - destruct (N.eqb_spec a a'); [congruence|reflexivity].
  - destruct (a =? a'); [reflexivity|exact IH].
Qed.
Lemma read_write_other s a b i x : a <> b -> read (write s b i x) a = read s a.
Proof. intros H. unfold read, write. cbn [st_arrays]. rewrite arr_find_set_other by exact H. reflexivity. Qed.

Lemma arr_find_fresh a l n : Forall (fun av => fst av < n) l -> n <= a -> arr_find a l = None.
Proof.
  intros H Ha. induction H as [|[a' v] t Hx _ IH]; [reflexivity|].
  cbn [arr_find fst] in *. destruct (N.eqb_spec a a'); [lia|exact IH].
Qed.

(* after AddWarrior the simulator's copy lives at a fresh address, holds the caller's code, and the
   caller's own array is unchanged *)
Lemma add_copies s held w s' held' : store_wf s -> wd_code w < st_next s ->
  Forall (fun c => wd_code c < st_next s) held -> sim_add s held w = (s', held') ->
  store_wf s' /\ Forall (fun c => wd_code c < st_next s') held' /\ length held' = S (length held) /\
  sim_code s' held' (length held) = read s (wd_code w) /\
  (forall k, (k < length held)%nat -> sim_code s' held' k = sim_code s held k) /\
  read s' (wd_code w) = read s (wd_code w) /\
  (forall c, In c held' -> ~ In c held -> wd_code c <> wd_code w /\ wd_code c < st_next s').
Proof.
  intros Hwf Hw Hh H. unfold sim_add, wd_copy, alloc in H. inversion H; subst; clear H.
  split; [|split; [|split; [|split; [|split; [|split]]]]].
  - unfold store_wf in *. cbn [st_arrays st_next]. constructor; [cbn [fst]; lia|].
    eapply Forall_impl; [|exact Hwf]. intros av Hav. cbn beta in *. lia.
  - cbn [st_next]. apply Forall_app. split; [eapply Forall_impl; [|exact Hh]; intros c Hc; cbn beta in *; lia|].
    constructor; [cbn [wd_code]; lia|constructor].
  - rewrite app_length. cbn. lia.
  - unfold sim_code. rewrite nth_error_app2 by lia. rewrite Nat.sub_diag. cbn [nth_error wd_code].
    unfold read at 1. cbn [st_arrays arr_find]. rewrite N.eqb_refl. reflexivity.
  - intros k Hk. unfold sim_code. rewrite nth_error_app1 by exact Hk.
    destruct (nth_error held k) as [c|] eqn:Ec; [|reflexivity].
    apply nth_error_In in Ec. rewrite Forall_forall in Hh. specialize (Hh c Ec).
    unfold read. cbn [st_arrays arr_find].
    destruct (N.eqb_spec (wd_code c) (st_next s)) as [E|E]; [lia|reflexivity].
  - unfold read. cbn [st_arrays arr_find]. destruct (N.eqb_spec (wd_code w) (st_next s)); [lia|reflexivity].
  - intros c Hin Hnot. apply in_app_or in Hin. destruct Hin as [Hin|[<-|[]]]; [contradiction|].
    cbn [wd_code st_next]. split; lia.
Qed.

(* later writes through the caller's slice never show through in the simulator, and the other way round *)
Theorem copy_isolation s held w s' held' i x :
  store_wf s -> wd_code w < st_next s -> sim_add s held w = (s', held') ->
  sim_code (write s' (wd_code w) i x) held' (length held) = read s (wd_code w) /\
  (forall c, nth_error held' (length held) = Some c ->
     read (write s' (wd_code c) i x) (wd_code w) = read s (wd_code w)).
Proof.
  intros Hwf Hw H. unfold sim_add, wd_copy, alloc in H. inversion H; subst; clear H. split.
  - unfold sim_code. rewrite nth_error_app2 by lia. rewrite Nat.sub_diag. cbn [nth_error wd_code].
    rewrite read_write_other by lia. unfold read at 1. cbn [st_arrays arr_find]. rewrite N.eqb_refl. reflexivity.
  - intros c Hc. rewrite nth_error_app2 in Hc by lia. rewrite Nat.sub_diag in Hc. cbn in Hc. inversion Hc; subst. cbn [wd_code].
    rewrite read_write_other by lia. unfold read. cbn [st_arrays arr_find].
    destruct (N.eqb_spec (wd_code w) (st_next s)); [lia|reflexivity].
Qed.

(* ---------- map iteration order: the EQU cycle check ---------- *)
Lemma text_eqb_refl a : text_eqb a a = true.
Proof. unfold text_eqb. induction a as [|x a IH]; [reflexivity|]. rewrite N.eqb_refl. exact IH. Qed.
Lemma text_eqb_neq a b : a <> b -> text_eqb a b = false.
Proof. intros H. destruct (text_eqb a b) eqn:E; [|reflexivity]. apply text_eqb_eq in E. contradiction. Qed.

Lemma g_find_notin k (g : graph) : ~ In k (map fst g) -> g_find k g = None.
Proof.
  induction g as [|[k' v] t IH]; intros H; [reflexivity|]. cbn [g_find].
  rewrite text_eqb_neq by (intros ->; apply H; left; reflexivity). apply IH. intros X. apply H. right. exact X.
Qed.
Lemma g_find_perm (g g' : graph) : Permutation g g' -> NoDup (map fst g) -> forall k, g_find k g = g_find k g'.
Proof.
  intros P. induction P as [|[k1 v1] l l' P IH|[k1 v1] [k2 v2] l|l l' l'' P1 IH1 P2 IH2]; intros ND k.
  - reflexivity.
  - cbn [g_find]. inversion ND; subst. rewrite IH by assumption. reflexivity.
  - cbn [g_find]. inversion ND as [|x y Hx Hy]; subst. cbn [map fst] in Hx.
    destruct (text_eqb k k2) eqn:E2, (text_eqb k k1) eqn:E1; try reflexivity.
    apply text_eqb_eq in E1, E2. subst. exfalso. apply Hx. left. reflexivity.
  - rewrite IH1 by exact ND. apply IH2. eapply Permutation_NoDup; [|exact ND]. apply Permutation_map. exact P1.
Qed.

Lemma node_cycle_ext (g g' : graph) : (forall k, g_find k g = g_find k g') ->
  forall f node visited, node_cycle f g node visited = node_cycle f g' node visited.
Proof.
  intros H f. induction f as [|f IH]; intros node visited; [reflexivity|].
  cbn [node_cycle]. rewrite <- H. destruct (g_find node g) as [refs|]; [|reflexivity].
  induction refs as [|r t IHr]; [reflexivity|].
  destruct (mem_text r (visited ++ [node])); [reflexivity|]. rewrite IH.
  destruct (node_cycle f g' r (visited ++ [node])) as [[|]|]; try reflexivity. exact IHr.
Qed.

(* with enough fuel for every start node, the check says "cycle" exactly when some node sees one *)
Definition sees_cycle (g : graph) (kv : text * list text) : bool :=
  match node_cycle (S (S (length g))) g (fst kv) [] with Some true => true | _ => false end.
Lemma cycle_check_exists (g : graph) (ks : graph) :
  (forall kv, In kv ks -> node_cycle (S (S (length g))) g (fst kv) [] <> None) ->
  (fix go (ks : graph) : option bool :=
     match ks with
     | [] => Some false
     | (k, _) :: t => match node_cycle (S (S (length g))) g k [] with
                      | None => None
                      | Some true => Some true
                      | Some false => go t
                      end
     end) ks = Some (existsb (sees_cycle g) ks).
Proof.
  induction ks as [|[k v] t IH]; intros H; [reflexivity|].
  cbn [existsb]. unfold sees_cycle at 1. cbn [fst].
  specialize (H (k, v) (or_introl eq_refl)) as Hk. cbn [fst] in Hk.
  destruct (node_cycle (S (S (length g))) g k []) as [[|]|]; [reflexivity| |congruence].
  cbn [orb]. apply IH. intros kv Hin. apply H. right. exact Hin.
Qed.

Lemma existsb_perm {A} (f : A -> bool) l l' : Permutation l l' -> existsb f l = existsb f l'.
Proof.
  intros P. induction P; cbn; try congruence.
  - destruct (f y), (f x); reflexivity.
Qed.

(* Go ranges over the map of EQU names in an arbitrary order: any two orders give the same answer *)
Theorem cycle_check_order_independent (g g' : graph) :
  Permutation g g' -> NoDup (map fst g) ->
  (forall kv, In kv g -> node_cycle (S (S (length g))) g (fst kv) [] <> None) ->
  graph_has_cycle g' = graph_has_cycle g.
Proof.
  intros P ND Hf. unfold graph_has_cycle.
  assert (Hl : length g' = length g) by (symmetry; apply Permutation_length; exact P).
  assert (Hx : forall f node visited, node_cycle f g' node visited = node_cycle f g node visited).
  { intros. symmetry. apply node_cycle_ext. apply g_find_perm; assumption. }
  rewrite (cycle_check_exists g g Hf).
  assert (E : forall ks, (fix go (ks : graph) : option bool :=
     match ks with
     | [] => Some false
     | (k, _) :: t => match node_cycle (S (S (length g'))) g' k [] with
                      | None => None
                      | Some true => Some true
                      | Some false => go t
                      end
     end) ks = (fix go (ks : graph) : option bool :=
     match ks with
     | [] => Some false
     | (k, _) :: t => match node_cycle (S (S (length g))) g k [] with
                      | None => None
                      | Some true => Some true
                      | Some false => go t
                      end
     end) ks).
  { assert (Hk : forall k, node_cycle (S (S (length g'))) g' k [] = node_cycle (S (S (length g))) g k [])
      by (intros k; rewrite Hl; apply Hx).
    induction ks as [|[k v] t IH]; [reflexivity|]. rewrite (Hk k), IH. reflexivity. }
  rewrite E. rewrite (cycle_check_exists g g').
  - f_equal. apply existsb_perm. apply Permutation_sym. exact P.
  - intros kv Hin. apply Hf. eapply Permutation_in; [apply Permutation_sym; exact P|exact Hin].
Qed.

(* ---------- schedules: jobs with private state ---------- *)
Section Jobs.
Variable S : Type.                    (* private state of one job (a simulator, an assembly in progress) *)
Variable step : nat -> S -> S.        (* one atomic step of job i: reads shared read-only data, writes only its own state *)

Definition upd (sigma : nat -> S) (i : nat) (x : S) : nat -> S := fun j => if Nat.eqb j i then x else sigma j.
Fixpoint run_schedule (sched : list nat) (sigma : nat -> S) : nat -> S :=
  match sched with
  | [] => sigma
  | i :: t => run_schedule t (upd sigma i (step i (sigma i)))
  end.
Fixpoint iter (n : nat) (f : S -> S) (x : S) : S := match n with O => x | Datatypes.S n' => iter n' f (f x) end.

(* whatever the interleaving, job i ends where it would have ended running alone for as many steps *)
Theorem schedule_independent sched : forall sigma i,
  run_schedule sched sigma i = iter (count_occ Nat.eq_dec sched i) (step i) (sigma i).
Proof.
  induction sched as [|j t IH]; intros sigma i; [reflexivity|].
  cbn [run_schedule count_occ]. rewrite IH. unfold upd.
  destruct (Nat.eq_dec j i) as [->|Hne].
  - rewrite Nat.eqb_refl. reflexivity.
  - destruct (Nat.eqb_spec i j); [congruence|reflexivity].
Qed.
End Jobs.

(* ---------- the cycle check never runs out of its fuel ---------- *)
Definition unvisited (keys visited : list text) : list text := filter (fun k => negb (mem_text k visited)) keys.

Lemma mem_text_app x a b : mem_text x (a ++ b) = mem_text x a || mem_text x b.
Proof. unfold mem_text. induction a as [|y a IH]; cbn; [reflexivity|]. rewrite IH. apply orb_assoc. Qed.
Lemma text_eqb_sym a b : text_eqb a b = text_eqb b a.
Proof.
  destruct (text_eqb a b) eqn:E.
  - apply text_eqb_eq in E. subst. symmetry. apply text_eqb_refl.
  - destruct (text_eqb b a) eqn:E2; [|reflexivity]. apply text_eqb_eq in E2. subst. rewrite text_eqb_refl in E. discriminate.
Qed.
Lemma g_find_key k (g : graph) v : g_find k g = Some v -> In k (map fst g).
Proof.
  induction g as [|[k' v'] t IH]; [discriminate|]. cbn [g_find map fst].
  destruct (text_eqb k k') eqn:E; [apply text_eqb_eq in E; subst; left; reflexivity|]. intros H. right. apply IH. exact H.
Qed.
Lemma unvisited_shrinks keys visited node :
  In node keys -> mem_text node visited = false ->
  (length (unvisited keys (visited ++ [node])) < length (unvisited keys visited))%nat.
Proof.
  intros Hin Hv. unfold unvisited. induction keys as [|k t IH]; [contradiction|].
  cbn [filter]. rewrite mem_text_app.
  assert (Hle : forall l, (length (filter (fun k0 => negb (mem_text k0 (visited ++ [node]))) l)
                           <= length (filter (fun k0 => negb (mem_text k0 visited)) l))%nat).
  { induction l as [|x l IHl]; [cbn; lia|]. cbn [filter]. rewrite mem_text_app.
    destruct (mem_text x visited); cbn [orb negb]; [exact IHl|]. destruct (mem_text x [node]); cbn [negb length]; lia. }
  destruct Hin as [->|Hin].
  - rewrite Hv. cbn [orb negb]. unfold mem_text at 1. cbn [existsb]. rewrite text_eqb_refl. cbn [orb negb length].
    specialize (Hle t). lia.
  - specialize (IH Hin). destruct (mem_text k visited); cbn [orb negb]; [exact IH|].
    destruct (mem_text k [node]); cbn [negb length]; [specialize (Hle t); lia|lia].
Qed.

Lemma node_cycle_fuel (g : graph) f : forall node visited,
  mem_text node visited = false ->
  (length (unvisited (map fst g) visited) < f)%nat ->
  node_cycle f g node visited <> None.
Proof.
  induction f as [|f IH]; intros node visited Hv Hf; [lia|].
  cbn [node_cycle]. destruct (g_find node g) as [refs|] eqn:E; [|discriminate].
  pose proof (unvisited_shrinks (map fst g) visited node (g_find_key _ _ _ E) Hv) as Hs.
  clear E. induction refs as [|r t IHr]; [discriminate|].
  destruct (mem_text r (visited ++ [node])) eqn:Em; [discriminate|].
  pose proof (IH r (visited ++ [node]) Em ltac:(lia)) as Hr.
  destruct (node_cycle f g r (visited ++ [node])) as [[|]|]; [discriminate|exact IHr|congruence].
Qed.

Lemma unvisited_nil_le keys : (length (unvisited keys []) <= length keys)%nat.
Proof. unfold unvisited. induction keys as [|k t IH]; cbn [filter length]; [lia|]. destruct (negb (mem_text k [])); cbn [length]; lia. Qed.

Theorem cycle_check_total (g : graph) : graph_has_cycle g <> None.
Proof.
  unfold graph_has_cycle.
  assert (H : forall k, node_cycle (S (S (length g))) g k [] <> None).
  { intros k. apply node_cycle_fuel; [reflexivity|]. pose proof (unvisited_nil_le (map fst g)). rewrite map_length in H. lia. }
  assert (G : forall ks : graph,
     (fix go (ks : graph) : option bool :=
        match ks with
        | [] => Some false
        | (k, _) :: t => match node_cycle (S (S (length g))) g k [] with
                         | None => None
                         | Some true => Some true
                         | Some false => go t
                         end
        end) ks <> None).
  { induction ks as [|[k v] t IH]; [discriminate|].
    specialize (H k). destruct (node_cycle (S (S (length g))) g k []) as [[|]|]; [discriminate|exact IH|congruence]. }
  apply G.
Qed.

(* so the order-independence needs no fuel hypothesis *)
Theorem cycle_check_order_independent' (g g' : graph) :
  Permutation g g' -> NoDup (map fst g) -> graph_has_cycle g' = graph_has_cycle g.
Proof.
  intros P ND. apply cycle_check_order_independent; [exact P|exact ND|].
  intros kv _. apply node_cycle_fuel; [reflexivity|]. pose proof (unvisited_nil_le (map fst g)). rewrite map_length in H. lia.
Qed.
