(* C07Parser.v — the reference evaluator computes the denotation of every
   printed expression: usual precedence, left associativity, truncating
   division, any nesting of unary signs and parentheses. *)
From GM Require Import ExprSpec.
From Coq Require Import Lia.
Open Scope Z_scope.

(* ---------- more fuel never changes a result ---------- *)
Lemma fuel_mono f :
  (forall l r, unary f l = Some r -> forall f', (f <= f')%nat -> unary f' l = Some r) /\
  (forall p l r, binary f p l = Some r -> forall f', (f <= f')%nat -> binary f' p l = Some r) /\
  (forall p x l r, binloop f p x l = Some r -> forall f', (f <= f')%nat -> binloop f' p x l = Some r).
Proof.
  induction f as [|f (IU & IB & IL)].
  { repeat split; intros; discriminate. }
  split; [|split].
  - intros l r H f' Hf. destruct f' as [|f']; [lia|]. cbn [unary] in *.
    destruct l as [|[n|[]| |] t]; try discriminate; try assumption.
    + apply IU; [assumption|lia].
    + destruct (unary f t) as [[v r']|] eqn:E; [|discriminate].
      rewrite (IU _ _ E f') by lia. assumption.
    + destruct (binary f 1 t) as [[v [|[| | |] r']]|] eqn:E; try discriminate.
      rewrite (IB _ _ _ E f') by lia. assumption.
  - intros p l r H f' Hf. destruct f' as [|f']; [lia|]. cbn [binary] in *.
    destruct (unary f l) as [[x t]|] eqn:E; [|discriminate].
    rewrite (IU _ _ E f') by lia. apply IL; [assumption|lia].
  - intros p x l r H f' Hf. destruct f' as [|f']; [lia|]. cbn [binloop] in *.
    destruct l as [|[n|o| |] t]; try assumption.
    destruct (p <=? prec o)%nat; [|assumption].
    destruct (binary f (S (prec o)) t) as [[y r']|] eqn:E; [|discriminate].
    rewrite (IB _ _ _ E f') by lia. apply IL; [assumption|lia].
Qed.

Ltac nlia := repeat match goal with
                     | H : ~ _ |- _ => clear H
                     | H : _ = Some _ |- _ => clear H
                     end; lia.

Definition starts_above (n : nat) (l : list etok) : Prop :=
  match l with EOp o :: _ => (n < prec o)%nat | _ => False end.

Lemma binloop_stop f p x l : ~ starts_above (pred p) l -> (0 < p)%nat -> binloop (S f) p x l = Some (x, l).
Proof.
  intros H Hp. cbn [binloop]. destruct l as [|[n|o| |] t]; try reflexivity.
  destruct (Nat.leb_spec p (prec o)); [|reflexivity].
  exfalso. apply H. cbn. lia.
Qed.

Lemma prec_bounds o : (4 <= prec o <= 5)%nat.
Proof. destruct o; cbn; lia. Qed.

Lemma print_len_pos e : (1 <= length (print e))%nat.
Proof. destruct e; cbn [print length]; rewrite ?app_length; cbn [length]; lia. Qed.

(* ---------- the parser follows the printed tree ---------- *)
Lemma parse_print e :
  ok e ->
  (forall rest f, (6 <= level e)%nat -> (3 * length (print e) <= f)%nat ->
     unary f (print e ++ rest) = Some (denote e, rest)) /\
  (forall rest p f r, (p <= level e)%nat -> ~ starts_above (level e) rest ->
     binloop f p (denote e) rest = Some r ->
     forall f', (f + 3 * length (print e) <= f')%nat ->
       binary f' p (print e ++ rest) = Some r).
Proof.
  induction e as [n|e IH|m e IH|o a IHa b IHb]; intros Hok.
  - (* literal *)
    clear Hok.
    assert (U : forall rest f, (3 * length (print (Lit n)) <= f)%nat ->
                  unary f (print (Lit n) ++ rest) = Some (denote (Lit n), rest)).
    { intros rest f Hf. cbn [print length app denote] in *. destruct f; [nlia|]. reflexivity. }
    split; [intros; apply U; assumption|].
    intros rest p f r Hp Hr Hl f' Hf'. cbn [print length] in *.
    destruct f as [|f0]; [discriminate Hl|].
    destruct f' as [|g]; [nlia|]. cbn [binary]. rewrite U by (cbn [print length]; nlia).
    apply (proj2 (proj2 (fuel_mono (S f0))) _ _ _ _ Hl).
    try match goal with H : (_ + 3 * length (print ?x) <= _)%nat |- _ => pose proof (print_len_pos x) end. nlia.
  - (* parentheses *)
    cbn [ok] in Hok. destruct (IH Hok) as [_ IHL].
    assert (U : forall rest f, (3 * length (print (Par e)) <= f)%nat ->
                  unary f (print (Par e) ++ rest) = Some (denote (Par e), rest)).
    { intros rest f Hf. cbn [print denote length app] in *. rewrite app_length in Hf. cbn [length] in Hf.
      destruct f as [|g]; [nlia|]. cbn [unary]. rewrite <- app_assoc. cbn [app].
      rewrite (IHL (ERp :: rest) 1%nat 1%nat (denote e, ERp :: rest)); [reflexivity| | | |].
      - destruct e; cbn; try nlia. pose proof (prec_bounds o). nlia.
      - cbn. tauto.
      - reflexivity.
      - nlia. }
    split; [intros; apply U; assumption|].
    intros rest p f r Hp Hr Hl f' Hf'.
    destruct f as [|f0]; [discriminate Hl|].
    destruct f' as [|g]; [nlia|]. cbn [binary]. rewrite U by nlia.
    apply (proj2 (proj2 (fuel_mono (S f0))) _ _ _ _ Hl).
    try match goal with H : (_ + 3 * length (print ?x) <= _)%nat |- _ => pose proof (print_len_pos x) end. nlia.
  - (* a sign *)
    cbn [ok] in Hok. destruct Hok as [Hok Hlev]. destruct (IH Hok) as [IHU _].
    assert (U : forall rest f, (3 * length (print (Sgn m e)) <= f)%nat ->
                  unary f (print (Sgn m e) ++ rest) = Some (denote (Sgn m e), rest)).
    { intros rest f Hf. cbn [print denote length app] in *.
      destruct f as [|g]; [nlia|]. cbn [unary].
      rewrite (IHU rest g Hlev) by nlia.
      destruct m; destruct (denote e); reflexivity. }
    split; [intros; apply U; assumption|].
    intros rest p f r Hp Hr Hl f' Hf'.
    destruct f as [|f0]; [discriminate Hl|].
    destruct f' as [|g]; [nlia|]. cbn [binary]. rewrite U by nlia.
    apply (proj2 (proj2 (fuel_mono (S f0))) _ _ _ _ Hl).
    try match goal with H : (_ + 3 * length (print ?x) <= _)%nat |- _ => pose proof (print_len_pos x) end. nlia.
  - (* a binary operator *)
    cbn [ok] in Hok. destruct Hok as (Ha & Hb & La & Lb).
    destruct (IHa Ha) as [_ IHLa]. destruct (IHb Hb) as [_ IHLb].
    split; [intros rest f H6; cbn [level] in H6; pose proof (prec_bounds o); nlia|].
    intros rest p f r Hp Hr Hl f' Hf'. cbn [level print denote] in *.
    rewrite app_length in Hf'. cbn [length] in Hf'.
    rewrite <- app_assoc. cbn [app].
    set (h := Nat.max f (1 + 3 * length (print b))).
    apply (IHLa (EOp o :: print b ++ rest) p (S h) r); [nlia| cbn; nlia | | nlia].
    cbn [binloop]. destruct (Nat.leb_spec p (prec o)); [|nlia].
    rewrite (IHLb rest (S (prec o)) 1%nat (denote b, rest));
      [| nlia | intros X; apply Hr; destruct rest as [|[n0|o0| |] rest0]; cbn in *; try contradiction; lia | | nlia].
    + assert (E : vapply o (denote a) (denote b) =
                  match denote a with Some x => match denote b with Some y => apply_op o x y | None => None end | None => None end).
      { unfold vapply. destruct (denote a), (denote b); reflexivity. }
      rewrite E. apply (proj2 (proj2 (fuel_mono f)) _ _ _ _ Hl). nlia.
    + apply binloop_stop; [cbn [pred]; assumption|nlia].
Qed.

Theorem eval_print e : ok e -> eval_tokens (print e) = denote e.
Proof.
  intros Hok. unfold eval_tokens.
  destruct (parse_print e Hok) as [_ L].
  rewrite <- (app_nil_r (print e)) at 2.
  rewrite (L [] 1%nat 1%nat (denote e, [])); [destruct (denote e); reflexivity| | | |].
  - destruct e; cbn; try nlia. pose proof (prec_bounds o). nlia.
  - cbn. tauto.
  - reflexivity.
  - nlia.
Qed.
