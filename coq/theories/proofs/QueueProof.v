(* QueueProof.v — queue.go's ring buffer refines the bounded FIFO list. *)
From GM Require Import Base Exec Emi94.
From Coq Require Import Lia ZifyN ZifyBool FMapPositive.
Open Scope N_scope.
Ltac Zify.zify_post_hook ::= Z.div_mod_to_equations.

Definition rq_wf (q : rq) : Prop :=
  1 <= q_size q /\ q_len q <= q_size q /\ q_start q < q_size q /\
  q_end q = (q_start q + q_len q) mod q_size q.

Lemma mod_2 x s : 0 < s -> x < 2 * s -> x mod s = if x <? s then x else x - s.
Proof.
  intros Hs Hx. destruct (N.ltb_spec x s).
  - now apply N.mod_small.
  - replace x with ((x - s) + 1 * s) at 1 by lia.
    rewrite N.mod_add by lia. apply N.mod_small. lia.
Qed.

Lemma arr_get_set_eq a i v : arr_get (arr_set a i v) i = v.
Proof. unfold arr_get, arr_set. now rewrite PositiveMap.gss. Qed.
Lemma arr_get_set_ne a i j v : i <> j -> arr_get (arr_set a i v) j = arr_get a j.
Proof.
  intros H. unfold arr_get, arr_set. rewrite PositiveMap.gso; [reflexivity|].
  intros E. apply H. apply (f_equal Pos.pred_N) in E. now rewrite !N.pos_pred_succ in E.
Qed.

Lemma rq_new_wf P : 1 <= P -> rq_wf (rq_new P).
Proof. intros. unfold rq_wf, rq_new. cbn [q_size q_len q_start q_end]. repeat split; try lia. Qed.
Lemma rq_new_values P : rq_values (rq_new P) = [].
Proof. reflexivity. Qed.

Lemma rq_values_length q : length (rq_values q) = N.to_nat (q_len q).
Proof. unfold rq_values. now rewrite map_length, seq_length. Qed.

Lemma rq_push_wf q a : rq_wf q -> rq_wf (rq_push q a) /\ q_size (rq_push q a) = q_size q.
Proof.
  intros (H1 & H2 & H3 & H4). unfold rq_push.
  destruct (N.leb_spec (q_size q) (q_len q)); [unfold rq_wf; auto|].
  unfold rq_wf. cbn. repeat split; try lia.
  rewrite H4. rewrite !(mod_2 _ (q_size q)) by lia.
  repeat match goal with |- context [?x <? ?y] => destruct (N.ltb_spec x y) end; lia.
Qed.

Lemma rq_push_values q a :
  rq_wf q ->
  rq_values (rq_push q a) =
  if N.of_nat (length (rq_values q)) <? q_size q then rq_values q ++ [a] else rq_values q.
Proof.
  intros (H1 & H2 & H3 & H4). rewrite rq_values_length, N2Nat.id.
  unfold rq_push. destruct (N.leb_spec (q_size q) (q_len q)) as [Hf|Hf].
  - destruct (N.ltb_spec (q_len q) (q_size q)); [lia|reflexivity].
  - destruct (N.ltb_spec (q_len q) (q_size q)); [|lia].
    unfold rq_values. cbn [q_arr q_size q_len q_start q_end].
    replace (N.to_nat (q_len q + 1)) with (S (N.to_nat (q_len q))) by lia.
    rewrite seq_S, map_app. cbn [map Nat.add]. f_equal.
    + apply map_ext_in. intros i Hi. apply in_seq in Hi.
      apply arr_get_set_ne. rewrite H4.
      rewrite !(mod_2 _ (q_size q)) by lia.
      repeat match goal with |- context [?x <? ?y] => destruct (N.ltb_spec x y) end; lia.
    + rewrite N2Nat.id, <- H4. now rewrite arr_get_set_eq.
Qed.

Lemma rq_pop_spec q :
  rq_wf q ->
  match rq_pop q with
  | None => rq_values q = []
  | Some (x, q') => rq_values q = x :: rq_values q' /\ rq_wf q' /\ q_size q' = q_size q
  end.
Proof.
  intros (H1 & H2 & H3 & H4). unfold rq_pop.
  destruct (N.eqb_spec (q_len q) 0) as [E|E].
  - unfold rq_values. rewrite E. reflexivity.
  - split; [|split; [|reflexivity]].
    + unfold rq_values. cbn [q_arr q_size q_len q_start q_end].
      replace (N.to_nat (q_len q)) with (S (N.to_nat (q_len q - 1))) by lia.
      cbn [seq map]. f_equal.
      * f_equal. rewrite N.add_0_r. apply N.mod_small. assumption.
      * rewrite <- seq_shift, map_map. apply map_ext_in. intros i Hi. apply in_seq in Hi.
        f_equal.
        rewrite !(mod_2 _ (q_size q)) by lia.
        repeat match goal with |- context [?x <? ?y] => destruct (N.ltb_spec x y) end; lia.
    + unfold rq_wf. cbn [q_arr q_size q_len q_start q_end]. repeat split; try lia.
      all: try (apply N.mod_lt; lia).
      rewrite H4. rewrite !(mod_2 _ (q_size q)) by lia.
      repeat match goal with |- context [?x <? ?y] => destruct (N.ltb_spec x y) end; lia.
Qed.

(* a run of Push calls is the bounded append *)
Lemma rq_pushes q xs :
  rq_wf q ->
  rq_wf (fold_left rq_push xs q) /\ q_size (fold_left rq_push xs q) = q_size q /\
  rq_values (fold_left rq_push xs q) = enq (q_size q) (rq_values q) xs.
Proof.
  revert q. induction xs as [|x xs IH]; intros q Hq; cbn [fold_left].
  - unfold enq. cbn. auto.
  - destruct (rq_push_wf q x Hq) as [Hq' Hs].
    destruct (IH _ Hq') as (A & B & C).
    split; [assumption|]. split; [congruence|].
    rewrite C, Hs. unfold enq. cbn [fold_left]. f_equal.
    apply rq_push_values. assumption.
Qed.
