(* ScanProof.v — the symbol scanner (symbol_scanner.go): on every closed token
   stream it ends within its 3*|tokens|+6 state functions (a measure argument over
   the four state functions); it reports a FOR only when some text token spells
   "for", and an error only when some text token spells "equ". *)
From GM Require Import Base Text Token Lexer Scanner ExprSpec ExprEval ForExpand C05Lexer C05Expander C05Fuel.
From Coq Require Import Lia.
Open Scope N_scope.

Definition srank (st : sstate) : nat :=
  match st with SLine => 2 | SLabels => 1 | SConsumeLine => 0 | SEquValue => 3 end%nat.
Definition smu (st : sstate) (s : scan) : nat := (3 * remn (sc_rd s) + srank st)%nat.

Lemma rnext_RI_any rd : RI rd -> RI (rnext rd) /\ (remn (rnext rd) <= remn rd)%nat.
Proof.
  intros H. destruct (is_terminal (r_next rd)) eqn:E.
  - destruct H as [E1 E2]. rewrite E in E1. unfold rnext. rewrite E1. split; [split; [rewrite E1, E; reflexivity|]|lia].
    intros X. congruence.
  - destruct (rnext_RI rd H E) as [A B]. split; [exact A|lia].
Qed.

Lemma equ_loop_RI f : forall r buf, RI r ->
  RI (fst (equ_loop f r buf)) /\ (remn (fst (equ_loop f r buf)) <= remn r)%nat.
Proof.
  induction f as [|f IH]; intros r buf H; cbn [equ_loop]; [cbn [fst]; split; [exact H|lia]|].
  destruct (t_typ (r_next r)) eqn:E; try (cbn [fst]; split; [exact H|lia]);
    (assert (Hn : is_terminal (r_next r) = false) by (unfold is_terminal; rewrite E; reflexivity);
     destruct (rnext_RI r H Hn) as [A B];
     match goal with |- context [equ_loop f (rnext r) ?b] => destruct (IH (rnext r) b A) as [C D] end;
     split; [exact C|lia]).
Qed.

Lemma sconsume_RI s nxt s' st' : RI (sc_rd s) -> sconsume s nxt = (s', st') ->
  RI (sc_rd s') /\ (remn (sc_rd s') <= remn (sc_rd s))%nat /\
  (is_terminal (r_next (sc_rd s)) = false -> (S (remn (sc_rd s')) <= remn (sc_rd s))%nat) /\
  (st' = None \/ st' = Some nxt) /\
  sc_for s' = sc_for s /\ sc_err s' = sc_err s /\ sc_syms s' = sc_syms s.
Proof.
  intros H E. unfold sconsume in E.
  destruct (rnext_RI_any (sc_rd s) H) as [A B].
  assert (X : s' = sc_with_rd s (rnext (sc_rd s)) /\ (st' = None \/ st' = Some nxt)).
  { destruct (t_typ (r_next (sc_rd (sc_with_rd s (rnext (sc_rd s)))))); inversion E; subst; auto. }
  destruct X as [-> X]. cbn [sc_rd sc_with_rd sc_for sc_err sc_syms].
  split; [exact A|]. split; [exact B|]. split; [|split; [exact X|auto]].
  intros Hn. destruct (rnext_RI (sc_rd s) H Hn) as [_ B']. exact B'.
Qed.

Ltac snt E := unfold is_terminal; rewrite E; reflexivity.

Lemma scan_step_decreases st s s' st' : RI (sc_rd s) -> scan_step st s = (s', Some st') ->
  RI (sc_rd s') /\ (smu st' s' < smu st s)%nat.
Proof.
  intros HR H. unfold smu. destruct st; cbn [scan_step] in H.
  - destruct (t_typ (r_next (sc_rd s))); inversion H; subst; cbn [sc_rd srank]; (split; [exact HR|lia]).
  - destruct (t_typ (r_next (sc_rd s))) eqn:E;
      try (inversion H; subst; cbn [sc_rd srank]; (split; [exact HR|lia]));
      try (assert (Hn : is_terminal (r_next (sc_rd s)) = false) by snt E;
           destruct (sconsume_RI _ _ _ _ HR H) as [A [B [C [[D|D] _]]]]; [discriminate D|];
           inversion D; subst; specialize (C Hn); cbn [srank]; (split; [exact A|lia])).
    assert (Hn : is_terminal (r_next (sc_rd s)) = false) by snt E.
    destruct (tok_is_pseudo (r_next (sc_rd s))).
    + destruct (lower_is (t_val (r_next (sc_rd s))) "equ").
      * destruct (sconsume_RI _ _ _ _ HR H) as [A [B [C [[D|D] _]]]]; [discriminate D|].
        inversion D; subst. specialize (C Hn). cbn [srank]. split; [exact A|lia].
      * destruct (lower_is (t_val (r_next (sc_rd s))) "for"); [discriminate H|].
        destruct (lower_is (t_val (r_next (sc_rd s))) "end"); [discriminate H|].
        inversion H; subst. cbn [srank]. split; [exact HR|lia].
    + destruct (tok_is_op (r_next (sc_rd s))).
      * inversion H; subst. cbn [srank]. split; [exact HR|lia].
      * match type of H with sconsume ?x _ = _ => assert (HR' : RI (sc_rd x)) by exact HR;
          destruct (sconsume_RI _ _ _ _ HR' H) as [A [B [C [[D|D] _]]]] end; [discriminate D|].
        inversion D; subst. cbn [sc_rd] in C. specialize (C Hn). cbn [srank sc_rd] in *. split; [exact A|lia].
  - destruct (t_typ (r_next (sc_rd s))) eqn:E; try discriminate H;
      (assert (Hn : is_terminal (r_next (sc_rd s)) = false) by snt E;
       destruct (sconsume_RI _ _ _ _ HR H) as [A [B [C [[D|D] _]]]]; [discriminate D|];
       inversion D; subst; specialize (C Hn); cbn [srank]; (split; [exact A|lia])).
  - destruct (equ_loop_RI (S (length (r_toks (sc_rd s)))) (sc_rd s) [] HR) as [A B].
    destruct (equ_loop (S (length (r_toks (sc_rd s)))) (sc_rd s) []) as [r' v]. cbn [fst] in A, B.
    destruct (define_all (sc_labels s) v (sc_syms s)); [|discriminate H].
    match type of H with sconsume ?x _ = _ => assert (HR' : RI (sc_rd x)) by exact A;
      destruct (sconsume_RI _ _ _ _ HR' H) as [A' [B' [C' [[D|D] _]]]] end; [discriminate D|].
    inversion D; subst. cbn [sc_rd srank] in *. split; [exact A'|lia].
Qed.

Lemma scan_run_ends n : forall st s, RI (sc_rd s) -> (smu st s < n)%nat -> exists s', scan_run n st s = Some s'.
Proof.
  induction n as [|n IH]; intros st s HR Hn; [lia|].
  cbn [scan_run]. destruct (scan_step st s) as [s1 [st1|]] eqn:E.
  - destruct (scan_step_decreases st s s1 st1 HR E) as [R1 M1]. apply IH; [exact R1|lia].
  - eexists. reflexivity.
Qed.

(* the scanner always ends within its fuel on what the lexer (or a pass of the expander) delivers *)
Theorem scan_input_total toks : closed_stream toks -> scan_input toks <> None.
Proof.
  intros C. unfold scan_input. destruct (reader_init_RI toks C) as [R1 R2].
  destruct (scan_run_ends (3 * length toks + 6) SLine (mkSc (reader_init toks) [] false false [])) as [s' E].
  - exact R1.
  - unfold smu. cbn [sc_rd srank]. lia.
  - rewrite E. discriminate.
Qed.

(* ---------- what the flags mean ---------- *)
(* every token the reader shows comes from the stream (or is the initial dummy) *)
Definition from (toks : list token) (rd : reader) : Prop :=
  (In (r_next rd) toks \/ r_next rd = mkT tokError []) /\ incl (r_toks rd) toks.
Lemma rnext_from toks rd : from toks rd -> from toks (rnext rd).
Proof.
  intros [A B]. unfold rnext. destruct (r_eof rd); [split; assumption|].
  destruct (r_toks rd) as [|t rest] eqn:E; cbn [r_next r_toks]; (split; [|]).
  - exact A.
  - intros x [].
  - left. apply B. left. reflexivity.
  - intros x Hx. apply B. right. exact Hx.
Qed.
Lemma reader_init_from toks : from toks (reader_init toks).
Proof. apply rnext_from. split; [right; reflexivity|intros x Hx; exact Hx]. Qed.
Lemma equ_loop_from toks f : forall r buf, from toks r -> from toks (fst (equ_loop f r buf)).
Proof.
  induction f as [|f IH]; intros r buf H; cbn [equ_loop]; [exact H|].
  destruct (t_typ (r_next r)); try exact H; apply IH; apply rnext_from; exact H.
Qed.

Definition spells (w : string) (t : token) : Prop := t_typ t = tokText /\ lower_is (t_val t) w = true.

Definition SI (toks : list token) (s : scan) : Prop :=
  from toks (sc_rd s) /\
  (sc_for s = true -> exists t, In t toks /\ spells "for" t) /\
  (sc_err s = true -> exists t, In t toks /\ spells "equ" t).

Lemma sconsume_SI toks s nxt s' st' : SI toks s -> sconsume s nxt = (s', st') -> SI toks s'.
Proof.
  intros [A [B C]] E. unfold sconsume in E.
  assert (X : s' = sc_with_rd s (rnext (sc_rd s))).
  { destruct (t_typ (r_next (sc_rd (sc_with_rd s (rnext (sc_rd s)))))); inversion E; subst; auto. }
  subst s'. split; [apply rnext_from; exact A|]. split; assumption.
Qed.

Lemma in_next toks s : from toks (sc_rd s) -> t_typ (r_next (sc_rd s)) = tokText -> In (r_next (sc_rd s)) toks.
Proof. intros [[A|A] _] E; [exact A|]. rewrite A in E. discriminate E. Qed.

Definition SIE (toks : list token) (st : sstate) (s : scan) : Prop :=
  SI toks s /\ (st = SEquValue -> exists t, In t toks /\ spells "equ" t).

Lemma scan_step_SI toks st s s' nxt : SIE toks st s -> scan_step st s = (s', nxt) ->
  SIE toks (match nxt with Some st' => st' | None => SLine end) s'.
Proof.
  intros [HS HE] H.
  assert (G : forall st', st' <> SEquValue -> SI toks s' -> SIE toks st' s')
    by (intros st' Hne X; split; [exact X|intros Y; congruence]).
  assert (G2 : forall nxt', (forall st', nxt' = Some st' -> st' <> SEquValue) -> SI toks s' ->
                            SIE toks (match nxt' with Some st' => st' | None => SLine end) s').
  { intros [st'|] Hn X; apply G; try exact X; [apply Hn; reflexivity|discriminate]. }
  assert (SC : forall s0 nx, SI toks s0 -> sconsume s0 nx = (s', nxt) -> nx <> SEquValue ->
                             SIE toks (match nxt with Some st' => st' | None => SLine end) s').
  { intros s0 nx X E Hne. apply G2; [|eapply sconsume_SI; eassumption].
    intros st' ->. unfold sconsume in E.
    destruct (t_typ (r_next (sc_rd (sc_with_rd s0 (rnext (sc_rd s0)))))); inversion E; subst; exact Hne. }
  destruct st; cbn [scan_step] in H.
  - destruct (t_typ (r_next (sc_rd s))); inversion H; subst; apply G; try discriminate; try exact HS.
  - destruct (t_typ (r_next (sc_rd s))) eqn:E;
      try (inversion H; subst; apply G; [discriminate|exact HS]);
      try (eapply SC; [exact HS|exact H|discriminate]).
    destruct (tok_is_pseudo (r_next (sc_rd s))).
    + destruct (lower_is (t_val (r_next (sc_rd s))) "equ") eqn:Eq.
      * split; [eapply sconsume_SI; eassumption|]. intros _.
        exists (r_next (sc_rd s)). destruct HS as [A _]. split; [apply in_next; assumption|split; assumption].
      * destruct (lower_is (t_val (r_next (sc_rd s))) "for") eqn:Ef.
        -- inversion H; subst. apply G; [discriminate|]. destruct HS as [A [B C]]. split; [exact A|]. split; [|exact C].
           intros _. exists (r_next (sc_rd s)). split; [apply in_next; assumption|split; assumption].
        -- destruct (lower_is (t_val (r_next (sc_rd s))) "end"); inversion H; subst; (apply G; [discriminate|exact HS]).
    + destruct (tok_is_op (r_next (sc_rd s))); [inversion H; subst; apply G; [discriminate|exact HS]|].
      eapply SC; [|exact H|discriminate]. destruct HS as [A [B C]]. split; [exact A|split; assumption].
  - destruct (t_typ (r_next (sc_rd s))); try (inversion H; subst; apply G; [discriminate|exact HS]);
      (eapply SC; [exact HS|exact H|discriminate]).
  - specialize (HE eq_refl). destruct HS as [A [B C]].
    pose proof (equ_loop_from toks (S (length (r_toks (sc_rd s)))) (sc_rd s) [] A) as F.
    destruct (equ_loop (S (length (r_toks (sc_rd s)))) (sc_rd s) []) as [r' v]. cbn [fst] in F.
    destruct (define_all (sc_labels s) v (sc_syms s)).
    + eapply SC; [|exact H|discriminate]. split; [exact F|split; assumption].
    + inversion H; subst. apply G; [discriminate|]. split; [exact F|]. split; [exact B|]. intros _. exact HE.
Qed.

Lemma scan_run_SI toks n : forall st s s', SIE toks st s -> scan_run n st s = Some s' -> SI toks s'.
Proof.
  induction n as [|n IH]; intros st s s' HS H; [discriminate|].
  cbn [scan_run] in H. destruct (scan_step st s) as [s1 [st1|]] eqn:E.
  - apply (IH st1 s1 s'); [|exact H]. apply (scan_step_SI toks st s s1 (Some st1) HS E).
  - inversion H; subst. apply (scan_step_SI toks st s s' None HS E).
Qed.

(* a stream in which no word spells "for" or "equ" goes through the scanner without a FOR and without error *)
Theorem scan_input_plain toks :
  closed_stream toks ->
  Forall (fun t => t_typ t = tokText -> lower_is (t_val t) "for" = false /\ lower_is (t_val t) "equ" = false) toks ->
  exists syms, scan_input toks = Some (Some (syms, false)).
Proof.
  intros C HP. unfold scan_input. destruct (reader_init_RI toks C) as [R1 R2].
  destruct (scan_run_ends (3 * length toks + 6) SLine (mkSc (reader_init toks) [] false false [])) as [s' E].
  - exact R1.
  - unfold smu. cbn [sc_rd srank]. lia.
  - rewrite E. assert (HS : SI toks s').
    { eapply (scan_run_SI toks _ SLine); [|exact E]. split; [|discriminate].
      split; [apply reader_init_from|]. cbn [sc_for sc_err]. split; discriminate. }
    destruct HS as [_ [B D]]. rewrite Forall_forall in HP.
    destruct (sc_err s') eqn:Ee.
    + destruct (D eq_refl) as [t [Hin [Ht Hl]]]. destruct (HP t Hin Ht) as [_ X]. congruence.
    + destruct (sc_for s') eqn:Ef.
      * destruct (B eq_refl) as [t [Hin [Ht Hl]]]. destruct (HP t Hin Ht) as [X _]. congruence.
      * eexists. reflexivity.
Qed.
