(* C07Inverse.v — every token list the reference parser accepts is the printed form of a
   tree: so the evaluator of expr.go and the reference agree on ALL accepted token lists,
   not only on printed trees (what textual substitution of EQU values produces). *)
From GM Require Import Base Text Token Lexer Scanner ExprSpec ExprEval C07Parser C07Signs C07Model C07Proof.
From Coq Require Import Lia.
Open Scope Z_scope.

Lemma vneg_denote e : vneg (denote e) = denote (Sgn true e).
Proof. cbn [denote]. destruct (denote e); reflexivity. Qed.
Lemma vapply_denote o a b : vapply o (denote a) (denote b) = denote (Bin o a b).
Proof. cbn [denote]. unfold vapply. destruct (denote a), (denote b); reflexivity. Qed.

Definition nonneg_list (l : list etok) : Prop := Forall nonneg_tok l.

Lemma parse_inverse : forall f,
  (forall l v r, nonneg_list l -> unary f l = Some (v, r) ->
     exists e, ok e /\ (6 <= level e)%nat /\ l = print e ++ r /\ denote e = v) /\
  (forall p l v r, nonneg_list l -> (0 < p <= 6)%nat -> binary f p l = Some (v, r) ->
     exists e, ok e /\ (p <= level e)%nat /\ l = print e ++ r /\ denote e = v /\ ~ starts_above (pred p) r) /\
  (forall p x l v r ex, nonneg_list l -> (0 < p <= 6)%nat -> binloop f p x l = Some (v, r) ->
     ok ex -> denote ex = x -> (p <= level ex)%nat -> ~ starts_above (level ex) l ->
     exists e, ok e /\ (p <= level e)%nat /\ print ex ++ l = print e ++ r /\ denote e = v /\ ~ starts_above (pred p) r).
Proof.
  induction f as [|f [IHU [IHB IHL]]]; [repeat split; intros; discriminate|].
  assert (Htl : forall t (l : list etok), nonneg_list (t :: l) -> nonneg_list l) by (intros t l H; inversion H; assumption).
  split; [|split].
  - (* unary *)
    intros l v r Hnn H. cbn [unary] in H. destruct l as [|[n|o| |] t]; try discriminate H.
    + inversion H; subst. exists (Lit n). inversion Hnn as [|x y Hx _]; subst. cbn in Hx.
      split; [cbn; exact Hx|]. split; [cbn; lia|]. split; reflexivity.
    + destruct o; try discriminate H.
      * destruct (IHU t v r (Htl _ _ Hnn) H) as [e [He [Hl [Et Ed]]]].
        exists (Sgn false e). cbn [ok level print denote]. repeat split; try assumption; try lia.
        -- rewrite Et. reflexivity.
        -- rewrite Ed. destruct v; reflexivity.
      * destruct (unary f t) as [[v0 r0]|] eqn:E; [|discriminate H]. inversion H; subst.
        destruct (IHU t v0 r (Htl _ _ Hnn) E) as [e [He [Hl [Et Ed]]]].
        exists (Sgn true e). cbn [ok level print]. repeat split; try assumption; try lia.
        -- rewrite Et. reflexivity.
        -- rewrite <- vneg_denote, Ed. reflexivity.
    + destruct (binary f 1 t) as [[v0 r0]|] eqn:E; [|discriminate H]. destruct r0 as [|[n0|o0| |] r1]; try discriminate H. inversion H; subst.
      destruct (IHB 1%nat t v (ERp :: r) (Htl _ _ Hnn) ltac:(lia) E) as [e [He [Hl [Et [Ed _]]]]].
      exists (Par e). cbn [ok level print denote]. repeat split; try assumption; try lia.
      rewrite Et. cbn [print app]. rewrite <- app_assoc. reflexivity.
  - (* binary *)
    intros p l v r Hnn Hp H. cbn [binary] in H. destruct (unary f l) as [[x r0]|] eqn:E; [|discriminate H].
    destruct (IHU l x r0 Hnn E) as [ex [Hex [Hlx [Et Ed]]]].
    assert (Hnn0 : nonneg_list r0) by (rewrite Et in Hnn; apply Forall_app in Hnn; apply Hnn).
    destruct (IHL p x r0 v r ex Hnn0 Hp H Hex Ed) as [e [He [Hl [Ep [Edv Hs]]]]].
    + pose proof (level_le6 ex). lia.
    + intros X. unfold starts_above in X. destruct r0 as [|[n|o| |] t]; try contradiction. pose proof (prec_bounds o). lia.
    + exists e. repeat split; try assumption. rewrite Et. exact Ep.
  - (* binloop *)
    intros p x l v r ex Hnn Hp H Hex Ed Hlev Hst. cbn [binloop] in H.
    assert (Stop : forall l0, l0 = l -> (match l0 with EOp o :: _ => (p <=? prec o)%nat = false | _ => True end) ->
                   Some (x, l) = Some (v, r) ->
                   exists e, ok e /\ (p <= level e)%nat /\ print ex ++ l = print e ++ r /\ denote e = v /\ ~ starts_above (pred p) r).
    { intros l0 -> Hc Hs. inversion Hs; subst. exists ex. repeat split; try assumption.
      intros X. unfold starts_above in X. destruct r as [|[n|o| |] t]; try contradiction.
      apply Nat.leb_gt in Hc. lia. }
    destruct l as [|[n|o| |] t]; try (apply (Stop _ eq_refl I H)).
    destruct (p <=? prec o)%nat eqn:Ec; [|apply (Stop _ eq_refl Ec H)].
    destruct (binary f (S (prec o)) t) as [[y r1]|] eqn:Eb; [|discriminate H].
    destruct (IHB (S (prec o)) t y r1 (Htl _ _ Hnn) ltac:(pose proof (prec_bounds o); lia) Eb) as [ey [Hey [Hly [Ety [Edy Hsy]]]]].
    assert (Hnn1 : nonneg_list r1) by (apply Htl in Hnn; rewrite Ety in Hnn; apply Forall_app in Hnn; apply Hnn).
    assert (Hox : (prec o <= level ex)%nat).
    { destruct (Nat.le_gt_cases (prec o) (level ex)) as [Hle|Hgt]; [exact Hle|]. exfalso. apply Hst. cbn. exact Hgt. }
    destruct (IHL p (vapply o x y) r1 v r (Bin o ex ey) Hnn1 Hp H) as [e [He [Hl [Ep [Edv Hs]]]]].
    + cbn [ok]. repeat split; try assumption; try lia.
    + rewrite <- Ed, <- Edy. symmetry. apply vapply_denote.
    + cbn [level]. apply Nat.leb_le in Ec. exact Ec.
    + cbn [level pred] in *. exact Hsy.
    + exists e. repeat split; try assumption. rewrite <- Ep. cbn [print]. rewrite Ety. rewrite <- !app_assoc. reflexivity.
Qed.

(* the reference's value of an accepted token list is what the model's evaluator computes for its tokens *)
Theorem evaluate_accepted l v : nonneg_list l -> eval_tokens l = Some v ->
  evaluate_expression (map inj l) = if int32_ok v then EOk v else EErr.
Proof.
  intros Hnn H. unfold eval_tokens in H.
  destruct (binary (4 * length l + 8) 1 l) as [[[w|] [|t r]]|] eqn:E; try discriminate H. inversion H; subst w.
  destruct (proj1 (proj2 (parse_inverse (4 * length l + 8))) 1%nat l (Some v) [] Hnn ltac:(lia) E) as [e [He [_ [Et [Ed _]]]]].
  rewrite app_nil_r in Et. rewrite Et. rewrite (evaluate_printed e He), Ed. reflexivity.
Qed.
