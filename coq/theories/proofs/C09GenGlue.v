(* C09GenGlue.v — the text loadprint_gen writes, as blank runs and lexemes; its
   tokens are those of a load-file document (C09GenParse), which denotes the warrior. *)
From GM Require Import Base Text Token Lexer Scanner ExprSpec ExprEval ForExpand Parser Sim Compile
     Meaning Render LoadPrint AsmSpec C05Lexer C03Lexer C16Proof ScanProof C09Parse C09Lex C09Compile C09Asm C09GenParse C09GenCompile C09GenLex.
From Coq Require Import Lia ZifyN ZifyNat ZifyBool.
Ltac Zify.zify_post_hook ::= Z.div_mod_to_equations.
Open Scope N_scope.

(* ---------- layouts the theorem covers ---------- *)
Definition hblank (x : text) : Prop := Forall (fun c => is_space_a c = true /\ c <> 10) x.
Definition remark (c : text) : Prop :=
  exists body, c = 59 :: body /\ Forall (fun x => x <> 10) body /\ has_prefix (s2t ";assert") c = false.
(* a respelling in another letter case: same length, every character the same up to case *)
Definition recasing (f : text -> text) : Prop := forall t, Forall2 (fun a b => lower_c a = lower_c b) (f t) t.

Record layout_ok (L : layout) : Prop := mkLok {
  lok_gap : forall k, hblank (ly_gap L k) /\ ly_gap L k <> [];
  lok_optgap : forall k, hblank (ly_optgap L k);
  lok_case : forall k, recasing (ly_case L k);
  lok_eolpre : forall k, hblank (ly_eolpre L k);
  lok_fill : forall k c, ly_fill L k = Some (Some c) -> remark c;
  lok_comment : forall k c, ly_comment L k = Some c -> remark c }.

Lemma hblank_spaces x : hblank x -> Forall (fun c => is_space_a c = true) x.
Proof. intros H. eapply Forall_impl; [|exact H]. intros c [Hc _]. exact Hc. Qed.
Lemma hblank_newlines x : hblank x -> newlines x = [].
Proof.
  intros H. unfold newlines. induction H as [|c x [_ Hc] _ IH]; [reflexivity|].
  cbn [flat_map]. destruct (N.eqb_spec c 10); [congruence|]. exact IH.
Qed.
Lemma newlines_app a b : newlines (a ++ b) = newlines a ++ newlines b.
Proof. unfold newlines. apply flat_map_app. Qed.
Lemma hblank_app a b : hblank a -> hblank b -> hblank (a ++ b).
Proof. intros; apply Forall_app; split; assumption. Qed.

(* ---------- words in another letter case ---------- *)
Lemma recased_lower f t : recasing f -> lower (f t) = lower t.
Proof.
  intros H. specialize (H t). unfold lower. induction H as [|a b x y Hab _ IH]; [reflexivity|]. cbn [map]. rewrite Hab, IH. reflexivity.
Qed.
Lemma lower_c_letter a b : lower_c a = lower_c b -> is_letter_a b = true -> is_letter_a a = true.
Proof. unfold lower_c, is_letter_a, is_upper_a, is_lower_a. intros H Hb. destruct ((65 <=? a) && (a <=? 90)) eqn:Ea, ((65 <=? b) && (b <=? 90)) eqn:Eb; lia. Qed.
Lemma recased_letters f t : recasing f -> Forall (fun c => is_letter_a c = true) t ->
  Forall (fun c => is_letter_a c = true) (f t) /\ length (f t) = length t.
Proof.
  intros H Ht. specialize (H t). induction H as [|a b x y Hab _ IH]; [split; [constructor|reflexivity]|].
  inversion Ht as [|b' y' Hb Hy]; subst. destruct (IH Hy) as [I1 I2].
  split; [constructor; [apply (lower_c_letter a b Hab Hb)|exact I1]|cbn [length]; rewrite I2; reflexivity].
Qed.
Lemma letters_no_dot t : Forall (fun c => is_letter_a c = true) t -> ~ In 46 t.
Proof. intros H Hin. rewrite Forall_forall in H. specialize (H 46 Hin). discriminate H. Qed.
Lemma opcode_letters o : Forall (fun c => is_letter_a c = true) (opcode_name o) /\ opcode_name o <> [].
Proof. destruct o; split; try discriminate; repeat constructor. Qed.
Lemma opmode_letters o : Forall (fun c => is_letter_a c = true) (opmode_name o) /\ opmode_name o <> [].
Proof. destruct o; split; try discriminate; repeat constructor. Qed.

(* the mnemonic of a line is a word, and an acceptable spelling of the instruction's opcode and modifier *)
Lemma gen_op_facts L k legacy i next : layout_ok L -> tchar next = false ->
  piece_ok (PWord (gen_op L k legacy i)) next /\ starts_nonspace (PWord (gen_op L k legacy i)) /\
  op_text_ok legacy i (gen_op L k legacy i).
Proof.
  intros HL Hn. unfold gen_op.
  destruct (opcode_letters (i_op i)) as [O1 O2]. destruct (opmode_letters (i_md i)) as [M1 M2].
  destruct (recased_letters _ _ (lok_case L HL (k + 1)) O1) as [RO1 RO2].
  destruct (recased_letters _ _ (lok_case L HL (k + 2)) M1) as [RM1 RM2].
  set (o1 := ly_case L (k + 1) (opcode_name (i_op i))) in *. set (o2 := ly_case L (k + 2) (opmode_name (i_md i))) in *.
  assert (Ho1 : o1 <> []) by (intros E; rewrite E in RO2; destruct (opcode_name (i_op i)); [congruence|discriminate RO2]).
  destruct o1 as [|c0 r0] eqn:Eo1; [congruence|]. inversion RO1 as [|x y Hc0 Hr0]; subst.
  assert (Hletter_tchar : forall c, is_letter_a c = true -> tchar c = true /\ is_space_a c = false).
  { intros c Hc. unfold text_char. rewrite Hc. split; [reflexivity|]. unfold is_letter_a, is_upper_a, is_lower_a, is_space_a in *. lia. }
  assert (Ht2 : Forall (fun x => tchar x = true) (r0 ++ (if legacy then [] else [46] ++ o2))).
  { apply Forall_app. split.
    - eapply Forall_impl; [|exact Hr0]. intros c Hc. apply Hletter_tchar. exact Hc.
    - destruct legacy; [constructor|]. constructor; [reflexivity|]. eapply Forall_impl; [|exact RM1]. intros c Hc. apply Hletter_tchar. exact Hc. }
  split; [|split].
  - cbn [piece_ok]. exists c0, (r0 ++ (if legacy then [] else [46] ++ o2)). split; [reflexivity|].
    split; [rewrite Hc0; reflexivity|]. split; [exact Ht2|exact Hn].
  - exists c0. eexists. split; [reflexivity|]. apply Hletter_tchar. exact Hc0.
  - exists (c0 :: r0), o2. split; [reflexivity|].
    split; [rewrite <- Eo1; apply recased_lower; apply (lok_case L HL)|].
    split; [apply recased_lower; apply (lok_case L HL)|].
    split; [apply letters_no_dot; constructor; assumption|apply letters_no_dot; exact RM1].
Qed.

(* ---------- lines as blank runs and lexemes ---------- *)
Inductive closing := CTail (t : text) | CFinal (b : text) (p : piece).
Definition closing_text (c : closing) : text := match c with CTail t => t | CFinal b p => b ++ ptext p end.
Definition closing_toks (c : closing) : list token := match c with CTail t => newlines t | CFinal b p => newlines b ++ ptoks p end.

(* a trailing comment swallows what stands in front of the line feed (a carriage return) *)
Definition absorb (p : piece) (pre : text) : piece * text :=
  match p with PComment body => (PComment (body ++ pre), [10]) | _ => (p, pre ++ [10]) end.

Record gline := mkGL {
  gl_init : text -> list item;     (* all lexemes but the last, given the blank run in front of the line *)
  gl_last : item;                  (* the last lexeme: a number, or the trailing comment *)
  gl_elem : text -> elem }.        (* the element of the document, given what a trailing comment swallows *)
Definition gl_text (l : gline) : text := flat_map item_text (gl_init l []) ++ item_text (gl_last l).

Section Doc.
Variable L : layout.

Definition fill_g (k : N) (lead : text) : list item * text * list elem :=
  match ly_fill L k with
  | None => ([], lead, [])
  | Some None => ([], lead ++ gen_eol L (k + 1), [EBlank])
  | Some (Some c) => ([(lead, PComment (tl c ++ ly_eolpre L (k + 1)))], [10], [EComment (c ++ ly_eolpre L (k + 1))])
  end.

Fixpoint join_g (k : N) (ls : list gline) (lead : text) : list item * closing * list elem :=
  match ls with
  | [] => ([], CTail lead, [])
  | [l] =>
    if ly_final_nl L then
      let '(p', lead') := absorb (snd (gl_last l)) (ly_eolpre L k) in
      (gl_init l lead ++ [(fst (gl_last l), p')], CTail lead', [gl_elem l (ly_eolpre L k)])
    else (gl_init l lead, CFinal (fst (gl_last l)) (snd (gl_last l)), [gl_elem l []])
  | l :: t =>
    let '(p', lead1) := absorb (snd (gl_last l)) (ly_eolpre L k) in
    let '(fi, lead2, fe) := fill_g (k + 3) lead1 in
    let '(ri, cl, re) := join_g (k + 7) t lead2 in
    (gl_init l lead ++ [(fst (gl_last l), p')] ++ fi ++ ri, cl, gl_elem l (ly_eolpre L k) :: fe ++ re)
  end.

Hypothesis HL : layout_ok L.

Lemma remark_shape c : remark c -> c = 59 :: tl c /\ Forall (fun x => x <> 10) (tl c) /\ comment_plain c.
Proof. intros [body [-> [H1 H2]]]. cbn [tl]. auto. Qed.

(* ---------- what a filler contributes ---------- *)
Lemma fill_text k lead : let '(fi, lead', _) := fill_g k lead in flat_map item_text fi ++ lead' = lead ++ gen_fill L k.
Proof.
  unfold fill_g, gen_fill. destruct (ly_fill L k) as [[c|]|] eqn:E.
  - destruct (remark_shape c (lok_fill L HL k c E)) as [Ec _].
    cbn [flat_map item_text fst snd ptext app]. rewrite app_nil_r. unfold gen_eol. rewrite <- !app_assoc. cbn [app].
    rewrite Ec at 2. cbn [app]. rewrite <- !app_assoc. reflexivity.
  - cbn [flat_map app]. reflexivity.
  - cbn [flat_map app]. rewrite app_nil_r. reflexivity.
Qed.
Lemma fill_toks k lead : let '(fi, lead', fe) := fill_g k lead in
  flat_map item_toks fi ++ newlines lead' = newlines lead ++ flat_map (fun x => elem_toks x ++ [nl_tok]) fe.
Proof.
  unfold fill_g. destruct (ly_fill L k) as [[c|]|] eqn:E.
  - destruct (remark_shape c (lok_fill L HL k c E)) as [Ec _].
    cbn [flat_map item_toks fst snd ptoks app elem_toks]. rewrite app_nil_r. change (newlines [10]) with [nl_tok].
    unfold item_toks. cbn [fst snd ptoks]. rewrite <- app_assoc. cbn [app]. do 3 f_equal. rewrite Ec at 2. reflexivity.
  - cbn [flat_map app elem_toks]. rewrite newlines_app. unfold gen_eol. rewrite newlines_app, (hblank_newlines _ (lok_eolpre L HL (k + 1))). reflexivity.
  - cbn [flat_map app]. rewrite app_nil_r. reflexivity.
Qed.
End Doc.

(* ---------- what is required of a line ---------- *)
Definition spaces (x : text) : Prop := Forall (fun c => is_space_a c = true) x.
Record gline_ok (l : gline) : Prop := mkGok {
  go_lin_text : forall lead, flat_map item_text (gl_init l lead) = lead ++ flat_map item_text (gl_init l []);
  go_lin_toks : forall lead, flat_map item_toks (gl_init l lead) = newlines lead ++ flat_map item_toks (gl_init l []);
  go_toks : forall pre, hblank pre ->
    flat_map item_toks (gl_init l []) ++ newlines (fst (gl_last l)) ++ ptoks (fst (absorb (snd (gl_last l)) pre)) = elem_toks (gl_elem l pre);
  go_last : spaces (fst (gl_last l)) /\ final_ok (snd (gl_last l)) /\ starts_nonspace (snd (gl_last l));
  go_ok_eol : forall lead pre rest, spaces lead -> hblank pre ->
    items_ok (gl_init l lead ++ [(fst (gl_last l), fst (absorb (snd (gl_last l)) pre))]) (snd (absorb (snd (gl_last l)) pre) ++ rest);
  go_ok_eof : forall lead, spaces lead -> items_ok (gl_init l lead) (fst (gl_last l) ++ ptext (snd (gl_last l))) }.

Lemma items_ok_app a : forall b endt, items_ok a (flat_map item_text b ++ endt) -> items_ok b endt -> items_ok (a ++ b) endt.
Proof.
  induction a as [|x t IH]; intros b endt Ha Hb; [exact Hb|].
  cbn [app items_ok] in *. destruct Ha as [H1 [H2 [H3 H4]]]. split; [exact H1|]. split; [exact H2|].
  split; [rewrite flat_map_app, <- app_assoc; exact H3|apply IH; assumption].
Qed.

Lemma absorb_text p pre : final_ok p -> ptext (fst (absorb p pre)) ++ snd (absorb p pre) = ptext p ++ pre ++ [10].
Proof. destruct p; cbn [final_ok]; try contradiction; intros _; cbn [absorb fst snd ptext app]; rewrite <- ?app_assoc; reflexivity. Qed.
Lemma absorb_toks p pre : final_ok p -> hblank pre -> newlines (snd (absorb p pre)) = [nl_tok].
Proof.
  destruct p; cbn [final_ok]; try contradiction; intros _ Hp; cbn [absorb snd]; [|reflexivity].
  rewrite newlines_app, (hblank_newlines _ Hp). reflexivity.
Qed.
Lemma absorb_nil p : final_ok p -> ptoks (fst (absorb p [])) = ptoks p.
Proof. destruct p; cbn [final_ok]; try contradiction; intros _; cbn [absorb fst ptoks]; rewrite ?app_nil_r; reflexivity. Qed.
Lemma absorb_spaces p pre : final_ok p -> hblank pre -> spaces (snd (absorb p pre)) /\ snd (absorb p pre) <> [].
Proof.
  destruct p; cbn [final_ok]; try contradiction; intros _ Hp; cbn [absorb snd].
  - split; [apply Forall_app; split; [apply hblank_spaces; exact Hp|repeat constructor]|destruct pre; discriminate].
  - split; [repeat constructor|discriminate].
Qed.

Section Join.
Variable L : layout.
Hypothesis HL : layout_ok L.

Lemma gen_eol_spaces k : spaces (gen_eol L k).
Proof. unfold gen_eol. apply Forall_app. split; [apply hblank_spaces, (lok_eolpre L HL)|repeat constructor]. Qed.

Lemma fill_ok k lead endt : spaces lead -> let '(fi, lead', _) := fill_g L k lead in
  spaces lead' /\ (lead <> [] -> lead' <> []) /\ (items_ok fi (lead' ++ endt)).
Proof.
  intros Hl. unfold fill_g. destruct (ly_fill L k) as [[c|]|] eqn:E.
  - destruct (remark_shape c (lok_fill L HL k c E)) as [Ec [Hb _]].
    split; [repeat constructor|]. split; [discriminate|].
    cbn [items_ok fst snd flat_map app]. split; [exact Hl|]. split; [eexists _, _; split; [reflexivity|reflexivity]|].
    split; [|exact I]. cbn [piece_ok first_of hd]. split; [|reflexivity].
    apply Forall_app. split; [exact Hb|]. eapply Forall_impl; [|apply (lok_eolpre L HL (k + 1))]. intros x [_ Hx]. exact Hx.
  - split; [apply Forall_app; split; [exact Hl|apply gen_eol_spaces]|]. split; [intros _; unfold gen_eol; destruct lead, (ly_eolpre L (k + 1)); discriminate|exact I].
  - split; [exact Hl|]. split; [auto|exact I].
Qed.

Lemma join_text ls : Forall gline_ok ls -> forall k lead,
  let '(its, cl, _) := join_g L k ls lead in
  flat_map item_text its ++ closing_text cl = lead ++ gen_join L k (map gl_text ls).
Proof.
  induction ls as [|l t IH]; intros Hok k lead; [cbn; rewrite app_nil_r; reflexivity|].
  inversion Hok as [|x y Hl Ht]; subst. destruct (go_last l Hl) as [_ [Hf _]].
  destruct t as [|l2 t2].
  - cbn [join_g map gen_join]. destruct (ly_final_nl L).
    + destruct (absorb (snd (gl_last l)) (ly_eolpre L k)) as [p' lead'] eqn:Ea.
      rewrite flat_map_app. cbn [flat_map item_text fst snd closing_text]. rewrite app_nil_r, (go_lin_text l Hl lead).
      pose proof (absorb_text _ (ly_eolpre L k) Hf) as Et. rewrite Ea in Et. cbn [fst snd] in Et.
      unfold gl_text, item_text, gen_eol. rewrite <- !app_assoc. do 3 f_equal. exact Et.
    + cbn [closing_text]. rewrite (go_lin_text l Hl lead). unfold gl_text, item_text. rewrite <- !app_assoc, app_nil_r. reflexivity.
  - change (join_g L k (l :: l2 :: t2) lead) with
      (let '(p', lead1) := absorb (snd (gl_last l)) (ly_eolpre L k) in
       let '(fi, lead2, fe) := fill_g L (k + 3) lead1 in
       let '(ri, cl, re) := join_g L (k + 7) (l2 :: t2) lead2 in
       (gl_init l lead ++ [(fst (gl_last l), p')] ++ fi ++ ri, cl, gl_elem l (ly_eolpre L k) :: fe ++ re)).
    destruct (absorb (snd (gl_last l)) (ly_eolpre L k)) as [p' lead1] eqn:Ea.
    pose proof (fill_text L HL (k + 3) lead1) as Ef. destruct (fill_g L (k + 3) lead1) as [[fi lead2] fe].
    specialize (IH Ht (k + 7) lead2). destruct (join_g L (k + 7) (l2 :: t2) lead2) as [[ri cl] re].
    change (gen_join L k (map gl_text (l :: l2 :: t2)))
      with (gl_text l ++ gen_eol L k ++ gen_fill L (k + 3) ++ gen_join L (k + 7) (map gl_text (l2 :: t2))).
    rewrite !flat_map_app. cbn [flat_map item_text fst snd]. rewrite app_nil_r, (go_lin_text l Hl lead).
    pose proof (absorb_text _ (ly_eolpre L k) Hf) as Et. rewrite Ea in Et. cbn [fst snd] in Et.
    rewrite <- !app_assoc. rewrite IH. rewrite (app_assoc (flat_map item_text fi)), Ef.
    unfold gl_text, item_text, gen_eol. rewrite <- !app_assoc. do 3 f_equal.
    rewrite (app_assoc (ptext p')), Et. rewrite <- !app_assoc. reflexivity.
Qed.
End Join.

Section Join2.
Variable L : layout.
Hypothesis HL : layout_ok L.

Lemma doc_body_cons_ne x t fnl : t <> [] -> doc_body (x :: t) fnl = elem_toks x ++ nl_tok :: doc_body t fnl.
Proof. destruct t; [congruence|reflexivity]. Qed.
Lemma doc_body_app a : forall b fnl, b <> [] ->
  doc_body (a ++ b) fnl = flat_map (fun x => elem_toks x ++ [nl_tok]) a ++ doc_body b fnl.
Proof.
  induction a as [|x t IH]; intros b fnl Hb; [reflexivity|]. cbn [app flat_map].
  rewrite doc_body_cons_ne by (destruct t; [exact Hb|discriminate]). rewrite IH by exact Hb. rewrite <- !app_assoc. reflexivity.
Qed.

Lemma join_es_ne k ls lead : ls <> [] -> snd (join_g L k ls lead) <> [].
Proof.
  destruct ls as [|l t]; [congruence|]. intros _. destruct t as [|l2 t2].
  - cbn [join_g]. destruct (ly_final_nl L); [destruct (absorb _ _)|]; discriminate.
  - change (join_g L k (l :: l2 :: t2) lead) with
      (let '(p', lead1) := absorb (snd (gl_last l)) (ly_eolpre L k) in
       let '(fi, lead2, fe) := fill_g L (k + 3) lead1 in
       let '(ri, cl, re) := join_g L (k + 7) (l2 :: t2) lead2 in
       (gl_init l lead ++ [(fst (gl_last l), p')] ++ fi ++ ri, cl, gl_elem l (ly_eolpre L k) :: fe ++ re)).
    destruct (absorb _ _), (fill_g _ _ _) as [[? ?] ?], (join_g _ _ _ _) as [[? ?] ?]. discriminate.
Qed.

Lemma join_toks ls : Forall gline_ok ls -> ls <> [] -> forall k lead,
  let '(its, cl, es) := join_g L k ls lead in
  flat_map item_toks its ++ closing_toks cl = newlines lead ++ doc_body es (ly_final_nl L).
Proof.
  induction ls as [|l t IH]; intros Hok Hne k lead; [congruence|].
  inversion Hok as [|x y Hl Ht]; subst. destruct (go_last l Hl) as [_ [Hf _]].
  destruct t as [|l2 t2].
  - cbn [join_g]. destruct (ly_final_nl L) eqn:Efn.
    + pose proof (go_toks l Hl (ly_eolpre L k) (lok_eolpre L HL k)) as Gt.
      pose proof (absorb_toks _ (ly_eolpre L k) Hf (lok_eolpre L HL k)) as Ea.
      destruct (absorb (snd (gl_last l)) (ly_eolpre L k)) as [p' lead']. cbn [fst snd] in *.
      rewrite flat_map_app. cbn [flat_map closing_toks doc_body]. rewrite app_nil_r, Ea, (go_lin_toks l Hl lead).
      unfold item_toks at 2. cbn [fst snd]. rewrite <- Gt, <- !app_assoc. reflexivity.
    + pose proof (go_toks l Hl [] ltac:(constructor)) as Gt. rewrite (absorb_nil _ Hf) in Gt.
      cbn [closing_toks doc_body]. rewrite app_nil_r, (go_lin_toks l Hl lead), <- Gt, <- !app_assoc. reflexivity.
  - change (join_g L k (l :: l2 :: t2) lead) with
      (let '(p', lead1) := absorb (snd (gl_last l)) (ly_eolpre L k) in
       let '(fi, lead2, fe) := fill_g L (k + 3) lead1 in
       let '(ri, cl, re) := join_g L (k + 7) (l2 :: t2) lead2 in
       (gl_init l lead ++ [(fst (gl_last l), p')] ++ fi ++ ri, cl, gl_elem l (ly_eolpre L k) :: fe ++ re)).
    pose proof (go_toks l Hl (ly_eolpre L k) (lok_eolpre L HL k)) as Gt.
    pose proof (absorb_toks _ (ly_eolpre L k) Hf (lok_eolpre L HL k)) as Ea.
    destruct (absorb (snd (gl_last l)) (ly_eolpre L k)) as [p' lead1]. cbn [fst snd] in *.
    pose proof (fill_toks L HL (k + 3) lead1) as Ef. destruct (fill_g L (k + 3) lead1) as [[fi lead2] fe].
    pose proof (join_es_ne (k + 7) (l2 :: t2) lead2 ltac:(discriminate)) as Hre.
    specialize (IH Ht ltac:(discriminate) (k + 7) lead2). destruct (join_g L (k + 7) (l2 :: t2) lead2) as [[ri cl] re]. cbn [snd] in Hre.
    rewrite doc_body_cons_ne by (destruct fe; [exact Hre|discriminate]). rewrite doc_body_app by exact Hre.
    rewrite !flat_map_app. cbn [flat_map]. rewrite app_nil_r, (go_lin_toks l Hl lead).
    rewrite <- !app_assoc. rewrite IH. rewrite (app_assoc (flat_map item_toks fi)), Ef, Ea.
    unfold item_toks at 2. cbn [fst snd]. rewrite <- Gt. rewrite <- !app_assoc. reflexivity.
Qed.

Definition closing_ok (c : closing) : Prop :=
  match c with
  | CTail t => spaces t /\ t <> []
  | CFinal b p => spaces b /\ final_ok p /\ starts_nonspace p
  end.

Lemma join_ok ls : Forall gline_ok ls -> ls <> [] -> forall k lead, spaces lead ->
  let '(its, cl, _) := join_g L k ls lead in items_ok its (closing_text cl) /\ closing_ok cl.
Proof.
  induction ls as [|l t IH]; intros Hok Hne k lead Hlead; [congruence|].
  inversion Hok as [|x y Hl Ht]; subst. destruct (go_last l Hl) as [Hs [Hf Hn]].
  destruct t as [|l2 t2].
  - cbn [join_g]. destruct (ly_final_nl L).
    + pose proof (go_ok_eol l Hl lead (ly_eolpre L k) [] Hlead (lok_eolpre L HL k)) as Go.
      pose proof (absorb_spaces _ (ly_eolpre L k) Hf (lok_eolpre L HL k)) as Ha.
      destruct (absorb (snd (gl_last l)) (ly_eolpre L k)) as [p' lead']. cbn [fst snd] in *.
      rewrite app_nil_r in Go. cbn [closing_text closing_ok]. split; [exact Go|exact Ha].
    + cbn [closing_text closing_ok]. split; [apply (go_ok_eof l Hl lead Hlead)|auto].
  - change (join_g L k (l :: l2 :: t2) lead) with
      (let '(p', lead1) := absorb (snd (gl_last l)) (ly_eolpre L k) in
       let '(fi, lead2, fe) := fill_g L (k + 3) lead1 in
       let '(ri, cl, re) := join_g L (k + 7) (l2 :: t2) lead2 in
       (gl_init l lead ++ [(fst (gl_last l), p')] ++ fi ++ ri, cl, gl_elem l (ly_eolpre L k) :: fe ++ re)).
    pose proof (absorb_spaces _ (ly_eolpre L k) Hf (lok_eolpre L HL k)) as Ha.
    pose proof (fun rest => go_ok_eol l Hl lead (ly_eolpre L k) rest Hlead (lok_eolpre L HL k)) as Go.
    destruct (absorb (snd (gl_last l)) (ly_eolpre L k)) as [p' lead1]. cbn [fst snd] in *. destruct Ha as [Ha1 Ha2].
    pose proof (fun endt => fill_ok L HL (k + 3) lead1 endt Ha1) as Fo.
    pose proof (fill_text L HL (k + 3) lead1) as Ft.
    destruct (fill_g L (k + 3) lead1) as [[fi lead2] fe].
    assert (Hl2 : spaces lead2) by (destruct (Fo []) as [A _]; exact A).
    specialize (IH Ht ltac:(discriminate) (k + 7) lead2 Hl2).
    pose proof (join_text L HL (l2 :: t2) Ht (k + 7) lead2) as Jt.
    destruct (join_g L (k + 7) (l2 :: t2) lead2) as [[ri cl] re]. destruct IH as [IH1 IH2].
    split; [|exact IH2].
    rewrite app_assoc. apply items_ok_app; [|apply items_ok_app; [|exact IH1]].
    + (* the line itself: what follows begins with lead1 *)
      rewrite flat_map_app, <- app_assoc.
      replace (flat_map item_text fi ++ flat_map item_text ri ++ closing_text cl)
        with (lead1 ++ (gen_fill L (k + 3) ++ gen_join L (k + 7) (map gl_text (l2 :: t2)))).
      * apply Go.
      * rewrite Jt. rewrite app_assoc, <- Ft. rewrite <- !app_assoc. reflexivity.
    + (* the filler: what follows begins with lead2 *)
      rewrite Jt. destruct (Fo (gen_join L (k + 7) (map gl_text (l2 :: t2)))) as [_ [_ C]]. exact C.
Qed.
End Join2.

(* ---------- the lines of loadprint_gen ---------- *)
Definition fld_init (g : text) (sg : bool) (m a : N) : list item := if sg && (m / 2 <? a) then [(g, PSym 45)] else [].
Definition fld_lastitem (g : text) (sg : bool) (m a : N) : item :=
  if sg && (m / 2 <? a) then ([], PNum (dec_of_N (m - a))) else (g, PNum (dec_of_N a)).
Definition fld_its (g : text) (sg : bool) (m a : N) : list item := fld_init g sg m a ++ [fld_lastitem g sg m a].

Definition instr_gl (L : layout) (k : N) (legacy : bool) (m : N) (i : instr) : gline :=
  let sa := ly_signed L (k + 5) in let sb := ly_signed L (k + 9) in
  mkGL (fun lead =>
          [(lead ++ ly_optgap L k, PWord (gen_op L k legacy i)); (ly_gap L (k + 3), PSym (amode_char (i_am i)))]
          ++ fld_its (ly_gap L (k + 4)) sa m (i_a i)
          ++ [(ly_optgap L (k + 6), C03Lexer.PComma); (ly_gap L (k + 7), PSym (amode_char (i_bm i)))]
          ++ (match ly_comment L k with
              | Some _ => fld_its (ly_gap L (k + 8)) sb m (i_b i)
              | None => fld_init (ly_gap L (k + 8)) sb m (i_b i) end))
       (match ly_comment L k with
        | Some c => (ly_gap L (k + 11), PComment (tl c))
        | None => fld_lastitem (ly_gap L (k + 8)) sb m (i_b i) end)
       (fun pre => EInstr (gen_op L k legacy i) (amode_char (i_am i)) (fld_toks sa m (i_a i))
                          (amode_char (i_bm i)) (fld_toks sb m (i_b i))
                          (match ly_comment L k with Some c => Some (c ++ pre) | None => None end)).
Definition dir_gl (L : layout) (kw : text) (start : Z) : gline :=
  mkGL (fun lead => [(lead ++ ly_optgap L 2, PWord (ly_case L 3 kw))])
       (ly_gap L 4, PNum (dec_of_N (Z.to_N start)))
       (fun _ => EDir (ly_case L 3 kw) [num_tok (Z.to_N start)]).

Lemma fld_its_text g sg m a : flat_map item_text (fld_its g sg m a) = g ++ gen_field sg m a.
Proof.
  unfold fld_its, fld_init, fld_lastitem, gen_field. destruct (sg && (m / 2 <? a));
    cbn [flat_map app item_text fst snd ptext]; rewrite ?app_nil_r; rewrite <- ?app_assoc; reflexivity.
Qed.
Lemma fld_its_toks g sg m a : hblank g -> flat_map item_toks (fld_its g sg m a) = fld_toks sg m a.
Proof.
  intros Hg. unfold fld_its, fld_init, fld_lastitem, fld_toks. destruct (sg && (m / 2 <? a));
    cbn [flat_map app]; unfold item_toks; cbn [fst snd ptoks]; rewrite ?(hblank_newlines _ Hg); reflexivity.
Qed.

Lemma instr_gl_text L k legacy m i : layout_ok L -> gl_text (instr_gl L k legacy m i) = gen_line L k legacy m i.
Proof.
  intros HL. unfold gl_text, instr_gl, gen_line. cbn [gl_init gl_last].
  rewrite !flat_map_app, !fld_its_text. cbn [flat_map item_text fst snd ptext app]. rewrite !app_nil_r.
  unfold gen_op. destruct (ly_comment L k) as [c|] eqn:Ec.
  - destruct (remark_shape c (lok_comment L HL k c Ec)) as [Es _].
    rewrite fld_its_text. unfold item_text. cbn [fst snd ptext]. rewrite <- !app_assoc. cbn [app]. rewrite <- Es. reflexivity.
  - unfold fld_init, fld_lastitem, gen_field, item_text. destruct (ly_signed L (k + 9) && (m / 2 <? i_b i));
      cbn [flat_map item_text fst snd ptext app]; rewrite ?app_nil_r; rewrite <- !app_assoc; reflexivity.
Qed.
Lemma dir_gl_text L kw start : gl_text (dir_gl L kw start) = gen_dir L kw start.
Proof. unfold gl_text, dir_gl, gen_dir, item_text. cbn [gl_init gl_last flat_map fst snd ptext app]. rewrite app_nil_r, <- !app_assoc. reflexivity. Qed.

(* ---------- well-placedness of the lexemes of a line ---------- *)
Definition sep (c : N) : Prop := is_digit_a c = false /\ tchar c = false /\ c <> 61.
Lemma space_sep c : is_space_a c = true -> sep c.
Proof. unfold sep, text_char, is_space_a, is_digit_a, is_letter_a, is_upper_a, is_lower_a. intros H. repeat split; lia. Qed.
Lemma first_blank_sep b x rest : spaces b -> sep x -> sep (first_of (b ++ x :: rest)).
Proof. intros Hb Hx. destruct b as [|c r]; [exact Hx|]. inversion Hb; subst. apply space_sep. assumption. Qed.
Lemma first_gap_sep L k rest : layout_ok L -> sep (first_of (ly_gap L k ++ rest)).
Proof.
  intros HL. destruct (lok_gap L HL k) as [Hb Hne]. destruct (ly_gap L k) as [|c r]; [congruence|].
  inversion Hb as [|c' r' [Hc _] _]; subst. apply space_sep. exact Hc.
Qed.

Lemma psym_ok am next : sep next -> piece_ok (PSym (amode_char am)) next /\ starts_nonspace (PSym (amode_char am)).
Proof.
  intros [_ [_ Hn]]. destruct (amode_char_facts am) as [S1 S2]. split.
  - cbn [piece_ok]. destruct S2 as [S|S]; [left; exact S|right; split; [exact S|exact Hn]].
  - eexists _, _. split; [reflexivity|exact S1].
Qed.
Lemma pnum_ok n next : sep next -> piece_ok (PNum (dec_of_N n)) next /\ starts_nonspace (PNum (dec_of_N n)) /\ final_ok (PNum (dec_of_N n)).
Proof.
  intros [Hn _]. split; [apply num_piece_ok; exact Hn|]. destruct (dec_first n) as [c0 [l [E D]]].
  destruct (dec_lead n) as [c1 [l1 [E1 Lz]]]. destruct (dec_of_N_spec n) as [_ [Dg _]]. split.
  - exists c0, l. split; [exact E|]. unfold is_digit_a in D. unfold is_space_a. lia.
  - cbn [final_ok]. exists c1, l1. auto.
Qed.

Lemma fld_items_ok g sg m a rest endt : spaces g ->
  sep (first_of (flat_map item_text rest ++ endt)) -> items_ok rest endt -> items_ok (fld_its g sg m a ++ rest) endt.
Proof.
  intros Hg Hs Hr. unfold fld_its, fld_init, fld_lastitem. destruct (sg && (m / 2 <? a)).
  - cbn [app items_ok fst snd]. split; [exact Hg|]. split; [eexists _, _; split; reflexivity|]. split; [cbn [piece_ok]; left; reflexivity|].
    split; [constructor|]. destruct (pnum_ok (m - a) _ Hs) as [P1 [P2 _]]. split; [exact P2|]. split; [exact P1|exact Hr].
  - cbn [app items_ok fst snd]. split; [exact Hg|]. destruct (pnum_ok a _ Hs) as [P1 [P2 _]]. split; [exact P2|]. split; [exact P1|exact Hr].
Qed.
Lemma fld_last_facts g sg m a : spaces g ->
  spaces (fst (fld_lastitem g sg m a)) /\ final_ok (snd (fld_lastitem g sg m a)) /\ starts_nonspace (snd (fld_lastitem g sg m a)) /\
  (forall pre, absorb (snd (fld_lastitem g sg m a)) pre = (snd (fld_lastitem g sg m a), pre ++ [10])).
Proof.
  intros Hg. unfold fld_lastitem. destruct (sg && (m / 2 <? a)); cbn [fst snd].
  - destruct (pnum_ok (m - a) 0 ltac:(repeat split; discriminate)) as [_ [P2 P3]]. split; [constructor|]. auto.
  - destruct (pnum_ok a 0 ltac:(repeat split; discriminate)) as [_ [P2 P3]]. auto.
Qed.
(* the part of a field in front of its number, when the number closes the input *)
Lemma fld_init_ok g sg m a : spaces g ->
  items_ok (fld_init g sg m a) (fst (fld_lastitem g sg m a) ++ ptext (snd (fld_lastitem g sg m a))).
Proof.
  intros Hg. unfold fld_init, fld_lastitem. destruct (sg && (m / 2 <? a)); [|exact I].
  cbn [items_ok fst snd]. split; [exact Hg|]. split; [eexists _, _; split; reflexivity|]. split; [cbn [piece_ok]; left; reflexivity|exact I].
Qed.
Lemma fld_init_last g sg m a rest : flat_map item_text (fld_init g sg m a) ++ item_text (fld_lastitem g sg m a) ++ rest =
  flat_map item_text (fld_its g sg m a) ++ rest.
Proof. unfold fld_its. rewrite flat_map_app. cbn [flat_map]. rewrite app_nil_r, <- app_assoc. reflexivity. Qed.

Lemma hb_sp L k : layout_ok L -> spaces (ly_gap L k) /\ spaces (ly_optgap L k) /\ spaces (ly_eolpre L k).
Proof. intros HL. repeat split; apply hblank_spaces; [apply (lok_gap L HL)|apply (lok_optgap L HL)|apply (lok_eolpre L HL)]. Qed.

Lemma dir_gl_ok L kw start : layout_ok L -> (kw = s2t "ORG" \/ kw = s2t "END") -> gline_ok (dir_gl L kw start).
Proof.
  intros HL Hk. destruct (lok_gap L HL 4) as [G4 G4n]. pose proof (lok_optgap L HL 2) as O2.
  assert (Hw : forall next, tchar next = false -> piece_ok (PWord (ly_case L 3 kw)) next /\ starts_nonspace (PWord (ly_case L 3 kw))).
  { intros next Hn.
    assert (Hl : Forall (fun c => is_letter_a c = true) kw) by (destruct Hk as [-> | ->]; repeat constructor).
    destruct (recased_letters _ _ (lok_case L HL 3) Hl) as [R1 R2].
    destruct (ly_case L 3 kw) as [|c0 r0] eqn:E; [destruct Hk as [-> | ->]; discriminate R2|].
    inversion R1 as [|x y Hc0 Hr0]; subst.
    assert (Ht : forall c, is_letter_a c = true -> tchar c = true /\ is_space_a c = false).
    { intros c Hc. unfold text_char. rewrite Hc. split; [reflexivity|]. unfold is_letter_a, is_upper_a, is_lower_a, is_space_a in *. lia. }
    split; [cbn [piece_ok]; exists c0, r0; split; [reflexivity|]; split; [rewrite Hc0; reflexivity|];
            split; [eapply Forall_impl; [|exact Hr0]; intros c Hc; apply Ht; exact Hc|exact Hn]
           |exists c0, r0; split; [reflexivity|apply Ht; exact Hc0]]. }
  destruct (pnum_ok (Z.to_N start) 0 ltac:(repeat split; discriminate)) as [_ [P2 P3]].
  constructor; cbn [dir_gl gl_init gl_last gl_elem fst snd].
  - intros lead. cbn [flat_map item_text fst snd app]. rewrite !app_nil_r, <- !app_assoc. reflexivity.
  - intros lead. cbn [flat_map app]. unfold item_toks. cbn [fst snd]. rewrite !app_nil_r, !newlines_app, <- !app_assoc. reflexivity.
  - intros pre Hp. cbn [flat_map app absorb fst ptoks elem_toks]. unfold item_toks. cbn [fst snd ptoks app].
    rewrite (hblank_newlines _ O2), (hblank_newlines _ G4). reflexivity.
  - split; [apply hblank_spaces; exact G4|]. split; assumption.
  - intros lead pre rest Hlead Hp. cbn [absorb fst snd app items_ok].
    assert (S1 : sep (first_of (ly_gap L 4 ++ dec_of_N (Z.to_N start) ++ (pre ++ [10]) ++ rest))) by (apply first_gap_sep; exact HL).
    destruct (Hw _ (proj1 (proj2 S1))) as [W1 W2].
    split; [apply Forall_app; split; [exact Hlead|apply hblank_spaces; exact O2]|]. split; [exact W2|].
    split; [cbn [flat_map item_text fst snd ptext app]; rewrite app_nil_r, <- app_assoc; exact W1|].
    split; [apply hblank_spaces; exact G4|]. split; [exact P2|].
    split; [|exact I]. cbn [flat_map app]. apply num_piece_ok.
    assert (S2 : sep (first_of (pre ++ 10 :: rest))) by (apply first_blank_sep; [apply hblank_spaces; exact Hp|repeat split; discriminate]).
    rewrite <- app_assoc. exact (proj1 S2).
  - intros lead Hlead. cbn [items_ok fst snd flat_map app ptext].
    assert (S1 : sep (first_of (ly_gap L 4 ++ dec_of_N (Z.to_N start)))) by (apply first_gap_sep; exact HL).
    destruct (Hw _ (proj1 (proj2 S1))) as [W1 W2].
    split; [apply Forall_app; split; [exact Hlead|apply hblank_spaces; exact O2]|]. split; [exact W2|]. split; [exact W1|exact I].
Qed.

Lemma item_text_lead lead b p : item_text (lead ++ b, p) = lead ++ item_text (b, p).
Proof. unfold item_text. cbn [fst snd]. rewrite <- app_assoc. reflexivity. Qed.
Lemma item_toks_lead lead b p : item_toks (lead ++ b, p) = newlines lead ++ item_toks (b, p).
Proof. unfold item_toks. cbn [fst snd]. rewrite newlines_app, <- app_assoc. reflexivity. Qed.

Lemma instr_gl_ok L k legacy m i : layout_ok L -> gline_ok (instr_gl L k legacy m i).
Proof.
  intros HL.
  destruct (hb_sp L k HL) as [_ [O0 _]]. destruct (hb_sp L (k + 3) HL) as [G3 _]. destruct (hb_sp L (k + 4) HL) as [G4 _].
  destruct (hb_sp L (k + 6) HL) as [_ [O6 _]]. destruct (hb_sp L (k + 7) HL) as [G7 _]. destruct (hb_sp L (k + 8) HL) as [G8 _].
  destruct (hb_sp L (k + 11) HL) as [G11 _].
  pose proof (lok_gap L HL) as HG. pose proof (lok_optgap L HL) as HO.
  set (sa := ly_signed L (k + 5)). set (sb := ly_signed L (k + 9)).
  set (am := amode_char (i_am i)). set (bm := amode_char (i_bm i)).
  (* the part of the line from the comma on, given what follows the B field *)
  assert (TailOK : forall restB endt, sep (first_of (flat_map item_text restB ++ endt)) -> items_ok restB endt ->
            items_ok ([(ly_optgap L (k + 6), C03Lexer.PComma); (ly_gap L (k + 7), PSym bm)] ++ fld_its (ly_gap L (k + 8)) sb m (i_b i) ++ restB) endt).
  { intros restB endt Hs Hr. cbn [app items_ok fst snd].
    split; [exact O6|]. split; [eexists _, _; split; reflexivity|]. split; [exact I|].
    split; [exact G7|].
    assert (S : sep (first_of (flat_map item_text (fld_its (ly_gap L (k + 8)) sb m (i_b i) ++ restB) ++ endt))).
    { rewrite flat_map_app, fld_its_text, <- !app_assoc. apply first_gap_sep. exact HL. }
    destruct (psym_ok (i_bm i) _ S) as [P1 P2]. split; [exact P2|]. split; [exact P1|].
    apply fld_items_ok; assumption. }
  assert (HeadOK : forall lead rest endt, spaces lead ->
            items_ok rest endt ->
            first_of (flat_map item_text rest ++ endt) = first_of (ly_optgap L (k + 6) ++ [44]) ->
            items_ok ([(lead ++ ly_optgap L k, PWord (gen_op L k legacy i)); (ly_gap L (k + 3), PSym am)]
                      ++ fld_its (ly_gap L (k + 4)) sa m (i_a i) ++ rest) endt).
  { intros lead rest endt Hlead Hr Hf. cbn [app items_ok fst snd].
    assert (S3 : sep (first_of (flat_map item_text ((ly_gap L (k + 3), PSym am) :: fld_its (ly_gap L (k + 4)) sa m (i_a i) ++ rest) ++ endt))).
    { cbn [flat_map]. unfold item_text. cbn [fst snd]. rewrite <- !app_assoc. apply first_gap_sep. exact HL. }
    destruct (gen_op_facts L k legacy i _ HL (proj1 (proj2 S3))) as [W1 [W2 _]].
    split; [apply Forall_app; split; assumption|]. split; [exact W2|]. split; [exact W1|].
    split; [exact G3|].
    assert (S4 : sep (first_of (flat_map item_text (fld_its (ly_gap L (k + 4)) sa m (i_a i) ++ rest) ++ endt))).
    { rewrite flat_map_app, fld_its_text, <- !app_assoc. apply first_gap_sep. exact HL. }
    destruct (psym_ok (i_am i) _ S4) as [P1 P2]. split; [exact P2|]. split; [exact P1|].
    apply fld_items_ok; [exact G4| |exact Hr].
    rewrite Hf. apply first_blank_sep; [exact O6|repeat split; discriminate]. }
  assert (CommaFirst : forall restB endt,
            first_of (flat_map item_text ([(ly_optgap L (k + 6), C03Lexer.PComma); (ly_gap L (k + 7), PSym bm)] ++ restB) ++ endt)
            = first_of (ly_optgap L (k + 6) ++ [44])).
  { intros restB endt. cbn [app flat_map]. unfold item_text at 1. cbn [fst snd ptext]. rewrite <- !app_assoc. cbn [app].
    destruct (ly_optgap L (k + 6)); reflexivity. }
  constructor; cbn [instr_gl gl_init gl_last gl_elem].
  - intros lead. cbn [app flat_map]. rewrite item_text_lead, <- app_assoc. reflexivity.
  - intros lead. cbn [app flat_map]. rewrite item_toks_lead, <- app_assoc. reflexivity.
  - intros pre Hp. fold sa sb am bm.
    assert (IB : forall b p, hblank b -> item_toks (b, p) = ptoks p).
    { intros b p Hb. unfold item_toks. cbn [fst snd]. rewrite (hblank_newlines _ Hb). reflexivity. }
    rewrite !flat_map_app. cbn [flat_map]. rewrite !app_nil_r.
    rewrite (IB _ _ (HO k)), (IB _ _ (proj1 (HG (k + 3)))), (IB _ _ (HO (k + 6))), (IB _ _ (proj1 (HG (k + 7)))).
    rewrite (fld_its_toks _ sa m (i_a i) (proj1 (HG (k + 4)))).
    cbn [ptoks elem_toks]. destruct (ly_comment L k) as [c|] eqn:Ec.
    + destruct (lok_comment L HL k c Ec) as [body [Eb _]]. subst c. cbn [tl].
      rewrite (fld_its_toks _ sb m (i_b i) (proj1 (HG (k + 8)))).
      cbn [fst snd absorb ptoks]. rewrite (hblank_newlines _ (proj1 (HG (k + 11)))).
      rewrite <- !app_assoc. cbn [app]. reflexivity.
    + destruct (fld_last_facts (ly_gap L (k + 8)) sb m (i_b i) G8) as [_ [_ [_ Ab]]]. rewrite Ab. cbn [fst].
      pose proof (fld_its_toks _ sb m (i_b i) (proj1 (HG (k + 8)))) as Fb. unfold fld_its in Fb. rewrite flat_map_app in Fb.
      cbn [flat_map] in Fb. rewrite app_nil_r in Fb. unfold item_toks at 2 in Fb.
      rewrite <- !app_assoc. cbn [app]. rewrite <- Fb. rewrite <- ?app_assoc. rewrite ?app_nil_r. reflexivity.
  - destruct (ly_comment L k) as [c|] eqn:Ec.
    + destruct (remark_shape c (lok_comment L HL k c Ec)) as [_ [Hb _]]. cbn [fst snd].
      split; [exact G11|]. split; [exact Hb|eexists _, _; split; reflexivity].
    + destruct (fld_last_facts (ly_gap L (k + 8)) sb m (i_b i) G8) as [F1 [F2 [F3 _]]]. auto.
  - intros lead pre rest Hlead Hp. fold sa sb am bm. destruct (ly_comment L k) as [c|] eqn:Ec.
    + destruct (remark_shape c (lok_comment L HL k c Ec)) as [_ [Hb _]]. cbn [fst snd absorb].
      rewrite <- !app_assoc.
      apply HeadOK; [exact Hlead| |apply CommaFirst].
      apply TailOK.
      * cbn [flat_map]. unfold item_text. cbn [fst snd]. rewrite <- !app_assoc. apply first_gap_sep. exact HL.
      * cbn [items_ok fst snd flat_map app]. split; [exact G11|]. split; [eexists _, _; split; reflexivity|]. split; [|exact I].
        cbn [piece_ok first_of hd]. split; [|reflexivity]. apply Forall_app. split; [exact Hb|].
        eapply Forall_impl; [|exact Hp]. intros x [_ Hx]. exact Hx.
    + destruct (fld_last_facts (ly_gap L (k + 8)) sb m (i_b i) G8) as [_ [_ [_ Ab]]]. rewrite Ab. cbn [fst snd].
      match goal with |- items_ok ?X _ =>
        assert (E : X = [(lead ++ ly_optgap L k, PWord (gen_op L k legacy i)); (ly_gap L (k + 3), PSym am)] ++
                        fld_its (ly_gap L (k + 4)) sa m (i_a i) ++
                        ([(ly_optgap L (k + 6), C03Lexer.PComma); (ly_gap L (k + 7), PSym bm)] ++ fld_its (ly_gap L (k + 8)) sb m (i_b i) ++ []))
          by (unfold fld_its; rewrite <- surjective_pairing; rewrite app_nil_r, <- !app_assoc; reflexivity);
        rewrite E; clear E end.
      apply HeadOK; [exact Hlead| |apply CommaFirst].
      apply TailOK; [|exact I]. cbn [flat_map app]. rewrite <- app_assoc.
      apply first_blank_sep; [apply hblank_spaces; exact Hp|repeat split; discriminate].
  - intros lead Hlead. fold sa sb am bm. destruct (ly_comment L k) as [c|] eqn:Ec.
    + cbn [fst snd ptext]. apply HeadOK; [exact Hlead| |apply CommaFirst].
      rewrite <- (app_nil_r (fld_its (ly_gap L (k + 8)) sb m (i_b i))).
      apply TailOK; [|exact I]. cbn [flat_map app]. apply first_gap_sep. exact HL.
    + destruct (fld_last_facts (ly_gap L (k + 8)) sb m (i_b i) G8) as [F1 [F2 [F3 _]]].
      apply HeadOK; [exact Hlead| |apply CommaFirst].
      cbn [app items_ok fst snd].
      split; [exact O6|]. split; [eexists _, _; split; reflexivity|]. split; [exact I|].
      split; [exact G7|].
      assert (S : sep (first_of (flat_map item_text (fld_init (ly_gap L (k + 8)) sb m (i_b i)) ++
                                 fst (fld_lastitem (ly_gap L (k + 8)) sb m (i_b i)) ++ ptext (snd (fld_lastitem (ly_gap L (k + 8)) sb m (i_b i)))))).
      { change (fst ?x ++ ptext (snd ?x)) with (item_text x). rewrite <- (app_nil_r (item_text _)), fld_init_last, fld_its_text, <- !app_assoc.
        apply first_gap_sep. exact HL. }
      destruct (psym_ok (i_bm i) _ S) as [P1 P2]. split; [exact P2|]. split; [exact P1|].
      apply fld_init_ok. exact G8.
Qed.

(* ---------- the elements of the joined document ---------- *)
Definition line_elem (x : elem) : Prop := match x with EInstr _ _ _ _ _ _ | EDir _ _ => True | _ => False end.

Section Elems.
Variable L : layout.
Hypothesis HL : layout_ok L.

Lemma fill_es k lead : let '(_, _, fe) := fill_g L k lead in
  fe = [] \/ fe = [EBlank] \/ exists c, fe = [EComment c] /\ comment_plain c.
Proof.
  unfold fill_g. destruct (ly_fill L k) as [[c|]|] eqn:E; [|auto|auto].
  right. right. exists (c ++ ly_eolpre L (k + 1)). split; [reflexivity|].
  destruct (lok_fill L HL k c E) as [body [-> [_ Hp]]]. unfold comment_plain in *.
  (* the first seven characters decide *)
  pose proof (lok_eolpre L HL (k + 1)) as Hb.
  assert (G : forall p c0 pre, has_prefix p c0 = false -> Forall (fun x => ~ In x p) pre -> has_prefix p (c0 ++ pre) = false).
  { induction p as [|x p IH]; intros c0 pre H Hpre; [discriminate H|]. destruct c0 as [|y c1].
    - cbn [app]. destruct pre as [|z pre']; [reflexivity|]. cbn [has_prefix]. inversion Hpre as [|z' p' Hz _]; subst.
      destruct (N.eqb_spec x z) as [->|_]; [exfalso; apply Hz; left; reflexivity|reflexivity].
    - cbn [app has_prefix] in *. destruct (x =? y); [|reflexivity]. cbn [andb] in *. apply IH; [exact H|].
      eapply Forall_impl; [|exact Hpre]. intros a Ha Hin. apply Ha. right. exact Hin. }
  apply G; [exact Hp|]. eapply Forall_impl; [|exact Hb]. intros a [Ha _] Hin.
  cbn in Hin. unfold is_space_a in Ha. repeat (destruct Hin as [<-|Hin]; [cbn in Ha; discriminate Ha|]). exact Hin.
Qed.

Lemma shape_cons_line x es : line_elem x -> (es = [] \/ shape_ok es) -> shape_ok (x :: es).
Proof. intros Hx [->|H]; [destruct x; try contradiction; exact I|]. destruct es as [|y t]; [destruct H|]. split; [destruct x; try contradiction; exact I|exact H]. Qed.

Lemma join_shape ls : ls <> [] -> (forall l pre, In l ls -> line_elem (gl_elem l pre)) -> forall k lead,
  let '(_, _, es) := join_g L k ls lead in shape_ok es /\ exists x t, es = x :: t /\ line_elem x.
Proof.
  induction ls as [|l t IH]; intros Hne Hl k lead; [congruence|]. destruct t as [|l2 t2].
  - cbn [join_g]. destruct (ly_final_nl L); [destruct (absorb _ _)|]; (split; [apply shape_cons_line; [apply Hl; left; reflexivity|left; reflexivity]|eexists _, _; split; [reflexivity|apply Hl; left; reflexivity]]).
  - change (join_g L k (l :: l2 :: t2) lead) with
      (let '(p', lead1) := absorb (snd (gl_last l)) (ly_eolpre L k) in
       let '(fi, lead2, fe) := fill_g L (k + 3) lead1 in
       let '(ri, cl, re) := join_g L (k + 7) (l2 :: t2) lead2 in
       (gl_init l lead ++ [(fst (gl_last l), p')] ++ fi ++ ri, cl, gl_elem l (ly_eolpre L k) :: fe ++ re)).
    destruct (absorb _ _) as [p' lead1]. pose proof (fill_es (k + 3) lead1) as Fe. destruct (fill_g L (k + 3) lead1) as [[fi lead2] fe].
    specialize (IH ltac:(discriminate) (fun l0 pre H => Hl l0 pre (or_intror H)) (k + 7) lead2).
    destruct (join_g L (k + 7) (l2 :: t2) lead2) as [[ri cl] re]. destruct IH as [Sh [x [t' [-> Hx]]]].
    split; [|eexists _, _; split; [reflexivity|apply Hl; left; reflexivity]].
    apply shape_cons_line; [apply Hl; left; reflexivity|]. right.
    destruct Fe as [->|[->|[c [-> _]]]]; cbn [app]; [exact Sh| |].
    + split; [destruct x; try contradiction; exact I|exact Sh].
    + split; [exact I|exact Sh].
Qed.

Lemma join_elem_ok ls : (forall l pre, In l ls -> hblank pre -> elem_ok (gl_elem l pre)) -> forall k lead,
  let '(_, _, es) := join_g L k ls lead in Forall elem_ok es.
Proof.
  induction ls as [|l t IH]; intros Hl k lead; [constructor|]. destruct t as [|l2 t2].
  - cbn [join_g]. destruct (ly_final_nl L); [destruct (absorb _ _)|]; (constructor; [apply Hl; [left; reflexivity|try apply (lok_eolpre L HL); constructor]|constructor]).
  - change (join_g L k (l :: l2 :: t2) lead) with
      (let '(p', lead1) := absorb (snd (gl_last l)) (ly_eolpre L k) in
       let '(fi, lead2, fe) := fill_g L (k + 3) lead1 in
       let '(ri, cl, re) := join_g L (k + 7) (l2 :: t2) lead2 in
       (gl_init l lead ++ [(fst (gl_last l), p')] ++ fi ++ ri, cl, gl_elem l (ly_eolpre L k) :: fe ++ re)).
    destruct (absorb _ _) as [p' lead1]. pose proof (fill_es (k + 3) lead1) as Fe. destruct (fill_g L (k + 3) lead1) as [[fi lead2] fe].
    specialize (IH (fun l0 pre H => Hl l0 pre (or_intror H)) (k + 7) lead2).
    destruct (join_g L (k + 7) (l2 :: t2) lead2) as [[ri cl] re].
    constructor; [apply Hl; [left; reflexivity|apply (lok_eolpre L HL)]|]. apply Forall_app. split; [|exact IH].
    destruct Fe as [->|[->|[c [-> _]]]]; repeat constructor.
Qed.
End Elems.

(* ---------- the document denotes the warrior ---------- *)
Section Denote.
Variable L : layout.
Hypothesis HL : layout_ok L.
Variable cfg : config.

Definition line_of (l : gline) (i : instr) : Prop :=
  forall pre es0 code0, hblank pre -> denotes cfg es0 code0 -> denotes cfg (gl_elem l pre :: es0) (i :: code0).

Lemma fill_denotes k lead es code : denotes cfg es code ->
  let '(_, _, fe) := fill_g L k lead in denotes cfg (fe ++ es) code.
Proof.
  intros H. pose proof (fill_es L HL k lead) as Fe. destruct (fill_g L k lead) as [[fi lead'] fe].
  destruct Fe as [->|[->|[c [-> Hc]]]]; cbn [app]; [exact H|constructor; exact H|constructor; assumption].
Qed.

Lemma join_denotes ls : forall code, Forall2 line_of ls code -> forall k lead,
  let '(_, _, es) := join_g L k ls lead in denotes cfg es code.
Proof.
  induction ls as [|l t IH]; intros code H k lead; inversion H as [|l' i t' code' Hl Ht]; subst; [constructor|].
  destruct t as [|l2 t2].
  - inversion Ht; subst. cbn [join_g]. destruct (ly_final_nl L); [destruct (absorb _ _)|]; (apply Hl; [try apply (lok_eolpre L HL); constructor|constructor]).
  - change (join_g L k (l :: l2 :: t2) lead) with
      (let '(p', lead1) := absorb (snd (gl_last l)) (ly_eolpre L k) in
       let '(fi, lead2, fe) := fill_g L (k + 3) lead1 in
       let '(ri, cl, re) := join_g L (k + 7) (l2 :: t2) lead2 in
       (gl_init l lead ++ [(fst (gl_last l), p')] ++ fi ++ ri, cl, gl_elem l (ly_eolpre L k) :: fe ++ re)).
    destruct (absorb _ _) as [p' lead1].
    pose proof (fun es c H => fill_denotes (k + 3) lead1 es c H) as Fd. destruct (fill_g L (k + 3) lead1) as [[fi lead2] fe].
    specialize (IH code' Ht (k + 7) lead2). destruct (join_g L (k + 7) (l2 :: t2) lead2) as [[ri cl] re].
    apply Hl; [apply (lok_eolpre L HL)|]. apply Fd. exact IH.
Qed.

(* the code followed by one more line (the END line of an '88 file) *)
Lemma join_denotes_then ls dl : forall code, Forall2 line_of ls code -> forall k lead,
  let '(_, _, es) := join_g L k (ls ++ [dl]) lead in
  exists body pre, es = body ++ [gl_elem dl pre] /\ denotes cfg body code.
Proof.
  induction ls as [|l t IH]; intros code H k lead; inversion H as [|l' i t' code' Hl Ht]; subst.
  - cbn [app join_g]. destruct (ly_final_nl L); [destruct (absorb _ _)|]; (exists []; eexists; split; [reflexivity|constructor]).
  - destruct (t ++ [dl]) as [|l2 t2] eqn:Et; [destruct t; discriminate Et|].
    change (join_g L k ((l :: t) ++ [dl]) lead) with (join_g L k (l :: t ++ [dl]) lead). rewrite Et.
    change (join_g L k (l :: l2 :: t2) lead) with
      (let '(p', lead1) := absorb (snd (gl_last l)) (ly_eolpre L k) in
       let '(fi, lead2, fe) := fill_g L (k + 3) lead1 in
       let '(ri, cl, re) := join_g L (k + 7) (l2 :: t2) lead2 in
       (gl_init l lead ++ [(fst (gl_last l), p')] ++ fi ++ ri, cl, gl_elem l (ly_eolpre L k) :: fe ++ re)).
    destruct (absorb _ _) as [p' lead1].
    pose proof (fun es c H => fill_denotes (k + 3) lead1 es c H) as Fd. destruct (fill_g L (k + 3) lead1) as [[fi lead2] fe].
    specialize (IH code' Ht (k + 7) lead2). rewrite ?Et in IH. destruct (join_g L (k + 7) (l2 :: t2) lead2) as [[ri cl] re].
    destruct IH as [body [pre [-> Hb]]].
    exists (gl_elem l (ly_eolpre L k) :: fe ++ body), pre. split; [cbn [app]; rewrite <- app_assoc; reflexivity|].
    apply Hl; [apply (lok_eolpre L HL)|]. apply Fd. exact Hb.
Qed.
End Denote.

(* ---------- the lines of a warrior ---------- *)
Fixpoint gls (L : layout) (k : N) (legacy : bool) (m : N) (code : list instr) : list gline :=
  match code with
  | [] => []
  | i :: t => instr_gl L k legacy m i :: gls L (k + 20) legacy m t
  end.
Lemma gls_text L legacy m code : layout_ok L -> forall k, map gl_text (gls L k legacy m code) = gen_lines L k legacy m code.
Proof. intros HL. induction code as [|i t IH]; intros k; [reflexivity|]. cbn [gls map gen_lines]. rewrite instr_gl_text by exact HL. rewrite IH. reflexivity. Qed.
Lemma gls_ok L legacy m code : layout_ok L -> forall k, Forall gline_ok (gls L k legacy m code).
Proof. intros HL. induction code as [|i t IH]; intros k; [constructor|]. cbn [gls]. constructor; [apply instr_gl_ok; exact HL|apply IH]. Qed.

Lemma plain_app p c pre : comment_plain c -> Forall (fun x => ~ In x p) pre -> p = s2t ";assert" -> has_prefix p (c ++ pre) = false.
Proof.
  intros Hc Hpre ->. unfold comment_plain in Hc.
  assert (G : forall p c0 pre, has_prefix p c0 = false -> Forall (fun x => ~ In x p) pre -> has_prefix p (c0 ++ pre) = false).
  { induction p as [|x p IH]; intros c0 pre0 H Hp; [discriminate H|]. destruct c0 as [|y c1].
    - cbn [app]. destruct pre0 as [|z pre']; [reflexivity|]. cbn [has_prefix]. inversion Hp as [|z' p' Hz _]; subst.
      destruct (N.eqb_spec x z) as [->|_]; [exfalso; apply Hz; left; reflexivity|reflexivity].
    - cbn [app has_prefix] in *. destruct (x =? y); [|reflexivity]. cbn [andb] in *. apply IH; [exact H|].
      eapply Forall_impl; [|exact Hp]. intros a Ha Hin. apply Ha. right. exact Hin. }
  apply G; assumption.
Qed.
Lemma hblank_not_assert pre : hblank pre -> Forall (fun x => ~ In x (s2t ";assert")) pre.
Proof.
  intros H. eapply Forall_impl; [|exact H]. intros a [Ha _] Hin.
  cbn in Hin. unfold is_space_a in Ha. repeat (destruct Hin as [<-|Hin]; [cbn in Ha; discriminate Ha|]). exact Hin.
Qed.

Lemma gls_line_of L cfg code : layout_ok L -> forall k,
  Forall2 (line_of cfg) (gls L k (c_mode cfg =? 0) (c_size cfg) code) code.
Proof.
  intros HL. induction code as [|i t IH]; intros k; [constructor|]. cbn [gls]. constructor; [|apply IH].
  intros pre es0 code0 Hp Hd. cbn [instr_gl gl_elem].
  destruct (gen_op_facts L k (c_mode cfg =? 0) i 32 HL eq_refl) as [_ [_ Ho]].
  apply DInstr; [exact Ho| |exact Hd].
  destruct (ly_comment L k) as [c|] eqn:Ec; [|exact I].
  destruct (lok_comment L HL k c Ec) as [body [-> [_ Hpl]]]. unfold comment_plain.
  apply (plain_app (s2t ";assert")); [exact Hpl|apply hblank_not_assert; exact Hp|reflexivity].
Qed.
Lemma gls_elems L legacy m code k l pre : layout_ok L -> In l (gls L k legacy m code) ->
  line_elem (gl_elem l pre) /\ (forall cfg, legacy = (c_mode cfg =? 0) -> m = c_size cfg ->
     ((c_mode cfg =? 0) = true -> Forall (fun i => legal88 i = true) code) -> hblank pre -> elem_ok (gl_elem l pre)).
Proof.
  intros HL. revert k. induction code as [|i t IH]; intros k Hin; [destruct Hin|]. cbn [gls] in Hin. destruct Hin as [<-|Hin].
  - split; [exact I|]. intros cfg -> -> Hl Hp. cbn [instr_gl gl_elem elem_ok].
    destruct (gen_op_facts L k (c_mode cfg =? 0) i 32 HL eq_refl) as [_ [_ Ho]].
    destruct (op_text_tok (c_mode cfg =? 0) i _ ltac:(intros E; specialize (Hl E); inversion Hl; assumption) Ho) as [T1 T2].
    destruct (amode_tok (i_am i)) as [A1 _]. destruct (amode_tok (i_bm i)) as [B1 _].
    split; [exact T1|]. split; [exact T2|]. split; [exact A1|]. split; [exact B1|].
    split; apply fld_plain.
  - destruct (IH (k + 20) Hin) as [I1 I2]. split; [exact I1|]. intros cfg E1 E2 Hl Hp. apply (I2 cfg E1 E2); [|exact Hp].
    intros E. specialize (Hl E). inversion Hl; assumption.
Qed.

Lemma case_kw L which : layout_ok L -> dir_kw_ok (ly_case L 3 (s2t which)) (String.string_of_list_ascii (map Ascii.ascii_of_N (lower (s2t which)))) -> True.
Proof. auto. Qed.
Lemma case_org L : layout_ok L -> dir_kw_ok (ly_case L 3 (s2t "ORG")) "org".
Proof. intros HL. unfold dir_kw_ok. rewrite (recased_lower _ _ (lok_case L HL 3)). reflexivity. Qed.
Lemma case_end L : layout_ok L -> dir_kw_ok (ly_case L 3 (s2t "END")) "end".
Proof. intros HL. unfold dir_kw_ok. rewrite (recased_lower _ _ (lok_case L HL 3)). reflexivity. Qed.

(* ---------- the lexer stage on the whole text ---------- *)
Lemma doc_lex L ls : layout_ok L -> Forall gline_ok ls -> ls <> [] ->
  let '(fi0, lead0, fe0) := fill_g L 5 [] in
  let '(its, cl, es) := join_g L 9 ls lead0 in
  lex_ascii (gen_fill L 5 ++ gen_join L 9 (map gl_text ls)) = Some (doc_toks (fe0 ++ es) (ly_final_nl L)).
Proof.
  intros HL Hok Hne.
  pose proof (fill_text L HL 5 []) as Ft. pose proof (fill_toks L HL 5 []) as Fk.
  pose proof (fun endt => fill_ok L HL 5 [] endt ltac:(constructor)) as Fo.
  destruct (fill_g L 5 []) as [[fi0 lead0] fe0].
  assert (Hl0 : spaces lead0) by (destruct (Fo []) as [A _]; exact A).
  pose proof (join_text L HL ls Hok 9 lead0) as Jt. pose proof (join_toks L HL ls Hok Hne 9 lead0) as Jk.
  pose proof (join_ok L HL ls Hok Hne 9 lead0 Hl0) as Jo. pose proof (join_es_ne L 9 ls lead0 Hne) as Jn.
  destruct (join_g L 9 ls lead0) as [[its cl] es]. cbn [snd] in Jn. destruct Jo as [Jo Jc].
  cbn [app] in Ft, Fk.
  assert (Etext : gen_fill L 5 ++ gen_join L 9 (map gl_text ls) = flat_map item_text (fi0 ++ its) ++ closing_text cl).
  { rewrite flat_map_app, <- app_assoc, Jt, app_assoc, Ft. reflexivity. }
  assert (Etoks : doc_toks (fe0 ++ es) (ly_final_nl L) = flat_map item_toks (fi0 ++ its) ++ closing_toks cl ++ [tEOF]).
  { unfold doc_toks. rewrite doc_body_app by exact Jn. rewrite flat_map_app, <- !app_assoc.
    rewrite (app_assoc (flat_map item_toks its)), Jk. rewrite <- !app_assoc. rewrite (app_assoc (flat_map item_toks fi0)), Fk. reflexivity. }
  assert (Hok2 : items_ok (fi0 ++ its) (closing_text cl)).
  { apply items_ok_app; [|exact Jo]. rewrite Jt. destruct (Fo (gen_join L 9 (map gl_text ls))) as [_ [_ C]]. exact C. }
  rewrite Etext, Etoks. destruct cl as [t|b p]; cbn [closing_text closing_toks closing_ok] in *.
  - destruct Jc as [Hs Hn]. apply lex_items; assumption.
  - destruct Jc as [Hs [Hf Hn]]. rewrite <- app_assoc. apply lex_items_eof; assumption.
Qed.

(* no word of such a document spells FOR or EQU *)
Lemma elem_words_plain x : elem_ok x ->
  (match x with EInstr op _ _ _ _ _ => lower_is op "for" = false /\ lower_is op "equ" = false
              | EDir kw _ => lower_is kw "for" = false /\ lower_is kw "equ" = false | _ => True end) ->
  Forall (fun t => nonterm t /\ (t_typ t = tokText -> lower_is (t_val t) "for" = false /\ lower_is (t_val t) "equ" = false)) (elem_toks x).
Proof.
  intros Hx Hw. destruct x as [op am A bm B cmt|kw e| |c]; cbn [elem_toks].
  - destruct Hx as [_ [_ [_ [_ [[HA _] [HB _]]]]]].
    assert (F : forall e, Forall plain_term e -> Forall (fun t => nonterm t /\ (t_typ t = tokText -> lower_is (t_val t) "for" = false /\ lower_is (t_val t) "equ" = false)) e).
    { intros e He. eapply Forall_impl; [|exact He]. intros t [T1 [T2 T3]]. split; [|intros X; congruence].
      unfold nonterm, is_terminal. unfold tok_is_expr_term in T1. destruct (t_typ t); try reflexivity; discriminate T1. }
    apply Forall_app. split; [constructor; [split; [reflexivity|intros _; exact Hw]|constructor; [split; [reflexivity|discriminate]|constructor]]|].
    apply Forall_app. split; [apply F; exact HA|].
    apply Forall_app. split; [constructor; [split; [reflexivity|discriminate]|constructor; [split; [reflexivity|discriminate]|constructor]]|].
    apply Forall_app. split; [apply F; exact HB|].
    destruct cmt; [constructor; [split; [reflexivity|discriminate]|constructor]|constructor].
  - destruct Hx as [_ [_ [He _]]]. constructor; [split; [reflexivity|intros _; exact Hw]|].
    eapply Forall_impl; [|exact He]. intros t [T1 [T2 T3]]. split; [|intros X; congruence].
    unfold nonterm, is_terminal. unfold tok_is_expr_term in T1. destruct (t_typ t); try reflexivity; discriminate T1.
  - constructor.
  - repeat constructor; cbn; discriminate.
Qed.

Definition wplain (x : elem) : Prop :=
  match x with
  | EInstr op _ _ _ _ _ => lower_is op "for" = false /\ lower_is op "equ" = false
  | EDir kw _ => lower_is kw "for" = false /\ lower_is kw "equ" = false
  | _ => True
  end.

Lemma join_forall L (P : elem -> Prop) ls : layout_ok L ->
  (forall l pre, In l ls -> hblank pre -> P (gl_elem l pre)) -> P EBlank -> (forall c, P (EComment c)) -> forall k lead,
  let '(_, _, es) := join_g L k ls lead in Forall P es.
Proof.
  intros HL. induction ls as [|l t IH]; intros Hl Pb Pc k lead; [constructor|]. destruct t as [|l2 t2].
  - cbn [join_g]. destruct (ly_final_nl L); [destruct (absorb _ _)|]; (constructor; [apply Hl; [left; reflexivity|try apply (lok_eolpre L HL); constructor]|constructor]).
  - change (join_g L k (l :: l2 :: t2) lead) with
      (let '(p', lead1) := absorb (snd (gl_last l)) (ly_eolpre L k) in
       let '(fi, lead2, fe) := fill_g L (k + 3) lead1 in
       let '(ri, cl, re) := join_g L (k + 7) (l2 :: t2) lead2 in
       (gl_init l lead ++ [(fst (gl_last l), p')] ++ fi ++ ri, cl, gl_elem l (ly_eolpre L k) :: fe ++ re)).
    destruct (absorb _ _) as [p' lead1]. pose proof (fill_es L HL (k + 3) lead1) as Fe. destruct (fill_g L (k + 3) lead1) as [[fi lead2] fe].
    specialize (IH (fun l0 pre H => Hl l0 pre (or_intror H)) Pb Pc (k + 7) lead2).
    destruct (join_g L (k + 7) (l2 :: t2) lead2) as [[ri cl] re].
    constructor; [apply Hl; [left; reflexivity|apply (lok_eolpre L HL)]|]. apply Forall_app. split; [|exact IH].
    destruct Fe as [->|[->|[c [-> _]]]]; repeat constructor; auto.
Qed.

Lemma doc_toks_facts es fnl : es <> [] -> Forall (fun x => elem_ok x /\ wplain x) es ->
  closed_stream (doc_toks es fnl) /\
  Forall (fun t => t_typ t = tokText -> lower_is (t_val t) "for" = false /\ lower_is (t_val t) "equ" = false) (doc_toks es fnl).
Proof.
  intros Hne H.
  set (P := fun t => nonterm t /\ (t_typ t = tokText -> lower_is (t_val t) "for" = false /\ lower_is (t_val t) "equ" = false)).
  assert (Hb : Forall P (doc_body es fnl)).
  { induction es as [|x t IH]; [constructor|]. inversion H as [|x' t' [Hx Hw] Ht]; subst.
    pose proof (elem_words_plain x Hx Hw) as Ex. destruct t as [|y t2].
    - cbn [doc_body]. apply Forall_app. split; [exact Ex|]. destruct fnl; repeat constructor; cbn; discriminate.
    - change (doc_body (x :: y :: t2) fnl) with (elem_toks x ++ nl_tok :: doc_body (y :: t2) fnl).
      apply Forall_app. split; [exact Ex|]. constructor; [split; [reflexivity|discriminate]|apply IH; [discriminate|exact Ht]]. }
  unfold doc_toks. split.
  - apply closed_one; [reflexivity|]. eapply Forall_impl; [|exact Hb]. intros t [A _]. exact A.
  - apply Forall_app. split; [eapply Forall_impl; [|exact Hb]; intros t [_ A]; exact A|constructor; [discriminate|constructor]].
Qed.

Lemma gen_op_plain L k legacy i : layout_ok L ->
  lower_is (gen_op L k legacy i) "for" = false /\ lower_is (gen_op L k legacy i) "equ" = false.
Proof.
  intros HL. destruct (gen_op_facts L k legacy i 32 HL eq_refl) as [_ [_ [o1 [o2 [E [L1 [L2 _]]]]]]].
  assert (El : lower (gen_op L k legacy i) = lower (canon_op legacy i)).
  { rewrite E. unfold canon_op, lower. rewrite !map_app. fold (lower o1). fold (lower (opcode_name (i_op i))). rewrite L1.
    destruct legacy; [reflexivity|]. cbn [map]. fold (lower o2). fold (lower (opmode_name (i_md i))). rewrite L2. reflexivity. }
  unfold lower_is. rewrite El. apply (canon_op_plain legacy i).
Qed.

(* ---------- the assembler half of C09, for every layout ---------- *)
Theorem asm_loadprint_gen L cfg code start :
  layout_ok L -> validate cfg = true -> c_size cfg <= 2147483648 -> wf_code cfg code ->
  (0 <= start < Z.of_nat (length code))%Z -> N.of_nat (length code) <= c_len cfg ->
  exists meta, compile_warrior cfg (loadprint_gen L (c_mode cfg =? 0) (c_size cfg) code start) = COk code start meta.
Proof.
  intros HL Hv Hm Hw Hs Hlen.
  set (legacy := c_mode cfg =? 0). set (m := c_size cfg).
  set (body := gls L 50 legacy m code).
  set (ls := if legacy then body ++ [dir_gl L (s2t "END") start] else dir_gl L (s2t "ORG") start :: body).
  assert (Hcode : code <> []) by (destruct code; [cbn in Hs; lia|discriminate]).
  assert (Hbody : body <> []) by (unfold body; destruct code; [congruence|discriminate]).
  assert (Hls : ls <> []) by (unfold ls; destruct legacy; [destruct body; discriminate|discriminate]).
  assert (Hok : Forall gline_ok ls).
  { unfold ls. destruct legacy.
    - apply Forall_app. split; [apply gls_ok; exact HL|constructor; [apply dir_gl_ok; auto|constructor]].
    - constructor; [apply dir_gl_ok; auto|apply gls_ok; exact HL]. }
  assert (Htext : loadprint_gen L legacy m code start = gen_fill L 5 ++ gen_join L 9 (map gl_text ls)).
  { unfold loadprint_gen, ls. destruct legacy.
    - rewrite map_app. cbn [map]. rewrite dir_gl_text. unfold body. rewrite gls_text by exact HL. reflexivity.
    - cbn [map]. rewrite dir_gl_text. unfold body. rewrite gls_text by exact HL. reflexivity. }
  pose proof (doc_lex L ls HL Hok Hls) as Hlex.
  pose proof (fill_es L HL 5 []) as Fe0.
  destruct (fill_g L 5 []) as [[fi0 lead0] fe0].
  (* facts about the elements of the lines *)
  assert (Hle : forall l pre, In l ls -> line_elem (gl_elem l pre)).
  { intros l pre Hin. unfold ls in Hin. destruct legacy.
    - apply in_app_or in Hin. destruct Hin as [Hin|[<-|[]]]; [apply (gls_elems L true m code 50 l pre HL Hin)|exact I].
    - destruct Hin as [<-|Hin]; [exact I|apply (gls_elems L false m code 50 l pre HL Hin)]. }
  assert (Hlp : forall l pre, In l ls -> hblank pre -> elem_ok (gl_elem l pre) /\ wplain (gl_elem l pre)).
  { assert (Hd : forall kw pre, (kw = s2t "ORG" \/ kw = s2t "END") -> elem_ok (gl_elem (dir_gl L kw start) pre) /\ wplain (gl_elem (dir_gl L kw start) pre)).
    { intros kw pre Hk. cbn [dir_gl gl_elem elem_ok wplain].
      assert (Hkw : dir_kw_ok (ly_case L 3 kw) "org" \/ dir_kw_ok (ly_case L 3 kw) "end")
        by (destruct Hk as [-> | ->]; [left; apply case_org; exact HL|right; apply case_end; exact HL]).
      destruct Hkw as [Hk1|Hk1].
      - destruct (dir_kw_facts _ "org" (or_introl eq_refl) Hk1) as [T1 [T2 [T3 _]]].
        split; [split; [exact T1|split; [exact T2|repeat constructor; cbn; discriminate]]|].
        unfold lower_is, dir_kw_ok in *. rewrite Hk1. split; reflexivity.
      - destruct (dir_kw_facts _ "end" (or_intror eq_refl) Hk1) as [T1 [T2 [T3 _]]].
        split; [split; [exact T1|split; [exact T2|repeat constructor; cbn; discriminate]]|].
        unfold lower_is, dir_kw_ok in *. rewrite Hk1. split; reflexivity. }
    assert (Hi : forall l pre, In l body -> hblank pre -> elem_ok (gl_elem l pre) /\ wplain (gl_elem l pre)).
    { intros l pre Hin Hp. split.
      - apply (proj2 (gls_elems L legacy m code 50 l pre HL Hin) cfg eq_refl eq_refl (proj2 Hw) Hp).
      - clear - Hin HL. unfold body in Hin. revert Hin. generalize 50. induction code as [|i t IH]; intros k Hin; [destruct Hin|].
        cbn [gls] in Hin. destruct Hin as [<-|Hin]; [cbn [instr_gl gl_elem wplain]; apply gen_op_plain; exact HL|apply (IH (k + 20) Hin)]. }
    intros l pre Hin Hp. unfold ls in Hin. destruct legacy.
    - apply in_app_or in Hin. destruct Hin as [Hin|[<-|[]]]; [apply Hi; assumption|apply Hd; auto].
    - destruct Hin as [<-|Hin]; [apply Hd; auto|apply Hi; assumption]. }
  pose proof (join_shape L HL ls Hls Hle 9 lead0) as Jsh.
  pose proof (join_forall L (fun x => elem_ok x /\ wplain x) ls HL Hlp ltac:(split; exact I) ltac:(intros c; split; exact I) 9 lead0) as Jall.
  (* the code as elements *)
  pose proof (gls_line_of L cfg code HL 50) as Hlo. fold legacy m body in Hlo.
  assert (Hden : let '(_, _, es) := join_g L 9 ls lead0 in
            (legacy = false -> exists pre rest, es = EDir (ly_case L 3 (s2t "ORG")) [num_tok (Z.to_N start)] :: rest /\ denotes cfg rest code /\ hblank pre) /\
            (legacy = true -> exists bodyes, es = bodyes ++ [EDir (ly_case L 3 (s2t "END")) [num_tok (Z.to_N start)]] /\ denotes cfg bodyes code)).
  { unfold ls. destruct legacy.
    - pose proof (join_denotes_then L HL cfg body (dir_gl L (s2t "END") start) code Hlo 9 lead0) as J.
      destruct (join_g L 9 (body ++ [dir_gl L (s2t "END") start]) lead0) as [[its cl] es].
      split; [discriminate|]. intros _. destruct J as [bodyes [pre [-> Hb]]]. exists bodyes. split; [reflexivity|exact Hb].
    - destruct body as [|l2 t2] eqn:Eb; [congruence|].
      change (join_g L 9 (dir_gl L (s2t "ORG") start :: l2 :: t2) lead0) with
        (let '(p', lead1) := absorb (snd (gl_last (dir_gl L (s2t "ORG") start))) (ly_eolpre L 9) in
         let '(fi, lead2, fe) := fill_g L (9 + 3) lead1 in
         let '(ri, cl, re) := join_g L (9 + 7) (l2 :: t2) lead2 in
         (gl_init (dir_gl L (s2t "ORG") start) lead0 ++ [(fst (gl_last (dir_gl L (s2t "ORG") start)), p')] ++ fi ++ ri, cl,
          gl_elem (dir_gl L (s2t "ORG") start) (ly_eolpre L 9) :: fe ++ re)).
      destruct (absorb _ _) as [p' lead1].
      pose proof (fun es c H => fill_denotes L HL cfg (9 + 3) lead1 es c H) as Fd. destruct (fill_g L (9 + 3) lead1) as [[fi lead2] fe].
      pose proof (join_denotes L HL cfg (l2 :: t2) code Hlo (9 + 7) lead2) as J.
      destruct (join_g L (9 + 7) (l2 :: t2) lead2) as [[ri cl] re].
      split; [|discriminate]. intros _. exists (ly_eolpre L 9), (fe ++ re). split; [reflexivity|]. split; [apply Fd; exact J|apply (lok_eolpre L HL)]. }
  destruct (join_g L 9 ls lead0) as [[its cl] es].
  destruct Jsh as [Sh [x [t [Ees Hx]]]].
  (* the whole document *)
  set (doc := fe0 ++ es) in *.
  assert (Hdne : doc <> []) by (unfold doc; rewrite Ees; destruct fe0; discriminate).
  assert (Hdall : Forall (fun x => elem_ok x /\ wplain x) doc).
  { unfold doc. apply Forall_app. split; [|exact Jall]. destruct Fe0 as [->|[->|[c [-> _]]]]; repeat constructor. }
  assert (Hdsh : shape_ok doc).
  { unfold doc. destruct Fe0 as [->|[->|[c [-> _]]]]; cbn [app]; [exact Sh| |].
    - rewrite Ees in *. split; [destruct x; try contradiction; exact I|exact Sh].
    - rewrite Ees in *. split; [exact I|exact Sh]. }
  destruct (doc_toks_facts doc (ly_final_nl L) Hdne Hdall) as [Cl Pl].
  unfold compile_warrior. fold legacy m. rewrite Htext, Hlex.
  rewrite (counts_modelled_plain _ Pl). cbn [negb].
  destruct (scan_input_plain _ Cl Pl) as [syms Es].
  change (pass_loop cfg (S max_for_passes) (doc_toks doc (ly_final_nl L)))
    with (match scan_input (doc_toks doc (ly_final_nl L)) with
          | None => None
          | Some None => Some None
          | Some (Some (syms, for_seen)) =>
            if for_seen then
              match for_expand (doc_toks doc (ly_final_nl L)) (with_constants cfg syms) with
              | None => None
              | Some None => None
              | Some (Some r) => pass_loop cfg max_for_passes (fr_tokens r)
              end
            else Some (Some (doc_toks doc (ly_final_nl L)))
          end).
  rewrite Es.
  rewrite (parse_doc doc (ly_final_nl L)); [|eapply Forall_impl; [|exact Hdall]; intros y [A _]; exact A|exact Hdsh].
  exists (doc_meta doc (mkPM [] [] [])).
  assert (Hpre : denotes cfg fe0 []) by (destruct Fe0 as [->|[->|[c [-> Hc]]]]; repeat constructor; assumption).
  destruct (legacy) eqn:El.
  - destruct Hden as [_ Hd]. destruct (Hd eq_refl) as [bodyes [-> Hb]]. unfold doc. rewrite app_assoc.
    apply compile_doc88; try assumption; [apply case_end; exact HL|].
    (* fillers in front of the body denote nothing *)
    clear - Hpre Hb. remember (@nil instr) as nocode eqn:En. revert En.
    induction Hpre as [|i optext sga sgb cmt es0 code0 Ho Hc H IH|es0 code0 H IH|c es0 code0 Hc H IH]; intros En; try discriminate En; cbn [app].
    + exact Hb.
    + constructor. apply IH. exact En.
    + constructor; [exact Hc|apply IH; exact En].
  - destruct Hden as [Hd _]. destruct (Hd eq_refl) as [pre [rest [-> [Hb Hp]]]]. unfold doc.
    apply compile_doc94; try assumption. apply case_org; exact HL.
Qed.

(* ---------- the layouts loadprint draws from its style number are covered ---------- *)
Lemma recase_recasing s k : recasing (recase s k).
Proof.
  intros t. unfold recase.
  assert (G : forall t j acc orig, Forall2 (fun a b => lower_c a = lower_c b) acc orig ->
      Forall2 (fun a b => lower_c a = lower_c b)
        (snd (fold_left (fun (st : N * text) c => let '(j, acc) := st in
               (j + 1, acc ++ [if pick s (k + j) 2 =? 0 then lower_c c else c])) t (j, acc))) (orig ++ t)).
  { clear. induction t as [|c t IH]; intros j acc orig Ha; cbn [fold_left snd]; [rewrite app_nil_r; exact Ha|].
    replace (orig ++ c :: t) with ((orig ++ [c]) ++ t) by (rewrite <- app_assoc; reflexivity).
    apply IH. apply Forall2_app; [exact Ha|]. constructor; [|constructor].
    destruct (pick s (k + j) 2 =? 0); [apply C09Proof.lower_c_idem|reflexivity]. }
  destruct (pick s k 3) as [|[p|p|]].
  - unfold lower. induction t as [|c t IH]; cbn [map]; constructor; [apply C09Proof.lower_c_idem|exact IH].
  - apply (G t 0 [] []). constructor.
  - apply (G t 0 [] []). constructor.
  - induction t as [|c t IH]; constructor; [reflexivity|exact IH].
Qed.

Lemma lay_of_ok s : layout_ok (lay_of s).
Proof.
  constructor; cbn [lay_of ly_gap ly_optgap ly_case ly_eolpre ly_fill ly_comment].
  - intros k. unfold gap. destruct (pick s k 4) as [|[p|[p|p|]|]]; (split; [repeat constructor; cbn; discriminate|discriminate]).
  - intros k. unfold optgap. destruct (pick s k 3) as [|[p|[p|p|]|]]; repeat constructor; cbn; discriminate.
  - intros k. apply recase_recasing.
  - intros k. destruct (pick s k 4 =? 0); repeat constructor; cbn; discriminate.
  - intros k c H. destruct (pick s k 7) as [|[p|[p|p|]|]]; try discriminate H; inversion H; subst;
      (eexists; split; [reflexivity|split; [repeat constructor; discriminate|reflexivity]]).
  - intros k c H. destruct (pick s (k + 10) 5); [|discriminate H]. inversion H; subst. unfold lp_comment.
    destruct (pick s (k + 12) 3) as [|[p|p|]]; (eexists; split; [reflexivity|split; [repeat constructor; discriminate|reflexivity]]).
Qed.

(* the assembler half of C09 at full strength: under EVERY layout style loadprint can choose *)
Theorem asm_loadprint s cfg code start :
  validate cfg = true -> c_size cfg <= 2147483648 -> wf_code cfg code ->
  (0 <= start < Z.of_nat (length code))%Z -> N.of_nat (length code) <= c_len cfg ->
  exists meta, compile_warrior cfg (loadprint s (c_mode cfg =? 0) (c_size cfg) code start) = COk code start meta.
Proof. intros. rewrite loadprint_as_gen. apply asm_loadprint_gen; try assumption. apply lay_of_ok. Qed.
