(* C09GenGlue.v — the text loadprint_gen writes, as blank runs and lexemes; its
   tokens are those of a load-file document (C09GenParse), which denotes the warrior. *)
From GM Require Import Base Text Token Lexer Scanner ExprSpec ExprEval ForExpand Parser Sim Compile
     Meaning Render LoadPrint AsmSpec C05Lexer C03Lexer C16Proof C09Parse C09Lex C09Compile C09GenParse C09GenCompile C09GenLex.
From Coq Require Import Lia ZifyN ZifyNat ZifyBool.
Ltac Zify.zify_post_hook ::= Z.div_mod_to_equations.
Open Scope N_scope.

(* ---------- layouts the theorem covers ---------- *)
Definition hblank (x : text) : Prop := Forall (fun c => is_space_a c = true /\ c <> 10) x.
Definition remark (c : text) : Prop :=
  exists body, c = 59 :: body /\ Forall (fun x => x <> 10) body /\ has_prefix (s2t ";assert") c = false.
(* a respelling in another letter case: same length, every character the same up to case *)
Definition recasing (f : text -> text) : Prop := forall t, Forall2 (fun a b => lower_c a = lower_c b) (f t) t.

Record layout_ok (L : layout) : Prop := mkLok {
  lok_gap : forall k, hblank (ly_gap L k) /\ ly_gap L k <> [];
  lok_optgap : forall k, hblank (ly_optgap L k);
  lok_case : forall k, recasing (ly_case L k);
  lok_eolpre : forall k, hblank (ly_eolpre L k);
  lok_fill : forall k c, ly_fill L k = Some (Some c) -> remark c;
  lok_comment : forall k c, ly_comment L k = Some c -> remark c }.

Lemma hblank_spaces x : hblank x -> Forall (fun c => is_space_a c = true) x.
Proof. intros H. eapply Forall_impl; [|exact H]. intros c [Hc _]. exact Hc. Qed.
Lemma hblank_newlines x : hblank x -> newlines x = [].
Proof.
  intros H. unfold newlines. induction H as [|c x [_ Hc] _ IH]; [reflexivity|].
  cbn [flat_map]. destruct (N.eqb_spec c 10); [congruence|]. exact IH.
Qed.
Lemma newlines_app a b : newlines (a ++ b) = newlines a ++ newlines b.
Proof. unfold newlines. apply flat_map_app. Qed.
Lemma hblank_app a b : hblank a -> hblank b -> hblank (a ++ b).
Proof. intros; apply Forall_app; split; assumption. Qed.

(* ---------- words in another letter case ---------- *)
Lemma recased_lower f t : recasing f -> lower (f t) = lower t.
Proof.
  intros H. specialize (H t). unfold lower. induction H as [|a b x y Hab _ IH]; [reflexivity|]. cbn [map]. rewrite Hab, IH. reflexivity.
Qed.
Lemma lower_c_letter a b : lower_c a = lower_c b -> is_letter_a b = true -> is_letter_a a = true.
Proof. unfold lower_c, is_letter_a, is_upper_a, is_lower_a. intros H Hb. destruct ((65 <=? a) && (a <=? 90)) eqn:Ea, ((65 <=? b) && (b <=? 90)) eqn:Eb; lia. Qed.
Lemma recased_letters f t : recasing f -> Forall (fun c => is_letter_a c = true) t ->
  Forall (fun c => is_letter_a c = true) (f t) /\ length (f t) = length t.
Proof.
  intros H Ht. specialize (H t). induction H as [|a b x y Hab _ IH]; [split; [constructor|reflexivity]|].
  inversion Ht as [|b' y' Hb Hy]; subst. destruct (IH Hy) as [I1 I2].
  split; [constructor; [apply (lower_c_letter a b Hab Hb)|exact I1]|cbn [length]; rewrite I2; reflexivity].
Qed.
Lemma letters_no_dot t : Forall (fun c => is_letter_a c = true) t -> ~ In 46 t.
Proof. intros H Hin. rewrite Forall_forall in H. specialize (H 46 Hin). discriminate H. Qed.
Lemma opcode_letters o : Forall (fun c => is_letter_a c = true) (opcode_name o) /\ opcode_name o <> [].
Proof. destruct o; split; try discriminate; repeat constructor. Qed.
Lemma opmode_letters o : Forall (fun c => is_letter_a c = true) (opmode_name o) /\ opmode_name o <> [].
Proof. destruct o; split; try discriminate; repeat constructor. Qed.

(* the mnemonic of a line is a word, and an acceptable spelling of the instruction's opcode and modifier *)
Lemma gen_op_facts L k legacy i next : layout_ok L -> tchar next = false ->
  piece_ok (PWord (gen_op L k legacy i)) next /\ starts_nonspace (PWord (gen_op L k legacy i)) /\
  op_text_ok legacy i (gen_op L k legacy i).
Proof.
  intros HL Hn. unfold gen_op.
  destruct (opcode_letters (i_op i)) as [O1 O2]. destruct (opmode_letters (i_md i)) as [M1 M2].
  destruct (recased_letters _ _ (lok_case L HL (k + 1)) O1) as [RO1 RO2].
  destruct (recased_letters _ _ (lok_case L HL (k + 2)) M1) as [RM1 RM2].
  set (o1 := ly_case L (k + 1) (opcode_name (i_op i))) in *. set (o2 := ly_case L (k + 2) (opmode_name (i_md i))) in *.
  assert (Ho1 : o1 <> []) by (intros E; rewrite E in RO2; destruct (opcode_name (i_op i)); [congruence|discriminate RO2]).
  destruct o1 as [|c0 r0] eqn:Eo1; [congruence|]. inversion RO1 as [|x y Hc0 Hr0]; subst.
  assert (Hletter_tchar : forall c, is_letter_a c = true -> tchar c = true /\ is_space_a c = false).
  { intros c Hc. unfold text_char. rewrite Hc. split; [reflexivity|]. unfold is_letter_a, is_upper_a, is_lower_a, is_space_a in *. lia. }
  assert (Ht2 : Forall (fun x => tchar x = true) (r0 ++ (if legacy then [] else [46] ++ o2))).
  { apply Forall_app. split.
    - eapply Forall_impl; [|exact Hr0]. intros c Hc. apply Hletter_tchar. exact Hc.
    - destruct legacy; [constructor|]. constructor; [reflexivity|]. eapply Forall_impl; [|exact RM1]. intros c Hc. apply Hletter_tchar. exact Hc. }
  split; [|split].
  - cbn [piece_ok]. exists c0, (r0 ++ (if legacy then [] else [46] ++ o2)). split; [reflexivity|].
    split; [rewrite Hc0; reflexivity|]. split; [exact Ht2|exact Hn].
  - exists c0. eexists. split; [reflexivity|]. apply Hletter_tchar. exact Hc0.
  - exists (c0 :: r0), o2. split; [reflexivity|].
    split; [rewrite <- Eo1; apply recased_lower; apply (lok_case L HL)|].
    split; [apply recased_lower; apply (lok_case L HL)|].
    split; [apply letters_no_dot; constructor; assumption|apply letters_no_dot; exact RM1].
Qed.

(* ---------- lines as blank runs and lexemes ---------- *)
Inductive closing := CTail (t : text) | CFinal (b : text) (p : piece).
Definition closing_text (c : closing) : text := match c with CTail t => t | CFinal b p => b ++ ptext p end.
Definition closing_toks (c : closing) : list token := match c with CTail t => newlines t | CFinal b p => newlines b ++ ptoks p end.

(* a trailing comment swallows what stands in front of the line feed (a carriage return) *)
Definition absorb (p : piece) (pre : text) : piece * text :=
  match p with PComment body => (PComment (body ++ pre), [10]) | _ => (p, pre ++ [10]) end.

Record gline := mkGL {
  gl_init : text -> list item;     (* all lexemes but the last, given the blank run in front of the line *)
  gl_last : item;                  (* the last lexeme: a number, or the trailing comment *)
  gl_elem : text -> elem }.        (* the element of the document, given what a trailing comment swallows *)
Definition gl_text (l : gline) : text := flat_map item_text (gl_init l []) ++ item_text (gl_last l).

Section Doc.
Variable L : layout.

Definition fill_g (k : N) (lead : text) : list item * text * list elem :=
  match ly_fill L k with
  | None => ([], lead, [])
  | Some None => ([], lead ++ gen_eol L (k + 1), [EBlank])
  | Some (Some c) => ([(lead, PComment (tl c ++ ly_eolpre L (k + 1)))], [10], [EComment (c ++ ly_eolpre L (k + 1))])
  end.

Fixpoint join_g (k : N) (ls : list gline) (lead : text) : list item * closing * list elem :=
  match ls with
  | [] => ([], CTail lead, [])
  | [l] =>
    if ly_final_nl L then
      let '(p', lead') := absorb (snd (gl_last l)) (ly_eolpre L k) in
      (gl_init l lead ++ [(fst (gl_last l), p')], CTail lead', [gl_elem l (ly_eolpre L k)])
    else (gl_init l lead, CFinal (fst (gl_last l)) (snd (gl_last l)), [gl_elem l []])
  | l :: t =>
    let '(p', lead1) := absorb (snd (gl_last l)) (ly_eolpre L k) in
    let '(fi, lead2, fe) := fill_g (k + 3) lead1 in
    let '(ri, cl, re) := join_g (k + 7) t lead2 in
    (gl_init l lead ++ [(fst (gl_last l), p')] ++ fi ++ ri, cl, gl_elem l (ly_eolpre L k) :: fe ++ re)
  end.

Hypothesis HL : layout_ok L.

Lemma remark_shape c : remark c -> c = 59 :: tl c /\ Forall (fun x => x <> 10) (tl c) /\ comment_plain c.
Proof. intros [body [-> [H1 H2]]]. cbn [tl]. auto. Qed.

(* ---------- what a filler contributes ---------- *)
Lemma fill_text k lead : let '(fi, lead', _) := fill_g k lead in flat_map item_text fi ++ lead' = lead ++ gen_fill L k.
Proof.
  unfold fill_g, gen_fill. destruct (ly_fill L k) as [[c|]|] eqn:E.
  - destruct (remark_shape c (lok_fill L HL k c E)) as [Ec _].
    cbn [flat_map item_text fst snd ptext app]. rewrite app_nil_r. unfold gen_eol. rewrite <- !app_assoc. cbn [app].
    rewrite Ec at 2. cbn [app]. rewrite <- !app_assoc. reflexivity.
  - cbn [flat_map app]. reflexivity.
  - cbn [flat_map app]. rewrite app_nil_r. reflexivity.
Qed.
Lemma fill_toks k lead : let '(fi, lead', fe) := fill_g k lead in
  flat_map item_toks fi ++ newlines lead' = newlines lead ++ flat_map (fun x => elem_toks x ++ [nl_tok]) fe.
Proof.
  unfold fill_g. destruct (ly_fill L k) as [[c|]|] eqn:E.
  - destruct (remark_shape c (lok_fill L HL k c E)) as [Ec _].
    cbn [flat_map item_toks fst snd ptoks app elem_toks]. rewrite app_nil_r. change (newlines [10]) with [nl_tok].
    unfold item_toks. cbn [fst snd ptoks]. rewrite <- app_assoc. cbn [app]. do 3 f_equal. rewrite Ec at 2. reflexivity.
  - cbn [flat_map app elem_toks]. rewrite newlines_app. unfold gen_eol. rewrite newlines_app, (hblank_newlines _ (lok_eolpre L HL (k + 1))). reflexivity.
  - cbn [flat_map app]. rewrite app_nil_r. reflexivity.
Qed.
End Doc.

(* ---------- what is required of a line ---------- *)
Definition spaces (x : text) : Prop := Forall (fun c => is_space_a c = true) x.
Record gline_ok (l : gline) : Prop := mkGok {
  go_lin_text : forall lead, flat_map item_text (gl_init l lead) = lead ++ flat_map item_text (gl_init l []);
  go_lin_toks : forall lead, flat_map item_toks (gl_init l lead) = newlines lead ++ flat_map item_toks (gl_init l []);
  go_toks : forall pre, hblank pre ->
    flat_map item_toks (gl_init l []) ++ newlines (fst (gl_last l)) ++ ptoks (fst (absorb (snd (gl_last l)) pre)) = elem_toks (gl_elem l pre);
  go_last : spaces (fst (gl_last l)) /\ final_ok (snd (gl_last l)) /\ starts_nonspace (snd (gl_last l));
  go_ok_eol : forall lead pre rest, spaces lead -> hblank pre ->
    items_ok (gl_init l lead ++ [(fst (gl_last l), fst (absorb (snd (gl_last l)) pre))]) (snd (absorb (snd (gl_last l)) pre) ++ rest);
  go_ok_eof : forall lead, spaces lead -> items_ok (gl_init l lead) (fst (gl_last l) ++ ptext (snd (gl_last l))) }.

Lemma items_ok_app a : forall b endt, items_ok a (flat_map item_text b ++ endt) -> items_ok b endt -> items_ok (a ++ b) endt.
Proof.
  induction a as [|x t IH]; intros b endt Ha Hb; [exact Hb|].
  cbn [app items_ok] in *. destruct Ha as [H1 [H2 [H3 H4]]]. split; [exact H1|]. split; [exact H2|].
  split; [rewrite flat_map_app, <- app_assoc; exact H3|apply IH; assumption].
Qed.

Lemma absorb_text p pre : final_ok p -> ptext (fst (absorb p pre)) ++ snd (absorb p pre) = ptext p ++ pre ++ [10].
Proof. destruct p; cbn [final_ok]; try contradiction; intros _; cbn [absorb fst snd ptext app]; rewrite <- ?app_assoc; reflexivity. Qed.
Lemma absorb_toks p pre : final_ok p -> hblank pre -> newlines (snd (absorb p pre)) = [nl_tok].
Proof.
  destruct p; cbn [final_ok]; try contradiction; intros _ Hp; cbn [absorb snd]; [|reflexivity].
  rewrite newlines_app, (hblank_newlines _ Hp). reflexivity.
Qed.
Lemma absorb_nil p : final_ok p -> ptoks (fst (absorb p [])) = ptoks p.
Proof. destruct p; cbn [final_ok]; try contradiction; intros _; cbn [absorb fst ptoks]; rewrite ?app_nil_r; reflexivity. Qed.
Lemma absorb_spaces p pre : final_ok p -> hblank pre -> spaces (snd (absorb p pre)) /\ snd (absorb p pre) <> [].
Proof.
  destruct p; cbn [final_ok]; try contradiction; intros _ Hp; cbn [absorb snd].
  - split; [apply Forall_app; split; [apply hblank_spaces; exact Hp|repeat constructor]|destruct pre; discriminate].
  - split; [repeat constructor|discriminate].
Qed.

Section Join.
Variable L : layout.
Hypothesis HL : layout_ok L.

Lemma gen_eol_spaces k : spaces (gen_eol L k).
Proof. unfold gen_eol. apply Forall_app. split; [apply hblank_spaces, (lok_eolpre L HL)|repeat constructor]. Qed.

Lemma fill_ok k lead endt : spaces lead -> let '(fi, lead', _) := fill_g L k lead in
  spaces lead' /\ (lead <> [] -> lead' <> []) /\ (items_ok fi (lead' ++ endt)).
Proof.
  intros Hl. unfold fill_g. destruct (ly_fill L k) as [[c|]|] eqn:E.
  - destruct (remark_shape c (lok_fill L HL k c E)) as [Ec [Hb _]].
    split; [repeat constructor|]. split; [discriminate|].
    cbn [items_ok fst snd flat_map app]. split; [exact Hl|]. split; [eexists _, _; split; [reflexivity|reflexivity]|].
    split; [|exact I]. cbn [piece_ok first_of hd]. split; [|reflexivity].
    apply Forall_app. split; [exact Hb|]. eapply Forall_impl; [|apply (lok_eolpre L HL (k + 1))]. intros x [_ Hx]. exact Hx.
  - split; [apply Forall_app; split; [exact Hl|apply gen_eol_spaces]|]. split; [intros _; unfold gen_eol; destruct lead, (ly_eolpre L (k + 1)); discriminate|exact I].
  - split; [exact Hl|]. split; [auto|exact I].
Qed.

Lemma join_text ls : Forall gline_ok ls -> forall k lead,
  let '(its, cl, _) := join_g L k ls lead in
  flat_map item_text its ++ closing_text cl = lead ++ gen_join L k (map gl_text ls).
Proof.
  induction ls as [|l t IH]; intros Hok k lead; [cbn; rewrite app_nil_r; reflexivity|].
  inversion Hok as [|x y Hl Ht]; subst. destruct (go_last l Hl) as [_ [Hf _]].
  destruct t as [|l2 t2].
  - cbn [join_g map gen_join]. destruct (ly_final_nl L).
    + destruct (absorb (snd (gl_last l)) (ly_eolpre L k)) as [p' lead'] eqn:Ea.
      rewrite flat_map_app. cbn [flat_map item_text fst snd closing_text]. rewrite app_nil_r, (go_lin_text l Hl lead).
      pose proof (absorb_text _ (ly_eolpre L k) Hf) as Et. rewrite Ea in Et. cbn [fst snd] in Et.
      unfold gl_text, item_text, gen_eol. rewrite <- !app_assoc. do 3 f_equal. exact Et.
    + cbn [closing_text]. rewrite (go_lin_text l Hl lead). unfold gl_text, item_text. rewrite <- !app_assoc, app_nil_r. reflexivity.
  - change (join_g L k (l :: l2 :: t2) lead) with
      (let '(p', lead1) := absorb (snd (gl_last l)) (ly_eolpre L k) in
       let '(fi, lead2, fe) := fill_g L (k + 3) lead1 in
       let '(ri, cl, re) := join_g L (k + 7) (l2 :: t2) lead2 in
       (gl_init l lead ++ [(fst (gl_last l), p')] ++ fi ++ ri, cl, gl_elem l (ly_eolpre L k) :: fe ++ re)).
    destruct (absorb (snd (gl_last l)) (ly_eolpre L k)) as [p' lead1] eqn:Ea.
    pose proof (fill_text L HL (k + 3) lead1) as Ef. destruct (fill_g L (k + 3) lead1) as [[fi lead2] fe].
    specialize (IH Ht (k + 7) lead2). destruct (join_g L (k + 7) (l2 :: t2) lead2) as [[ri cl] re].
    change (gen_join L k (map gl_text (l :: l2 :: t2)))
      with (gl_text l ++ gen_eol L k ++ gen_fill L (k + 3) ++ gen_join L (k + 7) (map gl_text (l2 :: t2))).
    rewrite !flat_map_app. cbn [flat_map item_text fst snd]. rewrite app_nil_r, (go_lin_text l Hl lead).
    pose proof (absorb_text _ (ly_eolpre L k) Hf) as Et. rewrite Ea in Et. cbn [fst snd] in Et.
    rewrite <- !app_assoc. rewrite IH. rewrite (app_assoc (flat_map item_text fi)), Ef.
    unfold gl_text, item_text, gen_eol. rewrite <- !app_assoc. do 3 f_equal.
    rewrite (app_assoc (ptext p')), Et. rewrite <- !app_assoc. reflexivity.
Qed.
End Join.

Section Join2.
Variable L : layout.
Hypothesis HL : layout_ok L.

Lemma doc_body_cons_ne x t fnl : t <> [] -> doc_body (x :: t) fnl = elem_toks x ++ nl_tok :: doc_body t fnl.
Proof. destruct t; [congruence|reflexivity]. Qed.
Lemma doc_body_app a : forall b fnl, b <> [] ->
  doc_body (a ++ b) fnl = flat_map (fun x => elem_toks x ++ [nl_tok]) a ++ doc_body b fnl.
Proof.
  induction a as [|x t IH]; intros b fnl Hb; [reflexivity|]. cbn [app flat_map].
  rewrite doc_body_cons_ne by (destruct t; [exact Hb|discriminate]). rewrite IH by exact Hb. rewrite <- !app_assoc. reflexivity.
Qed.

Lemma join_es_ne k ls lead : ls <> [] -> snd (join_g L k ls lead) <> [].
Proof.
  destruct ls as [|l t]; [congruence|]. intros _. destruct t as [|l2 t2].
  - cbn [join_g]. destruct (ly_final_nl L); [destruct (absorb _ _)|]; discriminate.
  - change (join_g L k (l :: l2 :: t2) lead) with
      (let '(p', lead1) := absorb (snd (gl_last l)) (ly_eolpre L k) in
       let '(fi, lead2, fe) := fill_g L (k + 3) lead1 in
       let '(ri, cl, re) := join_g L (k + 7) (l2 :: t2) lead2 in
       (gl_init l lead ++ [(fst (gl_last l), p')] ++ fi ++ ri, cl, gl_elem l (ly_eolpre L k) :: fe ++ re)).
    destruct (absorb _ _), (fill_g _ _ _) as [[? ?] ?], (join_g _ _ _ _) as [[? ?] ?]. discriminate.
Qed.

Lemma join_toks ls : Forall gline_ok ls -> ls <> [] -> forall k lead,
  let '(its, cl, es) := join_g L k ls lead in
  flat_map item_toks its ++ closing_toks cl = newlines lead ++ doc_body es (ly_final_nl L).
Proof.
  induction ls as [|l t IH]; intros Hok Hne k lead; [congruence|].
  inversion Hok as [|x y Hl Ht]; subst. destruct (go_last l Hl) as [_ [Hf _]].
  destruct t as [|l2 t2].
  - cbn [join_g]. destruct (ly_final_nl L) eqn:Efn.
    + pose proof (go_toks l Hl (ly_eolpre L k) (lok_eolpre L HL k)) as Gt.
      pose proof (absorb_toks _ (ly_eolpre L k) Hf (lok_eolpre L HL k)) as Ea.
      destruct (absorb (snd (gl_last l)) (ly_eolpre L k)) as [p' lead']. cbn [fst snd] in *.
      rewrite flat_map_app. cbn [flat_map closing_toks doc_body]. rewrite app_nil_r, Ea, (go_lin_toks l Hl lead).
      unfold item_toks at 2. cbn [fst snd]. rewrite <- Gt, <- !app_assoc. reflexivity.
    + pose proof (go_toks l Hl [] ltac:(constructor)) as Gt. rewrite (absorb_nil _ Hf) in Gt.
      cbn [closing_toks doc_body]. rewrite app_nil_r, (go_lin_toks l Hl lead), <- Gt, <- !app_assoc. reflexivity.
  - change (join_g L k (l :: l2 :: t2) lead) with
      (let '(p', lead1) := absorb (snd (gl_last l)) (ly_eolpre L k) in
       let '(fi, lead2, fe) := fill_g L (k + 3) lead1 in
       let '(ri, cl, re) := join_g L (k + 7) (l2 :: t2) lead2 in
       (gl_init l lead ++ [(fst (gl_last l), p')] ++ fi ++ ri, cl, gl_elem l (ly_eolpre L k) :: fe ++ re)).
    pose proof (go_toks l Hl (ly_eolpre L k) (lok_eolpre L HL k)) as Gt.
    pose proof (absorb_toks _ (ly_eolpre L k) Hf (lok_eolpre L HL k)) as Ea.
    destruct (absorb (snd (gl_last l)) (ly_eolpre L k)) as [p' lead1]. cbn [fst snd] in *.
    pose proof (fill_toks L HL (k + 3) lead1) as Ef. destruct (fill_g L (k + 3) lead1) as [[fi lead2] fe].
    pose proof (join_es_ne (k + 7) (l2 :: t2) lead2 ltac:(discriminate)) as Hre.
    specialize (IH Ht ltac:(discriminate) (k + 7) lead2). destruct (join_g L (k + 7) (l2 :: t2) lead2) as [[ri cl] re]. cbn [snd] in Hre.
    rewrite doc_body_cons_ne by (destruct fe; [exact Hre|discriminate]). rewrite doc_body_app by exact Hre.
    rewrite !flat_map_app. cbn [flat_map]. rewrite app_nil_r, (go_lin_toks l Hl lead).
    rewrite <- !app_assoc. rewrite IH. rewrite (app_assoc (flat_map item_toks fi)), Ef, Ea.
    unfold item_toks at 2. cbn [fst snd]. rewrite <- Gt. rewrite <- !app_assoc. reflexivity.
Qed.

Definition closing_ok (c : closing) : Prop :=
  match c with
  | CTail t => spaces t /\ t <> []
  | CFinal b p => spaces b /\ final_ok p /\ starts_nonspace p
  end.

Lemma join_ok ls : Forall gline_ok ls -> ls <> [] -> forall k lead, spaces lead ->
  let '(its, cl, _) := join_g L k ls lead in items_ok its (closing_text cl) /\ closing_ok cl.
Proof.
  induction ls as [|l t IH]; intros Hok Hne k lead Hlead; [congruence|].
  inversion Hok as [|x y Hl Ht]; subst. destruct (go_last l Hl) as [Hs [Hf Hn]].
  destruct t as [|l2 t2].
  - cbn [join_g]. destruct (ly_final_nl L).
    + pose proof (go_ok_eol l Hl lead (ly_eolpre L k) [] Hlead (lok_eolpre L HL k)) as Go.
      pose proof (absorb_spaces _ (ly_eolpre L k) Hf (lok_eolpre L HL k)) as Ha.
      destruct (absorb (snd (gl_last l)) (ly_eolpre L k)) as [p' lead']. cbn [fst snd] in *.
      rewrite app_nil_r in Go. cbn [closing_text closing_ok]. split; [exact Go|exact Ha].
    + cbn [closing_text closing_ok]. split; [apply (go_ok_eof l Hl lead Hlead)|auto].
  - change (join_g L k (l :: l2 :: t2) lead) with
      (let '(p', lead1) := absorb (snd (gl_last l)) (ly_eolpre L k) in
       let '(fi, lead2, fe) := fill_g L (k + 3) lead1 in
       let '(ri, cl, re) := join_g L (k + 7) (l2 :: t2) lead2 in
       (gl_init l lead ++ [(fst (gl_last l), p')] ++ fi ++ ri, cl, gl_elem l (ly_eolpre L k) :: fe ++ re)).
    pose proof (absorb_spaces _ (ly_eolpre L k) Hf (lok_eolpre L HL k)) as Ha.
    pose proof (fun rest => go_ok_eol l Hl lead (ly_eolpre L k) rest Hlead (lok_eolpre L HL k)) as Go.
    destruct (absorb (snd (gl_last l)) (ly_eolpre L k)) as [p' lead1]. cbn [fst snd] in *. destruct Ha as [Ha1 Ha2].
    pose proof (fun endt => fill_ok L HL (k + 3) lead1 endt Ha1) as Fo.
    pose proof (fill_text L HL (k + 3) lead1) as Ft.
    destruct (fill_g L (k + 3) lead1) as [[fi lead2] fe].
    assert (Hl2 : spaces lead2) by (destruct (Fo []) as [A _]; exact A).
    specialize (IH Ht ltac:(discriminate) (k + 7) lead2 Hl2).
    pose proof (join_text L HL (l2 :: t2) Ht (k + 7) lead2) as Jt.
    destruct (join_g L (k + 7) (l2 :: t2) lead2) as [[ri cl] re]. destruct IH as [IH1 IH2].
    split; [|exact IH2].
    rewrite app_assoc. apply items_ok_app; [|apply items_ok_app; [|exact IH1]].
    + (* the line itself: what follows begins with lead1 *)
      rewrite flat_map_app, <- app_assoc.
      replace (flat_map item_text fi ++ flat_map item_text ri ++ closing_text cl)
        with (lead1 ++ (gen_fill L (k + 3) ++ gen_join L (k + 7) (map gl_text (l2 :: t2)))).
      * apply Go.
      * rewrite Jt. rewrite app_assoc, <- Ft. rewrite <- !app_assoc. reflexivity.
    + (* the filler: what follows begins with lead2 *)
      rewrite Jt. destruct (Fo (gen_join L (k + 7) (map gl_text (l2 :: t2)))) as [_ [_ C]]. exact C.
Qed.
End Join2.

(* ---------- the lines of loadprint_gen ---------- *)
Definition fld_init (g : text) (sg : bool) (m a : N) : list item := if sg && (m / 2 <? a) then [(g, PSym 45)] else [].
Definition fld_lastitem (g : text) (sg : bool) (m a : N) : item :=
  if sg && (m / 2 <? a) then ([], PNum (dec_of_N (m - a))) else (g, PNum (dec_of_N a)).
Definition fld_its (g : text) (sg : bool) (m a : N) : list item := fld_init g sg m a ++ [fld_lastitem g sg m a].

Definition instr_gl (L : layout) (k : N) (legacy : bool) (m : N) (i : instr) : gline :=
  let sa := ly_signed L (k + 5) in let sb := ly_signed L (k + 9) in
  mkGL (fun lead =>
          [(lead ++ ly_optgap L k, PWord (gen_op L k legacy i)); (ly_gap L (k + 3), PSym (amode_char (i_am i)))]
          ++ fld_its (ly_gap L (k + 4)) sa m (i_a i)
          ++ [(ly_optgap L (k + 6), C03Lexer.PComma); (ly_gap L (k + 7), PSym (amode_char (i_bm i)))]
          ++ (match ly_comment L k with
              | Some _ => fld_its (ly_gap L (k + 8)) sb m (i_b i)
              | None => fld_init (ly_gap L (k + 8)) sb m (i_b i) end))
       (match ly_comment L k with
        | Some c => (ly_gap L (k + 11), PComment (tl c))
        | None => fld_lastitem (ly_gap L (k + 8)) sb m (i_b i) end)
       (fun pre => EInstr (gen_op L k legacy i) (amode_char (i_am i)) (fld_toks sa m (i_a i))
                          (amode_char (i_bm i)) (fld_toks sb m (i_b i))
                          (match ly_comment L k with Some c => Some (c ++ pre) | None => None end)).
Definition dir_gl (L : layout) (kw : text) (start : Z) : gline :=
  mkGL (fun lead => [(lead ++ ly_optgap L 2, PWord (ly_case L 3 kw))])
       (ly_gap L 4, PNum (dec_of_N (Z.to_N start)))
       (fun _ => EDir (ly_case L 3 kw) [num_tok (Z.to_N start)]).

Lemma fld_its_text g sg m a : flat_map item_text (fld_its g sg m a) = g ++ gen_field sg m a.
Proof.
  unfold fld_its, fld_init, fld_lastitem, gen_field. destruct (sg && (m / 2 <? a));
    cbn [flat_map app item_text fst snd ptext]; rewrite ?app_nil_r; rewrite <- ?app_assoc; reflexivity.
Qed.
Lemma fld_its_toks g sg m a : hblank g -> flat_map item_toks (fld_its g sg m a) = fld_toks sg m a.
Proof.
  intros Hg. unfold fld_its, fld_init, fld_lastitem, fld_toks. destruct (sg && (m / 2 <? a));
    cbn [flat_map app]; unfold item_toks; cbn [fst snd ptoks]; rewrite ?(hblank_newlines _ Hg); reflexivity.
Qed.

Lemma instr_gl_text L k legacy m i : layout_ok L -> gl_text (instr_gl L k legacy m i) = gen_line L k legacy m i.
Proof.
  intros HL. unfold gl_text, instr_gl, gen_line. cbn [gl_init gl_last].
  rewrite !flat_map_app, !fld_its_text. cbn [flat_map item_text fst snd ptext app]. rewrite !app_nil_r.
  unfold gen_op. destruct (ly_comment L k) as [c|] eqn:Ec.
  - destruct (remark_shape c (lok_comment L HL k c Ec)) as [Es _].
    rewrite fld_its_text. unfold item_text. cbn [fst snd ptext]. rewrite <- !app_assoc. cbn [app]. rewrite <- Es. reflexivity.
  - unfold fld_init, fld_lastitem, gen_field, item_text. destruct (ly_signed L (k + 9) && (m / 2 <? i_b i));
      cbn [flat_map item_text fst snd ptext app]; rewrite ?app_nil_r; rewrite <- !app_assoc; reflexivity.
Qed.
Lemma dir_gl_text L kw start : gl_text (dir_gl L kw start) = gen_dir L kw start.
Proof. unfold gl_text, dir_gl, gen_dir, item_text. cbn [gl_init gl_last flat_map fst snd ptext app]. rewrite app_nil_r, <- !app_assoc. reflexivity. Qed.

(* ---------- well-placedness of the lexemes of a line ---------- *)
Definition sep (c : N) : Prop := is_digit_a c = false /\ tchar c = false /\ c <> 61.
Lemma space_sep c : is_space_a c = true -> sep c.
Proof. unfold sep, text_char, is_space_a, is_digit_a, is_letter_a, is_upper_a, is_lower_a. intros H. repeat split; lia. Qed.
Lemma first_blank_sep b x rest : spaces b -> sep x -> sep (first_of (b ++ x :: rest)).
Proof. intros Hb Hx. destruct b as [|c r]; [exact Hx|]. inversion Hb; subst. apply space_sep. assumption. Qed.
Lemma first_gap_sep L k rest : layout_ok L -> sep (first_of (ly_gap L k ++ rest)).
Proof.
  intros HL. destruct (lok_gap L HL k) as [Hb Hne]. destruct (ly_gap L k) as [|c r]; [congruence|].
  inversion Hb as [|c' r' [Hc _] _]; subst. apply space_sep. exact Hc.
Qed.

Lemma psym_ok am next : sep next -> piece_ok (PSym (amode_char am)) next /\ starts_nonspace (PSym (amode_char am)).
Proof.
  intros [_ [_ Hn]]. destruct (amode_char_facts am) as [S1 S2]. split.
  - cbn [piece_ok]. destruct S2 as [S|S]; [left; exact S|right; split; [exact S|exact Hn]].
  - eexists _, _. split; [reflexivity|exact S1].
Qed.
Lemma pnum_ok n next : sep next -> piece_ok (PNum (dec_of_N n)) next /\ starts_nonspace (PNum (dec_of_N n)) /\ final_ok (PNum (dec_of_N n)).
Proof.
  intros [Hn _]. split; [apply num_piece_ok; exact Hn|]. destruct (dec_first n) as [c0 [l [E D]]].
  destruct (dec_lead n) as [c1 [l1 [E1 Lz]]]. destruct (dec_of_N_spec n) as [_ [Dg _]]. split.
  - exists c0, l. split; [exact E|]. unfold is_digit_a in D. unfold is_space_a. lia.
  - cbn [final_ok]. exists c1, l1. auto.
Qed.

Lemma fld_items_ok g sg m a rest endt : spaces g ->
  sep (first_of (flat_map item_text rest ++ endt)) -> items_ok rest endt -> items_ok (fld_its g sg m a ++ rest) endt.
Proof.
  intros Hg Hs Hr. unfold fld_its, fld_init, fld_lastitem. destruct (sg && (m / 2 <? a)).
  - cbn [app items_ok fst snd]. split; [exact Hg|]. split; [eexists _, _; split; reflexivity|]. split; [cbn [piece_ok]; left; reflexivity|].
    split; [constructor|]. destruct (pnum_ok (m - a) _ Hs) as [P1 [P2 _]]. split; [exact P2|]. split; [exact P1|exact Hr].
  - cbn [app items_ok fst snd]. split; [exact Hg|]. destruct (pnum_ok a _ Hs) as [P1 [P2 _]]. split; [exact P2|]. split; [exact P1|exact Hr].
Qed.
Lemma fld_last_facts g sg m a : spaces g ->
  spaces (fst (fld_lastitem g sg m a)) /\ final_ok (snd (fld_lastitem g sg m a)) /\ starts_nonspace (snd (fld_lastitem g sg m a)) /\
  (forall pre, absorb (snd (fld_lastitem g sg m a)) pre = (snd (fld_lastitem g sg m a), pre ++ [10])).
Proof.
  intros Hg. unfold fld_lastitem. destruct (sg && (m / 2 <? a)); cbn [fst snd].
  - destruct (pnum_ok (m - a) 0 ltac:(repeat split; discriminate)) as [_ [P2 P3]]. split; [constructor|]. auto.
  - destruct (pnum_ok a 0 ltac:(repeat split; discriminate)) as [_ [P2 P3]]. auto.
Qed.
(* the part of a field in front of its number, when the number closes the input *)
Lemma fld_init_ok g sg m a : spaces g ->
  items_ok (fld_init g sg m a) (fst (fld_lastitem g sg m a) ++ ptext (snd (fld_lastitem g sg m a))).
Proof.
  intros Hg. unfold fld_init, fld_lastitem. destruct (sg && (m / 2 <? a)); [|exact I].
  cbn [items_ok fst snd]. split; [exact Hg|]. split; [eexists _, _; split; reflexivity|]. split; [cbn [piece_ok]; left; reflexivity|exact I].
Qed.
Lemma fld_init_last g sg m a rest : flat_map item_text (fld_init g sg m a) ++ item_text (fld_lastitem g sg m a) ++ rest =
  flat_map item_text (fld_its g sg m a) ++ rest.
Proof. unfold fld_its. rewrite flat_map_app. cbn [flat_map]. rewrite app_nil_r, <- app_assoc. reflexivity. Qed.

Lemma hb_sp L k : layout_ok L -> spaces (ly_gap L k) /\ spaces (ly_optgap L k) /\ spaces (ly_eolpre L k).
Proof. intros HL. repeat split; apply hblank_spaces; [apply (lok_gap L HL)|apply (lok_optgap L HL)|apply (lok_eolpre L HL)]. Qed.

Lemma dir_gl_ok L kw start : layout_ok L -> (kw = s2t "ORG" \/ kw = s2t "END") -> gline_ok (dir_gl L kw start).
Proof.
  intros HL Hk. destruct (lok_gap L HL 4) as [G4 G4n]. pose proof (lok_optgap L HL 2) as O2.
  assert (Hw : forall next, tchar next = false -> piece_ok (PWord (ly_case L 3 kw)) next /\ starts_nonspace (PWord (ly_case L 3 kw))).
  { intros next Hn.
    assert (Hl : Forall (fun c => is_letter_a c = true) kw) by (destruct Hk as [-> | ->]; repeat constructor).
    destruct (recased_letters _ _ (lok_case L HL 3) Hl) as [R1 R2].
    destruct (ly_case L 3 kw) as [|c0 r0] eqn:E; [destruct Hk as [-> | ->]; discriminate R2|].
    inversion R1 as [|x y Hc0 Hr0]; subst.
    assert (Ht : forall c, is_letter_a c = true -> tchar c = true /\ is_space_a c = false).
    { intros c Hc. unfold text_char. rewrite Hc. split; [reflexivity|]. unfold is_letter_a, is_upper_a, is_lower_a, is_space_a in *. lia. }
    split; [cbn [piece_ok]; exists c0, r0; split; [reflexivity|]; split; [rewrite Hc0; reflexivity|];
            split; [eapply Forall_impl; [|exact Hr0]; intros c Hc; apply Ht; exact Hc|exact Hn]
           |exists c0, r0; split; [reflexivity|apply Ht; exact Hc0]]. }
  destruct (pnum_ok (Z.to_N start) 0 ltac:(repeat split; discriminate)) as [_ [P2 P3]].
  constructor; cbn [dir_gl gl_init gl_last gl_elem fst snd].
  - intros lead. cbn [flat_map item_text fst snd app]. rewrite !app_nil_r, <- !app_assoc. reflexivity.
  - intros lead. cbn [flat_map app]. unfold item_toks. cbn [fst snd]. rewrite !app_nil_r, !newlines_app, <- !app_assoc. reflexivity.
  - intros pre Hp. cbn [flat_map app absorb fst ptoks elem_toks]. unfold item_toks. cbn [fst snd ptoks app].
    rewrite (hblank_newlines _ O2), (hblank_newlines _ G4). reflexivity.
  - split; [apply hblank_spaces; exact G4|]. split; assumption.
  - intros lead pre rest Hlead Hp. cbn [absorb fst snd app items_ok].
    assert (S1 : sep (first_of (ly_gap L 4 ++ dec_of_N (Z.to_N start) ++ (pre ++ [10]) ++ rest))) by (apply first_gap_sep; exact HL).
    destruct (Hw _ (proj1 (proj2 S1))) as [W1 W2].
    split; [apply Forall_app; split; [exact Hlead|apply hblank_spaces; exact O2]|]. split; [exact W2|].
    split; [cbn [flat_map item_text fst snd ptext app]; rewrite app_nil_r, <- app_assoc; exact W1|].
    split; [apply hblank_spaces; exact G4|]. split; [exact P2|].
    split; [|exact I]. cbn [flat_map app]. apply num_piece_ok.
    assert (S2 : sep (first_of (pre ++ 10 :: rest))) by (apply first_blank_sep; [apply hblank_spaces; exact Hp|repeat split; discriminate]).
    rewrite <- app_assoc. exact (proj1 S2).
  - intros lead Hlead. cbn [items_ok fst snd flat_map app ptext].
    assert (S1 : sep (first_of (ly_gap L 4 ++ dec_of_N (Z.to_N start)))) by (apply first_gap_sep; exact HL).
    destruct (Hw _ (proj1 (proj2 S1))) as [W1 W2].
    split; [apply Forall_app; split; [exact Hlead|apply hblank_spaces; exact O2]|]. split; [exact W2|]. split; [exact W1|exact I].
Qed.

Lemma item_text_lead lead b p : item_text (lead ++ b, p) = lead ++ item_text (b, p).
Proof. unfold item_text. cbn [fst snd]. rewrite <- app_assoc. reflexivity. Qed.
Lemma item_toks_lead lead b p : item_toks (lead ++ b, p) = newlines lead ++ item_toks (b, p).
Proof. unfold item_toks. cbn [fst snd]. rewrite newlines_app, <- app_assoc. reflexivity. Qed.

Lemma instr_gl_ok L k legacy m i : layout_ok L -> gline_ok (instr_gl L k legacy m i).
Proof.
  intros HL.
  destruct (hb_sp L k HL) as [_ [O0 _]]. destruct (hb_sp L (k + 3) HL) as [G3 _]. destruct (hb_sp L (k + 4) HL) as [G4 _].
  destruct (hb_sp L (k + 6) HL) as [_ [O6 _]]. destruct (hb_sp L (k + 7) HL) as [G7 _]. destruct (hb_sp L (k + 8) HL) as [G8 _].
  destruct (hb_sp L (k + 11) HL) as [G11 _].
  pose proof (lok_gap L HL) as HG. pose proof (lok_optgap L HL) as HO.
  set (sa := ly_signed L (k + 5)). set (sb := ly_signed L (k + 9)).
  set (am := amode_char (i_am i)). set (bm := amode_char (i_bm i)).
  (* the part of the line from the comma on, given what follows the B field *)
  assert (TailOK : forall restB endt, sep (first_of (flat_map item_text restB ++ endt)) -> items_ok restB endt ->
            items_ok ([(ly_optgap L (k + 6), C03Lexer.PComma); (ly_gap L (k + 7), PSym bm)] ++ fld_its (ly_gap L (k + 8)) sb m (i_b i) ++ restB) endt).
  { intros restB endt Hs Hr. cbn [app items_ok fst snd].
    split; [exact O6|]. split; [eexists _, _; split; reflexivity|]. split; [exact I|].
    split; [exact G7|].
    assert (S : sep (first_of (flat_map item_text (fld_its (ly_gap L (k + 8)) sb m (i_b i) ++ restB) ++ endt))).
    { rewrite flat_map_app, fld_its_text, <- !app_assoc. apply first_gap_sep. exact HL. }
    destruct (psym_ok (i_bm i) _ S) as [P1 P2]. split; [exact P2|]. split; [exact P1|].
    apply fld_items_ok; assumption. }
  assert (HeadOK : forall lead rest endt, spaces lead ->
            items_ok rest endt ->
            first_of (flat_map item_text rest ++ endt) = first_of (ly_optgap L (k + 6) ++ [44]) ->
            items_ok ([(lead ++ ly_optgap L k, PWord (gen_op L k legacy i)); (ly_gap L (k + 3), PSym am)]
                      ++ fld_its (ly_gap L (k + 4)) sa m (i_a i) ++ rest) endt).
  { intros lead rest endt Hlead Hr Hf. cbn [app items_ok fst snd].
    assert (S3 : sep (first_of (flat_map item_text ((ly_gap L (k + 3), PSym am) :: fld_its (ly_gap L (k + 4)) sa m (i_a i) ++ rest) ++ endt))).
    { cbn [flat_map]. unfold item_text. cbn [fst snd]. rewrite <- !app_assoc. apply first_gap_sep. exact HL. }
    destruct (gen_op_facts L k legacy i _ HL (proj1 (proj2 S3))) as [W1 [W2 _]].
    split; [apply Forall_app; split; assumption|]. split; [exact W2|]. split; [exact W1|].
    split; [exact G3|].
    assert (S4 : sep (first_of (flat_map item_text (fld_its (ly_gap L (k + 4)) sa m (i_a i) ++ rest) ++ endt))).
    { rewrite flat_map_app, fld_its_text, <- !app_assoc. apply first_gap_sep. exact HL. }
    destruct (psym_ok (i_am i) _ S4) as [P1 P2]. split; [exact P2|]. split; [exact P1|].
    apply fld_items_ok; [exact G4| |exact Hr].
    rewrite Hf. apply first_blank_sep; [exact O6|repeat split; discriminate]. }
  assert (CommaFirst : forall restB endt,
            first_of (flat_map item_text ([(ly_optgap L (k + 6), C03Lexer.PComma); (ly_gap L (k + 7), PSym bm)] ++ restB) ++ endt)
            = first_of (ly_optgap L (k + 6) ++ [44])).
  { intros restB endt. cbn [app flat_map]. unfold item_text at 1. cbn [fst snd ptext]. rewrite <- !app_assoc. cbn [app].
    destruct (ly_optgap L (k + 6)); reflexivity. }
  constructor; cbn [instr_gl gl_init gl_last gl_elem].
  - intros lead. cbn [app flat_map]. rewrite item_text_lead, <- app_assoc. reflexivity.
  - intros lead. cbn [app flat_map]. rewrite item_toks_lead, <- app_assoc. reflexivity.
  - intros pre Hp. fold sa sb am bm.
    assert (IB : forall b p, hblank b -> item_toks (b, p) = ptoks p).
    { intros b p Hb. unfold item_toks. cbn [fst snd]. rewrite (hblank_newlines _ Hb). reflexivity. }
    rewrite !flat_map_app. cbn [flat_map]. rewrite !app_nil_r.
    rewrite (IB _ _ (HO k)), (IB _ _ (proj1 (HG (k + 3)))), (IB _ _ (HO (k + 6))), (IB _ _ (proj1 (HG (k + 7)))).
    rewrite (fld_its_toks _ sa m (i_a i) (proj1 (HG (k + 4)))).
    cbn [ptoks elem_toks]. destruct (ly_comment L k) as [c|] eqn:Ec.
    + destruct (remark_shape c (lok_comment L HL k c Ec)) as [Es _].
      rewrite (fld_its_toks _ sb m (i_b i) (proj1 (HG (k + 8)))).
      cbn [fst snd absorb ptoks]. rewrite (hblank_newlines _ (proj1 (HG (k + 11)))).
      rewrite <- !app_assoc. cbn [app]. rewrite Es at 2. reflexivity.
    + destruct (fld_last_facts (ly_gap L (k + 8)) sb m (i_b i) G8) as [_ [_ [_ Ab]]]. rewrite Ab. cbn [fst].
      pose proof (fld_its_toks _ sb m (i_b i) (proj1 (HG (k + 8)))) as Fb. unfold fld_its in Fb. rewrite flat_map_app in Fb.
      cbn [flat_map] in Fb. rewrite app_nil_r in Fb. unfold item_toks at 2 in Fb.
      rewrite <- !app_assoc. cbn [app]. rewrite <- Fb. rewrite <- ?app_assoc. reflexivity.
  - destruct (ly_comment L k) as [c|] eqn:Ec.
    + destruct (remark_shape c (lok_comment L HL k c Ec)) as [_ [Hb _]]. cbn [fst snd].
      split; [exact G11|]. split; [exact Hb|eexists _, _; split; reflexivity].
    + destruct (fld_last_facts (ly_gap L (k + 8)) sb m (i_b i) G8) as [F1 [F2 [F3 _]]]. auto.
  - intros lead pre rest Hlead Hp. fold sa sb am bm. destruct (ly_comment L k) as [c|] eqn:Ec.
    + destruct (remark_shape c (lok_comment L HL k c Ec)) as [_ [Hb _]]. cbn [fst snd absorb].
      rewrite <- !app_assoc.
      apply HeadOK; [exact Hlead| |apply CommaFirst].
      apply TailOK.
      * cbn [flat_map]. unfold item_text. cbn [fst snd]. rewrite <- !app_assoc. apply first_gap_sep. exact HL.
      * cbn [items_ok fst snd flat_map app]. split; [exact G11|]. split; [eexists _, _; split; reflexivity|]. split; [|exact I].
        cbn [piece_ok first_of hd]. split; [|reflexivity]. apply Forall_app. split; [exact Hb|].
        eapply Forall_impl; [|exact Hp]. intros x [_ Hx]. exact Hx.
    + destruct (fld_last_facts (ly_gap L (k + 8)) sb m (i_b i) G8) as [_ [_ [_ Ab]]]. rewrite Ab. cbn [fst snd].
      replace ((([(lead ++ ly_optgap L k, PWord (gen_op L k legacy i)); (ly_gap L (k + 3), PSym am)] ++
                fld_its (ly_gap L (k + 4)) sa m (i_a i) ++
                [(ly_optgap L (k + 6), C03Lexer.PComma); (ly_gap L (k + 7), PSym bm)] ++ fld_init (ly_gap L (k + 8)) sb m (i_b i)) ++
               [(fst (fld_lastitem (ly_gap L (k + 8)) sb m (i_b i)), snd (fld_lastitem (ly_gap L (k + 8)) sb m (i_b i)))]))
        with ([(lead ++ ly_optgap L k, PWord (gen_op L k legacy i)); (ly_gap L (k + 3), PSym am)] ++
              fld_its (ly_gap L (k + 4)) sa m (i_a i) ++
              ([(ly_optgap L (k + 6), C03Lexer.PComma); (ly_gap L (k + 7), PSym bm)] ++ fld_its (ly_gap L (k + 8)) sb m (i_b i) ++ [])).
      2: { unfold fld_its. rewrite <- surjective_pairing. rewrite app_nil_r, <- !app_assoc. reflexivity. }
      apply HeadOK; [exact Hlead| |apply CommaFirst].
      apply TailOK; [|exact I]. cbn [flat_map app]. rewrite <- app_assoc.
      apply first_blank_sep; [apply hblank_spaces; exact Hp|repeat split; discriminate].
  - intros lead Hlead. fold sa sb am bm. destruct (ly_comment L k) as [c|] eqn:Ec.
    + cbn [fst snd ptext]. apply HeadOK; [exact Hlead| |apply CommaFirst].
      apply TailOK; [|exact I]. cbn [flat_map app]. apply first_gap_sep. exact HL.
    + destruct (fld_last_facts (ly_gap L (k + 8)) sb m (i_b i) G8) as [F1 [F2 [F3 _]]].
      apply HeadOK; [exact Hlead| |apply CommaFirst].
      cbn [app items_ok fst snd].
      split; [exact O6|]. split; [eexists _, _; split; reflexivity|]. split; [exact I|].
      split; [exact G7|].
      assert (S : sep (first_of (flat_map item_text (fld_init (ly_gap L (k + 8)) sb m (i_b i)) ++
                                 fst (fld_lastitem (ly_gap L (k + 8)) sb m (i_b i)) ++ ptext (snd (fld_lastitem (ly_gap L (k + 8)) sb m (i_b i)))))).
      { change (fst ?x ++ ptext (snd ?x)) with (item_text x). rewrite <- (app_nil_r (item_text _)), fld_init_last, fld_its_text, <- !app_assoc.
        apply first_gap_sep. exact HL. }
      destruct (psym_ok (i_bm i) _ S) as [P1 P2]. split; [exact P2|]. split; [exact P1|].
      apply fld_init_ok. exact G8.
Qed.
