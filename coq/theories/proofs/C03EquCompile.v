(* C03EquCompile.v — the compiler stage on programs with EQU definitions, against the reference
   meaning: the reference substitutes names pass by pass with the definitions as written, the
   compiler with its table of resolved values (C03Equ); both evaluators agree on the resulting
   token list (C07Inverse). *)
From GM Require Import Base Text Token Lexer Scanner ExprSpec ExprEval ForExpand Parser Sim Compile
     Prog Meaning AsmSpec C03Lexer C03Proof C06Proof C07Parser C07Signs C07Proof C07Model C07Inverse C10Proof C14Proof
     EquFuel SubstFuel C14Expand C03Equ C09Proof C09Parse C09Compile C09GenCompile C03Parse C03Compile.
From Coq Require Import Lia ZifyN ZifyNat ZifyBool.
Ltac Zify.zify_post_hook ::= Z.div_mod_to_equations.
Open Scope Z_scope.

Section Passes.
Variable spell : N -> text.
Variable cf : mconf.
Variable ev : env.
Variable ls : labels.
Variable raw : symtab.
Variable labtab : labtab.
Variable se : list token.
Variable m i : Z.

Notation tau := (ntok_tok spell).

(* the compiler's tables say what the reference's say, name by name *)
Definition tables_ok : Prop :=
  forall id,
    match predefined_value cf id with
    | Some v => 0 <= v /\ sym_find (spell id) raw = Some [num_tok (Z.to_N v)]
    | None =>
      match env_find id ev with
      | Some d => sym_find (spell id) raw = Some (etoks spell d)
      | None =>
        match lab_find' id ls with
        | Some a => sym_find (spell id) raw = None /\ lab_find (spell id) labtab = Some a /\ Z.rem (a - i) m = a - i
        | None => True
        end
      end
    end.
Hypothesis Htab : tables_ok.

(* the reference's pass, token by token *)
Definition spe_tok (t : ntok) : option (list ntok) :=
  match t with
  | TE _ => Some [t]
  | TN id =>
    match predefined_value cf id with
    | Some v => Some (num_toks v)
    | None =>
      match env_find id ev with
      | Some d => Some (nprint d)
      | None => match lab_find' id ls with Some a => Some (num_toks (a - i)) | None => None end
      end
    end
  end.
Fixpoint spe_all (l : list ntok) : option (list ntok) :=
  match l with
  | [] => Some []
  | t :: r => match spe_tok t, spe_all r with Some a, Some b => Some (a ++ b) | _, _ => None end
  end.
Lemma subst_pass_spe l : subst_pass cf ev ls i l = spe_all l.
Proof.
  unfold subst_pass.
  assert (G : forall acc, fold_left (fun acc t =>
               match acc with
               | None => None
               | Some out =>
                 match t with
                 | TE _ => Some (out ++ [t])
                 | TN id =>
                   match predefined_value cf id with
                   | Some v => Some (out ++ num_toks v)
                   | None =>
                     match env_find id ev with
                     | Some d => Some (out ++ nprint d)
                     | None => match lab_find' id ls with
                               | Some a => Some (out ++ num_toks (a - i))
                               | None => None
                               end
                     end
                   end
                 end
               end) l acc = match acc, spe_all l with Some out, Some b => Some (out ++ b) | _, _ => None end).
  { induction l as [|t r IH]; intros acc.
    - cbn. destruct acc; [rewrite app_nil_r|]; reflexivity.
    - cbn [fold_left spe_all]. rewrite IH. destruct acc as [out|]; [|destruct (spe_tok t), (spe_all r); reflexivity].
      destruct t as [e|id]; cbn [spe_tok].
      + destruct (spe_all r); [rewrite <- app_assoc|]; reflexivity.
      + destruct (predefined_value cf id) as [v|]; [destruct (spe_all r); [rewrite <- app_assoc|]; reflexivity|].
        destruct (env_find id ev) as [d|]; [destruct (spe_all r); [rewrite <- app_assoc|]; reflexivity|].
        destruct (lab_find' id ls) as [a|]; [|reflexivity]. destruct (spe_all r); [rewrite <- app_assoc|]; reflexivity. }
  rewrite G. destruct (spe_all l); reflexivity.
Qed.

Lemma num_toks_tau v : map tau (num_toks v) = if v <? 0 then [minus_tok; num_tok (Z.to_N (- v))] else [num_tok (Z.to_N v)].
Proof. unfold num_toks. destruct (v <? 0); reflexivity. Qed.

(* one pass of the reference is one pass of the compiler's substitution with the definitions as written *)
Lemma pass_agrees : forall l l', spe_all l = Some l' ->
  expand_all m (mkC raw labtab se) i (map tau l) = Some (map tau l').
Proof.
  induction l as [|t r IH]; intros l' H; cbn [spe_all] in H.
  - inversion H; subst. reflexivity.
  - destruct (spe_tok t) as [a|] eqn:Ea; [|discriminate]. destruct (spe_all r) as [b|] eqn:Eb; [|discriminate]. inversion H; subst l'.
    cbn [map expand_all]. rewrite (IH b eq_refl). rewrite map_app.
    assert (Et : expand_tok m (mkC raw labtab se) i (tau t) = Some (map tau a)).
    { destruct t as [e|id]; cbn [spe_tok] in Ea.
      - inversion Ea; subst a. cbn [ntok_tok]. unfold expand_tok. destruct e as [n|o| |]; reflexivity.
      - pose proof (Htab id) as Hid. unfold expand_tok. cbn [ntok_tok t_typ t_val c_values c_labels].
        destruct (predefined_value cf id) as [v|].
        + inversion Ea; subst a. destruct Hid as [Hv Hs]. rewrite Hs. rewrite num_toks_tau. replace (v <? 0) with false by lia. reflexivity.
        + destruct (env_find id ev) as [d|].
          * inversion Ea; subst a. rewrite Hid. reflexivity.
          * destruct (lab_find' id ls) as [a0|]; [|discriminate Ea]. inversion Ea; subst a. destruct Hid as [H1 [H2 H3]].
            rewrite H1, H2. cbv zeta. rewrite H3, num_toks_tau. destruct (a0 - i <? 0); reflexivity. }
    rewrite Et. reflexivity.
Qed.

Lemma all_te_tau l : all_te l = true -> map tau l = map inj (strip l).
Proof.
  unfold all_te, strip. induction l as [|t r IH]; intros H; [reflexivity|]. cbn [forallb] in H. apply andb_prop in H. destruct H as [H1 H2].
  destruct t as [e|id]; [|discriminate H1]. cbn [map flat_map app ntok_tok]. rewrite (IH H2). reflexivity.
Qed.

(* the reference's substitution loop is a number of such passes *)
Lemma subst_all_passes : forall f l r, subst_all f cf ev ls i l = Some r ->
  exists k, Pk raw labtab se m i k (map tau l) = Some (map inj r).
Proof.
  induction f as [|f IH]; intros l r H; [discriminate|]. cbn [subst_all] in H. fold (all_te l) in H. fold (strip l) in H.
  destruct (all_te l) eqn:Ea.
  - inversion H; subst. exists 0%nat. cbn [Pk]. rewrite (all_te_tau l Ea). reflexivity.
  - rewrite subst_pass_spe in H. destruct (spe_all l) as [l'|] eqn:Es; [|discriminate].
    destruct (IH l' r H) as [k Hk]. exists (S k). cbn [Pk]. rewrite (pass_agrees l l' Es). exact Hk.
Qed.

(* number tokens stay non-negative *)
Definition nn_ntok (t : ntok) : Prop := match t with TE (ENum n) => 0 <= n | _ => True end.
Definition env_nn : Prop := forall id d, env_find id ev = Some d -> Forall nn_ntok (nprint d).
Hypothesis Henv : env_nn.

Lemma num_toks_nn v : Forall nn_ntok (num_toks v).
Proof. unfold num_toks. destruct (v <? 0) eqn:E; repeat constructor; cbn; lia. Qed.
Lemma spe_all_nn : forall l l', Forall nn_ntok l -> spe_all l = Some l' -> Forall nn_ntok l'.
Proof.
  induction l as [|t r IH]; intros l' Hn H; cbn [spe_all] in H.
  - inversion H; subst. constructor.
  - destruct (spe_tok t) as [a|] eqn:Ea; [|discriminate]. destruct (spe_all r) as [b|] eqn:Eb; [|discriminate]. inversion H; subst l'.
    inversion Hn as [|x y Ht Hr]; subst. apply Forall_app. split; [|apply (IH b Hr eq_refl)].
    destruct t as [e|id]; cbn [spe_tok] in Ea.
    + inversion Ea; subst. constructor; [exact Ht|constructor].
    + destruct (predefined_value cf id) as [v|]; [inversion Ea; subst; apply num_toks_nn|].
      destruct (env_find id ev) as [d|] eqn:Ee; [inversion Ea; subst; apply (Henv id d Ee)|].
      destruct (lab_find' id ls) as [a0|]; [|discriminate Ea]. inversion Ea; subst. apply num_toks_nn.
Qed.
Lemma subst_all_nn : forall f l r, Forall nn_ntok l -> subst_all f cf ev ls i l = Some r -> Forall nonneg_tok r.
Proof.
  induction f as [|f IH]; intros l r Hn H; [discriminate|]. cbn [subst_all] in H. fold (all_te l) in H. fold (strip l) in H.
  destruct (all_te l) eqn:Ea.
  - inversion H; subst. clear - Hn. unfold strip. induction l as [|t t0 IHl]; [constructor|]. inversion Hn as [|x y Hx Hy]; subst.
    destruct t as [e|id]; cbn [flat_map app]; [constructor; [destruct e; exact Hx || exact I|apply IHl; exact Hy]|apply IHl; exact Hy].
  - rewrite subst_pass_spe in H. destruct (spe_all l) as [l'|] eqn:Es; [|discriminate].
    apply (IH l' r (spe_all_nn l l' Hn Es) H).
Qed.

(* ---------- an operand ---------- *)
Variable res : symtab.
Hypothesis Hres : expand_expressions raw (build_graph raw) = Some (Some res).

Theorem operand_equ f e v : Forall nn_ntok (nprint e) -> value_at cf ev ls i e = MV v ->
  exists x, expand_expression (S (S (S f))) m (mkC res labtab se) i (etoks spell e) = Some (Some x) /\ evaluate_expression x = EOk v.
Proof.
  intros Hn H. unfold value_at in H.
  destruct (subst_all (S (S (length ev))) cf ev ls i (nprint e)) as [r|] eqn:Es; [|discriminate].
  destruct (eval_tokens r) as [w|] eqn:Ew; [|discriminate]. destruct (in_int32 w) eqn:Ei; [|discriminate]. inversion H; subst w.
  destruct (subst_all_passes _ _ _ Es) as [k Hk].
  exists (map inj r). split.
  - apply (equ_textual raw res labtab se m i k (etoks spell e) (map inj r) f Hres Hk). apply inj_not_text.
  - rewrite (evaluate_accepted r v (subst_all_nn _ _ _ Hn Es) Ew). rewrite <- in_int32_ok, Ei. reflexivity.
Qed.
End Passes.
