(* C03EquCompile.v — the compiler stage on programs with EQU definitions, against the reference
   meaning: the reference substitutes names pass by pass with the definitions as written, the
   compiler with its table of resolved values (C03Equ); both evaluators agree on the resulting
   token list (C07Inverse). *)
From GM Require Import Base Text Token Lexer Scanner ExprSpec ExprEval ForExpand Parser Sim Compile
     Prog Meaning AsmSpec C03Lexer C03Proof C06Proof C07Parser C07Signs C07Proof C07Model C07Inverse C10Proof C14Proof
     EquFuel SubstFuel C14Expand C03Equ C09Proof C09Parse C09Compile C09GenCompile C03Parse C03Compile.
From Coq Require Import Lia ZifyN ZifyNat ZifyBool.
Ltac Zify.zify_post_hook ::= Z.div_mod_to_equations.
Open Scope Z_scope.

Section Passes.
Variable spell : N -> text.
Variable cf : mconf.
Variable ev : env.
Variable ls : labels.
Variable raw : symtab.
Variable labtab : labtab.
Variable se : list token.
Variable m i : Z.

Notation tau := (ntok_tok spell).

(* the compiler's tables say what the reference's say, name by name *)
Definition tables_ok : Prop :=
  forall id,
    match predefined_value cf id with
    | Some v => 0 <= v /\ sym_find (spell id) raw = Some [num_tok (Z.to_N v)]
    | None =>
      match env_find id ev with
      | Some d => sym_find (spell id) raw = Some (etoks spell d)
      | None =>
        match lab_find' id ls with
        | Some a => sym_find (spell id) raw = None /\ lab_find (spell id) labtab = Some a /\ Z.rem (a - i) m = a - i
        | None => True
        end
      end
    end.
Hypothesis Htab : tables_ok.

(* the reference's pass, token by token *)
Definition spe_tok (t : ntok) : option (list ntok) :=
  match t with
  | TE _ => Some [t]
  | TN id =>
    match predefined_value cf id with
    | Some v => Some (num_toks v)
    | None =>
      match env_find id ev with
      | Some d => Some (nprint d)
      | None => match lab_find' id ls with Some a => Some (num_toks (a - i)) | None => None end
      end
    end
  end.
Fixpoint spe_all (l : list ntok) : option (list ntok) :=
  match l with
  | [] => Some []
  | t :: r => match spe_tok t, spe_all r with Some a, Some b => Some (a ++ b) | _, _ => None end
  end.
Lemma subst_pass_spe l : subst_pass cf ev ls i l = spe_all l.
Proof.
  unfold subst_pass.
  assert (G : forall acc, fold_left (fun acc t =>
               match acc with
               | None => None
               | Some out =>
                 match t with
                 | TE _ => Some (out ++ [t])
                 | TN id =>
                   match predefined_value cf id with
                   | Some v => Some (out ++ num_toks v)
                   | None =>
                     match env_find id ev with
                     | Some d => Some (out ++ nprint d)
                     | None => match lab_find' id ls with
                               | Some a => Some (out ++ num_toks (a - i))
                               | None => None
                               end
                     end
                   end
                 end
               end) l acc = match acc, spe_all l with Some out, Some b => Some (out ++ b) | _, _ => None end).
  { induction l as [|t r IH]; intros acc.
    - cbn. destruct acc; [rewrite app_nil_r|]; reflexivity.
    - cbn [fold_left spe_all]. rewrite IH. destruct acc as [out|]; [|destruct (spe_tok t), (spe_all r); reflexivity].
      destruct t as [e|id]; cbn [spe_tok].
      + destruct (spe_all r); [rewrite <- app_assoc|]; reflexivity.
      + destruct (predefined_value cf id) as [v|]; [destruct (spe_all r); [rewrite <- app_assoc|]; reflexivity|].
        destruct (env_find id ev) as [d|]; [destruct (spe_all r); [rewrite <- app_assoc|]; reflexivity|].
        destruct (lab_find' id ls) as [a|]; [|reflexivity]. destruct (spe_all r); [rewrite <- app_assoc|]; reflexivity. }
  rewrite G. destruct (spe_all l); reflexivity.
Qed.

Lemma num_toks_tau v : map tau (num_toks v) = if v <? 0 then [minus_tok; num_tok (Z.to_N (- v))] else [num_tok (Z.to_N v)].
Proof. unfold num_toks. destruct (v <? 0); reflexivity. Qed.

(* one pass of the reference is one pass of the compiler's substitution with the definitions as written *)
Lemma pass_agrees : forall l l', spe_all l = Some l' ->
  expand_all m (mkC raw labtab se) i (map tau l) = Some (map tau l').
Proof.
  induction l as [|t r IH]; intros l' H; cbn [spe_all] in H.
  - inversion H; subst. reflexivity.
  - destruct (spe_tok t) as [a|] eqn:Ea; [|discriminate]. destruct (spe_all r) as [b|] eqn:Eb; [|discriminate]. inversion H; subst l'.
    cbn [map expand_all]. rewrite (IH b eq_refl). rewrite map_app.
    assert (Et : expand_tok m (mkC raw labtab se) i (tau t) = Some (map tau a)).
    { destruct t as [e|id]; cbn [spe_tok] in Ea.
      - inversion Ea; subst a. cbn [ntok_tok]. unfold expand_tok. destruct e as [n|o| |]; reflexivity.
      - pose proof (Htab id) as Hid. unfold expand_tok. cbn [ntok_tok t_typ t_val c_values c_labels].
        destruct (predefined_value cf id) as [v|].
        + inversion Ea; subst a. destruct Hid as [Hv Hs]. rewrite Hs. rewrite num_toks_tau. replace (v <? 0) with false by lia. reflexivity.
        + destruct (env_find id ev) as [d|].
          * inversion Ea; subst a. rewrite Hid. reflexivity.
          * destruct (lab_find' id ls) as [a0|]; [|discriminate Ea]. inversion Ea; subst a. destruct Hid as [H1 [H2 H3]].
            rewrite H1, H2. cbv zeta. rewrite H3, num_toks_tau. destruct (a0 - i <? 0); reflexivity. }
    rewrite Et. reflexivity.
Qed.

Lemma all_te_tau l : all_te l = true -> map tau l = map inj (strip l).
Proof.
  unfold all_te, strip. induction l as [|t r IH]; intros H; [reflexivity|]. cbn [forallb] in H. apply andb_prop in H. destruct H as [H1 H2].
  destruct t as [e|id]; [|discriminate H1]. cbn [map flat_map app ntok_tok]. rewrite (IH H2). reflexivity.
Qed.

(* the reference's substitution loop is a number of such passes *)
Lemma subst_all_passes : forall f l r, subst_all f cf ev ls i l = Some r ->
  exists k, Pk raw labtab se m i k (map tau l) = Some (map inj r).
Proof.
  induction f as [|f IH]; intros l r H; [discriminate|]. cbn [subst_all] in H. fold (all_te l) in H. fold (strip l) in H.
  destruct (all_te l) eqn:Ea.
  - inversion H; subst. exists 0%nat. cbn [Pk]. rewrite (all_te_tau l Ea). reflexivity.
  - rewrite subst_pass_spe in H. destruct (spe_all l) as [l'|] eqn:Es; [|discriminate].
    destruct (IH l' r H) as [k Hk]. exists (S k). cbn [Pk]. rewrite (pass_agrees l l' Es). exact Hk.
Qed.

(* ... at most as many as the reference's loop has rounds *)
Lemma subst_all_passes_bound : forall f l r, subst_all f cf ev ls i l = Some r ->
  exists k, (k < f)%nat /\ Pk raw labtab se m i k (map tau l) = Some (map inj r).
Proof.
  induction f as [|f IH]; intros l r H; [discriminate|]. cbn [subst_all] in H. fold (all_te l) in H. fold (strip l) in H.
  destruct (all_te l) eqn:Ea.
  - inversion H; subst. exists 0%nat. split; [lia|]. cbn [Pk]. rewrite (all_te_tau l Ea). reflexivity.
  - rewrite subst_pass_spe in H. destruct (spe_all l) as [l'|] eqn:Es; [|discriminate].
    destruct (IH l' r H) as [k [Hk1 Hk]]. exists (S k). split; [lia|]. cbn [Pk]. rewrite (pass_agrees l l' Es). exact Hk.
Qed.

(* number tokens stay non-negative *)
Definition nn_ntok (t : ntok) : Prop := match t with TE (ENum n) => 0 <= n | _ => True end.
Definition env_nn : Prop := forall id d, env_find id ev = Some d -> Forall nn_ntok (nprint d).
Hypothesis Henv : env_nn.

Lemma num_toks_nn v : Forall nn_ntok (num_toks v).
Proof. unfold num_toks. destruct (v <? 0) eqn:E; repeat constructor; cbn; lia. Qed.
Lemma spe_all_nn : forall l l', Forall nn_ntok l -> spe_all l = Some l' -> Forall nn_ntok l'.
Proof.
  induction l as [|t r IH]; intros l' Hn H; cbn [spe_all] in H.
  - inversion H; subst. constructor.
  - destruct (spe_tok t) as [a|] eqn:Ea; [|discriminate]. destruct (spe_all r) as [b|] eqn:Eb; [|discriminate]. inversion H; subst l'.
    inversion Hn as [|x y Ht Hr]; subst. apply Forall_app. split; [|apply (IH b Hr eq_refl)].
    destruct t as [e|id]; cbn [spe_tok] in Ea.
    + inversion Ea; subst. constructor; [exact Ht|constructor].
    + destruct (predefined_value cf id) as [v|]; [inversion Ea; subst; apply num_toks_nn|].
      destruct (env_find id ev) as [d|] eqn:Ee; [inversion Ea; subst; apply (Henv id d Ee)|].
      destruct (lab_find' id ls) as [a0|]; [|discriminate Ea]. inversion Ea; subst. apply num_toks_nn.
Qed.
Lemma subst_all_nn : forall f l r, Forall nn_ntok l -> subst_all f cf ev ls i l = Some r -> Forall nonneg_tok r.
Proof.
  induction f as [|f IH]; intros l r Hn H; [discriminate|]. cbn [subst_all] in H. fold (all_te l) in H. fold (strip l) in H.
  destruct (all_te l) eqn:Ea.
  - inversion H; subst. clear - Hn. unfold strip. induction l as [|t t0 IHl]; [constructor|]. inversion Hn as [|x y Hx Hy]; subst.
    destruct t as [e|id]; cbn [flat_map app]; [constructor; [destruct e; exact Hx || exact I|apply IHl; exact Hy]|apply IHl; exact Hy].
  - rewrite subst_pass_spe in H. destruct (spe_all l) as [l'|] eqn:Es; [|discriminate].
    apply (IH l' r (spe_all_nn l l' Hn Es) H).
Qed.

(* ---------- an expression expanded with the definitions as written (the way ;assert lines are evaluated) ---------- *)
Theorem operand_raw f e v : Forall nn_ntok (nprint e) -> value_at cf ev ls i e = MV v -> (S (S (length ev)) <= f)%nat ->
  exists x, expand_expression f m (mkC raw labtab se) i (etoks spell e) = Some (Some x) /\ evaluate_expression x = EOk v.
Proof.
  intros Hn H Hf. unfold value_at in H.
  destruct (subst_all (S (S (length ev))) cf ev ls i (nprint e)) as [r|] eqn:Es; [|discriminate].
  destruct (eval_tokens r) as [w|] eqn:Ew; [|discriminate]. destruct (in_int32 w) eqn:Ei; [|discriminate]. inversion H; subst w.
  destruct (subst_all_passes_bound _ _ _ Es) as [k [Hk1 Hk]].
  exists (map inj r). split.
  - apply (raw_by_passes raw labtab se m i k (etoks spell e) (map inj r) f Hk (inj_not_text _)). lia.
  - rewrite (evaluate_accepted r v (subst_all_nn _ _ _ Hn Es) Ew). rewrite <- in_int32_ok, Ei. reflexivity.
Qed.

(* ---------- an operand ---------- *)
Variable res : symtab.
Hypothesis Hres : expand_expressions raw (build_graph raw) = Some (Some res).

Theorem operand_equ f e v : Forall nn_ntok (nprint e) -> value_at cf ev ls i e = MV v ->
  exists x, expand_expression (S (S (S f))) m (mkC res labtab se) i (etoks spell e) = Some (Some x) /\ evaluate_expression x = EOk v.
Proof.
  intros Hn H. unfold value_at in H.
  destruct (subst_all (S (S (length ev))) cf ev ls i (nprint e)) as [r|] eqn:Es; [|discriminate].
  destruct (eval_tokens r) as [w|] eqn:Ew; [|discriminate]. destruct (in_int32 w) eqn:Ei; [|discriminate]. inversion H; subst w.
  destruct (subst_all_passes _ _ _ Es) as [k Hk].
  exists (map inj r). split.
  - apply (equ_textual raw res labtab se m i k (etoks spell e) (map inj r) f Hres Hk). apply inj_not_text.
  - rewrite (evaluate_accepted r v (subst_all_nn _ _ _ Hn Es) Ew). rewrite <- in_int32_ok, Ei. reflexivity.
Qed.
End Passes.

(* ---------- definitions that refer to each other along a rank: the cycle check passes ---------- *)
Section Ranked.
Variable g : graph.
Variable rk : text -> nat.
Hypothesis Hrk : forall k refs r, g_find k g = Some refs -> In r refs -> (rk r < rk k)%nat.

Lemma node_never_cyclic : forall f node visited, (forall x, In x visited -> (rk node < rk x)%nat) ->
  node_cycle f g node visited <> Some true.
Proof.
  induction f as [|f IH]; intros node visited Hv; [discriminate|].
  rewrite node_cycle_S. destruct (g_find node g) as [refs|] eqn:Eg; [|discriminate].
  assert (G : forall rs, (forall r, In r rs -> In r refs) -> nc_go (node_cycle f g) node visited rs <> Some true).
  { induction rs as [|r rs IHr]; intros Hsub; cbn [nc_go]; [discriminate|].
    assert (Hr : (rk r < rk node)%nat) by (apply (Hrk node refs r Eg); apply Hsub; left; reflexivity).
    destruct (mem_text r (visited ++ [node])) eqn:Em.
    - exfalso. apply SubstFuel.mem_text_in in Em. apply in_app_or in Em. destruct Em as [Em|[Em|[]]].
      + specialize (Hv r Em). lia.
      + subst r. lia.
    - pose proof (IH r (visited ++ [node])) as Hrec.
      destruct (node_cycle f g r (visited ++ [node])) as [[|]|] eqn:En; try discriminate.
      + exfalso. apply Hrec; [|reflexivity]. intros x Hx. apply in_app_or in Hx. destruct Hx as [Hx|[<-|[]]]; [specialize (Hv x Hx); lia|exact Hr].
      + apply IHr. intros r0 H0. apply Hsub. right. exact H0. }
  apply G. intros r Hr. exact Hr.
Qed.

Theorem ranked_no_cycle : graph_has_cycle g = Some false.
Proof.
  pose proof (cycle_check_total g) as Ht. rewrite graph_has_cycle_eq in *.
  assert (G : forall ks, gc_go g ks <> Some true).
  { induction ks as [|[k v] t IH]; cbn [gc_go]; [discriminate|].
    pose proof (node_never_cyclic (S (S (length g))) k [] ltac:(intros x [])) as Hn.
    destruct (node_cycle (S (S (length g))) g k []) as [[|]|]; try discriminate; [congruence|exact IH]. }
  specialize (G g). destruct (gc_go g g) as [[|]|]; congruence.
Qed.
End Ranked.

(* the expansion of the definitions cannot fail: every name it looks up is a definition *)
Lemma expand_value_no_error values : forall f key res, sym_has key values = true ->
  expand_value f values (build_graph values) key res <> Some None.
Proof.
  induction f as [|f IH]; intros key res Hk; [discriminate|].
  rewrite expand_value_S. unfold sym_has in Hk. destruct (sym_find key values) as [value|] eqn:Ev; [|discriminate Hk].
  destruct (sym_has key res); [discriminate|].
  set (deps := match g_find key (build_graph values) with Some d => d | None => [] end).
  assert (Hdeps : forall d, In d deps -> sym_has d values = true).
  { unfold deps. destruct (g_find key (build_graph values)) as [d0|] eqn:Eg; [|intros d []].
    intros d Hd. rewrite build_graph_bg in Eg.
    assert (X : forall l, g_find key (bg values l) = Some d0 -> exists v, d0 = key_refs values v).
    { unfold bg. induction l as [|[k0 v0] l IHl]; cbn [flat_map fst snd]; [discriminate|]. destruct v0 as [|t0 v0'].
      - cbn [app]. exact IHl.
      - cbn [app g_find]. destruct (text_eqb key k0); [intros E; inversion E; eexists; reflexivity|exact IHl]. }
    destruct (X values Eg) as [v Ev0]. subst d0. rewrite key_refs_fold in Hd.
    assert (Y : forall toks acc, (forall x, In x acc -> sym_has x values = true) -> forall x, In x (fold_left (key_step values) toks acc) -> sym_has x values = true).
    { induction toks as [|t toks IHt]; intros acc Ha x Hx; [apply Ha; exact Hx|]. cbn [fold_left] in Hx. apply (IHt (key_step values acc t)); [|exact Hx].
      intros y Hy. unfold key_step in Hy. destruct (t_typ t); try (apply Ha; exact Hy).
      destruct (sym_has (t_val t) values && negb (mem_text (t_val t) acc)) eqn:Ec; [|apply Ha; exact Hy].
      apply in_app_or in Hy. destruct Hy as [Hy|[<-|[]]]; [apply Ha; exact Hy|]. apply andb_prop in Ec. apply Ec. }
    apply (Y v [] ltac:(intros x []) d Hd). }
  assert (G : forall ds r0, (forall d, In d ds -> sym_has d values = true) -> ev_go (expand_value f values (build_graph values)) ds r0 <> Some None).
  { induction ds as [|d ds IHd]; intros r0 Hd; cbn [ev_go]; [discriminate|].
    destruct (sym_has d r0); [apply IHd; intros x Hx; apply Hd; right; exact Hx|].
    pose proof (IH d r0 (Hd d (or_introl eq_refl))) as Hn.
    destruct (expand_value f values (build_graph values) d r0) as [[r1|]|]; try discriminate; [|congruence].
    apply IHd. intros x Hx. apply Hd. right. exact Hx. }
  specialize (G deps res Hdeps). destruct (ev_go (expand_value f values (build_graph values)) deps res) as [[r1|]|]; try discriminate. congruence.
Qed.

Lemma keys_have k (values : symtab) : In k (map fst values) -> sym_has k values = true.
Proof.
  unfold sym_has. induction values as [|[k0 v0] t IH]; intros Hk; [destruct Hk|]. cbn [sym_find map fst In] in *.
  destruct (text_eqb k k0) eqn:E; [reflexivity|]. destruct Hk as [<-|Hk]; [rewrite text_eqb_refl in E; discriminate|apply IH; exact Hk].
Qed.

Theorem expand_expressions_succeeds values : graph_has_cycle (build_graph values) = Some false ->
  exists res, expand_expressions values (build_graph values) = Some (Some res).
Proof.
  intros Hac. pose proof (expand_expressions_total values (build_graph values) Hac (build_graph_length values)) as Ht. rewrite expand_expressions_eq in *.
  assert (G : forall ks r0, (forall k, In k (map fst ks) -> sym_has k values = true) -> ee_go values (build_graph values) ks r0 <> Some None).
  { induction ks as [|[k v] t IH]; intros r0 Hk; cbn [ee_go]; [discriminate|].
    destruct (sym_has k r0); [apply IH; intros x Hx; apply Hk; right; exact Hx|].
    pose proof (expand_value_no_error values (S (S (length values))) k r0 (Hk k (or_introl eq_refl))) as Hn.
    destruct (expand_value (S (S (length values))) values (build_graph values) k r0) as [[r1|]|]; try discriminate; [|congruence].
    apply IH. intros x Hx. apply Hk. right. exact Hx. }
  specialize (G values [] (fun k => keys_have k values)). destruct (ee_go values (build_graph values) values []) as [[r|]|]; try congruence. exists r. reflexivity.
Qed.

(* ---------- programs of instructions and EQU definitions ---------- *)
Definition item_plain (it : item) : Prop := match it with IFor _ _ _ _ => False | _ => True end.   (* no FOR block *)
Fixpoint instrs (its : list item) : list Prog.iline :=
  match its with [] => [] | IInstr l :: t => l :: instrs t | _ :: t => instrs t end.
Fixpoint equs (its : list item) : env :=
  match its with [] => [] | IEqu n e :: t => (n, e) :: equs t | _ :: t => equs t end.

Lemma collect_plain : forall its a ev ls ins, Forall item_plain its ->
  collect its a ev ls ins = (ev ++ equs its, ls ++ lab_pairs a (instrs its), ins ++ instrs its, a + Z.of_nat (length (instrs its))).
Proof.
  induction its as [|it t IH]; intros a ev ls ins H; cbn [collect instrs equs lab_pairs length].
  - rewrite !app_nil_r, Z.add_0_r. reflexivity.
  - inversion H as [|x y Hx Hy]; subst. destruct it as [l|n e| |e]; try (destruct Hx; fail); cbn [collect instrs equs lab_pairs length].
    + rewrite (IH _ _ _ _ Hy). rewrite <- !app_assoc. cbn [app]. f_equal. lia.
    + rewrite (IH _ _ _ _ Hy). rewrite <- !app_assoc. reflexivity.
    + apply (IH _ _ _ _ Hy).
Qed.
(* when the assertions let the program pass they say so with this value *)
Lemma assertions_ok cf ev ls : forall its code s, assertions cf ev ls its = MOk code s -> assertions cf ev ls its = MOk [] 0.
Proof.
  induction its as [|it t IH]; intros code s H; [reflexivity|]. destruct it; cbn [assertions] in *; try (apply (IH _ _ H)).
  destruct (value_at cf ev ls 0 e) as [v| |]; try discriminate. destruct (v =? 0); [discriminate|apply (IH _ _ H)].
Qed.

Section EquDocs.
Variable spell : N -> text.

(* the compiler's table of definitions: the predefined constants, then the EQU lines in order *)
Definition equ_entries (ev : env) : symtab := map (fun ne => (spell (fst ne), etoks spell (snd ne))) ev.
Definition raw_table (cfg : config) (ev : env) : symtab := load_constants cfg ++ equ_entries ev.

Lemma sym_set_fresh k v : forall m, ~ In k (map fst m) -> sym_set k v m = m ++ [(k, v)].
Proof.
  induction m as [|[k' v'] t IH]; intros H; [reflexivity|]. cbn [sym_set map fst In] in *.
  rewrite text_eqb_neq by (intros E; apply H; left; symmetry; exact E). cbn [app]. f_equal. apply IH. intros X. apply H. right. exact X.
Qed.
Lemma sym_find_app k a b : sym_find k (a ++ b) = match sym_find k a with Some v => Some v | None => sym_find k b end.
Proof. induction a as [|[k' v'] t IH]; [reflexivity|]. cbn [app sym_find]. destruct (text_eqb k k'); [reflexivity|exact IH]. Qed.
Lemma sym_find_entries id ev : (forall a b, In a (id :: map fst ev) -> In b (id :: map fst ev) -> spell a = spell b -> a = b) ->
  sym_find (spell id) (equ_entries ev) = match env_find id ev with Some d => Some (etoks spell d) | None => None end.
Proof.
  induction ev as [|[n e] t IH]; intros Hinj; [reflexivity|]. cbn [equ_entries map sym_find env_find fst snd].
  destruct (N.eqb_spec n id) as [->|Hne].
  - rewrite text_eqb_refl. reflexivity.
  - rewrite text_eqb_neq.
    + apply IH. intros a b Ha Hb. apply Hinj.
      * destruct Ha as [Ha|Ha]; [left; exact Ha|right; right; exact Ha].
      * destruct Hb as [Hb|Hb]; [left; exact Hb|right; right; exact Hb].
    + intros E. apply Hne. symmetry. apply Hinj; [left; reflexivity|right; left; reflexivity|exact E].
Qed.

(* an ;assert line: the keyword, then a text that the lexer turns into the tokens of the condition *)
Definition assert_comment (c : text) (e : nexpr) : Prop :=
  has_prefix (s2t ";assert") c = true /\ lex_ascii (skipn 7 c) = Some (etoks spell e ++ [tEOF]) /\ Forall nn_ntok (nprint e).

(* documents: as in C03Compile, with EQU lines and ;assert lines *)
Inductive renders_doc2 : option nexpr -> list item -> list (lelem * nat) -> Prop :=
| R2nil : renders_doc2 None [] []
| R2instr org l its t k es : renders_line spell l t -> renders_doc2 org its es -> renders_doc2 org (IInstr l :: its) ((LInstr t, k) :: es)
| R2comment org c k its es : comment_plain c -> renders_doc2 org its es -> renders_doc2 org its ((LComment c, k) :: es)
| R2org e kw cmt k its es : dir_kw_ok kw "org" -> Forall nn_ntok (nprint e) -> renders_doc2 None its es ->
    renders_doc2 (Some e) its ((LDir kw (etoks spell e) cmt, k) :: es)
| R2equ org n e labs kw cmt k its es :
    lnames labs = [spell n] -> dir_kw_ok kw "equ" -> Forall nn_ntok (nprint e) -> renders_doc2 org its es ->
    renders_doc2 org (IEqu n e :: its) ((LEqu labs kw (etoks spell e) cmt, k) :: es)
| R2assert org c e k its es : assert_comment c e -> renders_doc2 org its es ->
    renders_doc2 org (IAssert e :: its) ((LComment c, k) :: es).

Lemma r2_plain org its es : renders_doc2 org its es -> Forall item_plain its.
Proof. induction 1; try assumption; constructor; try exact I; assumption. Qed.

Lemma r2_names org its es : renders_doc2 org its es ->
  Permutation.Permutation (dnames es) (map spell (flat_map il_labels (instrs its)) ++ map spell (map fst (equs its))).
Proof.
  induction 1 as [|org l its t k es [Hl _] _ IH|org c k its es _ _ IH|e kw cmt k its es _ _ _ IH|org n e labs kw cmt k its es Hl _ _ _ IH|org c e k its es _ _ IH];
    cbn [dnames instrs equs flat_map map fst]; try exact IH.
  - constructor.
  - rewrite Hl, map_app, <- app_assoc. apply Permutation.Permutation_app_head. exact IH.
  - rewrite Hl. cbn [app]. apply Permutation.Permutation_cons_app. exact IH.
Qed.

Lemma equ_kw_facts kw : dir_kw_ok kw "equ" ->
  kw_tok (mkT tokText kw) /\ tok_is_pseudo (mkT tokText kw) = true /\ lower_is kw "end" = false /\ lower_is kw "equ" = true /\ lower_is kw "org" = false.
Proof.
  intros Hk. unfold dir_kw_ok in Hk.
  assert (P : is_pseudo_text kw = true) by (unfold is_pseudo_text; rewrite Hk; reflexivity).
  split; [split; [reflexivity|unfold tok_is_op, tok_is_pseudo; cbn [t_typ t_val]; rewrite P; rewrite orb_true_r; reflexivity]|].
  split; [exact P|]. unfold lower_is. rewrite Hk. repeat split; reflexivity.
Qed.

(* the symbol tables the compiler builds from the lines *)
Lemma r2_symbols cfg org its es : renders_doc2 org its es ->
  forall C v tab se cur, (forall n, In n (map fst (equs its)) -> ~ In (spell n) (map fst v)) -> NoDup (map spell (map fst (equs its))) ->
  fold_left (ls_step cfg) (elines C es) (mkC v tab se, cur) =
  (mkC (v ++ equ_entries (equs its)) (set_all (spell_pairs spell (lab_pairs C (instrs its))) tab)
       (match org with Some e => etoks spell e | None => se end),
   cur + Z.of_nat (length (instrs its))).
Proof.
  induction 1 as [|org l its t k es [Hl _] _ IH|org c k its es _ _ IH|e kw cmt k its es Hkw _ _ IH|org n e labs kw cmt k its es Hl Hkw _ _ IH|org c e k its es _ _ IH];
    intros C v tab se cur Hfresh Hnd; cbn [elines fold_left lab_pairs length instrs equs].
  - unfold set_all, equ_entries. cbn. rewrite Z.add_0_r, app_nil_r. reflexivity.
  - cbn [ls_step tline_sline sl_typ sl_labels sl_codeline c_values c_labels c_startexpr]. rewrite (IH _ _ _ _ _ Hfresh Hnd).
    rewrite Hl, (set_labels spell). unfold spell_pairs. rewrite map_app, set_all_app. f_equal. lia.
  - cbn [ls_step comment_sline sl_typ]. apply IH; assumption.
  - destruct (dir_kw_facts kw "org" (or_introl eq_refl) Hkw) as [_ [_ [K1 [K2 K3]]]]. cbn in K2, K3.
    cbn [ls_step dir_sline sl_typ sl_op sl_a c_values c_labels]. rewrite K1, K2. rewrite (IH _ _ _ _ _ Hfresh Hnd). reflexivity.
  - destruct (equ_kw_facts kw Hkw) as [_ [_ [_ [K2 _]]]].
    cbn [ls_step ldir_sline sl_typ sl_op sl_a sl_labels c_values c_labels c_startexpr]. rewrite K2, Hl. cbn [fold_left].
    cbn [map fst] in Hfresh, Hnd. inversion Hnd as [|x y Hx Hy]; subst.
    rewrite sym_set_fresh by (apply Hfresh; left; reflexivity).
    rewrite IH.
    + cbn [equ_entries map fst snd]. rewrite <- app_assoc. reflexivity.
    + intros n0 Hn0 Hin. rewrite map_app in Hin. apply in_app_or in Hin. destruct Hin as [Hin|[Hin|[]]].
      * apply (Hfresh n0 (or_intror Hn0) Hin).
      * cbn [fst] in Hin. apply Hx. rewrite Hin. apply in_map. exact Hn0.
    + exact Hy.
  - cbn [ls_step comment_sline sl_typ]. apply IH; assumption.
Qed.
End EquDocs.

Section EquLines.
Variable spell : N -> text.

Lemma nok_nn e : nok e -> Forall nn_ntok (nprint e).
Proof.
  induction e as [n|id|e IH|mn e IH|o a IHa b IHb]; cbn [nok nprint]; intros H.
  - constructor; [exact H|constructor].
  - constructor; [exact I|constructor].
  - constructor; [exact I|]. apply Forall_app. split; [apply IH; exact H|constructor; [exact I|constructor]].
  - constructor; [exact I|apply IH; apply H].
  - destruct H as [Ha [Hb _]]. apply Forall_app. split; [apply IHa; exact Ha|constructor; [exact I|apply IHb; exact Hb]].
Qed.

(* a rendered line assembles to what it denotes, with EQU names in its operands *)
Lemma assemble_rendered2 cfg ev ls raw res labtab se l t i x :
  (0 < c_size cfg)%N ->
  renders_line spell l t ->
  tables_ok spell (mconf_of cfg) ev ls raw labtab (Z.of_N (c_size cfg)) i -> env_nn ev ->
  expand_expressions raw (build_graph raw) = Some (Some res) ->
  instr_meaning (mconf_of cfg) ev ls i l = MI x ->
  assemble_line cfg (mkC res labtab se) (tline_sline i t) = AOk x.
Proof.
  intros Hm [Hlab [Hop [[Ea1 [Ea2 Ea3]] Hb]]] Htab Henv Hres H.
  set (cf := mconf_of cfg) in *. set (m := Z.of_N (c_size cfg)) in *.
  unfold instr_meaning in H. cbv zeta in H. change (mf_legacy cf) with (c_mode cfg =? 0)%N in H.
  set (legacy := (c_mode cfg =? 0)%N) in *.
  set (dflt := if legacy then match il_op l with DAT => IMMEDIATE | _ => DIRECT end else DIRECT) in *.
  assert (Hd88 : is88mode dflt = true) by (unfold dflt; destruct legacy, (il_op l); reflexivity).
  set (am := eff_mode dflt (o_mode (il_a l))).
  set (bm := match il_b l with Some b => eff_mode dflt (o_mode b) | None => dflt end).
  change (match o_mode (il_a l) with Some m0 => m0 | None => dflt end) with am in H.
  change (match il_b l with Some b => match o_mode b with Some m0 => m0 | None => dflt end | None => dflt end) with bm in H.
  change (if legacy then match il_mod l with Some _ => None | None => implied_modifier_88 (il_op l) am bm end
          else Some (match il_mod l with Some m0 => m0 | None => default_modifier_94 (il_op l) am bm end))
    with (md_spec legacy (il_op l) (il_mod l) am bm) in H.
  destruct (md_spec legacy (il_op l) (il_mod l) am bm) as [md|] eqn:Emd; [|discriminate].
  assert (Hleg : legacy = true -> il_mod l = None).
  { intros E. unfold md_spec in Emd. rewrite E in Emd. destruct (il_mod l); [discriminate|reflexivity]. }
  destruct (value_at cf ev ls i (o_expr (il_a l))) as [av| |] eqn:Eva; try discriminate.
  destruct (operand_equ spell cf ev ls raw labtab se m i Htab Henv res Hres (length res) _ av (nok_nn _ Ea3) Eva) as [xa [Xa1 Xa2]].
  rewrite assemble_line_eq. unfold line_dflt. cbn [tline_sline sl_op sl_amode sl_bmode].
  rewrite (dflt_agrees cfg l t Hop Hleg). fold legacy. fold dflt.
  rewrite Ea1, mode_of_rendered. fold am.
  assert (Ebm : exists wb, (match tl_B t with Some (bm0, _) => mode_text bm0 | None => [] end) = mode_text (option_map amode_char wb) /\
                           bm = eff_mode dflt wb).
  { unfold bm. destruct (il_b l) as [b|], (tl_B t) as [[bm0 B]|]; try (destruct Hb; fail).
    - destruct Hb as [Eb1 _]. exists (o_mode b). rewrite Eb1. split; reflexivity.
    - exists None. split; reflexivity. }
  destruct Ebm as [wb [Ebm1 Ebm2]]. rewrite Ebm1, mode_of_rendered, <- Ebm2.
  pose proof (resolve_ok legacy (il_op l) (il_mod l) (tl_op t) (o_mode (il_a l)) wb dflt md Hop Hd88) as R.
  fold am in R. rewrite <- Ebm2 in R. rewrite (R Emd).
  unfold line_fields, ev_field. cbn [tline_sline sl_codeline sl_a sl_b]. fold m.
  rewrite Ea2. unfold expand_fuel. cbn [c_values]. rewrite Xa1, Xa2.
  rewrite norm_field_mod by lia.
  destruct (il_b l) as [b|] eqn:Eb, (tl_B t) as [[bm0 B]|] eqn:EB; try (destruct Hb; fail).
  - destruct Hb as [Eb1 [Eb2 Eb3]].
    destruct (value_at cf ev ls i (o_expr b)) as [bv| |] eqn:Evb; try discriminate.
    destruct (operand_equ spell cf ev ls raw labtab se m i Htab Henv res Hres (length res) _ bv (nok_nn _ Eb3) Evb) as [xb [Xb1 Xb2]].
    rewrite Eb2. destruct (etoks spell (o_expr b)) as [|b0 bs] eqn:Et; [exfalso; exact (etoks_nonempty _ _ Et)|].
    rewrite Xb1, Xb2. rewrite norm_field_mod by lia. inversion H; subst x. reflexivity.
  - destruct (il_op l); inversion H; subst x; reflexivity.
Qed.

(* all the instruction lines of a document *)
Lemma r2_assemble cfg ev ls raw res labtab se org its es : (0 < c_size cfg)%N -> renders_doc2 spell org its es ->
  env_nn ev -> expand_expressions raw (build_graph raw) = Some (Some res) ->
  forall i acc code s,
  (forall j, i <= j < i + Z.of_nat (length (instrs its)) -> tables_ok spell (mconf_of cfg) ev ls raw labtab (Z.of_N (c_size cfg)) j) ->
  meaning_code (mconf_of cfg) ev ls i (instrs its) acc = MOk code s ->
  assemble_all cfg (mkC res labtab se) (elines i es) acc = inr code.
Proof.
  intros Hm Hrd Henv Hres. induction Hrd as [|org l its t k es Hl _ IH|org cm k its es _ _ IH|e kw cmt k its es _ _ _ IH|org n e labs kw cmt k its es _ _ _ _ IH|org cm e k its es _ _ IH];
    intros i acc code s Htab H; cbn [elines assemble_all instrs] in *.
  - cbn [meaning_code] in H. inversion H; subst. reflexivity.
  - cbn [meaning_code] in H. destruct (instr_meaning (mconf_of cfg) ev ls i l) as [x| |] eqn:Ei; try discriminate.
    cbn [tline_sline sl_typ]. change (mkSL 0 i lineInstruction _ _ _ _ _ _ _ 0) with (tline_sline i t).
    rewrite (assemble_rendered2 cfg ev ls raw res labtab se l t i x Hm Hl (Htab i ltac:(cbn [length]; lia)) Henv Hres Ei).
    apply (IH (i + 1) (acc ++ [x]) code s); [|exact H]. intros j Hj. apply Htab. cbn [length]. lia.
  - cbn [comment_sline sl_typ]. apply (IH i acc code s Htab H).
  - cbn [dir_sline sl_typ]. apply (IH i acc code s Htab H).
  - cbn [ldir_sline sl_typ]. apply (IH i acc code s Htab H).
  - cbn [comment_sline sl_typ]. apply (IH i acc code s Htab H).
Qed.

(* the ;assert lines: each is evaluated with the definitions as written, at line 0, and must not be zero - the reference
   reads them the same way (Meaning.assertions) *)
Lemma r2_assertions cfg ev ls raw labtab se org its es : renders_doc2 spell org its es ->
  tables_ok spell (mconf_of cfg) ev ls raw labtab (Z.of_N (c_size cfg)) 0 -> env_nn ev -> (length ev <= length raw)%nat ->
  assertions (mconf_of cfg) ev ls its = MOk [] 0 ->
  forall C, exists v, eval_assertions (Z.of_N (c_size cfg)) (mkC raw labtab se) (elines C es) = Some (EOk v).
Proof.
  intros Hrd Htab Henv Hlen.
  induction Hrd as [|org l its t k es _ _ IH|org cm k its es Hc _ IH|e kw cmt k its es _ _ _ IH|org n e labs kw cmt k its es _ _ _ _ IH|org cm e k its es [Hp [Hlex Hnn]] _ IH];
    intros Has C; cbn [elines eval_assertions assertions] in *; [exists 1; reflexivity| | | | |].
  - cbn [tline_sline sl_typ]. apply (IH Has).
  - cbn [comment_sline sl_typ sl_comment]. unfold comment_plain in Hc. rewrite Hc. apply (IH Has).
  - cbn [dir_sline sl_typ]. apply (IH Has).
  - cbn [ldir_sline sl_typ]. apply (IH Has).
  - cbn [comment_sline sl_typ sl_comment]. rewrite Hp.
    destruct (value_at (mconf_of cfg) ev ls 0 e) as [v| |] eqn:Ev; try discriminate.
    destruct (v =? 0) eqn:Ez; [discriminate|].
    destruct (operand_raw spell (mconf_of cfg) ev ls raw labtab se (Z.of_N (c_size cfg)) 0 Htab Henv
                (expand_fuel (mkC raw labtab se)) e v Hnn Ev) as [x [X1 X2]].
    { unfold expand_fuel. cbn [c_values]. lia. }
    unfold eval_assert. rewrite Hlex, removelast_last, X1, X2, Ez. apply (IH Has).
Qed.
(* a condition that is zero: the first ;assert line whose value is 0, all before it being non-zero *)
Fixpoint first_zero (cf : mconf) (ev : env) (ls : labels) (its : list item) : bool :=
  match its with
  | [] => false
  | IAssert e :: t => match value_at cf ev ls 0 e with MV v => if v =? 0 then true else first_zero cf ev ls t | _ => false end
  | _ :: t => first_zero cf ev ls t
  end.
Lemma first_zero_rejects cf ev ls : forall its, first_zero cf ev ls its = true -> assertions cf ev ls its = MReject.
Proof.
  induction its as [|it t IH]; intros H; [discriminate|]. destruct it; cbn [first_zero assertions] in *; try (apply IH; exact H).
  destruct (value_at cf ev ls 0 e) as [v| |]; try discriminate. destruct (v =? 0); [reflexivity|apply IH; exact H].
Qed.
Lemma r2_assertions_zero cfg ev ls raw labtab se org its es : renders_doc2 spell org its es ->
  tables_ok spell (mconf_of cfg) ev ls raw labtab (Z.of_N (c_size cfg)) 0 -> env_nn ev -> (length ev <= length raw)%nat ->
  first_zero (mconf_of cfg) ev ls its = true ->
  forall C, eval_assertions (Z.of_N (c_size cfg)) (mkC raw labtab se) (elines C es) = Some EErr.
Proof.
  intros Hrd Htab Henv Hlen.
  induction Hrd as [|org l its t k es _ _ IH|org cm k its es Hc _ IH|e kw cmt k its es _ _ _ IH|org n e labs kw cmt k its es _ _ _ _ IH|org cm e k its es [Hp [Hlex Hnn]] _ IH];
    intros Hz C; cbn [elines eval_assertions first_zero] in *; [discriminate| | | | |].
  - cbn [tline_sline sl_typ]. apply (IH Hz).
  - cbn [comment_sline sl_typ sl_comment]. unfold comment_plain in Hc. rewrite Hc. apply (IH Hz).
  - cbn [dir_sline sl_typ]. apply (IH Hz).
  - cbn [ldir_sline sl_typ]. apply (IH Hz).
  - cbn [comment_sline sl_typ sl_comment]. rewrite Hp.
    destruct (value_at (mconf_of cfg) ev ls 0 e) as [v| |] eqn:Ev; try discriminate.
    destruct (operand_raw spell (mconf_of cfg) ev ls raw labtab se (Z.of_N (c_size cfg)) 0 Htab Henv
                (expand_fuel (mkC raw labtab se)) e v Hnn Ev) as [x [X1 X2]].
    { unfold expand_fuel. cbn [c_values]. lia. }
    unfold eval_assert. rewrite Hlex, removelast_last, X1, X2.
    destruct (v =? 0) eqn:Ez; [reflexivity|apply (IH Hz)].
Qed.
End EquLines.

(* ---------- the whole compiler on such a document ---------- *)
Lemma env_find_in id (ev : env) d : env_find id ev = Some d -> In id (map fst ev).
Proof.
  induction ev as [|[k w] t IH]; [discriminate|]. cbn [env_find map fst].
  destruct (N.eqb_spec k id); [intros _; left; assumption|intros H; right; apply IH; exact H].
Qed.
Lemma env_find_entry id (ev : env) d : env_find id ev = Some d -> In (id, d) ev.
Proof.
  induction ev as [|[k w] t IH]; [discriminate|]. cbn [env_find].
  destruct (N.eqb_spec k id) as [->|]; [intros H; inversion H; left; reflexivity|intros H; right; apply IH; exact H].
Qed.
Lemma bg_in all : forall l k refs, g_find k (bg all l) = Some refs -> exists v, In (k, v) l /\ refs = key_refs all v.
Proof.
  unfold bg. induction l as [|[k0 v0] l IH]; intros k refs H; cbn [flat_map fst snd] in H; [discriminate|]. destruct v0 as [|t0 v0'].
  - cbn [app] in H. destruct (IH k refs H) as [v [A B]]. exists v. split; [right; exact A|exact B].
  - cbn [app g_find] in H. destruct (text_eqb k k0) eqn:E.
    + apply text_eqb_eq in E. subst k0. inversion H; subst. eexists. split; [left; reflexivity|reflexivity].
    + destruct (IH k refs H) as [v [A B]]. exists v. split; [right; exact A|exact B].
Qed.
Lemma key_refs_sub values toks r : In r (key_refs values toks) ->
  exists t, In t toks /\ t_typ t = tokText /\ t_val t = r /\ sym_has r values = true.
Proof.
  rewrite key_refs_fold.
  assert (G : forall toks acc, In r (fold_left (key_step values) toks acc) ->
              In r acc \/ exists t, In t toks /\ t_typ t = tokText /\ t_val t = r /\ sym_has r values = true).
  { induction toks0 as [|t ts IH]; intros acc H; [left; exact H|]. cbn [fold_left] in H. destruct (IH _ H) as [Ha|[t1 [A B]]].
    - unfold key_step in Ha. destruct (t_typ t) eqn:Et; try (left; exact Ha).
      destruct (sym_has (t_val t) values && negb (mem_text (t_val t) acc)) eqn:Ec; [|left; exact Ha].
      apply in_app_or in Ha. destruct Ha as [Ha|[<-|[]]]; [left; exact Ha|]. right. exists t. apply andb_prop in Ec.
      split; [left; reflexivity|]. split; [exact Et|]. split; [reflexivity|apply Ec].
    - right. exists t1. split; [right; exact A|exact B]. }
  intros H. destruct (G toks [] H) as [[]|X]. exact X.
Qed.
Lemma etoks_text' spell e t : In t (etoks spell e) -> t_typ t = tokText -> exists id, In id (names e) /\ t_val t = spell id.
Proof.
  unfold etoks. induction e as [n|id|e IH|mn e IH|o a IHa b IHb]; cbn [nprint map names In]; intros Hin Ht.
  - destruct Hin as [<-|[]]. discriminate Ht.
  - destruct Hin as [<-|[]]. exists id. split; [left; reflexivity|reflexivity].
  - destruct Hin as [<-|Hin]; [discriminate Ht|]. rewrite map_app in Hin. apply in_app_or in Hin.
    destruct Hin as [Hin|[<-|[]]]; [apply IH; assumption|discriminate Ht].
  - destruct Hin as [<-|Hin]; [destruct mn; discriminate Ht|apply IH; assumption].
  - rewrite map_app in Hin. apply in_app_or in Hin. destruct Hin as [Hin|[<-|Hin]].
    + destruct (IHa Hin Ht) as [id [H1 H2]]. exists id. split; [apply in_or_app; left; exact H1|exact H2].
    + destruct o; discriminate Ht.
    + destruct (IHb Hin Ht) as [id [H1 H2]]. exists id. split; [apply in_or_app; right; exact H1|exact H2].
Qed.

Section EquWhole.
Variable spell : N -> text.

Lemma tables_hold cfg ev ls i :
  spell_ok spell (map fst ls ++ map fst ev) ->
  (forall id a, lab_find' id ls = Some a -> Z.abs (a - i) < Z.of_N (c_size cfg)) ->
  tables_ok spell (mconf_of cfg) ev ls (raw_table spell cfg ev) (set_all (spell_pairs spell ls) []) (Z.of_N (c_size cfg)) i.
Proof.
  intros [[P1 [P2 [P3 P4]]] Hlab Hinj Hnd _] Hrange id. unfold raw_table.
  destruct (constants_lookup cfg) as [C1 [C2 [C3 C4]]].
  unfold predefined_value. cbn [mconf_of mf_M mf_len mf_procs mf_dist].
  destruct (N.eqb_spec id ID_CORESIZE) as [->|N1]; [split; [lia|rewrite sym_find_app, P1, C1, N2Z.id; reflexivity]|].
  destruct (N.eqb_spec id ID_MAXLENGTH) as [->|N2]; [split; [lia|rewrite sym_find_app, P2, C2, N2Z.id; reflexivity]|].
  destruct (N.eqb_spec id ID_MAXPROCESSES) as [->|N3]; [split; [lia|rewrite sym_find_app, P3, C3, N2Z.id; reflexivity]|].
  destruct (N.eqb_spec id ID_MINDISTANCE) as [->|N4]; [split; [lia|rewrite sym_find_app, P4, C4, N2Z.id; reflexivity]|].
  assert (Hent : In id (map fst ls ++ map fst ev) ->
                 sym_find (spell id) (load_constants cfg ++ equ_entries spell ev) =
                 match env_find id ev with Some d => Some (etoks spell d) | None => None end).
  { intros Hin. rewrite sym_find_app. rewrite (constants_none cfg _ (proj2 (Hlab id Hin))).
    apply sym_find_entries. intros a b Ha Hb. apply Hinj.
    - destruct Ha as [<-|Ha]; [exact Hin|apply in_or_app; right; exact Ha].
    - destruct Hb as [<-|Hb]; [exact Hin|apply in_or_app; right; exact Hb]. }
  destruct (env_find id ev) as [d|] eqn:Ee.
  - rewrite Hent by (apply in_or_app; right; apply (env_find_in id ev d Ee)). reflexivity.
  - destruct (lab_find' id ls) as [a|] eqn:Ea; [|exact I].
    pose proof (lab_find'_in _ _ _ Ea) as Hin.
    rewrite Hent by (apply in_or_app; left; exact Hin). split; [reflexivity|]. split.
    + rewrite set_all_find.
      * rewrite (assoc_spelled spell id ls); [rewrite Ea; reflexivity|].
        intros x y Hx Hy. apply Hinj; [destruct Hx as [<-|Hx]|destruct Hy as [<-|Hy]]; apply in_or_app; left; assumption.
      * unfold spell_pairs. rewrite map_map. cbn [fst]. rewrite <- (map_map fst spell). apply NoDup_map_spell.
        -- apply (nodup_app_l _ _ _ Hnd).
        -- intros x y Hx Hy. apply Hinj; apply in_or_app; left; assumption.
    + apply rem_small_abs. apply (Hrange id a Ea).
Qed.
End EquWhole.

Section EquCompile.
Variable spell : N -> text.

(* names in EQU bodies that are themselves EQU names refer downwards along a rank: no definition refers to itself,
   directly or through others *)
Definition ranked (ev : env) (rkN : N -> nat) : Prop :=
  forall n e, In (n, e) ev -> forall x, In x (names e) -> forall n' e', In (n', e') ev -> spell x = spell n' -> (rkN n' < rkN n)%nat.

Definition rk_text (ev : env) (rkN : N -> nat) (t : text) : nat :=
  match find (fun ne => text_eqb (spell (fst ne)) t) ev with Some ne => S (rkN (fst ne)) | None => O end.

Lemma graph_ranked cfg ev rkN :
  (forall a b, In a (map fst ev) -> In b (map fst ev) -> spell a = spell b -> a = b) ->
  (forall n, In n (map fst ev) -> ~ In (spell n) predefined) ->
  ranked ev rkN ->
  graph_has_cycle (build_graph (raw_table spell cfg ev)) = Some false.
Proof.
  intros Hinj Hnp Hrk. apply (ranked_no_cycle _ (rk_text ev rkN)).
  intros k refs r Hg Hr. rewrite build_graph_bg in Hg. destruct (bg_in _ _ _ _ Hg) as [v [Hin Eref]]. subst refs.
  destruct (key_refs_sub _ _ _ Hr) as [t [Ht [Ety [Etv Hhas]]]].
  unfold raw_table in Hin. apply in_app_or in Hin. destruct Hin as [Hin|Hin].
  - (* a predefined constant: its value is a number *)
    exfalso. unfold load_constants in Hin. cbn [In] in Hin.
    repeat (destruct Hin as [Hin|Hin]; [inversion Hin; subst; destruct Ht as [<-|[]]; discriminate Ety|]). exact Hin.
  - unfold equ_entries in Hin. apply in_map_iff in Hin. destruct Hin as [[n e] [Ene Hne]]. cbn [fst snd] in Ene. inversion Ene; subst k v.
    destruct (etoks_text' spell e t Ht Ety) as [x [Hx Ex]]. rewrite Etv in Ex. subst r.
    assert (Hk : rk_text ev rkN (spell n) = S (rkN n)).
    { unfold rk_text. destruct (find (fun ne => text_eqb (spell (fst ne)) (spell n)) ev) as [[n1 e1]|] eqn:Ef.
      - apply find_some in Ef. destruct Ef as [F1 F2]. cbn [fst] in F2. apply text_eqb_eq in F2.
        rewrite (Hinj n1 n); [reflexivity| | |exact F2]; apply in_map_iff; [exists (n1, e1)|exists (n, e)]; split; try reflexivity; assumption.
      - exfalso. pose proof (find_none _ _ Ef (n, e) Hne) as X. cbn [fst] in X. rewrite text_eqb_refl in X. discriminate X. }
    rewrite Hk. unfold rk_text. rewrite ?Ex. destruct (find (fun ne => text_eqb (spell (fst ne)) (spell x)) ev) as [[n' e']|] eqn:Ef.
    2: lia.
    apply find_some in Ef. destruct Ef as [F1 F2]. cbn [fst] in F2 |- *. apply text_eqb_eq in F2.
    pose proof (Hrk n e Hne x Hx n' e' F1 (eq_sym F2)). lia.
Qed.

Theorem compile_program2 cfg org its es lines meta nm au code start rkN :
  validate cfg = true -> renders_doc2 spell org its es ->
  spell_ok spell (flat_map il_labels (instrs its) ++ map fst (equs its)) ->
  ranked (equs its) rkN ->
  essential lines = elines 0 es ->
  meaning (mconf_of cfg) (mkProg its org None nm au []) = MOk code start ->
  compile cfg lines meta = COk code start meta.
Proof.
  intros Hv Hrd Hsp Hrk Hess Hmean.
  assert (Hm : (0 < c_size cfg)%N) by (unfold validate in Hv; destruct (c_size cfg <? 3)%N eqn:E; [discriminate Hv|lia]).
  assert (Hlc : (c_len cfg <= c_size cfg)%N).
  { unfold validate in Hv. destruct (c_size cfg <? c_len cfg)%N eqn:E; [|lia].
    repeat (rewrite ?andb_false_r, ?andb_false_l in Hv). discriminate Hv. }
  pose proof (r2_plain spell org its es Hrd) as Hplain.
  set (ev := equs its) in *. set (ils := instrs its) in *. set (n := Z.of_nat (length ils)).
  unfold meaning in Hmean. cbn [pr_items pr_end_labels pr_org pr_end] in Hmean.
  rewrite (collect_plain its 0 [] [] [] Hplain) in Hmean. cbn [app map] in Hmean. rewrite app_nil_r in Hmean.
  fold ev ils in Hmean.
  set (ls := lab_pairs 0 ils) in *.
  destruct (assertions (mconf_of cfg) ev ls its) as [acode astart| |] eqn:Eas; try discriminate.
  apply assertions_ok in Eas.
  destruct (meaning_code (mconf_of cfg) ev ls 0 ils []) as [code' s'| |] eqn:Emc; try discriminate.
  destruct (meaning_code_length _ _ _ _ _ _ _ _ Emc) as [Elen _]. cbn [length Nat.add] in Elen.
  destruct (mf_len (mconf_of cfg) <? Z.of_nat (length code')) eqn:El; [discriminate|].
  cbn [mconf_of mf_len] in El.
  destruct Hsp as [Hpre Hlab Hinj Hnd Hword].
  assert (Hsp' : spell_ok spell (map fst ls ++ map fst ev)).
  { unfold ls. rewrite lab_pairs_keys. constructor; assumption. }
  assert (Hev_inj : forall a b, In a (map fst ev) -> In b (map fst ev) -> spell a = spell b -> a = b)
    by (intros a b Ha Hb; apply Hinj; apply in_or_app; right; assumption).
  assert (Hev_np : forall x, In x (map fst ev) -> ~ In (spell x) predefined)
    by (intros x Hx; apply (Hlab x); apply in_or_app; right; exact Hx).
  assert (Hev_nd : NoDup (map spell (map fst ev))).
  { apply NoDup_map_spell; [|exact Hev_inj]. clear - Hnd. induction (flat_map il_labels ils) as [|a l IH]; [exact Hnd|]. cbn [app] in Hnd. inversion Hnd; subst. apply IH. assumption. }
  (* the symbol tables *)
  set (raw := raw_table spell cfg ev).
  set (labt := set_all (spell_pairs spell ls) []).
  set (se := match org with Some e => etoks spell e | None => [num_tok 0] end).
  assert (Hsym : load_symbols cfg (elines 0 es) = mkC raw labt se).
  { rewrite load_symbols_fold.
    rewrite (r2_symbols spell cfg org its es Hrd 0 (load_constants cfg) [] [num_tok 0] 0); [reflexivity| |exact Hev_nd].
    intros x Hx. apply Hev_np. exact Hx. }
  assert (Henv : env_nn ev).
  { clear - Hrd. unfold ev. intros id d H. apply env_find_entry in H.
    induction Hrd as [|org l its t k es _ _ IH|org c k its es _ _ IH|e kw cmt k its es _ _ _ IH|org n0 e0 labs kw cmt k its es _ _ Hnn _ IH|org c e1 k its es _ _ IH]; cbn [equs] in H; try (apply IH; exact H); [destruct H|].
    destruct H as [H|H]; [inversion H; subst; exact Hnn|apply IH; exact H]. }
  assert (Hac : graph_has_cycle (build_graph raw) = Some false) by (apply (graph_ranked cfg ev rkN Hev_inj Hev_np Hrk)).
  destruct (expand_expressions_succeeds raw Hac) as [res Hres].
  assert (Htabs : forall j, 0 <= j -> (j < n \/ j = 0) -> tables_ok spell (mconf_of cfg) ev ls raw labt (Z.of_N (c_size cfg)) j).
  { intros j Hj0 Hj. apply (tables_hold spell cfg ev ls j Hsp'). intros id a Ha.
    pose proof (lab_pairs_range spell _ _ _ _ Ha) as Hr. fold n in Hr. lia. }
  rewrite <- compile_essential, Hess. unfold compile. rewrite Hv. cbn [negb]. rewrite Hsym.
  cbn [c_values c_labels c_startexpr]. rewrite Hac.
  assert (Hlenraw : (length ev <= length raw)%nat) by (unfold raw, raw_table, equ_entries; rewrite app_length, map_length; lia).
  destruct (r2_assertions spell cfg ev ls raw labt se org its es Hrd (Htabs 0 ltac:(lia) (or_intror eq_refl)) Henv Hlenraw Eas 0) as [asv Hasv].
  rewrite Hasv. rewrite Hres.
  rewrite (r2_assemble spell cfg ev ls raw res labt se org its es Hm Hrd Henv Hres 0 [] code' s').
  - replace (c_len cfg <? N.of_nat (length code'))%N with false by lia.
    destruct org as [eo|].
    + (* ORG *)
      destruct (value_at (mconf_of cfg) ev ls 0 eo) as [v| |] eqn:Evo; try discriminate.
      assert (Hnn : Forall nn_ntok (nprint eo)).
      { clear - Hrd. remember (Some eo) as o eqn:Eo. induction Hrd as [|org l its t k es _ _ IH|org c k its es _ _ IH|e kw cmt k its es _ Hn _ IH|org n0 e0 labs kw cmt k its es _ _ _ _ IH|org c0 e1 k its es _ _ IH];
          try discriminate Eo; try (apply IH; exact Eo). inversion Eo; subst. exact Hn. }
      destruct (operand_equ spell (mconf_of cfg) ev ls raw labt se (Z.of_N (c_size cfg)) 0 (Htabs 0 ltac:(lia) (or_intror eq_refl)) Henv res Hres (length res) eo v Hnn Evo) as [xs [X1 X2]].
      unfold expand_fuel. cbn [c_values c_startexpr]. unfold se in *. rewrite X1, X2.
      destruct ((v <? 0) || (negb (v =? 0) && (Z.of_nat (length code') <=? v))); [discriminate|]. inversion Hmean; subst. reflexivity.
    + inversion Hmean; subst code' start. unfold expand_fuel. cbn [c_values c_startexpr]. unfold se.
      rewrite expand_expression_plain by (repeat constructor; cbn; discriminate). rewrite eval_num. reflexivity.
  - intros j Hj. apply Htabs; fold ils n in Hj; lia.
  - exact Emc.
Qed.

(* ... and a program with a condition that is zero is refused: the first ;assert line whose value is 0 (those before it
   being non-zero) makes the compiler answer with an error, whatever else the program holds *)
Theorem compile_program2_refused cfg org its es lines meta rkN :
  validate cfg = true -> renders_doc2 spell org its es ->
  spell_ok spell (flat_map il_labels (instrs its) ++ map fst (equs its)) ->
  ranked (equs its) rkN ->
  essential lines = elines 0 es ->
  Z.of_nat (length (instrs its)) < Z.of_N (c_size cfg) ->
  first_zero (mconf_of cfg) (equs its) (lab_pairs 0 (instrs its)) its = true ->
  compile cfg lines meta = CErr.
Proof.
  intros Hv Hrd Hsp Hrk Hess Hshort Hz.
  set (ev := equs its) in *. set (ils := instrs its) in *. set (n := Z.of_nat (length ils)) in *.
  set (ls := lab_pairs 0 ils) in *.
  destruct Hsp as [Hpre Hlab Hinj Hnd Hword].
  assert (Hsp' : spell_ok spell (map fst ls ++ map fst ev)).
  { unfold ls. rewrite lab_pairs_keys. constructor; assumption. }
  assert (Hev_inj : forall a b, In a (map fst ev) -> In b (map fst ev) -> spell a = spell b -> a = b)
    by (intros a b Ha Hb; apply Hinj; apply in_or_app; right; assumption).
  assert (Hev_np : forall x, In x (map fst ev) -> ~ In (spell x) predefined)
    by (intros x Hx; apply (Hlab x); apply in_or_app; right; exact Hx).
  assert (Hev_nd : NoDup (map spell (map fst ev))).
  { apply NoDup_map_spell; [|exact Hev_inj]. clear - Hnd. induction (flat_map il_labels ils) as [|a l IH]; [exact Hnd|]. cbn [app] in Hnd. inversion Hnd; subst. apply IH. assumption. }
  (* the symbol tables *)
  set (raw := raw_table spell cfg ev).
  set (labt := set_all (spell_pairs spell ls) []).
  set (se := match org with Some e => etoks spell e | None => [num_tok 0] end).
  assert (Hsym : load_symbols cfg (elines 0 es) = mkC raw labt se).
  { rewrite load_symbols_fold.
    rewrite (r2_symbols spell cfg org its es Hrd 0 (load_constants cfg) [] [num_tok 0] 0); [reflexivity| |exact Hev_nd].
    intros x Hx. apply Hev_np. exact Hx. }
  assert (Henv : env_nn ev).
  { clear - Hrd. unfold ev. intros id d H. apply env_find_entry in H.
    induction Hrd as [|org l its t k es _ _ IH|org c k its es _ _ IH|e kw cmt k its es _ _ _ IH|org n0 e0 labs kw cmt k its es _ _ Hnn _ IH|org c e1 k its es _ _ IH]; cbn [equs] in H; try (apply IH; exact H); [destruct H|].
    destruct H as [H|H]; [inversion H; subst; exact Hnn|apply IH; exact H]. }
  assert (Hac : graph_has_cycle (build_graph raw) = Some false) by (apply (graph_ranked cfg ev rkN Hev_inj Hev_np Hrk)).
  destruct (expand_expressions_succeeds raw Hac) as [res Hres].
  assert (Htabs : forall j, 0 <= j -> (j < n \/ j = 0) -> tables_ok spell (mconf_of cfg) ev ls raw labt (Z.of_N (c_size cfg)) j).
  { intros j Hj0 Hj. apply (tables_hold spell cfg ev ls j Hsp'). intros id a Ha.
    pose proof (lab_pairs_range spell _ _ _ _ Ha) as Hr. fold n in Hr. lia. }
  rewrite <- compile_essential, Hess. unfold compile. rewrite Hv. cbn [negb]. rewrite Hsym.
  cbn [c_values c_labels c_startexpr]. rewrite Hac.
  assert (Hlenraw : (length ev <= length raw)%nat) by (unfold raw, raw_table, equ_entries; rewrite app_length, map_length; lia).
  rewrite (r2_assertions_zero spell cfg ev ls raw labt se org its es Hrd (Htabs 0 ltac:(lia) (or_intror eq_refl)) Henv Hlenraw Hz 0).
  reflexivity.
Qed.
End EquCompile.
