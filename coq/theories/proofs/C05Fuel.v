(* C05Fuel.v — the FOR expander state machine ends within 4*|tokens|+8 state
   functions on every closed token stream (a measure argument), provided the
   evaluation of FOR counts does not run out of its own fuel. *)
From GM Require Import Base Text Token Lexer Scanner ExprSpec ExprEval ForExpand C05Lexer C05Expander.
From Coq Require Import Lia.
Open Scope N_scope.

Definition remn (rd : reader) : nat := if r_eof rd then O else S (length (r_toks rd)).
(* reader over a closed stream: at the end exactly when the current token is terminal, and otherwise
   the tokens still to come form a closed stream *)
Definition RI (rd : reader) : Prop :=
  r_eof rd = is_terminal (r_next rd) /\ (r_eof rd = false -> closed_stream (r_toks rd)).

Lemma closed_cons t l : closed_stream (t :: l) -> is_terminal t = false -> closed_stream l.
Proof.
  intros [pre [e [E [T P]]]] Ht. destruct pre as [|x pre].
  - cbn in E. inversion E; subst. congruence.
  - cbn in E. inversion E; subst. inversion P; subst. exists pre, e. auto.
Qed.
Lemma closed_nonempty l : closed_stream l -> l <> [].
Proof. intros [pre [e [-> _]]]. destruct pre; discriminate. Qed.

Lemma rnext_RI rd : RI rd -> is_terminal (r_next rd) = false ->
  RI (rnext rd) /\ (S (remn (rnext rd)) <= remn rd)%nat.
Proof.
  intros [E1 E2] Hn. rewrite Hn in E1. specialize (E2 E1).
  unfold rnext, remn. rewrite E1. destruct (r_toks rd) as [|t2 rest] eqn:Et.
  - exfalso. apply (closed_nonempty _ E2). reflexivity.
  - cbn [r_eof r_toks r_next]. split.
    + split; [reflexivity|]. intros Ht. apply (closed_cons t2 rest E2 Ht).
    + destruct (is_terminal t2); cbn [length]; lia.
Qed.
Lemma reader_init_RI toks : closed_stream toks -> RI (reader_init toks) /\ (remn (reader_init toks) <= length toks)%nat.
Proof.
  intros C. unfold reader_init, rnext. cbn [r_eof r_toks].
  destruct toks as [|t rest]; [exfalso; apply (closed_nonempty _ C); reflexivity|].
  cbn [r_next]. split.
  - split; [reflexivity|]. cbn [r_eof r_toks]. intros Ht. apply (closed_cons t rest C Ht).
  - unfold remn. cbn [r_eof r_toks length]. destruct (is_terminal t); lia.
Qed.

Definition rank (st : fstate) : nat :=
  match st with
  | FLine => 3 | FConsumeLabels => 2 | FWriteLabelsEmitConsumeLine => 1 | FConsumeEmitLine => 0
  | FConsumeExpression => 5 | FFor => 4
  | FInnerLine => 3 | FInnerLabels => 2 | FInnerEmitLabels => 1 | FInnerEmitConsumeLine => 0
  | FRof => 1 | FEmitConsumeStream => 0
  end%nat.
Definition mu (st : fstate) (f : fexp) : nat := (4 * remn (f_rd f) + rank st)%nat.
Definition K (st : fstate) (f : fexp) : Prop :=
  RI (f_rd f) /\ (st = FWriteLabelsEmitConsumeLine -> is_terminal (f_nt f) = false).

Lemma next_ok f : RI (f_rd f) -> is_terminal (f_nt f) = false ->
  RI (f_rd (f_next f)) /\ (S (remn (f_rd (f_next f))) <= remn (f_rd f))%nat.
Proof. intros H1 H2. unfold f_next. cbn [f_rd f_set_rd]. apply rnext_RI; assumption. Qed.

Lemma rof_skip_rem n : forall f, RI (f_rd f) ->
  RI (f_rd (fst (rof_skip n f))) /\ (remn (f_rd (fst (rof_skip n f))) <= remn (f_rd f))%nat.
Proof.
  induction n as [|n IH]; intros f H; cbn [rof_skip].
  - cbn. split; [exact H|lia].
  - destruct (t_typ (f_nt f)) eqn:E;
      try (assert (Hn : is_terminal (f_nt f) = false) by (unfold is_terminal; rewrite E; reflexivity);
           destruct (next_ok f H Hn) as [A B]; destruct (IH (f_next f) A) as [C D];
           split; [exact C|lia]).
    + cbn. split; [exact H|lia].
    + assert (Hn : is_terminal (f_nt f) = false) by (unfold is_terminal; rewrite E; reflexivity).
      destruct (next_ok f H Hn) as [A B]. cbn [fst]. split; [exact A|lia].
    + cbn. split; [exact H|lia].
Qed.

Ltac ntn E := unfold is_terminal; rewrite E; reflexivity.

Lemma for_step_decreases symbols st f f' st' : K st f -> for_step symbols st f = Some (f', Some st') ->
  K st' f' /\ (mu st' f' < mu st f)%nat.
Proof.
  intros [HR HW] H. unfold K, mu. destruct st; cbn [for_step] in H.
  - destruct (t_typ (f_nt f)); inversion H; subst; cbn [f_rd f_set_labels rank]; (split; [split; [exact HR|discriminate]|lia]).
  - destruct (t_typ (f_nt f)) eqn:E; try discriminate H;
      try (assert (Hn : is_terminal (f_nt f) = false) by ntn E; destruct (next_ok f HR Hn) as [A B];
           inversion H; subst; cbn [f_rd f_set_labels f_next f_set_rd rank] in *; (split; [split; [exact A|discriminate]|lia])).
    assert (Hn : is_terminal (f_nt f) = false) by ntn E. destruct (next_ok f HR Hn) as [A B].
    destruct (tok_is_pseudo (f_nt f)).
    + destruct (lower_is (t_val (f_nt f)) "for"); inversion H; subst; cbn [f_rd f_set_expr f_next f_set_rd rank] in *.
      * split; [split; [exact A|discriminate]|lia].
      * split; [split; [exact HR|intros _; exact Hn]|lia].
    + destruct (tok_is_op (f_nt f)); inversion H; subst; cbn [f_rd f_set_labels f_next f_set_rd rank] in *.
      * split; [split; [exact HR|intros _; exact Hn]|lia].
      * split; [split; [exact A|discriminate]|lia].
  - specialize (HW eq_refl). inversion H; subst.
    assert (Hn : is_terminal (f_nt (f_set_labels (f_send f (map (mkT tokText) (f_labels f))) [])) = false) by exact HW.
    destruct (next_ok (f_send (f_set_labels (f_send f (map (mkT tokText) (f_labels f))) []) [f_nt (f_set_labels (f_send f (map (mkT tokText) (f_labels f))) [])]) HR HW) as [A B].
    cbn [f_rd f_emit_consume f_next f_set_rd f_send f_set_labels rank] in *. split; [split; [exact A|discriminate]|lia].
  - destruct (t_typ (f_nt f)) eqn:E; try discriminate H;
      (assert (Hn : is_terminal (f_nt f) = false) by ntn E;
       destruct (next_ok (f_send f [f_nt f]) HR Hn) as [A B];
       inversion H; subst; cbn [f_rd f_emit_consume f_next f_set_rd f_send rank] in *; (split; [split; [exact A|discriminate]|lia])).
  - destruct (t_typ (f_nt f)) eqn:E; try discriminate H;
      (assert (Hn : is_terminal (f_nt f) = false) by ntn E;
       first [destruct (next_ok f HR Hn) as [A B] | destruct (next_ok (f_set_expr f (f_expr f ++ [f_nt f])) HR Hn) as [A B]];
       inversion H; subst; cbn [f_rd f_next f_set_rd f_set_expr rank] in *; (split; [split; [exact A|discriminate]|lia])).
  - destruct (expand_and_evaluate (f_expr f) symbols) as [[v| |]|]; try discriminate H.
    inversion H; subst. cbn [f_rd rank]. split; [split; [exact HR|discriminate]|lia].
  - destruct (t_typ (f_nt f)); inversion H; subst; cbn [f_rd f_set_labels rank]; (split; [split; [exact HR|discriminate]|lia]).
  - destruct (t_typ (f_nt f)) eqn:E;
      try (inversion H; subst; cbn [f_rd rank]; (split; [split; [exact HR|discriminate]|lia])).
    2: { assert (Hn : is_terminal (f_nt f) = false) by ntn E. destruct (next_ok f HR Hn) as [A B].
         inversion H; subst. cbn [rank]. split; [split; [exact A|discriminate]|lia]. }
    assert (Hn : is_terminal (f_nt f) = false) by ntn E.
    destruct (tok_is_pseudo (f_nt f)).
    + destruct (lower_is (t_val (f_nt f)) "for"); [inversion H; subst; cbn [f_rd f_set_depth rank]; rewrite f_mark_rd; (split; [split; [exact HR|discriminate]|lia])|].
      destruct (lower_is (t_val (f_nt f)) "rof"); [|inversion H; subst; cbn [f_rd rank]; (split; [split; [exact HR|discriminate]|lia])].
      destruct (f_depth f); inversion H; subst; cbn [f_rd f_set_depth rank]; (split; [split; [exact HR|discriminate]|lia]).
    + destruct (tok_is_op (f_nt f)).
      * inversion H; subst; cbn [rank]; rewrite f_mark_rd; (split; [split; [exact HR|discriminate]|lia]).
      * destruct (next_ok (f_set_labels f (f_labels f ++ [t_val (f_nt f)])) HR Hn) as [A B].
        inversion H; subst; cbn [f_rd f_next f_set_rd f_set_labels rank] in *. split; [split; [exact A|discriminate]|lia].
  - inversion H; subst. cbn [f_rd f_set_content rank]. split; [split; [exact HR|discriminate]|lia].
  - destruct (t_typ (f_nt f)) eqn:E; try discriminate H;
      (assert (Hn : is_terminal (f_nt f) = false) by ntn E;
       destruct (next_ok (f_set_content f (f_content f ++ [f_nt f])) HR Hn) as [A B];
       inversion H; subst; cbn [f_rd f_next f_set_rd f_set_content rank] in *; (split; [split; [exact A|discriminate]|lia])).
  - destruct (rof_skip_rem (S (S (length (r_toks (f_rd f))))) f HR) as [R1 R2].
    destruct (rof_skip (S (S (length (r_toks (f_rd f))))) f) as [f1 b]. cbn [fst snd] in *.
    destruct b; [|discriminate H].
    inversion H; subst. cbn [f_rd f_send f_next f_set_rd rank] in *. split; [split; [exact R1|discriminate]|lia].
  - discriminate H.
Qed.

Lemma for_step_some symbols (Hev : forall e, expand_and_evaluate e symbols <> None) st f :
  for_step symbols st f <> None.
Proof.
  destruct st; cbn [for_step];
    repeat match goal with
           | |- context [match ?x with _ => _ end] => destruct x eqn:?
           end; try discriminate.
  all: try (exfalso; eapply Hev; eassumption).
Qed.

Lemma for_run_ends symbols (Hev : forall e, expand_and_evaluate e symbols <> None) n : forall st f,
  K st f -> (mu st f < n)%nat -> exists f', for_run symbols n st f = Some f'.
Proof.
  induction n as [|n IH]; intros st f HK Hn; [lia|].
  cbn [for_run]. destruct (for_step symbols st f) as [[f1 [st1|]]|] eqn:E.
  - destruct (for_step_decreases symbols st f f1 st1 HK E) as [K1 M1]. apply IH; [exact K1|lia].
  - eexists. reflexivity.
  - exfalso. apply (for_step_some symbols Hev st f). exact E.
Qed.

Theorem for_expand_ends toks symbols :
  closed_stream toks -> (forall e, expand_and_evaluate e symbols <> None) ->
  exists r, for_expand toks symbols = Some r.
Proof.
  intros C Hev. unfold for_expand. destruct (r_eof (reader_init toks)) eqn:Ee; [eexists; reflexivity|].
  destruct (reader_init_RI toks C) as [R1 R2].
  destruct (for_run_ends symbols Hev (4 * length toks + 8) FLine
              (mkF (reader_init toks) [] [] [] [] None 0%Z [] O [] false)) as [f' E].
  - split; [exact R1|discriminate].
  - unfold mu. cbn [f_rd rank]. lia.
  - rewrite E. eexists. reflexivity.
Qed.
