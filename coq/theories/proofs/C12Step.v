(* C12Step.v — one reference step commutes with rotating the core:
   every effective address is (pc + x) mod M.  For k = 0 this is also the
   statement that the step respects cell-for-cell equality of cores. *)
From GM Require Import Base Emi94 Rotate.
From Coq Require Import Lia ZifyN ZifyBool.
Open Scope N_scope.

Section Rot.
Variables M k : N.
Hypothesis HM : 0 < M.

Lemma shift_lt x : shift M k x < M.
Proof. unfold shift. apply N.mod_lt. lia. Qed.

Lemma addr_shift pc x : addr M (shift M k pc) x = shift M k (addr M pc x).
Proof.
  unfold addr, shift.
  rewrite N.add_mod_idemp_l by lia. rewrite N.add_mod_idemp_l by lia.
  f_equal. lia.
Qed.

Lemma shift_inj a b : a < M -> b < M -> shift M k a = shift M k b -> a = b.
Proof.
  unfold shift. intros Ha Hb E.
  assert (E2 : (a + k mod M) mod M = (b + k mod M) mod M).
  { rewrite !N.add_mod_idemp_r by lia. exact E. }
  assert (Hk : k mod M < M) by (apply N.mod_lt; lia).
  set (r := k mod M) in *.
  assert (Ma : (a + r) mod M = if a + r <? M then a + r else a + r - M).
  { destruct (N.ltb_spec (a + r) M); [now apply N.mod_small|].
    replace (a + r) with ((a + r - M) + 1 * M) at 1 by lia.
    rewrite N.mod_add by lia. apply N.mod_small. lia. }
  assert (Mb : (b + r) mod M = if b + r <? M then b + r else b + r - M).
  { destruct (N.ltb_spec (b + r) M); [now apply N.mod_small|].
    replace (b + r) with ((b + r - M) + 1 * M) at 1 by lia.
    rewrite N.mod_add by lia. apply N.mod_small. lia. }
  rewrite Ma, Mb in E2.
  destruct (N.ltb_spec (a + r) M), (N.ltb_spec (b + r) M); lia.
Qed.

Lemma rot_get c c' pc x : rot_rel M k c c' -> get c' (addr M (shift M k pc) x) = get c (addr M pc x).
Proof.
  intros H. rewrite addr_shift. apply H. unfold addr. apply N.mod_lt. lia.
Qed.

Lemma rot_upd c c' a f :
  rot_rel M k c c' -> a < M -> rot_rel M k (upd c a f) (upd c' (shift M k a) f).
Proof.
  intros H Ha b Hb. rewrite !get_upd.
  destruct (N.eqb_spec b a) as [->|Hne].
  - rewrite N.eqb_refl. f_equal. now apply H.
  - destruct (N.eqb_spec (shift M k b) (shift M k a)) as [E|E].
    + exfalso. apply Hne. now apply shift_inj.
    + now apply H.
Qed.

Lemma rot_set c c' a i :
  rot_rel M k c c' -> a < M -> rot_rel M k (set c a i) (set c' (shift M k a) i).
Proof.
  intros H Ha b Hb. rewrite !get_set.
  destruct (N.eqb_spec b a) as [->|Hne].
  - now rewrite N.eqb_refl.
  - destruct (N.eqb_spec (shift M k b) (shift M k a)) as [E|E].
    + exfalso. apply Hne. now apply shift_inj.
    + now apply H.
Qed.

Variables fR fW : N -> N.

Lemma eval_operand_rot c c' pc md num :
  rot_rel M k c c' -> pc < M ->
  let '(c2, rp, wp, ir) := eval_operand_g M fR fW c pc md num in
  let '(c2', rp', wp', ir') := eval_operand_g M fR fW c' (shift M k pc) md num in
  rot_rel M k c2 c2' /\ rp' = rp /\ wp' = wp /\ ir' = ir.
Proof.
  intros H Hpc.
  assert (Ha : forall x, addr M pc x < M) by (intros; unfold addr; apply N.mod_lt; lia).
  unfold eval_operand_g.
  destruct md; cbn [mode_field predec postinc]; cbv zeta.
  - (* DIRECT *) rewrite (rot_get c c') by assumption. auto.
  - (* IMMEDIATE *) split; [assumption|]. split; [reflexivity|]. split; [reflexivity|].
    apply H. assumption.
  - (* A_INDIRECT *) rewrite !(rot_get c c') by assumption. auto.
  - (* B_INDIRECT *) rewrite !(rot_get c c') by assumption. auto.
  - (* A_DECREMENT *)
    replace (addr M (shift M k pc) (fW num)) with (shift M k (addr M pc (fW num))) by (symmetry; apply addr_shift).
    pose proof (rot_upd c c' (addr M pc (fW num)) (fun i => fset FA i ((fget FA i + M - 1) mod M)) H (Ha _)) as H1.
    rewrite (H1 _ (Ha (fW num))). rewrite !(rot_get _ _ pc _ H1). auto.
  - (* B_DECREMENT *)
    replace (addr M (shift M k pc) (fW num)) with (shift M k (addr M pc (fW num))) by (symmetry; apply addr_shift).
    pose proof (rot_upd c c' (addr M pc (fW num)) (fun i => fset FB i ((fget FB i + M - 1) mod M)) H (Ha _)) as H1.
    rewrite (H1 _ (Ha (fW num))). rewrite !(rot_get _ _ pc _ H1). auto.
  - (* A_INCREMENT *)
    replace (addr M (shift M k pc) (fW num)) with (shift M k (addr M pc (fW num))) by (symmetry; apply addr_shift).
    rewrite (H _ (Ha (fW num))). rewrite !(rot_get c c') by assumption.
    split; [apply rot_upd; auto|auto].
  - (* B_INCREMENT *)
    replace (addr M (shift M k pc) (fW num)) with (shift M k (addr M pc (fW num))) by (symmetry; apply addr_shift).
    rewrite (H _ (Ha (fW num))). rewrite !(rot_get c c') by assumption.
    split; [apply rot_upd; auto|auto].
Qed.

Lemma write_pairs_rot val ps c c' w :
  rot_rel M k c c' -> w < M ->
  rot_rel M k (write_pairs val ps c w) (write_pairs val ps c' (shift M k w)).
Proof.
  unfold write_pairs. revert c c'.
  induction ps as [|[s d] ps IH]; intros c c' H Hw; cbn [fold_left fst snd]; [assumption|].
  apply IH; [|assumption]. destruct (val s d); [apply rot_upd; assumption|assumption].
Qed.

Lemma djn_rot (fs : list fld) c c' w :
  rot_rel M k c c' -> w < M ->
  rot_rel M k
    (fold_left (fun c f => upd c w (fun i => fset f i ((fget f i + M - 1) mod M))) fs c)
    (fold_left (fun c f => upd c (shift M k w) (fun i => fset f i ((fget f i + M - 1) mod M))) fs c').
Proof.
  revert c c'. induction fs as [|f fs IH]; intros c c' H Hw; cbn [fold_left]; [assumption|].
  apply IH; [|assumption]. apply rot_upd; assumption.
Qed.

Lemma shift_succ pc n : pc < M -> (shift M k pc + n) mod M = shift M k ((pc + n) mod M).
Proof.
  intros. unfold shift. rewrite N.add_mod_idemp_l by lia. rewrite N.add_mod_idemp_l by lia.
  f_equal. lia.
Qed.

Theorem step_core_rot c c' pc :
  rot_rel M k c c' -> pc < M ->
  let '(c1, s1) := step_core_g M fR fW c pc in
  let '(c1', s1') := step_core_g M fR fW c' (shift M k pc) in
  rot_rel M k c1 c1' /\ s1' = map (shift M k) s1.
Proof.
  intros H Hpc. unfold step_core_g.
  rewrite (H pc Hpc). set (IR := get c pc).
  pose proof (eval_operand_rot c c' pc (i_am IR) (i_a IR) H Hpc) as EA.
  destruct (eval_operand_g M fR fW c pc (i_am IR) (i_a IR)) as [[[c1 rpa] wpa] ira].
  destruct (eval_operand_g M fR fW c' (shift M k pc) (i_am IR) (i_a IR)) as [[[c1' rpa'] wpa'] ira'].
  destruct EA as (H1 & -> & -> & ->).
  pose proof (eval_operand_rot c1 c1' pc (i_bm IR) (i_b IR) H1 Hpc) as EB.
  destruct (eval_operand_g M fR fW c1 pc (i_bm IR) (i_b IR)) as [[[c2 rpb] wpb] irb].
  destruct (eval_operand_g M fR fW c1' (shift M k pc) (i_bm IR) (i_b IR)) as [[[c2' rpb'] wpb'] irb'].
  destruct EB as (H2 & -> & -> & ->).
  rewrite !addr_shift, !shift_succ by assumption.
  assert (Hw : addr M pc wpb < M) by (unfold addr; apply N.mod_lt; lia).
  destruct (i_op IR); cbv zeta;
    try (split; [assumption|cbn [map]; repeat match goal with |- context [if ?b then _ else _] => destruct b end; reflexivity]);
    try (split; [apply write_pairs_rot; assumption
                |cbn [map]; repeat match goal with |- context [if ?b then _ else _] => destruct b end; reflexivity]).
  - (* MOV *) split; [|reflexivity].
    destruct (i_md IR); first [apply write_pairs_rot; assumption | apply rot_set; assumption].
  - (* DJN *) split; [apply djn_rot; assumption|].
    cbn [map]. destruct (existsb _ _); reflexivity.
Qed.
End Rot.
