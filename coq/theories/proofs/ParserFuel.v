(* ParserFuel.v — the parser (parser.go) ends within its 4*|tokens|+10 state
   functions on every closed token stream: a potential argument (4 per token still
   to be consumed plus a rank of the state) over the thirteen state functions. *)
From GM Require Import Base Text Token Lexer Scanner ExprSpec ExprEval ForExpand Parser C05Lexer C05Expander C05Fuel.
From Coq Require Import Lia.
Open Scope N_scope.

(* the part of the parser state the argument is about *)
Definition PI (p : parser) : Prop :=
  if is_terminal (p_nt p) then p_toks p = [] else (p_eof p = false /\ closed_stream (p_toks p)).
Definition prem (p : parser) : nat := if is_terminal (p_nt p) then O else length (p_toks p).

Lemma closed_terminal_last t l : closed_stream (t :: l) -> is_terminal t = true -> l = [].
Proof.
  intros [pre [e [E [T P]]]] Ht. destruct pre as [|x pre].
  - cbn in E. inversion E. reflexivity.
  - cbn in E. inversion E; subst. inversion P as [|y z Hy Hz]; subst. unfold nonterm in Hy. congruence.
Qed.

Ltac pcbn := cbn [p_toks p_nt p_eof p_line p_codeline p_err p_cur p_meta p_end p_lines p_syms p_refs
                  cur_set p_set_cur p_fail p_push_line p_set_meta p_set_refs cur_newline p_upd] in *.

Lemma pnext_PI p : PI p ->
  PI (pnext p) /\ (prem (pnext p) <= prem p)%nat /\
  (is_terminal (p_nt p) = false -> (S (prem (pnext p)) <= prem p)%nat) /\
  (is_terminal (p_nt p) = true -> p_nt (pnext p) = p_nt p).
Proof.
  unfold PI, prem, pnext. intros H. destruct (is_terminal (p_nt p)) eqn:E.
  - rewrite H. destruct (p_eof p); pcbn; rewrite ?E; (split; [try exact H; reflexivity|]); (split; [lia|]);
      (split; [discriminate|reflexivity]).
  - destruct H as [He Hc]. rewrite He. destruct (p_toks p) as [|t rest] eqn:Et.
    + exfalso. apply (closed_nonempty _ Hc). reflexivity.
    + pcbn. destruct (is_terminal t) eqn:Ett.
      * split; [apply (closed_terminal_last t rest Hc Ett)|]. split; [lia|]. split; [cbn [length]; lia|discriminate].
      * split; [split; [reflexivity|apply (closed_cons t rest Hc Ett)]|]. split; [cbn [length]; lia|].
        split; [cbn [length]; lia|discriminate].
Qed.

(* updates that leave tokens, next token and end flag alone *)
Definition same_core (p q : parser) : Prop := p_toks q = p_toks p /\ p_nt q = p_nt p /\ p_eof q = p_eof p.
Lemma same_core_PI p q : same_core p q -> PI p -> PI q /\ prem q = prem p.
Proof. intros [A [B C]]. unfold PI, prem. rewrite A, B, C. auto. Qed.

Lemma pnext_any p : PI p -> PI (pnext p) /\ (prem (pnext p) <= prem p)%nat.
Proof. intros H. destruct (pnext_PI p H) as [A [B _]]. auto. Qed.
Lemma pnext_nonterm p : PI p -> is_terminal (p_nt p) = false -> PI (pnext p) /\ (S (prem (pnext p)) <= prem p)%nat.
Proof. intros H E. destruct (pnext_PI p H) as [A [_ [B _]]]. auto. Qed.

(* ---------- the loops ---------- *)
Lemma expr_loop_PI f : forall p acc refs, PI p ->
  let '(p1, _, _) := expr_loop f p acc refs in
  PI p1 /\ (prem p1 <= prem p)%nat /\ p_cur p1 = p_cur p /\ p_lines p1 = p_lines p.
Proof.
  induction f as [|f IH]; intros p acc refs H; cbn [expr_loop]; [auto|].
  destruct (tok_is_expr_term (p_nt p)); [|auto].
  destruct (pnext_any p H) as [A B].
  match goal with |- context [expr_loop f (pnext p) ?a ?r] => specialize (IH (pnext p) a r A);
    destruct (expr_loop f (pnext p) a r) as [[p1 acc1] refs1] end.
  destruct IH as [C [D [E F]]]. split; [exact C|]. split; [lia|].
  split; [rewrite E|rewrite F]; unfold pnext; destruct (p_eof p); try reflexivity; destruct (p_toks p); reflexivity.
Qed.

Fixpoint empty_go (f : nat) (p : parser) : parser * option pstate :=
  match f with
  | O => (p, None)
  | S f' => match t_typ (p_nt p) with
            | tokNewline => empty_go f' (pnext (cur_newline p))
            | _ => (p_push_line p, Some PLine)
            end
  end.
Lemma step_empty p : parse_step PEmptyLines p = empty_go (S (S (length (p_toks p)))) p.
Proof. reflexivity. Qed.
Lemma empty_go_PI f : forall p p' nxt, PI p -> empty_go f p = (p', nxt) ->
  PI p' /\ (prem p' <= prem p)%nat /\ (nxt = None \/ nxt = Some PLine).
Proof.
  induction f as [|f IH]; intros p p' nxt H E; cbn [empty_go] in E.
  - inversion E; subst. auto.
  - destruct (t_typ (p_nt p)) eqn:Et;
      try (inversion E; subst; destruct (same_core_PI p (p_push_line p) ltac:(repeat split) H) as [A B]; rewrite B; auto).
    assert (Hc : PI (cur_newline p)) by (apply (same_core_PI p); [repeat split|exact H]).
    assert (Hp : prem (cur_newline p) = prem p) by (apply (same_core_PI p); [repeat split|exact H]).
    destruct (pnext_any _ Hc) as [A B]. destruct (IH _ _ _ A E) as [C [D F]]. split; [exact C|]. split; [lia|exact F].
Qed.

Fixpoint colon_go (f : nat) (p : parser) : parser :=
  match f with
  | O => p
  | S f' => match t_typ (p_nt p) with tokColon => colon_go f' (pnext p) | _ => p end
  end.
Lemma colon_go_PI f : forall p, PI p ->
  PI (colon_go f p) /\ (prem (colon_go f p) <= prem p)%nat /\
  p_cur (colon_go f p) = p_cur p /\ p_lines (colon_go f p) = p_lines p.
Proof.
  induction f as [|f IH]; intros p H; cbn [colon_go]; [auto|].
  destruct (t_typ (p_nt p)); auto.
  destruct (pnext_any p H) as [A B]. destruct (IH _ A) as [C [D [E F]]]. split; [exact C|]. split; [lia|].
  split; [rewrite E|rewrite F]; unfold pnext; destruct (p_eof p); try reflexivity; destruct (p_toks p); reflexivity.
Qed.

(* ---------- the potential ---------- *)
Definition prank (st : pstate) (nt : token) : nat :=
  match st with
  | PComment => 0
  | POp | PPseudoOp | PModeA => 1
  | PColon => match t_typ nt with tokColon => 1 | _ => 3 end
  | PEmptyLines => match t_typ nt with tokNewline => 1 | _ => 4 end
  | PLabels => 2
  | PLine | PComma | PModeB => 3
  | PExprA | PExprB | PPseudoExpr => 4
  end%nat.
Definition pmu (st : pstate) (p : parser) : nat := (4 * prem p + prank st (p_nt p))%nat.

Lemma prank_le st nt : (prank st nt <= 4)%nat.
Proof. destruct st; cbn; try lia; destruct (t_typ nt); lia. Qed.

Definition decr (st : pstate) (p : parser) (st' : pstate) (p' : parser) : Prop :=
  PI p' /\ (pmu st' p' < pmu st p)%nat.

Ltac samecore p q H A B := destruct (same_core_PI p q ltac:(repeat split) H) as [A B].
Ltac nt_false E := unfold is_terminal; rewrite E; reflexivity.

Lemma dec_line p p' st' : PI p -> parse_step PLine p = (p', Some st') -> decr PLine p st' p'.
Proof.
  intros H E. cbn [parse_step] in E. destruct (p_end p); [discriminate|].
  destruct (t_typ (p_nt p)) eqn:Et; inversion E; subst; clear E;
    (match goal with |- decr _ _ _ ?q => samecore p q H A B end; split; [exact A|]; unfold pmu; rewrite B; pcbn; cbn [prank]; rewrite ?Et; lia).
Qed.

Lemma dec_empty p p' st' : PI p -> parse_step PEmptyLines p = (p', Some st') -> decr PEmptyLines p st' p'.
Proof.
  intros H E. rewrite step_empty in E. remember (S (length (p_toks p))) as n0 eqn:En0. cbn [empty_go] in E.
  destruct (t_typ (p_nt p)) eqn:Et.
  10: { (* newline: at least this one is consumed *)
    assert (Hn : is_terminal (p_nt p) = false) by nt_false Et.
    samecore p (cur_newline p) H A B.
    assert (Hn' : is_terminal (p_nt (cur_newline p)) = false) by exact Hn.
    destruct (pnext_nonterm _ A Hn') as [C D].
    destruct (empty_go_PI _ _ _ _ C E) as [F [G [K|K]]]; [discriminate|]. inversion K; subst.
    split; [exact F|]. unfold pmu. cbn [prank]. rewrite Et. lia. }
  all: inversion E; subst; samecore p (p_push_line p) H A B; split; [exact A|]; unfold pmu; rewrite B; pcbn; cbn [prank]; rewrite Et; lia.
Qed.

Lemma consume_emit_dec p nxt p' st' : PI p -> is_terminal (p_nt p) = false ->
  consume_emit_line p nxt = (p', Some st') -> PI p' /\ st' = nxt /\ (S (prem p') <= prem p)%nat.
Proof.
  intros H Hn E. unfold consume_emit_line in E. destruct (pnext_nonterm p H Hn) as [A B].
  destruct (t_typ (p_nt (pnext p))) eqn:Et; try discriminate E.
  inversion E; subst. samecore (pnext p) (p_push_line (cur_newline (pnext p))) A C D.
  destruct (pnext_any _ C) as [F G]. split; [exact F|]. split; [reflexivity|]. lia.
Qed.
Lemma consume_emit_term p nxt p' st' : PI p -> is_terminal (p_nt p) = true ->
  consume_emit_line p nxt = (p', Some st') -> False.
Proof.
  intros H Hn E. unfold consume_emit_line in E. destruct (pnext_PI p H) as [_ [_ [_ K]]]. specialize (K Hn).
  rewrite K in E. unfold is_terminal in Hn. destruct (t_typ (p_nt p)); try discriminate Hn; discriminate E.
Qed.

Lemma dec_comment p p' st' : PI p -> parse_step PComment p = (p', Some st') -> decr PComment p st' p'.
Proof.
  intros H E. cbn [parse_step] in E.
  match type of E with consume_emit_line ?q _ = _ => samecore p q H A B; assert (Hq : p_nt q = p_nt p) by reflexivity end.
  destruct (is_terminal (p_nt p)) eqn:Hn.
  - exfalso. eapply consume_emit_term; [exact A| |exact E]. rewrite Hq. exact Hn.
  - destruct (consume_emit_dec _ _ _ _ A ltac:(rewrite Hq; exact Hn) E) as [C [-> D]].
    split; [exact C|]. unfold pmu. cbn [prank]. lia.
Qed.

Lemma dec_labels p p' st' : PI p -> parse_step PLabels p = (p', Some st') -> decr PLabels p st' p'.
Proof.
  intros H E. cbn [parse_step] in E.
  destruct (t_typ (p_nt p)) eqn:Et.
  (* newline and comment: consumed *)
  10: { assert (Hn : is_terminal (p_nt p) = false) by nt_false Et. destruct (pnext_nonterm p H Hn) as [A B].
        injection E as <- <-. split; [exact A|]. unfold pmu. cbn [prank]. lia. }
  9: { assert (Hn : is_terminal (p_nt p) = false) by nt_false Et.
       injection E as <- <-. match goal with |- decr _ _ _ (pnext ?q) => samecore p q H A B;
         assert (Hq : is_terminal (p_nt q) = false) by exact Hn; destruct (pnext_nonterm q A Hq) as [C D] end.
       split; [exact C|]. unfold pmu. cbn [prank]. lia. }
  all: destruct (tok_is_op (p_nt p)) eqn:Eo;
    [injection E as <- <-; split; [exact H|]; unfold pmu; destruct (tok_is_pseudo (p_nt p)); cbn [prank]; lia|].
  (* text that is not an op: a label, consumed *)
  2: { assert (Hn : is_terminal (p_nt p) = false) by nt_false Et.
       injection E as <- <-. match goal with |- decr _ _ _ (pnext ?q) => samecore p q H A B;
         assert (Hq : is_terminal (p_nt q) = false) by exact Hn; destruct (pnext_nonterm q A Hq) as [C D] end.
       split; [exact C|]. unfold pmu. cbn [prank]. lia. }
  (* colon: on to parseColon with the colon still there *)
  5: { injection E as <- <-. split; [exact H|]. unfold pmu. cbn [prank]. rewrite Et. lia. }
  all: discriminate E.
Qed.

Lemma step_colon p : parse_step PColon p =
  let p1 := colon_go (S (S (length (p_toks p)))) p in
  let nt1 := p_nt p1 in
  match t_typ nt1 with
  | tokNewline => (pnext p1, Some PColon)
  | tokComment => (pnext (p_label_comment p1 (t_val nt1)), Some PColon)
  | _ =>
    if tok_is_op nt1 then (p1, Some (if tok_is_pseudo nt1 then PPseudoOp else POp))
    else match t_typ nt1 with
         | tokText => (p1, Some PLabels)
         | _ => (p_fail p1, None)
         end
  end.
Proof. reflexivity. Qed.

Lemma colon_go_colon n p : PI p -> t_typ (p_nt p) = tokColon ->
  (S (prem (colon_go (S n) p)) <= prem p)%nat.
Proof.
  intros H Et. cbn [colon_go]. rewrite Et.
  assert (Hn : is_terminal (p_nt p) = false) by nt_false Et.
  destruct (pnext_nonterm p H Hn) as [A B]. destruct (colon_go_PI n _ A) as [_ [D _]]. lia.
Qed.
Lemma colon_go_other n p : t_typ (p_nt p) <> tokColon -> colon_go n p = p.
Proof. intros Hne. destruct n; cbn [colon_go]; [reflexivity|]. destruct (t_typ (p_nt p)); try reflexivity. congruence. Qed.

Lemma dec_colon p p' st' : PI p -> parse_step PColon p = (p', Some st') -> decr PColon p st' p'.
Proof.
  intros H E. rewrite step_colon in E. cbv zeta in E.
  remember (S (length (p_toks p))) as n0 eqn:En0.
  destruct (colon_go_PI (S n0) p H) as [A [B _]].
  assert (K : (t_typ (p_nt p) = tokColon /\ (S (prem (colon_go (S n0) p)) <= prem p)%nat /\ prank PColon (p_nt p) = 1%nat)
              \/ (colon_go (S n0) p = p /\ prank PColon (p_nt p) = 3%nat)).
  { destruct (t_typ (p_nt p)) eqn:Et;
      try (right; split; [apply colon_go_other; congruence|cbn [prank]; rewrite Et; reflexivity]).
    left. split; [reflexivity|]. split; [apply colon_go_colon; assumption|cbn [prank]; rewrite Et; reflexivity]. }
  set (p1 := colon_go (S n0) p) in *.
  assert (R : forall st2 q, (prank st2 q <= 3)%nat -> (prem p' <= prem p1)%nat ->
              (prem p' < prem p1)%nat \/ (prank st2 q < 3)%nat \/ t_typ (p_nt p) = tokColon ->
              (4 * prem p' + prank st2 q < pmu PColon p)%nat).
  { intros st2 q Hq Hle Hs. unfold pmu. destruct K as [[K1 [K2 K3]]|[K1 K2]].
    - rewrite K3. lia.
    - rewrite K2. unfold p1 in *. rewrite K1 in *. destruct Hs as [Hs|[Hs|Hs]]; try lia.
      exfalso. cbn [prank] in K2. rewrite Hs in K2. discriminate. }
  destruct (t_typ (p_nt p1)) eqn:Et1.
  (* newline / comment: consumed *)
  10: { assert (Hn : is_terminal (p_nt p1) = false) by nt_false Et1. destruct (pnext_nonterm p1 A Hn) as [C D].
        injection E as <- <-. split; [exact C|]. unfold pmu at 1. apply R; [cbn [prank]; destruct (t_typ (p_nt (pnext p1))); lia|lia|left; lia]. }
  9: { assert (Hn : is_terminal (p_nt p1) = false) by nt_false Et1.
       injection E as <- <-. match goal with |- decr _ _ _ (pnext ?q) => samecore p1 q A A' B';
         assert (Hq : is_terminal (p_nt q) = false) by exact Hn; destruct (pnext_nonterm q A' Hq) as [C D] end.
       split; [exact C|]. unfold pmu at 1. apply R; [cbn [prank]; match goal with |- context [t_typ ?x] => destruct (t_typ x) end; lia|lia|left; lia]. }
  all: destruct (tok_is_op (p_nt p1)) eqn:Eo;
    [injection E as <- <-; split; [exact A|]; unfold pmu at 1; apply R;
       [destruct (tok_is_pseudo (p_nt p1)); cbn [prank]; lia|lia|right; left; destruct (tok_is_pseudo (p_nt p1)); cbn [prank]; lia]|].
  2: { injection E as <- <-. split; [exact A|]. unfold pmu at 1. apply R; [cbn [prank]; lia|lia|right; left; cbn [prank]; lia]. }
  all: discriminate E.
Qed.

(* states that begin by consuming the token they are looking at *)
Lemma after_next p q : PI p -> same_core p q ->
  PI (pnext q) /\ (prem (pnext q) <= prem p)%nat /\
  (is_terminal (p_nt p) = false -> (S (prem (pnext q)) <= prem p)%nat) /\
  (is_terminal (p_nt p) = true -> p_nt (pnext q) = p_nt p).
Proof.
  intros H S. destruct (same_core_PI p q S H) as [A B]. destruct S as [_ [Sn _]].
  destruct (pnext_PI q A) as [C [D [F G]]]. rewrite Sn in F, G. rewrite B in D, F. auto.
Qed.

Lemma dec_pseudo_op p p' st' : PI p -> parse_step PPseudoOp p = (p', Some st') -> decr PPseudoOp p st' p'.
Proof.
  intros H E. cbn [parse_step] in E.
  match type of E with context [pnext ?q] => destruct (after_next p q H ltac:(repeat split)) as [A [B [C D]]]; set (p3 := pnext q) in * end.
  destruct (is_terminal (p_nt p)) eqn:Hn.
  - (* nothing left: every branch ends *)
    specialize (D eq_refl). exfalso.
    assert (X : tok_is_expr_term (p_nt p3) = false) by (rewrite D; unfold is_terminal in Hn; unfold tok_is_expr_term; destruct (t_typ (p_nt p)); try discriminate Hn; reflexivity).
    rewrite X in E. rewrite D in E. unfold is_terminal in Hn.
    destruct (t_typ (p_nt p)); try discriminate Hn; destruct (tok_no_operands_ok (p_nt p)); discriminate E.
  - specialize (C eq_refl).
    destruct (tok_is_expr_term (p_nt p3)); [injection E as <- <-; split; [exact A|]; unfold pmu; cbn [prank]; lia|].
    destruct (t_typ (p_nt p3)) eqn:Et3; try discriminate E.
    + injection E as <- <-. split; [exact A|]. unfold pmu. cbn [prank]. lia.
    + destruct (tok_no_operands_ok (p_nt p)); [|discriminate E]. injection E as <- <-.
      destruct (pnext_any p3 A) as [F G].
      match goal with |- decr _ _ _ ?q => samecore (pnext p3) q F F' G' end.
      split; [exact F'|]. unfold pmu. rewrite G'. cbn [prank].
      assert (Hn3 : is_terminal (p_nt p3) = false) by nt_false Et3.
      destruct (pnext_nonterm p3 A Hn3) as [_ K]. lia.
    + destruct (tok_no_operands_ok (p_nt p)); discriminate E.
Qed.

Lemma dec_expr (st : pstate) p p1 acc refs : PI p ->
  expr_loop (S (S (length (p_toks p)))) p acc refs = (p1, acc, refs) -> True.
Proof. auto. Qed.

Ltac expr_case p H E :=
  match type of E with context [expr_loop ?f p ?a ?r] =>
    let X := fresh "X" in pose proof (expr_loop_PI f p a r H) as X;
    destruct (expr_loop f p a r) as [[p1 acc1] refs1]; destruct X as [A [B _]] end.

Lemma dec_pseudo_expr p p' st' : PI p -> parse_step PPseudoExpr p = (p', Some st') -> decr PPseudoExpr p st' p'.
Proof.
  intros H E. cbn [parse_step] in E. expr_case p H E.
  match type of E with context [t_typ (p_nt ?q)] => samecore p1 q A A' B'; set (p2 := q) in * end.
  destruct (t_typ (p_nt p2)) eqn:Et; try discriminate E.
  - injection E as <- <-. split; [exact A'|]. unfold pmu. rewrite B'. cbn [prank]. lia.
  - injection E as <- <-. destruct (pnext_any p2 A') as [F G].
    match goal with |- decr _ _ _ ?q => samecore (pnext p2) q F F' G' end.
    split; [exact F'|]. unfold pmu. rewrite G'. cbn [prank]. lia.
  - injection E as <- <-. samecore p2 (p_push_line p2) A' F G. split; [exact F|]. unfold pmu. rewrite G, B'. cbn [prank]. lia.
Qed.

Lemma dec_op p p' st' : PI p -> parse_step POp p = (p', Some st') -> decr POp p st' p'.
Proof.
  intros H E. cbn [parse_step] in E.
  match type of E with context [pnext ?q] => destruct (after_next p q H ltac:(repeat split)) as [A [B [C D]]]; set (p3 := pnext q) in * end.
  destruct (is_terminal (p_nt p)) eqn:Hn.
  - specialize (D eq_refl). exfalso. unfold is_terminal in Hn.
    assert (X1 : tok_is_amode (p_nt p3) = false) by (rewrite D; unfold tok_is_amode; destruct (t_typ (p_nt p)); try discriminate Hn; reflexivity).
    assert (X2 : tok_is_expr_term (p_nt p3) = false) by (rewrite D; unfold tok_is_expr_term; destruct (t_typ (p_nt p)); try discriminate Hn; reflexivity).
    rewrite X1, X2 in E. cbn [andb] in E. rewrite D in E. destruct (t_typ (p_nt p)); try discriminate Hn; discriminate E.
  - specialize (C eq_refl).
    assert (G : forall st2, (prank st2 (p_nt p3) <= 4)%nat -> (pmu st2 p3 < pmu POp p)%nat).
    { intros st2 Hr. unfold pmu. cbn [prank]. lia. }
    destruct (tok_is_amode (p_nt p3)); [injection E as <- <-; split; [exact A|apply G; cbn; lia]|].
    destruct (tok_is_expr_term (p_nt p3) && negb (val_is (p_nt p3) 42)); [injection E as <- <-; split; [exact A|apply G; cbn; lia]|].
    destruct (t_typ (p_nt p3)); try discriminate E.
    destruct (val_is (p_nt p3) 42); injection E as <- <-; (split; [exact A|apply G; cbn; lia]).
Qed.

Lemma dec_mode (st : pstate) p p' st' : (st = PModeA \/ st = PModeB) -> PI p ->
  parse_step st p = (p', Some st') -> decr st p st' p'.
Proof.
  intros Hst H E. destruct Hst as [-> | ->]; cbn [parse_step] in E;
  (match type of E with context [pnext ?q] => destruct (after_next p q H ltac:(repeat split)) as [A [B [C D]]]; set (p1 := pnext q) in * end;
   destruct (is_terminal (p_nt p)) eqn:Hn;
   [specialize (D eq_refl); exfalso; unfold is_terminal in Hn;
    assert (X2 : tok_is_expr_term (p_nt p1) = false) by (rewrite D; unfold tok_is_expr_term; destruct (t_typ (p_nt p)); try discriminate Hn; reflexivity);
    rewrite X2 in E; discriminate E
   |specialize (C eq_refl); destruct (tok_is_expr_term (p_nt p1)); [|discriminate E];
    injection E as <- <-; split; [exact A|]; unfold pmu; cbn [prank]; lia]).
Qed.

Lemma dec_expr_a p p' st' : PI p -> parse_step PExprA p = (p', Some st') -> decr PExprA p st' p'.
Proof.
  intros H E. cbn [parse_step] in E. expr_case p H E.
  match type of E with context [t_typ (p_nt ?q)] => samecore p1 q A A' B'; set (p2 := q) in * end.
  destruct (t_typ (p_nt p2)) eqn:Et; try discriminate E;
    try (injection E as <- <-; split; [exact A'|]; unfold pmu; rewrite B'; cbn [prank]; lia);
    (injection E as <- <-; samecore p2 (p_push_line p2) A' F G; split; [exact F|]; unfold pmu; rewrite G, B'; cbn [prank]; lia).
Qed.

Lemma dec_comma p p' st' : PI p -> parse_step PComma p = (p', Some st') -> decr PComma p st' p'.
Proof.
  intros H E. cbn [parse_step] in E.
  destruct (after_next p p H ltac:(repeat split)) as [A [B [C D]]]. set (p1 := pnext p) in *.
  destruct (is_terminal (p_nt p)) eqn:Hn.
  - specialize (D eq_refl). exfalso. unfold is_terminal in Hn.
    assert (X1 : tok_is_amode (p_nt p1) = false) by (rewrite D; unfold tok_is_amode; destruct (t_typ (p_nt p)); try discriminate Hn; reflexivity).
    assert (X2 : tok_is_expr_term (p_nt p1) = false) by (rewrite D; unfold tok_is_expr_term; destruct (t_typ (p_nt p)); try discriminate Hn; reflexivity).
    rewrite X1, X2 in E. discriminate E.
  - specialize (C eq_refl). destruct (tok_is_amode (p_nt p1)); [injection E as <- <-; split; [exact A|]; unfold pmu; cbn [prank]; lia|].
    destruct (tok_is_expr_term (p_nt p1)); [|discriminate E]. injection E as <- <-. split; [exact A|]. unfold pmu. cbn [prank]. lia.
Qed.

Lemma dec_expr_b p p' st' : PI p -> parse_step PExprB p = (p', Some st') -> decr PExprB p st' p'.
Proof.
  intros H E. cbn [parse_step] in E. expr_case p H E.
  match type of E with context [t_typ (p_nt ?q)] => samecore p1 q A A' B'; set (p2 := q) in * end.
  destruct (t_typ (p_nt p2)) eqn:Et; try discriminate E.
  - injection E as <- <-. split; [exact A'|]. unfold pmu. rewrite B'. cbn [prank]. lia.
  - injection E as <- <-.
    match goal with |- decr _ _ _ (pnext ?q) => samecore p2 q A' F G; destruct (pnext_any q F) as [F' G'] end.
    split; [exact F'|]. unfold pmu. cbn [prank]. lia.
  - injection E as <- <-. samecore p2 (p_push_line p2) A' F G. split; [exact F|]. unfold pmu. rewrite G, B'. cbn [prank]. lia.
Qed.

Lemma parse_step_decreases st p p' st' : PI p -> parse_step st p = (p', Some st') -> decr st p st' p'.
Proof.
  destruct st; intros H E.
  - apply dec_line; assumption.
  - apply dec_empty; assumption.
  - apply dec_comment; assumption.
  - apply dec_labels; assumption.
  - apply dec_colon; assumption.
  - apply dec_pseudo_op; assumption.
  - apply dec_pseudo_expr; assumption.
  - apply dec_op; assumption.
  - apply dec_mode; auto.
  - apply dec_expr_a; assumption.
  - apply dec_comma; assumption.
  - apply dec_mode; auto.
  - apply dec_expr_b; assumption.
Qed.

Lemma parse_run_ends n : forall st p, PI p -> (pmu st p < n)%nat -> exists p', parse_run n st p = Some p'.
Proof.
  induction n as [|n IH]; intros st p H Hn; [lia|].
  cbn [parse_run]. destruct (parse_step st p) as [p1 [st1|]] eqn:E.
  - destruct (parse_step_decreases st p p1 st1 H E) as [A B]. apply IH; [exact A|lia].
  - eexists. reflexivity.
Qed.

(* the parser always ends within its fuel on what the lexer or the expander delivers *)
Theorem parse_total toks : closed_stream toks -> parse toks <> None.
Proof.
  intros C. unfold parse.
  set (p00 := mkP toks (mkT tokError []) false 1 0 false (empty_sline 1) (mkPM [] [] []) false [] predefined []).
  assert (H0 : PI (pnext p00) /\ (prem (pnext p00) <= length toks)%nat).
  { unfold pnext, PI, prem, p00. pcbn. destruct toks as [|t rest]; [exfalso; apply (closed_nonempty _ C); reflexivity|].
    pcbn. destruct (is_terminal t) eqn:Et.
    - split; [apply (closed_terminal_last t rest C Et)|lia].
    - split; [split; [reflexivity|apply (closed_cons t rest C Et)]|cbn [length]; lia]. }
  destruct H0 as [H0 H1].
  destruct (parse_run_ends (4 * length toks + 10) PLine (pnext p00) H0) as [p' E].
  - unfold pmu. pose proof (prank_le PLine (p_nt (pnext p00))). lia.
  - rewrite E. destruct (p_err p'); [discriminate|]. destruct (forallb _ _); discriminate.
Qed.
